// Package verifc01 is a helper for the C01 harness files (injected with
// `go test -overlay`, never part of /repo): an in-memory network whose
// connections never block on Write and which detects, without timers, the
// moment when every participant is blocked in a Read that can no longer be
// satisfied (a message was dropped, a length prefix enlarged, one side
// finished).  At that moment all connections are closed, exactly like a man in
// the middle that stops forwarding; the handshakes then return their errors.
package verifc01

import (
	"io"
	"net"
	"sync"
	"time"
)

// World is one test case: a set of participants (endpoint handshakes and proxy
// goroutines) and the connections between them.
type World struct {
	mu      sync.Mutex
	cond    *sync.Cond
	live    int
	blocked int
	dead    bool
	halves  []*half
	Tripped bool // the deadlock detector fired
}

func NewWorld() *World {
	w := &World{}
	w.cond = sync.NewCond(&w.mu)
	return w
}

// Add registers n more participants.
func (w *World) Add(n int) {
	w.mu.Lock()
	w.live += n
	w.mu.Unlock()
}

// Done: one participant returned.
func (w *World) Done() {
	w.mu.Lock()
	w.live--
	w.check()
	w.mu.Unlock()
}

// wake: the state changed; every waiter re-evaluates, so nobody counts as
// blocked until it has gone back to sleep (called with the lock held).
func (w *World) wake() {
	w.blocked = 0
	w.cond.Broadcast()
}

func (w *World) check() {
	if !w.dead && w.live > 0 && w.blocked >= w.live {
		w.dead = true
		w.Tripped = true
		for _, h := range w.halves {
			h.wclosed = true
		}
		w.wake()
	}
}

// WaitFor blocks the calling participant until pred() holds (evaluated under
// the world's lock); false if the world was shut down first.
func (w *World) WaitFor(pred func() bool) bool {
	w.mu.Lock()
	defer w.mu.Unlock()
	for !pred() {
		if w.dead {
			return false
		}
		w.blocked++
		w.check()
		if !w.dead {
			w.cond.Wait()
		}
	}
	return true
}

// Locked runs f under the world's lock and wakes everybody.
func (w *World) Locked(f func()) {
	w.mu.Lock()
	f()
	w.wake()
	w.mu.Unlock()
}

// one direction of a connection
type half struct {
	buf     []byte
	wclosed bool // the writer closed: the reader sees EOF after the buffered bytes
	rclosed bool // the reader closed: writes fail
}

// Conn is one end of an in-memory duplex connection.
type Conn struct {
	w      *World
	rd, wr *half
	name   string
}

type addr string

func (a addr) Network() string { return "c01" }
func (a addr) String() string  { return string(a) }

// Pipe returns the two ends of a new connection.
func (w *World) Pipe(a, b string) (*Conn, *Conn) {
	h1, h2 := &half{}, &half{}
	w.mu.Lock()
	w.halves = append(w.halves, h1, h2)
	w.mu.Unlock()
	return &Conn{w: w, rd: h1, wr: h2, name: a}, &Conn{w: w, rd: h2, wr: h1, name: b}
}

func (c *Conn) Read(b []byte) (int, error) {
	if len(b) == 0 {
		return 0, nil
	}
	w := c.w
	w.mu.Lock()
	defer w.mu.Unlock()
	for {
		if c.rd.rclosed {
			return 0, io.ErrClosedPipe
		}
		if len(c.rd.buf) > 0 {
			n := copy(b, c.rd.buf)
			c.rd.buf = c.rd.buf[n:]
			return n, nil
		}
		if c.rd.wclosed || w.dead {
			return 0, io.EOF
		}
		w.blocked++
		w.check()
		if !w.dead {
			w.cond.Wait()
		}
	}
}

func (c *Conn) Write(b []byte) (int, error) {
	w := c.w
	w.mu.Lock()
	defer w.mu.Unlock()
	if c.wr.wclosed || c.wr.rclosed {
		return 0, io.ErrClosedPipe
	}
	c.wr.buf = append(c.wr.buf, b...)
	w.wake()
	return len(b), nil
}

// Close closes both directions.
func (c *Conn) Close() error {
	w := c.w
	w.mu.Lock()
	c.wr.wclosed = true
	c.rd.rclosed = true
	w.wake()
	w.mu.Unlock()
	return nil
}

// CloseWrite ends the outgoing direction only (the peer reads EOF).
func (c *Conn) CloseWrite() {
	w := c.w
	w.mu.Lock()
	c.wr.wclosed = true
	w.wake()
	w.mu.Unlock()
}

func (c *Conn) LocalAddr() net.Addr                { return addr(c.name) }
func (c *Conn) RemoteAddr() net.Addr               { return addr(c.name + "-peer") }
func (c *Conn) SetDeadline(t time.Time) error      { return nil }
func (c *Conn) SetReadDeadline(t time.Time) error  { return nil }
func (c *Conn) SetWriteDeadline(t time.Time) error { return nil }

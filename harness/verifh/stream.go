package verifh

// Helpers for the byte-fidelity harnesses (property C02): a shared
// pseudo-random reference stream and a writer/reader pair that records, for
// every Read, (buffer length, result, bytes returned, bytes equal the written
// stream at the current offset) in the wire format of /verif/coq/c02/Spec.v.

import (
	"bytes"
	"encoding/binary"
	"errors"
	"io"
	"sync"
	"time"
)

var (
	refOnce   sync.Once
	refStream []byte
)

// Ref returns the shared reference stream (2 MiB, pseudo-random so that a
// shifted, repeated or foreign chunk never compares equal).
func Ref() []byte {
	refOnce.Do(func() {
		refStream = make([]byte, 2<<20)
		r := NewRand(0xC02)
		for i := 0; i+8 <= len(refStream); i += 8 {
			binary.LittleEndian.PutUint64(refStream[i:], r.Uint64())
		}
	})
	return refStream
}

// StreamCase runs one writer/reader pair.  The writer writes Ref()[base:] in
// pieces of wlens and then calls closeWrite (half-close); the reader keeps
// reading with buffers of blens (cyclic) until EOF or an error.  Returns the
// case line: kind cfg W wlens.. 0 0 1 R (blen res n ok)*.
func StreamCase(kind, cfg int64, base int, wlens, blens []int, w io.Writer, closeWrite func() error, r io.Reader, timeout time.Duration) []int64 {
	return StreamCaseRetry(kind, cfg, base, wlens, blens, w, closeWrite, r, timeout, nil, nil)
}

// StreamCaseRetry is StreamCase for a reader that treats a timeout as
// retryable: the bytes returned together with the timeout count (io.Reader
// contract), onTimeout is called (to extend the deadline) and reading goes on.
// beforeRead, if set, runs once after the writer was started and before the
// first Read.
func StreamCaseRetry(kind, cfg int64, base int, wlens, blens []int, w io.Writer, closeWrite func() error, r io.Reader, timeout time.Duration, beforeRead func(), onTimeout func()) []int64 {
	ref := Ref()
	total := 0
	for _, l := range wlens {
		total += l
	}
	done := make(chan struct{})
	go func() {
		defer close(done)
		off := base
		for _, l := range wlens {
			if _, err := w.Write(ref[off : off+l]); err != nil {
				break
			}
			off += l
		}
		if closeWrite != nil {
			closeWrite()
		}
	}()
	// a payload of hundreds of kilobytes read through a buffer of a few bytes is
	// hundreds of thousands of reads: keep tiny buffers for the first 64 reads only
	small := 0
	line := []int64{kind, cfg, int64(len(wlens))}
	for _, l := range wlens {
		line = append(line, int64(l))
	}
	line = append(line, 0, 0, 1)
	maxbuf := 1024
	for _, b := range blens {
		if b > maxbuf {
			maxbuf = b
		}
	}
	buf := make([]byte, maxbuf)
	var reads []int64
	delivered := 0
	deadline := time.Now().Add(timeout)
	if beforeRead != nil {
		beforeRead()
	}
	retries := 0
	for i := 0; i < 2000000; i++ {
		bl := blens[i%len(blens)]
		if bl < 512 {
			small++
			if small > 64 && total > 4096 {
				bl = 512 + bl
				if bl > maxbuf {
					bl = maxbuf
				}
			}
		}
		n, err := r.Read(buf[:bl])
		res, ok := int64(0), int64(1)
		if n > 0 {
			if base+delivered+n > len(ref) || !bytes.Equal(buf[:n], ref[base+delivered:base+delivered+n]) {
				ok = 0
			}
			delivered += n
		}
		if err != nil && onTimeout != nil && retries < 16 && isTimeout(err) {
			// retryable: keep the n bytes, extend the deadline, go on
			retries++
			if n > 0 {
				reads = append(reads, int64(bl), 0, int64(n), ok)
			}
			onTimeout()
			continue
		}
		if err != nil {
			res = 2
			if errors.Is(err, io.EOF) {
				res = 1
			}
			if n > 0 {
				reads = append(reads, int64(bl), 0, int64(n), ok)
				n, ok = 0, 1
			}
		}
		reads = append(reads, int64(bl), res, int64(n), ok)
		if res != 0 {
			break
		}
		if time.Now().After(deadline) {
			reads = append(reads, int64(bl), 2, 0, 1) // stuck: reported as an error
			break
		}
	}
	select {
	case <-done:
	case <-time.After(2 * time.Second):
	}
	line = append(line, int64(len(reads)/4))
	return append(line, reads...)
}

func isTimeout(err error) bool {
	type timeout interface{ Timeout() bool }
	var te timeout
	if errors.As(err, &te) {
		return te.Timeout()
	}
	return false
}

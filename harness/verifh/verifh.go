// Package verifh holds helpers shared by the verification harness files that
// are injected into /repo's packages with `go test -overlay` (never part of
// the repository).  One PRNG, one canonical line writer, coverage counters.
package verifh

import (
	"bufio"
	"fmt"
	"os"
	"sort"
	"strconv"
	"strings"
	"sync"
)

// Rand is splitmix64; every random choice of a harness derives from one
// state seeded from VERIF_SEED so that a disagreement replays exactly.
type Rand struct{ s uint64 }

func NewRand(seed uint64) *Rand { return &Rand{s: seed*0x9E3779B97F4A7C15 + 0x1234567} }

func Seed() uint64 {
	v := os.Getenv("VERIF_SEED")
	if v == "" {
		return 1
	}
	n, err := strconv.ParseUint(v, 10, 64)
	if err != nil {
		return 1
	}
	return n
}

func Tier() string {
	if os.Getenv("VERIF_TIER") == "thorough" {
		return "thorough"
	}
	return "quick"
}

func (r *Rand) Uint64() uint64 {
	r.s += 0x9E3779B97F4A7C15
	z := r.s
	z = (z ^ (z >> 30)) * 0xBF58476D1CE4E5B9
	z = (z ^ (z >> 27)) * 0x94D049BB133111EB
	return z ^ (z >> 31)
}

// Intn returns a value in [0,n).
func (r *Rand) Intn(n int) int {
	if n <= 0 {
		return 0
	}
	return int(r.Uint64() % uint64(n))
}

func (r *Rand) Bool() bool { return r.Uint64()&1 == 1 }

// Chance returns true with probability num/den.
func (r *Rand) Chance(num, den int) bool { return r.Intn(den) < num }

// Fork derives an independent generator (for per-case streams).
func (r *Rand) Fork() *Rand { return &Rand{s: r.Uint64()} }

// Out writes cases, one line of integers each, to $VERIF_OUT, and coverage
// counters to $VERIF_OUT.cov (name count per line).
type Out struct {
	mu  sync.Mutex
	f   *os.File
	w   *bufio.Writer
	cov map[string]int64
	n   int64
}

func Open() (*Out, error) {
	p := os.Getenv("VERIF_OUT")
	if p == "" {
		return nil, fmt.Errorf("VERIF_OUT not set")
	}
	f, err := os.Create(p)
	if err != nil {
		return nil, err
	}
	return &Out{f: f, w: bufio.NewWriterSize(f, 1<<20), cov: map[string]int64{}}, nil
}

// Case writes one case line.
func (o *Out) Case(vals []int64) {
	o.mu.Lock()
	defer o.mu.Unlock()
	var sb strings.Builder
	for i, v := range vals {
		if i > 0 {
			sb.WriteByte(' ')
		}
		sb.WriteString(strconv.FormatInt(v, 10))
	}
	sb.WriteByte('\n')
	o.w.WriteString(sb.String())
	o.n++
}

// Comment writes a '#' line (ignored by the model driver, kept for readers).
func (o *Out) Comment(s string) {
	o.mu.Lock()
	defer o.mu.Unlock()
	o.w.WriteString("# " + strings.ReplaceAll(s, "\n", " ") + "\n")
}

// Cover increments a named coverage counter.
func (o *Out) Cover(name string) { o.CoverN(name, 1) }

func (o *Out) CoverN(name string, k int64) {
	o.mu.Lock()
	o.cov[name] += k
	o.mu.Unlock()
}

func (o *Out) Close() error {
	o.mu.Lock()
	defer o.mu.Unlock()
	if err := o.w.Flush(); err != nil {
		return err
	}
	if err := o.f.Close(); err != nil {
		return err
	}
	names := make([]string, 0, len(o.cov))
	for k := range o.cov {
		names = append(names, k)
	}
	sort.Strings(names)
	var sb strings.Builder
	for _, k := range names {
		fmt.Fprintf(&sb, "%s %d\n", k, o.cov[k])
	}
	return os.WriteFile(os.Getenv("VERIF_OUT")+".cov", []byte(sb.String()), 0o644)
}

// ReplayCase parses $VERIF_REPLAY_CASE (a case line) for the replay tests.
func ReplayCase() []int64 {
	var res []int64
	for _, f := range strings.Fields(os.Getenv("VERIF_REPLAY_CASE")) {
		n, err := strconv.ParseInt(f, 10, 64)
		if err != nil {
			return nil
		}
		res = append(res, n)
	}
	return res
}

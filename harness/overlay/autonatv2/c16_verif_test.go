//go:build verif

package autonatv2

// C16 correspondence harness (injected with `go test -overlay`; not part of
// /repo).  Drives the real rateLimiter, readDialData and serveDialRequest and
// writes one case per line in the wire format documented in
// /verif/coq/c16/Spec.v.

import (
	"bytes"
	"encoding/binary"
	"fmt"
	"io"
	"strings"
	"testing"
	"time"

	"github.com/libp2p/go-libp2p/core/peer"
	"github.com/libp2p/go-libp2p/internal/verifh"
	"github.com/libp2p/go-libp2p/p2p/protocol/autonatv2/pb"
	ma "github.com/multiformats/go-multiaddr"
	"google.golang.org/protobuf/proto"
)

func TestVerifNothing(t *testing.T) {}

func c16Scale(quick, thorough int) int {
	if verifh.Tier() == "thorough" {
		return thorough
	}
	return quick
}

// ---------------------------------------------------------------------------
// kind 0: rateLimiter histories on a virtual clock
// ---------------------------------------------------------------------------

type c16Clock struct{ ns int64 }

var c16Base = time.Date(2024, 1, 1, 0, 0, 0, 0, time.UTC)

func (c *c16Clock) Now() time.Time { return c16Base.Add(time.Duration(c.ns)) }

func c16Peer(i int64) peer.ID { return peer.ID(fmt.Sprintf("verif-peer-%03d", i)) }

type c16RL struct {
	r     *rateLimiter
	clk   *c16Clock
	line  []int64
	out   *verifh.Out
	acc   []int64 // times of accepted requests (for boundary-aimed clock steps)
	accDD []int64
	infl  map[int64]int
	refus bool
}

func newC16RL(out *verifh.Out, rpm, pp, dd, mc int) *c16RL {
	clk := &c16Clock{}
	return &c16RL{
		r:    &rateLimiter{RPM: rpm, PerPeerRPM: pp, DialDataRPM: dd, MaxConcurrentRequestsPerPeer: mc, now: clk.Now},
		clk:  clk,
		line: []int64{0, int64(rpm), int64(pp), int64(dd), int64(mc)},
		out:  out,
		infl: map[int64]int{},
	}
}

// the limiter of a server built through the public path: New + WithServerRateLimit.  The case
// header carries the values the USER passed, never what ended up in the struct.
func newC16RLViaOptions(out *verifh.Out, rpm, pp, dd, mc int) *c16RL {
	h := newC16RL(out, rpm, pp, dd, mc)
	an, err := New(nil, WithServerRateLimit(rpm, pp, dd, mc))
	if err != nil {
		panic(err)
	}
	h.r = an.srv.limiter
	h.r.now = h.clk.Now // the only test plumbing: a virtual clock
	out.Cover("rl.limiter_built_by_New_WithServerRateLimit")
	return h
}

// four pairwise different limits
func c16Distinct(r *verifh.Rand, lo, span int) (int, int, int, int) {
	v := make([]int, 0, 4)
	for len(v) < 4 {
		x := lo + r.Intn(span)
		dup := false
		for _, y := range v {
			dup = dup || x == y
		}
		if !dup {
			v = append(v, x)
		}
	}
	return v[0], v[1], v[2], v[3]
}

// kind 3: what New(...) hands to the server for a given set of options
func c16Wiring(out *verifh.Out, r *verifh.Rand) {
	rpm, pp, dd, mc := c16Distinct(r, 1, 200)
	opts := []AutoNATOption{WithServerRateLimit(rpm, pp, dd, mc)}
	ap := int64(0)
	if r.Bool() {
		opts = append(opts, AllowPrivateAddrs)
		ap = 1
	}
	if r.Bool() { // order of options must not matter
		opts[0], opts[len(opts)-1] = opts[len(opts)-1], opts[0]
	}
	an, err := New(nil, opts...)
	if err != nil {
		panic(err)
	}
	l := an.srv.limiter
	gap := int64(0)
	if an.srv.allowPrivateAddrs {
		gap = 1
	}
	// the default data-request policy must be the amplification check: same IP -> no data, other IP -> data
	pol := int64(0)
	same := an.srv.dialDataRequestPolicy(ma.StringCast("/ip4/1.2.3.4/tcp/1"), ma.StringCast("/ip4/1.2.3.4/udp/9/quic-v1"))
	other := an.srv.dialDataRequestPolicy(ma.StringCast("/ip4/1.2.3.4/tcp/1"), ma.StringCast("/ip4/1.2.3.5/tcp/1"))
	if !same && other {
		pol = 1
	}
	out.Case([]int64{3, int64(rpm), int64(pp), int64(dd), int64(mc), ap, 1,
		int64(l.RPM), int64(l.PerPeerRPM), int64(l.DialDataRPM), int64(l.MaxConcurrentRequestsPerPeer), gap, pol})
	out.Cover("wiring.cases")
}

func (h *c16RL) boundaryHit() bool {
	for _, e := range h.r.reqs {
		if h.clk.Now().Sub(e.Time) == time.Minute {
			return true
		}
	}
	return false
}

func (h *c16RL) accept(p int64) bool {
	if h.boundaryHit() {
		h.out.Cover("rl.accept.entry_exactly_one_minute_old")
	}
	before := len(h.r.reqs)
	closed := h.r.closed
	ok := h.r.Accept(c16Peer(p))
	pid := c16Peer(p)
	okz := int64(0)
	if ok {
		okz = 1
		h.acc = append(h.acc, h.clk.ns)
		h.infl[p]++
		h.out.Cover("rl.accept.ok")
		if len(h.r.reqs) < before+1 {
			h.out.Cover("rl.accept.ok_after_cleanup_trimmed")
		}
	} else {
		h.refus = true
		switch {
		case closed:
			h.out.Cover("rl.accept.refused_closed")
		case h.r.inProgressReqs[pid] >= h.r.MaxConcurrentRequestsPerPeer:
			h.out.Cover("rl.accept.refused_concurrent")
		case len(h.r.reqs) >= h.r.RPM:
			h.out.Cover("rl.accept.refused_global")
		default:
			h.out.Cover("rl.accept.refused_per_peer")
		}
		if len(h.r.reqs) < before {
			h.out.Cover("rl.accept.refused_after_cleanup_trimmed")
		}
	}
	h.line = append(h.line, 1, p, h.clk.ns, okz, int64(len(h.r.reqs)), int64(len(h.r.peerReqs[pid])), int64(h.r.inProgressReqs[pid]))
	return ok
}

func (h *c16RL) acceptDD() {
	closed := h.r.closed
	ok := h.r.AcceptDialDataRequest()
	okz := int64(0)
	if ok {
		okz = 1
		h.accDD = append(h.accDD, h.clk.ns)
		h.out.Cover("rl.dialdata.ok")
	} else if closed {
		h.out.Cover("rl.dialdata.refused_closed")
	} else {
		h.refus = true
		h.out.Cover("rl.dialdata.refused_limit")
	}
	h.line = append(h.line, 2, h.clk.ns, okz, int64(len(h.r.dialDataReqs)))
}

func (h *c16RL) complete(p int64) {
	if h.infl[p] > 0 {
		h.infl[p]--
		h.out.Cover("rl.complete.in_flight")
	} else {
		h.out.Cover("rl.complete.spurious")
	}
	h.r.CompleteRequest(c16Peer(p))
	h.line = append(h.line, 3, p, int64(h.r.inProgressReqs[c16Peer(p)]))
}

func (h *c16RL) close() {
	h.r.Close()
	h.infl = map[int64]int{}
	h.line = append(h.line, 4)
	h.out.Cover("rl.close")
}

// advance the clock: steps aimed at the window edge of earlier accepted requests
func (h *c16RL) advance(r *verifh.Rand) {
	minute := int64(time.Minute)
	pick := func(l []int64) (int64, bool) {
		if len(l) == 0 {
			return 0, false
		}
		// prefer recent entries: those are the ones still in the window
		k := len(l) - 1 - r.Intn(min(len(l), 12))
		return l[k], true
	}
	var target int64 = -1
	switch r.Intn(14) {
	case 0, 1, 2:
		// no advance: burst at one instant
		return
	case 3:
		h.clk.ns++
		return
	case 4, 5:
		h.clk.ns += int64(r.Intn(int(5 * time.Second)))
		return
	case 6:
		if t, ok := pick(h.acc); ok {
			target = t + minute // exactly one minute old
		}
	case 7:
		if t, ok := pick(h.acc); ok {
			target = t + minute - 1 // one nanosecond short
		}
	case 8:
		if t, ok := pick(h.acc); ok {
			target = t + minute + 1
		}
	case 9:
		if t, ok := pick(h.accDD); ok {
			target = t + minute - int64(r.Intn(2))
		}
	case 10:
		h.clk.ns += int64(r.Intn(int(40 * time.Second)))
		return
	case 11:
		h.clk.ns += minute + int64(r.Intn(int(time.Minute)))
		h.out.Cover("rl.clock.jump_over_window")
		return
	default:
		h.clk.ns += int64(r.Intn(int(time.Second)))
		return
	}
	if target > h.clk.ns {
		h.clk.ns = target
		h.out.Cover("rl.clock.aimed_at_window_edge")
	}
}

func c16RLRandom(out *verifh.Out, r *verifh.Rand, length int) {
	var rpm, pp, dd, mc, npeers int
	switch r.Intn(6) {
	case 0: // production defaults
		s := defaultSettings()
		rpm, pp, dd, mc = s.serverRPM, s.serverPerPeerRPM, s.serverDialDataRPM, s.maxConcurrentRequestsPerPeer
		npeers = 2 + r.Intn(8)
		out.Cover("rl.config.defaults")
	case 1: // degenerate limits
		rpm, pp, dd, mc = r.Intn(3), r.Intn(3), r.Intn(2), r.Intn(3)
		npeers = 1 + r.Intn(3)
		out.Cover("rl.config.degenerate")
	case 2, 3: // four pairwise different small limits
		rpm, pp, dd, mc = c16Distinct(r, 1, 7)
		npeers = 1 + r.Intn(5)
		out.Cover("rl.config.all_different")
	default:
		rpm, pp, dd, mc = 1+r.Intn(8), 1+r.Intn(4), 1+r.Intn(3), 1+r.Intn(3)
		npeers = 1 + r.Intn(5)
		out.Cover("rl.config.small")
	}
	var h *c16RL
	if r.Chance(2, 3) {
		h = newC16RLViaOptions(out, rpm, pp, dd, mc)
	} else {
		h = newC16RL(out, rpm, pp, dd, mc)
	}
	closeAt := -1
	if r.Chance(1, 8) {
		closeAt = length/2 + r.Intn(length/2+1)
	}
	for i := 0; i < length; i++ {
		if i == closeAt {
			h.close()
		}
		h.advance(r)
		k := r.Intn(20)
		switch {
		case k < 10:
			h.accept(int64(r.Intn(npeers)))
		case k < 14:
			h.acceptDD()
		case k < 19:
			// complete a request in flight, if any
			var cands []int64
			for p := int64(0); p < int64(npeers); p++ {
				if h.infl[p] > 0 {
					cands = append(cands, p)
				}
			}
			if len(cands) > 0 {
				h.complete(cands[r.Intn(len(cands))])
			} else {
				h.accept(int64(r.Intn(npeers)))
			}
		default:
			// possibly spurious (the server never does this: CompleteRequest is deferred after a
			// successful Accept; before the first Accept the maps are nil and it would panic)
			if h.r.inProgressReqs != nil || h.r.closed {
				h.complete(int64(r.Intn(npeers)))
			}
		}
	}
	out.Cover("rl.cases")
	if h.refus {
		out.Cover("rl.cases_with_refusal")
	}
	out.Case(h.line)
}

// every sequence over a small alphabet: one peer pair, clock steps of 0 / 30 s / exactly a minute
func c16RLExhaustive(out *verifh.Out, depth int) {
	type step struct {
		dt   int64
		kind int // 0 accept p0, 1 accept p1, 2 dd, 3 complete p0
	}
	var alphabet []step
	for _, dt := range []int64{0, int64(30 * time.Second), int64(time.Minute) - 1} {
		for k := 0; k < 4; k++ {
			alphabet = append(alphabet, step{dt, k})
		}
	}
	seq := make([]int, depth)
	var rec func(i int)
	rec = func(i int) {
		if i == depth {
			h := newC16RL(out, 2, 1, 1, 1)
			for _, s := range seq {
				st := alphabet[s]
				h.clk.ns += st.dt
				switch st.kind {
				case 0:
					h.accept(0)
				case 1:
					h.accept(1)
				case 2:
					h.acceptDD()
				case 3:
					if h.infl[0] > 0 {
						h.complete(0)
					} else {
						h.accept(0)
					}
				}
			}
			out.Cover("rl.exhaustive.cases")
			out.Case(h.line)
			return
		}
		for s := range alphabet {
			seq[i] = s
			rec(i + 1)
		}
	}
	rec(0)
}

// ---------------------------------------------------------------------------
// kind 1: readDialData on scripted streams
// ---------------------------------------------------------------------------

type c16Msg struct {
	mk, L, D int64
	wire     []byte // bytes on the wire, including the length prefix
	complete bool   // the whole message is on the wire
}

func c16Uvarint(x uint64) []byte {
	b := make([]byte, binary.MaxVarintLen64)
	return b[:binary.PutUvarint(b, x)]
}

// a well-formed DialDataResponse carrying d bytes
func c16WellFormed(d int) c16Msg {
	m := &pb.Message{Msg: &pb.Message_DialDataResponse{DialDataResponse: &pb.DialDataResponse{Data: make([]byte, d)}}}
	b, err := proto.Marshal(m)
	if err != nil {
		panic(err)
	}
	return c16Msg{mk: 0, L: int64(len(b)), D: int64(d), wire: append(c16Uvarint(uint64(len(b))), b...), complete: true}
}

// l raw bytes behind a correct length prefix (not a protobuf message at all)
func c16Raw(l int, fill byte) c16Msg {
	b := bytes.Repeat([]byte{fill}, l)
	return c16Msg{mk: 0, L: int64(l), D: int64(l), wire: append(c16Uvarint(uint64(l)), b...), complete: true}
}

// a message whose body stops short, or whose length prefix is not a varint
func c16Broken(r *verifh.Rand) c16Msg {
	if r.Chance(1, 3) {
		return c16Msg{mk: 1, wire: bytes.Repeat([]byte{0xff}, 11)}
	}
	l := 50 + r.Intn(3000)
	have := r.Intn(l)
	return c16Msg{mk: 1, wire: append(c16Uvarint(uint64(l)), make([]byte, have)...)}
}

type c16CountReader struct {
	b     []byte
	off   int
	chunk int // max bytes per Read (0 = unlimited)
}

func (c *c16CountReader) Read(p []byte) (int, error) {
	if c.off >= len(c.b) {
		return 0, io.EOF
	}
	n := len(p)
	if c.chunk > 0 && n > c.chunk {
		n = c.chunk
	}
	n = copy(p[:n], c.b[c.off:])
	c.off += n
	return n, nil
}

func c16ErrCode(err error) int64 {
	switch {
	case err == nil:
		return 0
	case strings.Contains(err.Error(), "too small"):
		return 2
	default:
		return 1
	}
}

func c16RunDialData(out *verifh.Out, numBytes int, msgs []c16Msg, chunk int) {
	var wire []byte
	ends := make([]int, 0, len(msgs))
	for _, m := range msgs {
		wire = append(wire, m.wire...)
		if m.complete {
			ends = append(ends, len(wire))
		} else {
			ends = append(ends, -1)
		}
	}
	rd := &c16CountReader{b: wire, chunk: chunk}
	err := readDialData(numBytes, rd)
	res := c16ErrCode(err)
	consumed := int64(0)
	for i, e := range ends {
		if e < 0 || e > rd.off {
			break
		}
		// an oversized message is never read: only its prefix is
		if msgs[i].L > maxMsgSize {
			break
		}
		consumed++
	}
	line := []int64{1, int64(numBytes), int64(len(msgs))}
	for _, m := range msgs {
		line = append(line, m.mk, m.L, m.D)
	}
	line = append(line, res, consumed)
	out.Case(line)
	out.Cover("dd.cases")
	switch res {
	case 0:
		out.Cover("dd.result.ok")
	case 1:
		out.Cover("dd.result.read_error")
	case 2:
		out.Cover("dd.result.too_small")
	}
}

func c16DialDataRandom(out *verifh.Out, r *verifh.Rand) {
	var n int
	switch r.Intn(8) {
	case 0:
		n = minHandshakeSizeBytes + r.Intn(maxHandshakeSizeBytes-minHandshakeSizeBytes)
		out.Cover("dd.n.production_range")
	case 1:
		n = []int{-5, 0, 1, 99, 100, 101, 127, 128, 129}[r.Intn(9)]
		out.Cover("dd.n.tiny")
	default:
		n = 150 + r.Intn(3000)
		out.Cover("dd.n.small")
	}
	size := func() int {
		switch r.Intn(10) {
		case 0:
			return 100 + r.Intn(40) // around the one/two-byte varint boundary
		case 1:
			return 8186 - r.Intn(4) // largest that fits maxMsgSize
		case 2:
			return 100 + r.Intn(3)
		default:
			if n > 20000 {
				return 1000 + r.Intn(7000)
			}
			return 100 + r.Intn(900)
		}
	}
	var msgs []c16Msg
	sent := 0
	strategy := r.Intn(9)
	for sent < n && len(msgs) < 400 {
		d := size()
		var m c16Msg
		if r.Chance(1, 6) {
			m = c16Raw(d+r.Intn(8), byte(r.Intn(256)))
			out.Cover("dd.msg.raw_bytes")
		} else {
			m = c16WellFormed(d)
		}
		msgs = append(msgs, m)
		sent += d
	}
	switch strategy {
	case 0, 1: // correct
		out.Cover("dd.stream.correct")
	case 2: // short: early close
		if len(msgs) > 0 {
			msgs = msgs[:r.Intn(len(msgs))]
		}
		out.Cover("dd.stream.short_then_eof")
	case 3: // dribbled: a tiny message somewhere
		if len(msgs) > 0 {
			k := r.Intn(len(msgs))
			msgs[k] = c16WellFormed(r.Intn(100))
		}
		out.Cover("dd.stream.tiny_message")
	case 4: // only tiny messages
		msgs = msgs[:0]
		for i := 0; i < 3+r.Intn(5); i++ {
			msgs = append(msgs, c16WellFormed(r.Intn(100)))
		}
		out.Cover("dd.stream.all_tiny")
	case 5: // oversized message
		if len(msgs) > 0 {
			k := r.Intn(len(msgs))
			msgs[k] = c16Raw(maxMsgSize+1+r.Intn(3000), 7)
			if r.Chance(1, 3) {
				msgs[k] = c16Raw(maxMsgSize-r.Intn(2), 7) // just fits
			}
		}
		out.Cover("dd.stream.oversized_message")
	case 6: // broken message
		k := r.Intn(len(msgs) + 1)
		msgs = append(msgs[:k:k], c16Broken(r))
		out.Cover("dd.stream.broken_message")
	case 7: // raw messages of degenerate length
		k := r.Intn(len(msgs) + 1)
		msgs = append(msgs[:k:k], c16Raw(r.Intn(8), 1))
		out.Cover("dd.stream.degenerate_length")
	case 8: // last message brings the count exactly to / one short of n
		if n > 300 {
			msgs = msgs[:0]
			left := n
			for left > 250 {
				d := 100 + r.Intn(120)
				msgs = append(msgs, c16WellFormed(d))
				left -= d
			}
			short := r.Intn(2)
			msgs = append(msgs, c16WellFormed(left-short))
			if short == 1 && r.Bool() {
				msgs = append(msgs, c16WellFormed(1))
			}
			out.Cover("dd.stream.exact_or_one_short")
		}
	}
	chunk := 0
	if r.Chance(1, 4) {
		chunk = 1 + r.Intn(64) // the transport delivers a few bytes per Read
		out.Cover("dd.reader.dribbling_reads")
	}
	c16RunDialData(out, n, msgs, chunk)
}

// every data length around the varint boundaries, as a single decisive message
func c16DialDataBoundaries(out *verifh.Out) {
	for d := 0; d <= 300; d++ {
		c16RunDialData(out, d, []c16Msg{c16WellFormed(d)}, 0)
		c16RunDialData(out, d+1, []c16Msg{c16WellFormed(d)}, 0)
		c16RunDialData(out, d+1, []c16Msg{c16WellFormed(d), c16WellFormed(1)}, 0)
		out.CoverN("dd.boundary_sweep", 3)
	}
	for l := 0; l <= 300; l++ {
		c16RunDialData(out, l, []c16Msg{c16Raw(l, 3)}, 0)
		c16RunDialData(out, l-5, []c16Msg{c16Raw(l, 3)}, 0)
		out.CoverN("dd.boundary_sweep_raw", 2)
	}
	for d := 8180; d <= 8190; d++ {
		c16RunDialData(out, d, []c16Msg{c16WellFormed(d)}, 0)
		out.Cover("dd.boundary_sweep_max")
	}
}

// ---------------------------------------------------------------------------

func TestVerifC16(t *testing.T) {
	out, err := verifh.Open()
	if err != nil {
		t.Fatal(err)
	}
	defer func() {
		if err := out.Close(); err != nil {
			t.Fatal(err)
		}
	}()
	r := verifh.NewRand(verifh.Seed())

	c16RLExhaustive(out, c16Scale(3, 4))
	for i := 0; i < c16Scale(1500, 20000); i++ {
		c16RLRandom(out, r.Fork(), 20+r.Intn(c16Scale(200, 600)))
	}
	for i := 0; i < c16Scale(200, 2000); i++ {
		c16Wiring(out, r.Fork())
	}
	c16DialDataBoundaries(out)
	for i := 0; i < c16Scale(3000, 60000); i++ {
		c16DialDataRandom(out, r.Fork())
	}
	c16Sessions(t, out, r)
}

// TestVerifC16Replay re-executes the operations of one recorded case
// ($VERIF_REPLAY_CASE) on the implementation and writes the fresh observations.
// kind 0 and kind 1 cases are re-executed exactly; a kind 2 session depends on
// the generated multiaddrs and is re-judged from its recorded observations only.
func TestVerifC16Replay(t *testing.T) {
	c := verifh.ReplayCase()
	if len(c) < 3 {
		t.Skip("no case")
	}
	out, err := verifh.Open()
	if err != nil {
		t.Fatal(err)
	}
	defer out.Close()
	switch c[0] {
	case 0:
		if len(c) < 5 {
			t.Fatal("short case")
		}
		h := newC16RL(out, int(c[1]), int(c[2]), int(c[3]), int(c[4]))
		for i := 5; i < len(c); {
			switch c[i] {
			case 1:
				h.clk.ns = c[i+2]
				h.accept(c[i+1])
				i += 7
			case 2:
				h.clk.ns = c[i+1]
				h.acceptDD()
				i += 4
			case 3:
				if h.r.inProgressReqs != nil || h.r.closed {
					h.complete(c[i+1])
				}
				i += 3
			case 4:
				h.close()
				i++
			default:
				t.Fatal("bad op")
			}
		}
		out.Case(h.line)
	case 1:
		k := int(c[2])
		var msgs []c16Msg
		for i := 0; i < k; i++ {
			mk, l, d := c[3+3*i], c[4+3*i], c[5+3*i]
			switch {
			case mk != 0:
				msgs = append(msgs, c16Msg{mk: 1, wire: append(c16Uvarint(uint64(500)), make([]byte, 7)...)})
			case l == d:
				msgs = append(msgs, c16Raw(int(l), 5))
			default:
				msgs = append(msgs, c16WellFormed(int(d)))
			}
		}
		c16RunDialData(out, int(c[1]), msgs, 0)
	default:
		t.Skip("kind 2 sessions are re-judged from the recorded observations")
	}
}

//go:build verif

package autonatv2

import (
	"testing"

	"github.com/libp2p/go-libp2p/internal/verifh"
)

func c16Sessions(t *testing.T, out *verifh.Out, r *verifh.Rand) {}

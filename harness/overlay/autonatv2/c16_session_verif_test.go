//go:build verif

package autonatv2

// C16 kind-2 cases: the real serveDialRequest on scripted streams, with a real
// swarm as dialer host whose only transport records every Dial and fails it.
// Everything runs inside a testing/synctest bubble: one stimulus at a time,
// synctest.Wait() before the next, so the order of events is the harness's.

import (
	"context"
	crand "crypto/rand"
	"encoding/binary"
	"errors"
	"fmt"
	"os"
	"sync"
	"testing"
	"testing/synctest"
	"time"

	"github.com/libp2p/go-libp2p/core/control"
	"github.com/libp2p/go-libp2p/core/crypto"
	"github.com/libp2p/go-libp2p/core/network"
	"github.com/libp2p/go-libp2p/core/peer"
	"github.com/libp2p/go-libp2p/core/test"
	"github.com/libp2p/go-libp2p/core/transport"
	"github.com/libp2p/go-libp2p/internal/verifh"
	bhost "github.com/libp2p/go-libp2p/p2p/host/blank"
	"github.com/libp2p/go-libp2p/p2p/host/eventbus"
	"github.com/libp2p/go-libp2p/p2p/host/peerstore/pstoremem"
	"github.com/libp2p/go-libp2p/p2p/net/swarm"
	"github.com/libp2p/go-libp2p/p2p/protocol/autonatv2/pb"
	ma "github.com/multiformats/go-multiaddr"
	manet "github.com/multiformats/go-multiaddr/net"
	"google.golang.org/protobuf/proto"
)

// ---- event log shared by streams and the recording transport --------------

type c16LogEntry struct {
	kind int // 0 bytes written by the server on stream sid, 1 reset of sid, 2 dial
	sid  int64
	data []byte
	p    peer.ID
	addr string
}

type c16Log struct {
	mu sync.Mutex
	l  []c16LogEntry
}

func (g *c16Log) add(e c16LogEntry) {
	g.mu.Lock()
	g.l = append(g.l, e)
	g.mu.Unlock()
}

func (g *c16Log) drain() []c16LogEntry {
	g.mu.Lock()
	defer g.mu.Unlock()
	l := g.l
	g.l = nil
	return l
}

// ---- recording transport ---------------------------------------------------

type c16Transport struct{ log *c16Log }

var errC16Dial = errors.New("verif: recorded, not connected")

func (t *c16Transport) Dial(_ context.Context, raddr ma.Multiaddr, p peer.ID) (transport.CapableConn, error) {
	t.log.add(c16LogEntry{kind: 2, p: p, addr: raddr.String()})
	return nil, errC16Dial
}

// TCP over an IP literal (with or without a zone) only
func (t *c16Transport) CanDial(a ma.Multiaddr) bool {
	ps := a.Protocols()
	if len(ps) == 3 && ps[0].Code == ma.P_IP6ZONE && ps[1].Code == ma.P_IP6 {
		ps = ps[1:]
	}
	return len(ps) == 2 && (ps[0].Code == ma.P_IP4 || ps[0].Code == ma.P_IP6) && ps[1].Code == ma.P_TCP
}
func (t *c16Transport) Listen(ma.Multiaddr) (transport.Listener, error) {
	return nil, errors.New("verif: no listening")
}
func (t *c16Transport) Protocols() []int { return []int{ma.P_TCP} }
func (t *c16Transport) Proxy() bool      { return false }

// ---- gater: refuses to dial port 6666 --------------------------------------

type c16Gater struct{}

func (c16Gater) InterceptPeerDial(peer.ID) bool { return true }
func (c16Gater) InterceptAddrDial(_ peer.ID, a ma.Multiaddr) bool {
	v, err := a.ValueForProtocol(ma.P_TCP)
	return err != nil || v != "6666"
}
func (c16Gater) InterceptAccept(network.ConnMultiaddrs) bool { return true }
func (c16Gater) InterceptSecured(network.Direction, peer.ID, network.ConnMultiaddrs) bool {
	return true
}
func (c16Gater) InterceptUpgraded(network.Conn) (bool, control.DisconnectReason) { return true, 0 }

// ---- scripted stream -------------------------------------------------------

type c16Conn struct {
	network.Conn
	p    peer.ID
	addr ma.Multiaddr
}

func (c *c16Conn) RemotePeer() peer.ID           { return c.p }
func (c *c16Conn) RemoteMultiaddr() ma.Multiaddr { return c.addr }

type c16Stream struct {
	network.Stream
	sid  int64
	conn *c16Conn
	log  *c16Log

	mu       sync.Mutex
	cond     *sync.Cond
	in       []byte // client -> server, not yet read
	inEOF    bool
	reset    bool
	closed   bool
	deadline time.Time
	timer    *time.Timer
	readB    int64
}

func newC16Stream(sid int64, p peer.ID, obs ma.Multiaddr, log *c16Log) *c16Stream {
	s := &c16Stream{sid: sid, conn: &c16Conn{p: p, addr: obs}, log: log}
	s.cond = sync.NewCond(&s.mu)
	return s
}

func (s *c16Stream) Conn() network.Conn         { return s.conn }
func (s *c16Stream) Scope() network.StreamScope { return &network.NullScope{} }

func (s *c16Stream) Read(p []byte) (int, error) {
	s.mu.Lock()
	defer s.mu.Unlock()
	for {
		if s.reset {
			return 0, network.ErrReset
		}
		if !s.deadline.IsZero() && !time.Now().Before(s.deadline) {
			return 0, os.ErrDeadlineExceeded
		}
		if len(s.in) > 0 {
			n := copy(p, s.in)
			s.in = s.in[n:]
			s.readB += int64(n)
			return n, nil
		}
		if s.inEOF {
			return 0, errors.New("EOF") // io.EOF would do; any error is a read failure
		}
		s.cond.Wait()
	}
}

func (s *c16Stream) Write(p []byte) (int, error) {
	s.mu.Lock()
	defer s.mu.Unlock()
	if s.reset || s.closed {
		return 0, network.ErrReset
	}
	s.log.add(c16LogEntry{kind: 0, sid: s.sid, data: append([]byte(nil), p...)})
	return len(p), nil
}

func (s *c16Stream) Reset() error {
	s.mu.Lock()
	defer s.mu.Unlock()
	if !s.reset && !s.closed {
		s.reset = true
		s.log.add(c16LogEntry{kind: 1, sid: s.sid})
		s.cond.Broadcast()
	}
	return nil
}
func (s *c16Stream) ResetWithError(network.StreamErrorCode) error { return s.Reset() }

func (s *c16Stream) Close() error {
	s.mu.Lock()
	defer s.mu.Unlock()
	s.closed = true
	if s.timer != nil {
		s.timer.Stop()
	}
	return nil
}

func (s *c16Stream) SetDeadline(t time.Time) error {
	s.mu.Lock()
	defer s.mu.Unlock()
	s.deadline = t
	if s.timer != nil {
		s.timer.Stop()
	}
	s.timer = time.AfterFunc(time.Until(t), func() {
		s.mu.Lock()
		s.cond.Broadcast()
		s.mu.Unlock()
	})
	return nil
}
func (s *c16Stream) SetReadDeadline(t time.Time) error  { return s.SetDeadline(t) }
func (s *c16Stream) SetWriteDeadline(t time.Time) error { return nil }

// client side
func (s *c16Stream) clientWrite(b []byte) {
	s.mu.Lock()
	s.in = append(s.in, b...)
	s.cond.Broadcast()
	s.mu.Unlock()
}
func (s *c16Stream) clientClose() {
	s.mu.Lock()
	s.inEOF = true
	s.cond.Broadcast()
	s.mu.Unlock()
}

// ---- addresses --------------------------------------------------------------

// IP identities.  Entries with the same id are the same IP for the purpose of
// "the address's IP differs from the IP the request came from": exact equality of
// the IP address (an IPv4 address and its IPv4-mapped IPv6 spelling are one IP; a
// zone in front of an IPv6 address is not part of the IP).  Nothing weaker - not
// the /64, not the /48, not "all but the last bit" - makes two IPs the same.
// The ids of the table are checked against the raw bytes of the multiaddr's IP
// component (c16CheckIP), independently of manet.ToIP / net.IP.Equal.
type c16IP struct {
	s    string // IP literal
	v6   bool   // spelled /ip6/...
	zone string // "" or an /ip6zone/<zone> in front of the /ip6
	id   int64
	exp  int // 1: public by construction, 0: not public by construction, -1: whatever manet says
	grp  int // neighbourhood: IPs that are close to one another without being equal
}

var c16IPs = []c16IP{
	// neighbourhood 1: around 1.2.3.4
	{"1.2.3.4", false, "", 1, 1, 1},
	{"1.2.3.5", false, "", 21, 1, 1},          // differs from 1.2.3.4 in the last bit only
	{"129.2.3.4", false, "", 22, 1, 1},        // differs from 1.2.3.4 in the first bit only
	{"::ffff:1.2.3.4", true, "", 1, -1, 1},    // the same IP as 1.2.3.4 in its IPv4-in-IPv6 form
	{"::ffff:1.2.3.5", true, "", 21, -1, 1},   // the same IP as 1.2.3.5
	{"64:ff9b::102:304", true, "", 23, 1, 1},  // NAT64 form of 1.2.3.4: another IP
	{"2002:102:304::1", true, "", 24, -1, 1},  // 6to4 form of 1.2.3.4: another IP
	// neighbourhood 2: around 2600:1f18::5
	{"2600:1f18::5", true, "", 4, 1, 2},
	{"2600:1f18::4", true, "", 31, 1, 2},                    // same /64, last bit only
	{"2600:1f18::aaaa:bbbb:cccc:dddd", true, "", 32, 1, 2},  // same /64, another interface id
	{"2600:1f18::8000:0:0:5", true, "", 33, 1, 2},           // same /64, first bit of the interface id only
	{"2600:1f18:0:1::5", true, "", 34, 1, 2},                // same /48 (and /63), another /64
	{"2600:1f18:0:8000::5", true, "", 35, 1, 2},             // same /48, another /64
	{"2600:1f18:1::5", true, "", 36, 1, 2},                  // same /32, another /48
	{"3600:1f18::5", true, "", 37, 1, 2},                    // one high bit differs, still global unicast
	{"a600:1f18::5", true, "", 38, -1, 2},                   // first bit only
	{"2600:1f18::5", true, "eth0", 4, -1, 2},                // zone in front: the same IP as 2600:1f18::5
	{"2600:1f18::4", true, "eth0", 31, -1, 2},
	{"2600:1f18::aaaa:bbbb:cccc:dddd", true, "wlan1", 32, -1, 2},
	// neighbourhood 3: around 2a00:1450::9
	{"2a00:1450::9", true, "", 5, 1, 3},
	{"2a00:1450::1:2:3:4", true, "", 41, 1, 3},    // same /64
	{"2a00:1450:0:0:ffff::9", true, "", 42, 1, 3}, // same /64
	{"2a00:1450:0:ff::9", true, "", 43, 1, 3},     // same /56
	// far from everything
	{"5.6.7.8", false, "", 2, 1, 0},
	{"99.88.77.66", false, "", 3, 1, 0},
	// not public
	{"192.168.1.7", false, "", 11, 0, 0},
	{"10.0.0.3", false, "", 12, 0, 0},
	{"127.0.0.1", false, "", 13, 0, 0},
	{"fd00::7", true, "", 14, 0, 0},
	{"169.254.1.1", false, "", 15, 0, 0},
}

func (ip c16IP) prefix() string {
	switch {
	case ip.zone != "":
		return "/ip6zone/" + ip.zone + "/ip6/" + ip.s
	case ip.v6:
		return "/ip6/" + ip.s
	}
	return "/ip4/" + ip.s
}

// indexes into c16IPs: public for sure / not public for sure / usable as the IP of a "usable" entry
var c16PubSure, c16Priv, c16Usable []int

func init() {
	for k, ip := range c16IPs {
		switch ip.exp {
		case 1:
			c16PubSure = append(c16PubSure, k)
			c16Usable = append(c16Usable, k)
		case 0:
			c16Priv = append(c16Priv, k)
		default:
			c16Usable = append(c16Usable, k)
		}
	}
}

// the IP of a multiaddr as 16 bytes, read off the raw value of its first component
// (a leading ip6zone skipped); ok = false if it does not start with an IP
func c16CanonIP(m ma.Multiaddr) (ip [16]byte, plain4, zone, ok bool) {
	for _, c := range m {
		switch c.Protocol().Code {
		case ma.P_IP6ZONE:
			zone = true
			continue
		case ma.P_IP4:
			b := c.RawValue()
			if len(b) != 4 {
				panic("verif: ip4 component without 4 bytes")
			}
			ip[10], ip[11] = 0xff, 0xff
			copy(ip[12:], b)
			return ip, true, zone, true
		case ma.P_IP6:
			b := c.RawValue()
			if len(b) != 16 {
				panic("verif: ip6 component without 16 bytes")
			}
			copy(ip[:], b)
			return ip, false, zone, true
		}
		return ip, false, zone, false
	}
	return ip, false, zone, false
}

var (
	c16CanonMu sync.Mutex
	c16CanonID = map[[16]byte]int64{}
	c16IDCanon = map[int64][16]byte{}
)

// the table's id of an address is the identity of its IP bytes: one id <-> one 16-byte value
func c16CheckIP(m ma.Multiaddr, id int64) {
	b, _, _, ok := c16CanonIP(m)
	if !ok {
		if id != 0 {
			panic(fmt.Sprintf("verif: %s has no IP but IP id %d", m, id))
		}
		return
	}
	c16CanonMu.Lock()
	defer c16CanonMu.Unlock()
	if old, seen := c16CanonID[b]; seen && old != id {
		panic(fmt.Sprintf("verif: %s: one IP with the two ids %d and %d", m, old, id))
	}
	if old, seen := c16IDCanon[id]; seen && old != b {
		panic(fmt.Sprintf("verif: %s: IP id %d stands for two different IPs", m, id))
	}
	c16CanonID[b], c16IDCanon[id] = id, b
}

// how the IP to dial relates to the observed one (coverage only)
func c16Relation(obs, dial ma.Multiaddr) []string {
	a, a4, az, ok1 := c16CanonIP(obs)
	b, b4, bz, ok2 := c16CanonIP(dial)
	if !ok1 || !ok2 {
		return []string{"no_ip_on_one_side"}
	}
	var l []string
	if az {
		l = append(l, "zone_in_observed")
	}
	if bz {
		l = append(l, "zone_in_dialed")
	}
	mapped := func(x [16]byte) bool {
		for i := 0; i < 10; i++ {
			if x[i] != 0 {
				return false
			}
		}
		return x[10] == 0xff && x[11] == 0xff
	}
	if a == b {
		if a4 != b4 {
			return append(l, "equal_ipv4_vs_its_ipv4_mapped_ipv6")
		}
		return append(l, "equal")
	}
	ndiff, first, last := 0, -1, -1
	for i := 0; i < 128; i++ {
		if (a[i/8]^b[i/8])>>(7-uint(i%8))&1 == 1 {
			ndiff++
			if first < 0 {
				first = i
			}
			last = i
		}
	}
	am, bm := mapped(a), mapped(b)
	switch {
	case am != bm:
		l = append(l, "different_family")
	case am:
		l = append(l, "ipv4_differs")
		if ndiff == 1 && last == 127 {
			l = append(l, "ipv4_last_bit_only")
		}
		if ndiff == 1 && first == 96 {
			l = append(l, "ipv4_first_bit_only")
		}
		if a4 != b4 {
			l = append(l, "ipv4_vs_other_ipv4_mapped_ipv6")
		}
	default:
		switch {
		case first >= 64:
			l = append(l, "ipv6_same_64_other_host")
			if ndiff == 1 && last == 127 {
				l = append(l, "ipv6_last_bit_only")
			}
			if ndiff == 1 && first == 64 {
				l = append(l, "ipv6_first_interface_id_bit_only")
			}
		case first >= 48:
			l = append(l, "ipv6_same_48_other_64")
		case first >= 32:
			l = append(l, "ipv6_same_32_other_48")
		default:
			l = append(l, "ipv6_other_prefix")
			if ndiff == 1 {
				l = append(l, "ipv6_one_high_bit_only")
			}
		}
	}
	return l
}

type c16Addr struct {
	aid   int64
	bytes []byte // what goes into DialRequest.addrs
	str   string // "" if it does not parse
	cls   int64  // parse + 2*public + 4*canDial
	ip    int64
}

type c16World struct {
	out    *verifh.Out
	log    *c16Log
	srv    *server
	sw     *swarm.Swarm
	peers  []peer.ID
	obs    []ma.Multiaddr
	obsIP  []int64
	obsGrp []int // neighbourhood of the observed IP (0: none)
	cur    int64 // the peer whose request is being generated
	addrs  []*c16Addr
	byStr  map[string]*c16Addr
	byPeer map[peer.ID]int64
	port   int
	// mostly usable public addresses (they need dial data unless the IP happens to be the observed one)
	pressure bool
}

func (w *c16World) mkAddr(r *verifh.Rand, p peer.ID) *c16Addr {
	w.port++
	a := &c16Addr{aid: int64(len(w.addrs) + 1)}
	var s string
	expectCls := int64(-1)
	ipOf := func(k int) (string, string) { return c16IPs[k].prefix(), "" }
	// an IP out of `from`: mostly one close to (or equal to) the IP the request comes from
	pick := func(from []int) int {
		if g := w.obsGrp[w.cur]; g != 0 && r.Chance(3, 5) {
			var near []int
			for _, k := range from {
				if c16IPs[k].grp == g {
					near = append(near, k)
				}
			}
			if len(near) > 0 {
				return near[r.Intn(len(near))]
			}
		}
		return from[r.Intn(len(from))]
	}
	kind := r.Intn(16)
	if w.pressure && !r.Chance(1, 6) {
		kind = 0
	}
	switch {
	case kind < 6: // public IP, TCP: usable
		k := pick(c16Usable)
		pre, _ := ipOf(k)
		s = fmt.Sprintf("%s/tcp/%d", pre, 10000+w.port)
		a.ip = c16IPs[k].id
		if c16IPs[k].exp == 1 {
			expectCls = 7
		}
	case kind < 9: // private / loopback / link-local IP, TCP
		k := c16Priv[r.Intn(len(c16Priv))]
		pre, _ := ipOf(k)
		s = fmt.Sprintf("%s/tcp/%d", pre, 10000+w.port)
		a.ip = c16IPs[k].id
		expectCls = 5
	case kind < 11: // public IP, but no transport for it
		k := pick(c16PubSure)
		pre, _ := ipOf(k)
		s = fmt.Sprintf("%s/udp/%d/quic-v1", pre, 10000+w.port)
		a.ip = c16IPs[k].id
		expectCls = 3
	case kind < 12: // public, TCP, refused by the dialer's connection gater
		k := pick(c16PubSure)
		pre, _ := ipOf(k)
		s = pre + "/tcp/6666"
		if _, dup := w.byStr[s]; dup {
			s = fmt.Sprintf("%s/tcp/%d", pre, 10000+w.port)
			expectCls = 7
		} else {
			expectCls = 3
		}
		a.ip = c16IPs[k].id
	case kind < 13: // DNS name: public, no IP literal, not dialable by this dialer
		s = fmt.Sprintf("/dns4/host%d.example.com/tcp/%d", w.port, 10000+w.port)
		a.ip = 0
		expectCls = 3
	case kind < 14: // unspecified address
		s = fmt.Sprintf("/ip4/0.0.0.0/tcp/%d", 10000+w.port)
		a.ip = 16
	default: // bytes that are not a multiaddr
		a.bytes = []byte{0xff, 0xfe, byte(w.port), byte(w.port >> 8), 0x01}
		a.cls, a.ip = 0, 0
		if _, err := ma.NewMultiaddrBytes(a.bytes); err == nil {
			panic("verif: malformed template parses")
		}
		w.addrs = append(w.addrs, a)
		return a
	}
	m, err := ma.NewMultiaddr(s)
	if err != nil {
		panic(err)
	}
	c16CheckIP(m, a.ip)
	a.bytes, a.str = m.Bytes(), m.String()
	a.cls = 1
	if manet.IsPublicAddr(m) {
		a.cls += 2
	}
	if w.sw.CanDial(p, m) {
		a.cls += 4
	}
	if expectCls >= 0 && a.cls != expectCls {
		panic(fmt.Sprintf("verif: address %s has class %d, expected %d by construction", s, a.cls, expectCls))
	}
	w.addrs = append(w.addrs, a)
	w.byStr[a.str] = a
	return a
}

// ---- one session ------------------------------------------------------------

type c16Open struct {
	st    *c16Stream
	peer  int64
	plan  []c16Msg // dial-data messages still to send
	after int      // what the client does when the plan is exhausted: 0 wait, 1 close
	asked bool
	// a stream whose client has not sent its first message yet
	late        bool
	lateWire    []byte
	lateGood    int64
	lateEntries []*c16Addr
}

func c16Session(t *testing.T, out *verifh.Out, r *verifh.Rand, steps int) {
	var rpm, pp, dd, mc int
	useDefaults := false
	// pressure: a tight dial-data limit with room for concurrent requests, few peers, requests that
	// mostly need dial data, many of them overlapping and stalled
	pressure := r.Chance(1, 3)
	if pressure {
		rpm, pp, dd, mc = 30+r.Intn(40), 10+r.Intn(20), r.Intn(3), 4+r.Intn(3)
		if r.Bool() {
			mc = 1 + r.Intn(3)
			if dd == mc {
				dd = (dd + 1) % 3
			}
		}
		out.Cover("session.config.tight_dial_data_limit")
	} else if r.Chance(1, 4) {
		s := defaultSettings()
		rpm, pp, dd, mc = s.serverRPM, s.serverPerPeerRPM, s.serverDialDataRPM, s.maxConcurrentRequestsPerPeer
		useDefaults = true
	} else {
		rpm, pp, dd, mc = 2+r.Intn(12), 1+r.Intn(6), r.Intn(5), 1+r.Intn(3)
	}
	line := []int64{2, int64(rpm), int64(pp), int64(dd), int64(mc)}

	lg := &c16Log{}
	ps, err := pstoremem.NewPeerstore()
	if err != nil {
		t.Fatal(err)
	}
	sk, pk, err := crypto.GenerateEd25519Key(crand.Reader)
	if err != nil {
		t.Fatal(err)
	}
	self, _ := peer.IDFromPublicKey(pk)
	ps.AddPrivKey(self, sk)
	ps.AddPubKey(self, pk)
	sw, err := swarm.NewSwarm(self, ps, eventbus.NewBus(),
		swarm.WithUDPBlackHoleSuccessCounter(nil), swarm.WithIPv6BlackHoleSuccessCounter(nil),
		swarm.WithConnectionGater(c16Gater{}), swarm.WithDialRanker(swarm.NoDelayDialRanker))
	if err != nil {
		t.Fatal(err)
	}
	if err := sw.AddTransport(&c16Transport{log: lg}); err != nil {
		t.Fatal(err)
	}
	dialer := bhost.NewBlankHost(sw)
	// the server is built through the public path; the case header carries the values passed to
	// the options (or the documented defaults when no rate option is given)
	opts := []AutoNATOption{withAmplificationAttackPreventionDialWait(time.Millisecond)}
	if !useDefaults {
		opts = append(opts, WithServerRateLimit(rpm, pp, dd, mc))
	}
	an, err := New(dialer, opts...)
	if err != nil {
		t.Fatal(err)
	}
	srv := an.srv
	defer func() {
		srv.limiter.Close()
		dialer.Close()
		ps.Close()
	}()

	w := &c16World{out: out, log: lg, srv: srv, sw: sw, byStr: map[string]*c16Addr{}, byPeer: map[peer.ID]int64{}}
	npeers := 1 + r.Intn(3)
	if pressure {
		npeers = 1 + r.Intn(2)
	}
	w.pressure = pressure
	for i := 0; i < npeers; i++ {
		p := test.RandPeerIDFatal(t)
		w.peers = append(w.peers, p)
		w.byPeer[p] = int64(i)
		// the connection's remote address: any IP of the table that is not private for sure,
		// in any spelling (plain, IPv4-mapped IPv6, with a zone), over TCP or QUIC
		k := c16Usable[r.Intn(len(c16Usable))]
		var obs string
		switch {
		case r.Chance(1, 12):
			obs = "/memory/1234"
			w.obsIP = append(w.obsIP, 0)
			w.obsGrp = append(w.obsGrp, 0)
		case r.Bool():
			obs = c16IPs[k].prefix() + "/udp/4001/quic-v1"
			w.obsIP = append(w.obsIP, c16IPs[k].id)
			w.obsGrp = append(w.obsGrp, c16IPs[k].grp)
		default:
			obs = c16IPs[k].prefix() + "/tcp/4001"
			w.obsIP = append(w.obsIP, c16IPs[k].id)
			w.obsGrp = append(w.obsGrp, c16IPs[k].grp)
		}
		om := ma.StringCast(obs)
		c16CheckIP(om, w.obsIP[i])
		w.obs = append(w.obs, om)
	}

	start := time.Now()
	nowNs := func() int64 { return int64(time.Since(start)) }
	open := map[int64]*c16Open{}
	var openOrder []int64
	nextSid := int64(1)
	var wg sync.WaitGroup
	outBuf := map[int64][]byte{}
	sawDial, sawAsk, sawRefuse, sawReject, sawReset, sawOverlap := false, false, false, false, false, false

	// let the server run, then turn the log into events
	settle := func(stim []int64) {
		time.Sleep(2 * time.Millisecond)
		synctest.Wait()
		var evs []int64
		nev := int64(0)
		for _, e := range lg.drain() {
			switch e.kind {
			case 0:
				outBuf[e.sid] = append(outBuf[e.sid], e.data...)
				for {
					b := outBuf[e.sid]
					l, n := binary.Uvarint(b)
					if n <= 0 || uint64(len(b)-n) < l {
						break
					}
					var msg pb.Message
					if err := proto.Unmarshal(b[n:n+int(l)], &msg); err != nil {
						panic(err)
					}
					outBuf[e.sid] = b[n+int(l):]
					switch {
					case msg.GetDialResponse() != nil:
						dr := msg.GetDialResponse()
						evs = append(evs, 10, e.sid, int64(dr.GetStatus()), int64(dr.GetAddrIdx()))
						nev++
						switch dr.GetStatus() {
						case pb.DialResponse_E_DIAL_REFUSED:
							sawRefuse = true
							out.Cover("session.events.response_dial_refused")
						case pb.DialResponse_E_REQUEST_REJECTED:
							sawReject = true
							out.Cover("session.events.response_request_rejected")
						case pb.DialResponse_OK:
							out.Cover("session.events.response_ok")
						}
						w.closeStream(open, &openOrder, e.sid)
					case msg.GetDialDataRequest() != nil:
						q := msg.GetDialDataRequest()
						evs = append(evs, 11, e.sid, int64(q.GetAddrIdx()), int64(q.GetNumBytes()))
						nev++
						out.Cover("session.events.dial_data_request")
						sawAsk = true
						if o := open[e.sid]; o != nil {
							o.asked = true
							o.plan = c16DataPlan(out, r, int(q.GetNumBytes()))
							o.after = r.Intn(3)
						}
					default:
						panic("verif: unexpected message from the server")
					}
				}
			case 1:
				evs = append(evs, 13, e.sid)
				nev++
				sawReset = true
				out.Cover("session.events.reset")
				w.closeStream(open, &openOrder, e.sid)
			case 2:
				pi, ok := w.byPeer[e.p]
				if !ok {
					pi = -1
				}
				aid := int64(-1)
				if a := w.byStr[e.addr]; a != nil {
					aid = a.aid
				}
				evs = append(evs, 12, pi, aid)
				nev++
				sawDial = true
				out.Cover("session.events.dial")
				if len(stim) > 0 && stim[0] == 2 {
					out.Cover("session.events.dial_after_dial_data")
				}
			}
		}
		line = append(line, stim...)
		line = append(line, nev)
		line = append(line, evs...)
		// the limiter's own in-progress counters, for the conformance comparison only
		line = append(line, int64(len(w.peers)))
		srv.limiter.mu.Lock()
		for _, p := range w.peers {
			line = append(line, int64(srv.limiter.inProgressReqs[p]))
		}
		srv.limiter.mu.Unlock()
		for _, p := range w.peers {
			sw.Backoff().Clear(p)
		}
	}

	// settle a stimulus that carries a request; afterwards fill in n = NumBytes of the
	// DialDataRequest the server sent for it in this step (position nPos of the stimulus)
	settleReq := func(stim []int64, nPos int, sid int64) {
		before := len(line)
		settle(stim)
		i := before + len(stim)
		nev := line[i]
		i++
		for k := int64(0); k < nev; k++ {
			switch line[i] {
			case 10:
				i += 4
			case 11:
				if line[i+1] == sid {
					line[before+nPos] = line[i+3]
				}
				i += 4
			case 12:
				i += 3
			case 13:
				i += 2
			default:
				panic("verif: bad event encoding")
			}
		}
	}

	for step := 0; step < steps; step++ {
		choice := r.Intn(10)
		if pressure && len(openOrder) < 5 && r.Chance(1, 3) {
			choice = 0 // keep requests arriving while others are stalled
		}
		switch {
		case len(openOrder) == 0 || (choice < 2 && len(openOrder) < 6):
			// clock: sometimes a real pause while nothing is open
			if len(openOrder) == 0 && r.Chance(1, 3) {
				var d time.Duration
				switch r.Intn(4) {
				case 0:
					d = time.Duration(r.Intn(int(5 * time.Second)))
				case 1:
					d = time.Duration(r.Intn(int(50 * time.Second)))
				case 2:
					d = time.Minute - time.Duration(r.Intn(int(20*time.Millisecond)))
				default:
					d = time.Minute + time.Duration(r.Intn(int(time.Minute)))
				}
				time.Sleep(d)
				synctest.Wait()
				out.Cover("session.clock_pause_idle")
				settle([]int64{4, nowNs() + int64(2*time.Millisecond)})
			}
			// a new request
			pi := int64(r.Intn(npeers))
			for _, sid := range openOrder {
				if open[sid].peer == pi {
					sawOverlap = true
				}
			}
			sid := nextSid
			nextSid++
			st := newC16Stream(sid, w.peers[pi], w.obs[pi], lg)
			var entries []*c16Addr
			good := int64(1)
			late := r.Chance(1, 4) // the client opens the stream and sends its request later
			var wire []byte
			switch k := r.Intn(20); {
			case k == 0: // not a DialRequest
				good = 0
				m := &pb.Message{Msg: &pb.Message_DialResponse{DialResponse: &pb.DialResponse{}}}
				b, _ := proto.Marshal(m)
				wire = append(c16Uvarint(uint64(len(b))), b...)
				out.Cover("session.request.wrong_message_type")
			case k == 1: // garbage
				good = 0
				wire = append(c16Uvarint(6), 0xff, 0xff, 0xff, 0xff, 0xff, 0xff)
				out.Cover("session.request.garbage")
			case k == 2 && !late: // nothing at all
				good = 0
				st.clientClose()
				out.Cover("session.request.eof")
			default:
				entries = w.mkRequest(r, pi)
				req := &pb.DialRequest{Nonce: r.Uint64()}
				for _, a := range entries {
					req.Addrs = append(req.Addrs, a.bytes)
				}
				b, err := proto.Marshal(&pb.Message{Msg: &pb.Message_DialRequest{DialRequest: req}})
				if err != nil {
					panic(err)
				}
				wire = append(c16Uvarint(uint64(len(b))), b...)
			}
			open[sid] = &c16Open{st: st, peer: pi}
			openOrder = append(openOrder, sid)
			t0 := nowNs()
			if late {
				o := open[sid]
				o.late, o.lateWire, o.lateGood, o.lateEntries = true, wire, good, entries
				wg.Add(1)
				go func() {
					defer wg.Done()
					srv.serveDialRequest(st)
				}()
				settle([]int64{5, sid, pi, w.obsIP[pi], t0})
				out.Cover("session.requests")
				out.Cover("session.request.stream_opened_request_withheld")
				continue
			}
			if wire != nil {
				st.clientWrite(wire)
			}
			wg.Add(1)
			go func() {
				defer wg.Done()
				srv.serveDialRequest(st)
			}()
			stim := []int64{1, sid, pi, w.obsIP[pi], t0, good, 0, int64(len(entries))}
			for _, a := range entries {
				stim = append(stim, a.aid, a.cls, a.ip)
			}
			settleReq(stim, 6, sid)
			out.Cover("session.requests")
		case choice < 9 || !r.Chance(1, 4):
			// next client action on an open stream
			sid := openOrder[r.Intn(len(openOrder))]
			o := open[sid]
			if o.late && r.Chance(3, 4) {
				// the withheld request is sent now
				o.late = false
				o.st.clientWrite(o.lateWire)
				stim := []int64{6, sid, nowNs(), o.lateGood, 0, int64(len(o.lateEntries))}
				for _, a := range o.lateEntries {
					stim = append(stim, a.aid, a.cls, a.ip)
				}
				settleReq(stim, 4, sid)
				out.Cover("session.request.withheld_request_sent")
			} else if len(o.plan) > 0 {
				m := o.plan[0]
				o.plan = o.plan[1:]
				o.st.clientWrite(m.wire)
				if !m.complete {
					o.st.clientClose()
				}
				settle([]int64{2, sid, m.mk, m.L, m.D})
				out.Cover("session.data_messages")
			} else if o.after == 1 || !o.asked {
				o.st.clientClose()
				settle([]int64{3, sid})
				out.Cover("session.client_close")
			} else {
				// the client stalls: run the clock past the stream deadline
				time.Sleep(streamTimeout + time.Duration(r.Intn(int(50*time.Second))))
				synctest.Wait()
				settle([]int64{4, nowNs() + int64(2*time.Millisecond)})
				out.Cover("session.client_stall_timeout")
			}
		default:
			time.Sleep(streamTimeout + time.Duration(r.Intn(int(50*time.Second))))
			synctest.Wait()
			settle([]int64{4, nowNs() + int64(2*time.Millisecond)})
			out.Cover("session.timeout_all_open")
		}
	}
	// end: everything still open times out
	time.Sleep(streamTimeout + time.Second)
	synctest.Wait()
	settle([]int64{4, nowNs() + int64(2*time.Millisecond)})
	wg.Wait()

	out.Cover("session.cases")
	for name, b := range map[string]bool{"session.cases_with_dial": sawDial, "session.cases_with_data_request": sawAsk,
		"session.cases_with_dial_refused": sawRefuse, "session.cases_with_request_rejected": sawReject,
		"session.cases_with_reset": sawReset, "session.cases_with_overlapping_requests_of_one_peer": sawOverlap} {
		if b {
			out.Cover(name)
		}
	}
	out.Case(line)
}

func (w *c16World) closeStream(open map[int64]*c16Open, order *[]int64, sid int64) {
	if _, ok := open[sid]; !ok {
		return
	}
	delete(open, sid)
	for i, x := range *order {
		if x == sid {
			*order = append((*order)[:i:i], (*order)[i+1:]...)
			break
		}
	}
}

func (w *c16World) mkRequest(r *verifh.Rand, pi int64) []*c16Addr {
	p := w.peers[pi]
	w.cur = pi
	n := r.Intn(6)
	long := r.Chance(1, 12)
	if long {
		n = maxPeerAddresses - 2 + r.Intn(6)
		w.out.Cover("session.request.near_max_peer_addresses")
	}
	var l []*c16Addr
	for i := 0; i < n; i++ {
		var a *c16Addr
		if len(w.addrs) > 0 && r.Chance(1, 5) {
			a = w.addrs[r.Intn(len(w.addrs))] // an address seen in an earlier request
		} else {
			a = w.mkAddr(r, p)
		}
		if long && i < n-1-r.Intn(3) && a.cls == 7 {
			// keep the head of a long list unusable so that the cap decides
			i--
			continue
		}
		l = append(l, a)
	}
	usable := false
	for i, a := range l {
		if a.cls == 7 {
			usable = true
			if i >= maxPeerAddresses {
				w.out.Cover("session.request.first_usable_beyond_cap")
			} else if i == maxPeerAddresses-1 {
				w.out.Cover("session.request.first_usable_at_cap_minus_1")
			}
			if a.ip == w.obsIP[pi] {
				w.out.Cover("session.request.first_usable_same_ip")
			} else {
				w.out.Cover("session.request.first_usable_foreign_ip")
			}
			if i < maxPeerAddresses {
				if m, err := ma.NewMultiaddrBytes(a.bytes); err == nil {
					for _, rel := range c16Relation(w.obs[pi], m) {
						w.out.Cover("session.ip_pair(observed,dialed)." + rel)
					}
				}
			}
			break
		}
	}
	if !usable {
		w.out.Cover("session.request.no_usable_address")
	}
	return l
}

// what the client does after a DialDataRequest for n bytes
func c16DataPlan(out *verifh.Out, r *verifh.Rand, n int) []c16Msg {
	var msgs []c16Msg
	sent := 0
	big := !r.Chance(1, 8)
	for sent < n {
		d := 4000 + r.Intn(4186)
		if !big {
			d = 100 + r.Intn(400)
		}
		if n-sent < d && r.Bool() {
			d = n - sent // exactly enough
		}
		if r.Chance(1, 10) {
			msgs = append(msgs, c16Raw(d, 9))
		} else {
			msgs = append(msgs, c16WellFormed(d))
		}
		sent += d
	}
	switch r.Intn(14) {
	case 0: // stops early
		msgs = msgs[:r.Intn(len(msgs))]
		out.Cover("session.plan.short")
	case 1: // a tiny message on the way
		k := r.Intn(len(msgs))
		msgs = append(msgs[:k:k], c16WellFormed(r.Intn(100)))
		out.Cover("session.plan.tiny_message")
	case 2: // oversized
		k := r.Intn(len(msgs))
		msgs = append(msgs[:k:k], c16Raw(maxMsgSize+1+r.Intn(100), 1))
		out.Cover("session.plan.oversized")
	case 3: // broken
		k := r.Intn(len(msgs))
		msgs = append(msgs[:k:k], c16Broken(r))
		out.Cover("session.plan.broken")
	case 4: // one byte short in total, then stops
		last := msgs[len(msgs)-1]
		over := sent - n
		if int(last.D)-over-1 >= 100 {
			msgs[len(msgs)-1] = c16WellFormed(int(last.D) - over - 1)
			out.Cover("session.plan.one_byte_short")
		}
	default:
		out.Cover("session.plan.correct")
	}
	return msgs
}

func c16Sessions(t *testing.T, out *verifh.Out, r *verifh.Rand) {
	n := c16Scale(250, 6000)
	for i := 0; i < n; i++ {
		rr := r.Fork()
		steps := 20 + rr.Intn(70)
		synctest.Test(t, func(t *testing.T) { c16Session(t, out, rr, steps) })
	}
}

//go:build verif

package pstoreds

// C09 correspondence harness (injected with `go test -overlay`; not part of
// /repo).  Drives the REAL in-memory address book (pstoremem) and the REAL
// datastore-backed one (this package) on generated operation histories with
// a mock clock, and writes one case per line in the wire format documented in
// /verif/coq/c09/Spec.v.

import (
	"context"
	"fmt"
	"sort"
	"strings"
	"testing"
	"time"

	ds "github.com/ipfs/go-datastore"
	"github.com/ipfs/go-datastore/query"
	dssync "github.com/ipfs/go-datastore/sync"
	"github.com/libp2p/go-libp2p/core/crypto"
	"github.com/libp2p/go-libp2p/core/peer"
	pstore "github.com/libp2p/go-libp2p/core/peerstore"
	"github.com/libp2p/go-libp2p/core/record"
	"github.com/libp2p/go-libp2p/internal/verifh"
	"github.com/libp2p/go-libp2p/p2p/host/peerstore/pstoreds/pb"
	"github.com/libp2p/go-libp2p/p2p/host/peerstore/pstoremem"
	ma "github.com/multiformats/go-multiaddr"
	"google.golang.org/protobuf/proto"
)

const (
	c09TTLConn = int64(1) << 40
	c09TTLPerm = int64(1)<<40 + 1
)

func c09TTL(w int64) time.Duration {
	switch w {
	case c09TTLConn:
		return pstore.ConnectedAddrTTL
	case c09TTLPerm:
		return pstore.PermanentAddrTTL
	}
	return time.Duration(w) * time.Second
}

type c09Clock struct{ t time.Time }

func (c *c09Clock) Now() time.Time                       { return c.t }
func (c *c09Clock) After(time.Duration) <-chan time.Time { return make(chan time.Time) }

// ---- universe ---------------------------------------------------------------

type c09Universe struct {
	privs []crypto.PrivKey
	ids   []peer.ID
	pidx  map[peer.ID]int64
	addrs []ma.Multiaddr
	aidx  map[string]int64
	envs  map[string]*record.Envelope
	envID map[string]int64 // content key -> id
}

type c09Reader struct{ r *verifh.Rand }

func (d c09Reader) Read(p []byte) (int, error) {
	for i := range p {
		p[i] = byte(d.r.Uint64())
	}
	return len(p), nil
}

const c09MaxPeers = 4
const c09MaxAddrs = 6

func c09NewUniverse() *c09Universe {
	u := &c09Universe{pidx: map[peer.ID]int64{}, aidx: map[string]int64{}, envs: map[string]*record.Envelope{}, envID: map[string]int64{}}
	rd := c09Reader{verifh.NewRand(9)} // fixed: peer ids are the same in every run
	for i := 0; i < c09MaxPeers+1; i++ {
		priv, _, err := crypto.GenerateEd25519Key(rd)
		if err != nil {
			panic(err)
		}
		id, err := peer.IDFromPrivateKey(priv)
		if err != nil {
			panic(err)
		}
		u.privs = append(u.privs, priv)
		u.ids = append(u.ids, id)
		u.pidx[id] = int64(i + 1)
	}
	tmpl := []string{"/ip4/10.0.0.%d/tcp/4001", "/ip4/10.0.0.%d/udp/4001/quic-v1", "/ip6/fd00::%d/tcp/4001", "/dns4/h%d.example.com/tcp/443/wss", "/ip4/192.168.1.%d/tcp/80", "/ip4/10.1.0.%d/udp/9/quic-v1/webtransport"}
	for i := 0; i < c09MaxAddrs; i++ {
		a := ma.StringCast(fmt.Sprintf(tmpl[i%len(tmpl)], i+1))
		u.addrs = append(u.addrs, a)
		u.aidx[string(a.Bytes())] = int64(i + 1)
	}
	return u
}

// peer "after p" (the foreign peer used for sfx = 2); never a peer of the universe's ops when p = nP
func (u *c09Universe) foreign(p int64) peer.ID { return u.ids[p%int64(len(u.ids))] }

func (u *c09Universe) raw(p int64, a, sfx int64) ma.Multiaddr {
	base := u.addrs[a-1]
	switch sfx {
	case 1:
		return base.Encapsulate(ma.StringCast("/p2p/" + u.ids[p-1].String()))
	case 2:
		return base.Encapsulate(ma.StringCast("/p2p/" + u.foreign(p).String()))
	}
	return base
}

func (u *c09Universe) raws(p int64, l [][2]int64) []ma.Multiaddr {
	out := make([]ma.Multiaddr, 0, len(l))
	for _, x := range l {
		out = append(out, u.raw(p, x[0], x[1]))
	}
	return out
}

func c09EnvKey(p, seq int64, l [][2]int64, bad bool) string {
	return fmt.Sprint(p, "/", seq, "/", l, "/", bad)
}

func (u *c09Universe) envelope(p, seq int64, l [][2]int64, bad bool) *record.Envelope {
	k := c09EnvKey(p, seq, l, bad)
	if e, ok := u.envs[k]; ok {
		return e
	}
	rec := &peer.PeerRecord{PeerID: u.ids[p-1], Seq: uint64(seq), Addrs: u.raws(p, l)}
	key := u.privs[p-1]
	if bad {
		key = u.privs[p%int64(len(u.privs))]
	}
	e, err := record.Seal(rec, key)
	if err != nil {
		panic(err)
	}
	u.envs[k] = e
	return e
}

// content identity of a record: peer, seq, raw addresses
func (u *c09Universe) contentKey(e *record.Envelope) string {
	r, err := e.Record()
	if err != nil {
		return "?"
	}
	pr := r.(*peer.PeerRecord)
	var sb strings.Builder
	fmt.Fprint(&sb, pr.PeerID, "/", pr.Seq)
	for _, a := range pr.Addrs {
		sb.WriteString("/")
		sb.Write(a.Bytes())
	}
	return sb.String()
}

// ---- operations ---------------------------------------------------------------

type c09Op struct {
	code     int64
	p        int64
	ttl, old int64 // wire TTLs (ttl also "new" for update)
	addrs    [][2]int64
	seq, id  int64
	bad      bool
	d        int64
}

type c09Cfg struct {
	store, cache, look, pcap, gcap, rcap, nP, nA int64
}

type c09Book interface {
	pstore.AddrBook
	pstore.CertifiedAddrBook
}

type c09Run struct {
	u     *c09Universe
	cfg   c09Cfg
	clk   *c09Clock
	book  c09Book
	mem   interface {
		VerifGC()
		VerifSizes() (int, int, int, int)
		Close() error
	}
	dsb   *dsAddrBook
	store ds.Batching
	opts  Options
}

func c09Start(u *c09Universe, cfg c09Cfg) *c09Run {
	r := &c09Run{u: u, cfg: cfg, clk: &c09Clock{t: time.Unix(1_700_000_000, 0)}}
	if cfg.store == 0 {
		opts := []pstoremem.AddrBookOption{pstoremem.WithClock(r.clk)}
		if cfg.pcap > 0 {
			opts = append(opts, pstoremem.WithMaxAddressesPerPeer(int(cfg.pcap)))
		}
		if cfg.gcap > 0 {
			opts = append(opts, pstoremem.WithMaxAddresses(int(cfg.gcap)))
		}
		if cfg.rcap > 0 {
			opts = append(opts, pstoremem.WithMaxSignedPeerRecords(int(cfg.rcap)))
		}
		b := pstoremem.NewAddrBook(opts...)
		r.book, r.mem = b, b
		return r
	}
	r.store = dssync.MutexWrap(ds.NewMapDatastore())
	o := DefaultOpts()
	o.GCPurgeInterval = 0 // GC only when the harness asks for it
	o.GCLookaheadInterval = time.Duration(cfg.look) * time.Second
	o.Clock = r.clk
	o.CacheSize = 0
	if cfg.cache != 0 {
		o.CacheSize = 8
	}
	if cfg.pcap > 0 {
		o.MaxAddrsPerPeer = int(cfg.pcap)
	}
	r.opts = o
	r.open()
	return r
}

func (r *c09Run) open() {
	b, err := NewAddrBook(context.Background(), r.store, r.opts)
	if err != nil {
		panic(err)
	}
	r.dsb, r.book = b, b
}

func (r *c09Run) close() {
	if r.mem != nil {
		r.mem.Close()
	} else {
		r.dsb.Close()
	}
}

func (r *c09Run) sortedAddrs(p int64) []int64 {
	as := r.book.Addrs(r.u.ids[p-1])
	out := make([]int64, 0, len(as))
	for _, a := range as {
		id, ok := r.u.aidx[string(a.Bytes())]
		if !ok {
			id = 99 // an address that is not a transport address of the universe (e.g. kept its suffix)
		}
		out = append(out, id)
	}
	sort.Slice(out, func(i, j int) bool { return out[i] < out[j] })
	return out
}

func (r *c09Run) dsSizes() (stored, recs int64) {
	res, err := r.store.Query(context.Background(), query.Query{Prefix: addrBookBase.String()})
	if err != nil {
		panic(err)
	}
	defer res.Close()
	for e := range res.Next() {
		var rec pb.AddrBookRecord
		if err := proto.Unmarshal(e.Value, &rec); err != nil {
			panic(err)
		}
		stored += int64(len(rec.Addrs))
		if rec.CertifiedRecord != nil && len(rec.CertifiedRecord.Raw) > 0 {
			recs++
		}
	}
	return
}

// exec runs one op on the real store and appends op + observation to the line
func (r *c09Run) exec(o c09Op, line []int64, out *verifh.Out) []int64 {
	u := r.u
	wa := func(l []int64) []int64 {
		l = append(l, int64(len(o.addrs)))
		for _, x := range o.addrs {
			l = append(l, x[0], x[1])
		}
		return l
	}
	switch o.code {
	case 1:
		if len(o.addrs) == 1 {
			r.book.AddAddr(u.ids[o.p-1], u.raw(o.p, o.addrs[0][0], o.addrs[0][1]), c09TTL(o.ttl))
		} else {
			r.book.AddAddrs(u.ids[o.p-1], u.raws(o.p, o.addrs), c09TTL(o.ttl))
		}
		line = wa(append(line, 1, o.p, o.ttl))
	case 2:
		if len(o.addrs) == 1 {
			r.book.SetAddr(u.ids[o.p-1], u.raw(o.p, o.addrs[0][0], o.addrs[0][1]), c09TTL(o.ttl))
		} else {
			r.book.SetAddrs(u.ids[o.p-1], u.raws(o.p, o.addrs), c09TTL(o.ttl))
		}
		line = wa(append(line, 2, o.p, o.ttl))
	case 3:
		r.book.UpdateAddrs(u.ids[o.p-1], c09TTL(o.old), c09TTL(o.ttl))
		line = append(line, 3, o.p, o.old, o.ttl)
	case 4:
		r.book.ClearAddrs(u.ids[o.p-1])
		line = append(line, 4, o.p)
	case 5:
		env := u.envelope(o.p, o.seq, o.addrs, o.bad)
		id := int64(0)
		if !o.bad {
			ck := u.contentKey(env)
			var ok bool
			if id, ok = u.envID[ck]; !ok {
				id = int64(len(u.envID) + 1)
				u.envID[ck] = id
			}
		} else {
			id = 1 << 30
		}
		ok, err := r.book.ConsumePeerRecord(env, c09TTL(o.ttl))
		res := int64(0)
		if err != nil {
			res = 2
		} else if ok {
			res = 1
		}
		b := int64(0)
		if o.bad {
			b = 1
		}
		line = wa(append(line, 5, o.p, o.seq, id, o.ttl, b))
		line = append(line, res)
		if out != nil {
			out.Cover(fmt.Sprintf("consume.result.%d", res))
		}
	case 6:
		as := r.sortedAddrs(o.p)
		line = append(line, 6, o.p, int64(len(as)))
		line = append(line, as...)
	case 7:
		ps := r.book.PeersWithAddrs()
		ids := make([]int64, 0, len(ps))
		for _, p := range ps {
			id, ok := u.pidx[p]
			if !ok {
				id = 99
			}
			ids = append(ids, id)
		}
		sort.Slice(ids, func(i, j int) bool { return ids[i] < ids[j] })
		line = append(line, 7, int64(len(ids)))
		line = append(line, ids...)
	case 8:
		e := r.book.GetPeerRecord(u.ids[o.p-1])
		id := int64(0)
		if e != nil {
			var ok bool
			if id, ok = u.envID[u.contentKey(e)]; !ok {
				id = 1 << 31 // a record nobody handed to the book
			}
		}
		line = append(line, 8, o.p, id)
	case 9:
		r.clk.t = r.clk.t.Add(time.Duration(o.d) * time.Second)
		line = append(line, 9, o.d)
	case 10:
		if r.mem != nil {
			r.mem.VerifGC()
			st, hp, rc, _ := r.mem.VerifSizes()
			c09HeapIdx[len(line)+3] = true
			line = append(line, 10, int64(st), int64(rc), int64(hp))
		} else {
			if r.dsb.gc.lookaheadEnabled {
				r.dsb.gc.populateLookahead()
			}
			r.dsb.gc.purgeFunc()
			st, rc := r.dsSizes()
			line = append(line, 10, st, rc, 0)
		}
	case 11:
		if r.mem == nil {
			r.dsb.Close()
			r.open()
		}
		line = append(line, 11)
	}
	return line
}

func (cfg c09Cfg) header() []int64 {
	return []int64{cfg.store, cfg.cache, cfg.look, cfg.pcap, cfg.gcap, cfg.rcap, cfg.nP, cfg.nA}
}

// positions of the heap-count field in the line being written (mem only)
var c09HeapIdx = map[int]bool{}

func c09RunCase(u *c09Universe, cfg c09Cfg, ops []c09Op, out *verifh.Out) []int64 {
	if cfg.store == 0 {
		c09HeapIdx = map[int]bool{}
	}
	r := c09Start(u, cfg)
	defer r.close()
	line := cfg.header()
	for _, o := range ops {
		line = r.exec(o, line, out)
	}
	return line
}

// ---- parsing a case line back into cfg + ops (replay, corpus) ----------------------

func c09Parse(in []int64) (c09Cfg, []c09Op, bool) {
	if len(in) < 8 {
		return c09Cfg{}, nil, false
	}
	cfg := c09Cfg{in[0], in[1], in[2], in[3], in[4], in[5], in[6], in[7]}
	var ops []c09Op
	i := 8
	need := func(k int) bool { return i+k <= len(in) }
	rd := func() (l [][2]int64, ok bool) {
		if !need(1) {
			return nil, false
		}
		n := int(in[i])
		i++
		if n < 0 || !need(2*n) {
			return nil, false
		}
		for k := 0; k < n; k++ {
			l = append(l, [2]int64{in[i], in[i+1]})
			i += 2
		}
		return l, true
	}
	for i < len(in) {
		c := in[i]
		i++
		switch c {
		case 1, 2:
			if !need(2) {
				return cfg, nil, false
			}
			o := c09Op{code: c, p: in[i], ttl: in[i+1]}
			i += 2
			l, ok := rd()
			if !ok {
				return cfg, nil, false
			}
			o.addrs = l
			ops = append(ops, o)
		case 3:
			if !need(3) {
				return cfg, nil, false
			}
			ops = append(ops, c09Op{code: 3, p: in[i], old: in[i+1], ttl: in[i+2]})
			i += 3
		case 4:
			if !need(1) {
				return cfg, nil, false
			}
			ops = append(ops, c09Op{code: 4, p: in[i]})
			i++
		case 5:
			if !need(5) {
				return cfg, nil, false
			}
			o := c09Op{code: 5, p: in[i], seq: in[i+1], id: in[i+2], ttl: in[i+3], bad: in[i+4] != 0}
			i += 5
			l, ok := rd()
			if !ok || !need(1) {
				return cfg, nil, false
			}
			o.addrs = l
			i++ // result
			ops = append(ops, o)
		case 6:
			if !need(2) {
				return cfg, nil, false
			}
			o := c09Op{code: 6, p: in[i]}
			k := int(in[i+1])
			i += 2 + k
			ops = append(ops, o)
		case 7:
			if !need(1) {
				return cfg, nil, false
			}
			k := int(in[i])
			i += 1 + k
			ops = append(ops, c09Op{code: 7})
		case 8:
			if !need(2) {
				return cfg, nil, false
			}
			ops = append(ops, c09Op{code: 8, p: in[i]})
			i += 2
		case 9:
			if !need(1) {
				return cfg, nil, false
			}
			ops = append(ops, c09Op{code: 9, d: in[i]})
			i++
		case 10:
			i += 3
			ops = append(ops, c09Op{code: 10})
		case 11:
			ops = append(ops, c09Op{code: 11})
		default:
			return cfg, nil, false
		}
	}
	if i != len(in) {
		return cfg, nil, false
	}
	return cfg, ops, true
}

// ---- fixed corpus ---------------------------------------------------------------

// short-hands for corpus histories
func cAdd(p, ttl int64, a ...int64) c09Op  { return c09Op{code: 1, p: p, ttl: ttl, addrs: c09Plain(a)} }
func cSet(p, ttl int64, a ...int64) c09Op  { return c09Op{code: 2, p: p, ttl: ttl, addrs: c09Plain(a)} }
func cUpd(p, old, new int64) c09Op         { return c09Op{code: 3, p: p, old: old, ttl: new} }
func cClr(p int64) c09Op                   { return c09Op{code: 4, p: p} }
func cCon(p, seq, ttl int64, a ...int64) c09Op {
	return c09Op{code: 5, p: p, seq: seq, ttl: ttl, addrs: c09Plain(a)}
}
func cConRaw(p, seq, ttl int64, a ...[2]int64) c09Op {
	return c09Op{code: 5, p: p, seq: seq, ttl: ttl, addrs: a}
}
func cAddrs(p int64) c09Op { return c09Op{code: 6, p: p} }
func cPeers() c09Op        { return c09Op{code: 7} }
func cRec(p int64) c09Op   { return c09Op{code: 8, p: p} }
func cAdv(d int64) c09Op   { return c09Op{code: 9, d: d} }
func cGC() c09Op           { return c09Op{code: 10} }
func cReopen() c09Op       { return c09Op{code: 11} }
func c09Plain(a []int64) [][2]int64 {
	l := make([][2]int64, 0, len(a))
	for _, x := range a {
		l = append(l, [2]int64{x, 0})
	}
	return l
}

type c09Corpus struct {
	name string
	ops  []c09Op
}

func c09CorpusCases() []c09Corpus {
	C, P := c09TTLConn, c09TTLPerm
	obsAll := func(ps ...int64) []c09Op {
		var l []c09Op
		for _, p := range ps {
			l = append(l, cAddrs(p), cRec(p))
		}
		return append(l, cPeers())
	}
	cat := func(parts ...[]c09Op) []c09Op {
		var l []c09Op
		for _, p := range parts {
			l = append(l, p...)
		}
		return l
	}
	return []c09Corpus{
		// DESIGN.md section 9 item 1 (repaired): connected -> finite TTL must enter the expiry heap
		{"fixed1.update_conn_to_finite_then_gc", cat([]c09Op{cAdd(1, C, 1), cUpd(1, C, 120), cAddrs(1), cAdv(120), cAddrs(1), cGC()}, obsAll(1))},
		{"fixed1.set_conn_to_finite_then_gc", cat([]c09Op{cAdd(1, C, 1, 2), cSet(1, 900, 1), cAdv(900), cGC()}, obsAll(1), []c09Op{cSet(1, 120, 2), cAdv(121), cGC()}, obsAll(1))},
		{"fixed1.perm_to_temp_identify_disconnect", cat([]c09Op{cCon(1, 1, C, 1, 2), cUpd(1, C, 900), cAdv(899), cAddrs(1), cAdv(1), cGC()}, obsAll(1))},
		// item 2 (repaired): deleting several addresses of one peer in one call
		{"fixed2.delete_A_C_of_A_B_C", cat([]c09Op{cAdd(1, 3600, 1, 2, 3), cSet(1, 0, 1, 3), cAddrs(1), cGC()}, obsAll(1))},
		{"fixed2.delete_all_but_one_of_five", cat([]c09Op{cAdd(1, 3600, 1, 2, 3, 4, 5), cSet(1, -1, 5, 4, 2, 1), cAddrs(1), cSet(1, 0, 3, 3), cAddrs(1), cGC()}, obsAll(1))},
		{"fixed2.consume_supersedes_several", cat([]c09Op{cCon(1, 1, 3600, 1, 2, 3, 4), cCon(1, 2, 3600, 2), cAddrs(1), cGC()}, obsAll(1))},
		// deleteInPlace moves the tail entry into the freed slot: the record must be sorted again before
		// it is stored (clean / GC look at the first entry only).  Deleting the entry with the nearest
		// expiry puts the one with the farthest expiry in front of one that expires sooner.
		{"ok.delete_head_then_entry_behind_expires", cat([]c09Op{cAdd(1, 10, 1), cAdd(1, 120, 2), cAdd(1, 900, 3), cSet(1, 0, 1), cAdv(119)}, obsAll(1), []c09Op{cAdv(1)}, obsAll(1), []c09Op{cGC(), cReopen()}, obsAll(1), []c09Op{cAdv(780), cGC()}, obsAll(1))},
		{"ok.delete_head_of_five_then_reopen_gc", cat([]c09Op{cAdd(1, 10, 1), cAdd(1, 120, 2), cAdd(1, 900, 3), cAdd(1, 1800, 4), cAdd(1, 3600, 5), cSet(1, -1, 1, 3), cReopen(), cAdv(120), cGC()}, obsAll(1), []c09Op{cAdv(1680), cGC()}, obsAll(1))},
		// item 5 and relatives (repaired by 39ac082, c312de3, 6eab440): the 13 recorded finding
		// histories, one or more per former known-finding key; all must pass now
		{"fixed5.mem_stale_seq.lower_seq_after_expiry_before_gc", cat([]c09Op{cCon(1, 5, 120, 1), cAdv(180), cCon(1, 3, 3600, 2)}, obsAll(1))},
		{"fixed5.mem_stale_entry_add.readd_keeps_old_class", cat([]c09Op{cAdd(1, 3600, 1), cAdv(7200), cAdd(1, 120, 1), cUpd(1, 3600, 0)}, obsAll(1))},
		{"fixed5.mem_stale_entry_update.update_resurrects_expired", cat([]c09Op{cAdd(1, 120, 1), cAdv(180), cUpd(1, 120, 3600)}, obsAll(1))},
		{"fixed5.lapsed_record_add.lapsed_record_after_readd", cat([]c09Op{cCon(1, 5, 120, 1), cAdv(180), cAdd(1, 3600, 2)}, obsAll(1), []c09Op{cCon(1, 3, 3600, 3)}, obsAll(1))},
		{"fixed5.lapsed_record_add_after_read.lapsed_record_read_then_readd", cat([]c09Op{cCon(1, 5, 120, 1), cAdv(180)}, obsAll(1), []c09Op{cAdd(1, 3600, 2)}, obsAll(1))},
		{"ok.d3.lapsed_record_gc_then_readd", cat([]c09Op{cCon(1, 5, 120, 1), cAdv(180), cGC(), cAdd(1, 3600, 2)}, obsAll(1))},
		{"fixed5.lapsed_record_consume.lapsed_record_evicts", cat([]c09Op{cCon(1, 5, 120, 1), cAdv(180), cAdd(1, 3600, 1), cCon(1, 6, 3600, 2)}, obsAll(1))},
		{"fixed5.ds_lapsed_record_set0.set0_all_then_readd", cat([]c09Op{cCon(1, 5, 3600, 1), cSet(1, 0, 1), cAdd(1, 3600, 2)}, obsAll(1))},
		{"fixed5.ds_lapsed_record_update0.update0_all_then_readd", cat([]c09Op{cCon(1, 5, 3600, 1), cUpd(1, 3600, 0), cAdd(1, 3600, 2)}, obsAll(1))},
		{"ok.h.update_to_negative", cat([]c09Op{cAdd(1, 3600, 1, 2), cUpd(1, 3600, -1)}, obsAll(1), []c09Op{cGC()}, obsAll(1))},
		{"fixed5.ds_lapsed_record_ttl0.consume_ttl0_then_add", cat([]c09Op{cCon(1, 5, 0, 1)}, obsAll(1), []c09Op{cAdd(1, 3600, 2)}, obsAll(1), []c09Op{cCon(1, 4, 3600, 1)}, obsAll(1))},
		{"ok.j.consume_empty_record", cat([]c09Op{cAdd(1, 3600, 2), cCon(1, 5, 3600)}, obsAll(1), []c09Op{cCon(1, 4, 3600, 1)}, obsAll(1))},
		{"fixed5.record_suffix.record_suffix_own_then_plain", cat([]c09Op{cConRaw(1, 1, 3600, [2]int64{1, 1}, [2]int64{2, 0}), cConRaw(1, 2, 120, [2]int64{3, 0})}, obsAll(1))},
		{"fixed5.record_suffix.record_plain_then_suffix_own", cat([]c09Op{cConRaw(1, 1, 3600, [2]int64{1, 0}), cConRaw(1, 2, 120, [2]int64{1, 1})}, obsAll(1), []c09Op{cAdv(120)}, obsAll(1))},
		{"fixed5.mem_stale_entry_consume", cat([]c09Op{cAdd(1, 3600, 1), cAdv(7200), cCon(1, 1, 120, 1), cUpd(1, 3600, 0)}, obsAll(1))},
		{"fixed5.lapsed_record_set", cat([]c09Op{cCon(1, 5, 120, 1), cAdv(180), cSet(1, 3600, 2)}, obsAll(1), []c09Op{cCon(1, 3, 3600, 3)}, obsAll(1))},
		{"fixed5.mem_lapsed_record_update", cat([]c09Op{cCon(1, 1, 900, 1), cAdv(3600), cUpd(1, 900, 120)}, obsAll(1), []c09Op{cGC()}, obsAll(1))},
		{"fixed5.ds_gc_lookahead_cached_clean", cat([]c09Op{cAdd(1, 120, 1), cAdv(180), cRec(1), cGC(), cPeers()}, obsAll(1))},
		{"fixed5.ds_gc_lookahead_cached_partial", cat([]c09Op{cAdd(1, 9223372036854775807 / 1000000000 * 0 + (1 << 40) + 1, 4), cAdd(1, 120, 2, 3), cAdv(899), cUpd(1, 1 << 40, (1<<40)+1), cGC(), cPeers()}, obsAll(1))},
		// found by the refinement proof, repaired by /repo 78d0362: a batch naming a NEW address twice
		// (plainly, or once with /p2p/<self>) was stored and returned twice by pstoreds
		{"fixed6.dup_batch.add_plain_and_p2p_self", cat([]c09Op{{code: 1, p: 1, ttl: 120, addrs: [][2]int64{{1, 0}, {1, 1}}}, cAddrs(1), cGC()}, obsAll(1))},
		{"fixed6.dup_batch.add_plain_twice_among_others", cat([]c09Op{cAdd(1, 3600, 2), {code: 1, p: 1, ttl: 900, addrs: [][2]int64{{1, 0}, {2, 0}, {3, 1}, {1, 0}, {3, 0}}}, cAddrs(1), cGC()}, obsAll(1), []c09Op{cAdv(900), cGC()}, obsAll(1))},
		{"fixed6.dup_batch.set_twice", cat([]c09Op{{code: 2, p: 1, ttl: 120, addrs: [][2]int64{{1, 1}, {1, 0}, {1, 1}}}, cAddrs(1), cGC(), cSet(1, 0, 1, 1), cAddrs(1), cGC()}, obsAll(1))},
		{"fixed6.dup_batch.consume_twice", cat([]c09Op{cConRaw(1, 1, 900, [2]int64{3, 1}, [2]int64{3, 0}, [2]int64{2, 0}, [2]int64{2, 0}), cAddrs(1), cGC()}, obsAll(1), []c09Op{cConRaw(1, 2, 0, [2]int64{4, 0}, [2]int64{4, 0})}, obsAll(1), []c09Op{cGC()}, obsAll(1))},
		// deadline-directed (adversary round 2): a re-add with a SMALLER class late in the life of a
		// larger one must move the deadline to now+small (m5); UpdateAddrs(ttl, ttl) is a refresh to
		// now+ttl (m8); reads between the old and the new deadline, also after close/reopen
		{"deadline.readd_smaller_outlives.add", cat([]c09Op{cAdd(1, 900, 1), cAdv(840), cAdd(1, 120, 1), cAdv(59)}, obsAll(1), []c09Op{cAdv(1)}, obsAll(1), []c09Op{cAdv(30), cReopen()}, obsAll(1), []c09Op{cGC(), cPeers(), cAdv(29)}, obsAll(1), []c09Op{cAdv(1)}, obsAll(1), []c09Op{cGC()}, obsAll(1))},
		{"deadline.readd_smaller_outlives.consume", cat([]c09Op{cCon(1, 1, 3600, 1, 2), cAdv(3590), cCon(1, 1, 120, 1), cAdv(10)}, obsAll(1), []c09Op{cAdv(50), cGC(), cReopen()}, obsAll(1), []c09Op{cAdv(60)}, obsAll(1), []c09Op{cGC()}, obsAll(1))},
		{"deadline.readd_smaller_does_not_outlive", cat([]c09Op{cAdd(1, 900, 1), cAdv(100), cAdd(1, 120, 1), cAdv(120)}, obsAll(1), []c09Op{cAdv(679)}, obsAll(1), []c09Op{cAdv(1)}, obsAll(1), []c09Op{cGC()}, obsAll(1))},
		{"deadline.set_smaller_late_and_early", cat([]c09Op{cAdd(1, 900, 1, 2), cAdv(840), cSet(1, 120, 1), cAdv(60)}, obsAll(1), []c09Op{cAdv(59)}, obsAll(1), []c09Op{cAdv(1), cReopen()}, obsAll(1), []c09Op{cAdd(2, 3600, 3), cAdv(10), cSet(2, 120, 3), cAdv(119)}, obsAll(2), []c09Op{cAdv(1)}, obsAll(2), []c09Op{cGC()}, obsAll(1, 2))},
		{"deadline.update_same_class_refreshes", cat([]c09Op{cAdd(1, 120, 1), cAdd(1, 900, 2), cAdv(60), cUpd(1, 120, 120), cAdv(60)}, obsAll(1), []c09Op{cAdv(30), cReopen()}, obsAll(1), []c09Op{cGC(), cPeers(), cAdv(29)}, obsAll(1), []c09Op{cAdv(1)}, obsAll(1), []c09Op{cGC()}, obsAll(1))},
		{"deadline.update_same_class_connected_and_record", cat([]c09Op{cCon(1, 1, 900, 1), cAdd(1, C, 2), cAdv(800), cUpd(1, C, C), cUpd(1, 900, 900), cAdv(100)}, obsAll(1), []c09Op{cAdv(799), cReopen()}, obsAll(1), []c09Op{cAdv(1)}, obsAll(1), []c09Op{cGC()}, obsAll(1))},
		{"deadline.update_to_other_class_between", cat([]c09Op{cAdd(1, 900, 1), cAdv(500), cUpd(1, 900, 120), cAdv(119)}, obsAll(1), []c09Op{cAdv(1)}, obsAll(1), []c09Op{cAdd(1, 120, 1), cAdv(60), cUpd(1, 120, 900), cAdv(60)}, obsAll(1), []c09Op{cAdv(839), cReopen()}, obsAll(1), []c09Op{cAdv(1), cGC()}, obsAll(1))},
		// exactly-at-expiry, TTL class moves, permanent
		{"ok.exactly_at_expiry", cat([]c09Op{cAdd(1, 120, 1), cAdd(2, 900, 1, 2), cAdv(119)}, obsAll(1, 2), []c09Op{cAdv(1)}, obsAll(1, 2), []c09Op{cGC()}, obsAll(1, 2), []c09Op{cAdv(779)}, obsAll(2), []c09Op{cAdv(1), cGC()}, obsAll(2))},
		{"ok.add_never_shortens", cat([]c09Op{cAdd(1, 3600, 1), cAdd(1, 120, 1), cAdv(121)}, obsAll(1), []c09Op{cSet(1, 120, 1), cAdv(120), cGC()}, obsAll(1))},
		{"ok.classes", cat([]c09Op{cAdd(1, 120, 1), cAdd(1, 900, 2), cAdd(1, C, 3), cAdd(1, P, 4), cUpd(1, 900, C), cUpd(1, 120, 0)}, obsAll(1), []c09Op{cUpd(1, C, 120), cAdv(120), cGC()}, obsAll(1), []c09Op{cClr(1), cGC()}, obsAll(1))},
		{"ok.record_lifecycle", cat([]c09Op{cCon(1, 2, 900, 1, 2), cRec(1), cCon(1, 1, 900, 3), cCon(1, 2, 3600, 1), cAdv(900)}, obsAll(1), []c09Op{cGC(), cAdv(2700), cRec(1), cGC()}, obsAll(1), []c09Op{cCon(1, 1, 120, 4)}, obsAll(1), []c09Op{cClr(1), cRec(1), cCon(1, 0, 120, 4)}, obsAll(1))},
		{"ok.foreign_suffix_ignored", cat([]c09Op{{code: 1, p: 1, ttl: 3600, addrs: [][2]int64{{1, 2}, {2, 1}, {3, 0}}}, {code: 2, p: 1, ttl: 0, addrs: [][2]int64{{2, 2}, {3, 1}}}}, obsAll(1, 2))},
		{"ok.reopen", cat([]c09Op{cCon(1, 2, 900, 1, 2), cAdd(2, C, 3), cReopen()}, obsAll(1, 2), []c09Op{cAdv(900), cReopen()}, obsAll(1, 2), []c09Op{cGC(), cReopen()}, obsAll(1, 2))},
	}
}

func c09Configs(thorough bool) []c09Cfg {
	return []c09Cfg{
		{store: 0}, {store: 1, cache: 0}, {store: 1, cache: 1}, {store: 1, cache: 0, look: 30}, {store: 1, cache: 1, look: 30},
	}
}

// ---- generator ---------------------------------------------------------------

var c09TTLs = []int64{120, 900, 3600, 10, 1800, c09TTLConn, c09TTLPerm, 0, -1}

type c09Gen struct {
	r      *verifh.Rand
	nP, nA int64
	calm   bool // GC directly after every expiry-creating op; suffix-free records
	seq    map[int64]int64
	ds     bool
}

func (g *c09Gen) ttl(posBias bool) int64 {
	if posBias && g.r.Chance(5, 6) {
		return c09TTLs[g.r.Intn(7)]
	}
	return c09TTLs[g.r.Intn(len(c09TTLs))]
}

func (g *c09Gen) batch(max int, sfxOK bool) [][2]int64 {
	n := 1
	if g.r.Chance(1, 2) {
		n = 1 + g.r.Intn(max)
	}
	perm := make([]int64, g.nA)
	for i := range perm {
		perm[i] = int64(i + 1)
	}
	for i := len(perm) - 1; i > 0; i-- {
		j := g.r.Intn(i + 1)
		perm[i], perm[j] = perm[j], perm[i]
	}
	if n > len(perm) {
		n = len(perm)
	}
	l := make([][2]int64, 0, n)
	for i := 0; i < n; i++ {
		sfx := int64(0)
		if sfxOK && g.r.Chance(1, 4) {
			sfx = 1 + int64(g.r.Intn(2))
		}
		l = append(l, [2]int64{perm[i], sfx})
	}
	// one batch in five names an address twice: plainly, or once with and once without the
	// /p2p/<self> suffix (cleanAddrs / SplitAddr map both to the same transport address);
	// the second occurrence lands at a random position.  (/repo 78d0362: pstoreds stored it twice.)
	if g.r.Chance(1, 5) {
		i := g.r.Intn(len(l))
		dup := [2]int64{l[i][0], 0}
		if sfxOK && g.r.Chance(1, 2) {
			if g.r.Chance(1, 2) {
				l[i][1], dup[1] = 0, 1
			} else {
				l[i][1], dup[1] = 1, 0
			}
		} else {
			l[i][1] = 0
		}
		at := g.r.Intn(len(l) + 1)
		l = append(l, [2]int64{})
		copy(l[at+1:], l[at:])
		l[at] = dup
	}
	return l
}

func (g *c09Gen) history(n int, out *verifh.Out) []c09Op {
	var ops []c09Op
	lastTTL := int64(120)
	reads := func(p int64) {
		ops = append(ops, cAddrs(p))
		if g.r.Chance(1, 2) {
			ops = append(ops, cRec(p))
		}
		if g.r.Chance(1, 3) {
			ops = append(ops, cPeers())
		}
	}
	for len(ops) < n {
		p := 1 + int64(g.r.Intn(int(g.nP)))
		switch k := g.r.Intn(100); {
		case k < 18:
			t := g.ttl(true)
			lastTTL = t
			ops = append(ops, c09Op{code: 1, p: p, ttl: t, addrs: g.batch(4, true)})
		case k < 30:
			t := g.ttl(g.r.Chance(2, 3))
			if t > 0 {
				lastTTL = t
			}
			ops = append(ops, c09Op{code: 2, p: p, ttl: t, addrs: g.batch(4, true)})
		case k < 42:
			old := g.ttl(true)
			if g.r.Chance(1, 2) {
				old = lastTTL
			}
			nw := g.ttl(g.r.Chance(3, 4))
			ops = append(ops, cUpd(p, old, nw))
			if nw > 0 {
				lastTTL = nw
			}
			if g.calm && nw < 0 {
				ops = append(ops, cGC())
			}
		case k < 45:
			ops = append(ops, cClr(p))
		case k < 60:
			s := g.seq[p]
			switch g.r.Intn(6) {
			case 0:
				if s > 0 {
					s--
				}
			case 1: // equal
			default:
				s += 1 + int64(g.r.Intn(2))
			}
			if s > g.seq[p] {
				g.seq[p] = s
			}
			t := g.ttl(true)
			o := c09Op{code: 5, p: p, seq: s, ttl: t, addrs: g.batch(4, !g.calm)}
			if g.r.Chance(1, 12) {
				o.addrs = nil
			}
			if g.r.Chance(1, 25) {
				o.bad = true
			}
			ops = append(ops, o)
		case k < 80:
			var d int64
			switch g.r.Intn(7) {
			case 0:
				d = c09Abs(lastTTL)
				if d >= c09TTLConn {
					d = 3600
				}
			case 1:
				d = c09Abs(lastTTL) - 1
				if lastTTL >= c09TTLConn || d < 0 {
					d = 119
				}
			case 2:
				d = 120
			case 3:
				d = 780
			case 4:
				d = 1 + int64(g.r.Intn(10))
			case 5:
				d = 0
			default:
				d = []int64{60, 900, 1680, 1800, 2700, 3600}[g.r.Intn(6)]
			}
			ops = append(ops, cAdv(d))
			if g.calm || g.r.Chance(1, 3) {
				ops = append(ops, cGC())
				if g.r.Chance(1, 2) {
					ops = append(ops, cPeers())
				}
			}
		case k < 86:
			ops = append(ops, cGC())
			if g.r.Chance(1, 2) {
				ops = append(ops, cPeers())
			}
		case k < 90:
			if g.ds {
				ops = append(ops, cReopen())
			} else {
				ops = append(ops, cPeers())
			}
		default:
		}
		if g.r.Chance(3, 5) {
			reads(p)
		}
	}
	for p := int64(1); p <= g.nP; p++ {
		ops = append(ops, cAddrs(p), cRec(p))
	}
	ops = append(ops, cPeers(), cGC(), cPeers())
	return ops
}

func c09Abs(x int64) int64 {
	if x < 0 {
		return -x
	}
	return x
}

// coverage of the decision points, computed from the executed line
func c09Cover(out *verifh.Out, cfg c09Cfg, ops []c09Op, line []int64) {
	out.Cover(fmt.Sprintf("cases.store%d.cache%d.look%d.caps%v", cfg.store, cfg.cache, c09B(cfg.look > 0), cfg.pcap+cfg.gcap+cfg.rcap > 0))
	cls := func(t int64) string {
		switch {
		case t == c09TTLPerm:
			return "perm"
		case t == c09TTLConn:
			return "conn"
		case t < 0:
			return "neg"
		case t == 0:
			return "zero"
		}
		return "finite"
	}
	for _, o := range ops {
		switch o.code {
		case 1, 2, 5:
			out.Cover(fmt.Sprintf("op%d.ttl.%s", o.code, cls(o.ttl)))
			if len(o.addrs) > 1 {
				out.Cover(fmt.Sprintf("op%d.batch_several", o.code))
			}
			seen := map[int64]int64{}
			for _, a := range o.addrs {
				if a[1] != 2 {
					if prev, ok := seen[a[0]]; ok {
						if prev == a[1] {
							out.Cover(fmt.Sprintf("op%d.dup_in_batch.same_form", o.code))
						} else {
							out.Cover(fmt.Sprintf("op%d.dup_in_batch.plain_and_p2p_self", o.code))
						}
					}
					seen[a[0]] = a[1]
				}
			}
			for _, a := range o.addrs {
				if a[1] == 1 {
					out.Cover(fmt.Sprintf("op%d.sfx_own", o.code))
				} else if a[1] == 2 {
					out.Cover(fmt.Sprintf("op%d.sfx_foreign", o.code))
				}
			}
			if o.code == 5 && o.bad {
				out.Cover("op5.bad_signer")
			}
		case 3:
			out.Cover("op3.transition." + cls(o.old) + "->" + cls(o.ttl))
		case 9:
			out.Cover("op9.advance")
		case 10:
			out.Cover("op10.gc")
		case 11:
			out.Cover("op11.reopen")
		}
	}
	out.CoverN("ops.total", int64(len(ops)))
}

func c09B(b bool) int {
	if b {
		return 1
	}
	return 0
}

// shadow bookkeeping (only for coverage counters): which reads saw an address
// disappear exactly at its expiry instant, etc.
func c09CoverExpiry(out *verifh.Out, ops []c09Op) {
	type key struct{ p, a int64 }
	exp := map[key]int64{}
	now := int64(0)
	for _, o := range ops {
		switch o.code {
		case 1, 2:
			if o.ttl > 0 && o.ttl < c09TTLConn {
				for _, a := range o.addrs {
					if a[1] != 2 {
						exp[key{o.p, a[0]}] = now + o.ttl
					}
				}
			}
		case 9:
			now += o.d
			for _, e := range exp {
				if e == now && o.d > 0 {
					out.Cover("advance.lands_exactly_on_an_expiry")
					break
				}
			}
		}
	}
}


// ---- deadline-directed generator ------------------------------------------------
// Operations and clock advances are placed RELATIVE TO THE DEADLINES the history has assigned so
// far: a shadow book (used only to steer the generator, never to judge) remembers, per (peer,
// address), the current class and deadline, and every deadline ever assigned (superseded ones
// included).  The walker then moves the clock to just before / exactly on / just after those
// instants and reads there, so that "which of two candidate deadlines did the book keep?" is observed.

type c09ShadowEnt struct{ ttl, exp int64 }
type c09ShadowKey struct{ p, a int64 }

type c09Directed struct {
	r      *verifh.Rand
	nP, nA int64
	now    int64
	ents   map[c09ShadowKey]*c09ShadowEnt
	cand   []int64 // every finite deadline ever assigned (absolute seconds)
	seq    map[int64]int64
	ops    []c09Op
	out    *verifh.Out
}

var c09Finite = []int64{10, 120, 900, 1800, 3600}

func (g *c09Directed) emit(o c09Op) { g.ops = append(g.ops, o) }

func (g *c09Directed) assign(p, a, ttl int64, extend bool) {
	if ttl <= 0 {
		return
	}
	k := c09ShadowKey{p, a}
	exp := g.now + ttl
	if ttl >= c09TTLConn {
		exp = 1 << 50
	} else {
		g.cand = append(g.cand, exp)
	}
	e, ok := g.ents[k]
	if !ok || e.exp <= g.now {
		g.ents[k] = &c09ShadowEnt{ttl, exp}
		return
	}
	if extend {
		if ttl > e.ttl {
			e.ttl = ttl
		}
		if exp > e.exp {
			e.exp = exp
		}
	} else {
		e.ttl, e.exp = ttl, exp
	}
}

func (g *c09Directed) advance(d int64) {
	if d < 0 {
		d = 0
	}
	g.now += d
	g.emit(cAdv(d))
}

func (g *c09Directed) reads(p int64) {
	g.emit(cAddrs(p))
	switch g.r.Intn(6) {
	case 0:
		g.emit(cPeers())
	case 1:
		g.emit(cRec(p))
	case 2:
		g.emit(cGC())
		g.emit(cPeers())
	case 3:
		g.emit(cReopen())
		g.emit(cAddrs(p))
	}
}

// a live finite entry of the shadow, if any
func (g *c09Directed) pick() (c09ShadowKey, *c09ShadowEnt, bool) {
	var ks []c09ShadowKey
	for k, e := range g.ents {
		if e.exp > g.now && e.ttl < c09TTLConn {
			ks = append(ks, k)
		}
	}
	if len(ks) == 0 {
		return c09ShadowKey{}, nil, false
	}
	sort.Slice(ks, func(i, j int) bool { return ks[i].p < ks[j].p || (ks[i].p == ks[j].p && ks[i].a < ks[j].a) })
	k := ks[g.r.Intn(len(ks))]
	return k, g.ents[k], true
}

func (g *c09Directed) write(kind int, p, a, ttl int64) {
	switch kind {
	case 0:
		g.emit(cAdd(p, ttl, a))
		g.assign(p, a, ttl, true)
	case 1:
		g.emit(cSet(p, ttl, a))
		g.assign(p, a, ttl, false)
	default:
		g.seq[p]++
		g.emit(cCon(p, g.seq[p], ttl, a))
		g.assign(p, a, ttl, true)
	}
}

// move the clock through the next deadlines (old and new ones alike) and read around them
func (g *c09Directed) walk(p int64, stops int) {
	for i := 0; i < stops; i++ {
		next := int64(-1)
		for _, c := range g.cand {
			if c > g.now && (next < 0 || c < next) {
				next = c
			}
		}
		if next < 0 {
			return
		}
		switch g.r.Intn(4) {
		case 0: // one second before the deadline, then onto it
			g.advance(next - 1 - g.now)
			g.reads(p)
			g.advance(next - g.now)
			g.out.Cover("directed.read_exactly_on_a_deadline")
		case 1: // exactly on it
			g.advance(next - g.now)
			g.out.Cover("directed.read_exactly_on_a_deadline")
		case 2: // between this deadline and the one after it
			after := int64(-1)
			for _, c := range g.cand {
				if c > next && (after < 0 || c < after) {
					after = c
				}
			}
			if after > next+1 {
				g.advance(next + 1 + int64(g.r.Intn(int(after-next-1))) - g.now)
				g.out.Cover("directed.read_between_two_deadlines")
			} else {
				g.advance(next + 1 - g.now)
			}
		default:
			g.advance(next + 1 - g.now)
		}
		g.reads(p)
	}
}

func (g *c09Directed) history(phases int) []c09Op {
	for ph := 0; ph < phases; ph++ {
		k, e, ok := g.pick()
		if !ok || g.r.Chance(1, 4) {
			// seed an entry (or a small batch) in some finite class, sometimes connected
			p := 1 + int64(g.r.Intn(int(g.nP)))
			a := 1 + int64(g.r.Intn(int(g.nA)))
			t := c09Finite[1+g.r.Intn(len(c09Finite)-1)]
			if g.r.Chance(1, 8) {
				t = c09TTLConn
			}
			g.write(g.r.Intn(3), p, a, t)
			if g.r.Chance(1, 3) {
				b := 1 + a%g.nA
				g.write(0, p, b, c09Finite[g.r.Intn(len(c09Finite))])
			}
			g.reads(p)
			continue
		}
		left := e.exp - g.now
		switch g.r.Intn(7) {
		case 0, 1: // re-add with a SMALLER class, late enough that now+small outlives the old deadline
			var smaller []int64
			for _, t := range c09Finite {
				if t < e.ttl {
					smaller = append(smaller, t)
				}
			}
			if len(smaller) == 0 {
				g.write(0, k.p, k.a, e.ttl)
				g.out.Cover("directed.readd_same_class")
				break
			}
			t := smaller[g.r.Intn(len(smaller))]
			if left > t-1 && t > 1 {
				g.advance(left - 1 - int64(g.r.Intn(int(t-1)))) // now the entry has 1..t-1 seconds left
			}
			g.write([]int{0, 0, 2}[g.r.Intn(3)], k.p, k.a, t)
			g.out.Cover("directed.readd_smaller_class_outlives_old_deadline")
		case 2: // re-add with a smaller class early: must NOT move the deadline
			t := c09Finite[g.r.Intn(len(c09Finite))]
			g.write([]int{0, 2}[g.r.Intn(2)], k.p, k.a, t)
			if t < e.ttl && g.now+t < e.exp {
				g.out.Cover("directed.readd_smaller_class_does_not_outlive")
			}
		case 3: // UpdateAddrs(old == new): a refresh
			if left > 1 {
				g.advance(1 + int64(g.r.Intn(int(left-1))))
			}
			g.emit(cUpd(k.p, e.ttl, e.ttl))
			for kk, ee := range g.ents {
				if kk.p == k.p && ee.ttl == e.ttl && ee.exp > g.now {
					ee.exp = g.now + e.ttl
					g.cand = append(g.cand, ee.exp)
				}
			}
			g.out.Cover("directed.update_same_class")
		case 4: // UpdateAddrs to another finite class somewhere in the entry's life
			if left > 1 {
				g.advance(int64(g.r.Intn(int(left))))
			}
			t := c09Finite[g.r.Intn(len(c09Finite))]
			old := e.ttl
			g.emit(cUpd(k.p, old, t))
			for kk, ee := range g.ents {
				if kk.p == k.p && ee.ttl == old && ee.exp > g.now {
					ee.ttl, ee.exp = t, g.now+t
					g.cand = append(g.cand, ee.exp)
				}
			}
			g.out.Cover("directed.update_other_class")
		case 5: // SetAddrs late in the life: the deadline moves to now+ttl, earlier or later
			if left > 1 {
				g.advance(int64(g.r.Intn(int(left))))
			}
			g.write(1, k.p, k.a, c09Finite[g.r.Intn(len(c09Finite))])
			g.out.Cover("directed.set_late")
		default: // connected and back
			g.emit(cUpd(k.p, e.ttl, c09TTLConn))
			for kk, ee := range g.ents {
				if kk.p == k.p && ee.ttl == e.ttl && ee.exp > g.now {
					ee.ttl, ee.exp = c09TTLConn, 1<<50
				}
			}
			g.advance(int64(g.r.Intn(2000)))
			t := c09Finite[g.r.Intn(len(c09Finite))]
			g.emit(cUpd(k.p, c09TTLConn, t))
			for kk, ee := range g.ents {
				if kk.p == k.p && ee.ttl == c09TTLConn {
					ee.ttl, ee.exp = t, g.now+t
					g.cand = append(g.cand, ee.exp)
				}
			}
			g.out.Cover("directed.connected_and_back")
		}
		g.walk(k.p, 1+g.r.Intn(3))
	}
	for p := int64(1); p <= g.nP; p++ {
		g.emit(cAddrs(p))
		g.emit(cRec(p))
	}
	g.emit(cPeers())
	g.emit(cGC())
	g.emit(cPeers())
	return g.ops
}


// ---- books whose per-peer cap binds -------------------------------------------------
// Judged by the weak monitor only (soundness + the bound cap + 2k, see Spec.v).  The class the
// round-3 adversary pointed at is generated on purpose: a SetAddrs/AddAddrs batch that MIXES
// overrides of connected-class entries with new finite addresses (pstoreds counts the peer's
// unconnected entries once per batch, pstoremem per address), batches larger than the cap,
// connected -> finite moves followed by insertions.

func c09CapCorpus() []c09Corpus {
	C := c09TTLConn
	obs := func(p int64) []c09Op { return []c09Op{cAddrs(p), cRec(p), cPeers()} }
	cat := func(parts ...[]c09Op) []c09Op {
		var l []c09Op
		for _, p := range parts {
			l = append(l, p...)
		}
		return l
	}
	return []c09Corpus{
		{"caps.mixed_batch.set_overrides_connected_plus_new", cat([]c09Op{cAdd(1, C, 1), cSet(1, 120, 1, 2)}, obs(1), []c09Op{cAdv(1), cAdd(1, 900, 3)}, obs(1), []c09Op{cGC()}, obs(1))},
		{"caps.mixed_batch.two_connected_two_new", cat([]c09Op{cAdd(1, C, 1, 2), cSet(1, 900, 1, 2, 3, 4)}, obs(1), []c09Op{cAdv(1), cAdd(1, 900, 5)}, obs(1), []c09Op{cAdv(900), cGC()}, obs(1))},
		{"caps.batch_larger_than_cap", cat([]c09Op{cAdd(1, 120, 1, 2, 3)}, obs(1), []c09Op{cAdv(1), cAdd(1, 900, 4, 5)}, obs(1), []c09Op{cGC()}, obs(1))},
		{"caps.never_connected_one_by_one", cat([]c09Op{cAdd(1, 120, 1), cAdv(1), cAdd(1, 900, 2), cAdv(1), cSet(1, 3600, 3), cAdv(1), cCon(1, 1, 900, 4)}, obs(1), []c09Op{cAdv(1), cAdd(1, 120, 5)}, obs(1), []c09Op{cGC()}, obs(1))},
		// the cap's victim is named again later in the same batch (the batch fits under a cap of 2):
		// the address named last was assigned last, so it must be returned
		{"caps.victim_renamed_in_same_batch.add", cat([]c09Op{cAdd(1, 3600, 1), cAdd(1, 7200, 2), cAdd(1, 10800, 3, 1)}, obs(1), []c09Op{cAdv(1), cGC()}, obs(1))},
		{"caps.victim_renamed_in_same_batch.set", cat([]c09Op{cAdd(1, 900, 1), cAdv(1), cAdd(1, 900, 2), cAdv(1), cSet(1, 120, 3, 3, 1)}, obs(1), []c09Op{cAdv(119)}, obs(1), []c09Op{cAdv(1), cGC()}, obs(1))},
		{"caps.update_connected_to_finite_then_insert", cat([]c09Op{cAdd(1, C, 1, 2, 3), cUpd(1, C, 900)}, obs(1), []c09Op{cAdv(1), cAdd(1, 120, 4)}, obs(1), []c09Op{cAdv(1), cAdd(1, 120, 5)}, obs(1), []c09Op{cGC()}, obs(1))},
	}
}

func c09CapHistory(r *verifh.Rand, nP, nA int64, out *verifh.Out) []c09Op {
	var ops []c09Op
	seq := map[int64]int64{}
	conn := map[c09ShadowKey]bool{} // shadow: which entries were last written with a connected class
	fin := []int64{120, 900, 3600}
	pickSome := func(n int) []int64 {
		perm := make([]int64, nA)
		for i := range perm {
			perm[i] = int64(i + 1)
		}
		for i := len(perm) - 1; i > 0; i-- {
			j := r.Intn(i + 1)
			perm[i], perm[j] = perm[j], perm[i]
		}
		if n > len(perm) {
			n = len(perm)
		}
		return perm[:n]
	}
	steps := 4 + r.Intn(8)
	for i := 0; i < steps; i++ {
		p := 1 + int64(r.Intn(int(nP)))
		switch r.Intn(8) {
		case 0, 1: // connected batch
			as := pickSome(1 + r.Intn(3))
			t := c09TTLConn
			if r.Chance(1, 4) {
				t = c09TTLPerm
			}
			ops = append(ops, cAdd(p, t, as...))
			for _, a := range as {
				conn[c09ShadowKey{p, a}] = true
			}
		case 2, 3: // finite batch over (some of) the connected entries AND new addresses
			var mine []int64
			for a := int64(1); a <= nA; a++ {
				if conn[c09ShadowKey{p, a}] {
					mine = append(mine, a)
				}
			}
			as := pickSome(1 + r.Intn(4))
			if len(mine) > 0 {
				seen := map[int64]bool{}
				var l []int64
				for _, a := range append(append([]int64{}, mine...), as...) {
					if !seen[a] {
						seen[a] = true
						l = append(l, a)
					}
				}
				if r.Bool() { // new addresses first
					for i, j := 0, len(l)-1; i < j; i, j = i+1, j-1 {
						l[i], l[j] = l[j], l[i]
					}
				}
				as = l
				if len(as) > len(mine) {
					out.Cover("caps.mixed_batch_connected_overrides_plus_new")
				}
			}
			t := fin[r.Intn(len(fin))]
			if r.Chance(2, 3) {
				ops = append(ops, cSet(p, t, as...))
				for _, a := range as {
					conn[c09ShadowKey{p, a}] = false
				}
			} else {
				ops = append(ops, cAdd(p, t, as...))
			}
		case 4: // single insertions, one second apart (no expiry ties)
			for _, a := range pickSome(1 + r.Intn(3)) {
				ops = append(ops, cAdv(1), cAdd(p, fin[r.Intn(len(fin))], a))
			}
		case 5: // class moves
			if r.Bool() {
				ops = append(ops, cUpd(p, c09TTLConn, fin[r.Intn(len(fin))]))
				for a := int64(1); a <= nA; a++ {
					delete(conn, c09ShadowKey{p, a})
				}
			} else {
				ops = append(ops, cUpd(p, fin[r.Intn(len(fin))], c09TTLConn))
			}
		case 6:
			seq[p]++
			ops = append(ops, cCon(p, seq[p], fin[r.Intn(len(fin))], pickSome(1+r.Intn(3))...))
		default:
			ops = append(ops, cAdv([]int64{1, 60, 120, 900}[r.Intn(4)]))
			if r.Bool() {
				ops = append(ops, cGC())
			}
		}
		ops = append(ops, cAddrs(p))
		if r.Chance(1, 3) {
			ops = append(ops, cPeers(), cRec(p))
		}
	}
	for p := int64(1); p <= nP; p++ {
		ops = append(ops, cAddrs(p))
	}
	return append(ops, cGC(), cPeers())
}

// c09CapRenameHistory aims at the cap's eviction step inside ONE batch: the peer's cap is filled by
// single insertions one second apart (no expiry ties, so the stored set and the entry with the
// nearest expiry are known), then one AddAddrs/SetAddrs batch that fits under the cap names one
// or more NEW addresses and, after them, the stored entry with the nearest expiry (the victim the
// cap evicts to make room), possibly other stored entries too and repeated names; Addrs is read
// right after, one second before the batch's deadline and on it.  The weak monitor's "the most
// recent assignment is kept" clause judges the reads.
func c09CapRenameHistory(r *verifh.Rand, pc, nP, nA int64, out *verifh.Out) []c09Op {
	var ops []c09Op
	fin := []int64{120, 900, 3600}
	rounds := 1 + r.Intn(3)
	for round := 0; round < rounds; round++ {
		p := 1 + int64(r.Intn(int(nP)))
		ops = append(ops, cClr(p))
		perm := make([]int64, nA)
		for i := range perm {
			perm[i] = int64(i + 1)
		}
		for i := len(perm) - 1; i > 0; i-- {
			j := r.Intn(i + 1)
			perm[i], perm[j] = perm[j], perm[i]
		}
		stored, rest := perm[:pc], perm[pc:]
		if r.Chance(1, 4) && len(rest) > 1 { // an entry held by a connection: exempt from the cap
			ops = append(ops, cAdd(p, c09TTLConn, rest[0]))
			rest = rest[1:]
			out.Cover("caps.rename.with_connected_entry")
		}
		now, victim, soonest := int64(0), int64(0), int64(0)
		for _, a := range stored {
			t := fin[r.Intn(len(fin))]
			ops = append(ops, cAdv(1), cAdd(p, t, a))
			now++
			if victim == 0 || now+t < soonest {
				victim, soonest = a, now+t
			}
		}
		if r.Chance(1, 3) {
			d := int64(1 + r.Intn(100))
			ops = append(ops, cAdv(d))
			now += d
		}
		// the batch: new address(es) first, the victim after them, at most pc distinct names
		nNew := 1
		if pc >= 3 && len(rest) >= 2 && r.Bool() {
			nNew = 2
		}
		batch := append([]int64{}, rest[:nNew]...)
		if r.Chance(1, 4) {
			batch = append(batch, rest[0]) // a new address named twice
			out.Cover("caps.rename.new_named_twice")
		}
		if int64(nNew)+1 < pc && r.Bool() { // another stored entry, before the victim
			for _, a := range stored {
				if a != victim {
					batch = append(batch, a)
					break
				}
			}
		}
		batch = append(batch, victim)
		t := fin[r.Intn(len(fin))]
		if r.Chance(1, 2) {
			ops = append(ops, cAdd(p, t, batch...))
			out.Cover("caps.rename.add_batch_new_then_victim")
		} else {
			ops = append(ops, cSet(p, t, batch...))
			out.Cover("caps.rename.set_batch_new_then_victim")
		}
		ops = append(ops, cAddrs(p), cAdv(t-1), cAddrs(p), cAdv(1), cAddrs(p))
		if r.Bool() {
			ops = append(ops, cGC(), cPeers())
		}
		// a second batch on whatever is stored now: stored names in random order, last one arbitrary
		l := append([]int64{}, perm...)
		for i := len(l) - 1; i > 0; i-- {
			j := r.Intn(i + 1)
			l[i], l[j] = l[j], l[i]
		}
		k := 1 + r.Intn(int(pc))
		t = fin[r.Intn(len(fin))]
		if r.Bool() {
			ops = append(ops, cAdv(1), cAdd(p, t, l[:k]...), cAddrs(p))
		} else {
			ops = append(ops, cAdv(1), cSet(p, t, l[:k]...), cAddrs(p))
		}
	}
	for p := int64(1); p <= nP; p++ {
		ops = append(ops, cAddrs(p))
	}
	return append(ops, cGC(), cPeers())
}

func TestVerifC09(t *testing.T) {
	out, err := verifh.Open()
	if err != nil {
		t.Fatal(err)
	}
	defer out.Close()
	thorough := verifh.Tier() == "thorough"
	u := c09NewUniverse()

	// 1. fixed corpus on every store configuration
	for _, cc := range c09CorpusCases() {
		for _, cfg := range c09Configs(thorough) {
			cfg.nP, cfg.nA = 2, 5
			out.Comment(fmt.Sprintf("corpus %s store=%d cache=%d look=%d", cc.name, cfg.store, cfg.cache, cfg.look))
			line := c09RunCase(u, cfg, cc.ops, out)
			c09Cover(out, cfg, cc.ops, line)
			out.Cover("corpus.cases")
			out.Case(line)
		}
	}

	// 2. generated histories; the same history is run on the in-memory book and
	// on datastore-backed books (cache off / on, both GC modes)
	r := verifh.NewRand(verifh.Seed())
	nHist := 2200
	if thorough {
		nHist = 9000
	}
	for h := 0; h < nHist; h++ {
		g := &c09Gen{r: r.Fork(), nP: 1 + int64(r.Intn(3)), nA: 2 + int64(r.Intn(4)), calm: r.Chance(2, 5), seq: map[int64]int64{}, ds: true}
		n := 6 + g.r.Intn(40)
		if thorough && g.r.Chance(1, 10) {
			n = 80 + g.r.Intn(120)
		}
		ops := g.history(n, out)
		c09CoverExpiry(out, ops)
		if g.calm {
			out.Cover("histories.calm")
		} else {
			out.Cover("histories.wild")
		}
		var cfgs []c09Cfg
		switch {
		case h%5 == 4:
			// caps that bind
			pc := int64(1 + g.r.Intn(3))
			cfgs = []c09Cfg{{store: 0, pcap: pc}, {store: 1, cache: int64(g.r.Intn(2)), pcap: pc},
				{store: 0, gcap: int64(1 + g.r.Intn(4))}, {store: 0, rcap: 1}}
		default:
			cfgs = []c09Cfg{{store: 0}, {store: 1, cache: int64(h % 2)}}
			if h%3 == 0 {
				cfgs = append(cfgs, c09Cfg{store: 1, cache: int64((h + 1) % 2), look: []int64{1, 30, 4000}[g.r.Intn(3)]})
			}
			if thorough {
				cfgs = append(cfgs, c09Cfg{store: 1, cache: int64((h + 1) % 2)})
			}
		}
		var memLine []int64
		for _, cfg := range cfgs {
			cfg.nP, cfg.nA = g.nP, g.nA
			line := c09RunCase(u, cfg, ops, out)
			c09Cover(out, cfg, ops, line)
			out.Case(line)
			// direct mem/ds comparison (coverage counter only; the verdict is the monitor's)
			if cfg.pcap+cfg.gcap+cfg.rcap == 0 {
				if cfg.store == 0 {
					memLine = line
				} else if memLine != nil && cfg.look == 0 {
					if c09SameAnswers(memLine, line) {
						out.Cover("memds.same_answers")
					} else {
						out.Cover("memds.different_answers")
					}
				}
			}
		}
	}

	// 2b. deadline-directed histories (see c09Directed): every one runs on the in-memory book and on
	// datastore-backed books with the cache off and on (full-purge and lookahead GC alternating)
	nDir := 700
	if thorough {
		nDir = 4000
	}
	for h := 0; h < nDir; h++ {
		g := &c09Directed{r: r.Fork(), nP: 1 + int64(r.Intn(2)), nA: 2 + int64(r.Intn(3)), ents: map[c09ShadowKey]*c09ShadowEnt{}, seq: map[int64]int64{}, out: out}
		ops := g.history(3 + g.r.Intn(6))
		c09CoverExpiry(out, ops)
		out.Cover("histories.directed")
		look := int64(0)
		if h%3 == 2 {
			look = []int64{1, 30, 4000}[g.r.Intn(3)]
		}
		var memLine []int64
		for _, cfg := range []c09Cfg{{store: 0}, {store: 1, cache: 0, look: look}, {store: 1, cache: 1, look: look}} {
			cfg.nP, cfg.nA = g.nP, g.nA
			line := c09RunCase(u, cfg, ops, out)
			c09Cover(out, cfg, ops, line)
			out.Case(line)
			if cfg.store == 0 {
				memLine = line
			} else if c09SameAnswers(memLine, line) {
				out.Cover("memds.directed.same_answers")
			} else {
				out.Cover("memds.directed.different_answers")
			}
		}
	}

	// 2c. per-peer caps that bind: fixed cases and mixed-batch histories, on pstoremem and on pstoreds
	// (cache off / on) with the same cap; how often the two books end up answering differently is
	// counted (the weak monitor judges each of them, not their agreement: see Spec.v)
	capRun := func(name string, ops []c09Op, pc, nP, nA int64) {
		var memLine []int64
		for _, cfg := range []c09Cfg{{store: 0, pcap: pc}, {store: 1, cache: 0, pcap: pc}, {store: 1, cache: 1, pcap: pc}} {
			cfg.nP, cfg.nA = nP, nA
			if name != "" {
				out.Comment(fmt.Sprintf("corpus %s store=%d cache=%d pcap=%d", name, cfg.store, cfg.cache, pc))
			}
			line := c09RunCase(u, cfg, ops, out)
			c09Cover(out, cfg, ops, line)
			out.Case(line)
			if cfg.store == 0 {
				memLine = line
			} else if c09SameAnswers(memLine, line) {
				out.Cover("caps.memds.same_answers")
			} else {
				out.Cover("caps.memds.different_answers")
			}
		}
	}
	for _, cc := range c09CapCorpus() {
		for _, pc := range []int64{1, 2} {
			capRun(cc.name, cc.ops, pc, 2, 5)
			out.Cover("corpus.cases")
		}
	}
	nCap := 250
	if thorough {
		nCap = 1500
	}
	for h := 0; h < nCap; h++ {
		rr := r.Fork()
		nP, nA := 1+int64(rr.Intn(2)), 3+int64(rr.Intn(3))
		capRun("", c09CapHistory(rr, nP, nA, out), 1+int64(rr.Intn(3)), nP, nA)
		out.Cover("histories.caps_directed")
	}
	nRen := 200
	if thorough {
		nRen = 1200
	}
	for h := 0; h < nRen; h++ {
		rr := r.Fork()
		pc := 2 + int64(rr.Intn(3))
		nP, nA := 1+int64(rr.Intn(2)), pc+1+int64(rr.Intn(2))
		capRun("", c09CapRenameHistory(rr, pc, nP, nA, out), pc, nP, nA)
		out.Cover("histories.caps_victim_renamed")
	}

	// 3. reopen after every prefix (datastore-backed book): the history with a
	// close/reopen inserted after op k, for every k (thorough) / every 3rd k (quick)
	nRe := 50
	if thorough {
		nRe = 150
	}
	for h := 0; h < nRe; h++ {
		g := &c09Gen{r: r.Fork(), nP: 1 + int64(r.Intn(2)), nA: 2 + int64(r.Intn(3)), calm: r.Chance(1, 2), seq: map[int64]int64{}, ds: false}
		ops := g.history(8+g.r.Intn(16), out)
		step := 3
		if thorough {
			step = 1
		}
		for k := 1; k < len(ops); k += step {
			with := append(append(append([]c09Op{}, ops[:k]...), cReopen()), ops[k:]...)
			cfg := c09Cfg{store: 1, cache: int64((h + k) % 2), nP: g.nP, nA: g.nA}
			if h%4 == 3 {
				cfg.look = 30
			}
			line := c09RunCase(u, cfg, with, out)
			out.Cover("reopen.prefix_cases")
			out.Case(line)
		}
	}
}

// two executed lines of the same history (first the in-memory book's): are all
// observations equal?  The heap-count field of a GC observation is mem-only.
func c09SameAnswers(a, b []int64) bool {
	if len(a) != len(b) {
		return false
	}
	for i := 8; i < len(a); i++ {
		if a[i] != b[i] && !c09HeapIdx[i] {
			return false
		}
	}
	return true
}

func TestVerifC09Replay(t *testing.T) {
	out, err := verifh.Open()
	if err != nil {
		t.Fatal(err)
	}
	defer out.Close()
	in := verifh.ReplayCase()
	cfg, ops, ok := c09Parse(in)
	if !ok {
		t.Fatal("case does not parse")
	}
	u := c09NewUniverse()
	// envelope ids must be the recorded ones: pre-register in order of first use
	for _, o := range ops {
		if o.code == 5 && !o.bad {
			ck := u.contentKey(u.envelope(o.p, o.seq, o.addrs, false))
			u.envID[ck] = o.id
		}
	}
	out.Case(c09RunCase(u, cfg, ops, nil))
}

func TestVerifNothing(t *testing.T) {}

//go:build verif

package swarm

// C20 correspondence harness (injected with `go test -overlay`; not part of
// /repo).  Drives the real BlackHoleSuccessCounter and blackHoleDetector and
// writes one case per line in the wire format documented in
// /verif/coq/c20/Spec.v.

import (
	"fmt"
	"testing"

	"github.com/libp2p/go-libp2p/internal/verifh"
	ma "github.com/multiformats/go-multiaddr"
	manet "github.com/multiformats/go-multiaddr/net"
)

func c20State(c *BlackHoleSuccessCounter) int64 {
	if c == nil {
		return 9
	}
	return int64(c.State())
}

// enumerate every op sequence over {request, fail, ok} of the given depth
func c20Enumerate(out *verifh.Out, n, minS, depth int) {
	ops := make([]int, depth)
	var rec func(i int)
	rec = func(i int) {
		if i == depth {
			c := &BlackHoleSuccessCounter{N: n, MinSuccesses: minS, Name: "v"}
			line := make([]int64, 0, 3+2*depth)
			line = append(line, 0, int64(n), int64(minS))
			blocked := false
			for _, o := range ops {
				var obs int64
				switch o {
				case 0:
					obs = int64(c.HandleRequest())
				case 1:
					c.RecordResult(false)
					obs = int64(c.State())
				case 2:
					c.RecordResult(true)
					obs = int64(c.State())
				}
				if obs == int64(blackHoleStateBlocked) {
					blocked = true
				}
				line = append(line, int64(o), obs)
			}
			if blocked {
				out.Cover("counter.exhaustive.reached_blocked")
			}
			out.Cover("counter.exhaustive.cases")
			out.Case(line)
			return
		}
		for o := 0; o < 3; o++ {
			ops[i] = o
			rec(i + 1)
		}
	}
	rec(0)
}

func c20RandomCounter(out *verifh.Out, r *verifh.Rand, n, minS, length int) {
	c := &BlackHoleSuccessCounter{N: n, MinSuccesses: minS, Name: "v"}
	line := []int64{0, int64(n), int64(minS)}
	// phases: mostly failing / mostly succeeding / request bursts
	phase, left := 0, 0
	sawBlocked, sawUnblock, sawProbe := false, false, false
	for i := 0; i < length; i++ {
		if left == 0 {
			phase = r.Intn(4)
			left = 1 + r.Intn(2*n+3)
		}
		left--
		var o int
		switch phase {
		case 0: // failures
			o = 1
			if r.Chance(1, 10) {
				o = 0
			}
		case 1: // successes
			o = 2
			if r.Chance(1, 10) {
				o = 0
			}
		case 2: // request burst
			o = 0
		default:
			o = r.Intn(3)
		}
		before := c.State()
		var obs int64
		switch o {
		case 0:
			obs = int64(c.HandleRequest())
			if before == blackHoleStateBlocked && obs == int64(blackHoleStateProbing) {
				sawProbe = true
			}
		case 1:
			c.RecordResult(false)
			obs = int64(c.State())
		case 2:
			c.RecordResult(true)
			obs = int64(c.State())
			if before == blackHoleStateBlocked {
				sawUnblock = true
			}
		}
		if obs == int64(blackHoleStateBlocked) {
			sawBlocked = true
		}
		line = append(line, int64(o), obs)
	}
	out.Cover("counter.random.cases")
	if sawBlocked {
		out.Cover("counter.random.reached_blocked")
	}
	if sawUnblock {
		out.Cover("counter.random.success_while_blocked")
	}
	if sawProbe {
		out.Cover("counter.random.probe_while_blocked")
	}
	out.Case(line)
}

// address templates with the class the harness expects by construction:
// class = pub + 2*udp + 4*ip6
type c20Tmpl struct {
	format string
	cls    int64
}

var c20Tmpls = []c20Tmpl{
	{"/ip4/192.168.1.5/tcp/%d", 0},
	{"/ip4/127.0.0.1/tcp/%d", 0},
	{"/ip4/1.2.3.4/tcp/%d", 1},
	{"/dns4/example.com/tcp/%d", 1},
	{"/ip4/8.8.4.4/tcp/%d/ws", 1},
	{"/ip4/10.0.0.1/udp/%d/quic-v1", 2},
	{"/ip4/192.168.0.9/udp/%d/quic-v1/webtransport", 2},
	{"/ip4/1.2.3.4/udp/%d/quic-v1", 3},
	{"/ip4/4.3.2.1/udp/%d/quic-v1/webtransport", 3},
	{"/ip4/5.6.7.8/udp/%d/webrtc-direct", 3},
	{"/dns4/example.com/udp/%d/quic-v1", 3},
	{"/ip6/fd00::1/tcp/%d", 4},
	{"/ip6/::1/tcp/%d", 4},
	{"/ip6/2600::1/tcp/%d", 5},
	{"/ip6/2a00:1450::5/tcp/%d/ws", 5},
	{"/ip6/fe80::1/udp/%d/quic-v1", 6},
	{"/ip6/fd12::7/udp/%d/quic-v1", 6},
	{"/ip6/2600::1/udp/%d/quic-v1", 7},
	{"/ip6/2a00:1450::5/udp/%d/quic-v1/webtransport", 7},
}

func c20Addr(t c20Tmpl, port int) ma.Multiaddr {
	return ma.StringCast(fmt.Sprintf(t.format, port))
}

func c20Detector(out *verifh.Out, r *verifh.Rand, length int) {
	mk := func() (*BlackHoleSuccessCounter, int64, int64) {
		if r.Chance(1, 5) {
			return nil, 0, 0
		}
		n := 1 + r.Intn(3)
		m := r.Intn(n + 2)
		return &BlackHoleSuccessCounter{N: n, MinSuccesses: m, Name: "x"}, int64(n), int64(m)
	}
	udp, un, um := mk()
	ip6, vn, vm := mk()
	ro := r.Chance(1, 3)
	d := &blackHoleDetector{udp: udp, ipv6: ip6, readOnly: ro}
	line := []int64{1, 0, un, um, vn, vm}
	if ro {
		line[1] = 1
	}
	removedAny := false
	for i := 0; i < length; i++ {
		k := r.Intn(10)
		switch {
		case k < 5: // FilterAddrs
			cnt := r.Intn(7)
			addrs := make([]ma.Multiaddr, 0, cnt)
			cls := make([]int64, 0, cnt)
			for j := 0; j < cnt; j++ {
				t := c20Tmpls[r.Intn(len(c20Tmpls))]
				addrs = append(addrs, c20Addr(t, 1000+j))
				cls = append(cls, t.cls)
			}
			in := make([]ma.Multiaddr, len(addrs))
			copy(in, addrs)
			valid, bh := d.FilterAddrs(in)
			flags := make([]int64, cnt)
			vi := 0
			for j, a := range addrs {
				inV, inB := 0, 0
				for _, x := range valid {
					if x.Equal(a) {
						inV++
					}
				}
				for _, x := range bh {
					if x.Equal(a) {
						inB++
					}
				}
				switch {
				case inV == 1 && inB == 0:
					flags[j] = 1
					// order preserved?
					if vi >= len(valid) || !valid[vi].Equal(a) {
						flags[j] = 4
					}
					vi++
				case inV == 0 && inB == 1:
					flags[j] = 0
					removedAny = true
				case inV >= 1 && inB >= 1:
					flags[j] = 2
				default:
					flags[j] = 3
				}
			}
			if len(valid)+len(bh) != cnt {
				for j := range flags {
					flags[j] = 5
				}
			}
			line = append(line, 10, int64(cnt))
			line = append(line, cls...)
			line = append(line, flags...)
			out.Cover("detector.op.filter")
		case k < 8: // RecordResult through the detector
			t := c20Tmpls[r.Intn(len(c20Tmpls))]
			succ := r.Chance(1, 4)
			d.RecordResult(c20Addr(t, 7), succ)
			s := int64(0)
			if succ {
				s = 1
			}
			line = append(line, 11, t.cls, s)
			out.Cover("detector.op.record")
		default: // RecordResult directly on a shared counter
			w := int64(r.Intn(2))
			succ := r.Chance(1, 3)
			s := int64(0)
			if succ {
				s = 1
			}
			c := udp
			if w == 1 {
				c = ip6
			}
			if c != nil {
				c.RecordResult(succ)
			}
			line = append(line, 12, w, s)
			out.Cover("detector.op.direct")
		}
		line = append(line, c20State(udp), c20State(ip6))
	}
	out.Cover("detector.cases")
	if removedAny {
		out.Cover("detector.cases_with_removal")
	}
	if ro {
		out.Cover("detector.cases_readonly")
	}
	out.Case(line)
}

func TestVerifC20(t *testing.T) {
	out, err := verifh.Open()
	if err != nil {
		t.Fatal(err)
	}
	defer out.Close()
	thorough := verifh.Tier() == "thorough"

	// the class table is by construction; check it against the predicates the
	// code uses, so that a template that does not mean what the table says is
	// reported here rather than as a spurious mismatch
	for _, tm := range c20Tmpls {
		a := c20Addr(tm, 1)
		var cls int64
		if manet.IsPublicAddr(a) {
			cls |= 1
		}
		if isProtocolAddr(a, ma.P_UDP) {
			cls |= 2
		}
		if isProtocolAddr(a, ma.P_IP6) {
			cls |= 4
		}
		if cls != tm.cls {
			out.Comment(fmt.Sprintf("class-table: %s expected %d predicates say %d", a, tm.cls, cls))
			out.Cover("classtable.disagreements")
		}
	}

	depth := 9
	maxN := 4
	if thorough {
		depth = 11
	}
	for n := 1; n <= maxN; n++ {
		for m := 0; m <= n+1; m++ {
			c20Enumerate(out, n, m, depth)
		}
	}
	r := verifh.NewRand(verifh.Seed())
	nr := 3000
	if thorough {
		nr = 60000
	}
	for i := 0; i < nr; i++ {
		n := 1 + r.Intn(8)
		if r.Chance(1, 10) {
			n = 100
		}
		m := r.Intn(n + 2)
		if n == 100 {
			m = 5
		}
		c20RandomCounter(out, r, n, m, 40+r.Intn(5*n+40))
	}
	nd := 6000
	if thorough {
		nd = 120000
	}
	for i := 0; i < nd; i++ {
		c20Detector(out, r, 5+r.Intn(40))
	}
}

// TestVerifC20Replay re-executes the operations of one recorded case
// (VERIF_REPLAY_CASE, wire format) on the implementation and writes the case
// with the observations it gets now.
func TestVerifC20Replay(t *testing.T) {
	out, err := verifh.Open()
	if err != nil {
		t.Fatal(err)
	}
	defer out.Close()
	in := verifh.ReplayCase()
	if len(in) < 3 {
		t.Fatal("no case")
	}
	tmplOf := func(cls int64) c20Tmpl {
		for _, tm := range c20Tmpls {
			if tm.cls == cls {
				return tm
			}
		}
		return c20Tmpls[0]
	}
	if in[0] == 0 {
		c := &BlackHoleSuccessCounter{N: int(in[1]), MinSuccesses: int(in[2]), Name: "r"}
		line := []int64{0, in[1], in[2]}
		for i := 3; i+1 < len(in); i += 2 {
			var obs int64
			switch in[i] {
			case 0:
				obs = int64(c.HandleRequest())
			case 1:
				c.RecordResult(false)
				obs = int64(c.State())
			default:
				c.RecordResult(true)
				obs = int64(c.State())
			}
			line = append(line, in[i], obs)
		}
		out.Case(line)
		return
	}
	mk := func(n, m int64) *BlackHoleSuccessCounter {
		if n == 0 {
			return nil
		}
		return &BlackHoleSuccessCounter{N: int(n), MinSuccesses: int(m), Name: "r"}
	}
	udp, ip6 := mk(in[2], in[3]), mk(in[4], in[5])
	d := &blackHoleDetector{udp: udp, ipv6: ip6, readOnly: in[1] != 0}
	line := append([]int64{}, in[:6]...)
	for i := 6; i < len(in); {
		switch in[i] {
		case 10:
			k := int(in[i+1])
			cls := in[i+2 : i+2+k]
			addrs := make([]ma.Multiaddr, k)
			for j := range addrs {
				addrs[j] = c20Addr(tmplOf(cls[j]), 1000+j)
			}
			cp := make([]ma.Multiaddr, k)
			copy(cp, addrs)
			valid, _ := d.FilterAddrs(cp)
			line = append(line, 10, int64(k))
			line = append(line, cls...)
			for _, a := range addrs {
				f := int64(0)
				for _, x := range valid {
					if x.Equal(a) {
						f = 1
					}
				}
				line = append(line, f)
			}
			i += 2 + 2*k + 2
		case 11:
			d.RecordResult(c20Addr(tmplOf(in[i+1]), 7), in[i+2] != 0)
			line = append(line, 11, in[i+1], in[i+2])
			i += 5
		default:
			c := udp
			if in[i+1] == 1 {
				c = ip6
			}
			if c != nil {
				c.RecordResult(in[i+2] != 0)
			}
			line = append(line, 12, in[i+1], in[i+2])
			i += 5
		}
		line = append(line, c20State(udp), c20State(ip6))
	}
	out.Case(line)
}

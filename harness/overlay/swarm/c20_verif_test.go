//go:build verif

package swarm

// C20 correspondence harness (injected with `go test -overlay`; not part of
// /repo).  Drives the real BlackHoleSuccessCounter and blackHoleDetector and
// writes one case per line in the wire format documented in
// /verif/coq/c20/Spec.v.

import (
	"context"
	"errors"
	"fmt"
	"strings"
	"testing"

	"github.com/libp2p/go-libp2p/core/peer"
	"github.com/libp2p/go-libp2p/core/transport"
	"github.com/libp2p/go-libp2p/internal/verifh"
	ma "github.com/multiformats/go-multiaddr"
	manet "github.com/multiformats/go-multiaddr/net"
)

func c20State(c *BlackHoleSuccessCounter) int64 {
	if c == nil {
		return 9
	}
	return int64(c.State())
}

// c20Internals reads the counter's private fields (the harness is in-package)
func c20Internals(c *BlackHoleSuccessCounter) []int64 {
	if c == nil {
		return []int64{0, 0, 0}
	}
	c.mu.Lock()
	defer c.mu.Unlock()
	return []int64{int64(c.requests), int64(len(c.dialResults)), int64(c.successes)}
}

// c20View = state + internals of a counter (9 0 0 0 for a nil counter)
func c20View(c *BlackHoleSuccessCounter) []int64 {
	return append([]int64{c20State(c)}, c20Internals(c)...)
}

// enumerate every op sequence over {request, fail, ok} of the given depth
func c20Enumerate(out *verifh.Out, n, minS, depth int) {
	ops := make([]int, depth)
	var rec func(i int)
	rec = func(i int) {
		if i == depth {
			c := &BlackHoleSuccessCounter{N: n, MinSuccesses: minS, Name: "v"}
			line := make([]int64, 0, 3+5*depth)
			line = append(line, 0, int64(n), int64(minS))
			blocked := false
			for _, o := range ops {
				var obs int64
				switch o {
				case 0:
					obs = int64(c.HandleRequest())
				case 1:
					c.RecordResult(false)
					obs = int64(c.State())
				case 2:
					c.RecordResult(true)
					obs = int64(c.State())
				}
				if obs == int64(blackHoleStateBlocked) {
					blocked = true
				}
				line = append(line, int64(o), obs)
				line = append(line, c20Internals(c)...)
			}
			if blocked {
				out.Cover("counter.exhaustive.reached_blocked")
			}
			out.Cover("counter.exhaustive.cases")
			out.Case(line)
			return
		}
		for o := 0; o < 3; o++ {
			ops[i] = o
			rec(i + 1)
		}
	}
	rec(0)
}

func c20RandomCounter(out *verifh.Out, r *verifh.Rand, n, minS, length int) {
	c := &BlackHoleSuccessCounter{N: n, MinSuccesses: minS, Name: "v"}
	line := []int64{0, int64(n), int64(minS)}
	// phases: mostly failing / mostly succeeding / request bursts
	phase, left := 0, 0
	sawBlocked, sawUnblock, sawProbe := false, false, false
	for i := 0; i < length; i++ {
		if left == 0 {
			phase = r.Intn(4)
			left = 1 + r.Intn(2*n+3)
		}
		left--
		var o int
		switch phase {
		case 0: // failures
			o = 1
			if r.Chance(1, 10) {
				o = 0
			}
		case 1: // successes
			o = 2
			if r.Chance(1, 10) {
				o = 0
			}
		case 2: // request burst
			o = 0
		default:
			o = r.Intn(3)
		}
		before := c.State()
		var obs int64
		switch o {
		case 0:
			obs = int64(c.HandleRequest())
			if before == blackHoleStateBlocked && obs == int64(blackHoleStateProbing) {
				sawProbe = true
			}
		case 1:
			c.RecordResult(false)
			obs = int64(c.State())
		case 2:
			c.RecordResult(true)
			obs = int64(c.State())
			if before == blackHoleStateBlocked {
				sawUnblock = true
			}
		}
		if obs == int64(blackHoleStateBlocked) {
			sawBlocked = true
		}
		line = append(line, int64(o), obs)
		line = append(line, c20Internals(c)...)
	}
	out.Cover("counter.random.cases")
	if sawBlocked {
		out.Cover("counter.random.reached_blocked")
	}
	if sawUnblock {
		out.Cover("counter.random.success_while_blocked")
	}
	if sawProbe {
		out.Cover("counter.random.probe_while_blocked")
	}
	out.Case(line)
}

// address templates with the class the harness expects by construction:
// class = pub + 2*udp + 4*ip6 (+ 8 when the address is ALSO a /p2p-circuit address:
// a relayed address whose relay hop is the outer transport address).  The three
// class bits of a circuit address are those of its outer transport address: that
// is how FilterAddrs and RecordResult (manet.IsPublicAddr, isProtocolAddr) see it,
// and the property is stated per public UDP / IPv6 address, circuit or not.  The
// model ignores bit 3.
type c20Tmpl struct {
	format string
	cls    int64
}

var c20Tmpls = []c20Tmpl{
	{"/ip4/192.168.1.5/tcp/%d", 0},
	{"/ip4/127.0.0.1/tcp/%d", 0},
	{"/ip4/198.18.0.1/tcp/%d", 0},   // benchmarking range: neither public nor private
	{"/ip4/203.0.113.7/tcp/%d", 0},  // documentation range
	{"/ip4/1.2.3.4/tcp/%d", 1},
	{"/dns4/example.com/tcp/%d", 1},
	{"/ip4/8.8.4.4/tcp/%d/ws", 1},
	{"/ip4/10.0.0.1/udp/%d/quic-v1", 2},
	{"/ip4/192.168.0.9/udp/%d/quic-v1/webtransport", 2},
	{"/ip4/198.18.0.1/udp/%d/quic-v1", 2},  // not public, not private
	{"/ip4/203.0.113.7/udp/%d/quic-v1", 2},
	{"/ip4/100.64.0.9/udp/%d/quic-v1", 2},  // CGNAT range
	{"/ip4/1.2.3.4/udp/%d/quic-v1", 3},
	{"/ip4/4.3.2.1/udp/%d/quic-v1/webtransport", 3},
	{"/ip4/5.6.7.8/udp/%d/webrtc-direct", 3},
	{"/dns4/example.com/udp/%d/quic-v1", 3},
	{"/ip6/fd00::1/tcp/%d", 4},
	{"/ip6/::1/tcp/%d", 4},
	{"/ip6/2001:db8::1/tcp/%d", 4},  // documentation prefix: not public, not private
	{"/ip6/2600::1/tcp/%d", 5},
	{"/ip6/2a00:1450::5/tcp/%d/ws", 5},
	{"/ip6/fe80::1/udp/%d/quic-v1", 6},
	{"/ip6/fd12::7/udp/%d/quic-v1", 6},
	{"/ip6/2001:db8::5/udp/%d/quic-v1", 6},
	{"/ip6/2600::1/udp/%d/quic-v1", 7},
	{"/ip6/2a00:1450::5/udp/%d/quic-v1/webtransport", 7},
	// the same eight classes for relayed (circuit) addresses: class of the relay hop + 8
	{"/ip4/192.168.1.5/tcp/%d/p2p/" + c20RelayID + "/p2p-circuit", 8},
	{"/ip4/1.2.3.4/tcp/%d/p2p/" + c20RelayID + "/p2p-circuit", 9},
	{"/dns4/example.com/tcp/%d/p2p/" + c20RelayID + "/p2p-circuit", 9},
	{"/ip4/10.0.0.1/udp/%d/quic-v1/p2p/" + c20RelayID + "/p2p-circuit", 10},
	{"/ip4/203.0.113.7/udp/%d/quic-v1/p2p/" + c20RelayID + "/p2p-circuit", 10},
	{"/ip4/1.2.3.4/udp/%d/quic-v1/p2p/" + c20RelayID + "/p2p-circuit", 11},
	{"/ip4/5.6.7.8/udp/%d/quic-v1/p2p/" + c20RelayID + "/p2p-circuit/p2p/" + c20TargetID, 11},
	{"/ip4/4.3.2.1/udp/%d/quic-v1/webtransport/p2p/" + c20RelayID + "/p2p-circuit", 11},
	{"/dns4/example.com/udp/%d/quic-v1/p2p/" + c20RelayID + "/p2p-circuit", 11},
	{"/ip6/fd00::1/tcp/%d/p2p/" + c20RelayID + "/p2p-circuit", 12},
	{"/ip6/2600::1/tcp/%d/p2p/" + c20RelayID + "/p2p-circuit", 13},
	{"/ip6/2a00:1450::5/tcp/%d/p2p/" + c20RelayID + "/p2p-circuit/p2p/" + c20TargetID, 13},
	{"/ip6/fd12::7/udp/%d/quic-v1/p2p/" + c20RelayID + "/p2p-circuit", 14},
	{"/ip6/2600::1/udp/%d/quic-v1/p2p/" + c20RelayID + "/p2p-circuit", 15},
	{"/ip6/2a00:1450::5/udp/%d/quic-v1/p2p/" + c20RelayID + "/p2p-circuit/p2p/" + c20TargetID, 15},
}

// peer ids used in circuit addresses (any valid ids)
const (
	c20RelayID  = "QmNnooDu7bfjPFoTZYxMNLWUQJyrVwtbZg5gBMjTezGAJN"
	c20TargetID = "QmcZf59bWwK5XFi76CZX8cbJ4BhTzzA3gU1ZjYZcYW3dwt"
)

// c20AddCircuit gives the swarm a (scripted, never dialed here) transport for /p2p-circuit
// addresses, as a node with the relay client enabled has: without one, circuit addresses are
// dropped as undialable before they reach the black hole filter.
func c20AddCircuit(sw *Swarm) {
	sw.transports.Lock()
	sw.transports.m[ma.P_CIRCUIT] = &c20CircuitTpt{}
	sw.transports.Unlock()
}

// c20CircuitTpt claims circuit addresses only (like the relay client transport)
type c20CircuitTpt struct{ transport.Transport }

func (*c20CircuitTpt) CanDial(a ma.Multiaddr) bool { return isRelayAddr(a) }
func (*c20CircuitTpt) Protocols() []int            { return []int{ma.P_CIRCUIT} }
func (*c20CircuitTpt) Proxy() bool                 { return true }
func (*c20CircuitTpt) Close() error                { return nil }

// the templates of a class among those usable through the swarm entry points
func c20TmplsOf(cls int64) []c20Tmpl {
	var l []c20Tmpl
	for _, t := range c20Tmpls {
		if t.cls == cls && c20SwarmOK(t) {
			l = append(l, t)
		}
	}
	return l
}

func c20Addr(t c20Tmpl, port int) ma.Multiaddr {
	return ma.StringCast(fmt.Sprintf(t.format, port))
}

// templates usable through Swarm.filterKnownUndialables with a tcp+quic swarm:
// plain tcp / quic-v1 over a literal IP, not link-local (those are removed by
// other filters of that function)
func c20SwarmOK(t c20Tmpl) bool {
	f := t.format
	if strings.Contains(f, "dns") || strings.Contains(f, "/ws") || strings.Contains(f, "webtransport") ||
		strings.Contains(f, "webrtc") || strings.Contains(f, "fe80") {
		return false
	}
	return true
}

type c20Flags struct {
	flags      []int64
	removedAny bool
}

// classify each input address as valid (1) / black-holed (0) / anomaly (2..5)
func c20Classify(addrs, valid, bh []ma.Multiaddr) c20Flags {
	cnt := len(addrs)
	res := c20Flags{flags: make([]int64, cnt)}
	vi := 0
	for j, a := range addrs {
		inV, inB := 0, 0
		for _, x := range valid {
			if x.Equal(a) {
				inV++
			}
		}
		for _, x := range bh {
			if x.Equal(a) {
				inB++
			}
		}
		switch {
		case inV == 1 && inB == 0:
			res.flags[j] = 1
			if vi >= len(valid) || !valid[vi].Equal(a) {
				res.flags[j] = 4 // order not preserved
			}
			vi++
		case inV == 0 && inB == 1:
			res.flags[j] = 0
			res.removedAny = true
		case inV >= 1 && inB >= 1:
			res.flags[j] = 2
		default:
			res.flags[j] = 3
		}
	}
	if len(valid)+len(bh) != cnt {
		for j := range res.flags {
			res.flags[j] = 5
		}
	}
	return res
}

// c20FakeTpt is a scripted transport for driving Swarm.dialAddr: it claims
// every address (or none) and its dial fails or returns a connection to the
// requested peer, without any network I/O.
type c20FakeTpt struct {
	transport.Transport
	canDial bool
	fail    bool
	dials   int
	during  func() // runs inside Dial, before it returns
}

type c20FakeConn struct {
	transport.CapableConn
	p peer.ID
	a ma.Multiaddr
}

func (c *c20FakeConn) RemotePeer() peer.ID           { return c.p }
func (c *c20FakeConn) RemoteMultiaddr() ma.Multiaddr { return c.a }
func (c *c20FakeConn) Close() error                  { return nil }

func (f *c20FakeTpt) CanDial(ma.Multiaddr) bool { return f.canDial }
func (f *c20FakeTpt) Protocols() []int          { return []int{ma.P_TCP} }
func (f *c20FakeTpt) Proxy() bool               { return false }
func (f *c20FakeTpt) Close() error              { return nil }
func (f *c20FakeTpt) Dial(_ context.Context, a ma.Multiaddr, p peer.ID) (transport.CapableConn, error) {
	f.dials++
	if f.during != nil {
		f.during()
	}
	if f.fail {
		return nil, errors.New("scripted dial failure")
	}
	return &c20FakeConn{p: p, a: a}, nil
}

// c20DialAddr runs one Swarm.dialAddr on a swarm whose only transport is the
// scripted one.  scenario 0: the dial succeeds, 1: the dial fails,
// 2: context already cancelled, 3: no transport claims the address,
// 4: dial to self, 5: the dial succeeds although a concurrent dial to the peer
// won meanwhile (the context is cancelled with errConcurrentDialSuccessful while
// the transport is dialing), 6: the same but the dial fails.
// Returns whether the transport's Dial was called.
func c20DialAddr(sw *Swarm, d *blackHoleDetector, a ma.Multiaddr, scenario int) bool {
	f := &c20FakeTpt{canDial: scenario != 3, fail: scenario == 1 || scenario == 6}
	sw.transports.Lock()
	saved := sw.transports.m
	sw.transports.m = map[int]transport.Transport{ma.P_TCP: f}
	if scenario != 3 {
		// a circuit address goes to whatever transport is registered for /p2p-circuit
		sw.transports.m[ma.P_CIRCUIT] = f
	}
	sw.transports.Unlock()
	defer func() {
		sw.transports.Lock()
		sw.transports.m = saved
		sw.transports.Unlock()
	}()
	if d != nil {
		sw.bhd = d
	}
	ctx, cancelCause := context.WithCancelCause(context.Background())
	cancel := func() { cancelCause(context.Canceled) }
	defer cancel()
	if scenario == 2 {
		cancel()
	}
	if scenario == 5 || scenario == 6 {
		f.during = func() { cancelCause(errConcurrentDialSuccessful) }
	}
	p := peer.ID("somepeer")
	if scenario == 4 {
		p = sw.local
	}
	c, _ := sw.dialAddr(ctx, p, a, nil)
	if c != nil {
		c.Close()
	}
	return f.dials > 0
}

func c20Detector(out *verifh.Out, r *verifh.Rand, length int, sw *Swarm, mkSw func(udp, ip6 *BlackHoleSuccessCounter, ro bool) *Swarm) {
	mk := func() (*BlackHoleSuccessCounter, int64, int64) {
		if r.Chance(1, 6) {
			return nil, 0, 0
		}
		n := 1 + r.Intn(4)
		m := r.Intn(n + 2)
		return &BlackHoleSuccessCounter{N: n, MinSuccesses: m, Name: "x"}, int64(n), int64(m)
	}
	udp, un, um := mk()
	ip6, vn, vm := mk()
	// a read-write and a read-only detector sharing the two counters
	dets := [2]*blackHoleDetector{
		{udp: udp, ipv6: ip6, readOnly: false},
		{udp: udp, ipv6: ip6, readOnly: true},
	}
	// either one shared swarm whose detector is swapped per operation, or two swarms built
	// by NewSwarm with the black-hole options (what a node does: main swarm + read-only dialer
	// swarm sharing the counters); then the detectors are the ones NewSwarm wired
	sws := [2]*Swarm{sw, sw}
	assign := true
	if mkSw != nil {
		sws = [2]*Swarm{mkSw(udp, ip6, false), mkSw(udp, ip6, true)}
		c20AddCircuit(sws[0])
		c20AddCircuit(sws[1])
		defer sws[0].Close()
		defer sws[1].Close()
		dets = [2]*blackHoleDetector{sws[0].bhd, sws[1].bhd}
		assign = false
		sw = sws[0]
		out.Cover("detector.cases_swarms_built_with_options")
	}
	use := func(ro int) *Swarm {
		if assign {
			sws[ro].bhd = dets[ro]
		}
		return sws[ro]
	}
	line := []int64{1, un, um, vn, vm}
	removedAny, usedRO, roAfterBlocked := false, false, false
	// Directed part, steered by the counters' current state (shadow state = the observations
	// already written).  forced: the next operation is this one, on the read-write detector,
	// with this address template.
	//  * prologue (1 case in 3): N failed dials of public addresses of one kind, circuit or
	//    direct, so that the counter is Blocked early in the case;
	//  * relayed-probe episode, started while a counter is Blocked: requests for a peer that
	//    only has a circuit address whose relay hop is a public address of the blocked kind,
	//    until one is let through (the probe), then the successful result of that dial.
	type c20Forced struct {
		k    int // 0 filter, 7 record, 12 dialAddr, 14 CanDial (the switch below)
		t    c20Tmpl
		succ bool
	}
	var forced []c20Forced
	pubOf := func(ip6kind, circuit bool) c20Tmpl {
		// a public address of the kind: udp (3, 7) or ip6 (5, 7), or their circuit twins
		cls := []int64{3, 7}
		if ip6kind {
			cls = []int64{5, 7}
		}
		c := cls[r.Intn(2)]
		if circuit {
			c += 8
		}
		l := c20TmplsOf(c)
		return l[r.Intn(len(l))]
	}
	if r.Chance(1, 3) {
		ip6kind := r.Chance(1, 2)
		n := int(un)
		if ip6kind {
			n = int(vn)
		}
		for j := 0; j < n; j++ {
			k := 7
			if sw != nil && r.Chance(1, 3) {
				k = 12
			}
			forced = append(forced, c20Forced{k: k, t: pubOf(ip6kind, r.Chance(1, 2)), succ: false})
		}
		out.Cover("detector.directed.block_prologue")
	}
	type c20Episode struct {
		active  bool
		ip6kind bool
		t       c20Tmpl
		left    int
	}
	var ep c20Episode
	episodes := 0
	lastKept := false // the last forced filter of the episode let the address through
	for i := 0; i < length; i++ {
		if len(forced) == 0 && !ep.active && episodes < 3 && r.Chance(1, 3) {
			ub, vb := c20State(udp) == 2, c20State(ip6) == 2
			if ub || vb {
				ep = c20Episode{active: true, ip6kind: vb && (!ub || r.Chance(1, 2))}
				// the peer's only address: relayed through a public hop of the blocked kind
				// (1 episode in 4: a direct address, for comparison)
				ep.t = pubOf(ep.ip6kind, !r.Chance(1, 4))
				ep.left = int(un)
				if ep.ip6kind {
					ep.left = int(vn)
				}
				ep.left++
				episodes++
				out.Cover("detector.directed.probe_episode")
			}
		}
		if ep.active && len(forced) == 0 {
			if lastKept {
				// the probe was let through: its dial succeeds
				k := 7
				if sw != nil && r.Chance(1, 2) {
					k = 12
				}
				forced = append(forced, c20Forced{k: k, t: ep.t, succ: true})
				if ep.t.cls >= 8 {
					out.Cover("detector.directed.circuit_probe_let_through_then_success")
				} else {
					out.Cover("detector.directed.direct_probe_let_through_then_success")
				}
				ep.active, lastKept = false, false
			} else if ep.left > 0 {
				ep.left--
				k := 0
				if sw != nil {
					k = []int{0, 5, 14}[r.Intn(3)]
				}
				forced = append(forced, c20Forced{k: k, t: ep.t})
			} else {
				ep.active = false
			}
		}
		var fo *c20Forced
		if len(forced) > 0 {
			fo = &forced[0]
			forced = forced[1:]
		}
		k := r.Intn(16)
		if k >= 12 && sw == nil {
			k = 8
		}
		ro := 0
		if r.Chance(1, 3) {
			ro = 1
		}
		if fo != nil {
			k, ro = fo.k, 0
		}
		if ro == 1 {
			usedRO = true
			if c20State(udp) == 2 || c20State(ip6) == 2 {
				roAfterBlocked = true
			}
		}
		d := dets[ro]
		pick := func(swarmOnly bool) c20Tmpl {
			if fo != nil {
				return fo.t
			}
			t := c20Tmpls[r.Intn(len(c20Tmpls))]
			for swarmOnly && !c20SwarmOK(t) {
				t = c20Tmpls[r.Intn(len(c20Tmpls))]
			}
			return t
		}
		switch {
		case k < 5 || (k < 7 && sw != nil): // FilterAddrs, directly or through the swarm
			viaSwarm := k >= 5
			cnt := r.Intn(7)
			if fo != nil {
				cnt = 1
			}
			addrs := make([]ma.Multiaddr, 0, cnt)
			cls := make([]int64, 0, cnt)
			var noise []ma.Multiaddr
			for j := 0; j < cnt; j++ {
				t := pick(false)
				for fo == nil && viaSwarm && !c20SwarmOK(t) {
					// an address the swarm has no transport for is dropped before the black hole
					// filter: it is passed along but is not part of the request
					if a := c20Addr(t, 1000+j); sw.TransportForDialing(a) == nil && r.Chance(1, 2) {
						noise = append(noise, a)
						out.Cover("detector.op.filter_via_swarm_with_undialable_noise")
					}
					t = c20Tmpls[r.Intn(len(c20Tmpls))]
				}
				addrs = append(addrs, c20Addr(t, 1000+j))
				cls = append(cls, t.cls)
			}
			in := make([]ma.Multiaddr, len(addrs))
			copy(in, addrs)
			var fl c20Flags
			if viaSwarm {
				in = append(in, noise...)
				good, errs := use(ro).filterKnownUndialables("somepeer", in)
				var bh []ma.Multiaddr
				for _, e := range errs {
					if e.Cause == ErrDialRefusedBlackHole {
						bh = append(bh, e.Address)
					}
				}
				fl = c20Classify(addrs, good, bh)
				line = append(line, 13, int64(ro), int64(cnt))
				out.Cover("detector.op.filter_via_swarm")
			} else {
				valid, bh := d.FilterAddrs(in)
				fl = c20Classify(addrs, valid, bh)
				line = append(line, 10, int64(ro), int64(cnt))
				out.Cover("detector.op.filter")
			}
			if fl.removedAny {
				removedAny = true
			}
			if fo != nil && ep.active {
				lastKept = len(fl.flags) == 1 && fl.flags[0] == 1
			}
			for _, c := range cls {
				if c >= 8 {
					out.Cover("detector.op.filter_with_circuit_addr")
					break
				}
			}
			line = append(line, cls...)
			line = append(line, fl.flags...)
		case k < 10: // RecordResult through the detector
			t := pick(false)
			succ := r.Chance(1, 4)
			if fo != nil {
				succ = fo.succ
			}
			d.RecordResult(c20Addr(t, 7), succ)
			line = append(line, 11, int64(ro), t.cls, c20b(succ))
			out.Cover("detector.op.record")
			if t.cls >= 8 {
				out.Cover("detector.op.record_circuit_addr")
			}
		case k >= 14: // Swarm.CanDial: one request for one address
			t := pick(true)
			ok := use(ro).CanDial("somepeer", c20Addr(t, 1000))
			line = append(line, 16, int64(ro), t.cls, c20b(ok))
			out.Cover("detector.op.candial")
			if t.cls >= 8 {
				out.Cover("detector.op.candial_circuit_addr")
			}
			if fo != nil && ep.active {
				lastKept = ok
			}
		case k >= 12: // Swarm.dialAddr with a scripted transport
			t := pick(false)
			scenario := r.Intn(7)
			if fo != nil {
				scenario = []int{1, 0}[c20b(fo.succ)]
				if r.Chance(1, 4) {
					scenario = []int{6, 5}[c20b(fo.succ)]
				}
			}
			if t.cls >= 8 {
				out.Cover("detector.op.dialaddr_circuit_addr")
			}
			dd := d
			if !assign {
				dd = nil
			}
			dialed := c20DialAddr(sws[ro], dd, c20Addr(t, 9), scenario)
			if dialed != (scenario <= 1 || scenario >= 5) {
				out.Comment(fmt.Sprintf("dialAddr scenario %d: transport dialed = %v", scenario, dialed))
				out.Cover("detector.dialaddr_scenario_unexpected")
			}
			if dialed {
				sv := c20b(scenario == 0 || scenario == 5)
				if scenario >= 5 {
					sv += 2
					out.Cover("detector.op.dialaddr_while_concurrent_dial_won")
				}
				line = append(line, 14, int64(ro), t.cls, sv)
				out.Cover("detector.op.dialaddr_dialed")
			} else {
				line = append(line, 15, int64(ro), t.cls)
				out.Cover("detector.op.dialaddr_no_dial")
			}
		default: // RecordResult directly on a shared counter
			w := int64(r.Intn(2))
			succ := r.Chance(1, 3)
			c := udp
			if w == 1 {
				c = ip6
			}
			if c != nil {
				c.RecordResult(succ)
			}
			line = append(line, 12, w, c20b(succ))
			out.Cover("detector.op.direct")
		}
		line = append(line, c20View(udp)...)
		line = append(line, c20View(ip6)...)
	}
	out.Cover("detector.cases")
	if removedAny {
		out.Cover("detector.cases_with_removal")
	}
	if usedRO {
		out.Cover("detector.cases_using_readonly")
	}
	if roAfterBlocked {
		out.Cover("detector.cases_readonly_op_while_blocked")
	}
	out.Case(line)
}

func c20b(b bool) int64 {
	if b {
		return 1
	}
	return 0
}

func TestVerifC20(t *testing.T) {
	out, err := verifh.Open()
	if err != nil {
		t.Fatal(err)
	}
	defer out.Close()
	thorough := verifh.Tier() == "thorough"

	// the class table is by construction; check it against the predicates the
	// code uses, so that a template that does not mean what the table says is
	// reported here rather than as a spurious mismatch
	for _, tm := range c20Tmpls {
		a := c20Addr(tm, 1)
		var cls int64
		if manet.IsPublicAddr(a) {
			cls |= 1
		}
		if isProtocolAddr(a, ma.P_UDP) {
			cls |= 2
		}
		if isProtocolAddr(a, ma.P_IP6) {
			cls |= 4
		}
		if isRelayAddr(a) {
			cls |= 8
			out.Cover("classtable.circuit_templates")
		}
		if cls != tm.cls {
			out.Comment(fmt.Sprintf("class-table: %s expected %d predicates say %d", a, tm.cls, cls))
			out.Cover("classtable.disagreements")
		}
	}

	depth := 9
	maxN := 4
	if thorough {
		depth = 11
	}
	for n := 1; n <= maxN; n++ {
		for m := 0; m <= n+1; m++ {
			c20Enumerate(out, n, m, depth)
		}
	}
	r := verifh.NewRand(verifh.Seed())
	nr := 3000
	if thorough {
		nr = 60000
	}
	for i := 0; i < nr; i++ {
		n := 1 + r.Intn(8)
		if r.Chance(1, 10) {
			n = 100
		}
		m := r.Intn(n + 2)
		if n == 100 {
			m = 5
		}
		c20RandomCounter(out, r, n, m, 40+r.Intn(5*n+40))
	}
	nd := 6000
	if thorough {
		nd = 120000
	}
	sw := makeSwarmWithNoListenAddrs(t)
	defer sw.Close()
	c20AddCircuit(sw)
	mkSw := func(udp, ip6 *BlackHoleSuccessCounter, ro bool) *Swarm {
		opts := []Option{WithUDPBlackHoleSuccessCounter(udp), WithIPv6BlackHoleSuccessCounter(ip6)}
		if ro {
			opts = append(opts, WithReadOnlyBlackHoleDetector())
		}
		return makeSwarmWithNoListenAddrs(t, opts...)
	}
	nopt := 120
	if thorough {
		nopt = 1500
	}
	for i := 0; i < nd; i++ {
		if i < nopt {
			c20Detector(out, r, 5+r.Intn(40), sw, mkSw)
		} else {
			c20Detector(out, r, 5+r.Intn(40), sw, nil)
		}
	}
}

// TestVerifC20Replay re-executes the operations of one recorded case
// (VERIF_REPLAY_CASE, wire format) on the implementation and writes the case
// with the observations it gets now.
func TestVerifC20Replay(t *testing.T) {
	out, err := verifh.Open()
	if err != nil {
		t.Fatal(err)
	}
	defer out.Close()
	in := verifh.ReplayCase()
	if len(in) < 3 {
		t.Fatal("no case")
	}
	tmplOf := func(cls int64, swarm bool) c20Tmpl {
		for _, tm := range c20Tmpls {
			if tm.cls == cls && (!swarm || c20SwarmOK(tm)) {
				return tm
			}
		}
		return c20Tmpls[0]
	}
	if in[0] == 0 {
		c := &BlackHoleSuccessCounter{N: int(in[1]), MinSuccesses: int(in[2]), Name: "r"}
		line := []int64{0, in[1], in[2]}
		for i := 3; i+4 < len(in); i += 5 {
			var obs int64
			switch in[i] {
			case 0:
				obs = int64(c.HandleRequest())
			case 1:
				c.RecordResult(false)
				obs = int64(c.State())
			default:
				c.RecordResult(true)
				obs = int64(c.State())
			}
			line = append(line, in[i], obs)
			line = append(line, c20Internals(c)...)
		}
		out.Case(line)
		return
	}
	mk := func(n, m int64) *BlackHoleSuccessCounter {
		if n == 0 {
			return nil
		}
		return &BlackHoleSuccessCounter{N: int(n), MinSuccesses: int(m), Name: "r"}
	}
	udp, ip6 := mk(in[1], in[2]), mk(in[3], in[4])
	dets := [2]*blackHoleDetector{{udp: udp, ipv6: ip6}, {udp: udp, ipv6: ip6, readOnly: true}}
	sw := makeSwarmWithNoListenAddrs(t)
	defer sw.Close()
	c20AddCircuit(sw)
	line := append([]int64{}, in[:5]...)
	for i := 5; i < len(in); {
		switch in[i] {
		case 10, 13:
			d := dets[in[i+1]]
			k := int(in[i+2])
			cls := in[i+3 : i+3+k]
			addrs := make([]ma.Multiaddr, k)
			for j := range addrs {
				addrs[j] = c20Addr(tmplOf(cls[j], in[i] == 13), 1000+j)
			}
			cp := make([]ma.Multiaddr, k)
			copy(cp, addrs)
			var fl c20Flags
			if in[i] == 13 {
				sw.bhd = d
				good, errs := sw.filterKnownUndialables("somepeer", cp)
				var bh []ma.Multiaddr
				for _, e := range errs {
					if e.Cause == ErrDialRefusedBlackHole {
						bh = append(bh, e.Address)
					}
				}
				fl = c20Classify(addrs, good, bh)
			} else {
				valid, bh := d.FilterAddrs(cp)
				fl = c20Classify(addrs, valid, bh)
			}
			line = append(line, in[i], in[i+1], int64(k))
			line = append(line, cls...)
			line = append(line, fl.flags...)
			i += 3 + 2*k + 8
		case 11:
			dets[in[i+1]].RecordResult(c20Addr(tmplOf(in[i+2], false), 7), in[i+3] != 0)
			line = append(line, 11, in[i+1], in[i+2], in[i+3])
			i += 4 + 8
		case 14:
			sc := map[int64]int{0: 1, 1: 0, 2: 6, 3: 5}[in[i+3]]
			c20DialAddr(sw, dets[in[i+1]], c20Addr(tmplOf(in[i+2], false), 9), sc)
			line = append(line, 14, in[i+1], in[i+2], in[i+3])
			i += 4 + 8
		case 16:
			sw.bhd = dets[in[i+1]]
			ok := sw.CanDial("somepeer", c20Addr(tmplOf(in[i+2], true), 1000))
			line = append(line, 16, in[i+1], in[i+2], c20b(ok))
			i += 4 + 8
		case 15:
			// the recorded case does not say which early return it was: run all three
			for _, sc := range []int{2, 3, 4} {
				c20DialAddr(sw, dets[in[i+1]], c20Addr(tmplOf(in[i+2], false), 9), sc)
			}
			line = append(line, 15, in[i+1], in[i+2])
			i += 3 + 8
		default:
			c := udp
			if in[i+1] == 1 {
				c = ip6
			}
			if c != nil {
				c.RecordResult(in[i+2] != 0)
			}
			line = append(line, 12, in[i+1], in[i+2])
			i += 3 + 8
		}
		line = append(line, c20View(udp)...)
		line = append(line, c20View(ip6)...)
	}
	out.Case(line)
}

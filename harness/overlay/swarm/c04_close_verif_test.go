//go:build verif

package swarm

// C04 close-race harness (injected with `go test -overlay`; not part of /repo).
// A real Swarm with the real resource manager is given fake upgraded
// connections (Swarm.addConn) and streams are opened on them (Conn.NewStream)
// from concurrent goroutines while Swarm.Close — and sometimes Conn.Close —
// runs.  When everything has returned, one case line (kind 5, wire format in
// /verif/coq/c04/Close.v) says what each addConn / addStream answered and
// whether every fake connection and muxed stream was closed.

import (
	"context"
	"errors"
	"fmt"
	"net"
	"runtime"
	"sync"
	"testing"
	"time"

	ic "github.com/libp2p/go-libp2p/core/crypto"
	"github.com/libp2p/go-libp2p/core/network"
	"github.com/libp2p/go-libp2p/core/peer"
	"github.com/libp2p/go-libp2p/core/transport"
	"github.com/libp2p/go-libp2p/internal/verifh"
	"github.com/libp2p/go-libp2p/p2p/host/eventbus"
	"github.com/libp2p/go-libp2p/p2p/host/peerstore/pstoremem"
	rcmgr "github.com/libp2p/go-libp2p/p2p/host/resource-manager"
	ma "github.com/multiformats/go-multiaddr"
)

type c04FakeStream struct {
	network.MuxedStream
	mu       sync.Mutex
	released bool
}

func (s *c04FakeStream) release() error {
	s.mu.Lock()
	s.released = true
	s.mu.Unlock()
	return nil
}
func (s *c04FakeStream) Reset() error                                 { return s.release() }
func (s *c04FakeStream) ResetWithError(network.StreamErrorCode) error { return s.release() }
func (s *c04FakeStream) Close() error                                 { return s.release() }
func (s *c04FakeStream) CloseRead() error                             { return nil }
func (s *c04FakeStream) CloseWrite() error                            { return nil }
func (s *c04FakeStream) SetDeadline(time.Time) error                  { return nil }
func (s *c04FakeStream) SetReadDeadline(time.Time) error              { return nil }
func (s *c04FakeStream) SetWriteDeadline(time.Time) error             { return nil }
func (s *c04FakeStream) Read([]byte) (int, error)                     { return 0, errors.New("fake") }
func (s *c04FakeStream) Write(b []byte) (int, error)                  { return len(b), nil }
func (s *c04FakeStream) isReleased() bool                             { s.mu.Lock(); defer s.mu.Unlock(); return s.released }

type c04FakeConn struct {
	transport.CapableConn
	lp, rp  peer.ID
	addr    ma.Multiaddr
	scope   network.ConnManagementScope
	mu      sync.Mutex
	closed  bool
	closeCh chan struct{}
	muxed   []*c04FakeStream
	// how long OpenStream takes after the muxed stream exists
	openDelay time.Duration
	// OpenStream blocks until the caller's context ends
	blockOpen bool
}

func (c *c04FakeConn) doClose() error {
	c.mu.Lock()
	was := c.closed
	c.closed = true
	c.mu.Unlock()
	if !was {
		close(c.closeCh)
		c.scope.Done()
	}
	return nil
}
func (c *c04FakeConn) Close() error                               { return c.doClose() }
func (c *c04FakeConn) CloseWithError(network.ConnErrorCode) error { return c.doClose() }
func (c *c04FakeConn) IsClosed() bool                             { c.mu.Lock(); defer c.mu.Unlock(); return c.closed }
func (c *c04FakeConn) LocalPeer() peer.ID                         { return c.lp }
func (c *c04FakeConn) RemotePeer() peer.ID                        { return c.rp }
func (c *c04FakeConn) RemotePublicKey() ic.PubKey                 { return nil }
func (c *c04FakeConn) LocalMultiaddr() ma.Multiaddr               { return c.addr }
func (c *c04FakeConn) RemoteMultiaddr() ma.Multiaddr              { return c.addr }
func (c *c04FakeConn) Scope() network.ConnScope                   { return c.scope }
func (c *c04FakeConn) Transport() transport.Transport             { return nil }
func (c *c04FakeConn) ConnState() network.ConnectionState         { return network.ConnectionState{} }
func (c *c04FakeConn) AcceptStream() (network.MuxedStream, error) {
	<-c.closeCh
	return nil, errors.New("closed")
}
func (c *c04FakeConn) OpenStream(ctx context.Context) (network.MuxedStream, error) {
	if c.blockOpen {
		// the muxer cannot open a stream (e.g. yamux with a full backlog): it blocks until the
		// caller's context ends and reports that
		select {
		case <-ctx.Done():
			return nil, ctx.Err()
		case <-c.closeCh:
			return nil, errors.New("closed")
		}
	}
	c.mu.Lock()
	if c.closed {
		c.mu.Unlock()
		return nil, errors.New("closed")
	}
	s := &c04FakeStream{}
	c.muxed = append(c.muxed, s)
	d := c.openDelay
	c.mu.Unlock()
	// the muxer has opened the stream; the connection may be closed before the
	// swarm registers it
	if d > 0 {
		time.Sleep(d)
	}
	return s, nil
}

// a transport whose Listen takes a while and whose listeners only record Close
type c04FakeListener struct {
	closeDelay time.Duration
	addr       ma.Multiaddr
	mu         sync.Mutex
	closed     bool
	closeCh    chan struct{}
}

func (l *c04FakeListener) Accept() (transport.CapableConn, error) {
	<-l.closeCh
	return nil, transport.ErrListenerClosed
}
func (l *c04FakeListener) Close() error {
	if l.closeDelay > 0 {
		time.Sleep(l.closeDelay) // closing takes a while: a Close that returns early would see it open
	}
	l.mu.Lock()
	was := l.closed
	l.closed = true
	l.mu.Unlock()
	if !was {
		close(l.closeCh)
	}
	return nil
}
func (l *c04FakeListener) Addr() net.Addr          { return &net.TCPAddr{IP: net.IPv4(127, 0, 0, 1), Port: 1} }
func (l *c04FakeListener) Multiaddr() ma.Multiaddr { return l.addr }
func (l *c04FakeListener) isClosed() bool          { l.mu.Lock(); defer l.mu.Unlock(); return l.closed }

type c04FakeTpt struct {
	transport.Transport
	closeDelay time.Duration
	mu         sync.Mutex
	listeners  []*c04FakeListener
	delays     []time.Duration
}

func (f *c04FakeTpt) CanDial(ma.Multiaddr) bool { return false }
func (f *c04FakeTpt) Protocols() []int          { return []int{ma.P_TCP} }
func (f *c04FakeTpt) Proxy() bool               { return false }
func (f *c04FakeTpt) Close() error              { return nil }
func (f *c04FakeTpt) Listen(a ma.Multiaddr) (transport.Listener, error) {
	f.mu.Lock()
	i := len(f.listeners)
	l := &c04FakeListener{addr: a, closeCh: make(chan struct{}), closeDelay: f.closeDelay}
	f.listeners = append(f.listeners, l)
	var d time.Duration
	if i < len(f.delays) {
		d = f.delays[i]
	}
	f.mu.Unlock()
	// the transport is listening; the swarm may be closed before it registers the listener
	if d > 0 {
		time.Sleep(d)
	}
	return l, nil
}

func c04Yield(r *verifh.Rand) {
	switch r.Intn(4) {
	case 0:
	case 1:
		for i := r.Intn(4); i >= 0; i-- {
			runtime.Gosched()
		}
	case 2:
		time.Sleep(time.Duration(r.Intn(200)) * time.Microsecond)
	default:
		time.Sleep(time.Duration(r.Intn(2000)) * time.Microsecond)
	}
}

type c04StreamObs struct {
	openOK   int64
	released int64
}

type c04ConnObs struct {
	addOK   int64
	fc      *c04FakeConn
	streams []c04StreamObs
}

func c04CloseCase(t *testing.T, out *verifh.Out, r *verifh.Rand) (hung bool) {
	rm, err := rcmgr.NewResourceManager(rcmgr.NewFixedLimiter(rcmgr.InfiniteLimits))
	if err != nil {
		t.Fatal(err)
	}
	defer rm.Close()
	priv, id := newPeer(t)
	ps, err := pstoremem.NewPeerstore()
	if err != nil {
		t.Fatal(err)
	}
	defer ps.Close()
	ps.AddPubKey(id, priv.GetPublic())
	ps.AddPrivKey(id, priv)
	sw, err := NewSwarm(id, ps, eventbus.NewBus(), WithResourceManager(rm))
	if err != nil {
		t.Fatal(err)
	}
	ftpt := &c04FakeTpt{}
	if r.Chance(1, 2) {
		ftpt.closeDelay = time.Duration(r.Intn(3000)) * time.Microsecond
	}
	if err := sw.AddTransport(ftpt); err != nil {
		t.Fatal(err)
	}
	nlisten := r.Intn(4)
	for i := 0; i < nlisten; i++ {
		var d time.Duration
		if r.Chance(2, 3) {
			d = time.Duration(r.Intn(1500)) * time.Microsecond
		}
		ftpt.delays = append(ftpt.delays, d)
	}
	listenOK := make([]int64, nlisten)
	nconn := 1 + r.Intn(5)
	obs := make([]c04ConnObs, nconn)
	var wg sync.WaitGroup
	// a peer may have several connections
	peers := []peer.ID{"c04-peer-a", "c04-peer-b", "c04-peer-c"}
	closeAt := r.Intn(3) // 0: close early, 1: in the middle, 2: late
	for i := 0; i < nconn; i++ {
		rp := peers[r.Intn(len(peers))]
		addr := ma.StringCast("/ip4/1.2.3.4/tcp/1234")
		dir := network.DirInbound
		if r.Bool() {
			dir = network.DirOutbound
		}
		scope, err := rm.OpenConnection(dir, false, addr)
		if err != nil {
			t.Fatal(err)
		}
		if err := scope.SetPeer(rp); err != nil {
			t.Fatal(err)
		}
		fc := &c04FakeConn{lp: id, rp: rp, addr: addr, scope: scope, closeCh: make(chan struct{})}
		if r.Chance(1, 2) {
			fc.openDelay = time.Duration(r.Intn(1500)) * time.Microsecond
		}
		if r.Chance(1, 6) {
			fc.blockOpen = true
		}
		blockOpen := fc.blockOpen
		nstr := r.Intn(4)
		obs[i] = c04ConnObs{fc: fc, streams: make([]c04StreamObs, nstr)}
		cr := r.Fork()
		closeSelf := r.Chance(1, 4)
		resetOne := r.Chance(1, 3)
		wg.Add(1)
		go func(i int) {
			defer wg.Done()
			c04Yield(cr)
			c, err := sw.addConn(fc, dir)
			if err != nil {
				return
			}
			obs[i].addOK = 1
			var swg sync.WaitGroup
			for k := 0; k < nstr; k++ {
				sr := cr.Fork()
				swg.Add(1)
				go func(k int) {
					defer swg.Done()
					c04Yield(sr)
					sctx := context.Background()
					if blockOpen {
						// the stream open ends in a deadline expiry inside the muxer
						var cancel context.CancelFunc
						sctx, cancel = context.WithTimeout(sctx, time.Duration(1+sr.Intn(3))*time.Millisecond)
						defer cancel()
						out.Cover("close.stream_open_deadline_in_muxer")
					}
					s, err := c.NewStream(sctx)
					if err == nil {
						obs[i].streams[k].openOK = 1
						if resetOne && k == 0 {
							c04Yield(sr)
							s.Reset()
						}
					}
				}(k)
			}
			if closeSelf {
				c04Yield(cr)
				c.Close()
			}
			swg.Wait()
		}(i)
	}
	for i := 0; i < nlisten; i++ {
		lr := r.Fork()
		wg.Add(1)
		go func(i int) {
			defer wg.Done()
			c04Yield(lr)
			a := ma.StringCast(fmt.Sprintf("/ip4/127.0.0.1/tcp/%d", 2000+i))
			if err := sw.AddListenAddr(a); err == nil {
				listenOK[i] = 1
			}
		}(i)
	}
	// 1-3 concurrent callers of Swarm.Close; each notes, the moment its Close returns, which
	// fake connections and listeners are still open
	type c04Snap struct {
		returned bool
		conns    []int
		lsts     []*c04FakeListener
	}
	ncallers := 1 + r.Intn(3)
	snaps := make([]c04Snap, ncallers)
	for j := 0; j < ncallers; j++ {
		kr := r.Fork()
		wg.Add(1)
		go func(j int) {
			defer wg.Done()
			for k := 0; k < closeAt; k++ {
				c04Yield(kr)
			}
			if j > 0 {
				c04Yield(kr)
			}
			sw.Close()
			var sn c04Snap
			for i := range obs {
				if !obs[i].fc.IsClosed() {
					sn.conns = append(sn.conns, i)
				}
			}
			ftpt.mu.Lock()
			for _, l := range ftpt.listeners {
				if !l.isClosed() {
					sn.lsts = append(sn.lsts, l)
				}
			}
			ftpt.mu.Unlock()
			sn.returned = true
			snaps[j] = sn
		}(j)
	}
	// Swarm.Close must return (it waits for s.refs): a Close that never returns is a
	// goroutine that keeps running and leaves what it should have closed open.  The
	// bound only detects a hang; nothing else depends on it.
	finished := make(chan struct{})
	go func() {
		wg.Wait()
		sw.Close()
		close(finished)
	}()
	select {
	case <-finished:
	case <-time.After(45 * time.Second):
		hung = true
		out.Cover("close.SWARM_CLOSE_DID_NOT_RETURN")
		defer func() {
			// let the stuck goroutines go so that the next case starts from rest
			ftpt.mu.Lock()
			ls := append([]*c04FakeListener{}, ftpt.listeners...)
			ftpt.mu.Unlock()
			for _, l := range ls {
				l.Close()
			}
			select {
			case <-finished:
			case <-time.After(10 * time.Second):
			}
		}()
	}

	line := []int64{5, int64(nconn)}
	for i := range obs {
		o := &obs[i]
		closed := int64(0)
		if o.fc.IsClosed() {
			closed = 1
		}
		// attribute muxed streams: the registered ones are all released or not;
		// NewStream calls that failed either created a muxed stream (then reset) or not.
		o.fc.mu.Lock()
		muxed := append([]*c04FakeStream{}, o.fc.muxed...)
		o.fc.mu.Unlock()
		nOK := 0
		for _, so := range o.streams {
			if so.openOK == 1 {
				nOK++
			}
		}
		relCount := 0
		for _, m := range muxed {
			if m.isReleased() {
				relCount++
			}
		}
		allReleased := relCount == len(muxed)
		nRefusedWithMux := len(muxed) - nOK
		if nRefusedWithMux < 0 {
			nRefusedWithMux = 0
			out.Cover("close.more_ok_streams_than_muxed")
		}
		line = append(line, o.addOK, closed, int64(len(o.streams)))
		for _, so := range o.streams {
			var a, b int64
			switch {
			case so.openOK == 1:
				a, b = 1, 0
				if allReleased {
					b = 1
				}
				out.Cover("close.stream_registered")
			case nRefusedWithMux > 0:
				nRefusedWithMux--
				a, b = 0, 0
				if allReleased {
					b = 1
				}
				out.Cover("close.stream_refused_after_mux")
			default:
				a, b = 2, 2
				out.Cover("close.stream_never_muxed")
			}
			line = append(line, a, b)
		}
		if o.addOK == 1 {
			out.Cover("close.conn_registered")
		} else {
			out.Cover("close.conn_refused")
		}
	}
	// listeners: the fake transport records every listener it created, by address
	line = append(line, int64(nlisten))
	for i := 0; i < nlisten; i++ {
		want := fmt.Sprintf("/ip4/127.0.0.1/tcp/%d", 2000+i)
		closed := int64(2) // Listen was never reached (swarm already closed: no transport)
		ftpt.mu.Lock()
		for _, l := range ftpt.listeners {
			if l.addr.String() == want {
				closed = 0
				if l.isClosed() {
					closed = 1
				}
			}
		}
		ftpt.mu.Unlock()
		if closed == 2 {
			// no listener was ever created for this attempt: nothing to release
			line = append(line, 0, 1)
			out.Cover("close.listen_refused_before_listen")
			continue
		}
		line = append(line, listenOK[i], closed)
		if listenOK[i] == 1 {
			out.Cover("close.listener_registered")
		} else {
			out.Cover("close.listener_refused_after_listen")
		}
	}
	left := int64(len(sw.Conns()))
	lleft := int64(len(sw.ListenAddresses()))
	var uc, us int64
	rm.ViewSystem(func(s network.ResourceScope) error {
		st := s.Stat()
		uc = int64(st.NumConnsInbound + st.NumConnsOutbound)
		us = int64(st.NumStreamsInbound + st.NumStreamsOutbound)
		return nil
	})
	line = append(line, left, lleft, uc, us)
	out.Cover("close.cases")
	out.Case(line)
	// kind 9: what every caller of Close found when its call returned.  Something still open
	// then is only acceptable if its add was refused (the adder closes it itself).
	if !hung {
		once := []int64{9, 0}
		for j := range snaps {
			if !snaps[j].returned {
				continue
			}
			clean := int64(1)
			for _, i := range snaps[j].conns {
				if obs[i].addOK == 1 {
					clean = 0
				}
			}
			for _, l := range snaps[j].lsts {
				for i := 0; i < nlisten; i++ {
					if l.addr.String() == fmt.Sprintf("/ip4/127.0.0.1/tcp/%d", 2000+i) && listenOK[i] == 1 {
						clean = 0
					}
				}
			}
			once[1]++
			once = append(once, clean)
			if len(snaps[j].conns)+len(snaps[j].lsts) > 0 {
				out.Cover("once.refused_item_still_open_at_close_return")
			}
		}
		out.Case(once)
		out.Cover(fmt.Sprintf("once.callers_%d", ncallers))
	}
	return hung
}

func TestVerifC04Close(t *testing.T) {
	out, err := verifh.Open()
	if err != nil {
		t.Fatal(err)
	}
	defer out.Close()
	n := 400
	if verifh.Tier() == "thorough" {
		n = 6000
	}
	r := verifh.NewRand(verifh.Seed() + 404)
	hangs := 0
	for i := 0; i < n; i++ {
		if c04CloseCase(t, out, r.Fork()) {
			hangs++
			if hangs >= 2 {
				out.Comment("Swarm.Close did not return twice: remaining cases skipped")
				break
			}
		}
	}
}

//go:build verif

package swarm

// C05 correspondence harness, part 4: the real dialSync with a scripted worker
// function, callers with independent contexts, in a synctest bubble.
// Wire format: /verif/coq/c05/SpecSync.v.

import (
	"context"
	"errors"
	"sort"
	"sync"
	"testing/synctest"

	"github.com/libp2p/go-libp2p/core/peer"
	"github.com/libp2p/go-libp2p/internal/verifh"
)

type c05SPeer struct {
	started, stopped int64
	ad               *activeDial
}

type c05S struct {
	ds      *dialSync
	mu      sync.Mutex
	peers   map[int64]*c05SPeer
	peerNo  map[peer.ID]int64
	reqs    map[int64]dialRequest // caller -> its request, as received by the worker
	cur     int64                 // the caller whose Dial is being started
	cancels map[int64]context.CancelFunc
	rets    [][2]int64
	order   int64
	line    []int64
	waiting map[int64]int64
	quit    chan struct{}
}

func newC05S() *c05S {
	h := &c05S{peers: map[int64]*c05SPeer{}, peerNo: map[peer.ID]int64{}, reqs: map[int64]dialRequest{},
		cancels: map[int64]context.CancelFunc{}, line: []int64{3}, waiting: map[int64]int64{}, quit: make(chan struct{})}
	h.ds = newDialSync(h.worker)
	return h
}

func (h *c05S) worker(p peer.ID, reqch <-chan dialRequest) {
	h.mu.Lock()
	pn := h.peerNo[p]
	h.peers[pn].started++
	h.mu.Unlock()
	var last context.Context
	var ctxs []context.Context
	sawCancel := false
	for {
		var done <-chan struct{}
		if last != nil && !sawCancel {
			done = last.Done()
		}
		select {
		case req, ok := <-reqch:
			if !ok {
				h.mu.Lock()
				h.peers[pn].stopped++
				all := true
				for _, c := range ctxs {
					if c.Err() == nil {
						all = false
					}
				}
				switch {
				case !all:
					h.order = 3
				case sawCancel:
					h.order = 1
				default:
					h.order = 2
				}
				h.mu.Unlock()
				return
			}
			h.mu.Lock()
			h.reqs[h.cur] = req
			h.mu.Unlock()
			last = req.ctx
			ctxs = append(ctxs, req.ctx)
		case <-done:
			sawCancel = true
		case <-h.quit:
			return // end of the case: a worker that was never stopped is not left parked
		}
	}
}

func (h *c05S) peer(p int64) peer.ID {
	id := c05PeerID(p)
	if _, ok := h.peers[p]; !ok {
		h.peers[p] = &c05SPeer{}
		h.peerNo[id] = p
	}
	return id
}

func (h *c05S) observe() {
	var ps []int64
	for p := range h.peers {
		ps = append(ps, p)
	}
	sort.Slice(ps, func(i, j int) bool { return ps[i] < ps[j] })
	h.line = append(h.line, int64(len(ps)))
	h.ds.mutex.Lock()
	for _, p := range ps {
		st := h.peers[p]
		present, ref, canc := int64(0), int64(0), int64(0)
		if ad, ok := h.ds.dials[c05PeerID(p)]; ok {
			present, ref = 1, int64(ad.refCnt)
			st.ad = ad
		}
		if st.ad != nil && st.ad.ctx.Err() != nil {
			canc = 1
		}
		h.mu.Lock()
		h.line = append(h.line, p, present, ref, st.started, st.stopped, canc)
		h.mu.Unlock()
	}
	h.ds.mutex.Unlock()
	h.mu.Lock()
	rs := h.rets
	h.rets = nil
	ord := h.order
	h.order = 0
	h.mu.Unlock()
	sort.Slice(rs, func(i, j int) bool { return rs[i][0] < rs[j][0] })
	h.line = append(h.line, int64(len(rs)))
	for _, r := range rs {
		h.line = append(h.line, r[0], r[1])
	}
	h.line = append(h.line, ord)
}

func (h *c05S) enter(c, p int64) {
	id := h.peer(p)
	ctx, cancel := context.WithCancel(context.Background())
	h.cancels[c] = cancel
	h.mu.Lock()
	h.cur = c
	h.mu.Unlock()
	h.waiting[c] = p
	go func() {
		defer func() {
			if r := recover(); r != nil {
				h.mu.Lock()
				h.rets = append(h.rets, [2]int64{c, 9}) // Dial panicked
				h.mu.Unlock()
			}
		}()
		conn, err := h.ds.Dial(ctx, id)
		k := int64(1)
		switch {
		case err == nil && conn != nil:
			k = 0
		case err != nil && ctx.Err() != nil && errors.Is(err, ctx.Err()):
			k = 2
		}
		h.mu.Lock()
		h.rets = append(h.rets, [2]int64{c, k})
		h.mu.Unlock()
	}()
	synctest.Wait()
	h.line = append(h.line, 1, c, p)
	h.observe()
}

func (h *c05S) cancel(c int64) {
	h.cancels[c]()
	delete(h.waiting, c)
	synctest.Wait()
	h.line = append(h.line, 2, c)
	h.observe()
}

func (h *c05S) respond(c, k int64) {
	h.mu.Lock()
	req := h.reqs[c]
	h.mu.Unlock()
	if k == 0 {
		req.resch <- dialResponse{conn: new(Conn)}
	} else {
		req.resch <- dialResponse{err: errors.New("c05 scripted dial error")}
	}
	delete(h.waiting, c)
	synctest.Wait()
	h.line = append(h.line, 3, c, k)
	h.observe()
}

func c05SyncRandom(out *verifh.Out, r *verifh.Rand, size int) {
	h := newC05S()
	npeers := 1 + r.Intn(2)
	next := int64(1)
	maxWait := 0
	for i := 0; i < size; i++ {
		var ws []int64
		for c := range h.waiting {
			ws = append(ws, c)
		}
		sort.Slice(ws, func(i, j int) bool { return ws[i] < ws[j] })
		if len(ws) > maxWait {
			maxWait = len(ws)
		}
		k := r.Intn(100)
		switch {
		case k < 45 && len(ws) < 6 || len(ws) == 0:
			h.enter(next, int64(1+r.Intn(npeers)))
			next++
			out.Cover("sync.op.enter")
		case k < 72:
			h.cancel(ws[r.Intn(len(ws))])
			out.Cover("sync.op.cancel")
		default:
			h.respond(ws[r.Intn(len(ws))], int64(r.Intn(2)))
			out.Cover("sync.op.respond")
		}
	}
	// everybody leaves
	for len(h.waiting) > 0 {
		var ws []int64
		for c := range h.waiting {
			ws = append(ws, c)
		}
		sort.Slice(ws, func(i, j int) bool { return ws[i] < ws[j] })
		c := ws[r.Intn(len(ws))]
		if r.Bool() {
			h.cancel(c)
		} else {
			h.respond(c, int64(r.Intn(2)))
		}
	}
	close(h.quit)
	synctest.Wait()
	out.Cover("sync.cases")
	if maxWait >= 3 {
		out.Cover("sync.cases_with_3_or_more_concurrent_callers")
	}
	out.Case(h.line)
}

//go:build verif

package swarm

// C05 correspondence harness, part 2: the dial worker loop.  A real Swarm with
// scripted transports (every Dial parks until the harness tells it how to end)
// and the real dialWorker, in a synctest bubble so that the worker's timer runs
// on virtual time.  The limiter underneath is the real one with limits high
// enough to be transparent (it has its own harness).  One stimulus at a time,
// synctest.Wait after each.  Wire format: /verif/coq/c05/SpecWorker.v.

import (
	"context"
	"crypto/rand"
	"errors"
	"fmt"
	"net"
	"sort"
	"sync"
	"testing/synctest"
	"time"

	"github.com/libp2p/go-libp2p/core/control"
	ic "github.com/libp2p/go-libp2p/core/crypto"
	"github.com/libp2p/go-libp2p/core/network"
	"github.com/libp2p/go-libp2p/core/peer"
	"github.com/libp2p/go-libp2p/core/transport"
	"github.com/libp2p/go-libp2p/internal/verifh"
	"github.com/libp2p/go-libp2p/p2p/host/eventbus"
	"github.com/libp2p/go-libp2p/p2p/host/peerstore/pstoremem"
	ma "github.com/multiformats/go-multiaddr"
	madns "github.com/multiformats/go-multiaddr-dns"
	manet "github.com/multiformats/go-multiaddr/net"
)

// ---- fake connection ---------------------------------------------------------
type c05Conn struct {
	local, remote peer.ID
	raddr         ma.Multiaddr
	tpt           transport.Transport
	closed        chan struct{}
	once          sync.Once
}

func (c *c05Conn) Close() error                                 { c.once.Do(func() { close(c.closed) }); return nil }
func (c *c05Conn) CloseWithError(network.ConnErrorCode) error   { return c.Close() }
func (c *c05Conn) IsClosed() bool {
	select {
	case <-c.closed:
		return true
	default:
		return false
	}
}
func (c *c05Conn) OpenStream(context.Context) (network.MuxedStream, error) {
	return nil, errors.New("c05: no streams")
}
func (c *c05Conn) AcceptStream() (network.MuxedStream, error) {
	<-c.closed
	return nil, errors.New("c05: closed")
}
func (c *c05Conn) As(any) bool                          { return false }
func (c *c05Conn) LocalPeer() peer.ID                   { return c.local }
func (c *c05Conn) RemotePeer() peer.ID                  { return c.remote }
func (c *c05Conn) RemotePublicKey() ic.PubKey           { return nil }
func (c *c05Conn) ConnState() network.ConnectionState   { return network.ConnectionState{} }
func (c *c05Conn) LocalMultiaddr() ma.Multiaddr         { return ma.StringCast("/ip4/127.0.0.1/tcp/1") }
func (c *c05Conn) RemoteMultiaddr() ma.Multiaddr        { return c.raddr }
func (c *c05Conn) Scope() network.ConnScope             { return &network.NullScope{} }
func (c *c05Conn) Transport() transport.Transport       { return c.tpt }

// ---- scripted transport ----------------------------------------------------------
type c05Cmd struct {
	kind int // 0 fail, 1 conn, 2 fail with context.Canceled, 3 progress, 4 conn (gater will refuse)
}

type c05Park struct {
	cmd chan c05Cmd
}

type c05Tpt struct {
	h     *c05W
	proxy bool
	caps  int // classes (1 << c05Class) this transport claims; 0: all
}

func (t *c05Tpt) Dial(ctx context.Context, a ma.Multiaddr, p peer.ID) (transport.CapableConn, error) {
	return t.DialWithUpdates(ctx, a, p, nil)
}

func (t *c05Tpt) DialWithUpdates(ctx context.Context, a ma.Multiaddr, p peer.ID, upd chan<- transport.DialUpdate) (transport.CapableConn, error) {
	h := t.h
	h.mu.Lock()
	id := h.idOf(a)
	pk := &c05Park{cmd: make(chan c05Cmd)}
	h.parked[id] = pk
	h.newDials = append(h.newDials, id)
	h.dialCount[id]++
	h.mu.Unlock()
	defer func() {
		h.mu.Lock()
		if h.parked[id] == pk {
			delete(h.parked, id)
		}
		h.newEnds = append(h.newEnds, id)
		h.mu.Unlock()
	}()
	for {
		done := ctx.Done()
		if h.slowCancel {
			done = nil // a transport that does not notice the cancellation until it is told to end
		}
		select {
		case <-done:
			return nil, ctx.Err()
		case c := <-pk.cmd:
			switch c.kind {
			case 0:
				return nil, errors.New("c05 scripted dial failure")
			case 2:
				return nil, context.Canceled
			case 3:
				if upd != nil {
					select {
					case upd <- transport.DialUpdate{Kind: transport.UpdateKindHandshakeProgressed, Addr: a}:
					case <-ctx.Done():
						return nil, ctx.Err()
					}
				}
			case 5:
				// a connection authenticated as ANOTHER peer (stale address, or a transport that
				// does not enforce the expected identity)
				return &c05Conn{local: h.s.local, remote: h.other, raddr: a, tpt: t, closed: make(chan struct{})}, nil
			default:
				return &c05Conn{local: h.s.local, remote: p, raddr: a, tpt: t, closed: make(chan struct{})}, nil
			}
		}
	}
}

func (t *c05Tpt) CanDial(a ma.Multiaddr) bool {
	if _, err := a.ValueForProtocol(ma.P_SCTP); err == nil {
		return false
	}
	if !t.proxy && !isRelayAddr(a) && t.caps != 0 && t.caps&(1<<c05Class(a)) == 0 {
		return false // a swarm configured with a subset of the transports
	}
	return isRelayAddr(a) == t.proxy
}
func (t *c05Tpt) Listen(ma.Multiaddr) (transport.Listener, error) { return nil, errors.New("c05: no listen") }
func (t *c05Tpt) Protocols() []int {
	if t.proxy {
		return []int{ma.P_CIRCUIT}
	}
	return []int{ma.P_TCP, ma.P_QUIC_V1, ma.P_WS, ma.P_WEBTRANSPORT}
}
func (t *c05Tpt) Proxy() bool { return t.proxy }

// like the circuit transport: the address of the relay is resolved by the transport itself
func (t *c05Tpt) SkipResolve(context.Context, ma.Multiaddr) bool { return t.proxy }

// ---- gater ---------------------------------------------------------------------------
type c05Gater struct {
	refuseNext bool
	mu         sync.Mutex
	park       chan struct{} // when set: the next InterceptAddrDial parks until it is closed
	parkedNow  bool
}

func (g *c05Gater) InterceptPeerDial(peer.ID) bool { return true }
func (g *c05Gater) InterceptAddrDial(peer.ID, ma.Multiaddr) bool {
	g.mu.Lock()
	ch := g.park
	g.park = nil
	if ch != nil {
		g.parkedNow = true
	}
	g.mu.Unlock()
	if ch != nil {
		<-ch
		g.mu.Lock()
		g.parkedNow = false
		g.mu.Unlock()
	}
	return true
}
func (g *c05Gater) InterceptAccept(network.ConnMultiaddrs) bool                          { return true }
func (g *c05Gater) InterceptSecured(network.Direction, peer.ID, network.ConnMultiaddrs) bool { return true }
func (g *c05Gater) InterceptUpgraded(network.Conn) (bool, control.DisconnectReason) {
	if g.refuseNext {
		g.refuseNext = false
		return false, 0
	}
	return true, 0
}

// ---- the harness object ------------------------------------------------------------------
// address kinds of the worker cases
var c05WKinds = []string{
	"/ip4/1.2.3.4/tcp/%d",                     // public TCP
	"/ip4/10.0.0.9/tcp/%d",                    // private TCP
	"/ip4/1.2.3.4/udp/%d/quic-v1",             // public QUIC
	"/ip4/192.168.1.9/udp/%d/quic-v1",         // private QUIC
	"/ip6/2600::5/tcp/%d",                     // public TCP v6
	"/ip4/5.6.7.8/tcp/%d/ws",                  // websocket
	"/ip6/2600::7/udp/%d/quic-v1/webtransport", // webtransport
	"/ip4/9.9.9.9/tcp/%d/p2p/" + c05RelayID + "/p2p-circuit", // relayed
	"/ip4/1.2.3.4/sctp/%d",                    // no transport: undialable
	"/ip4/0.0.0.0/tcp/%d",                     // unspecified: filtered out
	"/ip4/1.2.3.4/tcp/%d/ws",                  // 10: websocket on the ip of kind 0 (same ip:port when given its port)
	"/ip4/1.2.3.4/udp/%d/quic-v1/webtransport", // 11: webtransport on the ip of kind 2
	"/dns4/relay.c05.test/tcp/%d/wss/p2p/" + c05RelayID + "/p2p-circuit",                      // 12: relay named by DNS, secure websocket
	"/dns4/relay.c05.test/udp/%d/quic-v1/webtransport/p2p/" + c05RelayID + "/p2p-circuit", // 13: relay named by DNS, webtransport
	"/dns4/relay.c05.test/tcp/%d/p2p/" + c05RelayID + "/p2p-circuit",                          // 14: relay named by DNS, tcp
}

// the class of an address as filterLowPriorityAddresses sees it: 4 webtransport, 3 quic-v1,
// 2 ws/wss, 1 tcp, 0 other
func c05Class(a ma.Multiaddr) int {
	has := func(p int) bool { _, err := a.ValueForProtocol(p); return err == nil }
	switch {
	case has(ma.P_WEBTRANSPORT):
		return 4
	case has(ma.P_QUIC_V1):
		return 3
	case has(ma.P_WS) || has(ma.P_WSS):
		return 2
	case has(ma.P_TCP):
		return 1
	}
	return 0
}

type c05W struct {
	s      *Swarm
	w      *dialWorker
	p      peer.ID
	other  peer.ID // some other peer: what a misdirected dial ends up connected to
	reqch  chan dialRequest
	adctx  context.Context
	cancel context.CancelFunc
	gater  *c05Gater
	direct *c05Tpt
	relay  *c05Tpt

	mu        sync.Mutex
	addrID    map[string]int64
	addrs     map[int64]ma.Multiaddr
	delays    map[string]time.Duration
	order     map[string]int
	parked    map[int64]*c05Park
	newDials  []int64
	newEnds   []int64
	slowCancel bool
	dialCount map[int64]int
	// scripted DNS: what the names of the case resolve to
	dnsIP  map[string][]net.IPAddr
	dnsTXT map[string][]string

	reqs    []*c05Req
	line    []int64
	stopped bool
	lastQ   int64
	// coverage
	cov map[string]bool
}

type c05Req struct {
	rid   int64
	resch chan dialResponse
}

func newC05Swarm() *c05W {
	h := &c05W{
		addrID: map[string]int64{}, addrs: map[int64]ma.Multiaddr{}, delays: map[string]time.Duration{},
		order: map[string]int{}, parked: map[int64]*c05Park{}, dialCount: map[int64]int{},
		line: []int64{2}, cov: map[string]bool{},
		dnsIP: map[string][]net.IPAddr{}, dnsTXT: map[string][]string{},
	}
	priv, _, err := ic.GenerateEd25519Key(rand.Reader)
	if err != nil {
		panic(err)
	}
	id, _ := peer.IDFromPrivateKey(priv)
	ps, err := pstoremem.NewPeerstore()
	if err != nil {
		panic(err)
	}
	ps.AddPubKey(id, priv.GetPublic())
	ps.AddPrivKey(id, priv)
	h.gater = &c05Gater{}
	rslv, err := madns.NewResolver(madns.WithDefaultResolver(&madns.MockResolver{IP: h.dnsIP, TXT: h.dnsTXT}))
	if err != nil {
		panic(err)
	}
	s, err := NewSwarm(id, ps, eventbus.NewBus(),
		WithMultiaddrResolver(ResolverFromMaDNS{rslv}),
		WithDialTimeout(time.Hour), WithDialTimeoutLocal(time.Hour),
		WithUDPBlackHoleSuccessCounter(nil), WithIPv6BlackHoleSuccessCounter(nil),
		WithConnectionGater(h.gater),
		WithDialRanker(h.ranker))
	if err != nil {
		panic(err)
	}
	h.s = s
	h.direct = &c05Tpt{h: h}
	h.relay = &c05Tpt{h: h, proxy: true}
	if err := s.AddTransport(h.direct); err != nil {
		panic(err)
	}
	if err := s.AddTransport(h.relay); err != nil {
		panic(err)
	}
	_, rp, _ := ic.GenerateEd25519Key(rand.Reader)
	h.p, _ = peer.IDFromPublicKey(rp)
	_, op, _ := ic.GenerateEd25519Key(rand.Reader)
	h.other, _ = peer.IDFromPublicKey(op)
	return h
}

func newC05W() *c05W {
	h := newC05Swarm()
	s := h.s
	h.line = []int64{2}
	s.limiter = newDialLimiterWithParams(s.dialAddr, 100000, 100000)
	h.reqch = make(chan dialRequest)
	h.adctx, h.cancel = context.WithCancel(context.Background())
	h.w = newDialWorker(s, h.p, h.reqch, nil)
	go h.w.loop()
	synctest.Wait()
	return h
}

func (h *c05W) close() {
	if !h.stopped {
		close(h.reqch)
		synctest.Wait()
		h.cancel()
		h.stopped = true
	}
	synctest.Wait()
	h.s.Close()
	h.s.peers.Close()
	synctest.Wait()
}

// the swarm's DialRanker: the scripted delay of every address, in scripted order
func (h *c05W) ranker(addrs []ma.Multiaddr) []network.AddrDelay {
	res := make([]network.AddrDelay, 0, len(addrs))
	for _, a := range addrs {
		res = append(res, network.AddrDelay{Addr: a, Delay: h.delays[string(a.Bytes())]})
	}
	sort.SliceStable(res, func(i, j int) bool {
		return h.order[string(res[i].Addr.Bytes())] < h.order[string(res[j].Addr.Bytes())]
	})
	return res
}

func (h *c05W) addr(id int64, kind int) ma.Multiaddr {
	return h.addrPort(id, kind, 3000+id)
}

func (h *c05W) addrPort(id int64, kind int, port int64) ma.Multiaddr {
	if a, ok := h.addrs[id]; ok {
		return a
	}
	a := ma.StringCast(fmt.Sprintf(c05WKinds[kind], port))
	h.addrs[id] = a
	h.addrID[string(a.Bytes())] = id
	return a
}

// the number of an address as the transports and the ranker see it; a trailing /p2p/<peer>
// component does not make a different address
func (h *c05W) idOf(a ma.Multiaddr) int64 {
	if id, _ := peer.IDFromP2PAddr(a); id == h.p {
		a, _ = ma.SplitLast(a)
	}
	if a == nil {
		return 0
	}
	return h.addrID[string(a.Bytes())]
}

func (h *c05W) observe() {
	// responses
	type kv struct{ k, v int64 }
	var rs []kv
	for _, r := range h.reqs {
		for {
			got := false
			select {
			case x := <-r.resch:
				k := int64(1)
				if x.conn != nil && x.err == nil {
					k = 0
				}
				rs = append(rs, kv{r.rid, k})
				got = true
			default:
			}
			if !got {
				break
			}
		}
	}
	sort.Slice(rs, func(i, j int) bool { return rs[i].k < rs[j].k })
	h.line = append(h.line, int64(len(rs)))
	for _, e := range rs {
		h.line = append(h.line, e.k, e.v)
	}
	h.mu.Lock()
	nd := append([]int64{}, h.newDials...)
	h.newDials = nil
	inprog := len(h.parked)
	h.mu.Unlock()
	sort.Slice(nd, func(i, j int) bool { return nd[i] < nd[j] })
	h.line = append(h.line, int64(len(nd)))
	h.line = append(h.line, nd...)
	w := h.w
	c := int64(0)
	if w.connected {
		c = 1
	}
	h.line = append(h.line, c)
	type tr struct{ a, d, st int64 }
	var ts []tr
	undialed := false
	for k, ad := range w.trackedDials {
		t := tr{a: h.addrID[k]}
		if ad.dialed {
			t.d = 1
		} else {
			undialed = true
		}
		if ad.conn != nil {
			t.st = 1
		} else if ad.err != nil {
			t.st = 2
		}
		ts = append(ts, t)
	}
	sort.Slice(ts, func(i, j int) bool { return ts[i].a < ts[j].a })
	h.line = append(h.line, int64(len(ts)))
	for _, t := range ts {
		h.line = append(h.line, t.a, t.d, t.st)
	}
	var ps []kv
	for pr := range w.pendingRequests {
		rid := int64(-1)
		for _, r := range h.reqs {
			if r.resch == pr.req.resch {
				rid = r.rid
			}
		}
		ps = append(ps, kv{rid, int64(len(pr.addrs))})
	}
	sort.Slice(ps, func(i, j int) bool { return ps[i].k < ps[j].k })
	h.line = append(h.line, int64(len(ps)))
	for _, e := range ps {
		h.line = append(h.line, e.k, e.v)
	}
	q := int64(0)
	if !undialed && inprog == 0 {
		q = 1
	}
	if h.stopped {
		q = h.lastQ
	}
	h.lastQ = q
	h.line = append(h.line, q)
	if len(ps) > 1 {
		h.cov["several_requests_pending"] = true
	}
}

// request: the peer's addresses are set to the given ones, the scripted ranking
// is installed, the environment's answers are recorded, then the request is sent
func (h *c05W) request(rid int64, sim, fdir bool, ids []int64, kinds []int, delays []time.Duration) {
	h.s.peers.ClearAddrs(h.p)
	var as []ma.Multiaddr
	for i, id := range ids {
		a := h.addr(id, kinds[i])
		as = append(as, a)
		h.delays[string(a.Bytes())] = delays[i]
		h.order[string(a.Bytes())] = i
	}
	if len(as) > 0 {
		h.s.peers.AddAddrs(h.p, as, time.Hour)
	}
	ctx := h.adctx
	if fdir {
		ctx = network.WithForceDirectDial(ctx, "c05")
	}
	if sim {
		ctx = network.WithSimultaneousConnect(ctx, true, "c05")
	}
	// what addrsForDial + rankAddrs answer for this request
	good, _, err := h.s.addrsForDial(ctx, h.p)
	ok := int64(1)
	var rk []network.AddrDelay
	if err != nil {
		ok = 0
	} else {
		rk = h.w.rankAddrs(append([]ma.Multiaddr{}, good...), sim)
	}
	r := &c05Req{rid: rid, resch: make(chan dialResponse, 1)}
	h.reqs = append(h.reqs, r)
	h.reqch <- dialRequest{ctx: ctx, resch: r.resch}
	synctest.Wait()
	b := func(x bool) int64 {
		if x {
			return 1
		}
		return 0
	}
	h.line = append(h.line, 1, rid, b(sim), b(fdir), ok, int64(len(rk)))
	for _, e := range rk {
		h.line = append(h.line, h.idOf(e.Addr), int64(e.Delay))
	}
	h.observe()
	if ok == 0 {
		h.cov["request_no_good_addresses"] = true
	}
	if sim {
		h.cov["request_simconnect"] = true
	}
	if fdir {
		h.cov["request_force_direct"] = true
	}
}

func (h *c05W) advance(d time.Duration) {
	time.Sleep(d)
	synctest.Wait()
	h.line = append(h.line, 2, int64(d))
	h.observe()
}

func (h *c05W) parkedIDs() []int64 {
	h.mu.Lock()
	defer h.mu.Unlock()
	var ids []int64
	for id := range h.parked {
		ids = append(ids, id)
	}
	sort.Slice(ids, func(i, j int) bool { return ids[i] < ids[j] })
	return ids
}

func (h *c05W) result(id int64, kind int) {
	h.mu.Lock()
	pk := h.parked[id]
	h.mu.Unlock()
	if pk == nil {
		return
	}
	a := h.addrs[id]
	flag := int64(0)
	switch kind {
	case 1:
		if !isRelayAddr(a) {
			flag = 1
		}
	case 3:
		if manet.IsPublicAddr(a) {
			flag = 1
		}
	case 4:
		h.gater.refuseNext = true
	}
	pk.cmd <- c05Cmd{kind: kind}
	synctest.Wait()
	h.gater.refuseNext = false
	h.line = append(h.line, 3, id, int64(kind), flag)
	h.observe()
	h.cov[fmt.Sprintf("result_kind_%d", kind)] = true
}

func (h *c05W) backoff(id int64) {
	a, ok := h.addrs[id]
	if !ok {
		return
	}
	h.s.backf.AddBackoff(h.p, a)
	synctest.Wait()
	h.line = append(h.line, 4, id)
	h.observe()
}

func (h *c05W) closeReq() {
	// reqch is closed first and the callers' shared context is cancelled only
	// after the loop has returned: dialSync cancels first, which lets the loop
	// handle some of the resulting context.Canceled dial results before it sees
	// the closed channel (a scheduler choice; that composition belongs to
	// dial_sync, which this harness does not drive)
	close(h.reqch)
	synctest.Wait()
	h.cancel()
	synctest.Wait()
	h.stopped = true
	h.line = append(h.line, 5)
	h.observe()
}

func (h *c05W) inboundConn(direct bool) {
	t := h.direct
	a := ma.StringCast("/ip4/7.7.7.7/tcp/7")
	d := int64(1)
	if !direct {
		t = h.relay
		a = ma.StringCast("/ip4/7.7.7.7/tcp/7/p2p/" + c05RelayID + "/p2p-circuit")
		d = 0
	}
	_, err := h.s.addConn(&c05Conn{local: h.s.local, remote: h.p, raddr: a, tpt: t, closed: make(chan struct{})}, network.DirInbound)
	if err != nil {
		panic(err)
	}
	synctest.Wait()
	h.line = append(h.line, 6, d)
	h.observe()
}

var c05Delays = []time.Duration{0, 0, 0, 30 * time.Millisecond, 100 * time.Millisecond, 250 * time.Millisecond,
	250 * time.Millisecond, 500 * time.Millisecond, time.Second}
var c05Advances = []time.Duration{time.Millisecond, 30 * time.Millisecond, 100 * time.Millisecond, 250 * time.Millisecond,
	251 * time.Millisecond, 500 * time.Millisecond, time.Second, 2 * time.Second}

func c05WRandom(out *verifh.Out, r *verifh.Rand, size int) {
	BackoffBase, BackoffMax = 24*time.Hour, 48*time.Hour
	h := newC05W()
	npool := 1 + r.Intn(7)
	kinds := make([]int, npool+1)
	for i := 1; i <= npool; i++ {
		k := r.Intn(100)
		switch {
		case k < 30:
			kinds[i] = 0
		case k < 42:
			kinds[i] = 1
		case k < 60:
			kinds[i] = 2
		case k < 68:
			kinds[i] = 3
		case k < 74:
			kinds[i] = 4
		case k < 79:
			kinds[i] = 5
		case k < 84:
			kinds[i] = 6
		case k < 93:
			kinds[i] = 7
		case k < 97:
			kinds[i] = 8
		default:
			kinds[i] = 9
		}
	}
	rid := int64(1)
	mkReq := func() {
		var ids []int64
		var ks []int
		var ds []time.Duration
		for i := 1; i <= npool; i++ {
			if r.Chance(2, 3) {
				ids = append(ids, int64(i))
				ks = append(ks, kinds[i])
				ds = append(ds, c05Delays[r.Intn(len(c05Delays))])
			}
		}
		// scripted order: a random rotation
		if len(ids) > 1 {
			k := r.Intn(len(ids))
			ids = append(ids[k:], ids[:k]...)
			ks = append(ks[k:], ks[:k]...)
			ds = append(ds[k:], ds[:k]...)
		}
		h.request(rid, r.Chance(1, 6), r.Chance(1, 6), ids, ks, ds)
		rid++
		out.Cover("worker.op.request")
	}
	mkReq()
	for i := 0; i < size && !h.stopped; i++ {
		k := r.Intn(100)
		pk := h.parkedIDs()
		switch {
		case k < 18 && rid <= 6:
			mkReq()
		case k < 45:
			h.advance(c05Advances[r.Intn(len(c05Advances))])
			out.Cover("worker.op.advance")
		case k < 82 && len(pk) > 0:
			id := pk[r.Intn(len(pk))]
			j := r.Intn(100)
			kind := 0
			switch {
			case j < 45:
				kind = 0
			case j < 62:
				kind = 1
			case j < 72:
				kind = 2
			case j < 90:
				kind = 3
			default:
				kind = 4
			}
			h.result(id, kind)
			out.Cover("worker.op.result")
		case k < 90:
			h.backoff(int64(1 + r.Intn(npool)))
			out.Cover("worker.op.backoff")
		case k < 93:
			h.inboundConn(r.Chance(2, 3))
			out.Cover("worker.op.inbound_conn")
		case k < 96:
			h.closeReq()
			out.Cover("worker.op.close")
		default:
			h.advance(c05Advances[r.Intn(len(c05Advances))])
			out.Cover("worker.op.advance")
		}
	}
	// drain: let every timer fire and fail whatever is parked, until quiescent
	for k := 0; k < 200 && !h.stopped; k++ {
		h.advance(5 * time.Second)
		pk := h.parkedIDs()
		if len(pk) == 0 {
			break
		}
		h.result(pk[r.Intn(len(pk))], 0)
	}
	if !h.stopped {
		h.closeReq()
	}
	for k, v := range h.cov {
		if v {
			out.Cover("worker.cases_with." + k)
		}
	}
	multi := 0
	for _, n := range h.dialCount {
		if n > 1 {
			multi++
		}
	}
	if multi > 0 {
		out.Cover("worker.cases_with.address_dialed_twice")
	}
	out.Cover("worker.cases")
	out.Case(h.line)
	h.close()
}

//go:build verif

package swarm

// C05 correspondence harness, part 3: DefaultDialRanker on real multiaddrs.
// Wire format: /verif/coq/c05/SpecRanker.v.

import (
	"fmt"

	"github.com/libp2p/go-libp2p/internal/verifh"
	ma "github.com/multiformats/go-multiaddr"
	manet "github.com/multiformats/go-multiaddr/net"
)

var c05RankTmpl = []string{
	"/ip4/1.2.3.4/tcp/%d",
	"/ip4/10.0.0.3/tcp/%d",
	"/ip6/2600::1/tcp/%d",
	"/ip6/fd00::2/tcp/%d",
	"/ip4/1.2.3.4/udp/%d/quic-v1",
	"/ip4/192.168.1.3/udp/%d/quic-v1",
	"/ip6/2600::1/udp/%d/quic-v1",
	"/ip6/fd00::2/udp/%d/quic-v1",
	"/ip4/1.2.3.4/udp/%d/quic",
	"/ip4/1.2.3.4/udp/%d/quic-v1/webtransport",
	"/ip6/2600::1/udp/%d/quic-v1/webtransport",
	"/ip4/5.6.7.8/tcp/%d/ws",
	"/ip6/2600::9/tcp/%d/wss",
	"/ip4/1.2.3.4/udp/%d/webrtc-direct",
	"/ip4/9.9.9.9/tcp/%d/p2p/" + c05RelayID + "/p2p-circuit",
	"/ip6/2600::5/udp/%d/quic-v1/p2p/" + c05RelayID + "/p2p-circuit",
	"/dns4/example.com/tcp/%d",
	"/dns/example.org/udp/%d/quic-v1",
	"/ip4/127.0.0.1/tcp/%d",
}

func c05b(x bool) int64 {
	if x {
		return 1
	}
	return 0
}

func c05Ranker(out *verifh.Out, r *verifh.Rand) {
	n := r.Intn(11)
	if r.Chance(1, 8) {
		n = r.Intn(3)
	}
	// a bias per case: only some templates, so that groups with both IP versions,
	// QUIC-only, TCP-only ... all occur
	var tm []string
	for _, t := range c05RankTmpl {
		if r.Chance(1, 2) {
			tm = append(tm, t)
		}
	}
	if len(tm) == 0 {
		tm = c05RankTmpl
	}
	addrs := make([]ma.Multiaddr, 0, n)
	ids := map[string]int64{}
	used := map[int]bool{}
	line := []int64{4, 0}
	for i := 0; i < n; i++ {
		port := 1 + r.Intn(60)
		for used[port] {
			port = 1 + r.Intn(60)
		}
		used[port] = true // distinct ports: distinct scores within a transport class
		a := ma.StringCast(fmt.Sprintf(tm[r.Intn(len(tm))], port))
		if _, dup := ids[string(a.Bytes())]; dup {
			continue
		}
		ids[string(a.Bytes())] = int64(i + 1)
		addrs = append(addrs, a)
		line = append(line, int64(i+1), c05b(isRelayAddr(a)), c05b(manet.IsPrivateAddr(a)),
			c05b(isProtocolAddr(a, ma.P_IP4)), c05b(isProtocolAddr(a, ma.P_IP6)), c05b(isQUICAddr(a)),
			c05b(isProtocolAddr(a, ma.P_TCP)), int64(score(a)))
	}
	line[1] = int64(len(addrs))
	in := append([]ma.Multiaddr{}, addrs...)
	res := DefaultDialRanker(in)
	line = append(line, int64(len(res)))
	happy := false
	for _, e := range res {
		line = append(line, ids[string(e.Addr.Bytes())], int64(e.Delay))
	}
	var has4, has6 bool
	for _, a := range addrs {
		if isQUICAddr(a) && isProtocolAddr(a, ma.P_IP4) {
			has4 = true
		}
		if isQUICAddr(a) && isProtocolAddr(a, ma.P_IP6) {
			has6 = true
		}
	}
	happy = has4 && has6
	out.Cover("ranker.cases")
	if happy {
		out.Cover("ranker.cases_with_quic_v4_and_v6")
	}
	out.Case(line)
}

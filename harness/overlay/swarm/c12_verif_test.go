//go:build verif

package swarm

// C12 correspondence harness (injected with `go test -overlay`; not part of
// /repo).  A real Swarm with scripted transports and scripted connections
// (Stat().Limited and Transport().Proxy() chosen per connection), driven inside
// a testing/synctest bubble: one stimulus at a time, then synctest.Wait(), then
// everything observable is recorded.  Schedules are forced from outside only:
// connections arrive / report closed / are closed, contexts are cancelled,
// virtual time advances, parked OpenStream / Dial calls are released.
// Wire format: /verif/coq/c12/Spec.v.

import (
	"bytes"
	"context"
	"os"
	"crypto/rand"
	"errors"
	"fmt"
	"io"
	"runtime"
	"sort"
	"strconv"
	"strings"
	"sync"
	"sync/atomic"
	"testing"
	"testing/synctest"
	"time"

	ic "github.com/libp2p/go-libp2p/core/crypto"
	"github.com/libp2p/go-libp2p/core/network"
	"github.com/libp2p/go-libp2p/core/peer"
	"github.com/libp2p/go-libp2p/core/peerstore"
	"github.com/libp2p/go-libp2p/core/transport"
	"github.com/libp2p/go-libp2p/internal/verifh"
	basichost "github.com/libp2p/go-libp2p/p2p/host/basic"
	"github.com/libp2p/go-libp2p/p2p/host/eventbus"
	"github.com/libp2p/go-libp2p/p2p/host/peerstore/pstoremem"
	ma "github.com/multiformats/go-multiaddr"
)

type c12TidKey struct{}

// ---- scripted stream -----------------------------------------------------------
type c12Stream struct{ closed atomic.Bool }

func (s *c12Stream) Read([]byte) (int, error)                    { return 0, io.EOF }
func (s *c12Stream) Write(b []byte) (int, error)                 { return len(b), nil }
func (s *c12Stream) Close() error                                { s.closed.Store(true); return nil }
func (s *c12Stream) CloseWrite() error                           { return nil }
func (s *c12Stream) CloseRead() error                            { return nil }
func (s *c12Stream) Reset() error                                { s.closed.Store(true); return nil }
func (s *c12Stream) ResetWithError(network.StreamErrorCode) error { s.closed.Store(true); return nil }
func (s *c12Stream) SetDeadline(time.Time) error                 { return nil }
func (s *c12Stream) SetReadDeadline(time.Time) error             { return nil }
func (s *c12Stream) SetWriteDeadline(time.Time) error            { return nil }

// ---- scripted connection ---------------------------------------------------------
type c12OpenCmd struct{ ok bool }

type c12OpenPark struct {
	conn int
	cmd  chan c12OpenCmd
}

type c12Conn struct {
	h       *c12H
	id      int
	lim     bool
	raddr   ma.Multiaddr
	tpt     transport.Transport
	closed  atomic.Bool
	release chan struct{}
	once    sync.Once
}

func (c *c12Conn) Close() error {
	c.closed.Store(true)
	c.once.Do(func() { close(c.release) })
	return nil
}
func (c *c12Conn) CloseWithError(network.ConnErrorCode) error { return c.Close() }
func (c *c12Conn) IsClosed() bool {
	if lv := c.h.lever.Load(); lv != nil && lv.connID == c.id && lv.armed.Load() {
		lv.maybeFire()
	}
	return c.closed.Load()
}

// ---- the lever of op 15 ---------------------------------------------------------------------
// A non-limited connection is handed to Swarm.addConn at the very moment a call has looked at
// the peer's connections inside waitForDirectConn (the IsClosed callback of the only usable
// connection, called from bestConnToPeer) and has not yet registered as a waiter.  The call is
// held before it can go on (Conn.Stat() of the connection it found takes that connection's
// stream lock, which the lever holds) until addConn has got as far as it can without the call:
// either it is past its notify section (the Connected handler of the new connection runs) or it
// is blocked in sync.Mutex.Lock called from addConn itself (the waiter-list lock, held by the
// call).  No clocks: the helper spins on those two conditions.
type c12Lever struct {
	h         *c12H
	connID    int
	lc        *Conn
	direct    *c12Conn
	armed     atomic.Bool
	fired     atomic.Bool
	connected atomic.Bool
	addGid    atomic.Value
	addDone   chan struct{}
	how       atomic.Int32 // 1 addConn ran past the notify section first, 2 addConn blocked on the waiter-list lock, 3 gave up
}

func (lv *c12Lever) maybeFire() {
	var buf [6144]byte
	n := runtime.Stack(buf[:], false)
	if !bytes.Contains(buf[:n], []byte(").waitForDirectConn(")) {
		return
	}
	if !lv.armed.CompareAndSwap(true, false) {
		return
	}
	lv.fired.Store(true)
	lv.lc.streams.Lock() // unlocked by release()
	go func() {
		lv.addGid.Store(c12GoroutineID())
		if _, err := lv.h.s.addConn(lv.direct, network.DirInbound); err != nil {
			lv.h.mu.Lock()
			lv.h.cov["addconn.error"] = true
			lv.h.mu.Unlock()
		}
		close(lv.addDone)
	}()
	go lv.release()
}

func (lv *c12Lever) release() {
	how := int32(3)
	for i := 0; i < 200000; i++ {
		if lv.connected.Load() {
			how = 1
			break
		}
		if i%8 == 7 && lv.addBlockedOnWaiterLock() {
			how = 2
			break
		}
		runtime.Gosched()
	}
	lv.how.Store(how)
	lv.lc.streams.Unlock()
}

// is the addConn goroutine parked in a sync.Mutex.Lock that addConn itself called (not
// the RWMutex of the connection table, not a lock taken by something addConn calls)?
func (lv *c12Lever) addBlockedOnWaiterLock() bool {
	gid, _ := lv.addGid.Load().(string)
	if gid == "" {
		return false
	}
	buf := make([]byte, 1<<18)
	n := runtime.Stack(buf, true)
	for _, blk := range strings.Split(string(buf[:n]), "\n\n") {
		if !strings.HasPrefix(blk, "goroutine "+gid+" ") {
			continue
		}
		lines := strings.Split(blk, "\n")
		if !strings.Contains(lines[0], "sync.Mutex.Lock") || strings.Contains(blk, "RWMutex") {
			return false
		}
		for _, ln := range lines[1:] {
			if strings.HasPrefix(ln, "\t") || strings.HasPrefix(ln, "sync.") || strings.HasPrefix(ln, "internal/sync.") ||
				strings.HasPrefix(ln, "runtime.") || strings.HasPrefix(ln, "internal/runtime") {
				continue
			}
			return strings.Contains(ln, "(*Swarm).addConn(")
		}
		return false
	}
	return false
}

// OpenStream parks until the harness says how it ends (it ignores ctx: a
// transport that is slow to notice cancellation).
func (c *c12Conn) OpenStream(ctx context.Context) (network.MuxedStream, error) {
	tid, ok := ctx.Value(c12TidKey{}).(int)
	if !ok {
		// not one of the scripted calls (the host's identify service): no stream
		return nil, errors.New("c12: no streams for services")
	}
	pk := &c12OpenPark{conn: c.id, cmd: make(chan c12OpenCmd)}
	c.h.mu.Lock()
	c.h.opens[tid] = pk
	c.h.mu.Unlock()
	cmd := <-pk.cmd
	c.h.mu.Lock()
	delete(c.h.opens, tid)
	c.h.mu.Unlock()
	if !cmd.ok {
		return nil, errors.New("c12: scripted OpenStream failure")
	}
	return &c12Stream{}, nil
}
func (c *c12Conn) AcceptStream() (network.MuxedStream, error) {
	<-c.release
	return nil, errors.New("c12: closed")
}
func (c *c12Conn) As(any) bool                        { return false }
func (c *c12Conn) LocalPeer() peer.ID                 { return c.h.s.local }
func (c *c12Conn) RemotePeer() peer.ID                { return c.h.p }
func (c *c12Conn) RemotePublicKey() ic.PubKey         { return nil }
func (c *c12Conn) ConnState() network.ConnectionState { return network.ConnectionState{} }
func (c *c12Conn) LocalMultiaddr() ma.Multiaddr       { return ma.StringCast("/ip4/127.0.0.1/tcp/1") }
func (c *c12Conn) RemoteMultiaddr() ma.Multiaddr      { return c.raddr }
func (c *c12Conn) Scope() network.ConnScope           { return &network.NullScope{} }
func (c *c12Conn) Transport() transport.Transport     { return c.tpt }
func (c *c12Conn) Stat() network.ConnStats {
	return network.ConnStats{Stats: network.Stats{Limited: c.lim}}
}

// ---- scripted transport ------------------------------------------------------------
type c12DialCmd struct {
	ok  bool
	lim bool
}

type c12DialPark struct {
	force bool
	cmd   chan c12DialCmd
}

type c12Tpt struct {
	h     *c12H
	proxy bool
}

func (t *c12Tpt) Dial(ctx context.Context, a ma.Multiaddr, p peer.ID) (transport.CapableConn, error) {
	h := t.h
	code, ok := h.addrCode(a)
	if !ok {
		return nil, errors.New("c12: unknown address")
	}
	force, _ := network.GetForceDirectDial(ctx)
	pk := &c12DialPark{force: force, cmd: make(chan c12DialCmd)}
	h.mu.Lock()
	h.dials[code] = pk
	h.dialed = append(h.dialed, code)
	if (code%4 == 1) != t.proxy {
		h.cov["dial.transport_class_mismatch"] = true
	}
	h.mu.Unlock()
	defer func() {
		h.mu.Lock()
		if h.dials[code] == pk {
			delete(h.dials, code)
		}
		h.mu.Unlock()
	}()
	select {
	case <-ctx.Done():
		return nil, ctx.Err()
	case c := <-pk.cmd:
		if !c.ok {
			return nil, errors.New("c12: scripted dial failure")
		}
		// the conn id is assigned by the harness before it releases the dial
		return h.newConn(c.lim, t, a), nil
	}
}

func (t *c12Tpt) CanDial(a ma.Multiaddr) bool {
	if _, err := a.ValueForProtocol(ma.P_SCTP); err == nil {
		return false
	}
	return isRelayAddr(a) == t.proxy
}
func (t *c12Tpt) Listen(ma.Multiaddr) (transport.Listener, error) {
	return nil, errors.New("c12: no listen")
}
func (t *c12Tpt) Protocols() []int {
	if t.proxy {
		return []int{ma.P_CIRCUIT}
	}
	return []int{ma.P_TCP}
}
func (t *c12Tpt) Proxy() bool { return t.proxy }

// ---- a call (NewStream or DialPeer) ----------------------------------------------------
type c12Call struct {
	tid    int
	dial   bool
	connect bool
	opts   int64
	cancel context.CancelFunc
	gid    string
	mu     sync.Mutex
	done   bool
	okConn int
	errc   int64
}

func c12GoroutineID() string {
	var buf [64]byte
	n := runtime.Stack(buf[:], false)
	f := strings.Fields(string(buf[:n]))
	if len(f) >= 2 {
		return f[1]
	}
	return "?"
}

func c12ErrCode(err error) int64 {
	var de *DialError
	if errors.As(err, &de) {
		switch de.Cause {
		case ErrNoAddresses:
			return 5
		case ErrNoGoodAddresses:
			return 6
		case ErrAllDialsFailed:
			return 7
		}
		return 20
	}
	switch {
	case errors.Is(err, network.ErrNoConn):
		return 1
	case errors.Is(err, network.ErrLimitedConn):
		return 2
	case errors.Is(err, context.Canceled), errors.Is(err, context.DeadlineExceeded):
		return 3
	case strings.Contains(err.Error(), "c12: scripted OpenStream failure"):
		return 4
	case strings.Contains(err.Error(), "max dial attempts exceeded"):
		return 8
	case errors.Is(err, ErrConnClosed):
		return 9
	}
	return 21
}

// ---- the harness object ---------------------------------------------------------------------
const c12RelayID = "12D3KooWDpJ7As7BWAwRMfu1VU2WCqNjvq387JEYKDBj4kx6nXTN"

type c12H struct {
	s      *Swarm
	host   *basichost.BasicHost
	p      peer.ID
	direct *c12Tpt
	relay  *c12Tpt

	mu     sync.Mutex
	conns  []*c12Conn // by id
	sconns map[int]*Conn
	calls  []*c12Call
	opens  map[int]*c12OpenPark   // call id -> parked OpenStream
	dials  map[int64]*c12DialPark // address code -> parked Dial
	dialed []int64
	codes  map[string]int64
	cov    map[string]bool
	blocked map[int]chan struct{} // conn id -> its Connected handler waits on this
	lever   atomic.Pointer[c12Lever]
	line   []int64
	lastOp int64
	prev   [][2]int64
	cur    [][2]int64
	nsteps int
	stackBuf []byte
}

func (h *c12H) addr(code int64) ma.Multiaddr {
	id := code / 4
	var a ma.Multiaddr
	switch code % 4 {
	case 0:
		a = ma.StringCast(fmt.Sprintf("/ip4/1.2.3.4/tcp/%d", 4000+id))
		if id == 5 || id == 6 {
			// handed to the peerstore as a /dns4 name; the resolver maps it back
			h.remember(a, code)
			return ma.StringCast(fmt.Sprintf("/dns4/c12-host-%d/tcp/%d", id, 4000+id))
		}
	case 1:
		a = ma.StringCast(fmt.Sprintf("/ip4/9.9.9.9/tcp/%d/p2p/%s/p2p-circuit", 4000+id, c12RelayID))
	case 2:
		a = ma.StringCast(fmt.Sprintf("/ip4/1.2.3.4/sctp/%d", 4000+id))
	default:
		// /dnsaddr: what it resolves to is a fixed function of id (coq/c12/Model.v resolve_addr)
		for _, rc := range c12Resolve(code) {
			h.addr(rc)
		}
		return ma.StringCast(fmt.Sprintf("/dnsaddr/c12-dnsaddr-%d", id))
	}
	h.remember(a, code)
	return a
}

func (h *c12H) remember(a ma.Multiaddr, code int64) {
	h.mu.Lock()
	h.codes[string(a.Bytes())] = code
	h.mu.Unlock()
}

// c12Resolve: the addresses a /dnsaddr address (class 3) resolves to
func c12Resolve(code int64) []int64 {
	i := code / 4
	switch i % 3 {
	case 0:
		return []int64{4 * (i + 8)}
	case 1:
		return []int64{4*(i+8) + 1}
	}
	return []int64{4 * (i + 8), 4*(i+8) + 1}
}

// the swarm's DNS resolver (network.MultiaddrDNSResolver), scripted
type c12Resolver struct{ h *c12H }

func (r *c12Resolver) ResolveDNSAddr(_ context.Context, _ peer.ID, maddr ma.Multiaddr, _, _ int) ([]ma.Multiaddr, error) {
	v, err := maddr.ValueForProtocol(ma.P_DNSADDR)
	if err != nil {
		return nil, err
	}
	var id int64
	if _, err := fmt.Sscanf(v, "c12-dnsaddr-%d", &id); err != nil {
		return nil, err
	}
	r.h.mu.Lock()
	r.h.cov["resolve.dnsaddr"] = true
	r.h.mu.Unlock()
	var res []ma.Multiaddr
	for _, rc := range c12Resolve(4*id + 3) {
		res = append(res, r.h.addr(rc))
	}
	return res, nil
}

func (r *c12Resolver) ResolveDNSComponent(_ context.Context, maddr ma.Multiaddr, _ int) ([]ma.Multiaddr, error) {
	v, err := maddr.ValueForProtocol(ma.P_DNS4)
	if err != nil {
		return nil, err
	}
	var id int64
	if _, err := fmt.Sscanf(v, "c12-host-%d", &id); err != nil {
		return nil, err
	}
	r.h.mu.Lock()
	r.h.cov["resolve.dns4"] = true
	r.h.mu.Unlock()
	return []ma.Multiaddr{ma.StringCast(fmt.Sprintf("/ip4/1.2.3.4/tcp/%d", 4000+id))}, nil
}

func (h *c12H) addrCode(a ma.Multiaddr) (int64, bool) {
	h.mu.Lock()
	defer h.mu.Unlock()
	c, ok := h.codes[string(a.Bytes())]
	return c, ok
}

// newConn creates the next scripted connection (ids in creation order)
func (h *c12H) newConn(lim bool, t transport.Transport, raddr ma.Multiaddr) *c12Conn {
	h.mu.Lock()
	defer h.mu.Unlock()
	c := &c12Conn{h: h, id: len(h.conns), lim: lim, raddr: raddr, tpt: t, release: make(chan struct{})}
	h.conns = append(h.conns, c)
	return c
}

func newC12H(dialAttempts int64) *c12H {
	h := &c12H{blocked: map[int]chan struct{}{}, sconns: map[int]*Conn{}, opens: map[int]*c12OpenPark{}, dials: map[int64]*c12DialPark{}, codes: map[string]int64{},
		cov: map[string]bool{}, line: []int64{0, dialAttempts}}
	priv, _, err := ic.GenerateEd25519Key(rand.Reader)
	if err != nil {
		panic(err)
	}
	id, _ := peer.IDFromPrivateKey(priv)
	ps, err := pstoremem.NewPeerstore()
	if err != nil {
		panic(err)
	}
	ps.AddPubKey(id, priv.GetPublic())
	ps.AddPrivKey(id, priv)
	s, err := NewSwarm(id, ps, eventbus.NewBus(),
		WithDialTimeout(100000*time.Hour), WithDialTimeoutLocal(100000*time.Hour),
		WithUDPBlackHoleSuccessCounter(nil), WithIPv6BlackHoleSuccessCounter(nil),
		WithMultiaddrResolver(&c12Resolver{h: h}),
		WithDialRanker(func(addrs []ma.Multiaddr) []network.AddrDelay {
			res := make([]network.AddrDelay, 0, len(addrs))
			for _, a := range addrs {
				res = append(res, network.AddrDelay{Addr: a})
			}
			sort.SliceStable(res, func(i, j int) bool {
				x, _ := h.addrCode(res[i].Addr)
				y, _ := h.addrCode(res[j].Addr)
				return x < y
			})
			return res
		}))
	if err != nil {
		panic(err)
	}
	h.s = s
	s.Notify(&c12Notifiee{h: h})
	h.direct = &c12Tpt{h: h}
	h.relay = &c12Tpt{h: h, proxy: true}
	if err := s.AddTransport(h.direct); err != nil {
		panic(err)
	}
	if err := s.AddTransport(h.relay); err != nil {
		panic(err)
	}
	// the dial limiter has its own check (C05); keep it transparent here
	s.limiter = newDialLimiterWithParams(s.dialAddr, 100000, 100000)
	_, rp, _ := ic.GenerateEd25519Key(rand.Reader)
	h.p, _ = peer.IDFromPublicKey(rp)
	// a real BasicHost over this swarm; only its identify service is started (Connect waits
	// for it; it gets no stream from the scripted connections and gives up at once), not the
	// address manager nor the peerstore manager (which would forget the peer's addresses)
	hst, err := basichost.NewHost(s, &basichost.HostOpts{})
	if err != nil {
		panic(err)
	}
	h.host = hst
	hst.IDService().Start()
	synctest.Wait()
	return h
}

func (h *c12H) close() {
	h.mu.Lock()
	for id, ch := range h.blocked {
		close(ch)
		delete(h.blocked, id)
	}
	h.mu.Unlock()
	synctest.Wait()
	h.mu.Lock()
	for _, c := range h.calls {
		c.cancel()
	}
	h.mu.Unlock()
	synctest.Wait()
	for i := 0; i < 8; i++ {
		h.mu.Lock()
		var ops []*c12OpenPark
		for _, pk := range h.opens {
			ops = append(ops, pk)
		}
		var dls []*c12DialPark
		for _, pk := range h.dials {
			dls = append(dls, pk)
		}
		h.mu.Unlock()
		if len(ops) == 0 && len(dls) == 0 {
			break
		}
		for _, pk := range ops {
			select {
			case pk.cmd <- c12OpenCmd{ok: false}:
			default:
			}
		}
		for _, pk := range dls {
			select {
			case pk.cmd <- c12DialCmd{ok: false}:
			default:
			}
		}
		synctest.Wait()
	}
	h.host.Close() // closes the swarm too
	h.s.peers.Close()
	synctest.Wait()
}

// blocked calls that are not parked in a scripted transport: where are they?
func (h *c12H) blockedWhere() map[string]int64 {
	if h.stackBuf == nil {
		h.stackBuf = make([]byte, 1<<18)
	}
	buf := h.stackBuf
	n := runtime.Stack(buf, true)
	res := map[string]int64{}
	for _, blk := range strings.Split(string(buf[:n]), "\n\n") {
		f := strings.Fields(blk)
		if len(f) < 2 || f[0] != "goroutine" {
			continue
		}
		switch {
		case strings.Contains(blk, ".waitForDirectConn"):
			res[f[1]] = 1
		case strings.Contains(blk, "(*activeDial).dial"):
			res[f[1]] = 3
		default:
			res[f[1]] = 7
		}
	}
	return res
}

// observe appends OBS to the line
func (h *c12H) observe() {
	synctest.Wait()
	h.s.directConnNotifs.Lock()
	l, key := h.s.directConnNotifs.m[h.p]
	nw := int64(len(l))
	h.s.directConnNotifs.Unlock()
	var cn int64
	switch h.s.Connectedness(h.p) {
	case network.NotConnected:
		cn = 0
	case network.Connected:
		cn = 1
	case network.Limited:
		cn = 2
	default:
		cn = 9
	}
	h.line = append(h.line, nw, c12b(key), cn)
	listed := map[int]bool{}
	for _, nc := range h.s.ConnsToPeer(h.p) {
		if fc, ok := nc.(*Conn).conn.(*c12Conn); ok {
			listed[fc.id] = true
		}
	}
	h.mu.Lock()
	defer h.mu.Unlock()
	h.line = append(h.line, int64(len(h.conns)))
	for _, fc := range h.conns {
		// what the connection itself reports: Stat().Limited, Transport().Proxy(), IsClosed()
		fl := c12b(fc.Stat().Limited) + 2*c12b(fc.Transport().Proxy())
		if listed[fc.id] && !fc.IsClosed() {
			fl += 4
		}
		h.line = append(h.line, fl)
	}
	h.line = append(h.line, int64(len(h.calls)))
	var where map[string]int64
	h.prev, h.cur = h.cur, nil
	for _, c := range h.calls {
		c.mu.Lock()
		done, okc, errc := c.done, c.okConn, c.errc
		c.mu.Unlock()
		var st [2]int64
		switch {
		case done && errc == 0 && c.connect:
			st = [2]int64{6, 0}
		case done && errc == 0:
			st = [2]int64{4, int64(okc)}
		case done:
			st = [2]int64{5, errc}
		default:
			if pk, ok := h.opens[c.tid]; ok {
				st = [2]int64{2, int64(pk.conn)}
			} else {
				if where == nil {
					where = h.blockedWhere()
				}
				w, ok := where[c.gid]
				if !ok {
					w = 6
				}
				st = [2]int64{w, 0}
			}
		}
		h.line = append(h.line, st[0], st[1], c.opts)
		h.cur = append(h.cur, st)
	}
	h.coverStep()
	codes := make([]int64, 0, len(h.dials))
	for code := range h.dials {
		codes = append(codes, code)
	}
	sort.Slice(codes, func(i, j int) bool { return codes[i] < codes[j] })
	h.line = append(h.line, int64(len(codes)))
	for _, code := range codes {
		h.line = append(h.line, code, c12b(h.dials[code].force))
	}
}

func c12b(b bool) int64 {
	if b {
		return 1
	}
	return 0
}

// ---- stimuli -----------------------------------------------------------------------------------
func (h *c12H) swarmConn(id int) *Conn {
	h.s.conns.RLock()
	defer h.s.conns.RUnlock()
	for _, sc := range h.s.conns.m[h.p] {
		if fc, ok := sc.conn.(*c12Conn); ok && fc.id == id {
			return sc
		}
	}
	return nil
}

func (h *c12H) opAdd(lim, proxy, bornClosed bool) {
	var t transport.Transport = h.direct
	raddr := ma.StringCast(fmt.Sprintf("/ip4/5.6.7.8/tcp/%d", 6000+len(h.conns)))
	if proxy {
		t = h.relay
		raddr = ma.StringCast(fmt.Sprintf("/ip4/9.9.9.9/tcp/%d/p2p/%s/p2p-circuit", 6000+len(h.conns), c12RelayID))
	}
	c := h.newConn(lim, t, raddr)
	if bornClosed {
		c.closed.Store(true)
		h.lastOp = 10
		h.line = append(h.line, 10, c12b(lim), c12b(proxy))
	} else {
		h.lastOp = 1
		h.line = append(h.line, 1, c12b(lim), c12b(proxy))
	}
	if _, err := h.s.addConn(c, network.DirInbound); err != nil {
		h.cov["addconn.error"] = true
	}
	h.finish()
}

func (h *c12H) opMark(id int) {
	h.lastOp = 2
	h.line = append(h.line, 2, int64(id))
	if id < len(h.conns) {
		h.conns[id].closed.Store(true)
	}
	h.finish()
}

func (h *c12H) opReap(id int) {
	h.lastOp = 3
	h.line = append(h.line, 3, int64(id))
	if id < len(h.conns) {
		if sc := h.swarmConn(id); sc != nil {
			sc.Close()
		} else {
			h.conns[id].Close()
		}
	}
	h.finish()
}

// c12Force: force = 0 not set, 1 WithForceDirectDial with a reason, 2 with the empty reason
// (the reason string is informational; the option is set either way)
func (h *c12H) c12Force(ctx context.Context, force int) context.Context {
	switch force {
	case 1:
		ctx = network.WithForceDirectDial(ctx, "c12")
		h.cov["opt.force_direct.reason_given"] = true
	case 2:
		ctx = network.WithForceDirectDial(ctx, "")
		h.cov["opt.force_direct.reason_empty"] = true
	}
	return ctx
}

func (h *c12H) opStart(dial, allow bool, force int, nodial bool) {
	h.lastOp = 4
	h.line = append(h.line, 4, c12b(dial), c12b(allow), int64(force), c12b(nodial))
	h.launch(dial, allow, force, nodial)
	h.finish()
}

// opRace (wire op 15): a call starts, and a non-limited connection arrives while it runs, at
// the earliest moment after the call has looked at the connection list in waitForDirectConn
// (see c12Lever); if the call never gets there, once it has blocked.  The lever is armed only
// when exactly one connection is usable and that one is limited.
func (h *c12H) opRace(dial, allow bool, force int, nodial, proxy bool) {
	h.lastOp = 1
	h.line = append(h.line, 15, c12b(dial), c12b(allow), int64(force), c12b(nodial), c12b(proxy))
	var t transport.Transport = h.direct
	raddr := ma.StringCast(fmt.Sprintf("/ip4/5.6.7.8/tcp/%d", 6000+len(h.conns)))
	if proxy {
		t = h.relay
		raddr = ma.StringCast(fmt.Sprintf("/ip4/9.9.9.9/tcp/%d/p2p/%s/p2p-circuit", 6000+len(h.conns), c12RelayID))
	}
	var usable []*c12Conn
	for _, nc := range h.s.ConnsToPeer(h.p) {
		if fc, ok := nc.(*Conn).conn.(*c12Conn); ok && !fc.closed.Load() {
			usable = append(usable, fc)
		}
	}
	nc := h.newConn(false, t, raddr)
	lv := &c12Lever{h: h, direct: nc, addDone: make(chan struct{})}
	if len(usable) == 1 && usable[0].lim {
		lv.connID = usable[0].id
		lv.lc = h.swarmConn(usable[0].id)
		lv.armed.Store(lv.lc != nil)
	}
	h.lever.Store(lv)
	h.launch(dial, allow, force, nodial)
	synctest.Wait()
	if lv.fired.Load() {
		<-lv.addDone
		h.cov["race.conn_added_between_look_and_registration"] = true
		switch lv.how.Load() {
		case 1:
			h.cov["race.addconn_notified_before_the_call_registered"] = true
		case 2:
			h.cov["race.addconn_waited_for_the_call_to_register"] = true
		default:
			h.cov["race.lever_gave_up"] = true
		}
	} else {
		lv.armed.Store(false)
		h.cov["race.call_never_looked_conn_added_afterwards"] = true
		if _, err := h.s.addConn(nc, network.DirInbound); err != nil {
			h.cov["addconn.error"] = true
		}
	}
	h.lever.Store(nil)
	h.finish()
}

func (h *c12H) launch(dial, allow bool, force int, nodial bool) {
	tid := len(h.calls)
	ctx := context.WithValue(context.Background(), c12TidKey{}, tid)
	if allow {
		ctx = network.WithAllowLimitedConn(ctx, "c12")
	}
	ctx = h.c12Force(ctx, force)
	if nodial {
		ctx = network.WithNoDial(ctx, "c12")
	}
	ctx, cancel := context.WithCancel(ctx)
	c := &c12Call{tid: tid, dial: dial, cancel: cancel,
		opts: c12b(dial) + 2*c12b(allow) + 4*c12b(force != 0) + 8*c12b(nodial)}
	h.mu.Lock()
	h.calls = append(h.calls, c)
	h.mu.Unlock()
	c.mu.Lock()
	go func() {
		c.gid = c12GoroutineID()
		c.mu.Unlock()
		var sc *Conn
		var err error
		if dial {
			var nc network.Conn
			nc, err = h.s.DialPeer(ctx, h.p)
			if err == nil {
				sc = nc.(*Conn)
			}
		} else {
			var str network.Stream
			str, err = h.s.NewStream(ctx, h.p)
			if err == nil {
				sc = str.Conn().(*Conn)
			}
		}
		c.mu.Lock()
		defer c.mu.Unlock()
		c.done = true
		if err != nil {
			c.errc = c12ErrCode(err)
			return
		}
		c.okConn = sc.conn.(*c12Conn).id
	}()
}

func (h *c12H) opCtx(tid int) {
	h.lastOp = 5
	h.line = append(h.line, 5, int64(tid))
	if tid < len(h.calls) {
		h.calls[tid].cancel()
	}
	h.finish()
}

func (h *c12H) opOpenRes(tid int, ok bool) {
	h.lastOp = 6
	h.line = append(h.line, 6, int64(tid), c12b(ok))
	h.mu.Lock()
	pk := h.opens[tid]
	h.mu.Unlock()
	if pk != nil {
		pk.cmd <- c12OpenCmd{ok: ok}
	}
	h.finish()
}

func (h *c12H) opAddrs(codes []int64) {
	h.lastOp = 7
	h.line = append(h.line, 7, int64(len(codes)))
	h.line = append(h.line, codes...)
	h.s.peers.ClearAddrs(h.p)
	addrs := make([]ma.Multiaddr, 0, len(codes))
	for _, c := range codes {
		addrs = append(addrs, h.addr(c))
	}
	h.s.peers.AddAddrs(h.p, addrs, peerstore.PermanentAddrTTL)
	h.finish()
}

func (h *c12H) opDialRes(code int64, ok, lim bool) {
	h.lastOp = 8
	h.line = append(h.line, 8, code, c12b(ok), c12b(lim))
	h.mu.Lock()
	pk := h.dials[code]
	h.mu.Unlock()
	if pk != nil {
		pk.cmd <- c12DialCmd{ok: ok, lim: lim}
	}
	h.finish()
}

func (h *c12H) opExpire() {
	h.lastOp = 9
	h.line = append(h.line, 9)
	time.Sleep(network.DialPeerTimeout)
	h.finish()
}

// finish: let everything run until it blocks; the dial backoff has its own
// check (C05) and is kept out of the picture through its public API
func (h *c12H) finish() {
	synctest.Wait()
	h.rememberConns()
	h.s.backf.Clear(h.p)
	h.observe()
}

// ---- coverage of the code's decision points, judged from what was observed ------------------
func (h *c12H) coverStep() {
	h.nsteps++
	nwait := 0
	for i, st := range h.cur {
		var pv [2]int64
		if i < len(h.prev) {
			pv = h.prev[i]
		}
		if st[0] == 1 {
			nwait++
		}
		switch {
		case pv[0] == 1 && (st[0] == 2 || st[0] == 4) && (h.lastOp == 1 || h.lastOp == 8):
			h.cov["wait.released_by_direct_conn"] = true
		case pv[0] == 1 && st[0] == 5 && st[1] == 3 && h.lastOp == 5:
			h.cov["wait.cancelled"] = true
		case pv[0] == 1 && st[0] == 5 && st[1] == 3 && h.lastOp == 9:
			h.cov["wait.timed_out"] = true
		case pv[0] == 1 && st[0] == 5 && st[1] == 2:
			h.cov["wait.woken_but_only_limited_left"] = true
		case pv[0] == 1 && st[0] == 5 && st[1] == 1:
			h.cov["wait.woken_but_no_conn_left"] = true
		case pv[0] == 2 && st[0] == 1:
			h.cov["open.failed_conn_closed_then_waits_again"] = true
		case pv[0] == 2 && st[0] == 3:
			h.cov["open.failed_conn_closed_then_dials"] = true
		case pv[0] == 2 && st[0] == 5 && st[1] == 4:
			h.cov["open.failed_conn_open"] = true
		case pv[0] == 2 && st[0] == 5 && st[1] == 8:
			h.cov["newstream.max_dial_attempts"] = true
		case pv[0] == 0 && st[0] == 5 && st[1] == 2:
			h.cov["newstream.refused_limited_at_conn"] = true
		case pv[0] == 0 && st[0] == 5 && st[1] == 1:
			h.cov["newstream.nodial_noconn"] = true
		case pv[0] == 3 && st[0] == 1:
			h.cov["dial.got_limited_conn_then_waits"] = true
		case pv[0] == 3 && st[0] == 5 && st[1] == 7:
			h.cov["dial.all_failed"] = true
		case pv[0] == 3 && st[0] == 5 && st[1] == 3:
			h.cov["dial.ctx_done"] = true
		case pv[0] == 0 && st[0] == 5 && (st[1] == 5 || st[1] == 6):
			h.cov["dial.no_good_addrs"] = true
		}
		if st[0] == 6 || st[0] == 7 || (st[0] == 5 && st[1] >= 20) {
			h.cov["UNEXPECTED.status"] = true
		}
	}
	if nwait >= 2 {
		h.cov["wait.two_or_more_waiters"] = true
	}
	if nwait >= 3 {
		h.cov["wait.three_or_more_waiters"] = true
	}
}

// ---- generator -----------------------------------------------------------------------------------
type c12Gen struct {
	h      *c12H
	r      *verifh.Rand
	reaped map[int]bool
	nodial map[int]bool
	addrs  []int64
	// no class-2 (no transport) addresses: the first block of cases
	noUndialable bool
}

func (g *c12Gen) pickConnClass() (lim, proxy bool) {
	switch k := g.r.Intn(20); {
	case k < 8:
		return true, true // relayed, limited
	case k < 16:
		return false, false // direct
	case k < 19:
		return false, true // relayed through an unlimited relay
	default:
		return true, false
	}
}

// force-direct: with a reason or with the empty reason string, half and half
func (g *c12Gen) force(on bool) int {
	if !on {
		return 0
	}
	return 1 + g.r.Intn(2)
}

func (g *c12Gen) startCall(dial bool, opts int) {
	g.nodial[len(g.h.calls)] = opts&4 != 0 && !dial
	g.h.opStart(dial, opts&1 != 0, g.force(opts&2 != 0), opts&4 != 0)
}

// a call during which a non-limited connection arrives (wire op 15)
func (g *c12Gen) raceCall(dial bool, opts int, proxy bool) {
	g.nodial[len(g.h.calls)] = opts&4 != 0 && !dial
	g.h.opRace(dial, opts&1 != 0, g.force(opts&2 != 0), opts&4 != 0, proxy)
}

func (g *c12Gen) randAddrs() {
	n := g.r.Intn(5)
	var codes []int64
	for i := 0; i < n; i++ {
		cls := int64(0)
		switch k := g.r.Intn(12); {
		case k < 4:
			cls = 0
		case k < 7:
			cls = 1
		case k < 9:
			cls = 2
			if g.noUndialable {
				cls = 3
			}
		default:
			cls = 3 // /dnsaddr, resolving to a direct address, a relay address or both
		}
		id := int64(g.r.Intn(5))
		if cls == 0 && g.r.Chance(1, 4) {
			id = 5 + int64(g.r.Intn(2)) // given as a /dns4 name
		}
		codes = append(codes, 4*id+cls)
	}
	g.addrs = codes
	g.h.opAddrs(codes)
}

// one random, mostly applicable, stimulus
func (g *c12Gen) randomOp() {
	h, r := g.h, g.r
	var openTids []int
	var dialCodes []int64
	h.mu.Lock()
	for tid := range h.opens {
		openTids = append(openTids, tid)
	}
	for code := range h.dials {
		dialCodes = append(dialCodes, code)
	}
	h.mu.Unlock()
	sort.Ints(openTids)
	sort.Slice(dialCodes, func(i, j int) bool { return dialCodes[i] < dialCodes[j] })
	// calls whose context may be cancelled: not finished, and not parked in
	// OpenStream unless they are no-dial (a cancelled call that goes on to dial
	// races in dialSync's select between sending the request and ctx.Done())
	var live []int
	for i, st := range h.cur {
		if st[0] != 4 && st[0] != 5 && st[0] != 6 && (st[0] != 2 || g.nodial[i]) {
			live = append(live, i)
		}
	}
	for try := 0; try < 20; try++ {
		switch k := r.Intn(100); {
		case k < 14:
			lim, proxy := g.pickConnClass()
			if r.Chance(1, 6) {
				h.opAddBlocked(lim, proxy)
				return
			}
			h.opAdd(lim, proxy, r.Chance(1, 8))
			return
		case k < 22:
			if len(h.conns) == 0 {
				continue
			}
			h.opMark(r.Intn(len(h.conns)))
			return
		case k < 30:
			if len(h.conns) == 0 {
				continue
			}
			c := r.Intn(len(h.conns))
			if g.reaped[c] && !r.Chance(1, 5) {
				continue
			}
			g.reaped[c] = true
			h.opReap(c)
			return
		case k < 50:
			if len(h.calls) >= 6 {
				continue
			}
			if r.Chance(1, 5) {
				g.nodial[len(h.calls)] = false
				h.opConnect(r.Bool(), g.force(r.Bool()), r.Chance(1, 4))
				return
			}
			if r.Chance(1, 6) {
				if r.Chance(3, 4) {
					g.raceCall(false, r.Intn(4)<<1, r.Chance(1, 5))
				} else {
					g.raceCall(r.Chance(1, 3), r.Intn(8), r.Chance(1, 5))
				}
				return
			}
			g.startCall(r.Chance(1, 3), r.Intn(8))
			return
		case k < 58:
			if len(live) == 0 {
				if len(h.calls) > 0 && r.Chance(1, 4) {
					if tid := r.Intn(len(h.calls)); h.cur[tid][0] >= 4 {
						h.opCtx(tid) // a call that has already returned
						return
					}
				}
				continue
			}
			h.opCtx(live[r.Intn(len(live))])
			return
		case k < 76:
			if len(openTids) == 0 {
				if len(h.calls) > 0 && r.Chance(1, 10) {
					h.opOpenRes(r.Intn(len(h.calls)), r.Bool())
					return
				}
				continue
			}
			h.opOpenRes(openTids[r.Intn(len(openTids))], r.Chance(2, 3))
			return
		case k < 78:
			g.randAddrs()
			return
		case k < 80:
			h.mu.Lock()
			var ids []int
			for id := range h.blocked {
				ids = append(ids, id)
			}
			h.mu.Unlock()
			if len(ids) == 0 {
				continue
			}
			sort.Ints(ids)
			h.opUnblock(ids[r.Intn(len(ids))])
			return
		case k < 83:
			if len(h.conns) == 0 || len(h.calls) >= 7 {
				continue
			}
			g.nodial[len(h.calls)] = true
			h.opStartOn(r.Intn(len(h.conns)), r.Bool())
			return
		case k < 96:
			if len(dialCodes) == 0 {
				if r.Chance(1, 10) {
					h.opDialRes(int64(r.Intn(20)), r.Bool(), r.Bool())
					return
				}
				continue
			}
			code := dialCodes[r.Intn(len(dialCodes))]
			h.opDialRes(code, r.Chance(1, 2), code%4 == 1 && r.Chance(3, 4))
			return
		default:
			h.opExpire()
			return
		}
	}
	h.opExpire()
}

// structured openings aimed at the decision points, followed by random stimuli
func (g *c12Gen) opening(kind int) {
	h, r := g.h, g.r
	noAllow := func() int { return r.Intn(4) << 1 } // allow = 0, force/nodial random
	switch kind {
	case 1, 2, 3, 6: // a limited connection and 1-4 calls that must wait for a direct one
		h.opAdd(true, true, false)
		k := 1 + r.Intn(4)
		for i := 0; i < k; i++ {
			g.startCall(false, noAllow())
			if r.Chance(1, 6) {
				g.startCall(false, 1|noAllow()) // one that allows limited conns, in between
			}
		}
		if kind == 2 || kind == 3 {
			if r.Chance(1, 2) {
				if tid := r.Intn(len(h.calls)); h.cur[tid][0] != 2 || g.nodial[tid] {
					h.opCtx(tid)
				}
			}
			h.opAdd(false, r.Chance(1, 5), false) // the direct connection appears
			d := len(h.conns) - 1
			if kind == 3 {
				// ... and disappears while the woken calls are opening their stream
				if r.Bool() {
					h.opMark(d)
				} else {
					g.reaped[d] = true
					h.opReap(d)
				}
				for tid := 0; tid < len(h.calls); tid++ {
					if r.Chance(3, 4) {
						h.opOpenRes(tid, r.Chance(1, 4))
					}
				}
			}
		}
		if kind == 6 {
			h.opAdd(false, false, true) // a direct connection that is gone before anybody can use it
		}
	case 12:
		// a limited connection, 0-2 calls already waiting, and a call during which the direct
		// connection arrives: between its look at the connection list and its registration
		h.opAdd(true, true, false)
		if r.Chance(1, 4) {
			h.opAdd(true, true, true) // a second one, already closed
		}
		k := r.Intn(3)
		for j := 0; j < k; j++ {
			g.startCall(false, noAllow())
		}
		g.raceCall(false, noAllow(), r.Chance(1, 5))
		if r.Chance(1, 2) {
			for tid := 0; tid <= k; tid++ {
				if r.Chance(2, 3) {
					h.opOpenRes(tid, r.Chance(3, 4))
				}
			}
		}
		if r.Chance(1, 3) {
			g.raceCall(false, noAllow(), false) // once more, now with a direct connection around
		}
	case 11:
		// waiters with a deadline; a direct connection is admitted in time but a Connected
		// handler blocks until after the deadline
		h.opAdd(true, true, false)
		k := 1 + r.Intn(3)
		for j := 0; j < k; j++ {
			g.startCall(false, noAllow())
		}
		h.opAddBlocked(false, r.Chance(1, 5))
		d := len(h.conns) - 1
		if r.Chance(2, 3) {
			h.opExpire()
		}
		if r.Chance(2, 3) {
			h.opUnblock(d)
		}
		for tid := 0; tid < k; tid++ {
			if r.Chance(2, 3) {
				h.opOpenRes(tid, r.Chance(3, 4))
			}
		}
	case 9:
		// BasicHost.Connect with every option subset against none / limited only / direct / both
		switch r.Intn(4) {
		case 1:
			h.opAdd(true, true, false)
		case 2:
			h.opAdd(false, false, false)
		case 3:
			h.opAdd(true, true, false)
			h.opAdd(false, false, false)
		}
		if r.Chance(2, 3) {
			codes := []int64{4 * int64(r.Intn(3))}
			if r.Bool() {
				codes = append(codes, 4*int64(r.Intn(3))+1)
			}
			g.addrs = codes
			h.opAddrs(codes)
		}
		k := 1 + r.Intn(3)
		for j := 0; j < k; j++ {
			opts := r.Intn(8)
			h.opConnect(opts&1 != 0, g.force(opts&2 != 0), opts&4 != 0)
		}
	case 10:
		// nothing but a relay address: a NewStream without allow-limited dials the limited
		// connection itself, must then wait, and a direct connection shows up later
		codes := []int64{4*int64(r.Intn(3)) + 1}
		if r.Chance(1, 3) {
			codes = []int64{4*1 + 3} // a /dnsaddr resolving to a relay address
		}
		g.addrs = codes
		h.opAddrs(codes)
		k := 1 + r.Intn(2)
		for j := 0; j < k; j++ {
			g.startCall(false, 0)
		}
		rc := codes[0]
		if rc%4 == 3 {
			rc = c12Resolve(rc)[0]
		}
		h.opDialRes(rc, true, r.Chance(5, 6))
		if r.Chance(2, 3) {
			h.opAdd(false, false, false)
			for tid := 0; tid < k; tid++ {
				h.opOpenRes(tid, true)
			}
		}
	case 7:
		// an ordinary dial creates the address dials; a relayed connection appears; callers
		// with other option sets join the pending dials; then the dials fail one by one
		var codes []int64
		nd := 1 + r.Intn(2)
		for i := 0; i < nd; i++ {
			codes = append(codes, 4*int64(i))
		}
		if r.Chance(1, 3) {
			codes = append(codes, 4*int64(r.Intn(3))+3)
		}
		g.addrs = codes
		h.opAddrs(codes)
		g.startCall(r.Chance(3, 4), r.Intn(2)) // ordinary: no force, no nodial
		h.opAdd(r.Chance(3, 4), true, false)    // the relayed (mostly limited) connection
		k := 1 + r.Intn(3)
		for i := 0; i < k; i++ {
			opts := r.Intn(4)
			if i == 0 {
				opts |= 2
			}
			g.startCall(r.Chance(3, 4), opts)
		}
		for _, code := range codes {
			if code%4 == 0 && r.Chance(4, 5) {
				h.opDialRes(code, false, false)
			}
		}
	case 8:
		// force-direct and ordinary dials over /dnsaddr addresses resolving to relay / direct addresses
		var codes []int64
		n := 1 + r.Intn(3)
		for i := 0; i < n; i++ {
			codes = append(codes, 4*int64(r.Intn(5))+3)
		}
		if r.Chance(1, 3) {
			codes = append(codes, 4*int64(r.Intn(7)))
		}
		g.addrs = codes
		h.opAddrs(codes)
		k := 1 + r.Intn(3)
		for i := 0; i < k; i++ {
			opts := r.Intn(4)
			if i == 0 || r.Chance(1, 2) {
				opts |= 2
			}
			g.startCall(r.Chance(3, 4), opts)
		}
	case 4, 5: // dials: force-direct and ordinary requests sharing one worker
		if kind == 5 {
			h.opAdd(r.Bool(), true, false) // an existing relayed connection
		}
		codes := []int64{4 * int64(r.Intn(3)), 4*int64(r.Intn(3)) + 1}
		if r.Chance(1, 3) {
			codes = append(codes, 4*int64(3+r.Intn(2))+int64(r.Intn(3)))
		}
		if r.Chance(1, 6) {
			codes = codes[1:] // relay addresses only
		}
		g.addrs = codes
		h.opAddrs(codes)
		k := 1 + r.Intn(3)
		for i := 0; i < k; i++ {
			opts := r.Intn(8) &^ 4
			if i == 0 {
				opts |= 2
			}
			g.startCall(r.Chance(2, 3), opts)
		}
	}
}

// every finished case is also appended, unbuffered, to $VERIF_OUT.live, so that
// the cases survive a crash of the implementation under test (a panic in a swarm
// goroutine cannot be recovered here)
var c12Live *os.File

func c12LiveCase(line []int64) {
	if c12Live == nil {
		f, err := os.OpenFile(os.Getenv("VERIF_OUT")+".live", os.O_CREATE|os.O_TRUNC|os.O_WRONLY, 0o644)
		if err != nil {
			return
		}
		c12Live = f
	}
	var sb strings.Builder
	for i, v := range line {
		if i > 0 {
			sb.WriteByte(' ')
		}
		sb.WriteString(strconv.FormatInt(v, 10))
	}
	sb.WriteByte('\n')
	c12Live.WriteString(sb.String())
}

func c12RunCase(t *testing.T, out *verifh.Out, script func(h *c12H)) {
	var line []int64
	var cov map[string]bool
	var nsteps int
	synctest.Test(t, func(t *testing.T) {
		h := newC12H(int64(DialAttempts))
		script(h)
		h.close()
		line, cov, nsteps = h.line, h.cov, h.nsteps
	})
	for k := range cov {
		out.Cover(k)
	}
	out.CoverN("steps", int64(nsteps))
	out.Cover("cases")
	out.Case(line)
	c12LiveCase(line)
}

func TestVerifC12Nothing(t *testing.T) {}

func TestVerifC12(t *testing.T) {
	out, err := verifh.Open()
	if err != nil {
		t.Fatal(err)
	}
	defer out.Close()
	n := 1500
	if verifh.Tier() == "thorough" {
		n = 30000
	}
	r := verifh.NewRand(verifh.Seed())
	for i := 0; i < n; i++ {
		cr := r.Fork()
		kind := cr.Intn(13)
		steps := 4 + cr.Intn(22)
		first := i < n/6
		if first {
			// first block: shared-worker dial scenarios without unroutable addresses
			kind = 7 + cr.Intn(2)
		}
		c12RunCase(t, out, func(h *c12H) {
			g := &c12Gen{h: h, r: cr, reaped: map[int]bool{}, nodial: map[int]bool{}, noUndialable: first}
			g.opening(kind)
			for j := 0; j < steps; j++ {
				g.randomOp()
			}
		})
		out.Cover(fmt.Sprintf("opening.%d", kind))
	}
}

// c12ParseOps extracts the stimuli of a recorded case (skipping the observations)
func c12ParseOps(in []int64) (ops [][]int64) {
	i := 2
	for i < len(in) {
		var n int
		switch in[i] {
		case 1, 10, 13:
			n = 3
		case 2, 3, 5, 14:
			n = 2
		case 4:
			n = 5
		case 12:
			n = 4
		case 15:
			n = 6
		case 6, 11:
			n = 3
		case 7:
			n = 2 + int(in[i+1])
		case 8:
			n = 4
		case 9:
			n = 1
		default:
			return
		}
		if i+n > len(in) {
			return
		}
		ops = append(ops, in[i:i+n])
		i += n
		// OBS = nw key cn m (flags)^m n (st arg opts)^n k (a f)^k
		if i+4 > len(in) {
			return
		}
		i += 4 + int(in[i+3])
		if i >= len(in) {
			return
		}
		i += 1 + 3*int(in[i])
		if i >= len(in) {
			return
		}
		i += 1 + 2*int(in[i])
	}
	return
}

func c12Replay(h *c12H, ops [][]int64) {
	for _, o := range ops {
		switch o[0] {
		case 1:
			h.opAdd(o[1] != 0, o[2] != 0, false)
		case 10:
			h.opAdd(o[1] != 0, o[2] != 0, true)
		case 2:
			h.opMark(int(o[1]))
		case 3:
			h.opReap(int(o[1]))
		case 4:
			h.opStart(o[1] != 0, o[2] != 0, int(o[3]), o[4] != 0)
		case 15:
			h.opRace(o[1] != 0, o[2] != 0, int(o[3]), o[4] != 0, o[5] != 0)
		case 5:
			h.opCtx(int(o[1]))
		case 6:
			h.opOpenRes(int(o[1]), o[2] != 0)
		case 7:
			h.opAddrs(append([]int64{}, o[2:]...))
		case 8:
			h.opDialRes(o[1], o[2] != 0, o[3] != 0)
		case 9:
			h.opExpire()
		case 11:
			h.opStartOn(int(o[1]), o[2] != 0)
		case 12:
			h.opConnect(o[1] != 0, int(o[2]), o[3] != 0)
		case 13:
			h.opAddBlocked(o[1] != 0, o[2] != 0)
		case 14:
			h.opUnblock(int(o[1]))
		}
	}
}

// TestVerifC12Replay re-executes the stimuli of one recorded case
// (VERIF_REPLAY_CASE) and writes the case with what is observed now.
func TestVerifC12Replay(t *testing.T) {
	out, err := verifh.Open()
	if err != nil {
		t.Fatal(err)
	}
	defer out.Close()
	in := verifh.ReplayCase()
	if len(in) < 2 || in[0] != 0 {
		t.Fatal("no swarm case")
	}
	ops := c12ParseOps(in)
	c12RunCase(t, out, func(h *c12H) { c12Replay(h, ops) })
}


// the swarm's Conn of scripted connection id (remembered once seen, so that a
// direct Conn.NewStream can also be tried on a connection that is gone)
func (h *c12H) rememberConns() {
	h.s.conns.RLock()
	defer h.s.conns.RUnlock()
	for _, sc := range h.s.conns.m[h.p] {
		if fc, ok := sc.conn.(*c12Conn); ok {
			h.sconns[fc.id] = sc
		}
	}
}

// opStartOn: Conn.NewStream called directly on connection id
func (h *c12H) opStartOn(id int, allow bool) {
	h.lastOp = 11
	h.line = append(h.line, 11, int64(id), c12b(allow))
	sc := h.sconns[id]
	if sc == nil {
		h.finish()
		return
	}
	tid := len(h.calls)
	ctx := context.WithValue(context.Background(), c12TidKey{}, tid)
	if allow {
		ctx = network.WithAllowLimitedConn(ctx, "c12")
	}
	ctx, cancel := context.WithCancel(ctx)
	c := &c12Call{tid: tid, cancel: cancel, opts: 2*c12b(allow) + 8 + 16}
	h.mu.Lock()
	h.calls = append(h.calls, c)
	h.mu.Unlock()
	c.mu.Lock()
	go func() {
		c.gid = c12GoroutineID()
		c.mu.Unlock()
		str, err := sc.NewStream(ctx)
		c.mu.Lock()
		defer c.mu.Unlock()
		c.done = true
		if err != nil {
			c.errc = c12ErrCode(err)
			return
		}
		c.okConn = str.Conn().(*Conn).conn.(*c12Conn).id
	}()
	h.finish()
}

// opConnect: BasicHost.Connect(ctx, {ID: p}) with the given context options
func (h *c12H) opConnect(allow bool, force int, nodial bool) {
	h.lastOp = 12
	h.line = append(h.line, 12, c12b(allow), int64(force), c12b(nodial))
	tid := len(h.calls)
	ctx := context.WithValue(context.Background(), c12TidKey{}, tid)
	if allow {
		ctx = network.WithAllowLimitedConn(ctx, "c12")
	}
	ctx = h.c12Force(ctx, force)
	if nodial {
		ctx = network.WithNoDial(ctx, "c12")
	}
	ctx, cancel := context.WithCancel(ctx)
	c := &c12Call{tid: tid, dial: true, connect: true, cancel: cancel,
		opts: 1 + 2*c12b(allow) + 4*c12b(force != 0) + 8*c12b(nodial) + 16}
	h.mu.Lock()
	h.calls = append(h.calls, c)
	h.mu.Unlock()
	c.mu.Lock()
	go func() {
		c.gid = c12GoroutineID()
		c.mu.Unlock()
		err := h.host.Connect(ctx, peer.AddrInfo{ID: h.p})
		c.mu.Lock()
		defer c.mu.Unlock()
		c.done = true
		if err != nil {
			c.errc = c12ErrCode(err)
		}
	}()
	h.finish()
}

// a Notifiee whose Connected handler blocks for the connections the script says
type c12Notifiee struct{ h *c12H }

func (n *c12Notifiee) Listen(network.Network, ma.Multiaddr)      {}
func (n *c12Notifiee) ListenClose(network.Network, ma.Multiaddr) {}
func (n *c12Notifiee) Disconnected(network.Network, network.Conn) {}
func (n *c12Notifiee) Connected(_ network.Network, c network.Conn) {
	sc, ok := c.(*Conn)
	if !ok {
		return
	}
	fc, ok := sc.conn.(*c12Conn)
	if !ok {
		return
	}
	if lv := n.h.lever.Load(); lv != nil && lv.direct == fc {
		lv.connected.Store(true)
	}
	n.h.mu.Lock()
	ch := n.h.blocked[fc.id]
	n.h.mu.Unlock()
	if ch != nil {
		<-ch
	}
}

// opAddBlocked: an inbound connection arrives while a Notifiee.Connected handler
// blocks for it: addConn does not return until opUnblock
func (h *c12H) opAddBlocked(lim, proxy bool) {
	var t transport.Transport = h.direct
	raddr := ma.StringCast(fmt.Sprintf("/ip4/5.6.7.8/tcp/%d", 6000+len(h.conns)))
	if proxy {
		t = h.relay
		raddr = ma.StringCast(fmt.Sprintf("/ip4/9.9.9.9/tcp/%d/p2p/%s/p2p-circuit", 6000+len(h.conns), c12RelayID))
	}
	c := h.newConn(lim, t, raddr)
	h.mu.Lock()
	h.blocked[c.id] = make(chan struct{})
	h.mu.Unlock()
	h.lastOp = 1
	h.line = append(h.line, 13, c12b(lim), c12b(proxy))
	go func() {
		if _, err := h.s.addConn(c, network.DirInbound); err != nil {
			h.mu.Lock()
			h.cov["addconn.error"] = true
			h.mu.Unlock()
		}
	}()
	h.mu.Lock()
	h.cov["addconn.connected_handler_blocked"] = true
	h.mu.Unlock()
	h.finish()
}

// opUnblock: the blocked Connected handler of connection id returns
func (h *c12H) opUnblock(id int) {
	h.lastOp = 14
	h.line = append(h.line, 14, int64(id))
	h.mu.Lock()
	if ch := h.blocked[id]; ch != nil {
		close(ch)
		delete(h.blocked, id)
	}
	h.mu.Unlock()
	h.finish()
}

//go:build verif

package swarm

// C05 correspondence harness, part 1: the dial limiter (injected with
// `go test -overlay`; not part of /repo).  Drives the real dialLimiter with a
// scripted dialFunc that parks until the harness releases it; the harness
// chooses completion order and cancellations, and after every stimulus (and
// synctest.Wait, so that every goroutine is parked) reads fdConsuming,
// activePerPeer, the queues and which dialFunc invocations are in progress.
// Wire format: /verif/coq/c05/SpecLimiter.v.

import (
	"context"
	"errors"
	"fmt"
	"os"
	"sort"
	"sync"
	"testing"
	"testing/synctest"
	"time"

	"github.com/libp2p/go-libp2p/core/peer"
	"github.com/libp2p/go-libp2p/core/transport"
	"github.com/libp2p/go-libp2p/internal/verifh"
	ma "github.com/multiformats/go-multiaddr"
)

const c05RelayID = "QmcgpsyWgH8Y8ajJz1Cu72KnS5uo2Aa2LpzU7kinSupNKC"

// address templates for a job: kind 0 TCP (FD), 1 QUIC (no FD), 2 relay over
// TCP (no FD: counted when the relay server itself is dialed), 3 websocket (FD),
// 4 webtransport (no FD), 5 relay over QUIC (no FD)
var c05AddrKinds = []string{
	"/ip4/1.2.3.4/tcp/%d",
	"/ip4/1.2.3.4/udp/%d/quic-v1",
	"/ip4/1.2.3.4/tcp/%d/p2p/" + c05RelayID + "/p2p-circuit",
	"/ip4/10.0.0.7/tcp/%d/ws",
	"/ip6/2600::1/udp/%d/quic-v1/webtransport",
	"/ip4/1.2.3.4/udp/%d/quic-v1/p2p/" + c05RelayID + "/p2p-circuit",
}

type c05Job struct {
	id, peer, grp int64
	fd            int64
	addr          ma.Multiaddr
	release       chan struct{}
	released      bool
	// hold: the job has a response channel of its own, unbuffered and not drained.  silent
	// (set by the harness before it closes release): the return of dialFunc is not the end
	// of the attempt - the result is being delivered - so the invocation stays counted as in
	// progress until the harness sees the context of the job cancelled (heldCancel).
	hold, silent bool
	resp         chan transport.DialUpdate
}

type c05Lim struct {
	dl       *dialLimiter
	mu       sync.Mutex
	inflight map[int64]int // jid -> dialFunc invocations in progress
	everRun  map[int64]int
	byAddr   map[string]*c05Job
	jobs     map[int64]*c05Job
	peers    map[int64]peer.ID
	peerNo   map[peer.ID]int64
	ctxs     map[int64]context.Context
	cancels  map[int64]context.CancelFunc
	resp     chan transport.DialUpdate
	line     []int64
	holdNext bool            // the next add makes a hold job
	held     map[int64]int64 // context id -> the hold job of that context whose result is being delivered
	sawHeldCancel bool
	// coverage of this case
	sawFdWait, sawPeerWait, sawCancelledHead, sawWitnessShape, sawAddCancelled bool
}

func c05PeerID(n int64) peer.ID { return peer.ID(fmt.Sprintf("c05-peer-%03d", n)) }

func newC05Lim(fdl, ppl int64) *c05Lim {
	c := &c05Lim{
		inflight: map[int64]int{}, everRun: map[int64]int{}, byAddr: map[string]*c05Job{},
		jobs: map[int64]*c05Job{}, peers: map[int64]peer.ID{}, peerNo: map[peer.ID]int64{},
		ctxs: map[int64]context.Context{}, cancels: map[int64]context.CancelFunc{},
		resp: make(chan transport.DialUpdate, 4096),
		held: map[int64]int64{},
		line: []int64{1, fdl, ppl},
	}
	c.dl = newDialLimiterWithParams(c.dialFunc, int(fdl), int(ppl))
	return c
}

func (c *c05Lim) dialFunc(_ context.Context, _ peer.ID, a ma.Multiaddr, _ chan<- transport.DialUpdate) (transport.CapableConn, error) {
	c.mu.Lock()
	j := c.byAddr[string(a.Bytes())]
	c.inflight[j.id]++
	c.everRun[j.id]++
	c.mu.Unlock()
	<-j.release
	if !j.silent {
		c.mu.Lock()
		c.inflight[j.id]--
		c.mu.Unlock()
	}
	return nil, errors.New("c05 scripted failure")
}

func (c *c05Lim) ctx(g int64) context.Context {
	if x, ok := c.ctxs[g]; ok {
		return x
	}
	x, cancel := context.WithCancel(context.Background())
	c.ctxs[g], c.cancels[g] = x, cancel
	return x
}

// observe appends the observation block; call after synctest.Wait.
func (c *c05Lim) observe() {
	dl := c.dl
	dl.lk.Lock()
	fd := int64(dl.fdConsuming)
	nwfd := int64(len(dl.waitingOnFd))
	type kv struct{ k, v int64 }
	var act, wp []kv
	for p, n := range dl.activePerPeer {
		act = append(act, kv{c.peerNo[p], int64(n)})
	}
	for p, l := range dl.waitingOnPeerLimit {
		wp = append(wp, kv{c.peerNo[p], int64(len(l))})
	}
	if nwfd > 0 {
		c.sawFdWait = true
	}
	if len(wp) > 0 {
		c.sawPeerWait = true
	}
	dl.lk.Unlock()
	sort.Slice(act, func(i, j int) bool { return act[i].k < act[j].k })
	sort.Slice(wp, func(i, j int) bool { return wp[i].k < wp[j].k })
	c.line = append(c.line, fd, nwfd, 0, int64(len(act)))
	for _, e := range act {
		c.line = append(c.line, e.k, e.v)
	}
	c.line = append(c.line, int64(len(wp)))
	for _, e := range wp {
		c.line = append(c.line, e.k, e.v)
	}
	c.mu.Lock()
	var ids []int64
	for id, n := range c.inflight {
		for k := 0; k < n; k++ {
			ids = append(ids, id)
		}
	}
	c.mu.Unlock()
	sort.Slice(ids, func(i, j int) bool { return ids[i] < ids[j] })
	c.line = append(c.line, int64(len(ids)))
	for _, id := range ids {
		j := c.jobs[id]
		c.line = append(c.line, j.id, j.peer, j.fd, j.grp)
	}
}

func (c *c05Lim) add(id, p, kind, g int64) {
	if _, ok := c.peers[p]; !ok {
		c.peers[p] = c05PeerID(p)
		c.peerNo[c.peers[p]] = p
	}
	a := ma.StringCast(fmt.Sprintf(c05AddrKinds[kind], 2000+id))
	j := &c05Job{id: id, peer: p, grp: g, addr: a, release: make(chan struct{}), resp: c.resp}
	if c.holdNext {
		c.holdNext = false
		j.hold, j.resp = true, make(chan transport.DialUpdate)
	}
	if c.dl.shouldConsumeFd(a) {
		j.fd = 1
	}
	c.jobs[id] = j
	c.byAddr[string(a.Bytes())] = j
	x := c.ctx(g)
	if x.Err() != nil {
		c.sawAddCancelled = true
	}
	c.dl.AddDialJob(&dialJob{addr: a, peer: c.peers[p], ctx: x, resp: j.resp, timeout: time.Hour})
	synctest.Wait()
	c.line = append(c.line, 1, id, p, j.fd, g)
	c.observe()
}

func (c *c05Lim) cancel(g int64) {
	c.ctx(g)
	if _, ok := c.held[g]; ok {
		c.heldCancel(g)
		return
	}
	c.cancels[g]()
	synctest.Wait()
	c.line = append(c.line, 2, g)
	c.observe()
}

func (c *c05Lim) clear(p int64) {
	if _, ok := c.peers[p]; !ok {
		c.peers[p] = c05PeerID(p)
		c.peerNo[c.peers[p]] = p
	}
	c.dl.clearAllPeerDials(c.peers[p])
	synctest.Wait()
	c.line = append(c.line, 3, p)
	c.observe()
}

// The dialFunc of a hold job returns while the context of the job is live: nobody receives
// from the job's response channel, so the executeDial goroutine parks in the delivery of the
// result, still holding its tokens.  Nothing is recorded (wire stimulus 5 is recorded when the
// context is cancelled); at most one such job per context at a time.
func (c *c05Lim) silentRelease(id int64) bool {
	j := c.jobs[id]
	if j == nil || !j.hold || j.released || c.ctx(j.grp).Err() != nil {
		return false
	}
	if _, ok := c.held[j.grp]; ok {
		return false
	}
	c.mu.Lock()
	running := c.inflight[id] > 0
	c.mu.Unlock()
	if !running {
		return false
	}
	j.silent, j.released = true, true
	c.held[j.grp] = id
	close(j.release)
	synctest.Wait()
	return true
}

// wire stimulus 5: the context of a job whose result is being delivered is cancelled
func (c *c05Lim) heldCancel(g int64) {
	id := c.held[g]
	delete(c.held, g)
	synctest.Wait()
	c.line = append(c.line, 5, id, g)
	c.observe() // the goroutine is parked in the delivery: the attempt is in progress
	c.cancels[g]()
	synctest.Wait()
	// the result was not delivered and every caller of the context has given up: the attempt is over
	c.mu.Lock()
	c.inflight[id]--
	c.mu.Unlock()
	c.observe()
	c.sawHeldCancel = true
}

func (c *c05Lim) releaseJob(id int64) {
	j := c.jobs[id]
	if j == nil || j.released {
		return
	}
	if j.hold && c.ctx(j.grp).Err() == nil {
		// a plain return would leave the goroutine parked in the delivery for good
		c.silentRelease(id)
		return
	}
	// coverage: the shape of the repaired defect
	dl := c.dl
	dl.lk.Lock()
	if len(dl.waitingOnFd) > 0 && dl.waitingOnFd[0].cancelled() && j.fd == 1 {
		c.sawCancelledHead = true
		if len(dl.waitingOnFd) > 1 && len(dl.waitingOnPeerLimit[dl.waitingOnFd[0].peer]) > 0 {
			c.sawWitnessShape = true
		}
	}
	dl.lk.Unlock()
	j.released = true
	close(j.release)
	synctest.Wait()
	c.line = append(c.line, 4, id)
	c.observe()
}

func (c *c05Lim) inflightIDs() []int64 {
	c.mu.Lock()
	defer c.mu.Unlock()
	var ids []int64
	for id, n := range c.inflight {
		if n > 0 {
			ids = append(ids, id)
		}
	}
	sort.Slice(ids, func(i, j int) bool { return ids[i] < ids[j] })
	return ids
}

// finish: every caller gives up (all contexts cancelled), then the harness
// releases whatever is in flight until nothing is.  Every step is a recorded
// stimulus; the last observation is the one the residue clause is judged on.
func (c *c05Lim) finish(r *verifh.Rand) {
	var hs []int64
	for g := range c.held {
		hs = append(hs, g)
	}
	sort.Slice(hs, func(i, j int) bool { return hs[i] < hs[j] })
	for _, g := range hs {
		c.heldCancel(g)
	}
	var gs []int64
	for g, x := range c.ctxs {
		if x.Err() == nil {
			gs = append(gs, g)
		}
	}
	sort.Slice(gs, func(i, j int) bool { return gs[i] < gs[j] })
	for _, g := range gs {
		c.cancel(g)
	}
	for k := 0; k < 100000; k++ {
		ids := c.inflightIDs()
		if len(ids) == 0 {
			break
		}
		pick := ids[0]
		if r != nil {
			pick = ids[r.Intn(len(ids))]
		}
		c.releaseJob(pick)
	}
	// make sure no goroutine stays parked in the bubble whatever happened
	c.unpark()
}

func (c *c05Lim) unpark() {
	for _, j := range c.jobs {
		if !j.released {
			j.released = true
			close(j.release)
		}
	}
	synctest.Wait()
	for _, j := range c.jobs {
		if j.hold {
			select {
			case <-j.resp:
			default:
			}
		}
	}
	synctest.Wait()
}

func (c *c05Lim) cover(out *verifh.Out) {
	out.Cover("limiter.cases")
	if c.sawFdWait {
		out.Cover("limiter.cases_with_fd_waiter")
	}
	if c.sawPeerWait {
		out.Cover("limiter.cases_with_peer_waiter")
	}
	if c.sawCancelledHead {
		out.Cover("limiter.release_with_cancelled_fd_waiter_at_head")
	}
	if c.sawWitnessShape {
		out.Cover("limiter.release_in_repaired_defect_shape")
	}
	if c.sawAddCancelled {
		out.Cover("limiter.add_with_cancelled_context")
	}
	if c.sawHeldCancel {
		out.Cover("limiter.cancel_while_a_finished_attempt_is_delivering_its_result")
	}
}

// An attempt finishes while nobody receives its result, then the last caller gives up: the
// result is dropped and the tokens of the attempt go to the jobs that wait for them.
// fdLimit 1, perPeerLimit 1; `between` more stimuli between the return of dialFunc and the
// cancellation.
func c05LimHeldResult(out *verifh.Out, kind int64, between int) {
	c := newC05Lim(1, 1)
	c.holdNext = true
	c.add(1, 1, kind, 1) // runs; its result will find no receiver
	c.add(2, 1, 1, 2)    // same peer: waits on the peer limit
	c.add(3, 2, 0, 2)    // another peer, TCP: waits for the FD token when job 1 holds it
	c.silentRelease(1)   // dialFunc of job 1 returns; executeDial parks in the delivery
	if between >= 1 {
		c.add(4, 3, 1, 3)
	}
	if between >= 2 {
		c.releaseJob(4)
	}
	c.cancel(1) // the only caller of job 1 gives up: stimulus 5
	c.finish(nil)
	c.cover(out)
	out.Cover("limiter.corpus_result_nobody_receives_then_cancel")
	out.Case(c.line)
}

// the witness of the defect repaired by 243a477: fdLimit 1, a cancelled FD
// waiter at the head of the queue followed by a live one, and a peer-limit
// waiter of the cancelled job's peer.
func c05LimWitness(out *verifh.Out, ppl int64, dKind int64) {
	c := newC05Lim(1, ppl)
	c.add(1, 1, 0, 1) // A: runs, holds the FD token
	c.add(2, 2, 0, 2) // B: peer 2, waits for the FD token (holds peer 2's token)
	c.add(3, 3, 0, 3) // C: waits for the FD token behind B
	for k := int64(1); k < ppl; k++ {
		c.add(10+k, 2, 1, 5) // fill peer 2's cap with QUIC dials
	}
	c.add(4, 2, dKind, 4) // D: peer 2, waits on the peer limit
	c.cancel(2)           // B is cancelled while queued
	c.releaseJob(1)       // A finishes: B skipped, D takes the FD token; C must keep waiting
	c.finish(nil)
	c.cover(out)
	out.Cover("limiter.corpus_witness")
	out.Case(c.line)
}

func c05LimRandom(out *verifh.Out, r *verifh.Rand, size int) {
	fdl := int64(1 + r.Intn(3))
	ppl := int64(1 + r.Intn(3))
	if r.Chance(1, 10) {
		fdl, ppl = int64(1+r.Intn(6)), int64(1+r.Intn(8))
	}
	npeers := 1 + r.Intn(3)
	ngroups := 1 + r.Intn(4)
	c := newC05Lim(fdl, ppl)
	next := int64(1)
	cancelled := map[int64]bool{}
	// bias of this case
	fdBias := 3 + r.Intn(6) // out of 10 jobs, how many use a TCP-like address
	holdCase := r.Chance(1, 3)
	for i := 0; i < size; i++ {
		k := r.Intn(100)
		ids := c.inflightIDs()
		switch {
		case k < 45 || (len(ids) == 0 && k < 80):
			kind := int64(0)
			if r.Intn(10) >= fdBias {
				kind = int64(1 + r.Intn(5))
			}
			g := int64(1 + r.Intn(ngroups))
			if cancelled[g] && r.Chance(3, 4) {
				// mostly use live contexts
				for gg := int64(1); gg <= int64(ngroups); gg++ {
					if !cancelled[gg] {
						g = gg
					}
				}
			}
			if holdCase && r.Chance(1, 4) {
				c.holdNext = true
				out.Cover("limiter.op.add_job_whose_result_nobody_receives")
			}
			c.add(next, int64(1+r.Intn(npeers)), kind, g)
			next++
			out.Cover("limiter.op.add")
		case k < 75 && len(ids) > 0:
			c.releaseJob(ids[r.Intn(len(ids))])
			out.Cover("limiter.op.return")
		case k < 92:
			g := int64(1 + r.Intn(ngroups))
			if !cancelled[g] {
				cancelled[g] = true
				c.cancel(g)
				out.Cover("limiter.op.cancel")
			} else if r.Chance(1, 3) {
				// a fresh context replaces a dead one so the case goes on
				ngroups++
			}
		default:
			c.clear(int64(1 + r.Intn(npeers)))
			out.Cover("limiter.op.clear")
		}
	}
	c.finish(r)
	c.cover(out)
	out.Case(c.line)
}

var c05Out *verifh.Out

// A mutated implementation may leave goroutines parked for ever (synctest then
// reports a deadlock when the bubble ends) or panic in a caller; neither should
// take the cases recorded so far with it.
func c05Bubble(t *testing.T, f func()) {
	defer func() {
		if r := recover(); r != nil {
			if c05Out != nil {
				c05Out.Cover("harness.bubble_ended_with_panic_or_deadlock")
				c05Out.Comment(fmt.Sprintf("bubble panic: %v", r))
			}
		}
	}()
	synctest.Test(t, func(t *testing.T) { f() })
}

func TestVerifC05(t *testing.T) {
	out, err := verifh.Open()
	if err != nil {
		t.Fatal(err)
	}
	defer out.Close()
	c05Out = out
	thorough := verifh.Tier() == "thorough"
	r := verifh.NewRand(verifh.Seed())

	// corpus first
	for ppl := int64(1); ppl <= 3; ppl++ {
		for _, dk := range []int64{0, 1, 2} {
			c05Bubble(t, func() { c05LimWitness(out, ppl, dk) })
		}
	}
	for _, k := range []int64{0, 1} {
		for b := 0; b <= 2; b++ {
			c05Bubble(t, func() { c05LimHeldResult(out, k, b) })
		}
	}
	n := 2500
	if thorough {
		n = 60000
	}
	if os.Getenv("VERIF_C05_ONLY") == "worker" {
		n = 0
	}
	for i := 0; i < n; i++ {
		size := 8 + r.Intn(40)
		c05Bubble(t, func() { c05LimRandom(out, r, size) })
	}
	nw := 700
	if thorough {
		nw = 20000
	}
	for i := 0; i < nw; i++ {
		size := 5 + r.Intn(30)
		c05Bubble(t, func() { c05WRandom(out, r, size) })
	}
	ns := 1500
	if thorough {
		ns = 40000
	}
	for i := 0; i < ns; i++ {
		size := 4 + r.Intn(25)
		c05Bubble(t, func() { c05SyncRandom(out, r, size) })
	}
	nd := 500
	if thorough {
		nd = 12000
	}
	c05Bubble(t, func() { c05DialPeerStaleExit(out) })
	c05Bubble(t, func() { c05DialPeerSendCancel(out) })
	c05Bubble(t, func() { c05DialPeerDnsaddrTwice(out) })
	c05Bubble(t, func() { c05DialPeerFallbackTransport(out) })
	c05Bubble(t, func() { c05DialPeerWrongPeerConn(out) })
	c05Bubble(t, func() { c05DialPeerBackoffExpires(out) })
	c05Bubble(t, func() { c05DialPeerTimeouts(out, false) })
	c05Bubble(t, func() { c05DialPeerTimeouts(out, true) })
	for i := 0; i < nd; i++ {
		size := 6 + r.Intn(30)
		c05Bubble(t, func() { c05DialPeerRandom(out, r, size) })
	}
	nr := 3000
	if thorough {
		nr = 100000
	}
	for i := 0; i < nr; i++ {
		c05Ranker(out, r)
	}
}

func TestVerifC05Nothing(t *testing.T) {}

// TestVerifC05Replay re-executes the stimuli of one recorded case
// (VERIF_REPLAY_CASE) on the implementation and writes the case with the
// observations it gets now.
func TestVerifC05Replay(t *testing.T) {
	out, err := verifh.Open()
	if err != nil {
		t.Fatal(err)
	}
	defer out.Close()
	in := verifh.ReplayCase()
	if len(in) < 3 {
		t.Fatal("no case")
	}
	switch in[0] {
	case 1:
		c05Bubble(t, func() { c05LimReplay(out, in) })
	default:
		t.Fatalf("unknown case kind %d", in[0])
	}
}

func c05SkipObs(in []int64, i int) int {
	// fd nwfd nsp na (2*na) nw (2*nw) nd (4*nd)
	if i+4 > len(in) {
		return len(in)
	}
	na := int(in[i+3])
	i += 4 + 2*na
	if i >= len(in) {
		return len(in)
	}
	nw := int(in[i])
	i += 1 + 2*nw
	if i >= len(in) {
		return len(in)
	}
	nd := int(in[i])
	return i + 1 + 4*nd
}

func c05LimReplay(out *verifh.Out, in []int64) {
	c := newC05Lim(in[1], in[2])
	kindOf := func(fd int64) int64 {
		if fd == 1 {
			return 0
		}
		return 1
	}
	// the jobs whose result nobody receives (named by a stimulus 5)
	hold := map[int64]bool{}
	for i := 3; i < len(in); {
		switch in[i] {
		case 1:
			i += 5
		case 2, 3, 4:
			i += 2
		case 5:
			if i+1 < len(in) {
				hold[in[i+1]] = true
			}
			i = c05SkipObs(in, i+3)
		default:
			i = len(in)
			continue
		}
		i = c05SkipObs(in, i)
	}
	for i := 3; i < len(in); {
		switch in[i] {
		case 1:
			if i+4 >= len(in) {
				i = len(in)
				continue
			}
			c.holdNext = hold[in[i+1]]
			c.add(in[i+1], in[i+2], kindOf(in[i+3]), in[i+4])
			i += 5
		case 2:
			if i+1 >= len(in) {
				i = len(in)
				continue
			}
			c.cancel(in[i+1])
			i += 2
		case 3:
			if i+1 >= len(in) {
				i = len(in)
				continue
			}
			c.clear(in[i+1])
			i += 2
		case 4:
			if i+1 >= len(in) {
				i = len(in)
				continue
			}
			if j := c.jobs[in[i+1]]; j != nil && !j.released && c.inflight[in[i+1]] > 0 && !(j.hold && c.ctx(j.grp).Err() == nil) {
				c.releaseJob(in[i+1])
			} else {
				// the recorded release is not possible now: record it with the
				// current observation so that the divergence is visible
				synctest.Wait()
				c.line = append(c.line, 4, in[i+1])
				c.observe()
			}
			i += 2
		case 5:
			if i+2 >= len(in) {
				i = len(in)
				continue
			}
			id, g := in[i+1], in[i+2]
			if j := c.jobs[id]; j != nil && j.grp == g && c.silentRelease(id) {
				c.heldCancel(g)
			} else {
				// not possible now: both observations as they are, so that the divergence is visible
				synctest.Wait()
				c.line = append(c.line, 5, id, g)
				c.observe()
				c.observe()
			}
			i = c05SkipObs(in, i+3)
		default:
			i = len(in)
			continue
		}
		i = c05SkipObs(in, i)
	}
	c.unpark()
	out.Case(c.line)
}

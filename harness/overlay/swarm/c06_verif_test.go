//go:build verif

package swarm

// C06 correspondence harness (injected with `go test -overlay`; not part of
// /repo).  Drives the REAL connectionEventsEmitter with harness-supplied
// onConnected / onDisconnected / connectedness functions and a recording
// event emitter.  Schedules are forced from outside: the callbacks block on
// gates the driver releases in a chosen order, every stimulus is followed by
// synctest.Wait(), so the order of events is the driver's.  The label trace
// of each run is written as one case line in the wire format documented in
// /verif/coq/c06/Spec.v.

import (
	"fmt"
	"os"
	"sync"
	"sync/atomic"
	"testing"
	"testing/synctest"

	"github.com/libp2p/go-libp2p/core/event"
	"github.com/libp2p/go-libp2p/core/network"
	"github.com/libp2p/go-libp2p/core/peer"
	"github.com/libp2p/go-libp2p/core/transport"
	"github.com/libp2p/go-libp2p/internal/verifh"
)

type c06TConn struct {
	transport.CapableConn
	p peer.ID
}

func (c *c06TConn) RemotePeer() peer.ID { return c.p }

// per-conn configuration
type c06ConnCfg struct {
	peer      int
	lim       bool
	closeIt   bool // the driver closes the conn at some point
	connAct   int  // inside onConnected: 0 nothing, 1 close self (async RemoveConn, as doClose), 2 close self with a synchronous RemoveConn, 3 close the next conn (async)
	discAct   int  // inside onDisconnected: 0 nothing, 3 close the next conn (async)
	blockConn bool
	blockDisc bool
}

type c06Cfg struct {
	conns     []c06ConnCfg
	blockRead bool
	blockPub  bool
	withClose bool
	fused     bool // Reg+AddConn and Unreg+RemoveConn are single driver actions (as addConn / doClose do)
	pubAct    int  // inside Emit: 0 nothing, 1 close conn 0 (async)
}

func (c *c06Cfg) meta() []int64 {
	b := func(x bool) int64 {
		if x {
			return 1
		}
		return 0
	}
	m := []int64{int64(len(c.conns))}
	for _, k := range c.conns {
		m = append(m, int64(k.peer), b(k.lim), b(k.closeIt), int64(k.connAct), int64(k.discAct), b(k.blockConn), b(k.blockDisc))
	}
	return append(m, b(c.blockRead), b(c.blockPub), b(c.withClose), b(c.fused), int64(c.pubAct))
}

func c06CfgFromMeta(m []int64) (*c06Cfg, []int64) {
	if len(m) < 1 {
		return nil, nil
	}
	n := int(m[0])
	if n < 0 || len(m) < 1+7*n+5 {
		return nil, nil
	}
	c := &c06Cfg{}
	for i := 0; i < n; i++ {
		f := m[1+7*i:]
		c.conns = append(c.conns, c06ConnCfg{peer: int(f[0]), lim: f[1] != 0, closeIt: f[2] != 0, connAct: int(f[3]), discAct: int(f[4]), blockConn: f[5] != 0, blockDisc: f[6] != 0})
	}
	f := m[1+7*n:]
	c.blockRead, c.blockPub, c.withClose, c.fused, c.pubAct = f[0] != 0, f[1] != 0, f[2] != 0, f[3] != 0, int(f[4])
	return c, f[5:]
}

type c06Gate struct {
	kind, id int
	ch       chan struct{}
}

type c06Run struct {
	cfg *c06Cfg
	mu  sync.Mutex
	// recording
	labels []int64
	done   bool
	// harness conn table (what Swarm.conns.m is for the real swarm)
	conns   []*Conn
	idx     map[*Conn]int
	reg     []int // 0 not registered, 1 open, 2 removed
	added   []bool
	remmed  []bool
	nextReg int
	closeCalled bool
	blocked []*c06Gate
	outstanding atomic.Int64
	e       *connectionEventsEmitter
	lastPub map[int]network.Connectedness
	// coverage
	sawParked, sawForced, sawCloseSkip bool
}

func c06PeerID(i int) peer.ID { return peer.ID(fmt.Sprintf("c06-peer-%03d", i)) }
func c06PeerIdx(p peer.ID) int {
	var i int
	fmt.Sscanf(string(p), "c06-peer-%d", &i)
	return i
}

func (r *c06Run) rec(code, x, y, z int64) {
	r.mu.Lock()
	if !r.done {
		r.labels = append(r.labels, code, x, y, z)
	}
	r.mu.Unlock()
}

func (r *c06Run) block(kind, id int, enabled bool) {
	if !enabled {
		return
	}
	r.mu.Lock()
	if r.done {
		r.mu.Unlock()
		return
	}
	g := &c06Gate{kind: kind, id: id, ch: make(chan struct{})}
	r.blocked = append(r.blocked, g)
	r.mu.Unlock()
	<-g.ch
}

// connectedness as swarm.connectednessUnlocked computes it, over the harness table; r.mu held
func (r *c06Run) connectednessLocked(p int) network.Connectedness {
	haveLimited := false
	for i := range r.conns {
		if r.reg[i] != 1 || r.cfg.conns[i].peer != p {
			continue
		}
		if r.cfg.conns[i].lim {
			haveLimited = true
		} else {
			return network.Connected
		}
	}
	if haveLimited {
		return network.Limited
	}
	return network.NotConnected
}

func (r *c06Run) connectedness(pid peer.ID) network.Connectedness {
	p := c06PeerIdx(pid)
	r.mu.Lock()
	s := r.connectednessLocked(p)
	if !r.done {
		r.labels = append(r.labels, 13, int64(p), int64(s), 0)
	}
	r.mu.Unlock()
	r.block(3, p, r.cfg.blockRead)
	return s
}

type c06Emitter struct{ r *c06Run }

func (em *c06Emitter) Close() error { return nil }
func (em *c06Emitter) Emit(evt interface{}) error {
	r := em.r
	ev, ok := evt.(event.EvtPeerConnectednessChanged)
	if !ok {
		return fmt.Errorf("unexpected event %T", evt)
	}
	p := c06PeerIdx(ev.Peer)
	r.mu.Lock()
	if !r.done {
		r.labels = append(r.labels, 14, int64(p), int64(ev.Connectedness), 0)
		if ev.Connectedness == network.NotConnected && r.lastPub[p] == network.NotConnected {
			r.sawForced = true
		}
		r.lastPub[p] = ev.Connectedness
	}
	r.mu.Unlock()
	if r.cfg.pubAct == 1 {
		r.closeConn(0, false)
	}
	r.block(4, p, r.cfg.blockPub)
	return nil
}

func (r *c06Run) callAdd(i int) {
	r.outstanding.Add(1)
	r.rec(3, int64(i), 0, 0)
	r.e.AddConn(r.conns[i])
	r.rec(4, int64(i), 0, 0)
	r.outstanding.Add(-1)
}

func (r *c06Run) callRem(i int) {
	r.outstanding.Add(1)
	r.rec(5, int64(i), 0, 0)
	r.e.RemoveConn(r.conns[i])
	r.rec(6, int64(i), 0, 0)
	r.outstanding.Add(-1)
}

// what Conn.doClose does: remove from the table, then RemoveConn (from a goroutine unless sync)
func (r *c06Run) closeConn(i int, sync bool) {
	r.mu.Lock()
	if i >= len(r.conns) || r.reg[i] != 1 || r.done {
		r.mu.Unlock()
		return
	}
	r.reg[i] = 2
	r.remmed[i] = true
	r.labels = append(r.labels, 2, int64(i), 0, 0)
	r.mu.Unlock()
	if sync {
		r.callRem(i)
	} else {
		go r.callRem(i)
	}
}

func (r *c06Run) onConnected(c *Conn) {
	i := r.idx[c]
	r.rec(9, int64(i), 0, 0)
	switch r.cfg.conns[i].connAct {
	case 1:
		r.closeConn(i, false)
	case 2:
		r.closeConn(i, true)
	case 3:
		r.closeConn((i+1)%len(r.cfg.conns), false)
	}
	r.block(1, i, r.cfg.conns[i].blockConn)
	r.rec(10, int64(i), 0, 0)
}

func (r *c06Run) onDisconnected(c *Conn) {
	i := r.idx[c]
	r.rec(11, int64(i), 0, 0)
	if r.cfg.conns[i].discAct == 3 {
		r.closeConn((i+1)%len(r.cfg.conns), false)
	}
	r.block(2, i, r.cfg.conns[i].blockDisc)
	r.rec(12, int64(i), 0, 0)
}

// driver actions; r.mu NOT held
func (r *c06Run) doReg() int {
	r.mu.Lock()
	i := r.nextReg
	r.nextReg++
	r.reg[i] = 1
	k := r.cfg.conns[i]
	lim := int64(0)
	if k.lim {
		lim = 1
	}
	r.labels = append(r.labels, 1, int64(i), int64(k.peer), lim)
	r.mu.Unlock()
	return i
}
func (r *c06Run) doAdd(i int) {
	r.mu.Lock()
	r.added[i] = true
	r.mu.Unlock()
	go r.callAdd(i)
}
func (r *c06Run) doUnreg(i int) {
	r.mu.Lock()
	r.reg[i] = 2
	r.labels = append(r.labels, 2, int64(i), 0, 0)
	r.mu.Unlock()
}
func (r *c06Run) doRem(i int) {
	r.mu.Lock()
	r.remmed[i] = true
	r.mu.Unlock()
	go r.callRem(i)
}
func (r *c06Run) doClose() {
	r.mu.Lock()
	r.closeCalled = true
	r.mu.Unlock()
	go func() {
		r.outstanding.Add(1)
		r.rec(7, 0, 0, 0)
		r.e.Close()
		r.rec(8, 0, 0, 0)
		r.outstanding.Add(-1)
	}()
}
func (r *c06Run) release(g *c06Gate) {
	r.mu.Lock()
	for j, x := range r.blocked {
		if x == g {
			r.blocked = append(r.blocked[:j:j], r.blocked[j+1:]...)
			break
		}
	}
	r.mu.Unlock()
	close(g.ch)
}

// the driver actions enabled now, in a canonical order
func (r *c06Run) enabled() []func() {
	r.mu.Lock()
	defer r.mu.Unlock()
	var acts []func()
	n := len(r.cfg.conns)
	if r.nextReg < n {
		if r.cfg.fused {
			acts = append(acts, func() { i := r.doReg(); r.doAdd(i) })
		} else {
			acts = append(acts, func() { r.doReg() })
		}
	}
	for i := 0; i < n; i++ {
		i := i
		if r.reg[i] != 0 && !r.added[i] {
			acts = append(acts, func() { r.doAdd(i) })
		}
	}
	for i := 0; i < n; i++ {
		i := i
		if r.reg[i] == 1 && r.cfg.conns[i].closeIt {
			if r.cfg.fused {
				acts = append(acts, func() { r.doUnreg(i); r.doRem(i) })
			} else {
				acts = append(acts, func() { r.doUnreg(i) })
			}
		}
	}
	for i := 0; i < n; i++ {
		i := i
		if r.reg[i] == 2 && !r.remmed[i] {
			acts = append(acts, func() { r.doRem(i) })
		}
	}
	if r.cfg.withClose && !r.closeCalled {
		acts = append(acts, r.doClose)
	}
	for _, g := range r.blocked {
		g := g
		acts = append(acts, func() { r.release(g) })
	}
	return acts
}

func (r *c06Run) peek(out *verifh.Out) {
	r.e.notifsLk.Lock()
	if len(r.e.pendingDisconnect) > 0 {
		r.sawParked = true
	}
	r.e.notifsLk.Unlock()
}

// c06Execute runs one schedule: choice(k, n) picks among n enabled actions at step k (returns <0 to
// stop issuing stimuli).  Returns the case line and the branching counts.
func c06Execute(t *testing.T, out *verifh.Out, cfg *c06Cfg, maxSteps int, choice func(step, n int) int) (line []int64, chosen []int, counts []int, stuck bool) {
	synctest.Test(t, func(t *testing.T) {
		n := len(cfg.conns)
		r := &c06Run{cfg: cfg, idx: map[*Conn]int{}, reg: make([]int, n), added: make([]bool, n), remmed: make([]bool, n), lastPub: map[int]network.Connectedness{}}
		for i := 0; i < n; i++ {
			c := &Conn{conn: &c06TConn{p: c06PeerID(cfg.conns[i].peer)}}
			r.conns = append(r.conns, c)
			r.idx[c] = i
		}
		r.e = newConnectionEventsEmitter(r.connectedness, &c06Emitter{r: r}, r.onConnected, r.onDisconnected)
		capacity := cap(r.e.peerConnectednessCh)
		synctest.Wait()
		for step := 0; step < maxSteps; step++ {
			acts := r.enabled()
			if len(acts) == 0 {
				break
			}
			k := choice(step, len(acts))
			if k < 0 {
				break
			}
			k %= len(acts)
			chosen = append(chosen, k)
			counts = append(counts, len(acts))
			acts[k]()
			synctest.Wait()
			r.peek(out)
		}
		// finishing phase: start what was not started, release every gate (oldest first)
		for guard := 0; guard < 10000; guard++ {
			acts := r.enabled()
			if len(acts) == 0 {
				break
			}
			acts[0]()
			synctest.Wait()
			r.peek(out)
		}
		synctest.Wait()
		stuck = r.outstanding.Load() != 0
		r.mu.Lock()
		if stuck {
			r.labels = append(r.labels, 16, 0, 0, 0)
		} else {
			r.labels = append(r.labels, 15, 0, 0, 0)
		}
		r.done = true
		labels := r.labels
		r.mu.Unlock()
		meta := cfg.meta()
		for _, k := range chosen {
			meta = append(meta, int64(k))
		}
		line = []int64{6, int64(capacity), int64(network.NotConnected), int64(network.Connected), int64(network.Limited), int64(len(meta))}
		line = append(line, meta...)
		line = append(line, labels...)
		if r.sawParked {
			out.Cover("reached.parked_disconnect")
		}
		if r.sawForced {
			out.Cover("reached.forced_notconnected")
		}
		if stuck {
			// the emitter is deadlocked; the bubble cannot be left cleanly
			out.Cover("stuck")
			out.Case(line)
			out.Close()
			fmt.Println("C06: emitter deadlocked; case written")
			os.Exit(3)
		}
		r.e.Close() // lets the run loop goroutine exit (idempotent if the script already closed)
		synctest.Wait()
	})
	return
}

// c06Explore: depth-first enumeration of all schedules of cfg (stateless: each schedule is a fresh
// run), up to maxRuns; returns the number of runs and whether the enumeration was complete.
func c06Explore(t *testing.T, out *verifh.Out, cfg *c06Cfg, maxRuns int, tag string) (int, bool) {
	var prefix []int
	runs := 0
	for {
		line, chosen, counts, _ := c06Execute(t, out, cfg, 400, func(step, n int) int {
			if step < len(prefix) {
				return prefix[step]
			}
			return 0
		})
		out.Case(line)
		out.Cover("runs." + tag)
		runs++
		i := len(chosen) - 1
		for i >= 0 && chosen[i]+1 >= counts[i] {
			i--
		}
		if i < 0 {
			out.Cover("exhaustive_complete." + tag)
			return runs, true
		}
		if runs >= maxRuns {
			out.Cover("exhaustive_truncated." + tag)
			return runs, false
		}
		prefix = append(append([]int{}, chosen[:i]...), chosen[i]+1)
	}
}

func c06Random(t *testing.T, out *verifh.Out, rnd *verifh.Rand, cfg *c06Cfg, runs int, tag string) {
	for k := 0; k < runs; k++ {
		r := rnd.Fork()
		line, _, _, _ := c06Execute(t, out, cfg, 400, func(step, n int) int { return r.Intn(n) })
		out.Case(line)
		out.Cover("runs." + tag)
	}
}

func c06RandomCfg(rnd *verifh.Rand, n, peers int) *c06Cfg {
	cfg := &c06Cfg{}
	for i := 0; i < n; i++ {
		k := c06ConnCfg{peer: rnd.Intn(peers), lim: rnd.Chance(1, 3), closeIt: rnd.Chance(4, 5), blockConn: rnd.Chance(1, 2), blockDisc: rnd.Chance(1, 3)}
		if rnd.Chance(1, 6) {
			k.connAct = 1 + rnd.Intn(3)
		}
		if rnd.Chance(1, 8) {
			k.discAct = 3
		}
		cfg.conns = append(cfg.conns, k)
	}
	cfg.blockRead = rnd.Chance(1, 3)
	cfg.blockPub = rnd.Chance(1, 4)
	cfg.withClose = rnd.Chance(1, 3)
	cfg.fused = rnd.Chance(1, 2)
	if rnd.Chance(1, 10) {
		cfg.pubAct = 1
	}
	return cfg
}

func TestVerifC06Nothing(t *testing.T) {}

func TestVerifC06(t *testing.T) {
	out, err := verifh.Open()
	if err != nil {
		t.Fatal(err)
	}
	defer out.Close()
	thorough := verifh.Tier() == "thorough"
	rnd := verifh.NewRand(verifh.Seed())
	budget := 800
	if thorough {
		budget = 20000
	}

	// (1) one conn, every combination of gates, callback actions, Close: complete enumeration
	for mask := 0; mask < 16; mask++ {
		for act := 0; act < 3; act++ {
			for cl := 0; cl < 2; cl++ {
				for lim := 0; lim < 2; lim++ {
					if lim == 1 && (mask&12 != 0 || act != 0) {
						continue
					}
					cfg := &c06Cfg{conns: []c06ConnCfg{{peer: 0, lim: lim == 1, closeIt: true, connAct: act, blockConn: mask&1 != 0, blockDisc: mask&2 != 0}},
						blockRead: mask&4 != 0, blockPub: mask&8 != 0, withClose: cl == 1}
					c06Explore(t, out, cfg, budget*5, "one_conn")
				}
			}
		}
	}
	// (2) two conns, same peer / two peers, direct+direct, direct+limited, limited+direct
	for peers := 1; peers <= 2; peers++ {
		for kinds := 0; kinds < 3; kinds++ {
			for gate := 0; gate < 4; gate++ {
				for cl := 0; cl < 2; cl++ {
					for fused := 0; fused < 2; fused++ {
						if fused == 0 && (gate == 3 || cl == 1) {
							continue
						}
						cfg := &c06Cfg{withClose: cl == 1, fused: fused == 1}
						for i := 0; i < 2; i++ {
							k := c06ConnCfg{peer: i % peers, closeIt: true}
							k.lim = (kinds == 1 && i == 1) || (kinds == 2 && i == 0)
							k.blockConn = gate == 1 || gate == 3
							cfg.conns = append(cfg.conns, k)
						}
						cfg.blockRead = gate == 2 || gate == 3
						c06Explore(t, out, cfg, budget, "two_conns")
					}
				}
			}
		}
	}
	// (3) three conns over <= 2 peers, fused stimuli: all orderings without gates; with gates up to the budget
	for peers := 1; peers <= 2; peers++ {
		for kinds := 0; kinds < 2; kinds++ {
			for gate := 0; gate < 2; gate++ {
				cfg := &c06Cfg{fused: true}
				for i := 0; i < 3; i++ {
					cfg.conns = append(cfg.conns, c06ConnCfg{peer: i % peers, lim: kinds == 1 && i == 1, closeIt: i != 2 || gate == 0, blockConn: gate == 1 && i < 2})
				}
				c06Explore(t, out, cfg, budget, "three_conns")
			}
		}
	}
	// (3b) three conns with every Connected blocking / the run loop blocking, with and without Close
	for peers := 1; peers <= 2; peers++ {
		for gate := 1; gate <= 2; gate++ {
			for cl := 0; cl < 2; cl++ {
				if !thorough && (peers == 1 || cl == 0) {
					continue
				}
				cfg := &c06Cfg{fused: true, withClose: cl == 1, blockRead: gate == 2}
				for i := 0; i < 3; i++ {
					cfg.conns = append(cfg.conns, c06ConnCfg{peer: i % peers, lim: i == 2, closeIt: true, blockConn: gate == 1})
				}
				c06Explore(t, out, cfg, budget, "three_conns_gated")
			}
		}
	}
	// (3c) thorough: four conns over two peers (direct and limited), fused stimuli
	if thorough {
		for gate := 0; gate < 2; gate++ {
			cfg := &c06Cfg{fused: true}
			for i := 0; i < 4; i++ {
				cfg.conns = append(cfg.conns, c06ConnCfg{peer: i % 2, lim: i == 1 || i == 2, closeIt: true, blockConn: gate == 1 && i == 0})
			}
			c06Explore(t, out, cfg, budget*2, "four_conns")
		}
	}
	// (4) random schedules of random configurations
	nrand := 400
	maxConns := 3
	if thorough {
		nrand = 40000
		maxConns = 4
	}
	for k := 0; k < nrand; k++ {
		n := 1 + rnd.Intn(maxConns)
		if thorough && rnd.Chance(1, 20) {
			n = 5 + rnd.Intn(2)
		}
		cfg := c06RandomCfg(rnd, n, 1+rnd.Intn(2))
		c06Random(t, out, rnd, cfg, 3, "random")
	}
}

func TestVerifC06Replay(t *testing.T) {
	out, err := verifh.Open()
	if err != nil {
		t.Fatal(err)
	}
	defer out.Close()
	in := verifh.ReplayCase()
	if len(in) < 6 || int(in[5]) > len(in)-6 {
		t.Fatal("no case")
	}
	cfg, choices := c06CfgFromMeta(in[6 : 6+int(in[5])])
	if cfg == nil {
		t.Fatal("bad meta")
	}
	line, _, _, _ := c06Execute(t, out, cfg, 400, func(step, n int) int {
		if step < len(choices) {
			return int(choices[step])
		}
		return -1
	})
	out.Case(line)
}

//go:build verif

package swarm

// C06 swarm-level runs with fake transport conns (kind 8 of the wire format,
// /verif/coq/c06/SpecSw.v).  A real Swarm (NewSwarm) with a harness event bus
// (recording, gateable Emit = a stalled subscriber), a recording Notifiee with
// gates, and fake transport.CapableConns (direct / relayed-limited /
// relayed-UNLIMITED; Close can block on a gate) fed through Swarm.addConn.
// Inbound streams: the "remote" opens streams on a fake conn at any moment after addConn was called (also while the
// Connected handler of that conn is held on its gate); the fake's AcceptStream hands them to the swarm's accept loop
// (label 44) and the swarm's stream handler records them (label 46).  Table reader: before every driver stimulus the
// driver reads ConnsToPeer for every conn given to addConn (label 47); inside the bubble all other goroutines are
// durably blocked then, so the read is one atomic step between two observed labels.
// Mode A: synctest bubble, one driver stimulus at a time + synctest.Wait().
// Mode B (real scheduler): addConn is stalled in the window between the insert
// into conns.m and connectionEventsEmitter.AddConn by holding
// s.directConnNotifs (a lock addConn takes there), racing Swarm.Close.

import (
	"errors"
	"fmt"
	"os"
	"reflect"
	"sync"
	"sync/atomic"
	"testing"
	"testing/synctest"
	"time"

	ic "github.com/libp2p/go-libp2p/core/crypto"
	"github.com/libp2p/go-libp2p/core/event"
	"github.com/libp2p/go-libp2p/core/network"
	"github.com/libp2p/go-libp2p/core/peer"
	"github.com/libp2p/go-libp2p/core/transport"
	"github.com/libp2p/go-libp2p/internal/verifh"
	"github.com/libp2p/go-libp2p/p2p/host/peerstore/pstoremem"
	ma "github.com/multiformats/go-multiaddr"
)

type c06wConnCfg struct {
	peer       int
	lim, proxy bool
	closeIt    bool // the driver closes it (Conn.Close) at some point
	connAct    int  // inside Connected: 1 = close this conn
	blockConn  bool
	blockDisc  bool
	blockClose bool // the transport-level Close blocks on a gate
	streams    int  // inbound streams the remote opens on this conn (driver stimuli)
	hReset     bool // the stream handler resets the stream (else it stays open until doClose resets it)
	closeErr   bool // fault point: the transport-level Close / CloseWithError returns a non-nil error (the conn is closed all the same)
}

type c06wCfg struct {
	conns     []c06wConnCfg
	blockPub  bool
	withClose bool // Swarm.Close is one of the driver's stimuli
	withClose2 bool // a second, overlapping Swarm.Close from another goroutine (issued after the first)
}

func c06wB(x bool) int64 {
	if x {
		return 1
	}
	return 0
}

func (c *c06wCfg) meta(mode int64) []int64 {
	m := []int64{mode, int64(len(c.conns))}
	for _, k := range c.conns {
		m = append(m, int64(k.peer), c06wB(k.lim), c06wB(k.proxy), c06wB(k.closeIt), int64(k.connAct), c06wB(k.blockConn), c06wB(k.blockDisc), c06wB(k.blockClose), int64(k.streams), c06wB(k.hReset), c06wB(k.closeErr))
	}
	return append(m, c06wB(c.blockPub), c06wB(c.withClose), c06wB(c.withClose2))
}

func c06wCfgFromMeta(m []int64) (int64, *c06wCfg, []int64) {
	if len(m) < 2 || m[1] < 0 || len(m) < 2+11*int(m[1])+3 {
		return 0, nil, nil
	}
	c := &c06wCfg{}
	for i := 0; i < int(m[1]); i++ {
		f := m[2+11*i:]
		c.conns = append(c.conns, c06wConnCfg{peer: int(f[0]), lim: f[1] != 0, proxy: f[2] != 0, closeIt: f[3] != 0, connAct: int(f[4]), blockConn: f[5] != 0, blockDisc: f[6] != 0, blockClose: f[7] != 0, streams: int(f[8]), hReset: f[9] != 0, closeErr: f[10] != 0})
	}
	f := m[2+11*int(m[1]):]
	c.blockPub, c.withClose, c.withClose2 = f[0] != 0, f[1] != 0, f[2] != 0
	return m[0], c, f[3:]
}

type c06wGate struct {
	kind, id int
	ch       chan struct{}
}

type c06wRun struct {
	cfg     *c06wCfg
	mu      sync.Mutex
	labels  []int64
	done    bool
	s       *Swarm
	fakes   []*c06wConn
	conns   []*Conn // result of addConn (nil until it returned ok)
	byConn  map[network.Conn]int
	addedC  []bool // addConn stimulus issued
	addRet  []int  // 0 pending, 1 ok, 2 error
	closeRq []bool
	nextAdd int
	closeCalled bool
	close2Called bool
	blocked []*c06wGate
	outstanding atomic.Int64
	lastPub map[int]network.Connectedness
	opened  []int // streams the remote opened so far, per conn
	cov     map[string]int64
	chosen  []int // mode A: the driver's choices so far (for the watchdog)
}

// Watchdog for mode A.  synctest.Wait() never returns when a bubble goroutine is blocked NON-durably - e.g. a second
// Conn.Close waiting on closeOnce while the first sits on a transport-Close gate, which the unchanged swarm never does
// (doClose unregisters the conn first) but a changed one may.  No run finishing for minutes = the current run is written
// as a stuck case (label 16, clause 6) together with everything recorded so far, instead of losing it all at the go test timeout.
var (
	c06wProgress atomic.Int64
	c06wCur      atomic.Pointer[c06wRun]
)

func c06wWatchdog(out *verifh.Out) (stop func()) {
	done := make(chan struct{})
	go func() {
		last, idle := int64(-1), 0
		for {
			select {
			case <-done:
				return
			case <-time.After(5 * time.Second):
			}
			if p := c06wProgress.Load(); p != last {
				last, idle = p, 0
				continue
			}
			idle++
			if r := c06wCur.Load(); idle >= 48 && r != nil { // 4 minutes without a single run finishing
				r.mu.Lock()
				chosen := append([]int{}, r.chosen...)
				r.mu.Unlock()
				fmt.Println("C06: no progress inside the synctest bubble (a goroutine is blocked non-durably)")
				r.finish(out, 0, chosen, true)
			}
		}
	}()
	return func() { close(done) }
}

func (r *c06wRun) cover(name string) {
	r.mu.Lock()
	r.cov[name]++
	r.mu.Unlock()
}

func (r *c06wRun) rec(code, x, y, z int64) {
	r.mu.Lock()
	if !r.done {
		r.labels = append(r.labels, code, x, y, z)
	}
	r.mu.Unlock()
}

func (r *c06wRun) block(kind, id int, enabled bool) {
	if !enabled {
		return
	}
	r.mu.Lock()
	if r.done {
		r.mu.Unlock()
		return
	}
	g := &c06wGate{kind: kind, id: id, ch: make(chan struct{})}
	r.blocked = append(r.blocked, g)
	r.mu.Unlock()
	<-g.ch
}

// ---- fake transport conn -------------------------------------------------------
type c06wTransport struct {
	transport.Transport
	proxy bool
}

func (t c06wTransport) Proxy() bool { return t.proxy }

type c06wConn struct {
	transport.CapableConn
	r        *c06wRun
	i        int
	p        peer.ID
	once     sync.Once
	accepted atomic.Bool
	closed   chan struct{}
	streamq  chan *c06wStream
}

// fake muxed stream: carries no data
type c06wStream struct {
	c     *c06wConn
	reset atomic.Bool
}

func (st *c06wStream) Read([]byte) (int, error)    { return 0, errors.New("no data") }
func (st *c06wStream) Write(b []byte) (int, error) { return len(b), nil }
func (st *c06wStream) Close() error                { return nil }
func (st *c06wStream) CloseRead() error            { return nil }
func (st *c06wStream) CloseWrite() error           { return nil }
func (st *c06wStream) Reset() error                { st.reset.Store(true); return nil }
func (st *c06wStream) ResetWithError(network.StreamErrorCode) error {
	st.reset.Store(true)
	return nil
}
func (st *c06wStream) SetDeadline(time.Time) error      { return nil }
func (st *c06wStream) SetReadDeadline(time.Time) error  { return nil }
func (st *c06wStream) SetWriteDeadline(time.Time) error { return nil }

func (c *c06wConn) RemotePeer() peer.ID            { return c.p }
func (c *c06wConn) RemotePublicKey() ic.PubKey     { return nil }
func (c *c06wConn) RemoteMultiaddr() ma.Multiaddr  { return ma.StringCast("/ip4/127.0.0.1/tcp/1") }
func (c *c06wConn) LocalMultiaddr() ma.Multiaddr   { return ma.StringCast("/ip4/127.0.0.1/tcp/2") }
func (c *c06wConn) Transport() transport.Transport { return c06wTransport{proxy: c.r.cfg.conns[c.i].proxy} }
func (c *c06wConn) Stat() network.ConnStats {
	return network.ConnStats{Stats: network.Stats{Limited: c.r.cfg.conns[c.i].lim}}
}
func (c *c06wConn) As(any) bool { return false }
func (c *c06wConn) Close() error {
	c.once.Do(func() {
		c.r.rec(33, int64(c.i), 0, 0)
		c.r.block(5, c.i, c.r.cfg.conns[c.i].blockClose)
		close(c.closed)
		c.r.rec(34, int64(c.i), 0, 0)
	})
	if c.r.cfg.conns[c.i].closeErr {
		// the transport reports an error although the conn is gone (socket / session already torn down)
		c.r.cover("sw.transport_close_error")
		return errors.New("c06w: transport close failed")
	}
	return nil
}
func (c *c06wConn) CloseWithError(network.ConnErrorCode) error { return c.Close() }
func (c *c06wConn) IsClosed() bool {
	select {
	case <-c.closed:
		return true
	default:
		return false
	}
}
func (c *c06wConn) AcceptStream() (network.MuxedStream, error) {
	if c.accepted.CompareAndSwap(false, true) {
		c.r.rec(35, int64(c.i), 0, 0)
	}
	select {
	case <-c.closed:
		return nil, errors.New("closed")
	default:
	}
	select {
	case st := <-c.streamq:
		c.r.rec(44, int64(c.i), 0, 0)
		return st, nil
	case <-c.closed:
		return nil, errors.New("closed")
	}
}

// ---- harness event bus -----------------------------------------------------------
type c06wBus struct{ r *c06wRun }
type c06wEmitter struct{ r *c06wRun }

func (b *c06wBus) Subscribe(any, ...event.SubscriptionOpt) (event.Subscription, error) {
	return nil, errors.New("not supported")
}
func (b *c06wBus) Emitter(any, ...event.EmitterOpt) (event.Emitter, error) {
	return &c06wEmitter{r: b.r}, nil
}
func (b *c06wBus) GetAllEventTypes() []reflect.Type { return nil }
func (em *c06wEmitter) Close() error                { return nil }
func (em *c06wEmitter) Emit(evt interface{}) error {
	ev, ok := evt.(event.EvtPeerConnectednessChanged)
	if !ok {
		return nil
	}
	p := c06PeerIdx(ev.Peer)
	em.r.mu.Lock()
	if !em.r.done {
		em.r.labels = append(em.r.labels, 14, int64(p), int64(ev.Connectedness), 0)
		em.r.lastPub[p] = ev.Connectedness
	}
	em.r.mu.Unlock()
	em.r.block(4, p, em.r.cfg.blockPub)
	return nil
}

// ---- notifiee -----------------------------------------------------------------------
type c06wNotifiee struct{ r *c06wRun }

func (f *c06wNotifiee) Listen(network.Network, ma.Multiaddr)      {}
func (f *c06wNotifiee) ListenClose(network.Network, ma.Multiaddr) {}
func (f *c06wNotifiee) Connected(_ network.Network, c network.Conn) {
	r := f.r
	i := r.idxOf(c)
	r.rec(9, int64(i), 0, 0)
	if r.cfg.conns[i].connAct == 1 {
		r.rec(36, int64(i), 0, 0)
		c.Close()
	}
	r.block(1, i, r.cfg.conns[i].blockConn)
	r.rec(10, int64(i), 0, 0)
}
func (f *c06wNotifiee) Disconnected(_ network.Network, c network.Conn) {
	r := f.r
	i := r.idxOf(c)
	r.rec(11, int64(i), 0, 0)
	r.block(2, i, r.cfg.conns[i].blockDisc)
	r.rec(12, int64(i), 0, 0)
}

func (r *c06wRun) idxOf(c network.Conn) int {
	sc := c.(*Conn)
	return sc.conn.(*c06wConn).i
}

// ---- driver --------------------------------------------------------------------------
func (r *c06wRun) listed(i int) *Conn {
	for _, c := range r.s.Conns() {
		if sc := c.(*Conn); sc.conn == transport.CapableConn(r.fakes[i]) {
			return sc
		}
	}
	return nil
}

// the table reader: ConnsToPeer of the conn's peer
func (r *c06wRun) listedP(i int) bool {
	for _, c := range r.s.ConnsToPeer(r.fakes[i].p) {
		if sc := c.(*Conn); sc.conn == transport.CapableConn(r.fakes[i]) {
			return true
		}
	}
	return false
}

func (r *c06wRun) handleStream(st network.Stream) {
	i := r.idxOf(st.Conn())
	r.rec(46, int64(i), 0, 0)
	r.cover("sw.stream.handled")
	if r.cfg.conns[i].hReset {
		st.Reset()
	}
}

// the remote opens a stream: it is available to AcceptStream at once
func (r *c06wRun) doOpenStream(i int) {
	r.mu.Lock()
	r.opened[i]++
	held := false
	for _, g := range r.blocked {
		if g.kind == 1 && g.id == i {
			held = true
		}
	}
	r.mu.Unlock()
	if held {
		r.cover("sw.stream.opened_while_connected_held")
	} else {
		r.cover("sw.stream.opened")
	}
	r.fakes[i].streamq <- &c06wStream{c: r.fakes[i]}
}

func (r *c06wRun) doAdd(i int) {
	r.mu.Lock()
	r.addedC[i] = true
	if i >= r.nextAdd {
		r.nextAdd = i + 1
	}
	r.mu.Unlock()
	k := r.cfg.conns[i]
	r.outstanding.Add(1)
	go func() {
		defer r.outstanding.Add(-1)
		r.rec(31, int64(i), int64(k.peer), c06wB(k.lim)+2*c06wB(k.proxy))
		c, err := r.s.addConn(r.fakes[i], network.DirInbound)
		r.mu.Lock()
		if err == nil {
			r.conns[i] = c
			r.addRet[i] = 1
		} else {
			r.addRet[i] = 2
		}
		if !r.done {
			r.labels = append(r.labels, 32, int64(i), c06wB(err == nil), 0)
		}
		r.mu.Unlock()
	}()
}

func (r *c06wRun) doCloseReq(i int, c *Conn) {
	r.mu.Lock()
	r.closeRq[i] = true
	r.mu.Unlock()
	r.outstanding.Add(1)
	go func() {
		defer r.outstanding.Add(-1)
		r.rec(36, int64(i), 0, 0)
		c.Close()
	}()
}

func (r *c06wRun) doSwarmClose() {
	r.mu.Lock()
	r.closeCalled = true
	r.mu.Unlock()
	r.outstanding.Add(1)
	go func() {
		defer r.outstanding.Add(-1)
		r.rec(37, 0, 0, 0)
		r.s.Close()
		r.rec(38, 0, 0, 0)
	}()
}

func (r *c06wRun) doSwarmClose2() {
	r.mu.Lock()
	r.close2Called = true
	r.mu.Unlock()
	r.outstanding.Add(1)
	go func() {
		defer r.outstanding.Add(-1)
		r.rec(42, 0, 0, 0)
		r.s.Close()
		r.rec(43, 0, 0, 0)
	}()
}

func (r *c06wRun) release(g *c06wGate) {
	r.mu.Lock()
	for j, x := range r.blocked {
		if x == g {
			r.blocked = append(r.blocked[:j:j], r.blocked[j+1:]...)
			break
		}
	}
	r.mu.Unlock()
	close(g.ch)
}

func (r *c06wRun) enabled() []func() {
	var acts []func()
	n := len(r.cfg.conns)
	listed := make([]*Conn, n)
	for i := 0; i < n; i++ {
		if r.addedC[i] {
			listed[i] = r.listed(i)
			// table reader (label 47); all other goroutines are durably blocked (mode A only calls enabled())
			b := r.listedP(i)
			r.rec(47, int64(i), c06wB(b), 0)
			if b {
				r.cover("sw.listed.yes")
			} else {
				r.cover("sw.listed.no")
			}
		}
	}
	r.mu.Lock()
	defer r.mu.Unlock()
	if r.nextAdd < n {
		i := r.nextAdd
		acts = append(acts, func() { r.doAdd(i) })
	}
	for i := 0; i < n; i++ {
		i := i
		if r.addedC[i] && r.opened[i] < r.cfg.conns[i].streams && !r.fakes[i].IsClosed() {
			acts = append(acts, func() { r.doOpenStream(i) })
		}
	}
	for i := 0; i < n; i++ {
		i := i
		if r.cfg.conns[i].closeIt && !r.closeRq[i] && listed[i] != nil {
			c := listed[i]
			acts = append(acts, func() { r.doCloseReq(i, c) })
		}
	}
	if r.cfg.withClose && !r.closeCalled {
		acts = append(acts, r.doSwarmClose)
	}
	if r.cfg.withClose2 && r.closeCalled && !r.close2Called {
		acts = append(acts, r.doSwarmClose2)
	}
	for _, g := range r.blocked {
		g := g
		acts = append(acts, func() { r.release(g) })
	}
	return acts
}

func c06wNewRun(t *testing.T, cfg *c06wCfg) *c06wRun {
	n := len(cfg.conns)
	r := &c06wRun{cfg: cfg, byConn: map[network.Conn]int{}, conns: make([]*Conn, n), addedC: make([]bool, n), addRet: make([]int, n),
		closeRq: make([]bool, n), lastPub: map[int]network.Connectedness{}, opened: make([]int, n), cov: map[string]int64{}}
	for i := 0; i < n; i++ {
		r.fakes = append(r.fakes, &c06wConn{r: r, i: i, p: c06PeerID(cfg.conns[i].peer), closed: make(chan struct{}),
			streamq: make(chan *c06wStream, cfg.conns[i].streams+1)})
	}
	ps, err := pstoremem.NewPeerstore()
	if err != nil {
		t.Fatal(err)
	}
	t.Cleanup(func() { ps.Close() })
	s, err := NewSwarm(c06PeerID(999), ps, &c06wBus{r: r})
	if err != nil {
		t.Fatal(err)
	}
	r.s = s
	s.Notify(&c06wNotifiee{r: r})
	s.SetStreamHandler(r.handleStream)
	return r
}

// final observations + case line; conns are renumbered: admitted ones first (in admission order = call order), rejected after
func (r *c06wRun) finish(out *verifh.Out, mode int64, chosen []int, stuck bool) []int64 {
	n := len(r.cfg.conns)
	r.mu.Lock()
	if !stuck {
		peers := map[int]bool{}
		for _, k := range r.cfg.conns {
			peers[k.peer] = true
		}
		r.mu.Unlock()
		type ob struct{ code, x, y int64 }
		var obs []ob
		for p := 0; p < 64; p++ {
			if peers[p] {
				obs = append(obs, ob{40, int64(p), int64(r.s.Connectedness(c06PeerID(p)))})
			}
		}
		for i := 0; i < n; i++ {
			if r.addedC[i] {
				obs = append(obs, ob{41, int64(i), c06wB(r.listed(i) != nil)})
			}
		}
		r.mu.Lock()
		for _, o := range obs {
			r.labels = append(r.labels, o.code, o.x, o.y, 0)
		}
		r.labels = append(r.labels, 15, 0, 0, 0)
	} else {
		r.labels = append(r.labels, 16, 0, 0, 0)
	}
	r.done = true
	labels := append([]int64{}, r.labels...)
	ren := make([]int64, n)
	k := int64(0)
	for i := 0; i < n; i++ {
		if r.addRet[i] != 2 {
			ren[i] = k
			k++
		}
	}
	for i := 0; i < n; i++ {
		if r.addRet[i] == 2 {
			ren[i] = k
			k++
		}
	}
	r.mu.Unlock()
	for j := 0; j+3 < len(labels); j += 4 {
		switch labels[j] {
		case 31, 32, 9, 10, 11, 12, 33, 34, 35, 36, 39, 41, 44, 46, 47:
			labels[j+1] = ren[labels[j+1]]
		}
	}
	// coverage: what the trace shows about streams and listings
	connE, discB := map[int64]bool{}, map[int64]bool{}
	for j := 0; j+3 < len(labels); j += 4 {
		x := labels[j+1]
		switch labels[j] {
		case 10:
			connE[x] = true
		case 11:
			discB[x] = true
		case 44:
			out.Cover("sw.stream.accepted")
		case 47:
			if labels[j+2] == 1 && !connE[x] {
				out.Cover("sw.listed.yes_before_connected_returned")
			}
			if labels[j+2] == 0 && connE[x] && !discB[x] {
				out.Cover("sw.listed.no_before_disconnected")
			}
		}
	}
	r.mu.Lock()
	for k, v := range r.cov {
		out.CoverN(k, v)
	}
	r.mu.Unlock()
	meta := r.cfg.meta(mode)
	for _, c := range chosen {
		meta = append(meta, int64(c))
	}
	line := []int64{8, 0, int64(network.NotConnected), int64(network.Connected), int64(network.Limited), int64(len(meta))}
	line = append(line, meta...)
	line = append(line, labels...)
	if stuck {
		out.Cover("sw.stuck")
		out.Case(line)
		out.Close()
		fmt.Println("C06: swarm deadlocked; case written")
		os.Exit(3)
	}
	return line
}

// mode A: synctest bubble, forced schedule
func c06wExecute(t *testing.T, out *verifh.Out, cfg *c06wCfg, maxSteps int, choice func(step, n int) int) (line []int64, chosen, counts []int) {
	synctest.Test(t, func(t *testing.T) {
		r := c06wNewRun(t, cfg)
		c06wCur.Store(r)
		defer func() { c06wCur.Store(nil); c06wProgress.Add(1) }()
		synctest.Wait()
		for step := 0; step < maxSteps; step++ {
			acts := r.enabled()
			if len(acts) == 0 {
				break
			}
			k := choice(step, len(acts))
			if k < 0 {
				break
			}
			k %= len(acts)
			chosen = append(chosen, k)
			counts = append(counts, len(acts))
			r.mu.Lock()
			r.chosen = append(r.chosen, k)
			r.mu.Unlock()
			acts[k]()
			synctest.Wait()
		}
		for guard := 0; guard < 10000; guard++ {
			acts := r.enabled()
			if len(acts) == 0 {
				break
			}
			acts[0]()
			synctest.Wait()
		}
		synctest.Wait()
		line = r.finish(out, 0, chosen, r.outstanding.Load() != 0)
		// shut the swarm down (a no-op when the script already did).  A Swarm.Close that does not return after a
		// quiescent run is judged too: the run is written with Swarm.Close.call + Stuck appended (clause 6)
		closed := make(chan struct{})
		go func() { r.s.Close(); close(closed) }()
		synctest.Wait()
		select {
		case <-closed:
		default:
			line = append(line, 37, 0, 0, 0, 16, 0, 0, 0)
			out.Cover("sw.stuck_final_close")
			out.Case(line)
			out.Close()
			fmt.Println("C06: Swarm.Close does not return after a quiescent run; case written")
			os.Exit(3)
		}
	})
	return
}

// mode B: real scheduler; addConn of the last conn is stalled in the window after the insert into conns.m
// (the harness holds s.directConnNotifs, which addConn takes there for a non-limited conn) while Swarm.Close runs
func c06wLever(t *testing.T, out *verifh.Out, cfg *c06wCfg, closeDuring bool) []int64 {
	r := c06wNewRun(t, cfg)
	n := len(cfg.conns)
	wait := func(cond func() bool) bool {
		deadline := time.Now().Add(20 * time.Second)
		for time.Now().Before(deadline) {
			if cond() {
				return true
			}
			time.Sleep(time.Millisecond)
		}
		return cond()
	}
	for i := 0; i < n-1; i++ {
		r.doAdd(i)
		wait(func() bool { r.mu.Lock(); defer r.mu.Unlock(); return r.addRet[i] != 0 })
	}
	last := n - 1
	r.s.directConnNotifs.Lock()
	r.doAdd(last)
	if wait(func() bool { return r.listed(last) != nil }) {
		r.rec(39, int64(last), 0, 0)
	}
	if closeDuring {
		r.doSwarmClose()
		time.Sleep(80 * time.Millisecond)
	} else {
		c := r.listed(last)
		if c != nil {
			r.doCloseReq(last, c)
		}
		time.Sleep(30 * time.Millisecond)
	}
	r.s.directConnNotifs.Unlock()
	ok := wait(func() bool { return r.outstanding.Load() == 0 })
	if ok && !closeDuring {
		// let the run loop settle: the published state must reach the actual one
		wait(func() bool {
			r.mu.Lock()
			defer r.mu.Unlock()
			for p, st := range r.lastPub {
				if st != r.s.Connectedness(c06PeerID(p)) {
					return false
				}
			}
			return true
		})
		time.Sleep(20 * time.Millisecond)
	}
	line := r.finish(out, 1, nil, !ok)
	r.s.Close()
	return line
}

// mode C (real scheduler; a goroutine waiting on sync.Once is not durably blocked, so no synctest here): all conns are
// admitted, Swarm.Close #1 parks behind gated callbacks / transport Close, then Swarm.Close #2 is called from another
// goroutine; the gates are released only after #2 had time to return early.
func c06wTwoClose(t *testing.T, out *verifh.Out, cfg *c06wCfg) []int64 {
	r := c06wNewRun(t, cfg)
	n := len(cfg.conns)
	wait := func(cond func() bool) bool {
		deadline := time.Now().Add(20 * time.Second)
		for time.Now().Before(deadline) {
			if cond() {
				return true
			}
			time.Sleep(time.Millisecond)
		}
		return cond()
	}
	relAll := func() {
		r.mu.Lock()
		gs := append([]*c06wGate{}, r.blocked...)
		r.mu.Unlock()
		for _, g := range gs {
			r.release(g)
		}
	}
	nblocked := func() int { r.mu.Lock(); defer r.mu.Unlock(); return len(r.blocked) }
	for i := 0; i < n; i++ {
		i := i
		r.doAdd(i)
		// a gated Connected is released at once: the interesting gates are on the way down
		wait(func() bool {
			r.mu.Lock()
			done := r.addRet[i] != 0
			r.mu.Unlock()
			if !done {
				relAll()
			}
			return done
		})
	}
	wait(func() bool { relAll(); return nblocked() == 0 })
	r.doSwarmClose()
	wait(func() bool { return nblocked() > 0 || r.outstanding.Load() == 0 })
	r.doSwarmClose2()
	time.Sleep(60 * time.Millisecond)
	ok := wait(func() bool { relAll(); return r.outstanding.Load() == 0 })
	line := r.finish(out, 2, nil, !ok)
	r.s.Close()
	return line
}

func c06wExplore(t *testing.T, out *verifh.Out, cfg *c06wCfg, maxRuns int, tag string) {
	var prefix []int
	for runs := 1; ; runs++ {
		line, chosen, counts := c06wExecute(t, out, cfg, 300, func(step, n int) int {
			if step < len(prefix) {
				return prefix[step]
			}
			return 0
		})
		out.Case(line)
		out.Cover("sw.runs." + tag)
		i := len(chosen) - 1
		for i >= 0 && chosen[i]+1 >= counts[i] {
			i--
		}
		if i < 0 {
			out.Cover("sw.exhaustive_complete." + tag)
			return
		}
		if runs >= maxRuns {
			out.Cover("sw.exhaustive_truncated." + tag)
			return
		}
		prefix = append(append([]int{}, chosen[:i]...), chosen[i]+1)
	}
}

func c06wRandom(t *testing.T, out *verifh.Out, rnd *verifh.Rand, cfg *c06wCfg, runs int, tag string) {
	for k := 0; k < runs; k++ {
		r := rnd.Fork()
		stop := 2 + r.Intn(40)
		line, _, _ := c06wExecute(t, out, cfg, 300, func(step, n int) int {
			if step >= stop {
				return -1
			}
			return r.Intn(n)
		})
		out.Case(line)
		out.Cover("sw.runs." + tag)
	}
}

// conn classes: 0 direct, 1 relayed+limited, 2 relayed+UNLIMITED, 3 direct transport but flagged limited
func c06wClass(k int) (lim, proxy bool) { return k == 1 || k == 3, k == 1 || k == 2 }

func TestVerifC06Sw(t *testing.T) {
	out, err := verifh.Open()
	if err != nil {
		t.Fatal(err)
	}
	defer out.Close()
	defer c06wWatchdog(out)()
	thorough := verifh.Tier() == "thorough"
	rnd := verifh.NewRand(verifh.Seed() + 77)
	budget := 150
	if thorough {
		budget = 3000
	}
	// F0: the table reader versus a Disconnected / Connected handler held on its gate (no second closer anywhere)
	for m := 0; m < 4; m++ {
		cfg := &c06wCfg{conns: []c06wConnCfg{{closeIt: true, blockDisc: true, blockConn: m&1 != 0, streams: m >> 1}}}
		c06wExplore(t, out, cfg, budget, "listing1")
		cfg2 := &c06wCfg{conns: []c06wConnCfg{{closeIt: true, blockDisc: true}, {peer: m & 1, closeIt: m&2 != 0, blockConn: true}}}
		c06wExplore(t, out, cfg2, budget, "listing2")
	}
	// F8: fault point: the transport conn's Close returns an error (the conn is closed and delisted all the same): Disconnected,
	// the events and Swarm.Close must not depend on it.  One conn; two conns to one peer (direct / limited) closed back to back
	for m := 0; m < 4; m++ {
		cfg := &c06wCfg{conns: []c06wConnCfg{{closeIt: m == 0 || m == 2, closeErr: true, connAct: c06wI(m == 3)}}, withClose: m != 0}
		c06wExplore(t, out, cfg, budget, "closeerr1")
	}
	for a := 0; a < 2; a++ {
		for b := 0; b < 2; b++ {
			la, pa := c06wClass(a)
			lb, pb := c06wClass(b)
			for e := 1; e < 4; e++ {
				cfg := &c06wCfg{conns: []c06wConnCfg{{lim: la, proxy: pa, closeIt: true, closeErr: e&1 != 0}, {lim: lb, proxy: pb, closeIt: true, closeErr: e&2 != 0}}}
				c06wExplore(t, out, cfg, budget/3, "closeerr2")
			}
		}
	}
	// F1: conn classes: one and two conns to one peer, every pair of classes, all driver schedules
	for a := 0; a < 4; a++ {
		la, pa := c06wClass(a)
		c06wExplore(t, out, &c06wCfg{conns: []c06wConnCfg{{lim: la, proxy: pa, closeIt: true}}}, budget, "classes1")
		for b := 0; b < 4; b++ {
			lb, pb := c06wClass(b)
			cfg := &c06wCfg{conns: []c06wConnCfg{{lim: la, proxy: pa, closeIt: true}, {lim: lb, proxy: pb, closeIt: b%2 == 0}}}
			c06wExplore(t, out, cfg, budget, "classes2")
		}
	}
	// F2: transport Close that blocks, with and without blocking callbacks / Connected closing the conn
	for m := 0; m < 8; m++ {
		cfg := &c06wCfg{conns: []c06wConnCfg{{closeIt: true, blockClose: true, blockConn: m&1 != 0, blockDisc: m&2 != 0}}, withClose: m&4 != 0}
		c06wExplore(t, out, cfg, budget, "slowclose1")
		cfg2 := &c06wCfg{conns: []c06wConnCfg{{closeIt: true, blockClose: true, connAct: m & 1}, {peer: m >> 1 & 1, closeIt: true, blockClose: m&4 != 0}}}
		c06wExplore(t, out, cfg2, budget, "slowclose2")
	}
	// F3: Swarm.Close with a stalled subscriber and a backlog of events of several peers
	for np := 2; np <= 6; np++ {
		for rep := 0; rep < 4; rep++ {
			cfg := &c06wCfg{blockPub: true, withClose: true}
			for i := 0; i < np; i++ {
				cfg.conns = append(cfg.conns, c06wConnCfg{peer: i, closeIt: rep%2 == 0})
			}
			line, _, _ := c06wExecute(t, out, cfg, 300, func(step, n int) int { return -1 })
			out.Case(line)
			c06wRandom(t, out, rnd, cfg, 2, "backlog")
			out.Cover("sw.runs.backlog")
		}
	}
	// F4: random configurations, random schedules
	nrand := 120
	if thorough {
		nrand = 4000
	}
	for k := 0; k < nrand; k++ {
		n := 1 + rnd.Intn(3)
		cfg := &c06wCfg{blockPub: rnd.Chance(1, 4), withClose: rnd.Chance(1, 2)}
		for i := 0; i < n; i++ {
			lim, proxy := c06wClass(rnd.Intn(4))
			cfg.conns = append(cfg.conns, c06wConnCfg{peer: rnd.Intn(2), lim: lim, proxy: proxy, closeIt: rnd.Chance(3, 4), connAct: c06wI(rnd.Chance(1, 6)),
				blockConn: rnd.Chance(1, 3), blockDisc: rnd.Chance(1, 4), blockClose: rnd.Chance(1, 3),
				streams: c06wI(rnd.Chance(1, 2)) * (1 + rnd.Intn(2)), hReset: rnd.Chance(1, 2), closeErr: rnd.Chance(1, 3)})
		}
		c06wRandom(t, out, rnd, cfg, 2, "random")
	}
	// F7: inbound streams opened by the remote at any moment, in particular while the Connected handler is held on its
	// gate; the handler resets the stream or leaves it to doClose; Conn.Close / Swarm.Close / Connected closing the conn
	for m := 0; m < 8; m++ {
		cfg := &c06wCfg{conns: []c06wConnCfg{{closeIt: true, blockConn: true, streams: 1 + m&1, hReset: m&2 != 0, blockDisc: m == 5}}, withClose: m&4 != 0}
		c06wExplore(t, out, cfg, budget, "streams1")
		c06wRandom(t, out, rnd, cfg, 10, "streams1r")
	}
	for m := 0; m < 8; m++ {
		cfg := &c06wCfg{conns: []c06wConnCfg{{closeIt: true, blockConn: m&1 != 0, streams: 1, hReset: m&2 != 0, connAct: m >> 2 & 1},
			{peer: m & 1, closeIt: m&2 == 0, blockConn: true, streams: 1, blockClose: m == 6}}, withClose: m == 3 || m == 7}
		c06wExplore(t, out, cfg, budget/2, "streams2")
		c06wRandom(t, out, rnd, cfg, 20, "streams2r")
	}
	// F6 (real scheduler): two overlapping Swarm.Close calls, the first parked behind a gated Disconnected / subscriber /
	// transport Close
	for m := 0; m < 4; m++ {
		for n := 1; n <= 2; n++ {
			cfg := &c06wCfg{withClose: true, withClose2: true, blockPub: m == 2}
			for i := 0; i < n; i++ {
				cfg.conns = append(cfg.conns, c06wConnCfg{peer: i, blockDisc: m == 0 || m == 3, blockClose: m == 1 || m == 3})
			}
			out.Case(c06wTwoClose(t, out, cfg))
			out.Cover("sw.runs.twoclose")
		}
	}
	// F5 (real scheduler): addConn stalled right after the insert into the conn table, racing Swarm.Close / Conn.Close
	reps := 2
	if thorough {
		reps = 10
	}
	for rep := 0; rep < reps; rep++ {
		for pre := 0; pre <= 2; pre++ {
			for cd := 0; cd < 2; cd++ {
				cfg := &c06wCfg{withClose: cd == 1}
				for i := 0; i <= pre; i++ {
					cfg.conns = append(cfg.conns, c06wConnCfg{peer: i % 2, closeIt: true})
				}
				out.Case(c06wLever(t, out, cfg, cd == 1))
				out.Cover("sw.runs.lever")
			}
		}
	}
}

func c06wI(b bool) int {
	if b {
		return 1
	}
	return 0
}

func TestVerifC06SwReplay(t *testing.T) {
	out, err := verifh.Open()
	if err != nil {
		t.Fatal(err)
	}
	defer out.Close()
	in := verifh.ReplayCase()
	if len(in) < 6 || in[0] != 8 || int(in[5]) > len(in)-6 {
		t.Fatal("no case")
	}
	mode, cfg, choices := c06wCfgFromMeta(in[6 : 6+int(in[5])])
	if cfg == nil {
		t.Fatal("bad meta")
	}
	if mode == 1 {
		out.Case(c06wLever(t, out, cfg, cfg.withClose))
		return
	}
	if mode == 2 {
		out.Case(c06wTwoClose(t, out, cfg))
		return
	}
	line, _, _ := c06wExecute(t, out, cfg, 300, func(step, n int) int {
		if step < len(choices) {
			return int(choices[step])
		}
		return -1
	})
	out.Case(line)
}

//go:build verif

package swarm_test

// C06 whole-swarm runs (injected with `go test -overlay`; not part of /repo).
// A real Swarm B (TCP listener) with two recording Notifiees, a stream handler
// and an event-bus subscriber; inbound connections are made from a second
// swarm's TCP transport directly (so any number of conns to the one peer), and
// are closed remotely, locally, from inside Connected, or by Swarm.Close.
// Notifiee 0 can block in Connected / Disconnected until the driver releases it.
// One case line per run, kind 7 of the wire format in /verif/coq/c06/SpecSwarm.v.

import (
	"context"
	"sync"
	"testing"
	"time"

	"github.com/libp2p/go-libp2p/core/event"
	"github.com/libp2p/go-libp2p/core/network"
	"github.com/libp2p/go-libp2p/core/transport"
	"github.com/libp2p/go-libp2p/internal/verifh"
	"github.com/libp2p/go-libp2p/p2p/host/eventbus"
	swarmt "github.com/libp2p/go-libp2p/p2p/net/swarm/testing"
	ma "github.com/multiformats/go-multiaddr"
)

type c06sRun struct {
	mu       sync.Mutex
	labels   []int64
	done     bool
	connID   map[network.Conn]int
	gateConn map[int]chan struct{} // Connected(c) at notifiee 0 waits here if present
	gateDisc map[int]chan struct{}
	blockConn, blockDisc bool
	closeInConnected     bool
	lastPub              network.Connectedness
}

func (r *c06sRun) id(c network.Conn) int {
	if i, ok := r.connID[c]; ok {
		return i
	}
	i := len(r.connID)
	r.connID[c] = i
	return i
}

func (r *c06sRun) rec(code int64, c network.Conn, y int64) int {
	r.mu.Lock()
	defer r.mu.Unlock()
	i := 0
	if c != nil {
		i = r.id(c)
	}
	if !r.done {
		r.labels = append(r.labels, code, int64(i), y, 0)
	}
	return i
}

func (r *c06sRun) count(code int64) int {
	r.mu.Lock()
	defer r.mu.Unlock()
	n := 0
	for i := 0; i+3 < len(r.labels); i += 4 {
		if r.labels[i] == code {
			n++
		}
	}
	return n
}

type c06sNotifiee struct {
	r *c06sRun
	n int64
}

func (f *c06sNotifiee) Listen(network.Network, ma.Multiaddr)      {}
func (f *c06sNotifiee) ListenClose(network.Network, ma.Multiaddr) {}
func (f *c06sNotifiee) Connected(_ network.Network, c network.Conn) {
	i := f.r.rec(9, c, f.n)
	if f.n == 0 {
		if f.r.closeInConnected {
			c.Close()
		}
		f.r.mu.Lock()
		var g chan struct{}
		if f.r.blockConn && !f.r.done {
			g = make(chan struct{})
			f.r.gateConn[i] = g
		}
		f.r.mu.Unlock()
		if g != nil {
			<-g
		}
	}
	f.r.rec(10, c, f.n)
}
func (f *c06sNotifiee) Disconnected(_ network.Network, c network.Conn) {
	i := f.r.rec(11, c, f.n)
	if f.n == 0 {
		f.r.mu.Lock()
		var g chan struct{}
		if f.r.blockDisc && !f.r.done {
			g = make(chan struct{})
			f.r.gateDisc[i] = g
		}
		f.r.mu.Unlock()
		if g != nil {
			<-g
		}
	}
	f.r.rec(12, c, f.n)
}

func c06sWait(cond func() bool) bool {
	deadline := time.Now().Add(20 * time.Second)
	for time.Now().Before(deadline) {
		if cond() {
			return true
		}
		time.Sleep(2 * time.Millisecond)
	}
	return cond()
}

func (r *c06sRun) releaseAll() {
	r.mu.Lock()
	for i, g := range r.gateConn {
		close(g)
		delete(r.gateConn, i)
	}
	for i, g := range r.gateDisc {
		close(g)
		delete(r.gateDisc, i)
	}
	r.mu.Unlock()
}

// script: 0 remote close in order, 1 remote close reversed, 2 local ClosePeer while Connected blocked,
// 3 Connected handler closes the conn, 4 Swarm.Close while callbacks blocked, 5 local close of each conn, streams first
func c06sScenario(t *testing.T, out *verifh.Out, nconn int, blockConn, blockDisc bool, script int) {
	bus := eventbus.NewBus()
	b := swarmt.GenSwarm(t, swarmt.OptDisableQUIC, swarmt.OptDisableWebTransport, swarmt.OptDisableWebRTC, swarmt.EventBus(bus))
	a := swarmt.GenSwarm(t, swarmt.OptDialOnly, swarmt.OptDisableQUIC, swarmt.OptDisableWebTransport, swarmt.OptDisableWebRTC)
	defer a.Close()
	r := &c06sRun{connID: map[network.Conn]int{}, gateConn: map[int]chan struct{}{}, gateDisc: map[int]chan struct{}{},
		blockConn: blockConn, blockDisc: blockDisc, closeInConnected: script == 3}
	sub, err := bus.Subscribe(new(event.EvtPeerConnectednessChanged), eventbus.BufSize(256))
	if err != nil {
		t.Fatal(err)
	}
	subDone := make(chan struct{})
	go func() {
		defer close(subDone)
		for e := range sub.Out() {
			ev := e.(event.EvtPeerConnectednessChanged)
			r.mu.Lock()
			if !r.done {
				r.labels = append(r.labels, 14, 0, int64(ev.Connectedness), 0)
				r.lastPub = ev.Connectedness
			}
			r.mu.Unlock()
		}
	}()
	b.Notify(&c06sNotifiee{r: r, n: 0})
	b.Notify(&c06sNotifiee{r: r, n: 1})
	b.SetStreamHandler(func(s network.Stream) {
		r.rec(17, s.Conn(), 0)
		s.Reset()
	})
	addr := b.ListenAddresses()[0]
	tpt := a.TransportForDialing(addr)
	ctx, cancel := context.WithTimeout(context.Background(), 10*time.Second)
	defer cancel()
	var raws []transport.CapableConn
	for k := 0; k < nconn; k++ {
		rc, err := tpt.Dial(ctx, addr, b.LocalPeer())
		if err != nil {
			t.Fatal(err)
		}
		raws = append(raws, rc)
		// an inbound stream right away: must not reach the handler before Connected returned everywhere
		go func() {
			s, err := rc.OpenStream(ctx)
			if err == nil {
				s.Write([]byte("x"))
				s.Close()
			}
		}()
	}
	c06sWait(func() bool { return r.count(9) >= 2*nconn || (blockConn && r.count(9) >= nconn) })
	if blockConn {
		time.Sleep(30 * time.Millisecond) // give a premature stream / Disconnected the chance to show up
	}
	closeDone := make(chan struct{})
	switch script {
	case 0:
		r.releaseAll()
		c06sWait(func() bool { return r.count(10) >= 2*nconn })
		for _, rc := range raws {
			rc.Close()
		}
	case 1:
		r.releaseAll()
		c06sWait(func() bool { return r.count(10) >= 2*nconn })
		for k := len(raws) - 1; k >= 0; k-- {
			raws[k].Close()
			time.Sleep(5 * time.Millisecond)
		}
	case 2:
		go b.ClosePeer(a.LocalPeer())
		time.Sleep(30 * time.Millisecond)
		r.releaseAll()
	case 3:
		time.Sleep(20 * time.Millisecond)
		r.releaseAll()
	case 4:
		go func() {
			r.rec(18, nil, 0)
			b.Close()
			r.rec(19, nil, 0)
			close(closeDone)
		}()
		time.Sleep(40 * time.Millisecond)
		r.releaseAll()
	case 5:
		r.releaseAll()
		c06sWait(func() bool { return r.count(17) >= nconn })
		for _, c := range b.ConnsToPeer(a.LocalPeer()) {
			c.Close()
		}
	}
	// quiescence: keep releasing gates until every conn that was announced has been fully handled
	ok := c06sWait(func() bool {
		r.releaseAll()
		if script == 4 {
			select {
			case <-closeDone:
				return true
			default:
				return false
			}
		}
		return r.count(12) >= 2*nconn && r.count(10) >= 2*nconn
	})
	time.Sleep(20 * time.Millisecond)
	r.mu.Lock()
	if script != 4 {
		// give the subscriber time to drain, then observe the final state
		r.mu.Unlock()
		// "once activity stops": wait (bounded) for the subscriber to have seen the event that matches the final state
		c06sWait(func() bool {
			r.mu.Lock()
			defer r.mu.Unlock()
			return len(sub.Out()) == 0 && r.lastPub == b.Connectedness(a.LocalPeer())
		})
		r.mu.Lock()
		r.labels = append(r.labels, 20, 0, int64(b.Connectedness(a.LocalPeer())), 0)
		listed := map[network.Conn]bool{}
		for _, c := range b.ConnsToPeer(a.LocalPeer()) {
			listed[c] = true
			r.id(c)
		}
		for c, i := range r.connID {
			v := int64(0)
			if listed[c] {
				v = 1
			}
			r.labels = append(r.labels, 21, int64(i), v, 0)
		}
	}
	if ok {
		r.labels = append(r.labels, 15, 0, 0, 0)
	} else {
		r.labels = append(r.labels, 16, 0, 0, 0)
	}
	r.done = true
	labels := r.labels
	r.mu.Unlock()
	bb := func(x bool) int64 {
		if x {
			return 1
		}
		return 0
	}
	meta := []int64{2, int64(nconn), bb(blockConn), bb(blockDisc), int64(script)}
	line := []int64{7, 0, int64(network.NotConnected), int64(network.Connected), int64(network.Limited), int64(len(meta))}
	line = append(line, meta...)
	line = append(line, labels...)
	out.Case(line)
	out.Cover("swarm.runs")
	if !ok {
		out.Cover("swarm.stuck")
	}
	r.releaseAll()
	b.Close()
	sub.Close()
	<-subDone
}

func TestVerifC06Swarm(t *testing.T) {
	out, err := verifh.Open()
	if err != nil {
		t.Fatal(err)
	}
	defer out.Close()
	reps := 1
	if verifh.Tier() == "thorough" {
		reps = 6
	}
	for rep := 0; rep < reps; rep++ {
		for nconn := 1; nconn <= 3; nconn++ {
			for script := 0; script <= 5; script++ {
				for gate := 0; gate < 3; gate++ {
					if (script == 2 || script == 3) && gate == 0 && rep > 0 {
						continue
					}
					c06sScenario(t, out, nconn, gate == 1, gate == 2, script)
				}
			}
		}
	}
}

func TestVerifC06SwarmReplay(t *testing.T) {
	out, err := verifh.Open()
	if err != nil {
		t.Fatal(err)
	}
	defer out.Close()
	in := verifh.ReplayCase()
	if len(in) < 11 || in[0] != 7 || in[5] < 5 {
		t.Fatal("no swarm case")
	}
	m := in[6:11]
	c06sScenario(t, out, int(m[1]), m[2] != 0, m[3] != 0, int(m[4]))
}

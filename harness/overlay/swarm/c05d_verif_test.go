//go:build verif

package swarm

// C05 harness, part 5: whole Swarm.DialPeer with concurrent callers in a synctest
// bubble: real dialSync + dialWorker + dialLimiter (small caps) + scripted
// transports whose dials hang until the harness ends them or their context is
// cancelled.  Judged by the monitor of /verif/coq/c05/SpecDialPeer.v only
// (no model replay at this level).

import (
	"context"
	"errors"
	"runtime"
	"sort"
	"strings"
	"testing/synctest"
	"time"

	"github.com/libp2p/go-libp2p/core/network"
	"github.com/libp2p/go-libp2p/internal/verifh"
	ma "github.com/multiformats/go-multiaddr"
)

type c05D struct {
	*c05W
	cancels map[int64]context.CancelFunc
	waiting map[int64]bool
	drets   [][2]int64
	ids     []int64
}

func (h *c05D) observe() {
	h.mu.Lock()
	rs := h.drets
	h.drets = nil
	st := append([]int64{}, h.newDials...)
	en := append([]int64{}, h.newEnds...)
	h.newDials, h.newEnds = nil, nil
	infFD, infPeer := int64(0), int64(0)
	for id := range h.parked {
		infPeer++
		if h.s.limiter.shouldConsumeFd(h.addrs[id]) {
			infFD++
		}
	}
	h.mu.Unlock()
	for _, r := range rs {
		delete(h.waiting, r[0])
	}
	sort.Slice(rs, func(i, j int) bool { return rs[i][0] < rs[j][0] })
	sort.Slice(st, func(i, j int) bool { return st[i] < st[j] })
	sort.Slice(en, func(i, j int) bool { return en[i] < en[j] })
	h.line = append(h.line, int64(len(rs)))
	for _, r := range rs {
		h.line = append(h.line, r[0], r[1])
	}
	h.line = append(h.line, int64(len(st)))
	h.line = append(h.line, st...)
	h.line = append(h.line, int64(len(en)))
	h.line = append(h.line, en...)
	dl := h.s.limiter
	dl.lk.Lock()
	fdC, actP := int64(dl.fdConsuming), int64(dl.activePerPeer[h.p])
	dl.lk.Unlock()
	h.s.dsync.mutex.Lock()
	nAD := int64(len(h.s.dsync.dials))
	h.s.dsync.mutex.Unlock()
	// goroutines of the dialing machinery that are still alive: counted from the stacks of
	// all goroutines (after synctest.Wait every goroutine of the bubble is parked or gone)
	left := int64(0)
	if len(h.waiting) == 0 {
		left = c05DialGoroutines()
	}
	h.line = append(h.line, infFD, infPeer, fdC, actP, nAD, left, int64(len(h.waiting)))
}

var c05DialFrames = []string{"(*dialWorker).loop", "(*dialLimiter).executeDial", "(*activeDial).dial",
	"(*Swarm).dialPeer", "(*c05Tpt).DialWithUpdates", "(*Swarm).dialAddr"}

func c05DialGoroutines() int64 {
	buf := make([]byte, 1<<20)
	n := runtime.Stack(buf, true)
	cnt := int64(0)
	for _, g := range strings.Split(string(buf[:n]), "\n\n") {
		for _, f := range c05DialFrames {
			if strings.Contains(g, f) {
				cnt++
				break
			}
		}
	}
	return cnt
}

func (h *c05D) call(c int64, sim, fdir bool) {
	ctx, cancel := context.WithCancel(context.Background())
	h.cancels[c] = cancel
	if fdir {
		ctx = network.WithForceDirectDial(ctx, "c05")
	}
	if sim {
		ctx = network.WithSimultaneousConnect(ctx, true, "c05")
	}
	h.waiting[c] = true
	go func() {
		defer func() {
			if r := recover(); r != nil {
				h.mu.Lock()
				h.drets = append(h.drets, [2]int64{c, 3}) // DialPeer panicked: reported as a wrong result
				h.mu.Unlock()
			}
		}()
		conn, err := h.s.DialPeer(ctx, h.p)
		k := int64(1)
		switch {
		case err == nil && conn != nil && conn.RemotePeer() == h.p:
			k = 0
		case err == nil:
			k = 3
		case ctx.Err() != nil && errors.Is(err, ctx.Err()):
			k = 2
		}
		h.mu.Lock()
		h.drets = append(h.drets, [2]int64{c, k})
		h.mu.Unlock()
	}()
	synctest.Wait()
	b := func(x bool) int64 {
		if x {
			return 1
		}
		return 0
	}
	h.line = append(h.line, 1, c, b(sim), b(fdir))
	h.observe()
}

func (h *c05D) advance(d time.Duration) {
	time.Sleep(d)
	synctest.Wait()
	h.line = append(h.line, 2, int64(d))
	h.observe()
}

func (h *c05D) result(id int64, kind int) {
	h.mu.Lock()
	pk := h.parked[id]
	h.mu.Unlock()
	if pk == nil {
		return
	}
	pk.cmd <- c05Cmd{kind: kind}
	synctest.Wait()
	h.line = append(h.line, 3, id, int64(kind))
	h.observe()
}

func (h *c05D) cancelCaller(c int64) {
	h.cancels[c]()
	synctest.Wait()
	h.line = append(h.line, 4, c)
	h.observe()
}

func (h *c05D) backoff(id int64) {
	h.s.backf.AddBackoff(h.p, h.addrs[id])
	synctest.Wait()
	h.line = append(h.line, 5, id)
	h.observe()
}

func (h *c05D) waitingIDs() []int64 {
	var ws []int64
	for c := range h.waiting {
		ws = append(ws, c)
	}
	sort.Slice(ws, func(i, j int) bool { return ws[i] < ws[j] })
	return ws
}

func c05DialPeerRandom(out *verifh.Out, r *verifh.Rand, size int) {
	BackoffBase, BackoffMax = 24*time.Hour, 48*time.Hour
	fdl, ppl := int64(1+r.Intn(3)), int64(1+r.Intn(4))
	h := &c05D{c05W: newC05Swarm(), cancels: map[int64]context.CancelFunc{}, waiting: map[int64]bool{}}
	h.s.limiter = newDialLimiterWithParams(h.s.dialAddr, int(fdl), int(ppl))
	h.line = []int64{5, fdl, ppl}
	// the peer's address set: mixed classes, fixed for the case
	n := 1 + r.Intn(7)
	var as []ma.Multiaddr
	for i := 1; i <= n; i++ {
		kind := []int{0, 0, 1, 2, 2, 3, 4, 5, 6, 7, 7, 8, 9}[r.Intn(13)]
		a := h.addr(int64(i), kind)
		as = append(as, a)
		h.delays[string(a.Bytes())] = c05Delays[r.Intn(len(c05Delays))]
		h.order[string(a.Bytes())] = i
		h.ids = append(h.ids, int64(i))
	}
	h.s.peers.AddAddrs(h.p, as, time.Hour)
	synctest.Wait()
	// back-off left by earlier dials
	for _, id := range h.ids {
		if r.Chance(1, 6) {
			h.backoff(id)
			out.Cover("dialpeer.op.backoff")
		}
	}
	next := int64(1)
	maxWait := 0
	sawConn, sawErr, sawCancelOthers := false, false, false
	for i := 0; i < size; i++ {
		ws := h.waitingIDs()
		if len(ws) > maxWait {
			maxWait = len(ws)
		}
		pk := h.parkedIDs()
		k := r.Intn(100)
		switch {
		case (k < 30 && len(ws) < 6) || (len(ws) == 0 && k < 70):
			h.call(next, r.Chance(1, 6), r.Chance(1, 6))
			next++
			out.Cover("dialpeer.op.call")
		case k < 50:
			h.advance(c05Advances[r.Intn(len(c05Advances))])
			out.Cover("dialpeer.op.advance")
		case k < 80 && len(pk) > 0:
			kind := 0
			if r.Chance(1, 4) {
				kind = 1
				sawConn = true
			}
			h.result(pk[r.Intn(len(pk))], kind)
			out.Cover("dialpeer.op.result")
		case k < 95 && len(ws) > 0:
			if len(ws) > 1 {
				sawCancelOthers = true
			}
			h.cancelCaller(ws[r.Intn(len(ws))])
			out.Cover("dialpeer.op.cancel")
		default:
			h.advance(c05Advances[r.Intn(len(c05Advances))])
			out.Cover("dialpeer.op.advance")
		}
	}
	// the end: remaining callers are cancelled one by one, then time passes
	for _, c := range h.waitingIDs() {
		if h.waiting[c] {
			h.cancelCaller(c)
		}
	}
	h.advance(time.Second)
	for _, rr := range h.line {
		_ = rr
	}
	_ = sawErr
	out.Cover("dialpeer.cases")
	if maxWait >= 2 {
		out.Cover("dialpeer.cases_with_concurrent_callers")
	}
	if sawConn {
		out.Cover("dialpeer.cases_with_connection")
	}
	if sawCancelOthers {
		out.Cover("dialpeer.cases_cancel_while_others_wait")
	}
	out.Case(h.line)
	h.stopped = true
	h.s.Close()
	h.s.peers.Close()
	synctest.Wait()
}

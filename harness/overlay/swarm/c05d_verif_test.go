//go:build verif

package swarm

// C05 harness, part 5: whole Swarm.DialPeer with concurrent callers in a synctest
// bubble: real dialSync + dialWorker + dialLimiter (small caps) + scripted
// transports whose dials hang until the harness ends them or their context is
// cancelled.  Judged by the monitor of /verif/coq/c05/SpecDialPeer.v only
// (no model replay at this level).

import (
	"context"
	"errors"
	"net"
	"runtime"
	"sort"
	"strconv"
	"strings"
	"testing/synctest"
	"time"

	"github.com/libp2p/go-libp2p/core/network"
	"github.com/libp2p/go-libp2p/internal/verifh"
	ma "github.com/multiformats/go-multiaddr"
	manet "github.com/multiformats/go-multiaddr/net"
)

type c05D struct {
	*c05W
	cancels map[int64]context.CancelFunc
	waiting map[int64]bool
	drets   [][2]int64
	ids     []int64
	parkCh  chan struct{}
	kinds   map[int64]int
	forms   map[int64]int
	alines  [][]int64 // addrsForDial cases (wire kind 6) recorded by call
	ipIdx   map[string]int64
	// callers with a DialPeer timeout / a context deadline of their own: the instant
	// min(call time + dial timeout, deadline) at which the call has to end (wire stimulus 8)
	expiry map[int64]c05Expiry
	lag    time.Duration // virtual time that has passed but is not recorded yet (0 or 1 ns)
}

type c05Expiry struct {
	at     time.Time
	dt, dd int64
}

// The DialPeer timeout and the caller's own deadline of a call, off the 1 ms grid on which
// the ranking delays, the clock advances and hence every other timer of a case lie, and
// different for every caller: k ms + 500 us + c us.
func c05OffGrid(c int64, ms int) time.Duration {
	return time.Duration(ms)*time.Millisecond + 500*time.Microsecond + time.Duration(c%400)*time.Microsecond
}

func (h *c05D) observe() {
	h.mu.Lock()
	rs := h.drets
	h.drets = nil
	st := append([]int64{}, h.newDials...)
	en := append([]int64{}, h.newEnds...)
	h.newDials, h.newEnds = nil, nil
	infFD, infPeer := int64(0), int64(0)
	for id := range h.parked {
		infPeer++
		if h.s.limiter.shouldConsumeFd(h.addrs[id]) {
			infFD++
		}
	}
	h.mu.Unlock()
	for _, r := range rs {
		delete(h.waiting, r[0])
	}
	sort.Slice(rs, func(i, j int) bool { return rs[i][0] < rs[j][0] })
	sort.Slice(st, func(i, j int) bool { return st[i] < st[j] })
	sort.Slice(en, func(i, j int) bool { return en[i] < en[j] })
	h.line = append(h.line, int64(len(rs)))
	for _, r := range rs {
		h.line = append(h.line, r[0], r[1])
	}
	h.line = append(h.line, int64(len(st)))
	h.line = append(h.line, st...)
	h.line = append(h.line, int64(len(en)))
	h.line = append(h.line, en...)
	dl := h.s.limiter
	dl.lk.Lock()
	fdC, actP := int64(dl.fdConsuming), int64(dl.activePerPeer[h.p])
	dl.lk.Unlock()
	h.s.dsync.mutex.Lock()
	nAD := int64(len(h.s.dsync.dials))
	h.s.dsync.mutex.Unlock()
	// goroutines of the dialing machinery that are still alive: counted from the stacks of
	// all goroutines (after synctest.Wait every goroutine of the bubble is parked or gone)
	left := int64(0)
	if len(h.waiting) == 0 {
		left = c05DialGoroutines()
	}
	h.line = append(h.line, infFD, infPeer, fdC, actP, nAD, left, int64(len(h.waiting)))
}

var c05DialFrames = []string{"(*dialWorker).loop", "(*dialLimiter).executeDial", "(*activeDial).dial",
	"(*Swarm).dialPeer", "(*c05Tpt).DialWithUpdates", "(*Swarm).dialAddr"}

func c05DialGoroutines() int64 {
	buf := make([]byte, 1<<20)
	n := runtime.Stack(buf, true)
	cnt := int64(0)
	for _, g := range strings.Split(string(buf[:n]), "\n\n") {
		for _, f := range c05DialFrames {
			if strings.Contains(g, f) {
				cnt++
				break
			}
		}
	}
	return cnt
}

func (h *c05D) call(c int64, sim, fdir bool) { h.callT(c, sim, fdir, 0, -1) }

// callT: a call with the DialPeer timeout dt (0: one hour, never reached in a case) on a context
// whose own deadline is dd after the call (dd < 0: none).
func (h *c05D) callT(c int64, sim, fdir bool, dt, dd time.Duration) {
	ctx, cancel := context.WithCancel(context.Background())
	h.cancels[c] = cancel
	t0 := time.Now()
	if dd >= 0 {
		ctx, _ = context.WithDeadline(ctx, t0.Add(dd))
	}
	if dt > 0 {
		e := c05Expiry{at: t0.Add(dt), dt: int64(dt), dd: -1}
		if dd >= 0 {
			e.dd = int64(dd)
			if dd < dt {
				e.at = t0.Add(dd)
			}
		}
		h.expiry[c] = e
	} else {
		dt = time.Hour
		if dd >= 0 {
			h.expiry[c] = c05Expiry{at: t0.Add(dd), dt: int64(dt), dd: int64(dd)}
		}
	}
	if fdir {
		ctx = network.WithForceDirectDial(ctx, "c05")
	}
	if sim {
		ctx = network.WithSimultaneousConnect(ctx, true, "c05")
	}
	ctx = network.WithDialPeerTimeout(ctx, dt)
	// what addrsForDial + rankAddrs answer for this request now (the gater is not left
	// armed while the harness itself calls addrsForDial)
	h.gater.mu.Lock()
	armed := h.gater.park
	h.gater.park = nil
	h.gater.mu.Unlock()
	good, addrErrs, aerr := h.s.addrsForDial(ctx, h.p)
	h.recordAddrs(fdir, good, addrErrs)
	var rk []network.AddrDelay
	if aerr == nil {
		in := append([]ma.Multiaddr{}, good...)
		if sim {
			rk = NoDelayDialRanker(in)
		} else {
			rk = h.s.dialRanker(in)
		}
	}
	h.gater.mu.Lock()
	h.gater.park = armed
	h.gater.mu.Unlock()
	h.waiting[c] = true
	go func() {
		defer func() {
			if r := recover(); r != nil {
				h.mu.Lock()
				h.drets = append(h.drets, [2]int64{c, 3}) // DialPeer panicked: reported as a wrong result
				h.mu.Unlock()
			}
		}()
		conn, err := h.s.DialPeer(ctx, h.p)
		k := int64(1)
		switch {
		case err == nil && conn != nil && conn.RemotePeer() == h.p:
			k = 0
		case err == nil:
			k = 3
		case ctx.Err() != nil && errors.Is(err, ctx.Err()):
			k = 2
		case errors.Is(err, context.DeadlineExceeded) && !time.Now().Before(t0.Add(dt)):
			k = 2 // the dial timeout has ended: the deadline error of the call's own context
		}
		cancel()
		h.mu.Lock()
		h.drets = append(h.drets, [2]int64{c, k})
		h.mu.Unlock()
	}()
	synctest.Wait()
	b := func(x bool) int64 {
		if x {
			return 1
		}
		return 0
	}
	h.line = append(h.line, 1, c, b(sim), b(fdir), b(aerr == nil), int64(len(rk)))
	for _, e := range rk {
		h.line = append(h.line, h.idOf(e.Addr), int64(e.Delay))
	}
	h.observe()
}

// the connection gater parks the next request handling of a worker loop
func (h *c05D) park() {
	h.parkCh = make(chan struct{})
	h.gater.mu.Lock()
	h.gater.park = h.parkCh
	h.gater.mu.Unlock()
	synctest.Wait()
	h.line = append(h.line, 6)
	h.observe()
}

func (h *c05D) release() {
	h.gater.mu.Lock()
	h.gater.park = nil
	h.gater.mu.Unlock()
	if h.parkCh != nil {
		close(h.parkCh)
		h.parkCh = nil
	}
	synctest.Wait()
	h.line = append(h.line, 7)
	h.observe()
}

// the earliest instant in (now, now+d] at which the call of a caller still inside has to end
func (h *c05D) nextExpiry(d time.Duration) (int64, c05Expiry, bool) {
	lim := time.Now().Add(d)
	best, found := int64(0), false
	for c, e := range h.expiry {
		if !h.waiting[c] {
			delete(h.expiry, c)
			continue
		}
		if e.at.After(lim) {
			continue
		}
		if !found || e.at.Before(h.expiry[best].at) || (e.at.Equal(h.expiry[best].at) && c < best) {
			best, found = c, true
		}
	}
	return best, h.expiry[best], found
}

// Virtual time advances by d.  When the DialPeer timeout or the context deadline of a caller
// that is still inside lies on the way, the clock is stopped 1 ns before that instant
// (stimulus 2), the 1 ns step across it is recorded as stimulus 8 for that caller, and the 1 ns
// is added to the next recorded advance (nothing else is scheduled within it: see c05OffGrid).
func (h *c05D) advance(d time.Duration) {
	for {
		c, e, ok := h.nextExpiry(d)
		if !ok {
			break
		}
		rem := e.at.Sub(time.Now())
		if rem > 1 {
			time.Sleep(rem - 1)
			synctest.Wait()
			h.line = append(h.line, 2, int64(rem-1+h.lag))
			h.lag = 0
			h.observe()
		}
		if rem >= 1 {
			time.Sleep(1)
			h.lag++
			d -= rem
		}
		synctest.Wait()
		delete(h.expiry, c)
		h.line = append(h.line, 8, c, e.dt, e.dd)
		h.observe()
	}
	if d > 0 || h.lag > 0 {
		time.Sleep(d)
		synctest.Wait()
		h.line = append(h.line, 2, int64(d+h.lag))
		h.lag = 0
		h.observe()
	}
}

func (h *c05D) result(id int64, kind int) {
	h.mu.Lock()
	pk := h.parked[id]
	h.mu.Unlock()
	if pk == nil {
		return
	}
	flag := int64(0)
	if kind == 1 && !isRelayAddr(h.addrs[id]) {
		flag = 1
	}
	pk.cmd <- c05Cmd{kind: kind}
	synctest.Wait()
	wire := int64(kind)
	if kind == 5 {
		wire = 0 // a connection to another peer is a failure of that address
	}
	h.line = append(h.line, 3, id, wire, flag)
	h.observe()
}

// the back-off of the peer expires (cleared as a whole)
func (h *c05D) backoffExpires() {
	h.s.backf.Clear(h.p)
	synctest.Wait()
	h.line = append(h.line, 5, -1)
	h.observe()
}

func (h *c05D) cancelCaller(c int64) {
	delete(h.expiry, c)
	h.cancels[c]()
	synctest.Wait()
	h.line = append(h.line, 4, c)
	h.observe()
}

func (h *c05D) backoff(id int64) {
	h.s.backf.AddBackoff(h.p, h.addrs[id])
	synctest.Wait()
	h.line = append(h.line, 5, id)
	h.observe()
}

// header: the FD-consuming addresses of the case
func (h *c05D) header() {
	var fds []int64
	for _, id := range h.ids {
		if h.s.limiter.shouldConsumeFd(h.addrs[id]) {
			fds = append(fds, id)
		}
	}
	h.line = append(h.line, int64(len(fds)))
	h.line = append(h.line, fds...)
}

func (h *c05D) finishCase() {
	for _, c := range h.waitingIDs() {
		if h.waiting[c] {
			h.cancelCaller(c)
		}
	}
	if h.parkCh != nil {
		h.release()
	}
	h.advance(time.Second)
}

func (h *c05D) waitingIDs() []int64 {
	var ws []int64
	for c := range h.waiting {
		ws = append(ws, c)
	}
	sort.Slice(ws, func(i, j int) bool { return ws[i] < ws[j] })
	return ws
}

func c05DialPeerRandom(out *verifh.Out, r *verifh.Rand, size int) {
	fdl, ppl := int64(1+r.Intn(3)), int64(1+r.Intn(4))
	h := newC05D(fdl, ppl)
	// the peer's address set: mixed classes, fixed for the case
	n := 1 + r.Intn(7)
	var kinds []int
	var dls []time.Duration
	var forms []int
	var ports []int
	aliased, paired := false, false
	// a swarm with a subset of the transports (one case in three)
	if r.Chance(1, 3) {
		h.direct.caps = (1 + r.Intn(15)) << 1
		out.Cover("dialpeer.cases_with_transport_subset")
	}
	for i := 1; i <= n; i++ {
		k := []int{0, 0, 1, 2, 2, 3, 4, 5, 6, 7, 7, 8, 9, 12, 13, 14}[r.Intn(16)]
		pt := 0
		// the fallback address of the previous one on the same ip:port: /ws next to /tcp, /webtransport next to /quic-v1
		if i > 1 && r.Chance(1, 3) {
			switch kinds[i-2] {
			case 0:
				k, pt, paired = 10, i-1, true
				if ports[i-2] != 0 {
					pt = ports[i-2]
				}
			case 2:
				k, pt, paired = 11, i-1, true
				if ports[i-2] != 0 {
					pt = ports[i-2]
				}
			}
		}
		kinds = append(kinds, k)
		ports = append(ports, pt)
		dls = append(dls, c05Delays[r.Intn(len(c05Delays))])
		// half of the addresses are known literally only; the others in a random set of forms
		f := 1
		if r.Chance(1, 2) {
			f = 1 + r.Intn(63)
			aliased = true
		}
		forms = append(forms, f)
	}
	if paired {
		out.Cover("dialpeer.cases_with_tcp_ws_or_quic_wt_on_one_port")
	}
	h.setAddrFormsPorts(kinds, dls, forms, ports)
	if aliased {
		out.Cover("dialpeer.cases_with_aliased_addresses")
	}
	// back-off left by earlier dials
	for _, id := range h.ids {
		if r.Chance(1, 6) {
			h.backoff(id)
			out.Cover("dialpeer.op.backoff")
		}
	}
	next := int64(1)
	maxWait := 0
	sawConn, sawErr, sawCancelOthers := false, false, false
	timedCase := r.Chance(1, 3)
	for i := 0; i < size; i++ {
		ws := h.waitingIDs()
		if len(ws) > maxWait {
			maxWait = len(ws)
		}
		pk := h.parkedIDs()
		k := r.Intn(100)
		switch {
		case (k < 30 && len(ws) < 6) || (len(ws) == 0 && k < 70):
			if timedCase && r.Chance(1, 2) {
				// the DialPeer timeout of the call and the caller's own deadline: none, earlier, later, equal
				dt := c05OffGrid(next, []int{40, 300, 700, 1500, 3000}[r.Intn(5)])
				dd := time.Duration(-1)
				switch r.Intn(4) {
				case 1:
					dd = c05OffGrid(next, []int{10, 100, 250}[r.Intn(3)])
					if dd >= dt {
						dd = dt / 2
					}
					out.Cover("dialpeer.op.call_with_context_deadline_before_dial_timeout")
				case 2:
					dd = dt + time.Duration(1+r.Intn(15))*time.Second
					out.Cover("dialpeer.op.call_with_context_deadline_after_dial_timeout")
				case 3:
					dd = dt
					out.Cover("dialpeer.op.call_with_context_deadline_equal_to_dial_timeout")
				default:
					out.Cover("dialpeer.op.call_with_dial_timeout_only")
				}
				h.callT(next, r.Chance(1, 6), r.Chance(1, 6), dt, dd)
			} else {
				h.call(next, r.Chance(1, 6), r.Chance(1, 6))
			}
			next++
			out.Cover("dialpeer.op.call")
		case k < 50:
			h.advance(c05Advances[r.Intn(len(c05Advances))])
			out.Cover("dialpeer.op.advance")
		case k < 80 && len(pk) > 0:
			kind := 0
			if r.Chance(1, 4) {
				kind = 1
				sawConn = true
			} else if r.Chance(1, 5) {
				kind = 5
				out.Cover("dialpeer.op.result_wrong_peer")
			}
			h.result(pk[r.Intn(len(pk))], kind)
			out.Cover("dialpeer.op.result")
		case k < 83 && len(ws) > 0:
			h.backoffExpires()
			out.Cover("dialpeer.op.backoff_expires")
		case k < 95 && len(ws) > 0:
			if len(ws) > 1 {
				sawCancelOthers = true
			}
			h.cancelCaller(ws[r.Intn(len(ws))])
			out.Cover("dialpeer.op.cancel")
		default:
			h.advance(c05Advances[r.Intn(len(c05Advances))])
			out.Cover("dialpeer.op.advance")
		}
	}
	// the end: remaining callers are cancelled one by one, then time passes
	h.finishCase()
	_ = sawErr
	out.Cover("dialpeer.cases")
	if maxWait >= 2 {
		out.Cover("dialpeer.cases_with_concurrent_callers")
	}
	if sawConn {
		out.Cover("dialpeer.cases_with_connection")
	}
	if sawCancelOthers {
		out.Cover("dialpeer.cases_cancel_while_others_wait")
	}
	h.end(out)
}

func newC05D(fdl, ppl int64) *c05D {
	BackoffBase, BackoffMax = 24*time.Hour, 48*time.Hour
	h := &c05D{c05W: newC05Swarm(), cancels: map[int64]context.CancelFunc{}, waiting: map[int64]bool{},
		kinds: map[int64]int{}, forms: map[int64]int{}, ipIdx: map[string]int64{}, expiry: map[int64]c05Expiry{}}
	h.s.limiter = newDialLimiterWithParams(h.s.dialAddr, int(fdl), int(ppl))
	h.line = []int64{5, fdl, ppl}
	return h
}

func (h *c05D) setAddrs(kinds []int, delays []time.Duration) {
	h.setAddrForms(kinds, delays, nil)
}

// How an address of the case is known to the peerstore (bit mask): 1 literally, 2 literally with
// a trailing /p2p/<peer>, 4 as a /dns4 name, 8 / 16 / 32 through the /dnsaddr name of the case
// whose record gives the address / the address with /p2p/<peer> / its /dns4 form.  All of them
// are the same address to the transports; addrsForDial has to hand it to the worker once.
const c05DnsaddrName = "d.c05.test"

func c05Dns4Form(a ma.Multiaddr) (ma.Multiaddr, string, net.IP) {
	first, rest := ma.SplitFirst(a)
	if first == nil || first.Protocol().Code != ma.P_IP4 {
		return nil, "", nil
	}
	ip := net.ParseIP(first.Value())
	name := "n-" + strings.ReplaceAll(first.Value(), ".", "-") + ".c05.test"
	d := ma.StringCast("/dns4/" + name)
	if rest != nil {
		d = d.Encapsulate(rest)
	}
	return d, name, ip
}

func (h *c05D) setAddrForms(kinds []int, delays []time.Duration, forms []int) {
	h.setAddrFormsPorts(kinds, delays, forms, nil)
}

// ports[i] != 0: address i+1 uses the port of address ports[i] (an ip:port shared by a /tcp and a
// /ws address, or by a /quic-v1 and a /webtransport address, when the kinds have the same ip)
func (h *c05D) setAddrFormsPorts(kinds []int, delays []time.Duration, forms []int, ports []int) {
	var as []ma.Multiaddr
	var txt []string
	suffix := ma.StringCast("/p2p/" + h.p.String())
	for i, k := range kinds {
		port := int64(3000 + i + 1)
		if ports != nil && ports[i] != 0 {
			port = int64(3000 + ports[i])
		}
		a := h.addrPort(int64(i+1), k, port)
		h.delays[string(a.Bytes())] = delays[i]
		h.order[string(a.Bytes())] = i + 1
		h.ids = append(h.ids, int64(i+1))
		h.kinds[int64(i+1)] = k
		f := 1
		if forms != nil {
			f = forms[i]
		}
		d4, name, ip := c05Dns4Form(a)
		if k == 7 || k >= 8 { // relayed / undialable / unspecified: literal forms only
			f &= 3
			d4 = nil
		}
		if d4 == nil {
			f &^= 4 | 32
		} else if f&(4|32) != 0 {
			h.dnsIP[name] = []net.IPAddr{{IP: ip}}
		}
		if f == 0 {
			f = 1
		}
		h.forms[int64(i+1)] = f
		if f&1 != 0 {
			as = append(as, a)
		}
		if f&2 != 0 {
			as = append(as, a.Encapsulate(suffix))
		}
		if f&4 != 0 {
			as = append(as, d4)
		}
		if f&8 != 0 {
			txt = append(txt, "dnsaddr="+a.String())
		}
		if f&16 != 0 {
			txt = append(txt, "dnsaddr="+a.Encapsulate(suffix).String())
		}
		if f&32 != 0 {
			txt = append(txt, "dnsaddr="+d4.String())
		}
	}
	if len(txt) > 0 {
		h.dnsTXT["_dnsaddr."+c05DnsaddrName] = txt
		as = append(as, ma.StringCast("/dnsaddr/"+c05DnsaddrName))
	}
	h.s.peers.AddAddrs(h.p, as, time.Hour)
	h.header()
	synctest.Wait()
}

// one addrsForDial case (wire kind 6, /verif/coq/c05/SpecAddrs.v): the table of the addresses as
// the harness built them, the peerstore entries by what they resolve to, and the answer
func (h *c05D) recordAddrs(fdir bool, good []ma.Multiaddr, errs []TransportError) {
	b := func(x bool) int64 {
		if x {
			return 1
		}
		return 0
	}
	line := []int64{6, b(fdir), int64(len(h.ids))}
	for _, id := range h.ids {
		a, k := h.addrs[id], h.kinds[id]
		cls := c05Class(a)
		grp := int64(0)
		if ip, err := manet.ToIP(a); err == nil {
			key := ip.String()
			if _, ok := h.ipIdx[key]; !ok {
				h.ipIdx[key] = int64(len(h.ipIdx) + 1)
			}
			ps, err := a.ValueForProtocol(ma.P_TCP)
			if err != nil {
				ps, _ = a.ValueForProtocol(ma.P_UDP)
			}
			pn, _ := strconv.Atoi(ps)
			grp = h.ipIdx[key]*100000 + int64(pn)
		}
		relayed := k == 7 || k >= 12
		tpt := k != 8 && (relayed || h.direct.caps == 0 || h.direct.caps&(1<<cls) != 0)
		line = append(line, id, int64(cls), grp, b(tpt), b(k == 9), b(relayed))
	}
	var ents [][]int64
	var dnsaddr []int64
	for _, id := range h.ids {
		f := h.forms[id]
		for _, bit := range []int{1, 2, 4} {
			if f&bit != 0 {
				ents = append(ents, []int64{id, b(bit == 2)})
			}
		}
		for _, bit := range []int{8, 16, 32} {
			if f&bit != 0 {
				dnsaddr = append(dnsaddr, id, b(bit == 16))
			}
		}
	}
	if len(dnsaddr) > 0 {
		ents = append(ents, dnsaddr)
	}
	line = append(line, int64(len(ents)))
	for _, e := range ents {
		line = append(line, int64(len(e)/2))
		line = append(line, e...)
	}
	line = append(line, int64(len(good)))
	for _, a := range good {
		line = append(line, h.idOf(a))
	}
	line = append(line, int64(len(errs)))
	for _, e := range errs {
		line = append(line, h.idOf(e.Address))
	}
	h.alines = append(h.alines, line)
}

func (h *c05D) end(out *verifh.Out) {
	out.Case(h.line)
	for _, l := range h.alines {
		out.Case(l)
	}
	h.stopped = true
	h.s.Close()
	h.s.peers.Close()
	synctest.Wait()
}

// Fixed corpus scenario: a worker loop of an earlier activeDial that is slow to return
// (here: parked in the connection gater, i.e. in user code) runs its deferred
// clearAllPeerDials(p) after a NEW activeDial for the same peer has queued jobs on the
// per-peer limit.  perPeerLimit 1, two TCP addresses.
func c05DialPeerStaleExit(out *verifh.Out) {
	h := newC05D(4, 1)
	h.setAddrs([]int{0, 0}, []time.Duration{0, 0})
	h.call(1, false, false) // worker 1: dials address 1, address 2 queued on the peer limit
	h.park()
	h.call(2, false, false) // worker 1 parks in the gater while handling this request
	h.cancelCaller(1)
	h.cancelCaller(2) // last caller: shared context cancelled, reqch closed; worker 1 still parked
	h.call(3, false, false) // a new activeDial and worker 2: address 1 dialed, address 2 queued
	h.release()             // worker 1 returns: clearAllPeerDials(p)
	h.result(1, 0)          // address 1 fails; address 2 should be dialed now
	h.advance(2 * time.Second)
	h.advance(2 * time.Second)
	h.finishCase()
	out.Cover("dialpeer.corpus_stale_worker_exit")
	h.end(out)
}

// A caller that is cancelled while it is still blocked sending its request (the worker loop
// is parked in the connection gater handling another request) leaves without touching the
// dials the other callers wait for.
func c05DialPeerSendCancel(out *verifh.Out) {
	h := newC05D(4, 2)
	h.setAddrs([]int{0, 0}, []time.Duration{0, 0})
	h.call(1, false, false) // the worker dials addresses 1 and 2
	h.park()
	h.call(2, false, false) // the worker parks in the gater while handling this request
	h.call(3, false, false) // blocked on reqch: the loop is not receiving
	h.cancelCaller(3)       // first select of dialSync.Dial: only this caller leaves
	h.release()
	h.result(1, 1) // address 1 connects: callers 1 and 2 return with the connection
	h.advance(2 * time.Second)
	h.finishCase()
	out.Cover("dialpeer.cancel_while_sending")
	h.end(out)
}

// A peer known by a /dnsaddr name whose record gives <addr>/p2p/<peer>.  The first addrsForDial
// writes the resolved address back to the peerstore; from then on the name and the cached address
// both lead to <addr>, which must still be handed to the worker - and to the transport - once.
func c05DialPeerDnsaddrTwice(out *verifh.Out) {
	h := newC05D(4, 4)
	h.setAddrForms([]int{0, 0}, []time.Duration{250 * time.Millisecond, 250 * time.Millisecond}, []int{16, 2 | 32})
	h.call(1, false, false)
	h.advance(300 * time.Millisecond) // both addresses are being dialed
	h.call(2, false, false)           // a second dial while the resolved addresses are cached
	h.advance(time.Second)
	h.result(1, 0) // address 1 fails
	h.call(3, false, false)
	h.advance(300 * time.Millisecond)
	h.result(2, 1) // address 2 connects: everybody returns
	h.advance(2 * time.Second)
	h.finishCase()
	out.Cover("dialpeer.dnsaddr_peer_dialed_twice")
	h.end(out)
}

// A swarm that can dial WebSocket but not raw TCP (and WebTransport but not QUIC), a peer that
// advertises both on one ip:port: the fallback address is dialed, the preferred one is reported.
func c05DialPeerFallbackTransport(out *verifh.Out) {
	h := newC05D(4, 4)
	h.direct.caps = 1<<2 | 1<<4
	h.setAddrFormsPorts([]int{0, 10, 2, 11}, []time.Duration{0, 0, 0, 0}, []int{1, 1, 1, 1}, []int{0, 1, 0, 3})
	h.call(1, false, false)
	h.advance(time.Second)
	h.result(2, 0)
	h.result(4, 1)
	h.advance(2 * time.Second)
	h.finishCase()
	out.Cover("dialpeer.fallback_transport_only")
	h.end(out)
}

// A dial that ends connected to another peer is a failure of that address only: the call goes
// on with the addresses that are still pending.
func c05DialPeerWrongPeerConn(out *verifh.Out) {
	for _, first := range []int64{1, 2} {
		h := newC05D(4, 4)
		h.setAddrs([]int{0, 0}, []time.Duration{0, 0})
		h.call(1, false, false)
		h.advance(10 * time.Millisecond)
		if first == 1 {
			h.result(1, 5) // the stale address finishes first, with a connection to somebody else
			h.advance(time.Second)
			h.result(2, 1) // the genuine address connects
		} else {
			h.result(2, 0)
			h.result(1, 5) // every candidate has failed now: only now an error
		}
		h.advance(2 * time.Second)
		h.finishCase()
		out.Cover("dialpeer.wrong_peer_connection")
		h.end(out)
	}
}

// An earlier dial left address 1 in back-off.  Caller 1 dials: address 1 is refused, the caller
// keeps waiting on address 2, which hangs.  The back-off expires.  Caller 2 joins the same
// worker: address 1 has to be attempted for it.
func c05DialPeerBackoffExpires(out *verifh.Out) {
	h := newC05D(4, 4)
	h.setAddrs([]int{0, 0}, []time.Duration{0, 0})
	h.backoff(1)
	h.call(1, false, false)
	h.advance(10 * time.Millisecond)
	h.backoffExpires()
	h.call(2, false, false)
	h.advance(2 * time.Second)
	h.result(1, 1)
	h.advance(2 * time.Second)
	h.finishCase()
	out.Cover("dialpeer.backoff_expires_second_caller")
	h.end(out)
}

// The DialPeer timeout and the caller's own deadline: every address hangs; four callers with a
// dial timeout only, a context deadline later than / earlier than / equal to the dial timeout,
// next to a caller without either who keeps waiting for the shared attempts.  Each of the four
// has to return at min(call time + dial timeout, deadline); the shared dials go on.
func c05DialPeerTimeouts(out *verifh.Out, joinLate bool) {
	h := newC05D(4, 4)
	h.setAddrs([]int{0, 2}, []time.Duration{0, 250 * time.Millisecond})
	h.call(1, false, false)
	h.callT(2, false, false, c05OffGrid(2, 300), -1)
	h.callT(3, false, false, c05OffGrid(3, 300), 15*time.Second) // deadline later than the dial timeout
	if joinLate {
		h.advance(100 * time.Millisecond)
	}
	h.callT(4, false, false, c05OffGrid(4, 700), c05OffGrid(4, 100)) // deadline earlier
	h.callT(5, false, false, c05OffGrid(5, 500), c05OffGrid(5, 500)) // equal
	h.advance(2 * time.Second)
	h.cancelCaller(1)
	// a single caller whose later deadline must not replace the dial timeout
	h.callT(6, false, false, c05OffGrid(6, 40), time.Minute)
	h.advance(time.Second)
	h.advance(2 * time.Second)
	h.finishCase()
	out.Cover("dialpeer.corpus_dial_timeout_and_context_deadline")
	h.end(out)
}

//go:build verif

package swarm

// C01 correspondence harness, swarm part (injected with `go test -overlay`; not
// part of /repo): a dial for peer P never hands the caller a connection whose
// RemotePeer() is not P.  A real Swarm with a transport that returns connections
// authenticated as whoever the script says.  kind 0 = Swarm.dialAddr, 1 =
// Swarm.DialPeer end to end, 2 = Swarm.dialPeer with a dial synchroniser that
// hands back a connection of the scripted peer.  Wire format: /verif/coq/c01/Spec.v (tag 4).

import (
	"context"
	"crypto/rand"
	"errors"
	"sync"
	"sync/atomic"
	"testing"
	"time"

	ic "github.com/libp2p/go-libp2p/core/crypto"
	"github.com/libp2p/go-libp2p/core/network"
	"github.com/libp2p/go-libp2p/core/peer"
	"github.com/libp2p/go-libp2p/core/peerstore"
	"github.com/libp2p/go-libp2p/core/transport"
	"github.com/libp2p/go-libp2p/internal/verifh"
	"github.com/libp2p/go-libp2p/p2p/host/eventbus"
	"github.com/libp2p/go-libp2p/p2p/host/peerstore/pstoremem"
	ma "github.com/multiformats/go-multiaddr"
)

type c01Conn struct {
	local, remote peer.ID
	raddr         ma.Multiaddr
	tpt           transport.Transport
	closed        chan struct{}
	once          sync.Once
	nclosed       *atomic.Int64
}

func (c *c01Conn) Close() error {
	c.once.Do(func() { close(c.closed); c.nclosed.Add(1) })
	return nil
}
func (c *c01Conn) CloseWithError(network.ConnErrorCode) error { return c.Close() }
func (c *c01Conn) IsClosed() bool {
	select {
	case <-c.closed:
		return true
	default:
		return false
	}
}
func (c *c01Conn) OpenStream(context.Context) (network.MuxedStream, error) {
	return nil, errors.New("c01: no streams")
}
func (c *c01Conn) AcceptStream() (network.MuxedStream, error) {
	<-c.closed
	return nil, errors.New("c01: closed")
}
func (c *c01Conn) As(any) bool                        { return false }
func (c *c01Conn) LocalPeer() peer.ID                 { return c.local }
func (c *c01Conn) RemotePeer() peer.ID                { return c.remote }
func (c *c01Conn) RemotePublicKey() ic.PubKey         { return nil }
func (c *c01Conn) ConnState() network.ConnectionState { return network.ConnectionState{} }
func (c *c01Conn) LocalMultiaddr() ma.Multiaddr       { return ma.StringCast("/ip4/127.0.0.1/tcp/1") }
func (c *c01Conn) RemoteMultiaddr() ma.Multiaddr      { return c.raddr }
func (c *c01Conn) Scope() network.ConnScope           { return &network.NullScope{} }
func (c *c01Conn) Transport() transport.Transport     { return c.tpt }

// a transport that authenticates whoever the script says (a buggy or malicious transport)
type c01Tpt struct {
	local   peer.ID
	remote  peer.ID // "" = the dial fails
	nclosed atomic.Int64
	ndials  atomic.Int64
}

func (t *c01Tpt) conn(a ma.Multiaddr) *c01Conn {
	return &c01Conn{local: t.local, remote: t.remote, raddr: a, tpt: t, closed: make(chan struct{}), nclosed: &t.nclosed}
}
func (t *c01Tpt) Dial(ctx context.Context, a ma.Multiaddr, p peer.ID) (transport.CapableConn, error) {
	t.ndials.Add(1)
	if t.remote == "" {
		return nil, errors.New("c01 scripted dial failure")
	}
	return t.conn(a), nil
}
func (t *c01Tpt) CanDial(a ma.Multiaddr) bool                     { return true }
func (t *c01Tpt) Listen(ma.Multiaddr) (transport.Listener, error) { return nil, errors.New("c01: no listen") }
func (t *c01Tpt) Protocols() []int                                { return []int{ma.P_TCP} }
func (t *c01Tpt) Proxy() bool                                     { return false }

func c01NewPeer() (ic.PrivKey, peer.ID) {
	priv, _, err := ic.GenerateEd25519Key(rand.Reader)
	if err != nil {
		panic(err)
	}
	id, _ := peer.IDFromPrivateKey(priv)
	return priv, id
}

func TestVerifNothing(t *testing.T) {}

func TestVerifC01Swarm(t *testing.T) {
	out, err := verifh.Open()
	if err != nil {
		t.Fatal(err)
	}
	defer out.Close()
	// peers 1..4; the local peer is number 1
	var ids [5]peer.ID
	var privs [5]ic.PrivKey
	for i := 1; i <= 4; i++ {
		privs[i], ids[i] = c01NewPeer()
	}
	num := func(id peer.ID) int64 {
		for i := 1; i <= 4; i++ {
			if ids[i] == id {
				return int64(i)
			}
		}
		return 9
	}
	addr := ma.StringCast("/ip4/1.2.3.4/tcp/4001")
	reps := 3
	if verifh.Tier() == "thorough" {
		reps = 40
	}
	for rep := 0; rep < reps; rep++ {
		for kind := 0; kind <= 2; kind++ {
			for p := 1; p <= 4; p++ {
				for remote := 0; remote <= 4; remote++ {
					ps, err := pstoremem.NewPeerstore()
					if err != nil {
						t.Fatal(err)
					}
					ps.AddPubKey(ids[1], privs[1].GetPublic())
					ps.AddPrivKey(ids[1], privs[1])
					s, err := NewSwarm(ids[1], ps, eventbus.NewBus(), WithDialTimeout(5*time.Second),
						WithUDPBlackHoleSuccessCounter(nil), WithIPv6BlackHoleSuccessCounter(nil))
					if err != nil {
						t.Fatal(err)
					}
					tpt := &c01Tpt{local: ids[1]}
					if remote != 0 {
						tpt.remote = ids[remote]
					}
					if err := s.AddTransport(tpt); err != nil {
						t.Fatal(err)
					}
					ps.AddAddr(ids[p], addr, peerstore.PermanentAddrTTL)
					var ok, rr int64
					ctx, cancel := context.WithTimeout(context.Background(), 5*time.Second)
					switch kind {
					case 0:
						c, err := s.dialAddr(ctx, ids[p], addr, nil)
						if err == nil && c != nil {
							ok, rr = 1, num(c.RemotePeer())
						}
					case 1:
						c, err := s.DialPeer(ctx, ids[p])
						if err == nil && c != nil {
							ok, rr = 1, num(c.RemotePeer())
						}
					case 2:
						s.dsync = newDialSync(func(_ peer.ID, reqch <-chan dialRequest) {
							for req := range reqch {
								if tpt.remote == "" {
									req.resch <- dialResponse{err: errors.New("c01 scripted dial failure")}
									continue
								}
								c, err := s.addConn(tpt.conn(addr), network.DirOutbound)
								req.resch <- dialResponse{conn: c, err: err}
							}
						})
						c, err := s.dialPeer(ctx, ids[p])
						if err == nil && c != nil {
							ok, rr = 1, num(c.RemotePeer())
						}
					}
					cancel()
					if ok == 0 && remote != 0 && p != 1 && remote != p && tpt.nclosed.Load() > 0 {
						out.Cover("swarm_wrong_peer_conn_closed")
					}
					if ok == 1 {
						out.Cover("swarm_dial_returned_conn")
					} else {
						out.Cover("swarm_dial_refused")
					}
					out.Cover([]string{"swarm_dialAddr", "swarm_DialPeer", "swarm_dialPeer_after_dialsync"}[kind])
					out.Case([]int64{4, 1, int64(p), int64(kind), int64(remote), ok, rr})
					s.Close()
				}
			}
		}
	}
}

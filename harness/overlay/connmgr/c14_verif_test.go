//go:build verif

package connmgr

// C14 correspondence harness (injected with `go test -overlay`; not part of
// /repo).  Drives the real BasicConnMgr (and its decayer) inside a
// testing/synctest bubble (virtual time, exact quiescence after the
// asynchronous decayer commands) with fake network.Conns that record
// CloseWithError, and writes one case per line in the wire format documented
// in /verif/coq/c14/Spec.v.

import (
	"bytes"
	"context"
	"fmt"
	"runtime"
	"sort"
	"strings"
	"sync"
	"testing"
	"testing/synctest"
	"time"

	"github.com/benbjohnson/clock"
	"github.com/libp2p/go-libp2p/core/connmgr"
	"github.com/libp2p/go-libp2p/core/network"
	"github.com/libp2p/go-libp2p/core/peer"
	"github.com/libp2p/go-libp2p/internal/verifh"
	ma "github.com/multiformats/go-multiaddr"
)

const (
	c14NP    = 6 // peers
	c14NC    = 4 // connection identities per peer
	c14NT    = 3 // plain tags
	c14NG    = 2 // protection tags
	c14ND    = 2 // decaying tags
	c14Unit  = time.Second
	c14HiOff = 1 << 30
)

type c14Rec struct {
	mu     sync.Mutex
	closed map[[2]int]int
}

func (r *c14Rec) add(p, c int) {
	r.mu.Lock()
	r.closed[[2]int{p, c}]++
	r.mu.Unlock()
}

// take returns the recorded closes (sorted, deduplicated) and whether some
// connection was closed more than once, and clears the record.
func (r *c14Rec) take() (res [][2]int, dup bool) {
	r.mu.Lock()
	defer r.mu.Unlock()
	for k, n := range r.closed {
		res = append(res, k)
		if n > 1 {
			dup = true
		}
	}
	r.closed = map[[2]int]int{}
	sort.Slice(res, func(i, j int) bool {
		if res[i][0] != res[j][0] {
			return res[i][0] < res[j][0]
		}
		return res[i][1] < res[j][1]
	})
	return
}

type c14Conn struct {
	network.Conn
	p, c    int
	id      peer.ID
	addr    ma.Multiaddr
	dir     network.Direction
	streams int
	rec     *c14Rec
	w       *c14World // sequential worlds only: owner of the during-trim hook
}

func (c *c14Conn) RemotePeer() peer.ID            { return c.id }
func (c *c14Conn) RemoteMultiaddr() ma.Multiaddr  { return c.addr }
func (c *c14Conn) Close() error                   { c.rec.add(c.p, c.c); return nil }
func (c *c14Conn) IsClosed() bool                 { return false }
func (c *c14Conn) CloseWithError(network.ConnErrorCode) error {
	c.rec.add(c.p, c.c)
	if c.w != nil && c.w.ov != nil {
		c.w.ov.noteClose(c.p, c.c)
		return nil
	}
	// hook point 2: the selection is complete, the closes are under way
	if c.w != nil && c.w.hookArmed && c.w.hookPoint == 2 {
		c.w.tryHook()
	}
	return nil
}
func (c *c14Conn) Stat() network.ConnStats {
	// the only method the trim calls on a connection between its candidate
	// snapshot and its selection loop (from the sort's comparator)
	if c.w != nil && c.w.ov != nil {
		c.w.ov.statHook()
	}
	if c.w != nil && c.w.hookArmed && c.w.hookPoint == 1 {
		c.w.tryHook()
	}
	return network.ConnStats{Stats: network.Stats{Direction: c.dir}, NumStreams: c.streams}
}

type c14DT struct{ interval, k, min, max int64 }

type c14Cfg struct {
	low, high, grace, res int64
	dts                   []c14DT
}

type c14Op struct {
	kind    int64
	a, b, v int64
}

func (o c14Op) words() []int64 {
	switch o.kind {
	case 1, 2, 4, 7, 9, 10, 14:
		return []int64{o.kind, o.a, o.b}
	case 3, 5, 6:
		return []int64{o.kind, o.a, o.b, o.v}
	case 8, 11, 16:
		return []int64{o.kind, o.a}
	}
	return []int64{o.kind}
}

func c14OpLen(kind int64) int {
	return len(c14Op{kind: kind}.words())
}

// the peer ids: peers 0,1 share a segment (same last byte), the others do not
func c14PeerID(p int) peer.ID {
	last := byte('a' + p)
	if p == 1 {
		last = 'a'
	}
	return peer.ID(fmt.Sprintf("verif-c14-peer-%d-%c", p, last))
}

// c14World is one connection manager under test plus the harness-side view
// needed by the generators (never used to judge anything).
type c14World struct {
	cfg   c14Cfg
	cm    *BasicConnMgr
	ids   [c14NP]peer.ID
	conns [c14NP][c14NC]*c14Conn
	dtags []connmgr.DecayingTag
	lastAcc int64
	stalled bool // the decayer loop is held on the stall peer's segment lock: no synctest.Wait
	rec   *c14Rec
	out   *verifh.Out
	now   int64
	// generator view
	tracked   [c14NP][c14NC]bool
	protected [c14NP][c14NG]bool
	pending   [][2]int // closed by a trim, Disconnected not yet delivered
	dclosed   [c14ND]bool
	line      []int64   // header
	items     [][]int64 // per executed op: words + observation
	sawEffectiveTrim, sawForceProtected bool
	// during-trim hook: a script of ops 1..5 run synchronously from inside the
	// trim, at the first Stat() call at which none of the script's peers has
	// its segment locked by the comparator
	hookArmed, hookFired bool
	hookPoint            int // 1: inside the sort (after the snapshot, before the selection); 2: at the first close
	hookScript           []c14Op
	hookPresent          [c14NP]bool // GetTagInfo != nil before the trim
	hookPruned           []int64     // hook point 2: present before the trim, absent when the hook fired
	duringAt             int     // index in items of the during-trim event (-1 = none)
	duringEvent          []int64 // NS script-words.. obs
	// overlap stream (two trims in flight): mock clock, no synctest bubble
	ov       *c14Ovl
	ovlAt    int     // index in items of the overlap event (-1 = none)
	ovlEvent []int64
}

func c14New(cfg c14Cfg, r *verifh.Rand, out *verifh.Out) *c14World {
	w := &c14World{cfg: cfg, out: out, rec: &c14Rec{closed: map[[2]int]int{}}, duringAt: -1, ovlAt: -1}
	for p := 0; p < c14NP; p++ {
		w.ids[p] = c14PeerID(p)
		for c := 0; c < c14NC; c++ {
			dir := network.DirOutbound
			if r.Bool() {
				dir = network.DirInbound
			}
			w.conns[p][c] = &c14Conn{p: p, c: c, id: w.ids[p], dir: dir, streams: r.Intn(3), rec: w.rec, w: w,
				addr: ma.StringCast(fmt.Sprintf("/ip4/10.0.%d.%d/tcp/4001", p, c))}
		}
	}
	cm, err := NewConnManager(int(cfg.low), int(cfg.high),
		WithGracePeriod(time.Duration(cfg.grace)*c14Unit),
		WithSilencePeriod(100000*time.Hour), // the background loop never fires inside a case
		DecayerConfig(&DecayerCfg{Resolution: time.Duration(cfg.res) * c14Unit}))
	if err != nil {
		panic(err)
	}
	w.cm = cm
	for i, d := range cfg.dts {
		var dec connmgr.DecayFn = connmgr.DecayNone()
		if d.k != 0 {
			dec = connmgr.DecayFixed(int(d.k))
		}
		var bmp connmgr.BumpFn = connmgr.BumpSumUnbounded()
		if d.max >= d.min {
			bmp = connmgr.BumpSumBounded(int(d.min), int(d.max))
		}
		t, err := cm.RegisterDecayingTag(fmt.Sprintf("dec%d", i), time.Duration(d.interval)*c14Unit, dec, bmp)
		if err != nil {
			panic(err)
		}
		w.dtags = append(w.dtags, t)
	}
	w.line = []int64{0, c14NP, cfg.low, cfg.high, cfg.grace, cfg.res, int64(len(cfg.dts))}
	for _, d := range cfg.dts {
		w.line = append(w.line, d.interval, d.k, d.min, d.max)
	}
	return w
}

func (w *c14World) close() { w.cm.Close() }

// registerTag registers decaying tag i of the configuration (name "dec<i>").
func (w *c14World) registerTag(i int) (connmgr.DecayingTag, error) {
	d := w.cfg.dts[i]
	var dec connmgr.DecayFn = connmgr.DecayNone()
	if d.k != 0 {
		dec = connmgr.DecayFixed(int(d.k))
	}
	var bmp connmgr.BumpFn = connmgr.BumpSumUnbounded()
	if d.max >= d.min {
		bmp = connmgr.BumpSumBounded(int(d.min), int(d.max))
	}
	return w.cm.RegisterDecayingTag(fmt.Sprintf("dec%d", i), time.Duration(d.interval)*c14Unit, dec, bmp)
}

// the lever that holds the decayer loop: a peer outside the observed universe
// (own segment) whose segment lock the harness takes before queuing a bump for
// it; the loop picks the bump up and waits for the lock.  The peer never holds
// a connection, so it influences no count, no closed set and no observed peer.
var c14StallPeer = peer.ID("verif-c14-stall-peer-\xf0")

// stalledCloseReRegister: Close of tag d and a RegisterDecayingTag with the
// same name while the loop cannot process the queued closure; then the loop is
// released.  Recorded as ops 16 d, 14 d acc, 8 d.
func (w *c14World) stalledCloseReRegister(d int) (done, acceptedDuringStall bool) {
	lever := -1
	for i := range w.dtags {
		if !w.dclosed[i] {
			lever = i
		}
	}
	if lever < 0 || w.dclosed[d] {
		return false, false
	}
	seg := w.cm.segments.get(c14StallPeer)
	seg.Lock()
	if err := w.dtags[lever].Bump(c14StallPeer, 1); err != nil {
		seg.Unlock()
		return false, false
	}
	for len(w.cm.decayer.bumpTagCh) != 0 {
		runtime.Gosched()
	}
	w.stalled = true
	w.exec(c14Op{kind: 16, a: int64(d)})
	w.exec(c14Op{kind: 14, a: int64(d)})
	acceptedDuringStall = w.lastAcc == 1
	w.stalled = false
	seg.Unlock()
	synctest.Wait()
	w.items = append(w.items, append(c14Op{kind: 8, a: int64(d)}.words(), w.observe(8)...))
	w.cover("dclose.processed_after_stalled_loop")
	return true, acceptedDuringStall
}

func (w *c14World) cover(n string) {
	if w.out != nil {
		w.out.Cover(n)
	}
}

// exec performs one operation on the implementation and records the op and
// the observation.
func (w *c14World) exec(o c14Op) {
	w.lastAcc = 0
	w.apply(o)
	if !w.stalled && w.ov == nil {
		synctest.Wait()
	}
	if o.kind == 14 {
		o.b = w.lastAcc
	}
	w.items = append(w.items, append(o.words(), w.observe(o.kind)...))
}

// tryHook is called from a fake conn's Stat() while a trim is sorting its
// candidates.  The comparator holds the segment locks of the two peers it
// compares; the script may only touch other segments (checked with TryLock:
// everything here is single-threaded, so the answer stays valid).
func (w *c14World) tryHook() {
	for _, o := range w.hookScript {
		if o.a < 0 || o.a >= c14NP {
			continue
		}
		seg := w.cm.segments.get(w.ids[o.a])
		if !seg.TryLock() {
			w.cover("during.hook_deferred_segment_locked")
			return
		}
		seg.Unlock()
	}
	w.hookArmed = false
	w.hookFired = true
	w.hookPruned = nil
	if w.hookPoint == 2 {
		for p := 0; p < c14NP; p++ {
			if w.hookPresent[p] && w.cm.GetTagInfo(w.ids[p]) == nil {
				w.hookPruned = append(w.hookPruned, int64(p))
			}
		}
	}
	for _, o := range w.hookScript {
		w.apply(o)
	}
}

// execDuring runs TrimOpenConns with the script armed.  If the hook fired the
// event is recorded as the case's during-trim event, otherwise as a plain
// TrimOpenConns.
func (w *c14World) execDuring(script []c14Op) { w.execDuringAt(script, 1) }

// did the script also disconnect (p,c), i.e. was it an old connection?
func (w *c14World) hookPresentConn(script []c14Op, p, c int64) bool {
	for _, o := range script {
		if o.kind == 2 && o.a == p && o.b == c {
			return true
		}
	}
	return false
}

func (w *c14World) execDuringAt(script []c14Op, point int) {
	w.hookPoint = point
	w.hookScript, w.hookArmed, w.hookFired = script, true, false
	graceStart := w.cm.clock.Now().Add(-w.cm.cfg.gracePeriod)
	for p := 0; p < c14NP; p++ {
		w.hookPresent[p] = w.cm.GetTagInfo(w.ids[p]) != nil
	}
	w.preTrimCoverage()
	w.cm.TrimOpenConns(context.Background())
	w.hookArmed = false
	synctest.Wait()
	if !w.hookFired {
		w.cover("during.hook_not_fired")
		w.items = append(w.items, append(c14Op{kind: 12}.words(), w.observe(12)...))
		return
	}
	w.cover(fmt.Sprintf("during.hook_fired_at_point_%d", point))
	w.duringAt = len(w.items)
	ev := []int64{int64(point), int64(len(script))}
	for _, o := range script {
		ev = append(ev, o.words()...)
	}
	ev = append(ev, int64(len(w.hookPruned)))
	ev = append(ev, w.hookPruned...)
	obs := w.observe(12)
	w.duringEvent = append(ev, obs...)
	// the two witnesses of Properties.v, when they occur on the implementation
	nclosed := int(obs[1+3*c14NP])
	for k := 0; k < nclosed; k++ {
		p, c := obs[2+3*c14NP+2*k], obs[3+3*c14NP+2*k]
		for _, o := range script {
			if point == 1 && o.kind == 1 && o.a == p && o.b == c && !w.hookPresentConn(script, p, c) {
				if ti := w.cm.GetTagInfo(w.ids[p]); ti != nil && ti.FirstSeen.After(graceStart) {
					w.cover("during.witness1_closed_conn_opened_after_snapshot_inside_fresh_grace")
				}
			}
		}
	}
	for _, o := range script {
		if o.kind == 10 && !w.isProt(int(o.a)) && len(w.trackedConns(int(o.a))) > 0 {
			w.cover("during.script_unprotected_a_connected_peer_after_snapshot")
		}
		if o.kind == 9 {
			for k := 0; k < nclosed; k++ {
				if obs[2+3*c14NP+2*k] == o.a {
					w.cover("during.closed_peer_protected_after_snapshot")
					break
				}
			}
		}
	}
}

// caseLine assembles the case: kind 0 (sequential) or kind 2 (with one
// during-trim event).
func (w *c14World) caseLine() []int64 {
	line := append([]int64{}, w.line...)
	if w.ovlAt >= 0 {
		line[0] = 3
		line = append(line, int64(w.ovlAt))
		for _, it := range w.items[:w.ovlAt] {
			line = append(line, it...)
		}
		line = append(line, w.ovlEvent...)
		for _, it := range w.items[w.ovlAt:] {
			line = append(line, it...)
		}
		return line
	}
	if w.duringAt < 0 {
		for _, it := range w.items {
			line = append(line, it...)
		}
		return line
	}
	line[0] = 2
	line = append(line, int64(w.duringAt))
	for _, it := range w.items[:w.duringAt] {
		line = append(line, it...)
	}
	line = append(line, w.duringEvent...)
	for _, it := range w.items[w.duringAt:] {
		line = append(line, it...)
	}
	return line
}

// apply performs one operation on the implementation (no observation).
func (w *c14World) apply(o c14Op) {
	cm := w.cm
	p, x := int(o.a), int(o.b)
	inP := func() bool { return p >= 0 && p < c14NP }
	switch o.kind {
	case 1:
		if inP() && x >= 0 && x < c14NC {
			ti := cm.GetTagInfo(w.ids[p])
			switch {
			case w.tracked[p][x]:
				w.cover("connected.duplicate")
			case ti == nil:
				w.cover("connected.new_peer")
			case len(ti.Conns) == 0:
				w.cover("connected.temp_flip")
			default:
				w.cover("connected.additional_conn")
			}
			cm.Notifee().Connected(nil, w.conns[p][x])
			w.tracked[p][x] = true
		}
	case 2:
		if inP() && x >= 0 && x < c14NC {
			n := 0
			for _, b := range w.tracked[p] {
				if b {
					n++
				}
			}
			switch {
			case n == 0:
				w.cover("disconnected.untracked_peer")
			case !w.tracked[p][x]:
				w.cover("disconnected.untracked_conn")
			case n == 1:
				w.cover("disconnected.last_conn")
			default:
				w.cover("disconnected.one_of_several")
			}
			cm.Notifee().Disconnected(nil, w.conns[p][x])
			w.tracked[p][x] = false
			for i, pc := range w.pending {
				if pc == [2]int{p, x} {
					w.pending = append(w.pending[:i], w.pending[i+1:]...)
					break
				}
			}
		}
	case 3:
		if inP() {
			if cm.GetTagInfo(w.ids[p]) == nil {
				w.cover("tag.early_creates_temp")
			}
			cm.TagPeer(w.ids[p], fmt.Sprintf("t%d", x), int(o.v))
		}
	case 4:
		if inP() {
			if cm.GetTagInfo(w.ids[p]) == nil {
				w.cover("untag.untracked_peer")
			}
			cm.UntagPeer(w.ids[p], fmt.Sprintf("t%d", x))
		}
	case 5:
		if inP() {
			d := int(o.v)
			cm.UpsertTag(w.ids[p], fmt.Sprintf("t%d", x), func(old int) int { return old + d })
		}
	case 6:
		if inP() && x >= 0 && x < len(w.dtags) {
			if err := w.dtags[x].Bump(w.ids[p], int(o.v)); err != nil {
				w.cover("bump.refused_closed_tag")
			} else {
				w.cover("bump.applied")
			}
			synctest.Wait()
		}
	case 7:
		if inP() && x >= 0 && x < len(w.dtags) {
			if cm.GetTagInfo(w.ids[p]) == nil && !w.dclosed[x] {
				w.cover("dremove.creates_temp")
			}
			_ = w.dtags[x].Remove(w.ids[p])
			synctest.Wait()
		}
	case 8:
		if p >= 0 && p < len(w.dtags) {
			_ = w.dtags[p].Close()
			w.dclosed[p] = true
			w.cover("dclose")
			synctest.Wait()
		}
	case 9:
		if inP() {
			cm.Protect(w.ids[p], fmt.Sprintf("g%d", x))
			if x >= 0 && x < c14NG {
				w.protected[p][x] = true
			}
		}
	case 10:
		if inP() {
			still := cm.Unprotect(w.ids[p], fmt.Sprintf("g%d", x))
			if still {
				w.cover("unprotect.still_protected_by_other_tag")
			}
			if x >= 0 && x < c14NG {
				w.protected[p][x] = false
			}
		}
	case 11:
		if w.ov != nil {
			w.ov.mock.Add(time.Duration(o.a) * c14Unit)
			w.now += o.a
			return
		}
		before := w.values()
		time.Sleep(time.Duration(o.a) * c14Unit)
		synctest.Wait()
		w.now += o.a
		if w.values() != before {
			w.cover("advance.decay_changed_a_value")
		}
	case 14:
		if p >= 0 && p < len(w.dtags) {
			t, err := w.registerTag(p)
			switch {
			case err != nil:
				w.cover("reregister.refused_name_taken")
			default:
				w.lastAcc = 1
				w.dtags[p] = t
				w.dclosed[p] = false
				if w.stalled {
					w.cover("reregister.ACCEPTED_while_closure_queued")
				} else {
					w.cover("reregister.accepted_after_closure")
				}
			}
		}
	case 16:
		if p >= 0 && p < len(w.dtags) {
			_ = w.dtags[p].Close()
			w.dclosed[p] = true
			w.cover("dclose.queued_while_loop_stalled")
		}
	case 12:
		w.preTrimCoverage()
		cm.TrimOpenConns(context.Background())
	case 13:
		cm.ForceTrim()
	}
}

// observe returns the observation block (count, peers, closed set).
func (w *c14World) observe(kind int64) []int64 {
	cm := w.cm
	var obs []int64
	obs = append(obs, int64(cm.GetInfo().ConnCount))
	absentBefore := 0
	for p := 0; p < c14NP; p++ {
		ti := cm.GetTagInfo(w.ids[p])
		if ti == nil {
			obs = append(obs, 0, 0, 0)
			absentBefore++
			continue
		}
		sum := 0
		for _, v := range ti.Tags {
			sum += v
		}
		obs = append(obs, 1, int64(ti.Value), int64(sum))
	}
	closed, dup := w.rec.take()
	obs = append(obs, int64(len(closed)))
	anyProt := false
	for _, pc := range closed {
		obs = append(obs, int64(pc[0]), int64(pc[1]))
		if w.isProt(pc[0]) {
			anyProt = true
		}
		w.pending = append(w.pending, pc)
	}
	switch kind {
	case 12:
		if len(closed) > 0 {
			w.cover("trim.closed_some")
			w.sawEffectiveTrim = true
		} else {
			w.cover("trim.closed_nothing")
		}
	case 13:
		switch {
		case len(closed) == 0:
			w.cover("force.closed_nothing")
		case anyProt:
			w.cover("force.closed_protected_too")
			w.sawForceProtected = true
		default:
			w.cover("force.closed_unprotected_only")
		}
		if dup {
			w.cover("force.same_conn_closed_twice")
		}
	}
	return obs
}

func (w *c14World) isProt(p int) bool {
	for _, b := range w.protected[p] {
		if b {
			return true
		}
	}
	return false
}

func (w *c14World) values() [c14NP]int {
	var v [c14NP]int
	for p := 0; p < c14NP; p++ {
		if ti := w.cm.GetTagInfo(w.ids[p]); ti != nil {
			v[p] = ti.Value
		}
	}
	return v
}

// which decision points of getConnsToClose will this trim reach?
func (w *c14World) preTrimCoverage() {
	cm := w.cm
	if cm.cfg.lowWater == 0 || cm.cfg.highWater == 0 {
		w.cover("trim.disabled")
		return
	}
	if cm.cfg.lowWater < 0 {
		w.cover("trim.negative_low_watermark")
	}
	if int(cm.connCount.Load()) <= cm.cfg.lowWater {
		w.cover("trim.at_or_below_low")
		return
	}
	start := cm.clock.Now().Add(-cm.cfg.gracePeriod)
	ncand, prot, grace, temp, boundary := 0, false, false, false, false
	vals := map[int]int{}
	for p := 0; p < c14NP; p++ {
		s := cm.segments.get(w.ids[p])
		s.Lock()
		inf, ok := s.peers[w.ids[p]]
		if ok {
			_, isP := cm.protected[w.ids[p]]
			switch {
			case isP && len(inf.conns) > 0:
				prot = true
			case inf.firstSeen.After(start):
				if len(inf.conns) > 0 {
					grace = true
				}
			default:
				ncand += len(inf.conns)
				if inf.temp {
					temp = true
				} else {
					vals[inf.value]++
				}
				if inf.firstSeen.Equal(start) {
					boundary = true
				}
			}
		}
		s.Unlock()
	}
	if ncand < cm.cfg.lowWater {
		w.cover("trim.too_many_in_grace")
		return
	}
	w.cover("trim.selecting")
	if prot {
		w.cover("trim.selecting_with_protected_connected_peer")
	}
	if grace {
		w.cover("trim.selecting_with_peer_in_grace")
	}
	if boundary {
		w.cover("trim.selecting_with_peer_exactly_at_grace_boundary")
	}
	if temp && ncand > cm.cfg.lowWater {
		w.cover("trim.prunes_temp_entry")
	}
	for _, n := range vals {
		if n > 1 {
			w.cover("trim.selecting_with_value_ties")
			break
		}
	}
}

// ---- generators --------------------------------------------------------------

func c14RandCfg(r *verifh.Rand) c14Cfg {
	cfg := c14Cfg{}
	cfg.low = int64(1 + r.Intn(7))
	cfg.high = cfg.low + int64(r.Intn(4))
	switch r.Intn(20) {
	case 0:
		cfg.low = 0
	case 1:
		cfg.high = 0
	case 2:
		cfg.high = c14HiOff
	case 3:
		if r.Bool() {
			cfg.low = -1 // NewConnManager accepts any int: every eligible connection goes
		}
	}
	cfg.grace = []int64{0, 1, 3, 5, 10, 20}[r.Intn(6)]
	cfg.res = []int64{1, 2, 5}[r.Intn(3)]
	for i := 0; i < c14ND; i++ {
		d := c14DT{}
		d.interval = []int64{cfg.res, 2 * cfg.res, 3 * cfg.res, cfg.res + 1, cfg.res - 1, 7}[r.Intn(6)]
		if d.interval < 1 {
			d.interval = 1
		}
		d.k = []int64{0, 1, 3, 10}[r.Intn(4)]
		switch r.Intn(3) {
		case 0:
			d.min, d.max = 1, 0 // unbounded
		case 1:
			d.min, d.max = 0, 20
		default:
			d.min, d.max = -5, 15
		}
		cfg.dts = append(cfg.dts, d)
	}
	return cfg
}

func (w *c14World) randOp(r *verifh.Rand, profile int) c14Op {
	p := int64(r.Intn(c14NP))
	// deliver a pending Disconnected for a connection a trim closed
	if len(w.pending) > 0 && r.Chance(3, 4) {
		pc := w.pending[r.Intn(len(w.pending))]
		return c14Op{kind: 2, a: int64(pc[0]), b: int64(pc[1])}
	}
	if profile == 2 { // chaotic / malformed-ish stream: uniform over everything
		k := int64(1 + r.Intn(13))
		return c14Op{kind: k, a: int64(r.Intn(c14NP)), b: int64(r.Intn(4)), v: int64(r.Intn(25) - 8)}.norm(w, r)
	}
	if profile == 1 && r.Chance(1, 25) {
		return c14Op{kind: 14, a: int64(r.Intn(c14ND))}
	}
	if profile == 1 && r.Chance(1, 30) {
		return c14Op{kind: 99, a: int64(r.Intn(c14ND))} // stalled close + re-register (composite)
	}
	x := r.Intn(100)
	switch {
	case x < 24:
		return c14Op{kind: 1, a: p, b: int64(r.Intn(c14NC))}
	case x < 32:
		return c14Op{kind: 2, a: p, b: int64(r.Intn(c14NC))}
	case x < 42:
		return c14Op{kind: 3, a: p, b: int64(r.Intn(c14NT)), v: int64(r.Intn(8) - 2)}
	case x < 45:
		return c14Op{kind: 4, a: p, b: int64(r.Intn(c14NT))}
	case x < 50:
		return c14Op{kind: 5, a: p, b: int64(r.Intn(c14NT)), v: int64(r.Intn(7) - 3)}
	case x < 58:
		return c14Op{kind: 6, a: p, b: int64(r.Intn(c14ND)), v: int64(r.Intn(14) - 3)}
	case x < 60:
		return c14Op{kind: 7, a: p, b: int64(r.Intn(c14ND))}
	case x < 61:
		if profile == 1 {
			return c14Op{kind: 8, a: int64(r.Intn(c14ND))}
		}
		return c14Op{kind: 6, a: p, b: int64(r.Intn(c14ND)), v: int64(r.Intn(14))}
	case x < 67:
		return c14Op{kind: 9, a: p, b: int64(r.Intn(c14NG))}
	case x < 71:
		return c14Op{kind: 10, a: p, b: int64(r.Intn(c14NG))}
	case x < 83:
		g, rs := w.cfg.grace, w.cfg.res
		dts := []int64{1, 1, 2, rs, rs, 2 * rs, g, g - 1, g + 1, g / 2, 3*rs + 1}
		dt := dts[r.Intn(len(dts))]
		if dt < 1 {
			dt = 1
		}
		return c14Op{kind: 11, a: dt}
	case x < 96:
		return c14Op{kind: 12}
	default:
		return c14Op{kind: 13}
	}
}

func (o c14Op) norm(w *c14World, r *verifh.Rand) c14Op {
	switch o.kind {
	case 3, 4, 5:
		o.b = o.b % c14NT
	case 6, 7:
		o.b = o.b % c14ND
	case 8, 14, 16:
		o.a = o.a % c14ND
		if o.kind == 16 {
			o.kind = 8 // a queued closure only exists inside stalledCloseReRegister
		}
	case 9, 10:
		o.b = o.b % c14NG
	case 11:
		o.a = 1 + int64(r.Intn(int(w.cfg.grace)+3))
	}
	return o
}

func c14RandomCase(out *verifh.Out, r *verifh.Rand, nops int) {
	profile := r.Intn(3)
	synctest.Test(c14T, func(t *testing.T) {
		w := c14New(c14RandCfg(r), r, out)
		defer w.close()
		// a connect burst first so that trims have something to do
		burst := r.Intn(10)
		for i := 0; i < burst; i++ {
			w.exec(c14Op{kind: 1, a: int64(r.Intn(c14NP)), b: int64(r.Intn(c14NC))})
		}
		for i := 0; i < nops; i++ {
			o := w.randOp(r, profile)
			if o.kind == 99 {
				if done, acc := w.stalledCloseReRegister(int(o.a)); done {
					// if the name was still taken, retry once the closure has been processed; then use the new tag
					if !acc {
						w.exec(c14Op{kind: 14, a: o.a})
					}
					w.exec(c14Op{kind: 6, a: int64(r.Intn(c14NP)), b: o.a, v: int64(3 + r.Intn(9))})
					w.exec(c14Op{kind: 11, a: w.cfg.dts[o.a].interval + w.cfg.res})
				}
				continue
			}
			w.exec(o)
		}
		out.Cover("cases.sequential")
		if w.sawEffectiveTrim {
			out.Cover("cases.with_effective_trim")
		}
		if w.sawForceProtected {
			out.Cover("cases.with_forced_close_of_protected")
		}
		out.Case(w.caseLine())
	})
}

// directed scenarios that hit the rarer decision points every run
func c14Directed(out *verifh.Out, r *verifh.Rand) {
	run := func(cfg c14Cfg, ops []c14Op) {
		synctest.Test(c14T, func(t *testing.T) {
			w := c14New(cfg, r, out)
			defer w.close()
			for _, o := range ops {
				w.exec(o)
			}
			out.Cover("cases.directed")
			out.Case(w.caseLine())
		})
	}
	dts := []c14DT{{2, 1, 0, 20}, {4, 0, 1, 0}}
	C := func(p, c int64) c14Op { return c14Op{kind: 1, a: p, b: c} }
	D := func(p, c int64) c14Op { return c14Op{kind: 2, a: p, b: c} }
	T := func(p, t, v int64) c14Op { return c14Op{kind: 3, a: p, b: t, v: v} }
	A := func(dt int64) c14Op { return c14Op{kind: 11, a: dt} }
	P := func(p, g int64) c14Op { return c14Op{kind: 9, a: p, b: g} }
	U := func(p, g int64) c14Op { return c14Op{kind: 10, a: p, b: g} }
	B := func(p, d, v int64) c14Op { return c14Op{kind: 6, a: p, b: d, v: v} }
	trim, force := c14Op{kind: 12}, c14Op{kind: 13}
	// early tag, pruned by a trim after the grace period; reconnect starts from zero
	run(c14Cfg{1, 3, 5, 2, dts}, []c14Op{T(5, 0, 9), C(0, 0), C(1, 0), C(2, 0), A(5), trim, C(5, 0), trim})
	// grace boundary: eligible exactly when now - firstSeen = grace
	run(c14Cfg{1, 3, 5, 2, dts}, []c14Op{C(0, 0), C(1, 0), T(1, 0, 3), C(2, 0), A(4), trim, A(1), trim})
	// protection with two tags: still protected after one Unprotect
	run(c14Cfg{1, 3, 0, 2, dts}, []c14Op{C(0, 0), C(1, 0), C(2, 0), P(0, 0), P(0, 1), U(0, 0), trim, D(1, 0), D(2, 0), C(1, 1), C(2, 1), U(0, 1), trim})
	// decaying value decides the order, then decays away
	run(c14Cfg{2, 3, 0, 2, dts}, []c14Op{C(0, 0), C(1, 0), C(2, 0), B(0, 0, 5), B(1, 0, 2), T(2, 0, 3), trim, A(2), A(2), A(2), C(3, 0), trim})
	// forced trim: unprotected first, protected only when needed; the early
	// return compares with the decremented target
	run(c14Cfg{1, 3, 100, 2, dts}, []c14Op{C(0, 0), C(0, 1), C(0, 2), C(1, 0), C(2, 0), C(3, 0), P(1, 0), P(2, 0), P(3, 0), force})
	run(c14Cfg{1, 3, 100, 2, dts}, []c14Op{C(0, 0), C(1, 0), C(2, 0), C(3, 0), T(1, 0, 1), T(2, 0, 2), T(3, 0, 3), P(1, 0), P(2, 0), P(3, 0), force})
	run(c14Cfg{0, 3, 100, 2, dts}, []c14Op{C(0, 0), C(0, 1), C(1, 0), C(2, 0), C(3, 0), C(3, 1), T(1, 0, 1), T(2, 0, 2), T(3, 0, 3), P(1, 0), P(2, 0), P(3, 0), force})
	// during-trim: peer 4 (lowest value) loses its last connection and reconnects
	// between the trim's candidate snapshot and its selection loop (the hook
	// fires in the comparison of the tied peers 2 and 3); later its new
	// connection is disconnected
	synctest.Test(c14T, func(t *testing.T) {
		w := c14New(c14Cfg{1, 3, 0, 2, dts}, r, out)
		defer w.close()
		for _, o := range []c14Op{C(2, 0), C(3, 0), C(4, 0), C(5, 0), T(5, 0, 5), T(4, 0, -1)} {
			w.exec(o)
		}
		w.execDuring([]c14Op{D(4, 0), C(4, 1)})
		for _, o := range []c14Op{D(4, 1), trim, D(2, 0), D(3, 0), D(5, 0)} {
			w.exec(o)
		}
		if w.duringAt >= 0 {
			out.Cover("cases.during_trim_directed")
		}
		out.Case(w.caseLine())
	})
	// FIXED CORPUS CASE (defect repaired by "fix: connmgr: re-check the grace
	// period in the trim's selection loop"; schedule w1_sched of Properties.v): an
	// early-tagged peer (3) is out of grace, hence a candidate; it connects
	// after the snapshot; the old selection loop closed the new connection
	// inside its fresh grace period (monitor clause 37).  The repaired loop
	// skips the entry and closes another candidate.
	synctest.Test(c14T, func(t *testing.T) {
		w := c14New(c14Cfg{1, 3, 5, 1, dts}, r, out)
		defer w.close()
		for _, o := range []c14Op{T(3, 0, -1), C(1, 0), C(2, 0), A(5)} { // value -1: first in every sort order
			w.exec(o)
		}
		w.execDuring([]c14Op{C(3, 1)})
		if w.duringAt >= 0 {
			kept := true
			for _, pc := range w.pending {
				if pc == [2]int{3, 1} {
					kept = false
				}
			}
			if kept {
				out.Cover("during.corpus_w1_connection_opened_after_snapshot_is_kept")
			} else {
				out.Cover("during.corpus_w1_connection_opened_after_snapshot_was_closed")
			}
		}
		for _, o := range []c14Op{D(3, 1), trim} {
			w.exec(o)
		}
		if w.duringAt >= 0 {
			out.Cover("cases.during_trim_directed")
		}
		out.Case(w.caseLine())
	})
	// WITNESS 2: peer 4 is protected while snapshotted and unprotected before
	// the trim finishes: two eligible connections are left with low = 1
	synctest.Test(c14T, func(t *testing.T) {
		w := c14New(c14Cfg{1, 3, 0, 1, dts}, r, out)
		defer w.close()
		for _, o := range []c14Op{C(2, 0), C(3, 0), C(4, 0), P(4, 0)} {
			w.exec(o)
		}
		w.execDuring([]c14Op{U(4, 0)})
		if cl := w.duringEvent; w.duringAt >= 0 && cl[len(cl)-3] == 1 {
			out.Cover("during.witness2_two_eligible_left_with_low_1_after_unprotect")
		}
		w.exec(trim)
		if w.duringAt >= 0 {
			out.Cover("cases.during_trim_directed")
		}
		out.Case(w.caseLine())
	})
	// a decaying tag is closed and a tag of the same name is registered while the
	// loop cannot process the queued closure (refused: the name is still taken);
	// after the closure the registration succeeds and the new tag decays
	synctest.Test(c14T, func(t *testing.T) {
		w := c14New(c14Cfg{2, 3, 0, 2, dts}, r, out)
		defer w.close()
		for _, o := range []c14Op{C(0, 0), C(1, 0), B(0, 0, 7), B(1, 1, 4)} {
			w.exec(o)
		}
		done, acc := w.stalledCloseReRegister(0)
		if done {
			out.Cover("cases.directed_stalled_close_reregister")
		}
		if !acc {
			w.exec(c14Op{kind: 14, a: 0})
		}
		for _, o := range []c14Op{B(1, 0, 9), B(0, 0, 3), A(2), A(2), A(2), trim} {
			w.exec(o)
		}
		out.Case(w.caseLine())
	})
	// too many in grace: nothing is closed although above the low watermark
	run(c14Cfg{3, 4, 10, 2, dts}, []c14Op{C(0, 0), C(1, 0), A(10), C(2, 0), C(3, 0), C(4, 0), trim, A(10), trim})
}

// ---- during-trim cases -----------------------------------------------------------
// A deterministic interleaving class: a short script of Connected /
// Disconnected / tag ops runs from inside TrimOpenConns, between the candidate
// snapshot and the selection loop (see tryHook).  Judged at quiescence by the
// bookkeeping monitor; the rest of the case continues sequentially so that
// later notifications for the touched peers are checked too.
func (w *c14World) trackedConns(p int) (res []int) {
	for c, b := range w.tracked[p] {
		if b {
			res = append(res, c)
		}
	}
	return
}

func (w *c14World) randScript(r *verifh.Rand) []c14Op {
	var conn []int
	for p := 0; p < c14NP; p++ {
		if len(w.trackedConns(p)) > 0 {
			conn = append(conn, p)
		}
	}
	if len(conn) == 0 {
		return []c14Op{{kind: 3, a: int64(r.Intn(c14NP)), b: 0, v: 1}}
	}
	P := conn[r.Intn(len(conn))]
	free := func(p int) int64 {
		for c := 0; c < c14NC; c++ {
			if !w.tracked[p][c] {
				return int64(c)
			}
		}
		return int64(r.Intn(c14NC))
	}
	var sc []c14Op
	dropAll := func(p int) {
		for _, c := range w.trackedConns(p) {
			sc = append(sc, c14Op{kind: 2, a: int64(p), b: int64(c)})
		}
	}
	switch r.Intn(9) {
	case 6: // protection races with the trim
		q := int64(r.Intn(c14NP))
		if w.isProt(int(q)) {
			for g := 0; g < c14NG; g++ {
				sc = append(sc, c14Op{kind: 10, a: q, b: int64(g)})
			}
		} else {
			sc = append(sc, c14Op{kind: 9, a: int64(P), b: int64(r.Intn(c14NG))})
		}
	case 7: // a decaying bump / remove lands during the trim
		sc = append(sc, c14Op{kind: 6, a: int64(P), b: int64(r.Intn(c14ND)), v: int64(1 + r.Intn(9))})
		if r.Bool() {
			sc = append(sc, c14Op{kind: 7, a: int64(r.Intn(c14NP)), b: int64(r.Intn(c14ND))})
		}
	case 8: // an early-tagged peer connects
		q := int64(r.Intn(c14NP))
		sc = append(sc, c14Op{kind: 1, a: q, b: free(int(q))})
	case 0, 1: // P loses every connection and reconnects on a new one
		dropAll(P)
		sc = append(sc, c14Op{kind: 1, a: int64(P), b: free(P)})
	case 2: // P goes away
		dropAll(P)
		if r.Bool() {
			sc = append(sc, c14Op{kind: 3, a: int64(P), b: 0, v: int64(r.Intn(4))}) // late tag recreates a temp entry
		}
	case 3: // one more connection, a tag change
		sc = append(sc, c14Op{kind: 1, a: int64(P), b: free(P)}, c14Op{kind: 3, a: int64(P), b: int64(r.Intn(c14NT)), v: int64(r.Intn(6) - 2)})
	case 4: // a new peer appears, tagged first
		q := int64(r.Intn(c14NP))
		sc = append(sc, c14Op{kind: 5, a: q, b: 1, v: int64(1 + r.Intn(3))}, c14Op{kind: 1, a: q, b: free(int(q))})
	default:
		n := 1 + r.Intn(4)
		for i := 0; i < n; i++ {
			q := int64(conn[r.Intn(len(conn))])
			switch r.Intn(5) {
			case 0:
				sc = append(sc, c14Op{kind: 1, a: q, b: int64(r.Intn(c14NC))})
			case 1, 2:
				sc = append(sc, c14Op{kind: 2, a: q, b: int64(r.Intn(c14NC))})
			case 3:
				sc = append(sc, c14Op{kind: 3, a: q, b: int64(r.Intn(c14NT)), v: int64(r.Intn(6) - 2)})
			default:
				sc = append(sc, c14Op{kind: 4, a: q, b: int64(r.Intn(c14NT))})
			}
		}
	}
	return sc
}

func c14DuringCase(out *verifh.Out, r *verifh.Rand) {
	synctest.Test(c14T, func(t *testing.T) {
		cfg := c14RandCfg(r)
		cfg.low = int64(1 + r.Intn(3))
		cfg.high = cfg.low + 2
		cfg.grace = []int64{0, 0, 3}[r.Intn(3)]
		w := c14New(cfg, r, out)
		defer w.close()
		// everybody connects (values mostly tie at 0 so that the comparator reaches Stat)
		for p := 0; p < c14NP; p++ {
			if r.Chance(5, 6) {
				w.exec(c14Op{kind: 1, a: int64(p), b: int64(r.Intn(c14NC))})
				if r.Chance(1, 3) {
					w.exec(c14Op{kind: 1, a: int64(p), b: int64(r.Intn(c14NC))})
				}
			} else if r.Bool() {
				w.exec(c14Op{kind: 3, a: int64(p), b: 0, v: int64(r.Intn(3))}) // early tag: temp entry
			}
		}
		for i := r.Intn(4); i > 0; i-- {
			w.exec(c14Op{kind: 3, a: int64(r.Intn(c14NP)), b: int64(r.Intn(c14NT)), v: []int64{-1, 0, 1, 1, 2}[r.Intn(5)]})
		}
		if r.Chance(1, 4) {
			w.exec(c14Op{kind: 9, a: int64(r.Intn(c14NP)), b: 0})
		}
		if cfg.grace > 0 {
			w.exec(c14Op{kind: 11, a: cfg.grace + int64(r.Intn(2))})
		}
		// sometimes an early-tagged peer that is still inside its grace period
		fresh := -1
		if cfg.grace > 0 && r.Bool() {
			for p := 0; p < c14NP; p++ {
				if w.cm.GetTagInfo(w.ids[p]) == nil {
					w.exec(c14Op{kind: 3, a: int64(p), b: 1, v: int64(r.Intn(3))})
					fresh = p
					break
				}
			}
		}
		script := w.randScript(r)
		if fresh >= 0 && r.Chance(2, 3) {
			script = append(script, c14Op{kind: 1, a: int64(fresh), b: int64(r.Intn(c14NC))})
		}
		w.execDuringAt(script, 1+r.Intn(4)/3)
		// afterwards: the notifications for what was closed / reconnected, more trims
		n := 4 + r.Intn(10)
		for i := 0; i < n; i++ {
			switch {
			case r.Chance(1, 3):
				p := r.Intn(c14NP)
				if cs := w.trackedConns(p); len(cs) > 0 {
					w.exec(c14Op{kind: 2, a: int64(p), b: int64(cs[r.Intn(len(cs))])})
					continue
				}
				fallthrough
			default:
				w.exec(w.randOp(r, 0))
			}
		}
		if w.duringAt < 0 {
			out.Cover("cases.during_trim_attempted_but_sequential")
		} else {
			out.Cover("cases.during_trim")
		}
		out.Case(w.caseLine())
	})
}

// ---- concurrent cases ----------------------------------------------------------
// Trims racing with tag / connect operations from several goroutines (no
// virtual time here: the manager runs on a mock clock that stands still during
// the concurrent phase, so protection and grace of every peer are constant).
// Ownership discipline (see Spec.v): worker g uses tag id g and connection id
// 1+g of every peer; connection 0 of every peer is the base connection and is
// never disconnected, so no peer entry is deleted or recreated and the final
// state does not depend on the interleaving.
const c14NW = 6

func c14ConcurrentCase(out *verifh.Out, r *verifh.Rand) {
	mock := clock.NewMock()
	low := int64(1 + r.Intn(5))
	high := low + int64(r.Intn(3))
	grace := int64(10)
	cm, err := NewConnManager(int(low), int(high), WithClock(mock),
		WithGracePeriod(time.Duration(grace)*c14Unit), WithSilencePeriod(100000*time.Hour))
	if err != nil {
		panic(err)
	}
	defer cm.Close()
	rec := &c14Rec{closed: map[[2]int]int{}}
	var ids [c14NP]peer.ID
	var conns [c14NP][1 + c14NW]*c14Conn
	for p := 0; p < c14NP; p++ {
		ids[p] = c14PeerID(p)
		for c := 0; c <= c14NW; c++ {
			dir := network.DirOutbound
			if r.Bool() {
				dir = network.DirInbound
			}
			conns[p][c] = &c14Conn{p: p, c: c, id: ids[p], dir: dir, streams: r.Intn(3), rec: rec,
				addr: ma.StringCast(fmt.Sprintf("/ip4/10.1.%d.%d/tcp/4001", p, c))}
		}
	}
	line := []int64{1, c14NP, low, high, grace}
	var pre []c14Op
	apply := func(o c14Op) {
		p := int(o.a)
		switch o.kind {
		case 1:
			cm.Notifee().Connected(nil, conns[p][o.b])
		case 2:
			cm.Notifee().Disconnected(nil, conns[p][o.b])
		case 3:
			cm.TagPeer(ids[p], fmt.Sprintf("t%d", o.b), int(o.v))
		case 4:
			cm.UntagPeer(ids[p], fmt.Sprintf("t%d", o.b))
		case 5:
			d := int(o.v)
			cm.UpsertTag(ids[p], fmt.Sprintf("t%d", o.b), func(old int) int { return old + d })
		case 9:
			cm.Protect(ids[p], fmt.Sprintf("g%d", o.b))
		case 11:
			mock.Add(time.Duration(o.a) * c14Unit)
		}
	}
	// prefix: old peers 0..3 connect, time passes, young peers 4,5 connect;
	// some old peers are protected
	nOld := 3 + r.Intn(2)
	for p := 0; p < nOld; p++ {
		pre = append(pre, c14Op{kind: 1, a: int64(p), b: 0})
	}
	pre = append(pre, c14Op{kind: 11, a: grace + int64(r.Intn(3))})
	for p := nOld; p < c14NP; p++ {
		pre = append(pre, c14Op{kind: 1, a: int64(p), b: 0})
	}
	nProt := r.Intn(2)
	for p := 0; p < nProt; p++ {
		pre = append(pre, c14Op{kind: 9, a: int64(p), b: int64(r.Intn(c14NG))})
	}
	for _, o := range pre {
		apply(o)
	}
	line = append(line, int64(len(pre)))
	for _, o := range pre {
		line = append(line, o.words()...)
	}
	// worker op lists
	work := make([][]c14Op, c14NW)
	for g := range work {
		n := 20 + r.Intn(60)
		for i := 0; i < n; i++ {
			p := int64(r.Intn(c14NP))
			switch x := r.Intn(10); {
			case x < 3:
				work[g] = append(work[g], c14Op{kind: 1, a: p, b: int64(1 + g)})
			case x < 5:
				work[g] = append(work[g], c14Op{kind: 2, a: p, b: int64(1 + g)})
			case x < 8:
				work[g] = append(work[g], c14Op{kind: 3, a: p, b: int64(g), v: int64(r.Intn(9) - 2)})
			case x < 9:
				work[g] = append(work[g], c14Op{kind: 4, a: p, b: int64(g)})
			default:
				work[g] = append(work[g], c14Op{kind: 5, a: p, b: int64(g), v: int64(r.Intn(7) - 3)})
			}
		}
	}
	var wg, trimmers sync.WaitGroup
	stop := make(chan struct{})
	ntrims := int64(0)
	var mu sync.Mutex
	for t := 0; t < 2; t++ {
		trimmers.Add(1)
		go func() {
			defer trimmers.Done()
			for {
				select {
				case <-stop:
					return
				default:
				}
				cm.TrimOpenConns(context.Background())
				mu.Lock()
				ntrims++
				mu.Unlock()
			}
		}()
	}
	for g := range work {
		wg.Add(1)
		go func(ops []c14Op) {
			defer wg.Done()
			for _, o := range ops {
				apply(o)
			}
		}(work[g])
	}
	wg.Wait()
	close(stop)
	trimmers.Wait()
	line = append(line, c14NW)
	for g := range work {
		line = append(line, int64(len(work[g])))
		for _, o := range work[g] {
			line = append(line, o.words()...)
		}
	}
	line = append(line, int64(cm.GetInfo().ConnCount))
	for p := 0; p < c14NP; p++ {
		ti := cm.GetTagInfo(ids[p])
		if ti == nil {
			line = append(line, 0, 0, 0)
			continue
		}
		sum := 0
		for _, v := range ti.Tags {
			sum += v
		}
		line = append(line, 1, int64(ti.Value), int64(sum))
	}
	closed, _ := rec.take()
	line = append(line, int64(len(closed)))
	for _, pc := range closed {
		line = append(line, int64(pc[0]), int64(pc[1]))
	}
	out.Cover("cases.concurrent")
	out.CoverN("concurrent.trims_during_phase", ntrims)
	if len(closed) > 0 {
		out.Cover("concurrent.cases_where_trims_closed_something")
	}
	out.Case(line)
}


// ---- OVERLAP stream: the background loop's trim() (no trimMutex) in flight
// together with a TrimOpenConns or a ForceTrim, on the real manager -----------
//
// The manager runs on a mock clock; the background trim is triggered by
// advancing the clock to the loop's next tick (connCount >= highWater).  The
// interleaving is made deterministic with the manager's own locks and by
// looking at where the two trim goroutines are (runtime.Stack):
//   1. the harness holds segments.bucketsMu; trim A is started and runs until
//      its sort's first comparison waits for bucketsMu: its candidate snapshot
//      is complete and it holds no segment lock;
//   2. the clock is advanced to the tick; the background goroutine runs trim
//      B up to the same point;
//   3. script 1 runs (both snapshots complete, no selection started);
//   4. bucketsMu is released.  The first trim that calls Stat() on a fake
//      connection (comparison of two tied candidates) is X; it goes on at
//      once.  The other trim, Y, is parked at its first Stat() (inside its
//      sort, holding the two segments it compares); X's selection runs until
//      it finishes or needs one of those two segments;
//   5. script 2 runs (on other segments), then Y is released and both finish.
// Every CloseWithError is attributed to the goroutine that called it.
const c14OvlSilence = 1000 // units; the loop ticks at multiples of it

type c14Ovl struct {
	mock *clock.Mock
	mu   sync.Mutex
	park bool
	seen map[string]bool
	rel  map[string]chan struct{}
	parked chan string
	closedBy map[string][][2]int
}

func c14Gid() string {
	b := make([]byte, 64)
	b = b[:runtime.Stack(b, false)]
	f := bytes.Fields(b)
	if len(f) < 2 {
		return "?"
	}
	return string(f[1])
}

// c14Goroutine returns the header state and the stack of the first goroutine
// selected by pick (by id, or by a function name on its stack)
func c14Goroutine(id, fn string) (found bool, waitsMutex bool, stack string) {
	buf := make([]byte, 1<<20)
	buf = buf[:runtime.Stack(buf, true)]
	for _, g := range strings.Split(string(buf), "\n\n") {
		nl := strings.IndexByte(g, '\n')
		if nl < 0 {
			continue
		}
		head := g[:nl]
		if id != "" && !strings.HasPrefix(head, "goroutine "+id+" ") {
			continue
		}
		if fn != "" && !strings.Contains(g, fn) {
			continue
		}
		return true, strings.Contains(head, "[sync.Mutex.Lock") || strings.Contains(head, "[semacquire"), g
	}
	return false, false, ""
}

func (ov *c14Ovl) noteClose(p, c int) {
	g := c14Gid()
	ov.mu.Lock()
	ov.closedBy[g] = append(ov.closedBy[g], [2]int{p, c})
	ov.mu.Unlock()
}

func (ov *c14Ovl) statHook() {
	ov.mu.Lock()
	if !ov.park {
		ov.mu.Unlock()
		return
	}
	g := c14Gid()
	if ov.seen[g] {
		ov.mu.Unlock()
		return
	}
	ov.seen[g] = true
	ch := make(chan struct{})
	ov.rel[g] = ch
	ov.mu.Unlock()
	ov.parked <- g
	<-ch
}

func (ov *c14Ovl) release(g string) {
	ov.mu.Lock()
	ch := ov.rel[g]
	delete(ov.rel, g)
	ov.mu.Unlock()
	if ch != nil {
		close(ch)
	}
}

func c14NewOvl(cfg c14Cfg, r *verifh.Rand, out *verifh.Out) *c14World {
	w := &c14World{cfg: cfg, out: out, rec: &c14Rec{closed: map[[2]int]int{}}, duringAt: -1, ovlAt: -1}
	w.ov = &c14Ovl{mock: clock.NewMock(), seen: map[string]bool{}, rel: map[string]chan struct{}{},
		parked: make(chan string, 4), closedBy: map[string][][2]int{}}
	for p := 0; p < c14NP; p++ {
		w.ids[p] = c14PeerID(p)
		for c := 0; c < c14NC; c++ {
			// deterministic attributes (a replay must see the same tie-breaks)
			dir := network.DirOutbound
			if (p+c)%4 == 0 {
				dir = network.DirInbound
			}
			w.conns[p][c] = &c14Conn{p: p, c: c, id: w.ids[p], dir: dir, streams: (p*7 + c*3) % 2, rec: w.rec, w: w,
				addr: ma.StringCast(fmt.Sprintf("/ip4/10.0.%d.%d/tcp/4001", p, c))}
		}
	}
	cm, err := NewConnManager(int(cfg.low), int(cfg.high),
		WithGracePeriod(time.Duration(cfg.grace)*c14Unit),
		WithSilencePeriod(c14OvlSilence*c14Unit),
		WithClock(w.ov.mock),
		DecayerConfig(&DecayerCfg{Resolution: time.Duration(cfg.res) * c14Unit}))
	if err != nil {
		panic(err)
	}
	w.cm = cm
	// the background loop creates its ticker on the mock clock when it starts:
	// the clock must not move before that
	c14Spin("the background loop in its select", func() bool {
		found, _, st := c14Goroutine("", "(*BasicConnMgr).background")
		return found && strings.Contains(st[:strings.IndexByte(st, '\n')+1], "[select")
	})
	w.line = []int64{0, c14NP, cfg.low, cfg.high, cfg.grace, cfg.res, 0}
	return w
}

// c14Spin waits for cond (the guard only turns a stuck protocol into a test failure)
func c14Spin(what string, cond func() bool) {
	start := time.Now()
	for n := 0; !cond(); n++ {
		runtime.Gosched()
		if n%1024 == 1023 && time.Since(start) > 20*time.Second {
			buf := make([]byte, 1<<20)
			buf = buf[:runtime.Stack(buf, true)]
			panic("c14 overlap protocol stuck waiting for " + what + "\n" + string(buf))
		}
	}
}

func c14TrimBusy(id, fn string) bool {
	found, _, st := c14Goroutine(id, fn)
	return found && (strings.Contains(st, ".getConnsToClose") || strings.Contains(st, ".trim(") || strings.Contains(st, ".ForceTrim("))
}

// will a trim issued now reach its sort with at least one comparison?
func (w *c14World) ovlReachesSort(force bool, at time.Time) bool {
	cm := w.cm
	count := int(cm.connCount.Load())
	if force {
		if count-cm.cfg.lowWater < 0 {
			return false
		}
	} else if cm.cfg.lowWater == 0 || cm.cfg.highWater == 0 || count <= cm.cfg.lowWater {
		return false
	}
	gs := at.Add(-cm.cfg.gracePeriod)
	n, nc := 0, 0
	for p := 0; p < c14NP; p++ {
		seg := cm.segments.get(w.ids[p])
		seg.Lock()
		inf, ok := seg.peers[w.ids[p]]
		if ok && !w.isProt(p) && (force || !inf.firstSeen.After(gs)) {
			n++
			nc += len(inf.conns)
		}
		seg.Unlock()
	}
	return n >= 2 && (force || nc >= cm.cfg.lowWater)
}

// ovlScriptOp applies a script op unless its peer's segment is held by a parked trim
func (w *c14World) ovlScript(script []c14Op) (done []c14Op) {
	for _, o := range script {
		if o.a < 0 || o.a >= c14NP {
			continue
		}
		if o.kind == 9 || o.kind == 10 {
			if !w.cm.plk.TryLock() {
				w.cover("overlap.script_op_skipped_plk_held")
				continue
			}
			w.cm.plk.Unlock()
		} else {
			seg := w.cm.segments.get(w.ids[o.a])
			if !seg.TryLock() {
				w.cover("overlap.script_op_skipped_segment_held")
				continue
			}
			seg.Unlock()
		}
		w.apply(o)
		done = append(done, o)
	}
	return
}

// runOverlap: see the protocol above.  Returns false (nothing executed) when
// one of the two trims would not reach its sort.
func (w *c14World) runOverlap(akind int64, s1, s2 []c14Op) bool {
	cm, ov := w.cm, w.ov
	force := akind == 13
	dt := c14OvlSilence - w.now%c14OvlSilence
	now := ov.mock.Now()
	if int(cm.connCount.Load()) < cm.cfg.highWater || !w.ovlReachesSort(force, now) ||
		!w.ovlReachesSort(false, now.Add(time.Duration(dt)*c14Unit)) {
		w.cover("overlap.skipped_a_trim_would_not_reach_its_sort")
		return false
	}
	_, _, bst := c14Goroutine("", "(*BasicConnMgr).background")
	gidB := ""
	if f := strings.Fields(bst); len(f) > 1 {
		gidB = f[1]
	}
	if gidB == "" {
		w.cover("overlap.skipped_no_background_goroutine")
		return false
	}
	w.rec.take()
	cm.segments.bucketsMu.Lock()
	gidCh := make(chan string, 1)
	doneA := make(chan struct{})
	go func() {
		gidCh <- c14Gid()
		if force {
			cm.ForceTrim()
		} else {
			cm.TrimOpenConns(context.Background())
		}
		close(doneA)
	}()
	gidA := <-gidCh
	atLever := func(id string) bool {
		found, wm, st := c14Goroutine(id, "")
		return found && wm && strings.Contains(st, "SortByValueAndStreams")
	}
	c14Spin("trim A at its sort", func() bool { return atLever(gidA) })
	ov.mock.Add(time.Duration(dt) * c14Unit)
	w.now += dt
	c14Spin("the background trim at its sort", func() bool { return atLever(gidB) })
	w.cover("overlap.both_snapshots_complete_before_any_selection")
	s1 = w.ovlScript(s1)
	var present [c14NP]bool
	for p := 0; p < c14NP; p++ {
		present[p] = cm.GetTagInfo(w.ids[p]) != nil
	}
	ov.mu.Lock()
	ov.park = true
	ov.seen = map[string]bool{}
	ov.mu.Unlock()
	cm.segments.bucketsMu.Unlock()
	finA := func() bool {
		select {
		case <-doneA:
			return true
		default:
			return false
		}
	}
	finB := func() bool { return !c14TrimBusy(gidB, "") }
	fin := func(g string) bool {
		if g == gidA {
			return finA()
		}
		return finB()
	}
	other := func(g string) string {
		if g == gidA {
			return gidB
		}
		return gidA
	}
	gX, gY, yParked, xInSort := "", "", false, false
	c14Spin("a parked trim or both finished", func() bool {
		select {
		case g := <-ov.parked:
			gX = g
		default:
		}
		return gX != "" || (finA() && finB())
	})
	if gX != "" {
		ov.release(gX)
		gY = other(gX)
		c14Spin("the second trim parked or finished", func() bool {
			select {
			case <-ov.parked:
				yParked = true
			default:
			}
			return yParked || fin(gY)
		})
		// X goes as far as it can
		c14Spin("the first trim finished or waiting for a segment", func() bool {
			if fin(gX) {
				return true
			}
			found, wm, st := c14Goroutine(gX, "")
			if yParked && found && wm && strings.Contains(st, ".getConnsToClose") && !strings.Contains(st, "countPeers") {
				xInSort = strings.Contains(st, "SortByValueAndStreams")
				return true
			}
			return false
		})
	} else {
		gX, gY = gidA, gidB
		w.cover("overlap.no_tied_comparison_both_trims_ran_through")
	}
	var pruned, locked []int64
	for p := 0; p < c14NP; p++ {
		seg := cm.segments.get(w.ids[p])
		if !seg.TryLock() {
			locked = append(locked, int64(p))
			continue
		}
		_, ok := seg.peers[w.ids[p]]
		seg.Unlock()
		if present[p] && !ok {
			pruned = append(pruned, int64(p))
		}
	}
	if xInSort {
		// the first trim's sort itself needs a segment the second holds: none of its selection ran
		locked = locked[:0]
		for p := 0; p < c14NP; p++ {
			locked = append(locked, int64(p))
		}
		w.cover("overlap.first_trim_still_sorting_at_script2")
	}
	if yParked {
		w.cover("overlap.second_trim_parked_in_its_sort_while_first_selects")
		if fin(gX) {
			w.cover("overlap.first_trim_finished_before_script2")
		} else {
			w.cover("overlap.first_trim_waits_for_a_segment_of_the_second")
		}
	}
	s2 = w.ovlScript(s2)
	ov.mu.Lock()
	ov.park = false
	ov.mu.Unlock()
	if yParked {
		ov.release(gY)
	}
	c14Spin("both trims finished", func() bool { return finA() && finB() })
	// the event
	w.ovlAt = len(w.items)
	xa := int64(0)
	if gX == gidA {
		xa = 1
	}
	ev := []int64{akind, dt, xa, int64(len(s1))}
	for _, o := range s1 {
		ev = append(ev, o.words()...)
	}
	ev = append(ev, int64(len(pruned)))
	ev = append(ev, pruned...)
	ev = append(ev, int64(len(locked)))
	ev = append(ev, locked...)
	ev = append(ev, int64(len(s2)))
	for _, o := range s2 {
		ev = append(ev, o.words()...)
	}
	ev = append(ev, w.observe(0)...)
	ov.mu.Lock()
	for _, g := range []string{gidA, gidB} {
		cl := ov.closedBy[g]
		sort.Slice(cl, func(i, j int) bool {
			if cl[i][0] != cl[j][0] {
				return cl[i][0] < cl[j][0]
			}
			return cl[i][1] < cl[j][1]
		})
		ev = append(ev, int64(len(cl)))
		for _, pc := range cl {
			ev = append(ev, int64(pc[0]), int64(pc[1]))
		}
		if len(cl) > 0 {
			if g == gidA {
				w.cover(fmt.Sprintf("overlap.trim_A_kind_%d_closed_some", akind))
			} else {
				w.cover("overlap.background_trim_closed_some")
			}
		}
	}
	both := map[[2]int]int{}
	for _, g := range []string{gidA, gidB} {
		seen := map[[2]int]bool{}
		for _, pc := range ov.closedBy[g] {
			if !seen[pc] {
				seen[pc] = true
				both[pc]++
			}
		}
	}
	for _, n := range both {
		if n > 1 {
			w.cover("overlap.same_connection_closed_by_both_trims")
			break
		}
	}
	ov.closedBy = map[string][][2]int{}
	ov.mu.Unlock()
	if len(pruned) > 0 {
		w.cover("overlap.first_trim_pruned_before_script2")
	}
	w.ovlEvent = ev
	w.cover(fmt.Sprintf("overlap.executed_with_A_kind_%d", akind))
	return true
}

// c14OverlapCase: a prefix that leaves connCount >= high, candidates out of
// grace (some tied, so that the comparators call Stat), maybe an early-tagged
// temporary entry and protected peers; the overlap; Disconnected for what was
// closed and a few more ops.  directed 1 = the schedule of
// c14_overlap_old_prune_by_id_lost_a_connected_peer (Properties.v).
func c14OverlapCase(out *verifh.Out, r *verifh.Rand, directed int) {
	cfg := c14Cfg{low: int64(1 + r.Intn(2)), grace: []int64{0, 5, 10}[r.Intn(3)], res: 1}
	cfg.high = cfg.low + int64(1+r.Intn(2))
	akind := int64(12)
	if directed == 0 && r.Intn(3) == 0 {
		akind = 13
	}
	switch directed {
	case 1:
		cfg = c14Cfg{low: 1, high: 2, grace: 10, res: 1}
	case 2:
		// an early-tagged PROTECTED entry gets its first connection between the snapshots and the selections
		cfg = c14Cfg{low: 1, high: 2, grace: 0, res: 1}
	case 3:
		// ForceTrim (no script): a protected peer with the lowest value and two unprotected ones
		cfg, akind = c14Cfg{low: 1, high: 2, grace: 10, res: 1}, 13
	}
	w := c14NewOvl(cfg, r, out)
	defer w.close()
	var s1, s2 []c14Op
	if directed == 1 {
		for _, p := range []int{4, 5} {
			w.conns[p][0].dir, w.conns[p][0].streams = network.DirOutbound, 0
		}
		w.exec(c14Op{kind: 3, a: 2, b: 0, v: 7})
		w.exec(c14Op{kind: 1, a: 4, b: 0})
		w.exec(c14Op{kind: 1, a: 5, b: 0})
		w.exec(c14Op{kind: 11, a: 11})
		s2 = []c14Op{{kind: 1, a: 2, b: 0}, {kind: 3, a: 2, b: 1, v: 5}}
	} else if directed == 2 || directed == 3 {
		for _, p := range []int{4, 5} {
			w.conns[p][0].dir, w.conns[p][0].streams = network.DirOutbound, 0
		}
		if directed == 2 {
			w.exec(c14Op{kind: 3, a: 2, b: 0, v: 0})
			w.exec(c14Op{kind: 9, a: 2, b: 0})
			s1 = []c14Op{{kind: 1, a: 2, b: 0}}
		} else {
			w.exec(c14Op{kind: 1, a: 3, b: 0})
			w.exec(c14Op{kind: 1, a: 3, b: 1})
			w.exec(c14Op{kind: 9, a: 3, b: 0})
		}
		for _, p := range []int64{4, 5} {
			w.exec(c14Op{kind: 1, a: p, b: 0})
			w.exec(c14Op{kind: 3, a: p, b: 0, v: 5})
		}
		out.Cover(fmt.Sprintf("overlap.directed_%d", directed))
	} else {
		temp := -1
		if r.Intn(3) != 0 {
			temp = r.Intn(c14NP)
			w.exec(c14Op{kind: 3, a: int64(temp), b: int64(r.Intn(c14NT)), v: int64(1 + r.Intn(9))})
		}
		nconn := 0
		for p := 0; p < c14NP; p++ {
			if p == temp || r.Intn(5) == 0 {
				continue
			}
			for c := 0; c <= r.Intn(2); c++ {
				w.exec(c14Op{kind: 1, a: int64(p), b: int64(c)})
				nconn++
			}
			if r.Intn(2) == 0 {
				w.exec(c14Op{kind: 3, a: int64(p), b: int64(r.Intn(c14NT)), v: int64(r.Intn(3))})
			}
			if r.Intn(5) == 0 {
				w.exec(c14Op{kind: 9, a: int64(p), b: int64(r.Intn(c14NG))})
			}
		}
		if temp >= 0 && r.Intn(4) == 0 {
			w.exec(c14Op{kind: 9, a: int64(temp), b: 0})
		}
		w.exec(c14Op{kind: 11, a: cfg.grace + int64(r.Intn(3))})
		if r.Intn(3) == 0 {
			p := r.Intn(c14NP)
			w.exec(c14Op{kind: 1, a: int64(p), b: int64(2 + r.Intn(2))})
		}
		rop := func() c14Op {
			p := int64(r.Intn(c14NP))
			switch r.Intn(7) {
			case 0, 1:
				return c14Op{kind: 1, a: p, b: int64(r.Intn(c14NC))}
			case 2:
				if cs := w.trackedConns(int(p)); len(cs) > 0 {
					return c14Op{kind: 2, a: p, b: int64(cs[r.Intn(len(cs))])}
				}
				return c14Op{kind: 3, a: p, b: int64(r.Intn(c14NT)), v: int64(r.Intn(5))}
			case 3:
				return c14Op{kind: 3, a: p, b: int64(r.Intn(c14NT)), v: int64(r.Intn(5))}
			case 4:
				return c14Op{kind: 9, a: p, b: int64(r.Intn(c14NG))}
			case 5:
				return c14Op{kind: 10, a: p, b: int64(r.Intn(c14NG))}
			}
			return c14Op{kind: 4, a: p, b: int64(r.Intn(c14NT))}
		}
		for k := r.Intn(3); k > 0; k-- {
			s1 = append(s1, rop())
		}
		if temp >= 0 && r.Intn(2) == 0 {
			s2 = append(s2, c14Op{kind: 1, a: int64(temp), b: int64(r.Intn(c14NC))}, c14Op{kind: 3, a: int64(temp), b: 1, v: int64(1 + r.Intn(5))})
		}
		for k := r.Intn(3); k > 0; k-- {
			s2 = append(s2, rop())
		}
	}
	if !w.runOverlap(akind, s1, s2) {
		return
	}
	if directed == 1 {
		out.Cover("overlap.directed_stale_pointer_schedule")
		if w.cm.GetTagInfo(w.ids[2]) == nil {
			out.Cover("overlap.directed_REGRESSION_connected_peer_lost")
		}
	}
	// deliver Disconnected for what the trims closed, then go on sequentially
	for _, pc := range append([][2]int{}, w.pending...) {
		if r.Intn(6) != 0 {
			w.exec(c14Op{kind: 2, a: int64(pc[0]), b: int64(pc[1])})
		}
	}
	if directed == 1 {
		w.exec(c14Op{kind: 2, a: 2, b: 0})
	}
	for k := r.Intn(4); k > 0; k-- {
		p := int64(r.Intn(c14NP))
		switch r.Intn(4) {
		case 0:
			w.exec(c14Op{kind: 1, a: p, b: int64(r.Intn(c14NC))})
		case 1:
			if cs := w.trackedConns(int(p)); len(cs) > 0 {
				w.exec(c14Op{kind: 2, a: p, b: int64(cs[r.Intn(len(cs))])})
			}
		case 2:
			w.exec(c14Op{kind: 3, a: p, b: int64(r.Intn(c14NT)), v: int64(r.Intn(5))})
		default:
			w.exec(c14Op{kind: 12})
		}
	}
	out.Cover("cases.overlap")
	out.Case(w.caseLine())
}

var c14T *testing.T

func TestVerifNothingC14(t *testing.T) {}

func TestVerifC14(t *testing.T) {
	out, err := verifh.Open()
	if err != nil {
		t.Fatal(err)
	}
	defer out.Close()
	c14T = t
	thorough := verifh.Tier() == "thorough"
	r := verifh.NewRand(verifh.Seed())
	c14Directed(out, r)
	n := 2500
	if thorough {
		n = 100000
	}
	for i := 0; i < n; i++ {
		c14RandomCase(out, r, 25+r.Intn(45))
	}
	nd := 900
	if thorough {
		nd = 40000
	}
	for i := 0; i < nd; i++ {
		c14DuringCase(out, r)
	}
	nc := 300
	if thorough {
		nc = 10000
	}
	for i := 0; i < nc; i++ {
		c14ConcurrentCase(out, r)
	}
	// two trims in flight (outside the synctest bubble: mock clock)
	c14OverlapCase(out, r, 1)
	c14OverlapCase(out, r, 2)
	c14OverlapCase(out, r, 3)
	no := 200
	if thorough {
		no = 6000
	}
	for i := 0; i < no; i++ {
		c14OverlapCase(out, r, 0)
	}
}

// TestVerifC14Replay re-executes the operations of one recorded case
// (VERIF_REPLAY_CASE) on the implementation and writes the case with the
// observations it gets now.
func TestVerifC14Replay(t *testing.T) {
	out, err := verifh.Open()
	if err != nil {
		t.Fatal(err)
	}
	defer out.Close()
	c14T = t
	in := verifh.ReplayCase()
	if len(in) < 7 || (in[0] != 0 && in[0] != 2) {
		t.Fatal("no case")
	}
	np := int(in[1])
	cfg := c14Cfg{low: in[2], high: in[3], grace: in[4], res: in[5]}
	i := 7
	for k := 0; k < int(in[6]); k++ {
		cfg.dts = append(cfg.dts, c14DT{in[i], in[i+1], in[i+2], in[i+3]})
		i += 4
	}
	readOp := func() (c14Op, bool) {
		n := c14OpLen(in[i])
		if i+n > len(in) {
			return c14Op{}, false
		}
		o := c14Op{kind: in[i]}
		if n > 1 {
			o.a = in[i+1]
		}
		if n > 2 {
			o.b = in[i+2]
		}
		if n > 3 {
			o.v = in[i+3]
		}
		i += n
		return o, true
	}
	skipObs := func() {
		i += 1 + 3*np
		if i < len(in) {
			i += 1 + 2*int(in[i])
		}
	}
	var ops, script []c14Op
	npre, hookPoint := -1, 1
	if in[0] == 2 {
		npre = int(in[i])
		i++
	}
	for i < len(in) {
		if len(ops) == npre && script == nil {
			hookPoint = int(in[i])
			ns := int(in[i+1])
			i += 2
			script = []c14Op{}
			for k := 0; k < ns && i < len(in); k++ {
				if o, ok := readOp(); ok {
					script = append(script, o)
				}
			}
			if i < len(in) {
				i += 1 + int(in[i]) // the recorded pruned list
			}
			skipObs()
			continue
		}
		o, ok := readOp()
		if !ok {
			break
		}
		ops = append(ops, o)
		skipObs()
	}
	synctest.Test(t, func(t *testing.T) {
		w := c14New(cfg, verifh.NewRand(1), out)
		defer w.close()
		for k, o := range ops {
			if k == npre && script != nil {
				w.execDuringAt(script, hookPoint)
			}
			w.exec(o)
		}
		if len(ops) == npre && script != nil {
			w.execDuringAt(script, hookPoint)
		}
		out.Case(w.caseLine())
	})
}


// TestVerifC14ReplayOverlap re-executes one recorded overlap case (kind 3):
// same prefix, same trims, same scripts, same later operations.
func TestVerifC14ReplayOverlap(t *testing.T) {
	out, err := verifh.Open()
	if err != nil {
		t.Fatal(err)
	}
	defer out.Close()
	c14T = t
	in := verifh.ReplayCase()
	if len(in) < 8 || in[0] != 3 {
		t.Fatal("no overlap case")
	}
	np := int(in[1])
	cfg := c14Cfg{low: in[2], high: in[3], grace: in[4], res: in[5]}
	i := 7 + 4*int(in[6])
	npre := int(in[i])
	i++
	readOp := func() (c14Op, bool) {
		if i >= len(in) {
			return c14Op{}, false
		}
		n := c14OpLen(in[i])
		if i+n > len(in) {
			return c14Op{}, false
		}
		o := c14Op{kind: in[i]}
		if n > 1 {
			o.a = in[i+1]
		}
		if n > 2 {
			o.b = in[i+2]
		}
		if n > 3 {
			o.v = in[i+3]
		}
		i += n
		return o, true
	}
	skipObs := func() {
		i += 1 + 3*np
		if i < len(in) {
			i += 1 + 2*int(in[i])
		}
	}
	readOps := func(n int) (res []c14Op) {
		for k := 0; k < n; k++ {
			if o, ok := readOp(); ok {
				res = append(res, o)
			}
		}
		return
	}
	var pre, post []c14Op
	for k := 0; k < npre; k++ {
		o, ok := readOp()
		if !ok {
			t.Fatal("short case")
		}
		pre = append(pre, o)
		skipObs()
	}
	if i+4 > len(in) {
		t.Fatal("short case")
	}
	akind := in[i]
	ns1 := int(in[i+3])
	i += 4
	s1 := readOps(ns1)
	i += 1 + int(in[i]) // pruned
	i += 1 + int(in[i]) // locked
	ns2 := int(in[i])
	i++
	s2 := readOps(ns2)
	skipObs()
	i += 1 + 2*int(in[i]) // closed by A
	i += 1 + 2*int(in[i]) // closed by the background trim
	for i < len(in) {
		o, ok := readOp()
		if !ok {
			break
		}
		post = append(post, o)
		skipObs()
	}
	w := c14NewOvl(cfg, verifh.NewRand(1), out)
	defer w.close()
	if akind == 12 && cfg.low == 1 && cfg.high == 2 && cfg.grace == 10 && len(pre) == 4 && pre[0] == (c14Op{kind: 3, a: 2, b: 0, v: 7}) {
		for _, p := range []int{4, 5} {
			w.conns[p][0].dir, w.conns[p][0].streams = network.DirOutbound, 0
		}
	}
	for _, o := range pre {
		w.exec(o)
	}
	if !w.runOverlap(akind, s1, s2) {
		t.Fatal("the overlap cannot be reproduced: a trim would not reach its sort")
	}
	for _, o := range post {
		w.exec(o)
	}
	out.Case(w.caseLine())
}

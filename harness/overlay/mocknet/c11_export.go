//go:build verif

// Injected into p2p/net/mock by the C11 harness (never part of /repo): opens an
// additional connection between two mocknet peers even when one exists, so that
// a peer can reach the relay from two different source addresses at once
// (multi-homed / IPv4+IPv6 peers do this on real networks).
package mocknet

import (
	"fmt"

	"github.com/libp2p/go-libp2p/core/network"
	"github.com/libp2p/go-libp2p/core/peer"
)

func VerifOpenConn(m Mocknet, from, to peer.ID) (network.Conn, error) {
	mn, ok := m.(*mocknet)
	if !ok {
		return nil, fmt.Errorf("not a mocknet")
	}
	pn, ok := mn.Net(from).(*peernet)
	if !ok {
		return nil, fmt.Errorf("no peernet for %s", from)
	}
	links := mn.LinksBetweenPeers(from, to)
	if len(links) == 0 {
		return nil, fmt.Errorf("no link")
	}
	return pn.openConn(to, links[0].(*link))
}

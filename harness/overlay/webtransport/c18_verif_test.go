//go:build verif

package libp2pwebtransport

// C18 correspondence harness (injected with `go test -overlay`; not part of
// /repo).  Drives the real certManager on a mock clock, the real
// verifyRawCerts under testing/synctest's virtual time.Now(), and real dials
// against a real listener on loopback.  One case per line in the wire format
// documented in /verif/coq/c18/Spec.v.

import (
	"context"
	"crypto"
	"crypto/ecdsa"
	"crypto/ed25519"
	"crypto/elliptic"
	"crypto/rand"
	"crypto/rsa"
	"crypto/sha256"
	"crypto/sha512"
	"crypto/tls"
	"crypto/x509"
	"crypto/x509/pkix"
	"errors"
	"fmt"
	"io"
	"math/big"
	"net"
	"os"
	"sort"
	"strings"
	"sync"
	"testing"
	"testing/synctest"
	"time"

	"github.com/benbjohnson/clock"
	ic "github.com/libp2p/go-libp2p/core/crypto"
	pb "github.com/libp2p/go-libp2p/core/crypto/pb"
	"github.com/libp2p/go-libp2p/core/network"
	"github.com/libp2p/go-libp2p/core/peer"
	tpt "github.com/libp2p/go-libp2p/core/transport"
	"github.com/libp2p/go-libp2p/internal/verifh"
	"github.com/libp2p/go-libp2p/p2p/transport/quicreuse"
	ma "github.com/multiformats/go-multiaddr"
	manet "github.com/multiformats/go-multiaddr/net"
	"github.com/multiformats/go-multibase"
	"github.com/multiformats/go-multihash"
	"github.com/quic-go/quic-go"
	"github.com/quic-go/quic-go/http3"
)

// ---- digest ids --------------------------------------------------------------

type c18Ids struct{ m map[string]int64 }

func newC18Ids() *c18Ids { return &c18Ids{m: map[string]int64{}} }

func (t *c18Ids) id(b []byte) int64 {
	if v, ok := t.m[string(b)]; ok {
		return v
	}
	v := int64(len(t.m) + 1)
	t.m[string(b)] = v
	return v
}

// ---- host keys ------------------------------------------------------------------

type c18RandReader struct{ r *verifh.Rand }

func (rr c18RandReader) Read(p []byte) (int, error) {
	for i := range p {
		p[i] = byte(rr.r.Uint64())
	}
	return len(p), nil
}

// a host key whose raw public key starts with two chosen bytes (the bucket
// offset is read from them); everything else is the wrapped real key
type c18StubKey struct {
	ic.PrivKey
	b0, b1 byte
}

type c18StubPub struct {
	ic.PubKey
	b0, b1 byte
}

func (k c18StubKey) GetPublic() ic.PubKey { return c18StubPub{k.PrivKey.GetPublic(), k.b0, k.b1} }
func (k c18StubKey) Type() pb.KeyType     { return k.PrivKey.Type() }
func (p c18StubPub) Raw() ([]byte, error) {
	raw, err := p.PubKey.Raw()
	if err != nil {
		return nil, err
	}
	out := append([]byte{}, raw...)
	out[0], out[1] = p.b0, p.b1
	return out, nil
}

func c18HostKey(r *verifh.Rand, out *verifh.Out) (ic.PrivKey, byte, byte) {
	var key ic.PrivKey
	var err error
	kind := r.Intn(10)
	switch {
	case kind < 6:
		key, _, err = ic.GenerateEd25519Key(c18RandReader{r})
		out.Cover("key.ed25519")
	case kind == 6:
		key, _, err = ic.GenerateSecp256k1Key(rand.Reader)
		out.Cover("key.secp256k1")
	case kind == 7:
		key, _, err = ic.GenerateECDSAKeyPair(rand.Reader)
		out.Cover("key.ecdsa")
	default:
		k, _, e := ic.GenerateEd25519Key(c18RandReader{r})
		err = e
		// extreme / chosen offsets: 0, 1 minute, validity-1 minute, wrap points of the modulo
		vmin := int(certValidity / time.Minute)
		choices := []int{0, 1, vmin - 1, vmin, vmin + 1, 2*vmin - 1, 2 * vmin, 3*vmin - 1, 3 * vmin, 65535, r.Intn(65536)}
		v := choices[r.Intn(len(choices))]
		key = c18StubKey{k, byte(v & 0xff), byte(v >> 8)}
		out.Cover("key.stub_chosen_offset")
	}
	if err != nil {
		panic(err)
	}
	raw, err := key.GetPublic().Raw()
	if err != nil {
		panic(err)
	}
	return key, raw[0], raw[1]
}

// ---- snapshots -------------------------------------------------------------------

func c18Pairs(ids *c18Ids, hs []multihash.DecodedMultihash) []int64 {
	res := []int64{int64(len(hs))}
	for _, h := range hs {
		res = append(res, int64(h.Code), ids.id(h.Digest))
	}
	return res
}

func c18Cfg(ids *c18Ids, c *certConfig) []int64 {
	if c == nil {
		return []int64{0, 0, 0, 0}
	}
	leaf := c.tlsConf.Certificates[0].Leaf
	h := sha256.Sum256(leaf.Raw)
	return []int64{1, leaf.NotBefore.UnixNano(), leaf.NotAfter.UnixNano(), ids.id(h[:])}
}

// SNAP = t  lp ls le lh  cs ce ch  np ns ne nh  vs ve vh  k (code id)^k  j (code id)^j
func c18Snap(ids *c18Ids, cl *clock.Mock, m *certManager) ([]int64, int64) {
	line := []int64{cl.Now().UnixNano()}
	m.mx.RLock()
	last, cur, next := m.lastConfig, m.currentConfig, m.nextConfig
	m.mx.RUnlock()
	line = append(line, c18Cfg(ids, last)...)
	line = append(line, c18Cfg(ids, cur)[1:]...)
	line = append(line, c18Cfg(ids, next)...)
	leaf := m.GetConfig().Certificates[0].Leaf
	h := sha256.Sum256(leaf.Raw)
	srv := ids.id(h[:])
	line = append(line, leaf.NotBefore.UnixNano(), leaf.NotAfter.UnixNano(), srv)
	var ser []multihash.DecodedMultihash
	for _, b := range m.SerializedCertHashes() {
		dh, err := multihash.Decode(b)
		if err != nil {
			ser = append(ser, multihash.DecodedMultihash{Code: 0, Digest: b})
			continue
		}
		ser = append(ser, *dh)
	}
	line = append(line, c18Pairs(ids, ser)...)
	addr, err := extractCertHashes(m.AddrComponent())
	if err != nil {
		addr = nil
	}
	line = append(line, c18Pairs(ids, addr)...)
	return line, srv
}

const c18MaxT = int64(4_000_000_000_000_000_000) // keep instants below 2^62 ns (year ~2096)

func c18Offset(b0, b1 byte) time.Duration {
	return (time.Duration(uint16(b0)|uint16(b1)<<8) * time.Minute) % certValidity
}

// one timeline; runs inside a synctest bubble
func c18Timeline(out *verifh.Out, r *verifh.Rand, inDomain bool, maxOps int) {
	ids := newC18Ids()
	key, b0, b1 := c18HostKey(r, out)
	off := c18Offset(b0, b1)
	period := certValidity - 2*clockSkewAllowance
	deltas := []time.Duration{0, 0, 1, -1, time.Millisecond, -time.Millisecond, time.Second, -time.Second,
		999999, 1000001, time.Duration(r.Uint64() % uint64(period)), time.Duration(r.Uint64() % uint64(period))}
	var t0 int64
	if inDomain {
		// around a roll instant  offset + k*period + skew  of this key
		k := int64(r.Intn(4500)) // up to ~170 years of 13.9-day periods; clipped below
		if r.Chance(1, 8) {
			k = 0
		}
		base := int64(off) + k*int64(period) + int64(clockSkewAllowance)
		d := deltas[r.Intn(len(deltas))]
		if r.Chance(1, 6) {
			d = period - clockSkewAllowance + deltas[r.Intn(10)] // around the bucket boundary itself
		}
		t0 = base + int64(d)
		for t0 > c18MaxT-20*int64(certValidity) {
			t0 -= 1000 * int64(period)
		}
		if t0 < int64(off)+int64(clockSkewAllowance) {
			t0 = int64(off) + int64(clockSkewAllowance)
			out.Cover("timeline.t0_at_domain_edge")
		}
	} else {
		// before 1970-01-01 + offset + skew: Go's truncating division rounds the bucket up
		cands := []int64{0, int64(off) + int64(clockSkewAllowance) - 1, int64(off), -1, -int64(time.Hour),
			-int64(r.Uint64() % uint64(400*24*time.Hour)), int64(r.Uint64() % uint64(int64(off)+int64(clockSkewAllowance)))}
		t0 = cands[r.Intn(len(cands))]
	}
	cl := clock.NewMock()
	cl.Set(time.Unix(0, t0))
	m, err := newCertManager(key, cl)
	if err != nil {
		panic(err)
	}
	synctest.Wait()
	kind := int64(1)
	if !inDomain {
		kind = 4
	}
	line := []int64{kind, int64(b0), int64(b1), t0, 0}
	sn, srv := c18Snap(ids, cl, m)
	line = append(line, sn...)
	rolls := 0
	nops := 1 + r.Intn(maxOps)
	for i := 0; i < nops; i++ {
		c := r.Intn(100)
		switch {
		case c < 66:
			m.mx.RLock()
			fireAt := m.currentConfig.End().Add(-clockSkewAllowance)
			m.mx.RUnlock()
			toFire := fireAt.Sub(cl.Now())
			var d time.Duration
			switch r.Intn(10) {
			case 0:
				d = 0
			case 1, 2:
				d = toFire // exactly the timer instant
				out.Cover("adv.exactly_timer_instant")
			case 3:
				d = toFire - 1
				out.Cover("adv.1ns_before_timer")
			case 4:
				d = toFire + deltas[r.Intn(10)]
			case 5:
				d = period
				out.Cover("adv.full_period")
			case 6:
				d = toFire - time.Millisecond
			default:
				d = time.Duration(r.Uint64() % uint64(period+1))
			}
			if d < 0 {
				d = 0
			}
			if d > period {
				d = period
			}
			if cl.Now().UnixNano()+int64(d) > c18MaxT {
				d = 0
			}
			cl.Add(d)
			synctest.Wait()
			sn, s2 := c18Snap(ids, cl, m)
			if s2 != srv {
				rolls++
				out.Cover("timeline.rollover_observed")
			}
			srv = s2
			line = append(line, 1, int64(d))
			line = append(line, sn...)
		case c < 76:
			m.Close()
			m, err = newCertManager(key, cl)
			if err != nil {
				panic(err)
			}
			synctest.Wait()
			sn, s2 := c18Snap(ids, cl, m)
			srv = s2
			line = append(line, 2)
			line = append(line, sn...)
			out.Cover("timeline.restart")
		case c < 90:
			m2, err := newCertManager(key, cl)
			if err != nil {
				panic(err)
			}
			synctest.Wait()
			sn, _ := c18Snap(ids, cl, m2)
			m2.Close()
			line = append(line, 3)
			line = append(line, sn...)
			out.Cover("timeline.probe_second_manager")
		default:
			// generateCert again for a bucket of this timeline (or a neighbouring one)
			m.mx.RLock()
			s := m.currentConfig.Start()
			if r.Bool() {
				s = m.nextConfig.Start()
			} else if m.lastConfig != nil && r.Bool() {
				s = m.lastConfig.Start()
			}
			m.mx.RUnlock()
			e := s.Add(certValidity)
			if r.Chance(1, 5) {
				e = s.Add(certValidity - time.Duration(1+r.Intn(1000))*time.Second) // same start, other end: another certificate
				out.Cover("regen.same_start_other_end")
			}
			cert, _, err := generateCert(key, s, e)
			if err != nil {
				panic(err)
			}
			h := sha256.Sum256(cert.Raw)
			line = append(line, 4, s.UnixNano(), e.UnixNano(), ids.id(h[:]))
			out.Cover("timeline.regen")
		}
	}
	m.Close()
	synctest.Wait()
	out.Cover(fmt.Sprintf("timeline.kind%d.cases", kind))
	if rolls > 6 {
		rolls = 6
	}
	out.Cover(fmt.Sprintf("timeline.rollovers_%d", rolls))
	out.Case(line)
}

// ---- certificates for the verifier ------------------------------------------------

type c18Signers struct {
	ec  *ecdsa.PrivateKey
	ec2 *ecdsa.PrivateKey
	rs  *rsa.PrivateKey
	ed  ed25519.PrivateKey
}

func newC18Signers() *c18Signers {
	ec, _ := ecdsa.GenerateKey(elliptic.P256(), rand.Reader)
	ec2, _ := ecdsa.GenerateKey(elliptic.P256(), rand.Reader)
	rs, err := rsa.GenerateKey(rand.Reader, 2048)
	if err != nil {
		panic(err)
	}
	_, ed, _ := ed25519.GenerateKey(rand.Reader)
	return &c18Signers{ec, ec2, rs, ed}
}

// certificate flavours
const (
	c18Ecdsa       = iota // ECDSA key, self-signed
	c18RsaPkcs1           // RSA key, self-signed, SHA256WithRSA
	c18RsaPkcs1384        // RSA key, self-signed, SHA384WithRSA
	c18RsaPss             // RSA key, self-signed, SHA256WithRSAPSS
	c18RsaKeyEcSig        // RSA key, signed by an ECDSA issuer
	c18EcKeyRsaSig        // ECDSA key, signed by an RSA issuer (PKCS#1 v1.5)
	c18Ed25519            // Ed25519, self-signed
	c18Garbage            // not a certificate
	c18Flavours
)

type c18Cert struct {
	raw  []byte
	priv crypto.PrivateKey
	leaf *x509.Certificate
}

var c18Serial int64 = 1000

func c18MakeCert(sg *c18Signers, flavour int, nb, na time.Time) c18Cert {
	c18Serial++
	tm := &x509.Certificate{SerialNumber: big.NewInt(c18Serial), Subject: pkix.Name{}, NotBefore: nb, NotAfter: na,
		IsCA: true, BasicConstraintsValid: true, KeyUsage: x509.KeyUsageDigitalSignature | x509.KeyUsageCertSign,
		ExtKeyUsage: []x509.ExtKeyUsage{x509.ExtKeyUsageClientAuth, x509.ExtKeyUsageServerAuth}}
	var pub crypto.PublicKey
	var signer, own crypto.PrivateKey
	switch flavour {
	case c18Ecdsa:
		pub, signer, own = sg.ec.Public(), sg.ec, sg.ec
	case c18RsaPkcs1:
		tm.SignatureAlgorithm = x509.SHA256WithRSA
		pub, signer, own = sg.rs.Public(), sg.rs, sg.rs
	case c18RsaPkcs1384:
		tm.SignatureAlgorithm = x509.SHA384WithRSA
		pub, signer, own = sg.rs.Public(), sg.rs, sg.rs
	case c18RsaPss:
		tm.SignatureAlgorithm = x509.SHA256WithRSAPSS
		pub, signer, own = sg.rs.Public(), sg.rs, sg.rs
	case c18RsaKeyEcSig:
		pub, signer, own = sg.rs.Public(), sg.ec2, sg.rs
	case c18EcKeyRsaSig:
		tm.SignatureAlgorithm = x509.SHA256WithRSA
		pub, signer, own = sg.ec.Public(), sg.rs, sg.ec
	case c18Ed25519:
		pub, signer, own = sg.ed.Public(), sg.ed, sg.ed
	case c18Garbage:
		b := make([]byte, 300)
		rand.Read(b)
		return c18Cert{raw: b}
	}
	raw, err := x509.CreateCertificate(rand.Reader, tm, tm, pub, signer)
	if err != nil {
		panic(err)
	}
	leaf, err := x509.ParseCertificate(raw)
	if err != nil {
		panic(err)
	}
	return c18Cert{raw: raw, priv: own, leaf: leaf}
}

// CERT = id parses pubrsa sig nb na   (nb/na relative to now)
func c18Describe(ids *c18Ids, c c18Cert, now time.Time) []int64 {
	h := sha256.Sum256(c.raw)
	cert, err := x509.ParseCertificate(c.raw)
	if err != nil {
		return []int64{ids.id(h[:]), 0, 0, 0, 0, 0}
	}
	var sig int64
	switch cert.SignatureAlgorithm {
	case x509.ECDSAWithSHA1, x509.ECDSAWithSHA256, x509.ECDSAWithSHA384, x509.ECDSAWithSHA512:
		sig = 0
	case x509.MD2WithRSA, x509.MD5WithRSA, x509.SHA1WithRSA, x509.SHA256WithRSA, x509.SHA384WithRSA, x509.SHA512WithRSA:
		sig = 1
	case x509.SHA256WithRSAPSS, x509.SHA384WithRSAPSS, x509.SHA512WithRSAPSS:
		sig = 2
	case x509.PureEd25519:
		sig = 3
	default:
		sig = 9
	}
	var pubrsa int64
	if cert.PublicKeyAlgorithm == x509.RSA {
		pubrsa = 1
	}
	return []int64{ids.id(h[:]), 1, pubrsa, sig, cert.NotBefore.UnixNano() - now.UnixNano(), cert.NotAfter.UnixNano() - now.UnixNano()}
}

func c18ErrClass(err error) int64 {
	if err == nil {
		return 0
	}
	var mm ErrCertHashMismatch
	switch {
	case err.Error() == "no cert":
		return 1
	case errors.As(err, &mm):
		return 2
	case err.Error() == "cert uses RSA":
		return 4
	case strings.HasPrefix(err.Error(), "cert must not be valid for longer"):
		return 5
	case strings.HasPrefix(err.Error(), "cert not valid"):
		return 6
	}
	return 3
}

// the validity windows of the quantifier's table, relative to now (whole seconds)
type c18Window struct {
	name   string
	nb, na time.Duration
}

func c18Windows(r *verifh.Rand) []c18Window {
	day := 24 * time.Hour
	return []c18Window{
		{"valid", -time.Hour, 24 * time.Hour},
		{"valid", -3 * day, 3 * day},
		{"valid_exactly_14d", -day, 13 * day},
		{"too_long_by_1s", -day, 13*day + time.Second},
		{"too_long_10y", -day, 3650 * day},
		{"too_long_but_otherwise_fine", -10 * day, 10 * day},
		{"starts_now", 0, day},
		{"not_yet_valid_1s", time.Second, day},
		{"not_yet_valid", 2 * day, 5 * day},
		{"ends_now", -day, 0},
		{"expired_1s", -day, -time.Second},
		{"expired", -10 * day, -2 * day},
		{"inverted", day, -day},
		{"zero_length_now", 0, 0},
		{"random", -time.Duration(r.Intn(20*24*3600)) * time.Second, time.Duration(r.Intn(20*24*3600)) * time.Second},
	}
}

func c18Sha256MH(raw []byte) multihash.DecodedMultihash {
	h := sha256.Sum256(raw)
	return multihash.DecodedMultihash{Code: multihash.SHA2_256, Name: "sha2-256", Length: 32, Digest: h[:]}
}

// hash lists: how the pinned certificate appears (or does not) in the dialed address
func c18HashList(r *verifh.Rand, out *verifh.Out, variant int, pinned []byte, others [][]byte) []multihash.DecodedMultihash {
	var l []multihash.DecodedMultihash
	for _, o := range others {
		l = append(l, c18Sha256MH(o))
	}
	good := c18Sha256MH(pinned)
	switch variant {
	case 0: // present (at a random position)
		pos := r.Intn(len(l) + 1)
		l = append(l[:pos], append([]multihash.DecodedMultihash{good}, l[pos:]...)...)
		out.Cover("hashes.present")
	case 1: // absent
		out.Cover("hashes.absent")
	case 2: // same digest bytes under another hash function's code
		bad := good
		bad.Code, bad.Name = multihash.SHA3_256, "sha3-256"
		l = append(l, bad)
		out.Cover("hashes.right_digest_wrong_code")
	case 3: // the certificate's SHA-512
		h := sha512.Sum512(pinned)
		l = append(l, multihash.DecodedMultihash{Code: multihash.SHA2_512, Name: "sha2-512", Length: 64, Digest: h[:]})
		out.Cover("hashes.sha512_of_cert")
	case 4: // truncated digest
		bad := good
		bad.Digest, bad.Length = good.Digest[:31], 31
		l = append(l, bad)
		out.Cover("hashes.truncated_digest")
	case 5: // empty list
		l = nil
		out.Cover("hashes.empty_list")
	case 6: // wrong code first, right entry later
		bad := good
		bad.Code, bad.Name = multihash.SHA2_512, "sha2-512"
		l = append([]multihash.DecodedMultihash{bad}, l...)
		l = append(l, good)
		out.Cover("hashes.wrong_code_then_present")
	}
	return l
}

const c18HashVariants = 7

func c18AlignSecond() time.Time {
	now := time.Now()
	next := now.Truncate(time.Second).Add(time.Second)
	time.Sleep(next.Sub(now))
	return time.Now()
}

func c18VerifyCase(out *verifh.Out, r *verifh.Rand, sg *c18Signers, flavour int, w c18Window, hv int, chainLen int, subSecond time.Duration) int64 {
	ids := newC18Ids()
	c18AlignSecond()
	if subSecond > 0 {
		time.Sleep(subSecond)
	}
	now := time.Now()
	base := now.Truncate(time.Second)
	main := c18MakeCert(sg, flavour, base.Add(w.nb), base.Add(w.na))
	var chain []c18Cert
	pinned := main
	switch chainLen {
	case 0:
	case 1:
		chain = []c18Cert{main}
	default:
		// longer chains (outside the stated quantifier): the verifier looks at the LAST entry
		other := c18MakeCert(sg, c18Ecdsa, base.Add(-time.Hour), base.Add(time.Hour))
		if r.Bool() {
			chain = []c18Cert{other, main}
		} else {
			chain = []c18Cert{main, other}
			if r.Bool() {
				pinned = other
			}
		}
		for len(chain) < chainLen {
			chain = append([]c18Cert{c18MakeCert(sg, c18Ecdsa, base.Add(-time.Hour), base.Add(time.Hour))}, chain...)
		}
	}
	var others [][]byte
	for i := r.Intn(3); i > 0; i-- {
		b := make([]byte, 40)
		c18RandReader{r}.Read(b)
		others = append(others, b)
	}
	hashes := c18HashList(r, out, hv, pinned.raw, others)
	if len(chain) >= 2 && r.Chance(1, 3) {
		// every certificate of the chain is pinned: what differs is which one gets its validity rules checked
		for _, c := range chain {
			hashes = append(hashes, c18Sha256MH(c.raw))
		}
		out.Cover("verify.chain2_all_pinned")
	}
	raws := make([][]byte, len(chain))
	for i, c := range chain {
		raws[i] = c.raw
	}
	if time.Now() != now {
		panic("virtual time moved")
	}
	err := verifyRawCerts(raws, hashes)
	res := c18ErrClass(err)
	line := []int64{2, int64(len(chain))}
	for _, c := range chain {
		line = append(line, c18Describe(ids, c, now)...)
	}
	line = append(line, c18Pairs(ids, hashes)...)
	line = append(line, res)
	out.Cover(fmt.Sprintf("verify.result_%d", res))
	out.Cover(fmt.Sprintf("verify.chain_len_%d", min(chainLen, 3)))
	out.Cover(fmt.Sprintf("verify.flavour_%d", flavour))
	out.Cover("verify.window." + w.name)
	if res == 0 && len(chain) >= 2 {
		h0 := c18Sha256MH(chain[0].raw)
		pinnedFirst := false
		for _, h := range hashes {
			if h.Code == multihash.SHA2_256 && string(h.Digest) == string(h0.Digest) {
				pinnedFirst = true
			}
		}
		if !pinnedFirst {
			out.Cover("verify.chain2_accepted_first_cert_unpinned")
		}
	}
	out.Case(line)
	return res
}

// ---- real dials -------------------------------------------------------------------

func c18CerthashComp(code uint64, digest []byte) string {
	mh, err := multihash.Encode(digest, code)
	if err != nil {
		panic(err)
	}
	s, err := multibase.Encode(multibase.Base58BTC, mh)
	if err != nil {
		panic(err)
	}
	return "/certhash/" + s
}

type c18Dialer struct {
	out      *verifh.Out
	r        *verifh.Rand
	srvKey   ic.PrivKey
	srvID    peer.ID
	srv      *transport
	cli      *transport
	base     string // listener address without certhashes
	mgr      *certManager
	origCur  *certConfig
	origSer  [][]byte
	prev2Raw []byte
	genuine  bool  // kind 7: untampered listener, address exactly as its multiaddr carried it
	cfg      int64 // how the dialing transport was built: 0 default, 1 WithTLSClientConfig, 2 ... with a user VerifyPeerCertificate
}

// a dial that must complete: the listener is untouched and the certhashes are the ones its multiaddr carried
func (d *c18Dialer) runGenuine(hashes []multihash.DecodedMultihash) int64 {
	d.genuine = true
	defer func() { d.genuine = false }()
	return d.run(nil, nil, false, hashes)
}

func (d *c18Dialer) dialOnce(addr ma.Multiaddr) int64 {
	for attempt := 0; ; attempt++ {
		ctx, cancel := context.WithTimeout(context.Background(), 10*time.Second)
		c, err := d.cli.Dial(ctx, addr, d.srvID)
		cancel()
		if err == nil {
			c.Close()
			return 0
		}
		var trErr *quic.TransportError
		if errors.As(err, &trErr) && trErr.ErrorCode.IsCryptoError() {
			return 1
		}
		var mm ErrCertHashMismatch
		if errors.As(err, &mm) {
			return 1
		}
		if strings.Contains(err.Error(), "without certhashes") {
			return 1 // refused before any handshake: nothing to pin
		}
		if (errors.Is(err, context.DeadlineExceeded) || strings.Contains(err.Error(), "timeout")) && attempt < 2 {
			d.out.Cover("dial.retry_after_timeout")
			continue
		}
		if strings.Contains(err.Error(), "missing cert hash") || strings.Contains(err.Error(), "failed to decode hash") ||
			strings.Contains(err.Error(), "didn't verify") {
			return 2
		}
		d.out.Comment("unclassified dial error: " + err.Error())
		return 2
	}
}

// one dial: the server presents [chain] (nil = its own current certificate),
// sends [ser] as early data (nil = what its certManager holds), the dialer
// uses an address carrying [comps]
func (d *c18Dialer) run(chain []c18Cert, ser [][]byte, useSer bool, hashes []multihash.DecodedMultihash) int64 {
	ids := newC18Ids()
	m := d.mgr
	m.mx.Lock()
	if chain != nil {
		var raws [][]byte
		for _, c := range chain {
			raws = append(raws, c.raw)
		}
		m.currentConfig = &certConfig{tlsConf: &tls.Config{
			Certificates: []tls.Certificate{{Certificate: raws, PrivateKey: chain[0].priv, Leaf: chain[0].leaf}},
			NextProtos:   []string{http3.NextProtoH3},
		}, sha256: sha256.Sum256(chain[0].raw)}
	} else {
		m.currentConfig = d.origCur
	}
	if useSer {
		m.serializedCertHashes = ser
	} else {
		m.serializedCertHashes = append([][]byte{}, d.origSer...)
	}
	sent := append([][]byte{}, m.serializedCertHashes...)
	served := m.currentConfig.tlsConf.Certificates[0]
	m.mx.Unlock()

	s := d.base
	for _, h := range hashes {
		s += c18CerthashComp(h.Code, h.Digest)
	}
	addr, err := ma.NewMultiaddr(s)
	if err != nil {
		panic(err)
	}
	now := time.Now()
	outcome := d.dialOnce(addr)

	line := []int64{3, int64(len(served.Certificate))}
	if d.cfg != 0 {
		line = []int64{6, d.cfg, int64(len(served.Certificate))}
	}
	if d.genuine {
		line = []int64{7, d.cfg, int64(len(served.Certificate))}
	}
	for _, raw := range served.Certificate {
		line = append(line, c18Describe(ids, c18Cert{raw: raw}, now)...)
	}
	line = append(line, c18Pairs(ids, hashes)...)
	dec := int64(1)
	var srvHashes []multihash.DecodedMultihash
	for _, b := range sent {
		dh, err := multihash.Decode(b)
		if err != nil {
			dec = 0
			srvHashes = nil
			break
		}
		srvHashes = append(srvHashes, *dh)
	}
	line = append(line, dec)
	line = append(line, c18Pairs(ids, srvHashes)...)
	line = append(line, outcome)
	d.out.Cover(fmt.Sprintf("dial.outcome_%d", outcome))
	d.out.Case(line)
	return outcome
}

func c18Dials(t *testing.T, out *verifh.Out, r *verifh.Rand, sg *c18Signers, n int) {
	srvKey, _, _ := ic.GenerateEd25519Key(c18RandReader{r})
	srvID, _ := peer.IDFromPrivateKey(srvKey)
	cm, err := quicreuse.NewConnManager(quic.StatelessResetKey{}, quic.TokenGeneratorKey{})
	if err != nil {
		t.Fatal(err)
	}
	defer cm.Close()
	period := certValidity - 2*clockSkewAllowance
	realNow := time.Now()
	cl := clock.NewMock()
	cl.Set(realNow.Add(-period))
	trI, err := New(srvKey, nil, cm, nil, &network.NullResourceManager{}, WithClock(cl))
	if err != nil {
		t.Fatal(err)
	}
	srv := trI.(*transport)
	defer srv.Close()
	ln, err := srv.Listen(ma.StringCast("/ip4/127.0.0.1/udp/0/quic-v1/webtransport"))
	if err != nil {
		t.Fatal(err)
	}
	defer ln.Close()
	go func() {
		for {
			c, err := ln.Accept()
			if err != nil {
				return
			}
			go func() { time.Sleep(200 * time.Millisecond); c.Close() }()
		}
	}()
	m := srv.certManager
	addrPrev, err := extractCertHashes(ln.Multiaddr()) // the address as a peer learns it BEFORE the rollover
	if err != nil {
		t.Fatal(err)
	}
	// one exact rollover so that lastConfig is set and the current certificate is valid in real time
	m.mx.RLock()
	fireAt := m.currentConfig.End().Add(-clockSkewAllowance)
	before := m.currentConfig
	m.mx.RUnlock()
	cl.Set(fireAt)
	for i := 0; i < 5000; i++ {
		m.mx.RLock()
		changed := m.currentConfig != before
		m.mx.RUnlock()
		if changed {
			break
		}
		time.Sleep(time.Millisecond)
	}
	cl.Set(realNow)
	m.mx.RLock()
	last, cur, next := m.lastConfig, m.currentConfig, m.nextConfig
	origSer := append([][]byte{}, m.serializedCertHashes...)
	m.mx.RUnlock()
	if last == nil || cur == before {
		t.Fatal("c18: the server's certManager did not roll over at End-skew")
	}
	cliKey, _, _ := ic.GenerateEd25519Key(c18RandReader{r})
	cm2, err := quicreuse.NewConnManager(quic.StatelessResetKey{}, quic.TokenGeneratorKey{})
	if err != nil {
		t.Fatal(err)
	}
	defer cm2.Close()
	cliI, err := New(cliKey, nil, cm2, nil, &network.NullResourceManager{})
	if err != nil {
		t.Fatal(err)
	}
	cli := cliI.(*transport)
	defer cli.Close()

	base := ln.Multiaddr().String()
	if i := strings.Index(base, "/certhash/"); i >= 0 {
		base = base[:i]
	}
	d := &c18Dialer{out: out, r: r, srvKey: srvKey, srvID: srvID, srv: srv, cli: cli, base: base, mgr: m, origCur: cur, origSer: origSer}
	defer func() {
		m.mx.Lock()
		m.currentConfig = cur
		m.serializedCertHashes = origSer
		m.mx.Unlock()
	}()

	// dialers built with WithTLSClientConfig
	var cfgDialers []*c18Dialer
	for cfg := int64(1); cfg <= 4; cfg++ {
		conf := &tls.Config{MinVersion: tls.VersionTLS13, SessionTicketsDisabled: true, ServerName: "c18.example"}
		switch cfg {
		case 2:
			conf.VerifyPeerCertificate = func([][]byte, [][]*x509.Certificate) error { return nil }
			conf.VerifyConnection = func(tls.ConnectionState) error { return nil }
		case 3:
			conf = &tls.Config{InsecureSkipVerify: true}
		case 4:
			pool := x509.NewCertPool()
			pool.AddCert(cur.tlsConf.Certificates[0].Leaf)
			pool.AddCert(next.tlsConf.Certificates[0].Leaf)
			conf = &tls.Config{RootCAs: pool}
		}
		k, _, _ := ic.GenerateEd25519Key(c18RandReader{r})
		cmx, err := quicreuse.NewConnManager(quic.StatelessResetKey{}, quic.TokenGeneratorKey{})
		if err != nil {
			t.Fatal(err)
		}
		defer cmx.Close()
		tx, err := New(k, nil, cmx, nil, &network.NullResourceManager{}, WithTLSClientConfig(conf))
		if err != nil {
			t.Fatal(err)
		}
		defer tx.(*transport).Close()
		dc := *d
		dc.cli, dc.cfg = tx.(*transport), cfg
		cfgDialers = append(cfgDialers, &dc)
	}

	hLast := multihash.DecodedMultihash{Code: multihash.SHA2_256, Length: 32, Digest: last.sha256[:]}
	hCur := multihash.DecodedMultihash{Code: multihash.SHA2_256, Length: 32, Digest: cur.sha256[:]}
	hNext := multihash.DecodedMultihash{Code: multihash.SHA2_256, Length: 32, Digest: next.sha256[:]}
	bogusD := sha256.Sum256([]byte("c18 bogus"))
	hBogus := multihash.DecodedMultihash{Code: multihash.SHA2_256, Length: 32, Digest: bogusD[:]}
	hCur512 := multihash.DecodedMultihash{Code: multihash.SHA2_512, Length: 32, Digest: cur.sha256[:]}
	// the certificate of two periods ago: a genuine certificate of this host that is no longer advertised
	old, _, err := generateCert(srvKey, last.Start().Add(-period), last.Start().Add(-period).Add(certValidity))
	if err != nil {
		t.Fatal(err)
	}
	hOld := c18Sha256MH(old.Raw)
	pool := []multihash.DecodedMultihash{hLast, hCur, hNext, hBogus, hCur512, hOld}
	names := []string{"last", "cur", "next", "bogus", "cur_as_sha512", "two_periods_ago"}

	enc := func(h multihash.DecodedMultihash) []byte {
		b, err := multihash.Encode(h.Digest, h.Code)
		if err != nil {
			panic(err)
		}
		return b
	}
	// fixed matrix first: the address as learned in the previous / current period, with additions
	fixed := [][]int{{1}, {1, 2}, {0, 1}, {0}, {2}, {3}, {1, 3}, {3, 1}, {1, 5}, {4}, {1, 4}, {0, 1, 2}, {1, 1}}
	for _, f := range fixed {
		var hs []multihash.DecodedMultihash
		for _, i := range f {
			hs = append(hs, pool[i])
			out.Cover("dial.addr_has." + names[i])
		}
		d.run(nil, nil, false, hs)
	}
	// clause 17: addresses exactly as the listener's multiaddr carried them before and after the rollover,
	// untampered listener, every dialer configuration: these dials must complete
	addrCur, err := extractCertHashes(ln.Multiaddr())
	if err != nil {
		t.Fatal(err)
	}
	for _, dc := range append([]*c18Dialer{d}, cfgDialers...) {
		oc := dc.runGenuine(addrPrev)
		out.Cover(fmt.Sprintf("genuine.cfg%d.address_learned_before_the_rollover.outcome_%d", dc.cfg, oc))
		oc = dc.runGenuine(addrCur)
		out.Cover(fmt.Sprintf("genuine.cfg%d.address_learned_after_the_rollover.outcome_%d", dc.cfg, oc))
		// an address without any certhash must never complete, whatever the dialer's tls.Config trusts
		oc = dc.run(nil, nil, false, nil)
		out.Cover(fmt.Sprintf("dial.cfg%d.address_without_certhash.outcome_%d", dc.cfg, oc))
	}
	// the server repeats entries in its early-data list: a repeated hash confirms only itself
	for _, dup := range [][]int{{1, 1, 2}, {1, 1}, {0, 0, 1, 1}, {1, 2, 2, 1}, {3, 3, 1}} {
		var ser [][]byte
		for _, i := range dup {
			ser = append(ser, enc(pool[i]))
		}
		for _, ad := range [][]int{{1, 3}, {1, 0}, {1, 2}, {1}, {3, 1}, {1, 5}} {
			var hs []multihash.DecodedMultihash
			for _, i := range ad {
				hs = append(hs, pool[i])
			}
			d.run(nil, ser, true, hs)
		}
		out.Cover("dial.server_list_with_duplicates")
	}
	// the server does not confirm: drops each entry in turn, sends nothing, sends garbage, re-codes an entry
	for drop := 0; drop < len(origSer); drop++ {
		var ser [][]byte
		for i, b := range origSer {
			if i != drop {
				ser = append(ser, b)
			}
		}
		d.run(nil, ser, true, []multihash.DecodedMultihash{hLast, hCur})
		d.run(nil, ser, true, []multihash.DecodedMultihash{hCur, hNext})
		out.Cover("dial.server_drops_one_hash")
	}
	d.run(nil, [][]byte{}, true, []multihash.DecodedMultihash{hCur})
	out.Cover("dial.server_sends_no_hashes")
	d.run(nil, [][]byte{{0xff, 0xff, 0x01}}, true, []multihash.DecodedMultihash{hCur})
	out.Cover("dial.server_sends_undecodable")
	d.run(nil, [][]byte{enc(hCur512), enc(hNext)}, true, []multihash.DecodedMultihash{hCur})
	out.Cover("dial.server_confirms_under_other_code")
	d.run(nil, [][]byte{enc(hCur512), enc(hNext)}, true, []multihash.DecodedMultihash{hCur, hCur512})
	// the server presents other certificates
	base0 := time.Now().Truncate(time.Second)
	day := 24 * time.Hour
	type sv struct {
		flavour int
		nb, na  time.Duration
		name    string
	}
	for _, v := range []sv{
		{c18Ecdsa, -day, day, "ecdsa_valid"}, {c18Ecdsa, -day, 14 * day, "ecdsa_too_long"},
		{c18Ecdsa, -3 * day, -day, "ecdsa_expired"}, {c18Ecdsa, day, 3 * day, "ecdsa_not_yet_valid"},
		{c18RsaPkcs1, -day, day, "rsa_pkcs1"}, {c18RsaPss, -day, day, "rsa_pss"},
		{c18RsaKeyEcSig, -day, day, "rsa_key_ecdsa_issuer"}, {c18Ed25519, -day, day, "ed25519"},
	} {
		c := c18MakeCert(sg, v.flavour, base0.Add(v.nb), base0.Add(v.na))
		pin := c18Sha256MH(c.raw)
		ser := [][]byte{enc(pin)}
		oc := d.run([]c18Cert{c}, ser, true, []multihash.DecodedMultihash{pin})
		if v.flavour == c18RsaPss || v.flavour == c18RsaKeyEcSig {
			// fixed corpus: the witnesses of the repaired RSA defect must be refused by a real Dial
			if oc == 1 {
				out.Cover("corpus.dial." + v.name + ".refused")
			} else {
				out.Cover("corpus.dial." + v.name + ".NOT_REFUSED")
			}
		}
		d.run([]c18Cert{c}, ser, true, []multihash.DecodedMultihash{hCur})
		d.run([]c18Cert{c}, origSer, true, []multihash.DecodedMultihash{pin})
		out.Cover("dial.server_presents." + v.name)
		// the same servers, dialed by transports built with WithTLSClientConfig (with and without a user
		// VerifyPeerCertificate that accepts everything): the pin and the validity rules must still decide
		for _, dc := range cfgDialers {
			dc.run([]c18Cert{c}, ser, true, []multihash.DecodedMultihash{pin})                                  // pinned and confirmed: only the validity rules stand in the way
			dc.run([]c18Cert{c}, origSer, true, []multihash.DecodedMultihash{hCur})                             // wrong hash: the address pins the listener's own certificate
			dc.run([]c18Cert{c}, append(append([][]byte{}, origSer...), enc(pin)), true, []multihash.DecodedMultihash{hCur, hBogus}) // wrong hash, second variant
			out.Cover(fmt.Sprintf("dial.cfg%d.server_presents.%s", dc.cfg, v.name))
		}
	}
	for _, dc := range cfgDialers {
		dc.run(nil, nil, false, []multihash.DecodedMultihash{hCur})
		dc.run(nil, nil, false, []multihash.DecodedMultihash{hCur, hNext})
		dc.run(nil, nil, false, []multihash.DecodedMultihash{hBogus})
		dc.run(nil, nil, false, []multihash.DecodedMultihash{hCur, hBogus})
		dc.run(nil, nil, false, []multihash.DecodedMultihash{hCur512})
	}
	// chain of two (outside the stated quantifier): the pinned certificate is not the one TLS authenticates
	{
		a := c18MakeCert(sg, c18Ecdsa, base0.Add(-day), base0.Add(day))
		b := c18Cert{raw: cur.tlsConf.Certificates[0].Leaf.Raw}
		d.run([]c18Cert{a, b}, origSer, true, []multihash.DecodedMultihash{hCur})
		out.Cover("dial.chain2_first_unpinned_last_pinned")
		// both pinned and confirmed, but the certificate that authenticates the session has expired
		e := c18MakeCert(sg, c18Ecdsa, base0.Add(-3*day), base0.Add(-day))
		pinE := c18Sha256MH(e.raw)
		d.run([]c18Cert{e, b}, append(append([][]byte{}, origSer...), enc(pinE)), true, []multihash.DecodedMultihash{pinE, hCur})
		out.Cover("dial.chain2_first_expired_both_pinned")
		// control: the same two certificates in TLS order [pinned current, extra] are fine
		d.run([]c18Cert{{raw: b.raw, priv: cur.tlsConf.Certificates[0].PrivateKey, leaf: cur.tlsConf.Certificates[0].Leaf}, a}, origSer, true, []multihash.DecodedMultihash{hCur})
		out.Cover("dial.chain2_first_pinned_last_unpinned")
	}
	// a second node with the same key, freshly started in the same period (= the first one after a
	// restart): lastConfig is nil.  An address learned in the previous period ([last, cur]) still pins the
	// served certificate; what the dial does is recorded (outside the property text, see the manifest)
	{
		cmB, err := quicreuse.NewConnManager(quic.StatelessResetKey{}, quic.TokenGeneratorKey{})
		if err != nil {
			t.Fatal(err)
		}
		defer cmB.Close()
		clB := clock.NewMock()
		clB.Set(realNow)
		trB, err := New(srvKey, nil, cmB, nil, &network.NullResourceManager{}, WithClock(clB))
		if err != nil {
			t.Fatal(err)
		}
		srvB := trB.(*transport)
		defer srvB.Close()
		lnB, err := srvB.Listen(ma.StringCast("/ip4/127.0.0.1/udp/0/quic-v1/webtransport"))
		if err != nil {
			t.Fatal(err)
		}
		defer lnB.Close()
		go func() {
			for {
				c, err := lnB.Accept()
				if err != nil {
					return
				}
				go func() { time.Sleep(200 * time.Millisecond); c.Close() }()
			}
		}()
		mB := srvB.certManager
		mB.mx.RLock()
		curB := mB.currentConfig
		serB := append([][]byte{}, mB.serializedCertHashes...)
		lastNil := mB.lastConfig == nil
		mB.mx.RUnlock()
		baseB := lnB.Multiaddr().String()
		if i := strings.Index(baseB, "/certhash/"); i >= 0 {
			baseB = baseB[:i]
		}
		if curB.sha256 != cur.sha256 || !lastNil {
			out.Cover("restart.fresh_node_differs_from_running_node")
		}
		dB := &c18Dialer{out: out, r: r, srvKey: srvKey, srvID: srvID, srv: srvB, cli: cli, base: baseB, mgr: mB, origCur: curB, origSer: serB}
		oc := dB.run(nil, nil, false, []multihash.DecodedMultihash{hLast, hCur})
		out.Cover(fmt.Sprintf("restart.dial_with_previous_period_address.outcome_%d", oc))
		oc = dB.run(nil, nil, false, []multihash.DecodedMultihash{hCur, hNext})
		out.Cover(fmt.Sprintf("restart.dial_with_current_period_address.outcome_%d", oc))
		oc = d.run(nil, nil, false, []multihash.DecodedMultihash{hLast, hCur})
		out.Cover(fmt.Sprintf("running.dial_with_previous_period_address.outcome_%d", oc))
	}
	// random combinations
	for i := 0; i < n; i++ {
		var hs []multihash.DecodedMultihash
		k := 1 + r.Intn(4)
		for j := 0; j < k; j++ {
			hs = append(hs, pool[r.Intn(len(pool))])
		}
		var ser [][]byte
		use := r.Chance(1, 2)
		if use {
			for _, h := range pool {
				if r.Chance(1, 2) {
					ser = append(ser, enc(h))
				}
			}
			if len(ser) > 0 && r.Chance(1, 3) {
				k := r.Intn(len(ser))
				ser = append(ser, ser[k]) // a repeated entry
				if r.Bool() {
					ser = append(ser, ser[k])
				}
			}
			if ser == nil {
				ser = [][]byte{}
			}
		}
		d.run(nil, ser, use, hs)
		out.Cover("dial.random")
	}
	time.Sleep(500 * time.Millisecond) // see c18Node.close
}


// ---- what a LISTENER serves: real handshakes on a timeline ---------------------------

// one real QUIC/TLS handshake against the listener; returns the leaf certificate it presented.
// The client verifies nothing (the mock clock's dates are not the wall clock's): it only looks.
func c18Handshake(ln interface{ Multiaddr() ma.Multiaddr }) *x509.Certificate {
	_, hostport, err := manet.DialArgs(ln.Multiaddr())
	if err != nil {
		panic(err)
	}
	var lastErr error
	for attempt := 0; attempt < 3; attempt++ {
		var leaf []byte
		conf := &tls.Config{
			InsecureSkipVerify: true,
			NextProtos:         []string{http3.NextProtoH3},
			VerifyPeerCertificate: func(raw [][]byte, _ [][]*x509.Certificate) error {
				if len(raw) > 0 {
					leaf = raw[0]
				}
				return nil
			},
		}
		ctx, cancel := context.WithTimeout(context.Background(), 5*time.Second)
		conn, err := quic.DialAddr(ctx, hostport, conf, &quic.Config{})
		cancel()
		if err == nil {
			conn.CloseWithError(0, "")
		}
		if leaf != nil {
			cert, err := x509.ParseCertificate(leaf)
			if err != nil {
				panic(err)
			}
			return cert
		}
		lastErr = err
	}
	panic(fmt.Sprintf("c18: no certificate presented by the listener: %v", lastErr))
}

type c18Node struct {
	cm *quicreuse.ConnManager
	tr *transport
	ln tpt.Listener
}

func c18StartNode(key ic.PrivKey, cl *clock.Mock) *c18Node {
	cm, err := quicreuse.NewConnManager(quic.StatelessResetKey{}, quic.TokenGeneratorKey{})
	if err != nil {
		panic(err)
	}
	trI, err := New(key, nil, cm, nil, &network.NullResourceManager{}, WithClock(cl))
	if err != nil {
		panic(err)
	}
	ln, err := trI.(*transport).Listen(ma.StringCast("/ip4/127.0.0.1/udp/0/quic-v1/webtransport"))
	if err != nil {
		panic(err)
	}
	go func() {
		for {
			c, err := ln.Accept()
			if err != nil {
				return
			}
			c.Close()
		}
	}()
	return &c18Node{cm, trI.(*transport), ln}
}

var c18Closing sync.WaitGroup

// Closing a listener while the connection of a just finished handshake is still being handed to
// webtransport-go's Server.ServeQUICConn panics there ("assignment to entry in nil map": a race between
// listener.Close and the accept loop, not part of C18).  Nodes are therefore closed a little later.
func (n *c18Node) close() {
	c18Closing.Add(1)
	go func() {
		defer c18Closing.Done()
		time.Sleep(1500 * time.Millisecond)
		if n.ln != nil {
			n.ln.Close()
		}
		n.tr.Close()
		n.cm.Close()
	}()
}

// SNAP of a node: last/current/next from its certManager, SERVED = the leaf presented in a real
// handshake, the early-data list, and the certhashes of the LISTENER's multiaddr
func c18NodeSnap(ids *c18Ids, cl *clock.Mock, n *c18Node) ([]int64, int64) {
	m := n.tr.certManager
	line := []int64{cl.Now().UnixNano()}
	m.mx.RLock()
	last, cur, next := m.lastConfig, m.currentConfig, m.nextConfig
	m.mx.RUnlock()
	line = append(line, c18Cfg(ids, last)...)
	line = append(line, c18Cfg(ids, cur)[1:]...)
	line = append(line, c18Cfg(ids, next)...)
	leaf := c18Handshake(n.ln)
	h := sha256.Sum256(leaf.Raw)
	srv := ids.id(h[:])
	line = append(line, leaf.NotBefore.UnixNano(), leaf.NotAfter.UnixNano(), srv)
	var ser []multihash.DecodedMultihash
	for _, b := range m.SerializedCertHashes() {
		dh, err := multihash.Decode(b)
		if err != nil {
			ser = append(ser, multihash.DecodedMultihash{Code: 0, Digest: b})
			continue
		}
		ser = append(ser, *dh)
	}
	line = append(line, c18Pairs(ids, ser)...)
	addr, err := extractCertHashes(n.ln.Multiaddr())
	if err != nil {
		addr = nil
	}
	line = append(line, c18Pairs(ids, addr)...)
	return line, srv
}

// move the mock clock by d without racing the manager's goroutine: stop at the instant its timer
// is due (as far as the harness can tell from the manager's state), wait until the rollover has been
// processed, then go on.  Only the stepping looks at the manager; the verdict never does.
func c18StepNode(cl *clock.Mock, n *c18Node, d time.Duration) {
	target := cl.Now().Add(d)
	m := n.tr.certManager
	for i := 0; i < 4; i++ {
		m.mx.RLock()
		before := m.currentConfig
		fireAt := before.End().Add(-clockSkewAllowance)
		m.mx.RUnlock()
		if fireAt.After(target) || fireAt.Before(cl.Now()) {
			break
		}
		cl.Set(fireAt)
		if m.ctx.Err() != nil {
			break // the manager has been closed: no rollover will come, nothing to wait for
		}
		for j := 0; j < 2000; j++ {
			m.mx.RLock()
			changed := m.currentConfig != before
			m.mx.RUnlock()
			if changed {
				break
			}
			time.Sleep(time.Millisecond)
		}
	}
	cl.Set(target)
	time.Sleep(2 * time.Millisecond)
}

// a timeline of a real listener that stays open across rollovers (kind 1: same format, same model,
// same monitor as the certManager timelines; the served certificate is what a handshake shows)
func c18ListenerTimeline(out *verifh.Out, r *verifh.Rand, maxOps int) {
	ids := newC18Ids()
	key, _, err := ic.GenerateEd25519Key(c18RandReader{r})
	if err != nil {
		panic(err)
	}
	raw, _ := key.GetPublic().Raw()
	b0, b1 := raw[0], raw[1]
	off := c18Offset(b0, b1)
	period := certValidity - 2*clockSkewAllowance
	deltas := []time.Duration{0, 1, -1, time.Millisecond, -time.Millisecond, time.Second,
		time.Duration(r.Uint64() % uint64(period)), time.Duration(r.Uint64() % uint64(period))}
	k := int64(1 + r.Intn(3000))
	t0 := int64(off) + k*int64(period) + int64(clockSkewAllowance) + int64(deltas[r.Intn(len(deltas))])
	for t0 > c18MaxT-20*int64(certValidity) {
		t0 -= 1000 * int64(period)
	}
	cl := clock.NewMock()
	cl.Set(time.Unix(0, t0))
	n := c18StartNode(key, cl)
	line := []int64{5, int64(b0), int64(b1), t0, 0}
	sn, srv := c18NodeSnap(ids, cl, n)
	line = append(line, sn...)
	rolls := 0
	nops := 2 + r.Intn(maxOps)
	for i := 0; i < nops; i++ {
		c := r.Intn(100)
		switch {
		case c < 85:
			m := n.tr.certManager
			m.mx.RLock()
			toFire := m.currentConfig.End().Add(-clockSkewAllowance).Sub(cl.Now())
			m.mx.RUnlock()
			var d time.Duration
			switch r.Intn(8) {
			case 0, 1:
				d = toFire
				out.Cover("listener.adv.exactly_timer_instant")
			case 2:
				d = toFire - 1
			case 3:
				d = toFire + deltas[r.Intn(6)]
			case 4, 5:
				d = period
			default:
				d = time.Duration(r.Uint64() % uint64(period+1))
			}
			if d < 0 {
				d = 0
			}
			if d > period {
				d = period
			}
			if cl.Now().UnixNano()+int64(d) > c18MaxT {
				d = 0
			}
			c18StepNode(cl, n, d)
			sn, s2 := c18NodeSnap(ids, cl, n)
			if s2 != srv {
				rolls++
				out.Cover("listener.rollover_seen_in_handshake")
			}
			srv = s2
			line = append(line, 1, int64(d))
			line = append(line, sn...)
			out.Cover(fmt.Sprintf("listener.handshake_after_%d_rollovers_of_an_open_listener", min(rolls, 4)))
		case c < 93:
			// a second node with the same key, started now (observed through a handshake, closed)
			n2 := c18StartNode(key, cl)
			sn, _ := c18NodeSnap(ids, cl, n2)
			n2.close()
			line = append(line, 3)
			line = append(line, sn...)
			out.Cover("listener.second_node")
		default:
			n.close()
			n = c18StartNode(key, cl)
			rolls = 0
			sn, s2 := c18NodeSnap(ids, cl, n)
			srv = s2
			line = append(line, 2)
			line = append(line, sn...)
			out.Cover("listener.restart")
		}
	}
	n.close()
	out.Cover("listener.timelines")
	out.Case(line)
}


// ---- transport lifecycle histories ---------------------------------------------------
//
// Operations on ONE real transport between the observations of a kind-5 timeline: Listens that fail
// (in the QUIC layer: UDP port in use, own port already served; before it: refused address), the
// observed listener closed and another Listen later (the certificate manager, created once per
// transport, runs on with no listener open, also across rollover points), a further listener on the
// same transport.  They are written into the case as lifecycle tokens `5 code dt` (dt = offset into
// the following advance); model and monitor skip them: the manager's state is a function of its start
// instant and the clock alone, which is exactly what conformance then checks at every observation,
// and the property's clauses are judged at every observation as in any other listener timeline.

const (
	c18LcBusyPort = 1 // Listen on a UDP port that is in use: fails in the QUIC layer
	c18LcBadAddr  = 2 // Listen on an address the transport refuses (no /webtransport, or with a /certhash)
	c18LcClose    = 3 // the observed listener is closed
	c18LcListen   = 4 // Listen succeeds; this listener is the one observed from now on
	c18LcExtra    = 5 // a further listener on the same transport; the next observation goes through it
	c18LcOwnPort  = 6 // Listen on the port its own open listener serves: fails in the QUIC layer
)

type c18Lc struct {
	code int64
	dt   time.Duration
}

func c18NewNode(key ic.PrivKey, cl *clock.Mock) *c18Node {
	cm, err := quicreuse.NewConnManager(quic.StatelessResetKey{}, quic.TokenGeneratorKey{})
	if err != nil {
		panic(err)
	}
	trI, err := New(key, nil, cm, nil, &network.NullResourceManager{}, WithClock(cl))
	if err != nil {
		panic(err)
	}
	return &c18Node{cm, trI.(*transport), nil}
}

func (n *c18Node) listen() tpt.Listener {
	ln, err := n.tr.Listen(ma.StringCast("/ip4/127.0.0.1/udp/0/quic-v1/webtransport"))
	if err != nil {
		panic(err)
	}
	c18Serve(ln)
	return ln
}

func c18Serve(ln tpt.Listener) {
	go func() {
		for {
			c, err := ln.Accept()
			if err != nil {
				return
			}
			c.Close()
		}
	}()
}

// see c18Node.close: a listener is closed only some time after the last handshake made against it
func c18CloseLater(ln tpt.Listener) {
	c18Closing.Add(1)
	go func() {
		defer c18Closing.Done()
		time.Sleep(1500 * time.Millisecond)
		ln.Close()
	}()
}

// a Listen that is expected to fail; reports whether it did (if not, the listener is disposed of)
func (n *c18Node) listenMustFail(out *verifh.Out, addr string, what string) bool {
	ln, err := n.tr.Listen(ma.StringCast(addr))
	if err == nil {
		c18Serve(ln)
		c18CloseLater(ln)
		out.Cover("lifecycle.NOT_AS_EXPECTED." + what + "_listen_succeeded")
		return false
	}
	return true
}

// one lifecycle operation; reports whether it went as its code says
func (n *c18Node) lifecycle(out *verifh.Out, code int64, variant int) bool {
	switch code {
	case c18LcBusyPort:
		busy, err := net.ListenPacket("udp4", "127.0.0.1:0")
		if err != nil {
			return false
		}
		defer busy.Close()
		port := busy.LocalAddr().(*net.UDPAddr).Port
		return n.listenMustFail(out, fmt.Sprintf("/ip4/127.0.0.1/udp/%d/quic-v1/webtransport", port), "busy_port")
	case c18LcOwnPort:
		if n.ln == nil {
			return false
		}
		port := n.ln.Addr().(*net.UDPAddr).Port
		return n.listenMustFail(out, fmt.Sprintf("/ip4/127.0.0.1/udp/%d/quic-v1/webtransport", port), "own_port")
	case c18LcBadAddr:
		if variant%2 == 0 {
			return n.listenMustFail(out, "/ip4/127.0.0.1/udp/0/quic-v1", "non_webtransport_addr")
		}
		d := sha256.Sum256([]byte("c18 lifecycle"))
		return n.listenMustFail(out, "/ip4/127.0.0.1/udp/0/quic-v1/webtransport"+c18CerthashComp(multihash.SHA2_256, d[:]), "certhash_addr")
	case c18LcClose:
		if n.ln == nil {
			return false
		}
		time.Sleep(1500 * time.Millisecond) // see c18Node.close
		n.ln.Close()
		n.ln = nil
		return true
	case c18LcListen:
		if n.ln != nil {
			return false
		}
		n.ln = n.listen()
		return true
	}
	return false
}

type c18LcRun struct {
	out  *verifh.Out
	ids  *c18Ids
	key  ic.PrivKey
	cl   *clock.Mock
	n    *c18Node
	line []int64
	nops int
}

// one event of a lifecycle history: kind 0 = first observation, 1 = advance by d, 2 = a new transport
// (the old one closed), 3 = a second transport with the same key (observed, closed); [ops] are the
// lifecycle operations on the transport that the event observes, executed before the observation
// (kind 1: at their offsets into the advance).  Returns the id of the served certificate.
func (x *c18LcRun) event(kind int64, d time.Duration, ops []c18Lc) int64 {
	node := x.n
	switch kind {
	case 2:
		x.n.close()
		x.n = c18NewNode(x.key, x.cl)
		node = x.n
	case 3:
		node = c18NewNode(x.key, x.cl)
	}
	cur := time.Duration(0)
	var extra tpt.Listener
	for _, op := range ops {
		if kind == 1 && op.dt > cur && op.dt <= d {
			c18StepNode(x.cl, node, op.dt-cur)
			cur = op.dt
		}
		ok := true
		if op.code == c18LcExtra {
			if extra != nil {
				continue
			}
			extra = node.listen()
		} else {
			ok = node.lifecycle(x.out, op.code, x.nops)
		}
		x.nops++
		if ok {
			x.line = append(x.line, 5, op.code, int64(cur))
			x.out.Cover(fmt.Sprintf("lifecycle.op_%d", op.code))
		}
	}
	if kind == 1 {
		c18StepNode(x.cl, node, d-cur)
	}
	if node.ln == nil {
		node.ln = node.listen()
	}
	obs := node
	if extra != nil {
		obs = &c18Node{node.cm, node.tr, extra}
	}
	sn, srv := c18NodeSnap(x.ids, x.cl, obs)
	x.line = append(x.line, kind)
	if kind == 1 {
		x.line = append(x.line, int64(d))
	}
	x.line = append(x.line, sn...)
	if extra != nil {
		c18CloseLater(extra)
	}
	if kind == 3 {
		node.close()
	}
	return srv
}

func c18LcFails(ops []c18Lc) bool {
	for _, o := range ops {
		if o.code == c18LcBusyPort || o.code == c18LcOwnPort {
			return true
		}
	}
	return false
}

// Listens that fail, all at one instant (before the first successful Listen of a transport)
func c18LcFailing(r *verifh.Rand, own bool) []c18Lc {
	switch r.Intn(6) {
	case 0:
		return nil
	case 1, 2:
		return []c18Lc{{c18LcBusyPort, 0}}
	case 3:
		return []c18Lc{{c18LcBadAddr, 0}, {c18LcBusyPort, 0}}
	case 4:
		return []c18Lc{{c18LcBusyPort, 0}, {c18LcBusyPort, 0}}
	}
	return []c18Lc{{c18LcBadAddr, 0}}
}

func c18LifecycleTimeline(out *verifh.Out, r *verifh.Rand, maxOps int) []int64 {
	key, _, err := ic.GenerateEd25519Key(c18RandReader{r})
	if err != nil {
		panic(err)
	}
	raw, _ := key.GetPublic().Raw()
	b0, b1 := raw[0], raw[1]
	off := c18Offset(b0, b1)
	period := certValidity - 2*clockSkewAllowance
	deltas := []time.Duration{0, 1, -1, time.Millisecond, -time.Millisecond, time.Second,
		time.Duration(r.Uint64() % uint64(period)), time.Duration(r.Uint64() % uint64(period))}
	k := int64(1 + r.Intn(3000))
	t0 := int64(off) + k*int64(period) + int64(clockSkewAllowance) + int64(deltas[r.Intn(len(deltas))])
	for t0 > c18MaxT-20*int64(certValidity) {
		t0 -= 1000 * int64(period)
	}
	cl := clock.NewMock()
	cl.Set(time.Unix(0, t0))
	x := &c18LcRun{out: out, ids: newC18Ids(), key: key, cl: cl, line: []int64{5, int64(b0), int64(b1), t0}}
	x.n = c18NewNode(key, cl)
	pre := c18LcFailing(r, false)
	srv := x.event(0, 0, pre)
	// shadow state: a Listen failed in the QUIC layer and no rollover has been observed since
	failedPending := c18LcFails(pre)
	rolls := 0
	nops := 2 + r.Intn(maxOps)
	for i := 0; i < nops; i++ {
		c := r.Intn(100)
		last := i == nops-1
		switch {
		case c < 84 || (last && failedPending):
			m := x.n.tr.certManager
			m.mx.RLock()
			toFire := m.currentConfig.End().Add(-clockSkewAllowance).Sub(cl.Now())
			m.mx.RUnlock()
			var d time.Duration
			switch r.Intn(8) {
			case 0, 1:
				d = toFire
			case 2:
				d = toFire - 1
			case 3:
				d = toFire + deltas[r.Intn(6)]
			case 4, 5:
				d = period
			default:
				d = time.Duration(r.Uint64() % uint64(period+1))
			}
			if last && failedPending {
				d = period // exactly one rollover point lies in (now, now+period]
			}
			if d < 0 {
				d = 0
			}
			if d > period {
				d = period
			}
			if cl.Now().UnixNano()+int64(d) > c18MaxT {
				d = 0
			}
			// an offset into the advance: its ends, around the rollover instant, anywhere
			pt := func() time.Duration {
				var v time.Duration
				switch r.Intn(6) {
				case 0:
					v = 0
				case 1:
					v = d
				case 2:
					v = toFire - 1
				case 3:
					v = toFire
				case 4:
					v = toFire + 1
				default:
					v = time.Duration(r.Uint64() % uint64(d+1))
				}
				if v < 0 {
					v = 0
				}
				if v > d {
					v = d
				}
				return v
			}
			var ops []c18Lc
			if !(last && failedPending) {
				switch r.Intn(12) {
				case 0, 1:
				case 2, 3:
					ops = []c18Lc{{c18LcBusyPort, pt()}}
				case 4, 5:
					ops = []c18Lc{{c18LcClose, pt()}, {c18LcListen, pt()}}
				case 6:
					ops = []c18Lc{{c18LcClose, pt()}, {c18LcBusyPort, pt()}, {c18LcListen, pt()}}
				case 7:
					ops = []c18Lc{{c18LcBadAddr, pt()}}
				case 8:
					ops = []c18Lc{{c18LcOwnPort, pt()}}
				case 9:
					ops = []c18Lc{{c18LcBusyPort, pt()}, {c18LcOwnPort, pt()}}
				case 10:
					ops = []c18Lc{{c18LcExtra, pt()}}
				default:
					ops = []c18Lc{{c18LcClose, 0}, {c18LcListen, d}} // no listener open during the whole advance
				}
				// offsets ascending, the order of the operations kept
				dts := make([]time.Duration, len(ops))
				for j := range ops {
					dts[j] = ops[j].dt
				}
				sort.Slice(dts, func(a, b int) bool { return dts[a] < dts[b] })
				for j := range ops {
					ops[j].dt = dts[j]
				}
			}
			s2 := x.event(1, d, ops)
			if s2 != srv {
				rolls++
				out.Cover("lifecycle.rollover_seen_in_handshake")
				if failedPending {
					out.Cover("lifecycle.rollover_seen_after_a_listen_that_failed_in_the_quic_layer")
				}
				failedPending = false
				for j := range ops {
					if ops[j].code == c18LcClose && j+1 < len(ops) && ops[j].dt < toFire && toFire <= ops[len(ops)-1].dt {
						out.Cover("lifecycle.rollover_point_passed_with_no_listener_open")
					}
				}
			}
			srv = s2
			if c18LcFails(ops) {
				failedPending = true
			}
			out.Cover(fmt.Sprintf("lifecycle.handshake_after_%d_rollovers_of_one_transport", min(rolls, 4)))
		case c < 92:
			x.event(3, 0, c18LcFailing(r, false))
			out.Cover("lifecycle.second_transport")
		default:
			ops := c18LcFailing(r, false)
			srv = x.event(2, 0, ops)
			failedPending = c18LcFails(ops)
			rolls = 0
			out.Cover("lifecycle.new_transport")
		}
	}
	x.n.close()
	out.Cover("lifecycle.timelines")
	return x.line
}

// lifecycle histories run side by side (each has its own transport, clock and key; what costs time is
// waiting before a listener may be closed); the cases are written in the order of their index
func c18LifecycleTimelines(out *verifh.Out, r *verifh.Rand, n int, maxOps int) {
	lines := make([][]int64, n)
	rs := make([]*verifh.Rand, n)
	for i := range rs {
		rs[i] = r.Fork()
	}
	var wg sync.WaitGroup
	sem := make(chan struct{}, 8)
	for i := 0; i < n; i++ {
		wg.Add(1)
		go func(i int) {
			defer wg.Done()
			sem <- struct{}{}
			defer func() { <-sem }()
			lines[i] = c18LifecycleTimeline(out, rs[i], maxOps)
		}(i)
	}
	wg.Wait()
	for _, l := range lines {
		out.Case(l)
	}
}

// a listener that has been up across TWO rollovers (started two buckets in the past on the mock clock,
// so that the certificate served now is valid on the wall clock): dials with the addresses its multiaddr
// carried in the previous and in the current period must complete; the one from two periods ago must not
func c18GenuineAfterRollovers(t *testing.T, out *verifh.Out, r *verifh.Rand, rolls int) {
	key, _, _ := ic.GenerateEd25519Key(c18RandReader{r})
	id, _ := peer.IDFromPrivateKey(key)
	period := certValidity - 2*clockSkewAllowance
	realNow := time.Now()
	cl := clock.NewMock()
	cl.Set(realNow.Add(-time.Duration(rolls) * period))
	n := c18StartNode(key, cl)
	defer n.close()
	var addrs [][]multihash.DecodedMultihash
	read := func() {
		a, err := extractCertHashes(n.ln.Multiaddr())
		if err != nil {
			t.Fatal(err)
		}
		addrs = append(addrs, a)
	}
	read()
	for i := 1; i <= rolls; i++ {
		c18StepNode(cl, n, period)
		read()
	}
	cl.Set(realNow)
	m := n.tr.certManager
	m.mx.RLock()
	cur := m.currentConfig
	ser := append([][]byte{}, m.serializedCertHashes...)
	m.mx.RUnlock()
	if string(addrs[rolls][0].Digest) != string(cur.sha256[:]) || len(ser) != 3 {
		out.Cover("genuine.unexpected_listener_state_after_rollovers")
	}
	k2, _, _ := ic.GenerateEd25519Key(c18RandReader{r})
	cm2, err := quicreuse.NewConnManager(quic.StatelessResetKey{}, quic.TokenGeneratorKey{})
	if err != nil {
		t.Fatal(err)
	}
	defer cm2.Close()
	cliI, err := New(k2, nil, cm2, nil, &network.NullResourceManager{})
	if err != nil {
		t.Fatal(err)
	}
	defer cliI.(*transport).Close()
	base := n.ln.Multiaddr().String()
	if i := strings.Index(base, "/certhash/"); i >= 0 {
		base = base[:i]
	}
	d := &c18Dialer{out: out, r: r, srvKey: key, srvID: id, srv: n.tr, cli: cliI.(*transport), base: base, mgr: m, origCur: cur, origSer: ser}
	oc := d.runGenuine(addrs[rolls-1])
	out.Cover(fmt.Sprintf("genuine.after_%d_rollovers.address_of_previous_period.outcome_%d", rolls, oc))
	oc = d.runGenuine(addrs[rolls])
	out.Cover(fmt.Sprintf("genuine.after_%d_rollovers.address_of_current_period.outcome_%d", rolls, oc))
	if rolls >= 2 {
		oc = d.run(nil, nil, false, addrs[rolls-2])
		out.Cover(fmt.Sprintf("dial.after_%d_rollovers.address_of_two_periods_ago.outcome_%d", rolls, oc))
	}
	time.Sleep(300 * time.Millisecond)
}

// ---- entry points ------------------------------------------------------------------

func TestVerifNothing(t *testing.T) {}

func TestVerifC18(t *testing.T) {
	out, err := verifh.Open()
	if err != nil {
		t.Skip(err)
	}
	defer out.Close()
	r := verifh.NewRand(verifh.Seed())
	thorough := verifh.Tier() == "thorough"
	nTimelines, nOut, nVerify, nDial := 1000, 100, 2000, 80
	if thorough {
		nTimelines, nOut, nVerify, nDial = 50000, 3000, 60000, 2000
	}
	sg := newC18Signers()

	synctest.Test(t, func(t *testing.T) {
		for i := 0; i < nTimelines; i++ {
			c18Timeline(out, r.Fork(), true, 28)
		}
		for i := 0; i < nOut; i++ {
			c18Timeline(out, r.Fork(), false, 8)
		}
	})

	synctest.Test(t, func(t *testing.T) {
		// the full table once: flavour x window x hash variant with a chain of one
		rr := r.Fork()
		ws := c18Windows(rr)
		// fixed corpus: the witnesses of the repaired RSA defect (pinned, currently valid) must be refused as RSA
		for _, cp := range []struct {
			f    int
			name string
		}{{c18RsaPss, "rsa_key_rsa_pss_sig"}, {c18RsaKeyEcSig, "rsa_key_ecdsa_issuer"}} {
			if c18VerifyCase(out, rr, sg, cp.f, ws[0], 0, 1, 0) == 4 {
				out.Cover("corpus.verify." + cp.name + ".refused")
			} else {
				out.Cover("corpus.verify." + cp.name + ".NOT_REFUSED")
			}
		}
		for f := 0; f < c18Flavours; f++ {
			for _, w := range ws {
				c18VerifyCase(out, rr, sg, f, w, 0, 1, 0)
			}
			for hv := 1; hv < c18HashVariants; hv++ {
				c18VerifyCase(out, rr, sg, f, ws[0], hv, 1, 0)
			}
		}
		for hv := 0; hv < c18HashVariants; hv++ {
			c18VerifyCase(out, rr, sg, c18Ecdsa, ws[0], hv, 0, 0)
			c18VerifyCase(out, rr, sg, c18Ecdsa, ws[0], hv, 2, 0)
			c18VerifyCase(out, rr, sg, c18Ecdsa, ws[0], hv, 3, 0)
		}
		for i := 0; i < nVerify; i++ {
			ws := c18Windows(rr)
			chainLen := 1
			switch rr.Intn(10) {
			case 0:
				chainLen = 0
			case 1:
				chainLen = 2
			case 2:
				chainLen = 3
			}
			hv := 0
			if rr.Chance(1, 3) {
				hv = rr.Intn(c18HashVariants)
			}
			var sub time.Duration
			if rr.Chance(1, 3) {
				sub = time.Duration(1 + rr.Intn(999999999))
			}
			c18VerifyCase(out, rr, sg, rr.Intn(c18Flavours), ws[rr.Intn(len(ws))], hv, chainLen, sub)
		}
	})

	c18Dials(t, out, r.Fork(), sg, nDial)
	c18GenuineAfterRollovers(t, out, r.Fork(), 2)
	c18GenuineAfterRollovers(t, out, r.Fork(), 3)

	nListener := 60
	if thorough {
		nListener = 1200
	}
	for i := 0; i < nListener; i++ {
		c18ListenerTimeline(out, r.Fork(), 7)
	}
	nLife := 32
	if thorough {
		nLife = 600
	}
	c18LifecycleTimelines(out, r.Fork(), nLife, 6)
	c18Closing.Wait()
}

// only the transport lifecycle histories (development aid; TestVerifC18 runs them too)
func TestVerifC18Lifecycle(t *testing.T) {
	out, err := verifh.Open()
	if err != nil {
		t.Skip(err)
	}
	defer out.Close()
	c18LifecycleTimelines(out, verifh.NewRand(verifh.Seed()), 32, 6)
	c18Closing.Wait()
}

// re-execute a recorded timeline (kinds 1 and 4) on the implementation now in
// /repo; other kinds are echoed (their inputs are certificates, not replayable
// from ids alone)
func TestVerifC18Replay(t *testing.T) {
	out, err := verifh.Open()
	if err != nil {
		t.Skip(err)
	}
	defer out.Close()
	c := verifh.ReplayCase()
	if len(c) >= 3 && c[0] == 2 {
		c18ReplayVerify(t, out, c)
		return
	}
	if len(c) >= 5 && c[0] == 5 {
		c18ReplayListener(out, c)
		return
	}
	if len(c) < 5 || (c[0] != 1 && c[0] != 4) {
		fmt.Fprintln(os.Stderr, "c18 replay: dial cases are not re-executed")
		return
	}
	synctest.Test(t, func(t *testing.T) {
		ids := newC18Ids()
		k, _, _ := ic.GenerateEd25519Key(rand.Reader)
		key := c18StubKey{k, byte(c[1]), byte(c[2])}
		cl := clock.NewMock()
		cl.Set(time.Unix(0, c[3]))
		m, err := newCertManager(key, cl)
		if err != nil {
			t.Fatal(err)
		}
		synctest.Wait()
		line := []int64{c[0], c[1], c[2], c[3], 0}
		sn, _ := c18Snap(ids, cl, m)
		line = append(line, sn...)
		// skip over a SNAP in the recorded case
		skipSnap := func(i int) int {
			i += 15
			i += 1 + 2*int(c[i])
			i += 1 + 2*int(c[i])
			return i
		}
		i := skipSnap(5)
		for i < len(c) {
			switch c[i] {
			case 1:
				cl.Add(time.Duration(c[i+1]))
				synctest.Wait()
				sn, _ := c18Snap(ids, cl, m)
				line = append(line, 1, c[i+1])
				line = append(line, sn...)
				i = skipSnap(i + 2)
			case 2:
				m.Close()
				m, _ = newCertManager(key, cl)
				synctest.Wait()
				sn, _ := c18Snap(ids, cl, m)
				line = append(line, 2)
				line = append(line, sn...)
				i = skipSnap(i + 1)
			case 3:
				m2, _ := newCertManager(key, cl)
				synctest.Wait()
				sn, _ := c18Snap(ids, cl, m2)
				m2.Close()
				line = append(line, 3)
				line = append(line, sn...)
				i = skipSnap(i + 1)
			case 4:
				cert, _, err := generateCert(key, time.Unix(0, c[i+1]), time.Unix(0, c[i+2]))
				if err != nil {
					t.Fatal(err)
				}
				h := sha256.Sum256(cert.Raw)
				line = append(line, 4, c[i+1], c[i+2], ids.id(h[:]))
				i += 4
			default:
				t.Fatalf("bad op %d at %d", c[i], i)
			}
		}
		m.Close()
		synctest.Wait()
		out.Case(line)
	})
}

// re-execute a recorded verifier case: certificates are rebuilt from their
// descriptors (algorithm class, validity relative to now), hash-list entries
// that carried a certificate's id get that certificate's SHA-256 again
func c18ReplayVerify(t *testing.T, out *verifh.Out, c []int64) {
	sg := newC18Signers()
	synctest.Test(t, func(t *testing.T) {
		ids := newC18Ids()
		n := int(c[1])
		if len(c) < 2+6*n+2 {
			t.Fatal("short case")
		}
		sub := int64(0)
		if n > 0 && c[3] == 1 {
			sub = ((-c[6])%1e9 + 1e9) % 1e9
		}
		c18AlignSecond()
		if sub > 0 {
			time.Sleep(time.Duration(sub))
		}
		now := time.Now()
		var chain []c18Cert
		byID := map[int64]c18Cert{}
		for i := 0; i < n; i++ {
			d := c[2+6*i : 8+6*i]
			flavour := c18Garbage
			switch {
			case d[1] == 0:
			case d[2] == 0 && d[3] == 0:
				flavour = c18Ecdsa
			case d[2] == 1 && d[3] == 1:
				flavour = c18RsaPkcs1
			case d[2] == 1 && d[3] == 2:
				flavour = c18RsaPss
			case d[2] == 1 && d[3] == 0:
				flavour = c18RsaKeyEcSig
			case d[2] == 0 && d[3] == 1:
				flavour = c18EcKeyRsaSig
			case d[2] == 0 && d[3] == 3:
				flavour = c18Ed25519
			}
			crt := c18MakeCert(sg, flavour, now.Add(time.Duration(d[4])), now.Add(time.Duration(d[5])))
			chain = append(chain, crt)
			byID[d[0]] = crt
		}
		// ids in order of first appearance, as in the recorded case
		for i := 0; i < n; i++ {
			h := sha256.Sum256(chain[i].raw)
			ids.id(h[:])
		}
		i := 2 + 6*n
		k := int(c[i])
		var hashes []multihash.DecodedMultihash
		for j := 0; j < k; j++ {
			code, id := uint64(c[i+1+2*j]), c[i+2+2*j]
			var dg []byte
			if crt, ok := byID[id]; ok {
				h := sha256.Sum256(crt.raw)
				dg = h[:]
			} else {
				h := sha256.Sum256([]byte(fmt.Sprintf("c18 replay digest %d", id)))
				dg = h[:]
			}
			hashes = append(hashes, multihash.DecodedMultihash{Code: code, Length: len(dg), Digest: dg})
		}
		raws := make([][]byte, len(chain))
		for j, crt := range chain {
			raws[j] = crt.raw
		}
		res := c18ErrClass(verifyRawCerts(raws, hashes))
		line := []int64{2, int64(n)}
		for _, crt := range chain {
			line = append(line, c18Describe(ids, crt, now)...)
		}
		line = append(line, c18Pairs(ids, hashes)...)
		line = append(line, res)
		out.Case(line)
	})
}

// re-execute a recorded listener timeline (kind 5) with a key that has the same two leading public-key bytes
func c18ReplayListener(out *verifh.Out, c []int64) {
	var key ic.PrivKey
	for {
		k, _, err := ic.GenerateEd25519Key(rand.Reader)
		if err != nil {
			panic(err)
		}
		raw, _ := k.GetPublic().Raw()
		if int64(raw[0]) == c[1] && int64(raw[1]) == c[2] {
			key = k
			break
		}
	}
	cl := clock.NewMock()
	cl.Set(time.Unix(0, c[3]))
	x := &c18LcRun{out: out, ids: newC18Ids(), key: key, cl: cl, line: []int64{5, c[1], c[2], c[3]}}
	x.n = c18NewNode(key, cl)
	skipSnap := func(i int) int {
		i += 15
		i += 1 + 2*int(c[i])
		i += 1 + 2*int(c[i])
		return i
	}
	var pend []c18Lc // lifecycle operations on the transport the next event observes
	i := 4
	for i < len(c) {
		switch c[i] {
		case 5:
			pend = append(pend, c18Lc{c[i+1], time.Duration(c[i+2])})
			i += 3
		case 0:
			x.event(0, 0, pend)
			pend = nil
			i = skipSnap(i + 1)
		case 1:
			x.event(1, time.Duration(c[i+1]), pend)
			pend = nil
			i = skipSnap(i + 2)
		case 2, 3:
			x.event(c[i], 0, pend)
			pend = nil
			i = skipSnap(i + 1)
		default:
			panic(fmt.Sprintf("bad op %d at %d", c[i], i))
		}
	}
	x.n.close()
	c18Closing.Wait()
	out.Case(x.line)
}

var _ = io.EOF

//go:build verif

package pstoremem

// C09 harness access (injected with `go test -overlay`; never part of /repo):
// lets an out-of-package harness run the in-memory book's garbage collector
// at a chosen instant and read the sizes of its internal tables.

// VerifGC runs one garbage collection pass (what the background ticker does).
func (mab *memoryAddrBook) VerifGC() { mab.gc() }

// VerifSizes returns (#stored address entries, #entries in the expiry heap,
// #stored signed peer records, #peers with a stored entry).
func (mab *memoryAddrBook) VerifSizes() (stored, heap, recs, peers int) {
	mab.mu.RLock()
	defer mab.mu.RUnlock()
	for _, m := range mab.addrs.Addrs {
		stored += len(m)
	}
	return stored, len(mab.addrs.expiringHeap), len(mab.signedPeerRecords), len(mab.addrs.Addrs)
}

//go:build verif

package pstoremem

import (
	"time"

	"github.com/libp2p/go-libp2p/core/peer"
)

// C13 harness access (injected with `go test -overlay`; never part of /repo):
// the TTL every unexpired stored address of a peer currently carries, keyed by
// the address bytes.  Read-only.
func (mab *memoryAddrBook) VerifC13TTLs(p peer.ID) map[string]time.Duration {
	mab.mu.RLock()
	defer mab.mu.RUnlock()
	now := mab.clock.Now()
	res := map[string]time.Duration{}
	for k, a := range mab.addrs.Addrs[p] {
		if !a.ExpiredBy(now) {
			res[k] = a.TTL
		}
	}
	return res
}

//go:build verif

package handshake_test

// C19 end-to-end executor: the same requests the handshake-level harness builds
// are sent over HTTP (httptest) to the real ServerPeerIDAuth; what the Next
// callback was given, the status and the response header come back.  External
// test package: it may import p2p/http/auth (which imports the package under test).

import (
	"crypto/tls"
	"fmt"
	"io"
	"net"
	"net/http"
	"net/http/httptest"
	"net/url"
	"sync"
	"time"

	"github.com/libp2p/go-libp2p/core/crypto"
	"github.com/libp2p/go-libp2p/core/peer"
	httppeeridauth "github.com/libp2p/go-libp2p/p2p/http/auth"
	"github.com/libp2p/go-libp2p/p2p/http/auth/internal/handshake"
)

type e2eInst struct {
	auth    *httppeeridauth.ServerPeerIDAuth
	ts      *httptest.Server
	client  *http.Client
	mu      sync.Mutex
	called  bool
	pid     peer.ID
	seenHdr string
	seenTLS bool
	seenSNI string
	allowed map[string]bool
}

var e2eInsts = map[string]*e2eInst{}

func e2eGet(key crypto.PrivKey, keyNo uint64, inst string, mac []byte, ttl time.Duration, tr handshake.VerifTransport) *e2eInst {
	id := fmt.Sprintf("%d/%s/%x/%d/%v/%v/%v", keyNo, inst, mac, ttl, tr.NoTLS, tr.HasFn, tr.HasTLS)
	if in, ok := e2eInsts[id]; ok {
		return in
	}
	in := &e2eInst{allowed: map[string]bool{}}
	in.auth = &httppeeridauth.ServerPeerIDAuth{
		PrivKey:  key,
		TokenTTL: ttl,
		NoTLS:    tr.NoTLS,
		Next: func(p peer.ID, w http.ResponseWriter, r *http.Request) {
			in.called, in.pid = true, p
			w.WriteHeader(http.StatusOK)
		},
	}
	if mac != nil {
		in.auth.HmacKey = append([]byte{}, mac...)
	} // else: the default, a secret the instance draws for itself
	if tr.HasFn {
		in.auth.ValidHostnameFn = func(h string) bool { return in.allowed[h] }
	}
	h := http.HandlerFunc(func(w http.ResponseWriter, r *http.Request) {
		in.seenHdr = r.Header.Get("Authorization")
		in.seenTLS = r.TLS != nil
		in.seenSNI = ""
		if r.TLS != nil {
			in.seenSNI = r.TLS.ServerName
		}
		in.auth.ServeHTTP(w, r)
	})
	if tr.HasTLS {
		in.ts = httptest.NewTLSServer(h)
	} else {
		in.ts = httptest.NewServer(h)
	}
	in.client = in.ts.Client()
	e2eInsts[id] = in
	return in
}

func init() {
	handshake.VerifE2EServer = func(key crypto.PrivKey, keyNo uint64, inst string, mac []byte, ttl time.Duration,
		tr handshake.VerifTransport, host, sni, hdr string) (res handshake.VerifE2EResult) {
		in := e2eGet(key, keyNo, inst, mac, ttl, tr)
		in.mu.Lock()
		defer in.mu.Unlock()
		in.called, in.pid, in.seenHdr = false, "", ""
		in.allowed = map[string]bool{}
		if tr.FnOK {
			// the operator lists the name with and without the port
			in.allowed[host] = true
			if h, _, err := net.SplitHostPort(host); err == nil {
				in.allowed[h] = true
			}
		}
		if t, ok := in.client.Transport.(*http.Transport); ok && tr.HasTLS {
			t.TLSClientConfig.ServerName = sni
			t.TLSClientConfig.InsecureSkipVerify = true
			t.CloseIdleConnections() // the SNI is per connection
		}
		req, err := http.NewRequest("GET", in.ts.URL, nil)
		if err != nil {
			res.Err = err
			return
		}
		req.Host = host
		if hdr != "" {
			req.Header.Set("Authorization", hdr)
		}
		resp, err := in.client.Do(req)
		if err != nil {
			res.Err = err
			return
		}
		io.Copy(io.Discard, resp.Body)
		resp.Body.Close()
		res.Status = resp.StatusCode
		res.Called, res.Pid = in.called, in.pid
		res.SeenHdr = in.seenHdr
		res.InstKey = in.auth.HmacKey
		res.SeenTLS, res.SeenSNI = in.seenTLS, in.seenSNI
		for _, n := range []string{"WWW-Authenticate", "Authentication-Info"} {
			if v := resp.Header.Get(n); v != "" {
				res.RespHdr = v
			}
		}
		return
	}
	handshake.VerifE2EClose = func() {
		for _, in := range e2eInsts {
			in.ts.Close()
		}
	}
	_ = tls.VersionTLS13
}

// ---- the real ClientPeerIDAuth against a scripted server ------------------------------------
func init() {
	handshake.VerifE2EClient = func(priv crypto.PrivKey, host string,
		respond func(reqHdr string) (status int, www, info string)) (pid peer.ID, err error) {
		ts := httptest.NewServer(http.HandlerFunc(func(w http.ResponseWriter, r *http.Request) {
			status, www, info := respond(r.Header.Get("Authorization"))
			if www != "" {
				w.Header().Set("WWW-Authenticate", www)
			}
			if info != "" {
				w.Header().Set("Authentication-Info", info)
			}
			w.WriteHeader(status)
		}))
		defer ts.Close()
		auth := httppeeridauth.ClientPeerIDAuth{PrivKey: priv}
		req, err := http.NewRequest("GET", ts.URL, nil)
		if err != nil {
			return "", err
		}
		req.Host = host
		p, resp, err := auth.AuthenticatedDo(ts.Client(), req)
		if resp != nil && resp.Body != nil {
			io.Copy(io.Discard, resp.Body)
			resp.Body.Close()
		}
		return p, err
	}
}

// ---- the real ClientPeerIDAuth against the real ServerPeerIDAuth ------------------------------
func init() {
	handshake.VerifE2EPair = func(serverKey crypto.PrivKey, mac []byte, ttl time.Duration, clientKey crypto.PrivKey,
		host string, phases int, before func(phase int, reqHdr string), after func(rec handshake.VerifE2ERecord)) (ids []peer.ID, errs []error) {
		var called bool
		var pid peer.ID
		auth := &httppeeridauth.ServerPeerIDAuth{
			PrivKey: serverKey, TokenTTL: ttl, NoTLS: true, HmacKey: append([]byte{}, mac...),
			ValidHostnameFn: func(h string) bool { return h == host },
			Next: func(p peer.ID, w http.ResponseWriter, r *http.Request) {
				called, pid = true, p
				w.WriteHeader(http.StatusOK)
			},
		}
		phase := 0
		ts := httptest.NewServer(http.HandlerFunc(func(w http.ResponseWriter, r *http.Request) {
			hdr := r.Header.Get("Authorization")
			before(phase, hdr)
			called, pid = false, ""
			rec := httptest.NewRecorder()
			auth.ServeHTTP(rec, r)
			for k, v := range rec.Header() {
				w.Header()[k] = v
			}
			w.WriteHeader(rec.Code)
			resp := ""
			for _, n := range []string{"WWW-Authenticate", "Authentication-Info"} {
				if v := rec.Header().Get(n); v != "" {
					resp = v
				}
			}
			after(handshake.VerifE2ERecord{ReqHdr: hdr, Status: rec.Code, Called: called, Pid: pid, RespHdr: resp})
		}))
		defer ts.Close()
		client := httppeeridauth.ClientPeerIDAuth{PrivKey: clientKey}
		for phase = 0; phase < phases; phase++ {
			before(phase, "")
			req, err := http.NewRequest("GET", ts.URL, nil)
			if err != nil {
				errs = append(errs, err)
				continue
			}
			req.Host = host
			req.GetBody = func() (io.ReadCloser, error) { return http.NoBody, nil }
			p, resp, err := client.AuthenticatedDo(ts.Client(), req)
			if resp != nil && resp.Body != nil {
				io.Copy(io.Discard, resp.Body)
				resp.Body.Close()
			}
			ids = append(ids, p)
			errs = append(errs, err)
		}
		return
	}
}

// ---- a history of AuthenticatedDo calls on ONE ClientPeerIDAuth (token cache) ---------------
func init() {
	handshake.VerifE2EClientSession = func(priv crypto.PrivKey, host string, ncalls int,
		beforeCall func(call int), respond func(call int, reqHdr string) (status int, www, info string)) (ids []peer.ID, errs []error) {
		call := 0
		ts := httptest.NewServer(http.HandlerFunc(func(w http.ResponseWriter, r *http.Request) {
			status, www, info := respond(call, r.Header.Get("Authorization"))
			if www != "" {
				w.Header().Set("WWW-Authenticate", www)
			}
			if info != "" {
				w.Header().Set("Authentication-Info", info)
			}
			w.WriteHeader(status)
		}))
		defer ts.Close()
		auth := httppeeridauth.ClientPeerIDAuth{PrivKey: priv}
		for call = 0; call < ncalls; call++ {
			beforeCall(call)
			req, err := http.NewRequest("GET", ts.URL, nil)
			if err != nil {
				ids, errs = append(ids, ""), append(errs, err)
				continue
			}
			req.Host = host
			req.GetBody = func() (io.ReadCloser, error) { return http.NoBody, nil }
			p, resp, err := auth.AuthenticatedDo(ts.Client(), req)
			if resp != nil && resp.Body != nil {
				io.Copy(io.Discard, resp.Body)
				resp.Body.Close()
			}
			ids, errs = append(ids, p), append(errs, err)
		}
		return
	}
}

// ---- a history of AuthenticatedDo calls on ONE ClientPeerIDAuth against several servers,
//      under several hostnames, requests with and without Host -------------------------------
func init() {
	handshake.VerifE2EClientHosts = func(priv crypto.PrivKey, nsrv int, plan func(urlHosts []string) []handshake.VerifHostReq,
		beforeCall func(call int), respond func(call, srv int, seenHost, reqHdr string) (status int, www, info string)) (ids []peer.ID, errs []error) {
		call := 0
		var tss []*httptest.Server
		var urlHosts []string
		for i := 0; i < nsrv; i++ {
			srv := i
			ts := httptest.NewServer(http.HandlerFunc(func(w http.ResponseWriter, r *http.Request) {
				status, www, info := respond(call, srv, r.Host, r.Header.Get("Authorization"))
				if www != "" {
					w.Header().Set("WWW-Authenticate", www)
				}
				if info != "" {
					w.Header().Set("Authentication-Info", info)
				}
				w.WriteHeader(status)
			}))
			defer ts.Close()
			tss = append(tss, ts)
			u, err := url.Parse(ts.URL)
			if err != nil {
				panic(err)
			}
			urlHosts = append(urlHosts, u.Host)
		}
		reqs := plan(urlHosts)
		auth := httppeeridauth.ClientPeerIDAuth{PrivKey: priv}
		for call = 0; call < len(reqs); call++ {
			beforeCall(call)
			ts := tss[reqs[call].Srv]
			u, err := url.Parse(ts.URL)
			if err != nil {
				ids, errs = append(ids, ""), append(errs, err)
				continue
			}
			var req *http.Request
			if reqs[call].Host == "" {
				// built by hand: no Host; the transport sends u.Host
				req = &http.Request{Method: "GET", URL: u, Header: make(http.Header)}
			} else {
				if req, err = http.NewRequest("GET", ts.URL, nil); err != nil {
					ids, errs = append(ids, ""), append(errs, err)
					continue
				}
				req.Host = reqs[call].Host
			}
			req.GetBody = func() (io.ReadCloser, error) { return http.NoBody, nil }
			p, resp, err := auth.AuthenticatedDo(ts.Client(), req)
			if resp != nil && resp.Body != nil {
				io.Copy(io.Discard, resp.Body)
				resp.Body.Close()
			}
			ids, errs = append(ids, p), append(errs, err)
		}
		return
	}
}

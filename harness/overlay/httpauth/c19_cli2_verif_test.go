//go:build verif

package handshake

import (
	"fmt"

	sym "github.com/libp2p/go-libp2p/p2p/http/auth/internal/verifc19"
)

// e2eClientScenario: the real ClientPeerIDAuth.AuthenticatedDo (no stored token)
// against a scripted server that answers over HTTP; one kind-5 case.
func (h *hx) e2eClientScenario(A, B srvCfg, c0, c1 uint64) { h.e2eClientScenarioK(A, B, c0, c1, -1) }

// lateKey >= 0: a malicious server that authenticates honestly with its own key and
// then adds public-key=<lateKey> to every later (never signature-checked) answer.
func (h *hx) e2eClientScenarioK(A, B srvCfg, c0, c1 uint64, lateKey int64) {
	if VerifE2EClient == nil {
		return
	}
	r := h.rnd
	host := hostnames[r.Intn(2)]
	hostID := h.w.Intern(host)
	ck, ck2 := c0, c1
	if r.Bool() {
		ck, ck2 = c1, c0
	}
	sk, sk2 := A.key, B.key
	var fresh []uint64
	type served struct {
		status    int
		items     []sym.Item
		www, info string
	}
	var resps []served
	var reqs [][]sym.OutTerm
	var own, older sym.Term = sym.Empty(), sym.Atom(h.nextChallenge())
	var lastItems []sym.Item
	honest := r.Chance(2, 5) || lateKey >= 0 // a server that follows the protocol (so far)
	n := 0
	respond := func(reqHdr string) (int, string, string) {
		n++
		out, ok := h.w.AbstractClientOut(reqHdr, ck, hostID, lastItems)
		if !ok {
			h.out.Cover("e2e_client_request_not_understood")
		}
		reqs = append(reqs, out)
		hasSig := false
		for _, p := range out {
			if p.Name == 2 && p.T.IsAtom() && !(own.IsAtom() && own.B[0] == p.T.B[0]) {
				if own.IsAtom() {
					older = own
				}
				own = p.T
			}
			if p.Name == 5 {
				hasSig = true
			}
		}
		var items []sym.Item
		inInfo := false
		status := 401
		sv := r.Intn(15)
		kvn := r.Intn(11)
		if honest {
			sv, kvn = 0, 0
		}
		switch {
		case n == 1:
			// the answer to the client's challenge: challenge-client, public-key, sig, opaque
			kv, _ := h.keyVariant(kvn, sk, sk2)
			items = append(items, sym.Item{Name: "challenge-client", Val: h.w.PVRaw(h.w.AtomString(h.nextChallenge()))})
			items = append(items, kv...)
			if honest || !r.Chance(1, 5) {
				v, _ := h.sigVariant(sv, sk, sk2, ck, ck2, own, older, host)
				items = append(items, sym.Item{Name: "sig", Val: v})
			}
			items = append(items, sym.Item{Name: "opaque", Val: h.pv(h.w.NewGarbage())})
		default:
			// later answers: bearer, with a signature when the client has just signed (fallback flow)
			inInfo = true
			status = 200
			if hasSig && (honest || !r.Chance(1, 6)) {
				v, _ := h.sigVariant(sv, sk, sk2, ck, ck2, own, older, host)
				items = append(items, sym.Item{Name: "sig", Val: v})
			}
			if honest || !r.Chance(1, 5) {
				items = append(items, sym.Item{Name: "bearer", Val: h.pv(h.w.NewGarbage())})
			}
			if lateKey >= 0 {
				items = append(items, sym.Item{Name: "public-key", Val: h.pv(sym.Pub(uint64(lateKey)))})
				h.out.Cover("e2e_client_late_public_key")
			}
		}
		hdr := stdHeader(items)
		www, info := hdr, ""
		if inInfo {
			www, info = "", hdr
		}
		if !honest && r.Chance(1, 12) {
			www, info = info, www
		}
		resps = append(resps, served{status, items, www, info})
		lastItems = items
		fresh = append(fresh, h.nextChallenge()) // armed for the Run that follows this response
		return status, www, info
	}
	fresh = append(fresh, h.nextChallenge()) // armed for the first Run
	p, err := VerifE2EClient(h.w.Keys[ck].Priv, host, respond)
	pid := int64(-1)
	if err == nil {
		if k, ok := h.w.KeyOfID(p); ok {
			pid = int64(k)
		} else {
			pid = -2
		}
	}
	c := []int64{5, int64(ck), int64(hostID), int64(len(fresh))}
	for _, f := range fresh {
		c = append(c, int64(f))
	}
	c = append(c, int64(len(resps)))
	for _, s := range resps {
		c = append(c, int64(s.status))
		c = sym.WireTable(c, valsOf(s.items))
		c = sym.WireBytes(c, []byte(s.www))
		c = sym.WireBytes(c, []byte(s.info))
	}
	c = append(c, pid, int64(len(reqs)))
	for _, q := range reqs {
		c = sym.WireOHdr(c, q)
	}
	h.out.Case(c)
	h.out.Cover(fmt.Sprintf("e2e_client_requests_%d", len(reqs)))
	if pid >= 0 {
		h.out.Cover("e2e_client_reports_id")
		h.out.Cover(fmt.Sprintf("e2e_client_reports_keytype_%d", h.w.Keys[pid].Typ))
	} else {
		h.out.Cover("e2e_client_error")
	}
	if honest {
		h.out.Cover("e2e_client_honest_server")
	}
}

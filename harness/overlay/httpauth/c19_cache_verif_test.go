//go:build verif

package handshake

import (
	"fmt"

	sym "github.com/libp2p/go-libp2p/p2p/http/auth/internal/verifc19"
)

// what the (scripted) server behind the hostname does during one call
type callPolicy struct {
	key         uint64 // the key it authenticates with
	badSig      bool   // its signature does not verify
	acceptToken bool   // a presented token is answered 200 (else 401 + a fresh challenge)
	tokenStatus int    // status used when the token is accepted
}

// cacheHistory: ONE ClientPeerIDAuth, several AuthenticatedDo calls for one hostname
// whose server changes between calls; one kind-7 case.
func (h *hx) cacheHistory(ck uint64, host string, pol []callPolicy, tag string) {
	if VerifE2EClientSession == nil {
		return
	}
	hostID := h.w.Intern(host)
	hostT := sym.Atom(hostID)
	type served struct {
		status    int
		items     []sym.Item
		www, info string
	}
	type callRec struct {
		fresh []uint64
		resps []served
		reqs  [][]sym.OutTerm
	}
	recs := make([]*callRec, len(pol))
	var lastItems []sym.Item
	var startBlock uint64
	n := 0
	beforeCall := func(call int) {
		recs[call] = &callRec{}
		n = 0
		startBlock = h.nextChallenge()
	}
	respond := func(call int, reqHdr string) (int, string, string) {
		rec, p := recs[call], pol[call]
		n++
		out, ok := h.w.AbstractClientOut(reqHdr, ck, hostID, lastItems)
		if !ok {
			h.out.Cover("cache_request_not_understood")
		}
		rec.reqs = append(rec.reqs, out)
		var chalS *sym.Term
		hasSig, hasBearer := false, false
		for _, o := range out {
			switch o.Name {
			case 2:
				t := o.T
				chalS = &t
			case 5:
				hasSig = true
			case 0:
				hasBearer = true
			}
		}
		if n == 1 && chalS != nil {
			rec.fresh = append(rec.fresh, startBlock) // the first Run happened before this request
		}
		sig := func() sym.Item {
			c := sym.Empty()
			if chalS != nil {
				c = *chalS
			}
			k := p.key
			if p.badSig {
				return sym.Item{Name: "sig", Val: h.pv(sym.Sig(k, sym.MsgServer(sym.Atom(h.nextChallenge()), sym.Pub(ck), hostT), 0))}
			}
			return sym.Item{Name: "sig", Val: h.pv(sym.Sig(k, sym.MsgServer(c, sym.Pub(ck), hostT), 0))}
		}
		pk := sym.Item{Name: "public-key", Val: h.pv(sym.Pub(p.key))}
		chalC := sym.Item{Name: "challenge-client", Val: h.w.PVRaw(h.w.AtomString(h.nextChallenge()))}
		opq := sym.Item{Name: "opaque", Val: h.pv(h.w.NewGarbage())}
		bearer := sym.Item{Name: "bearer", Val: h.pv(h.w.NewGarbage())}
		var items []sym.Item
		status, inInfo := 401, false
		switch {
		case hasSig && chalS != nil: // server-initiated: the client signed and challenges us
			items, status, inInfo = []sym.Item{sig(), bearer}, 200, true
		case hasSig: // client-initiated, second request
			items, status, inInfo = []sym.Item{bearer}, 200, true
		case chalS != nil: // client-initiated, first request
			items = []sym.Item{chalC, pk, sig(), opq}
		case hasBearer && p.acceptToken:
			status = p.tokenStatus
		default: // a token we do not accept, or nothing: challenge the client
			items = []sym.Item{chalC, pk, opq}
		}
		hdr := stdHeader(items)
		www, info := hdr, ""
		if inInfo {
			www, info = "", hdr
		}
		rec.resps = append(rec.resps, served{status, items, www, info})
		lastItems = items
		rec.fresh = append(rec.fresh, h.nextChallenge()) // armed for the Run after this response
		return status, www, info
	}
	ids, errs := VerifE2EClientSession(h.w.Keys[ck].Priv, host, len(pol), beforeCall, respond)
	c := []int64{7, int64(ck), int64(hostID), int64(len(pol))}
	for i, rec := range recs {
		pid := int64(-1)
		if errs[i] == nil {
			if k, ok := h.w.KeyOfID(ids[i]); ok {
				pid = int64(k)
			} else {
				pid = -2
			}
		}
		if len(rec.reqs) == 0 {
			rec.fresh = append(rec.fresh, startBlock)
		}
		c = append(c, int64(len(rec.fresh)))
		for _, f := range rec.fresh {
			c = append(c, int64(f))
		}
		c = append(c, int64(len(rec.resps)))
		for _, s := range rec.resps {
			c = append(c, int64(s.status))
			c = sym.WireTable(c, valsOf(s.items))
			c = sym.WireBytes(c, []byte(s.www))
			c = sym.WireBytes(c, []byte(s.info))
		}
		c = append(c, pid, int64(len(rec.reqs)))
		for _, q := range rec.reqs {
			c = sym.WireOHdr(c, q)
		}
		if pid >= 0 {
			h.out.Cover(fmt.Sprintf("cache_call_reports_id_requests_%d", len(rec.reqs)))
		} else {
			h.out.Cover("cache_call_error")
		}
	}
	h.out.Case(c)
	h.out.Cover("cache_history_" + tag)
}

func (h *hx) cacheHistories(A, B srvCfg, c0, c1 uint64) {
	ka, kb := A.key, B.key
	okA := callPolicy{key: ka, acceptToken: true, tokenStatus: 200}
	okB := callPolicy{key: kb, acceptToken: true, tokenStatus: 200}
	rejB := callPolicy{key: kb}
	rejA := callPolicy{key: ka}
	badB := callPolicy{key: kb, badSig: true}
	for _, ck := range []uint64{c0, c1} {
		host := hostnames[int(ck)%2]
		// the hostname moves from A to B: B rejects A's token, is verified, then the cached-token path
		h.cacheHistory(ck, host, []callPolicy{okA, okA, rejB, okB, okB}, "server_changes")
		h.cacheHistory(ck, host, []callPolicy{okA, rejB, okB, rejA, okA, okA}, "server_changes_twice")
		// the new server fails to authenticate: the call errs, the old entry stays
		h.cacheHistory(ck, host, []callPolicy{okA, badB, okA, okA}, "failed_reauthentication")
		h.cacheHistory(ck, host, []callPolicy{badB, okA, okA, rejB, okB}, "first_contact_fails")
		// other statuses on the token path
		for _, st := range []int{204, 403, 404, 500} {
			h.cacheHistory(ck, host, []callPolicy{okA, {key: kb, acceptToken: true, tokenStatus: st}, rejB, {key: kb, acceptToken: true, tokenStatus: st}}, "token_status")
		}
		// random histories
		for i := 0; i < 6; i++ {
			var pol []callPolicy
			for j := 0; j < 3+h.rnd.Intn(5); j++ {
				p := callPolicy{key: ka, acceptToken: h.rnd.Chance(3, 5), tokenStatus: 200, badSig: h.rnd.Chance(1, 6)}
				if h.rnd.Bool() {
					p.key = kb
				}
				pol = append(pol, p)
			}
			h.cacheHistory(ck, host, pol, "random")
		}
	}
}

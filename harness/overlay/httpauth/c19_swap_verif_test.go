//go:build verif

package handshake

import (
	"fmt"

	sym "github.com/libp2p/go-libp2p/p2p/http/auth/internal/verifc19"
)

// keySwapScenarios: a malicious server authenticates honestly with its own key A
// (the signature over the client's challenge verifies under A) and later sends
// public-key=<B> in a response that is not signature-checked (the bearer-only
// Authentication-Info), or after the handshake is done.  The client must go on
// reporting A: nothing was ever verified under B.
func (h *hx) keySwapScenarios(A, B srvCfg, c0, c1 uint64) {
	nk := uint64(len(h.w.Keys))
	for _, ck := range []uint64{c0, c1} {
		ck2 := c0 + c1 - ck
		others := []uint64{B.key, A.key ^ 1, ck, (A.key + 4) % nk} // other type, same type, the client's own, yet another
		for oi, kb := range others {
			if kb == A.key {
				continue
			}
			for flow := 0; flow < 3; flow++ {
				h.keySwap(A.key, kb, ck, ck2, flow, hostnames[oi%2])
				h.e2eClientScenarioK(A, B, ck, ck2, int64(kb))
			}
		}
	}
}

// flow 0: client-initiated; 1: server-initiated; 2: client-initiated, refused, then server-initiated
func (h *hx) keySwap(ka, kb, ck, ck2 uint64, flow int, host string) {
	cs := h.newClient(ck, host)
	hostT := sym.Atom(h.w.Intern(host))
	own := sym.Empty()
	run := func() {
		_, hdr := cs.step(2, "", "", nil)
		if ps, ok := sym.SplitEmitted(hdr); ok {
			for _, p := range ps {
				if sym.ParamNames[p.Name] == "challenge-server" {
					own = h.w.RawTerm(p.Raw)
				}
			}
		}
	}
	www := func(items []sym.Item) { cs.step(1, stdHeader(items), "", items) }
	info := func(items []sym.Item) { cs.step(1, "", stdHeader(items), items) }
	pk := func(k uint64) sym.Item { return sym.Item{Name: "public-key", Val: h.pv(sym.Pub(k))} }
	chalC := func() sym.Item {
		return sym.Item{Name: "challenge-client", Val: h.w.PVRaw(h.w.AtomString(h.nextChallenge()))}
	}
	opaque := sym.Item{Name: "opaque", Val: h.pv(h.w.NewGarbage())}
	bearer := sym.Item{Name: "bearer", Val: h.pv(h.w.NewGarbage())}
	sigBy := func(k uint64) sym.Item {
		return sym.Item{Name: "sig", Val: h.pv(sym.Sig(k, sym.MsgServer(own, sym.Pub(ck), hostT), 0))}
	}
	switch flow {
	case 0:
		cs.step(0, "", "", nil)
		run()
		www([]sym.Item{chalC(), pk(ka), sigBy(ka), opaque}) // honest, key A
		run()                                               // verified under A: waiting for the bearer
		info([]sym.Item{bearer, pk(kb)})                    // not signature-checked: key B slipped in
		run()
	case 1:
		www([]sym.Item{chalC(), pk(ka), opaque})
		run()
		info([]sym.Item{sigBy(ka), bearer, pk(kb)}) // the signature is checked after this parse
		run()
	default:
		cs.step(0, "", "", nil)
		run()
		www([]sym.Item{chalC(), pk(ka), opaque}) // refusal: no sig
		run()
		info([]sym.Item{sigBy(ka), bearer})
		run()
	}
	// after the end: more responses with key B, under both header names, and a signature by B
	// over the same challenge (a proof for B that comes too late to change the verified key)
	info([]sym.Item{bearer, pk(kb)})
	run()
	www([]sym.Item{chalC(), pk(kb), sigBy(kb), opaque})
	run()
	cs.flush()
	h.out.Cover(fmt.Sprintf("client_key_swap_flow_%d", flow))
	if h.w.Keys[ka].Typ == h.w.Keys[kb].Typ {
		h.out.Cover("client_key_swap_same_key_type")
	} else {
		h.out.Cover("client_key_swap_other_key_type")
	}
	_ = ck2
}

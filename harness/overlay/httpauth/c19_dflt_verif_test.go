//go:build verif

package handshake

import (
	"fmt"
	"time"

	sym "github.com/libp2p/go-libp2p/p2p/http/auth/internal/verifc19"
)

// defaultSecretInstances: ServerPeerIDAuth with HmacKey left unset (the default:
// every instance draws its own secret).  Two independent instances with the same
// private key; challenges and tokens are swapped between them, and the harness
// forges states under the empty key and under a known wrong key.  The oracle: a
// state that THIS instance's secret did not authenticate is rejected.
func (h *hx) defaultSecretInstances(key, cli uint64, t0 int64) {
	h.crossInstances(key, cli, t0, "default_secret", []instSpec{{"default-1", nil}, {"default-2", nil}},
		map[string][]byte{"empty_key": {}, "wrong_key": h.w.Macs[1]})
}

type instSpec struct {
	name string
	mac  []byte // nil: HmacKey left unset
}

// longSecretInstances: HMAC secrets longer than the hash size that share their first 32
// bytes (and one that is exactly that prefix) are different secrets.
func (h *hx) longSecretInstances(key, cli uint64, t0 int64) {
	prefix := append([]byte{}, h.w.Macs[0]...)
	prefix[30] |= 1 // HMAC pads short keys with zeros: keep the 31- and 32-byte keys different secrets
	prefix[31] |= 1
	mk := func(tail string, n int) []byte {
		k := append([]byte{}, prefix...)
		for len(k) < n {
			k = append(k, tail...)
		}
		return k[:n]
	}
	h.crossInstances(key, cli, t0, "long_secret",
		[]instSpec{{"long-33", mk("x", 33)}, {"long-40a", mk("ay", 40)}, {"long-40b", mk("bz", 40)}, {"long-64", mk("q7", 64)}, {"short-31", prefix[:31]}},
		map[string][]byte{"prefix_32": prefix, "prefix_31": prefix[:31], "empty_key": {}})
}

func (h *hx) crossInstances(key, cli uint64, t0 int64, fam string, insts []instSpec, forgeKeys map[string][]byte) {
	if VerifE2EServer == nil {
		return
	}
	host := hostnames[0]
	hostID := h.w.Intern(host)
	ttl := time.Hour
	tr := VerifTransport{NoTLS: true, HasFn: true, FnOK: true}
	forge := map[string]uint64{}
	for n, k := range forgeKeys {
		forge[n] = h.w.AddMac(k)
	}
	macOf := map[string]uint64{}
	specOf := map[string]instSpec{}
	for _, in := range insts {
		specOf[in.name] = in
		if in.mac != nil {
			macOf[in.name] = h.w.AddMac(in.mac)
		}
	}
	// send runs one request at an instance and records it
	send := func(inst string, now int64, items []sym.Item, tag string) (VerifE2EResult, []sym.Item) {
		fresh := h.nextChallenge()
		nowFn = func() time.Time { return h.w.Time(now) }
		hdr := stdHeader(items)
		res := VerifE2EServer(h.w.Keys[key].Priv, key, inst+fmt.Sprint(t0), specOf[inst].mac, ttl, tr, host, host, hdr)
		if res.Err != nil {
			h.out.Cover("e2e_transport_error")
			return res, nil
		}
		if _, ok := macOf[inst]; !ok {
			k := res.InstKey
			if k == nil {
				// the instance does not tell: an unknown secret of its own
				k = []byte("unknown secret of " + inst + fmt.Sprint(t0))
			}
			macOf[inst] = h.w.AddMac(k)
		}
		cfg := srvCfg{key: key, mac: macOf[inst], ttl: ttl}
		h.emitE2E(cfg, host, hostID, now, fresh, tr, hdr, items, res)
		h.out.Cover(fam + "_" + tag)
		if res.Called {
			h.out.Cover(fam + "_accept_" + tag)
		}
		out, _ := h.w.ItemsOfEmitted(res.RespHdr)
		return res, out
	}
	spk := sym.Pub(key)
	hostT := sym.Atom(hostID)
	chalS := h.w.PVRaw(h.w.AtomString(h.nextChallenge()))
	answer := func(challenge []sym.Item) []sym.Item {
		opq, _ := get(challenge, "opaque")
		_, _, st, ok := blobParts(opq)
		chal := sym.Empty()
		if ok {
			chal = st.Chal
		} else if c, ok2 := get(challenge, "challenge-client"); ok2 {
			chal = h.w.RawTerm(c.Raw)
		}
		return []sym.Item{{Name: "opaque", Val: opq}, {Name: "sig", Val: h.pv(sym.Sig(cli, sym.MsgClient(chal, spk, hostT), 0))},
			{Name: "public-key", Val: h.pv(sym.Pub(cli))}, {Name: "challenge-server", Val: chalS}}
	}
	// valid server-initiated handshakes at each instance
	tokens := map[string]sym.PVal{}
	chals := map[string][]sym.Item{}
	for _, spec := range insts {
		inst := spec.name
		_, ch := send(inst, t0, nil, "no_auth")
		chals[inst] = ch
		res, out := send(inst, t0+sec, answer(ch), "own_challenge_answered")
		if !res.Called {
			h.t.Fatalf("default-configured ServerPeerIDAuth refused a valid handshake (status %d)", res.Status)
		}
		if tok, ok := get(out, "bearer"); ok {
			tokens[inst] = tok
		}
	}
	now := t0 + 2*sec
	for _, sa := range insts {
		a := sa.name
		send(a, now, []sym.Item{{Name: "bearer", Val: tokens[a]}}, "own_token")
		for _, sb := range insts {
			if b := sb.name; b != a {
				send(a, now, []sym.Item{{Name: "bearer", Val: tokens[b]}}, "token_of_another_instance")
				send(a, now, answer(chals[b]), "challenge_of_another_instance_answered")
			}
		}
		// forged by the harness under keys that are not this instance's
		for name, mk := range forge {
			if mk == macOf[a] {
				continue
			}
			pid := cli
			tok := sym.OState{Token: true, Pid: &pid, Chal: sym.Empty(), Host: hostID, Created: now - sec}
			send(a, now, []sym.Item{{Name: "bearer", Val: h.blob(mk, tok)}}, "token_forged_under_"+name)
			victim := key // any id: the server's own
			tok2 := sym.OState{Token: true, Pid: &victim, Chal: sym.Empty(), Host: hostID, Created: now - sec}
			send(a, now, []sym.Item{{Name: "bearer", Val: h.blob(mk, tok2)}}, "token_forged_under_"+name)
			cst := sym.OState{Chal: sym.Atom(h.nextChallenge()), Host: hostID, Created: now - sec}
			forged := []sym.Item{{Name: "opaque", Val: h.blob(mk, cst)}}
			send(a, now, answer(forged), "challenge_forged_under_"+name)
		}
	}
}

// hostPortFamily: the Host value with an explicit port is a different hostname than the one
// without or with another port: a challenge obtained for A, answered at B with a signature
// over C is accepted only when A = B = C (the full Host value).
func (h *hx) hostPortFamily(cfg srvCfg, cli uint64, t0 int64) {
	if VerifE2EServer == nil {
		return
	}
	hosts := []string{"example.com", "example.com:8443", "example.com:9443"}
	tr := VerifTransport{NoTLS: true, HasFn: true, FnOK: true}
	spk := sym.Pub(cfg.key)
	chalS := h.w.PVRaw(h.w.AtomString(h.nextChallenge()))
	send := func(host string, now int64, items []sym.Item, tag string) []sym.Item {
		fresh := h.nextChallenge()
		nowFn = func() time.Time { return h.w.Time(now) }
		hdr := stdHeader(items)
		res := VerifE2EServer(h.w.Keys[cfg.key].Priv, cfg.key, "", h.w.Macs[cfg.mac], cfg.ttl, tr, host, host, hdr)
		if res.Err != nil {
			h.out.Cover("e2e_transport_error")
			return nil
		}
		h.emitE2E(cfg, host, h.w.Intern(host), now, fresh, tr, hdr, items, res)
		h.out.Cover("host_port_" + tag)
		if res.Called {
			h.out.Cover("host_port_accept_" + tag)
		}
		out, _ := h.w.ItemsOfEmitted(res.RespHdr)
		return out
	}
	for ai, a := range hosts {
		ch := send(a, t0, nil, "challenge")
		opq, ok := get(ch, "opaque")
		if !ok {
			continue
		}
		cc, _ := get(ch, "challenge-client")
		chal := h.w.RawTerm(cc.Raw)
		for bi, b := range hosts {
			for ci, c := range hosts {
				sg := h.pv(sym.Sig(cli, sym.MsgClient(chal, spk, sym.Atom(h.w.Intern(c))), 0))
				items := []sym.Item{{Name: "opaque", Val: opq}, {Name: "sig", Val: sg},
					{Name: "public-key", Val: h.pv(sym.Pub(cli))}, {Name: "challenge-server", Val: chalS}}
				tag := "mixed"
				if ai == bi && bi == ci {
					tag = "same_host_everywhere"
				}
				send(b, t0+sec, items, tag)
			}
		}
	}
}

//go:build verif

package handshake

import (
	"fmt"
	"time"

	sym "github.com/libp2p/go-libp2p/p2p/http/auth/internal/verifc19"
)

// defaultSecretInstances: ServerPeerIDAuth with HmacKey left unset (the default:
// every instance draws its own secret).  Two independent instances with the same
// private key; challenges and tokens are swapped between them, and the harness
// forges states under the empty key and under a known wrong key.  The oracle: a
// state that THIS instance's secret did not authenticate is rejected.
func (h *hx) defaultSecretInstances(key, cli uint64, t0 int64) {
	if VerifE2EServer == nil {
		return
	}
	host := hostnames[0]
	hostID := h.w.Intern(host)
	ttl := time.Hour
	tr := VerifTransport{NoTLS: true, HasFn: true, FnOK: true}
	emptyMac := h.w.AddMac([]byte{})
	wrongMac := uint64(1)
	macOf := map[string]uint64{}
	// send runs one request at an instance and records it
	send := func(inst string, now int64, items []sym.Item, tag string) (VerifE2EResult, []sym.Item) {
		fresh := h.nextChallenge()
		nowFn = func() time.Time { return h.w.Time(now) }
		hdr := stdHeader(items)
		res := VerifE2EServer(h.w.Keys[key].Priv, key, inst, nil, ttl, tr, host, host, hdr)
		if res.Err != nil {
			h.out.Cover("e2e_transport_error")
			return res, nil
		}
		if _, ok := macOf[inst]; !ok {
			k := res.InstKey
			if k == nil {
				// the instance does not tell: an unknown secret of its own
				k = []byte("unknown secret of " + inst + fmt.Sprint(t0))
			}
			macOf[inst] = h.w.AddMac(k)
		}
		cfg := srvCfg{key: key, mac: macOf[inst], ttl: ttl}
		h.emitE2E(cfg, host, hostID, now, fresh, tr, hdr, items, res)
		h.out.Cover("default_secret_" + tag)
		if res.Called {
			h.out.Cover("default_secret_accept_" + tag)
		}
		out, _ := h.w.ItemsOfEmitted(res.RespHdr)
		return res, out
	}
	spk := sym.Pub(key)
	hostT := sym.Atom(hostID)
	chalS := h.w.PVRaw(h.w.AtomString(h.nextChallenge()))
	answer := func(challenge []sym.Item) []sym.Item {
		opq, _ := get(challenge, "opaque")
		_, _, st, ok := blobParts(opq)
		chal := sym.Empty()
		if ok {
			chal = st.Chal
		} else if c, ok2 := get(challenge, "challenge-client"); ok2 {
			chal = h.w.RawTerm(c.Raw)
		}
		return []sym.Item{{Name: "opaque", Val: opq}, {Name: "sig", Val: h.pv(sym.Sig(cli, sym.MsgClient(chal, spk, hostT), 0))},
			{Name: "public-key", Val: h.pv(sym.Pub(cli))}, {Name: "challenge-server", Val: chalS}}
	}
	// valid server-initiated handshakes at each instance
	tokens := map[string]sym.PVal{}
	chals := map[string][]sym.Item{}
	for _, inst := range []string{"default-1", "default-2"} {
		_, ch := send(inst, t0, nil, "no_auth")
		chals[inst] = ch
		res, out := send(inst, t0+sec, answer(ch), "own_challenge_answered")
		if !res.Called {
			h.t.Fatalf("default-configured ServerPeerIDAuth refused a valid handshake (status %d)", res.Status)
		}
		if tok, ok := get(out, "bearer"); ok {
			tokens[inst] = tok
		}
	}
	now := t0 + 2*sec
	for _, a := range []string{"default-1", "default-2"} {
		b := "default-2"
		if a == "default-2" {
			b = "default-1"
		}
		send(a, now, []sym.Item{{Name: "bearer", Val: tokens[a]}}, "own_token")
		send(a, now, []sym.Item{{Name: "bearer", Val: tokens[b]}}, "token_of_the_other_instance")
		send(a, now, answer(chals[b]), "challenge_of_the_other_instance_answered")
		// forged by the harness: under the empty key, a known wrong key
		for name, mk := range map[string]uint64{"empty_key": emptyMac, "wrong_key": wrongMac} {
			pid := cli
			tok := sym.OState{Token: true, Pid: &pid, Chal: sym.Empty(), Host: hostID, Created: now - sec}
			send(a, now, []sym.Item{{Name: "bearer", Val: h.blob(mk, tok)}}, "token_forged_under_"+name)
			victim := key // any id: the server's own
			tok2 := sym.OState{Token: true, Pid: &victim, Chal: sym.Empty(), Host: hostID, Created: now - sec}
			send(a, now, []sym.Item{{Name: "bearer", Val: h.blob(mk, tok2)}}, "token_forged_under_"+name)
			cst := sym.OState{Chal: sym.Atom(h.nextChallenge()), Host: hostID, Created: now - sec}
			forged := []sym.Item{{Name: "opaque", Val: h.blob(mk, cst)}}
			send(a, now, answer(forged), "challenge_forged_under_"+name)
		}
	}
}

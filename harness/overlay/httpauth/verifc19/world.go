package verifc19

import (
	"bytes"
	"crypto/hmac"
	"crypto/sha256"
	"encoding/base64"
	"encoding/binary"
	"encoding/json"
	"fmt"
	"sort"
	"time"

	"github.com/libp2p/go-libp2p/core/crypto"
	"github.com/libp2p/go-libp2p/core/peer"
)

const Scheme = "libp2p-PeerID"

type Key struct {
	Priv     crypto.PrivKey
	Pub      crypto.PubKey
	PubBytes []byte
	ID       peer.ID
	Typ      int
}

// World holds the real keys and secrets behind the symbolic numbers, the
// string interning table (atoms) and the two-way map between terms and bytes.
type World struct {
	Keys []Key
	Macs [][]byte
	Base time.Time

	atoms   map[string]uint64
	atomStr []string
	rev     map[string]Term   // concrete bytes -> term
	conc    map[string][]byte // term key -> concrete bytes
	garb    uint64
	sigCtr  uint64
	sigs    []Term // every signature term seen so far (candidates for re-encodings)
	// Malleable counts, per key type, byte strings that are not a signature the
	// harness made or saw, yet verify for the key and message of one it did.
	Malleable map[int]int
}

type detReader struct{ s uint64 }

func (d *detReader) Read(p []byte) (int, error) {
	for i := range p {
		d.s = d.s*6364136223846793005 + 1442695040888963407
		p[i] = byte(d.s >> 56)
	}
	return len(p), nil
}

// NewWorld creates perType key pairs of each of the four key types and nmac
// HMAC secrets, all derived from seed.
func NewWorld(seed uint64, perType, nmac int) (*World, error) {
	w := &World{
		Base:    time.Unix(1_700_000_000, 0).UTC(),
		atoms:   map[string]uint64{},
		atomStr: []string{""},
		rev:     map[string]Term{},
		conc:    map[string][]byte{},
		garb:    1000,
		Malleable: map[int]int{},
	}
	rd := &detReader{s: seed ^ 0xc19c19}
	for _, typ := range []int{crypto.Ed25519, crypto.Secp256k1, crypto.ECDSA, crypto.RSA} {
		for i := 0; i < perType; i++ {
			bits := 0
			if typ == crypto.RSA {
				bits = 2048
			}
			var priv crypto.PrivKey
			var pub crypto.PubKey
			var err error
			if typ == crypto.RSA {
				// rsa.GenerateKey is not deterministic in its reader anyway
				priv, pub, err = crypto.GenerateKeyPair(typ, bits)
			} else {
				priv, pub, err = crypto.GenerateKeyPairWithReader(typ, bits, rd)
			}
			if err != nil {
				return nil, err
			}
			pb, err := crypto.MarshalPublicKey(pub)
			if err != nil {
				return nil, err
			}
			id, err := peer.IDFromPublicKey(pub)
			if err != nil {
				return nil, err
			}
			k := uint64(len(w.Keys))
			w.Keys = append(w.Keys, Key{priv, pub, pb, id, typ})
			w.rev[string(pb)] = Pub(k)
		}
	}
	// secrets: their own stream (key generation consumes a varying number of bytes), and
	// no trailing zero byte (HMAC pads keys with zeros: K and K||0 are the same secret)
	md := &detReader{s: seed ^ 0x5ec2e7}
	for i := 0; i < nmac; i++ {
		m := make([]byte, 32)
		md.Read(m)
		m[31] |= 1
		w.Macs = append(w.Macs, m)
	}
	return w, nil
}

// AddMac registers a secret (deduplicated) and returns its number.
func (w *World) AddMac(key []byte) uint64 {
	for i, m := range w.Macs {
		if bytes.Equal(m, key) {
			return uint64(i)
		}
	}
	w.Macs = append(w.Macs, append([]byte{}, key...))
	return uint64(len(w.Macs) - 1)
}

// Intern returns the atom number of a string (the empty string has no atom).
func (w *World) Intern(s string) uint64 {
	if id, ok := w.atoms[s]; ok {
		return id
	}
	id := uint64(len(w.atomStr))
	w.atoms[s] = id
	w.atomStr = append(w.atomStr, s)
	return id
}

// RawTerm is the value of a raw string: Empty or its atom.
func (w *World) RawTerm(s string) Term {
	if s == "" {
		return Empty()
	}
	return Atom(w.Intern(s))
}

func (w *World) AtomString(id uint64) string {
	if id < uint64(len(w.atomStr)) {
		return w.atomStr[id]
	}
	return ""
}

func (w *World) NewGarbage() Term { w.garb++; return Garbage(w.garb) }

func (w *World) KeyOfID(id peer.ID) (uint64, bool) {
	for i, k := range w.Keys {
		if k.ID == id {
			return uint64(i), true
		}
	}
	return 0, false
}

func (w *World) Time(ns int64) time.Time { return w.Base.Add(time.Duration(ns)) }

// GenData is the harness' own construction of the signed data.
func GenData(prefix string, parts [][2][]byte) []byte {
	ps := append([][2][]byte{}, parts...)
	sort.SliceStable(ps, func(i, j int) bool { return bytes.Compare(ps[i][0], ps[j][0]) < 0 })
	buf := []byte(prefix)
	for _, p := range ps {
		buf = binary.AppendUvarint(buf, uint64(len(p[0])+1+len(p[1])))
		buf = append(buf, p[0]...)
		buf = append(buf, '=')
		buf = append(buf, p[1]...)
	}
	return buf
}

type mirrorState struct {
	IsToken         bool      `json:"is-token,omitempty"`
	ClientPublicKey []byte    `json:"client-public-key,omitempty"`
	PeerID          peer.ID   `json:"peer-id,omitempty"`
	ChallengeClient string    `json:"challenge-client,omitempty"`
	Hostname        string    `json:"hostname"`
	CreatedTime     time.Time `json:"created-time"`
}

func (w *World) stateJSON(s OState) ([]byte, error) {
	m := mirrorState{IsToken: s.Token, Hostname: w.AtomString(s.Host), CreatedTime: w.Time(s.Created)}
	if s.Cpk != nil {
		b, err := w.Concrete(*s.Cpk)
		if err != nil {
			return nil, err
		}
		if len(b) == 0 {
			return nil, fmt.Errorf("state with an empty non-nil client key")
		}
		m.ClientPublicKey = b
	}
	if s.Pid != nil {
		if *s.Pid >= uint64(len(w.Keys)) {
			return nil, fmt.Errorf("state for an unknown key")
		}
		m.PeerID = w.Keys[*s.Pid].ID
	}
	cb, err := w.Concrete(s.Chal)
	if err != nil {
		return nil, err
	}
	m.ChallengeClient = string(cb)
	return json.Marshal(&m)
}

func (w *World) remember(t Term, b []byte) {
	if t.Tag == TSig {
		w.sigs = append(w.sigs, t)
	}
	k := t.Key()
	if _, ok := w.conc[k]; !ok {
		w.conc[k] = b
	}
	if _, ok := w.rev[string(b)]; !ok {
		w.rev[string(b)] = t
	}
}

// Concrete turns a term into bytes (injective on the terms the harness builds).
func (w *World) Concrete(t Term) ([]byte, error) {
	if b, ok := w.conc[t.Key()]; ok {
		return b, nil
	}
	var out []byte
	switch t.Tag {
	case TBytes:
		switch len(t.B) {
		case 0:
			out = []byte{}
		case 1:
			out = []byte(w.AtomString(t.B[0]))
		default:
			for _, x := range t.B {
				out = append(out, byte(x))
			}
		}
	case TPub:
		if t.K >= uint64(len(w.Keys)) {
			return nil, fmt.Errorf("unknown key %d", t.K)
		}
		out = w.Keys[t.K].PubBytes
	case TSig:
		if t.K >= uint64(len(w.Keys)) {
			return nil, fmt.Errorf("unknown key %d", t.K)
		}
		m, err := w.Concrete(*t.M)
		if err != nil {
			return nil, err
		}
		if out, err = w.Keys[t.K].Priv.Sign(m); err != nil {
			return nil, err
		}
	case TMac:
		if t.K >= uint64(len(w.Macs)) {
			return nil, fmt.Errorf("unknown secret %d", t.K)
		}
		m, err := w.Concrete(*t.M)
		if err != nil {
			return nil, err
		}
		h := hmac.New(sha256.New, w.Macs[t.K])
		h.Write(m)
		out = h.Sum(nil)
	case TGarbage:
		n := 48
		if t.K%4 == 0 {
			n = 16
		}
		for i := 0; len(out) < n; i++ {
			s := sha256.Sum256([]byte(fmt.Sprintf("garbage-%d-%d", t.K, i)))
			out = append(out, s[:]...)
		}
		out = out[:n]
	case TPair:
		if s, ok := DecState(t); ok {
			b, err := w.stateJSON(s)
			if err != nil {
				return nil, err
			}
			out = b
		} else if d, x, y, z, ok := asMsg(t); ok {
			xb, err1 := w.Concrete(x)
			yb, err2 := w.Concrete(y)
			zb, err3 := w.Concrete(z)
			if err1 != nil || err2 != nil || err3 != nil {
				return nil, fmt.Errorf("message component")
			}
			out = msgBytes(d, xb, yb, zb)
		} else {
			a, err := w.Concrete(*t.A)
			if err != nil {
				return nil, err
			}
			b, err := w.Concrete(*t.M)
			if err != nil {
				return nil, err
			}
			out = append(append([]byte{}, a...), b...)
		}
	default:
		return nil, fmt.Errorf("cannot concretise tag %d", t.Tag)
	}
	w.remember(t, out)
	return out, nil
}

// msgBytes: d = 1 the client's data (x challenge-client, y hostname, z server-public-key),
// d = 2 the server's data (x challenge-server, y client-public-key, z hostname);
// larger d: near misses.
func msgBytes(d uint64, x, y, z []byte) []byte {
	b := func(s string) []byte { return []byte(s) }
	switch d {
	case 1:
		return GenData(Scheme, [][2][]byte{{b("challenge-client"), x}, {b("server-public-key"), z}, {b("hostname"), y}})
	case 2:
		return GenData(Scheme, [][2][]byte{{b("challenge-server"), x}, {b("client-public-key"), y}, {b("hostname"), z}})
	case 3: // other prefix
		return GenData("libp2p-PeerIX", [][2][]byte{{b("challenge-client"), x}, {b("server-public-key"), z}, {b("hostname"), y}})
	case 4: // hostname left out
		return GenData(Scheme, [][2][]byte{{b("challenge-client"), x}, {b("server-public-key"), z}})
	case 5: // no length prefixes
		return []byte(Scheme + "challenge-client=" + string(x) + "hostname=" + string(y) + "server-public-key=" + string(z))
	case 6: // the value of one part spills into the next: same concatenation, other split
		return GenData(Scheme, [][2][]byte{{b("challenge-client"), append(append([]byte{}, x...), y...)}, {b("server-public-key"), z}, {b("hostname"), nil}})
	default:
		return GenData(fmt.Sprintf("verif-other-%d", d), [][2][]byte{{b("a"), x}, {b("b"), y}, {b("c"), z}})
	}
}

// B64 is the encoding the real code emits.
func B64(b []byte) string { return base64.URLEncoding.EncodeToString(b) }

package verifc19

import (
	"bytes"
	"crypto/hmac"
	"crypto/sha256"
	"encoding/base64"
	"encoding/json"
	"strings"
)

// PVal describes one raw parameter value: the raw string, its atom number and
// what base64.URLEncoding decodes it to (nil = decoding error).
type PVal struct {
	Raw string
	ID  uint64
	Dec *Term
}

// Abstract maps concrete bytes back to a term: what the harness built or saw
// before, else fresh garbage.
func (w *World) Abstract(b []byte) Term {
	if t, ok := w.rev[string(b)]; ok {
		return t
	}
	// Ideal signatures: a value has the origin (key, message) iff the real
	// verifier accepts it for them.  Bytes that are a re-encoding of a known
	// signature (e.g. ECDSA DER with trailing bytes) are that signature with
	// another encoding number, not garbage.
	if len(b) >= 16 {
		n := len(w.sigs)
		lo := 0
		if n > 400 {
			lo = n - 400
		}
		for i := n - 1; i >= lo; i-- {
			c := w.sigs[i]
			mb, err := w.Concrete(*c.M)
			if err != nil {
				continue
			}
			if ok, err := w.Keys[c.K].Pub.Verify(mb, b); err == nil && ok {
				w.sigCtr++
				t := Sig(c.K, *c.M, 100000+w.sigCtr)
				w.Malleable[w.Keys[c.K].Typ]++
				w.conc[t.Key()] = b
				w.rev[string(b)] = t
				return t
			}
		}
	}
	t := w.NewGarbage()
	w.conc[t.Key()] = b
	w.rev[string(b)] = t
	return t
}

// PV builds the parameter value that carries term t, base64url-encoded as the
// real code does.
func (w *World) PV(t Term) (PVal, error) {
	b, err := w.Concrete(t)
	if err != nil {
		return PVal{}, err
	}
	return w.PVRaw(B64(b)), nil
}

// PVRaw describes an arbitrary raw string.  The decoded value is looked up in
// the reverse map; base64 itself (stdlib) is used as is.
func (w *World) PVRaw(raw string) PVal {
	pv := PVal{Raw: raw, ID: w.Intern(raw)}
	if raw == "" {
		e := Empty()
		pv.Dec = &e
		return pv
	}
	b, err := base64.URLEncoding.DecodeString(raw)
	if err != nil {
		return pv
	}
	var t Term
	if len(b) == 0 {
		t = Empty()
	} else {
		t = w.Abstract(b)
	}
	pv.Dec = &t
	return pv
}

// AbstractBlob describes HMAC ++ JSON bytes as Pair(tag, fields).
func (w *World) AbstractBlob(raw []byte) Term {
	if t, ok := w.rev[string(raw)]; ok {
		return t
	}
	if len(raw) < 32 {
		return w.Abstract(raw)
	}
	tagB, fieldsB := raw[:32], raw[32:]
	fields := w.abstractFields(fieldsB)
	var tag Term
	found := false
	for k, key := range w.Macs {
		h := hmac.New(sha256.New, key)
		h.Write(fieldsB)
		if hmac.Equal(h.Sum(nil), tagB) {
			tag = Mac(uint64(k), fields)
			found = true
			break
		}
	}
	if !found {
		tag = w.Abstract(tagB)
	} else {
		w.remember(tag, append([]byte{}, tagB...))
	}
	t := Pair(tag, fields)
	w.remember(t, append([]byte{}, raw...))
	return t
}

func (w *World) abstractFields(b []byte) Term {
	if t, ok := w.rev[string(b)]; ok {
		return t
	}
	var m mirrorState
	dec := json.NewDecoder(bytes.NewReader(b))
	dec.DisallowUnknownFields()
	if err := dec.Decode(&m); err != nil {
		return w.Abstract(b)
	}
	again, err := json.Marshal(&m)
	if err != nil || !bytes.Equal(again, b) {
		return w.Abstract(b)
	}
	s := OState{Token: m.IsToken, Host: w.Intern(m.Hostname), Created: int64(m.CreatedTime.Sub(w.Base))}
	if m.Hostname == "" {
		return w.Abstract(b)
	}
	if len(m.ClientPublicKey) > 0 {
		c := w.Abstract(m.ClientPublicKey)
		s.Cpk = &c
	}
	if m.PeerID != "" {
		k, ok := w.KeyOfID(m.PeerID)
		if !ok {
			return w.Abstract(b)
		}
		s.Pid = &k
	}
	s.Chal = w.RawTerm(m.ChallengeClient)
	t := EncState(s)
	w.remember(t, append([]byte{}, b...))
	return t
}

// AbstractSig describes signature bytes given candidate (key, message) pairs.
func (w *World) AbstractSig(sig []byte, cands []SigCand) Term {
	if t, ok := w.rev[string(sig)]; ok {
		return t
	}
	for _, c := range cands {
		mb, err := w.Concrete(c.Msg)
		if err != nil || c.Key >= uint64(len(w.Keys)) {
			continue
		}
		if ok, err := w.Keys[c.Key].Pub.Verify(mb, sig); err == nil && ok {
			t := Sig(c.Key, c.Msg, 0)
			if _, taken := w.conc[t.Key()]; taken {
				w.sigCtr++
				t = Sig(c.Key, c.Msg, w.sigCtr)
			}
			w.remember(t, append([]byte{}, sig...))
			return t
		}
	}
	return w.Abstract(sig)
}

type SigCand struct {
	Key uint64
	Msg Term
}

// OutParam is one parameter of an emitted header.
type OutParam struct {
	Name int
	Raw  string
}

var ParamNames = []string{"bearer", "challenge-client", "challenge-server", "opaque", "public-key", "sig"}

func NameCode(n string) int {
	for i, x := range ParamNames {
		if x == n {
			return i
		}
	}
	return -1
}

// SplitEmitted splits a header the real code built (scheme, then name="value"
// pairs separated by ", ").  ok = false when it does not have that shape.
func SplitEmitted(h string) (ps []OutParam, ok bool) {
	if h == "" {
		return nil, true
	}
	if !strings.HasPrefix(h, Scheme+" ") {
		return nil, false
	}
	rest := h[len(Scheme)+1:]
	if rest == "" {
		return nil, true
	}
	for _, f := range strings.Split(rest, ", ") {
		k, v, found := strings.Cut(f, "=")
		if !found || len(v) < 2 || v[0] != '"' || v[len(v)-1] != '"' || NameCode(k) < 0 {
			return nil, false
		}
		ps = append(ps, OutParam{NameCode(k), v[1 : len(v)-1]})
	}
	return ps, true
}

// Item is one piece of a request / response header the harness builds.
type Item struct {
	Name string // parameter name ("" = a bare token)
	Val  PVal
	Bare string // for Name == "": the token text
	// formatting
	NoQuotes bool
}

// BuildHeader writes scheme + items with the given separator.
func BuildHeader(prefix string, items []Item, sep string) string {
	var sb strings.Builder
	sb.WriteString(prefix)
	for i, it := range items {
		if i > 0 {
			sb.WriteString(sep)
		}
		if it.Name == "" {
			sb.WriteString(it.Bare)
			continue
		}
		sb.WriteString(it.Name)
		sb.WriteByte('=')
		if it.NoQuotes {
			sb.WriteString(it.Val.Raw)
		} else {
			sb.WriteByte('"')
			sb.WriteString(it.Val.Raw)
			sb.WriteByte('"')
		}
	}
	return sb.String()
}

// WireBytes appends  n b_1 .. b_n.
func WireBytes(out []int64, b []byte) []int64 {
	out = append(out, int64(len(b)))
	for _, x := range b {
		out = append(out, int64(x))
	}
	return out
}

// WireTable appends the value table for the given values (deduplicated by raw string).
func WireTable(out []int64, vals []PVal) []int64 {
	seen := map[string]bool{}
	var uniq []PVal
	for _, v := range vals {
		if !seen[v.Raw] {
			seen[v.Raw] = true
			uniq = append(uniq, v)
		}
	}
	out = append(out, int64(len(uniq)))
	for _, v := range uniq {
		out = WireBytes(out, []byte(v.Raw))
		out = append(out, int64(v.ID))
		if v.Dec == nil {
			out = append(out, 0)
		} else {
			out = append(out, 1)
			out = v.Dec.Wire(out)
		}
	}
	return out
}

type OutTerm struct {
	Name int
	T    Term
}

func WireOHdr(out []int64, ps []OutTerm) []int64 {
	out = append(out, int64(len(ps)))
	for _, p := range ps {
		out = append(out, int64(p.Name))
		out = p.T.Wire(out)
	}
	return out
}

// ServerSigCands: what a signature emitted by server key `key` at hostname atom
// `host` may be over, given the values of the incoming header.
func (w *World) ServerSigCands(key uint64, host uint64, items []Item) []SigCand {
	var chals, cpks []Term
	chals = append(chals, Empty())
	for _, it := range items {
		if it.Name == "challenge-server" {
			chals = append(chals, w.RawTerm(it.Val.Raw))
		}
		if it.Val.Dec != nil {
			cpks = append(cpks, *it.Val.Dec)
			if it.Val.Dec.Tag == TPair {
				if s, ok := DecState(*it.Val.Dec.M); ok && s.Cpk != nil {
					cpks = append(cpks, *s.Cpk)
				}
			}
		}
	}
	var cs []SigCand
	for _, c := range chals {
		for _, p := range cpks {
			cs = append(cs, SigCand{Key: key, Msg: MsgServer(c, p, Atom(host))})
		}
	}
	return cs
}

// AbstractServerOut describes a header a real server emitted in answer to `items`.
func (w *World) AbstractServerOut(hdr string, key, host uint64, items []Item) ([]OutTerm, bool) {
	ps, ok := SplitEmitted(hdr)
	if !ok {
		return nil, false
	}
	var out []OutTerm
	for _, p := range ps {
		var t Term
		switch ParamNames[p.Name] {
		case "challenge-client", "challenge-server":
			t = w.RawTerm(p.Raw)
		case "public-key":
			pv := w.PVRaw(p.Raw)
			if pv.Dec == nil {
				return nil, false
			}
			t = *pv.Dec
		case "sig":
			b, err := base64.URLEncoding.DecodeString(p.Raw)
			if err != nil {
				return nil, false
			}
			t = w.AbstractSig(b, w.ServerSigCands(key, host, items))
		default: // opaque, bearer
			b, err := base64.URLEncoding.DecodeString(p.Raw)
			if err != nil {
				return nil, false
			}
			t = w.AbstractBlob(b)
		}
		out = append(out, OutTerm{Name: p.Name, T: t})
	}
	return out, true
}

// AbstractClientOut describes a header a real client (key ckey, hostname atom
// host) emitted after having seen `seen`.
func (w *World) AbstractClientOut(hdr string, ckey, host uint64, seen []Item) ([]OutTerm, bool) {
	return w.AbstractClientOutHosts(hdr, ckey, []uint64{host}, seen)
}

// AbstractClientOutHosts: as AbstractClientOut, for a client whose signature may be
// over any of several hostname atoms (the request's Host, its URL's host, the empty name).
func (w *World) AbstractClientOutHosts(hdr string, ckey uint64, hosts []uint64, seen []Item) ([]OutTerm, bool) {
	ps, ok := SplitEmitted(hdr)
	if !ok {
		return nil, false
	}
	var out []OutTerm
	for _, p := range ps {
		var t Term
		switch ParamNames[p.Name] {
		case "public-key":
			pv := w.PVRaw(p.Raw)
			if pv.Dec == nil {
				return nil, false
			}
			t = *pv.Dec
		case "sig":
			b, err := base64.URLEncoding.DecodeString(p.Raw)
			if err != nil {
				return nil, false
			}
			chals := []Term{Empty()}
			for _, it := range seen {
				if it.Name == "challenge-client" {
					chals = append(chals, w.RawTerm(it.Val.Raw))
				}
			}
			var cs []SigCand
			for _, c := range chals {
				for k := range w.Keys {
					for _, host := range hosts {
						cs = append(cs, SigCand{Key: ckey, Msg: MsgClient(c, Pub(uint64(k)), Atom(host))})
					}
				}
			}
			t = w.AbstractSig(b, cs)
		default: // challenge-server (own), opaque / bearer (echoed raw)
			t = w.RawTerm(p.Raw)
		}
		out = append(out, OutTerm{Name: p.Name, T: t})
	}
	return out, true
}

// ItemsOfEmitted turns a header the real code built into items (the values
// must have been abstracted before, so that their decoded terms are known).
func (w *World) ItemsOfEmitted(hdr string) ([]Item, bool) {
	ps, ok := SplitEmitted(hdr)
	if !ok {
		return nil, false
	}
	var items []Item
	for _, p := range ps {
		items = append(items, Item{Name: ParamNames[p.Name], Val: w.PVRaw(p.Raw)})
	}
	return items, true
}

func ValsOf(items []Item) []PVal {
	var vs []PVal
	for _, it := range items {
		if it.Name != "" {
			vs = append(vs, it.Val)
		}
	}
	return vs
}

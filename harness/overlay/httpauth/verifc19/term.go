// Package verifc19 is the symbolic side of the C19 harness (HTTP Peer-ID auth).
// It is injected with `go test -overlay` (never part of the repository) and
// deliberately does not import the handshake package: signed data, the JSON of
// the opaque state and the HMAC are re-implemented here, so that accepting the
// harness' valid material is itself a check of the real code.
//
// Terms mirror Coq's c08.SymCrypto.term; the wire encoding is documented in
// coq/c19/Spec.v.
package verifc19

import (
	"strconv"
	"strings"
)

const (
	TBytes = iota
	TKey
	TPub
	TSig
	TMac
	THash
	TPair
	TGarbage
)

// Term is a node of the free term algebra.
type Term struct {
	Tag  int
	K, R uint64
	B    []uint64
	A, M *Term // A: first component of a pair; M: message / second component
}

func Bytes(b ...uint64) Term    { return Term{Tag: TBytes, B: append([]uint64{}, b...)} }
func Atom(id uint64) Term       { return Term{Tag: TBytes, B: []uint64{id}} }
func Empty() Term               { return Term{Tag: TBytes, B: []uint64{}} }
func Pub(k uint64) Term         { return Term{Tag: TPub, K: k} }
func Garbage(n uint64) Term     { return Term{Tag: TGarbage, K: n} }
func Pair(a, b Term) Term       { return Term{Tag: TPair, A: &a, M: &b} }
func Mac(k uint64, m Term) Term { return Term{Tag: TMac, K: k, M: &m} }
func Sig(k uint64, m Term, r uint64) Term {
	return Term{Tag: TSig, K: k, R: r, M: &m}
}

// Wire appends the wire encoding of t.
func (t Term) Wire(out []int64) []int64 {
	switch t.Tag {
	case TBytes:
		out = append(out, 0, int64(len(t.B)))
		for _, x := range t.B {
			out = append(out, int64(x))
		}
	case TKey:
		out = append(out, 1, int64(t.K))
	case TPub:
		out = append(out, 2, int64(t.K))
	case TSig:
		out = append(out, 3, int64(t.K), int64(t.R))
		out = t.M.Wire(out)
	case TMac:
		out = append(out, 4, int64(t.K))
		out = t.M.Wire(out)
	case THash:
		out = append(out, 5)
		out = t.M.Wire(out)
	case TPair:
		out = append(out, 6)
		out = t.A.Wire(out)
		out = t.M.Wire(out)
	case TGarbage:
		out = append(out, 7, int64(t.K))
	}
	return out
}

// Key is a canonical string for maps.
func (t Term) Key() string {
	w := t.Wire(nil)
	var sb strings.Builder
	for _, x := range w {
		sb.WriteString(strconv.FormatInt(x, 36))
		sb.WriteByte('.')
	}
	return sb.String()
}

func (t Term) IsAtom() bool  { return t.Tag == TBytes && len(t.B) == 1 }
func (t Term) IsEmpty() bool { return t.Tag == TBytes && len(t.B) == 0 }

// MsgClient / MsgServer mirror Model.v's msg_client / msg_server.
func MsgClient(chal, spk, host Term) Term {
	return Pair(Bytes(1), Pair(chal, Pair(host, spk)))
}
func MsgServer(chal, cpk, host Term) Term {
	return Pair(Bytes(2), Pair(chal, Pair(cpk, host)))
}

// MsgOther is a message of another shape over three values (d >= 3): what an
// attacker could get signed elsewhere, or a wrong prefix / wrong parameter names.
func MsgOther(d uint64, x, y, z Term) Term {
	return Pair(Bytes(d), Pair(x, Pair(y, z)))
}

// asMsg recognises Pair(Bytes[d], Pair(x, Pair(y, z))).
func asMsg(t Term) (d uint64, x, y, z Term, ok bool) {
	if t.Tag != TPair || t.A.Tag != TBytes || len(t.A.B) != 1 || t.M.Tag != TPair || t.M.M.Tag != TPair {
		return
	}
	return t.A.B[0], *t.M.A, *t.M.M.A, *t.M.M.M, true
}

// OState mirrors Model.v's ostate.
type OState struct {
	Token   bool
	Cpk     *Term
	Pid     *uint64
	Chal    Term
	Host    uint64
	Created int64 // ns relative to World.Base
}

func encOpt(o *Term) Term {
	if o == nil {
		return Bytes(0)
	}
	return Pair(Bytes(1), *o)
}

func encZ(z int64) Term {
	switch {
	case z == 0:
		return Bytes(0, 0)
	case z > 0:
		return Bytes(1, uint64(z))
	default:
		return Bytes(2, uint64(-z))
	}
}

// EncState mirrors enc_state.
func EncState(s OState) Term {
	tk := Bytes(0)
	if s.Token {
		tk = Bytes(1)
	}
	var pid *Term
	if s.Pid != nil {
		a := Atom(*s.Pid)
		pid = &a
	}
	return Pair(tk, Pair(encOpt(s.Cpk), Pair(encOpt(pid), Pair(s.Chal, Pair(Atom(s.Host), encZ(s.Created))))))
}

func decOpt(t Term) (*Term, bool) {
	if t.Tag == TBytes && len(t.B) == 1 && t.B[0] == 0 {
		return nil, true
	}
	if t.Tag == TPair && t.A.Tag == TBytes && len(t.A.B) == 1 && t.A.B[0] == 1 {
		return t.M, true
	}
	return nil, false
}

// DecState mirrors dec_state.
func DecState(t Term) (s OState, ok bool) {
	f := make([]Term, 0, 6)
	cur := t
	for i := 0; i < 5; i++ {
		if cur.Tag != TPair {
			return s, false
		}
		f = append(f, *cur.A)
		cur = *cur.M
	}
	f = append(f, cur)
	if f[0].Tag != TBytes || len(f[0].B) != 1 || f[0].B[0] > 1 {
		return s, false
	}
	s.Token = f[0].B[0] == 1
	if s.Cpk, ok = decOpt(f[1]); !ok {
		return s, false
	}
	pid, ok := decOpt(f[2])
	if !ok {
		return s, false
	}
	if pid != nil {
		if !pid.IsAtom() {
			return s, false
		}
		v := pid.B[0]
		s.Pid = &v
	}
	s.Chal = f[3]
	if !f[4].IsAtom() {
		return s, false
	}
	s.Host = f[4].B[0]
	z := f[5]
	if z.Tag != TBytes || len(z.B) != 2 {
		return s, false
	}
	switch {
	case z.B[0] == 0 && z.B[1] == 0:
		s.Created = 0
	case z.B[0] == 1 && z.B[1] > 0:
		s.Created = int64(z.B[1])
	case z.B[0] == 2 && z.B[1] > 0:
		s.Created = -int64(z.B[1])
	default:
		return s, false
	}
	return s, true
}

//go:build verif

package handshake

import (
	"fmt"
	"strings"
	"time"

	sym "github.com/libp2p/go-libp2p/p2p/http/auth/internal/verifc19"
)

var hostnames = []string{"example.com", "other.example.org:8443"}

func (h *hx) round(r int) {
	nk := uint64(len(h.w.Keys))
	// key pairs 2i, 2i+1 have type i; rotate the roles over the four key types
	a := uint64((2 * r) % 8)
	b := (a + 3) % nk
	c0 := (a + 5) % nk
	c1 := (a + 2) % nk
	ttls := []time.Duration{time.Hour, 10 * time.Minute, 5 * time.Minute, 0, 7 * time.Second}
	A := srvCfg{key: a, mac: 0, ttl: ttls[r%len(ttls)]}
	B := srvCfg{key: b, mac: 1, ttl: ttls[(r+1)%len(ttls)]}
	A2 := srvCfg{key: a, mac: 2, ttl: A.ttl} // same key, other secret
	A3 := srvCfg{key: b, mac: 0, ttl: A.ttl} // other key, same secret
	t0 := int64(h.rnd.Intn(1_000_000)) * sec
	for flow := 0; flow < 2; flow++ {
		s := h.honest(flow, A, c0, hostnames[0], t0)
		others := []*sess{
			h.honest(flow, A, c1, hostnames[0], t0+3*sec),  // other client
			h.honest(flow, B, c0, hostnames[0], t0+5*sec),  // other server
			h.honest(flow, A, c0, hostnames[1], t0+7*sec),  // other hostname
			h.honest(flow, A2, c0, hostnames[0], t0+9*sec), // other secret, same key
			h.honest(1-flow, A, c0, hostnames[0], t0+11*sec),
			h.honest(flow, A, c0, hostnames[0], t0+13*sec), // same everything, other session
		}
		ctx := []srvCfg{A, B, A2, A3}
		h.mutVerify(s, others, ctx)
		h.mutBearer(s, others, ctx)
		h.mutSign(s, others)
		h.mutFormat(s)
		h.objectSessions(s, others)
	}
	h.clientScenarios(r, A, B, c0, c1)
	h.keySwapScenarios(A, B, c0, c1)
	h.cacheHistories(A, B, c0, c1)
	h.hostHistories(A, B, c0, c1)
	h.defaultSecretInstances(a, c0, t0+300*sec)
	h.longSecretInstances(a, c1, t0+400*sec)
	h.hostPortFamily(A, c0, t0+500*sec)
	h.e2ePair(A, c0, hostnames[0], t0+100*sec)
	h.e2ePair(B, c1, hostnames[1], t0+200*sec)
}

var offsets = []int64{-sec, -1, 0, 1, sec}

// mutVerify: the request that answers the challenge (sig + opaque [+ public-key, challenge-server]).
func (h *hx) mutVerify(s *sess, others []*sess, ctx []srvCfg) {
	base := s.stage["c2"]
	ttl := int64(5 * time.Minute)
	// time offsets around the challenge lifetime (the challenge was minted at t0)
	for _, d := range offsets {
		h.try(req{s.srv, s.host, s.t0 + ttl + d, base, "", fmt.Sprintf("challenge_expiry_%+d", d)})
	}
	h.try(req{s.srv, s.host, s.t0 - sec, base, "", "challenge_from_the_future"})
	now := s.tTok
	// drop / duplicate / swap each parameter
	for _, it := range base {
		h.try(req{s.srv, s.host, now, without(base, it.Name), "", "drop_" + it.Name})
		for oi, o := range others {
			ov, ok := get(o.stage["c2"], it.Name)
			if !ok {
				continue
			}
			h.try(req{s.srv, s.host, now, with(base, it.Name, ov), "", fmt.Sprintf("swap_%s_from_%d", it.Name, oi)})
			h.try(req{s.srv, s.host, now, dupFront(base, it.Name, ov), "", "dup_front_" + it.Name})
			h.try(req{s.srv, s.host, now, dupBack(base, it.Name, ov), "", "dup_back_" + it.Name})
		}
		for k := 0; k < 7; k++ {
			h.try(req{s.srv, s.host, now, with(base, it.Name, h.w.PVRaw(reencode(it.Val.Raw, k))), "", fmt.Sprintf("reencode_%d", k)})
		}
		h.try(req{s.srv, s.host, now, with(base, it.Name, h.w.PVRaw("")), "", "empty_" + it.Name})
		h.try(req{s.srv, s.host, now, with(base, it.Name, h.pv(h.w.NewGarbage())), "", "garbage_" + it.Name})
	}
	// the whole request of another session / at another server, hostname, secret
	for oi, o := range others {
		h.try(req{s.srv, s.host, now, o.stage["c2"], "", fmt.Sprintf("foreign_request_%d", oi)})
	}
	for ci, c := range ctx {
		for hi, hn := range hostnames {
			h.try(req{c, hn, now, base, "", fmt.Sprintf("at_server_%d_host_%d", ci, hi)})
		}
	}
	// altered state
	opq, _ := get(base, "opaque")
	tag, fields, st, ok := blobParts(opq)
	if !ok {
		h.t.Fatalf("valid opaque not understood")
	}
	alt := func(name string, f func(*sym.OState)) {
		st2 := st
		f(&st2)
		f2 := sym.EncState(st2)
		// fields altered under the old tag; re-MACed under a foreign secret; re-MACed under the right secret
		h.try(req{s.srv, s.host, now, with(base, "opaque", h.pv(sym.Pair(tag, f2))), "", "state_altered_" + name})
		h.try(req{s.srv, s.host, now, with(base, "opaque", h.pv(sym.Pair(sym.Mac(1, f2), f2))), "", "state_foreign_secret_" + name})
		h.try(req{s.srv, s.host, now, with(base, "opaque", h.blob(s.srv.mac, st2)), "", "state_forged_with_secret_" + name})
	}
	otherKey := sym.Pub(others[0].cli)
	alt("host", func(x *sym.OState) { x.Host = h.w.Intern(hostnames[1]) })
	alt("created", func(x *sym.OState) { x.Created += int64(10 * time.Minute) })
	alt("expired", func(x *sym.OState) { x.Created -= int64(10 * time.Minute) })
	alt("token_flag", func(x *sym.OState) { x.Token = true })
	alt("challenge", func(x *sym.OState) { x.Chal = sym.Atom(h.nextChallenge()) })
	alt("client_key", func(x *sym.OState) { x.Cpk = &otherKey })
	alt("no_client_key", func(x *sym.OState) { x.Cpk = nil })
	alt("peer_id", func(x *sym.OState) { v := others[0].cli; x.Pid = &v })
	alt("nothing", func(x *sym.OState) {})
	h.try(req{s.srv, s.host, now, with(base, "opaque", h.pv(sym.Pair(h.w.NewGarbage(), fields))), "", "tag_altered"})
	h.try(req{s.srv, s.host, now, with(base, "opaque", h.pv(sym.Pair(sym.Mac(s.srv.mac, fields), h.w.NewGarbage()))), "", "fields_garbage"})
	g := h.w.NewGarbage()
	h.try(req{s.srv, s.host, now, with(base, "opaque", h.pv(sym.Pair(sym.Mac(s.srv.mac, g), g))), "", "macced_garbage"})
	// crafted signatures
	chal := st.Chal
	hostT := sym.Atom(h.w.Intern(s.host))
	spk := sym.Pub(s.srv.key)
	good := sym.MsgClient(chal, spk, hostT)
	trySig := func(name string, t sym.Term) {
		h.try(req{s.srv, s.host, now, with(base, "sig", h.pv(t)), "", "sig_" + name})
	}
	trySig("resigned", sym.Sig(s.cli, good, 7))
	trySig("other_key", sym.Sig(others[0].cli, good, 0))
	trySig("server_key", sym.Sig(s.srv.key, good, 0))
	trySig("other_challenge", sym.Sig(s.cli, sym.MsgClient(sym.Atom(h.nextChallenge()), spk, hostT), 0))
	trySig("other_hostname", sym.Sig(s.cli, sym.MsgClient(chal, spk, sym.Atom(h.w.Intern(hostnames[1]))), 0))
	trySig("other_server_key", sym.Sig(s.cli, sym.MsgClient(chal, sym.Pub(others[1].srv.key), hostT), 0))
	trySig("server_domain", sym.Sig(s.cli, sym.MsgServer(chal, spk, hostT), 0))
	for d := uint64(3); d <= 7; d++ {
		trySig(fmt.Sprintf("shape_%d", d), sym.Sig(s.cli, sym.MsgOther(d, chal, hostT, spk), 0))
	}
	// reflection: the server's own signatures used as the client's
	for _, st := range []string{"s2", "s3"} {
		if v, ok := get(s.stage[st], "sig"); ok {
			h.try(req{s.srv, s.host, now, with(base, "sig", v), "", "sig_reflected_" + st})
		}
	}
	// other public keys (server-initiated flow reads it from the header)
	for _, k := range []uint64{others[0].cli, s.srv.key} {
		h.try(req{s.srv, s.host, now, with(base, "public-key", h.pv(sym.Pub(k))), "", "public_key_other"})
		h.try(req{s.srv, s.host, now, with(with(base, "public-key", h.pv(sym.Pub(k))), "sig", h.pv(sym.Sig(k, good, 0))), "", "public_key_and_sig_other"})
	}
	// cross use: the bearer token as opaque, with and without a bearer parameter
	if tok, ok := get(s.stage["c4"], "bearer"); ok {
		h.try(req{s.srv, s.host, now, with(base, "opaque", tok), "", "token_as_opaque"})
		h.try(req{s.srv, s.host, now + sec, dupBack(base, "bearer", tok), "", "challenge_answer_plus_bearer"})
		h.try(req{s.srv, s.host, now + sec, dupBack(with(base, "sig", h.pv(h.w.NewGarbage())), "bearer", tok), "", "bad_sig_plus_good_bearer"})
	}
	// a challenge minted in another context, answered for this one: the signature is
	// made over (that challenge, this server's key, this hostname) by that session's client
	for oi, o := range others {
		oopq, ok1 := get(o.stage["c2"], "opaque")
		_, _, ost, ok2 := blobParts(oopq)
		if !ok1 || !ok2 {
			continue
		}
		items := with(with(base, "opaque", oopq), "sig", h.pv(sym.Sig(o.cli, sym.MsgClient(ost.Chal, spk, hostT), 0)))
		items = with(items, "public-key", h.pv(sym.Pub(o.cli)))
		h.try(req{s.srv, s.host, now, items, "", fmt.Sprintf("transplanted_challenge_%d", oi)})
	}
	// the token as the state, with a signature over the empty challenge it carries
	if tok, ok := get(s.stage["c4"], "bearer"); ok {
		items := with(with(base, "opaque", tok), "sig", h.pv(sym.Sig(s.cli, sym.MsgClient(sym.Empty(), spk, hostT), 0)))
		items = with(items, "public-key", h.pv(sym.Pub(s.cli)))
		h.try(req{s.srv, s.host, now + sec, items, "", "token_as_opaque_signed_empty_challenge"})
	}
	// all three of sig, opaque and bearer in one header (ParseHeaderVal gives sig+opaque the
	// priority), with tokens and challenge states in either slot
	if tok, ok := get(s.stage["c4"], "bearer"); ok {
		otok, _ := get(others[0].stage["c4"], "bearer")
		sigEmpty := h.pv(sym.Sig(s.cli, sym.MsgClient(sym.Empty(), spk, hostT), 0))
		sigReal, _ := get(base, "sig")
		pkv := h.pv(sym.Pub(s.cli))
		slotBearer := map[string]sym.PVal{"junk": h.pv(h.w.NewGarbage()), "empty": h.w.PVRaw(""), "other_token": otok,
			"challenge_state": opq, "bad_base64": h.w.PVRaw("!!")}
		for bn, bv := range slotBearer {
			for on, ov := range map[string]sym.PVal{"token": tok, "other_token": otok, "challenge_state": opq} {
				for sn, sv := range map[string]sym.PVal{"empty_challenge": sigEmpty, "real_challenge": sigReal} {
					items := with(with(with(base, "opaque", ov), "sig", sv), "public-key", pkv)
					items = dupBack(items, "bearer", bv)
					h.try(req{s.srv, s.host, now + sec, items, "", "three_params_bearer_" + bn + "_opaque_" + on + "_sig_" + sn})
				}
			}
		}
	}
	// short / missing challenge-server (server-initiated: the server must sign it)
	h.try(req{s.srv, s.host, now, with(base, "challenge-server", h.w.PVRaw("short")), "", "challenge_server_short"})
	h.try(req{s.srv, s.host, now, with(base, "challenge-server", h.w.PVRaw(strings.Repeat("x", 31))), "", "challenge_server_31"})
	h.try(req{s.srv, s.host, now, with(base, "challenge-server", h.w.PVRaw(strings.Repeat("y", 32))), "", "challenge_server_32"})
}

// mutBearer: the request that carries the token.
func (h *hx) mutBearer(s *sess, others []*sess, ctx []srvCfg) {
	base := s.stage["c4"]
	tok, ok := get(base, "bearer")
	if !ok {
		h.t.Fatalf("no bearer")
	}
	for ci, c := range ctx {
		for _, d := range offsets {
			h.try(req{c, s.host, s.tTok + int64(c.ttl) + d, base, "", fmt.Sprintf("token_expiry_%+d_at_%d", d, ci)})
		}
		h.try(req{c, hostnames[1], s.tTok + sec, base, "", fmt.Sprintf("token_other_hostname_at_%d", ci)})
	}
	h.try(req{s.srv, s.host, s.tTok - sec, base, "", "token_from_the_future"})
	now := s.tTok + sec
	for oi, o := range others {
		h.try(req{s.srv, s.host, now, o.stage["c4"], "", fmt.Sprintf("token_of_session_%d", oi)})
		if ov, ok := get(o.stage["c4"], "bearer"); ok {
			h.try(req{s.srv, s.host, now, dupFront(base, "bearer", ov), "", "dup_front_bearer"})
			h.try(req{s.srv, s.host, now, dupBack(base, "bearer", ov), "", "dup_back_bearer"})
		}
	}
	for k := 0; k < 7; k++ {
		h.try(req{s.srv, s.host, now, with(base, "bearer", h.w.PVRaw(reencode(tok.Raw, k))), "", fmt.Sprintf("reencode_%d", k)})
	}
	h.try(req{s.srv, s.host, now, with(base, "bearer", h.w.PVRaw("")), "", "empty_bearer"})
	h.try(req{s.srv, s.host, now, with(base, "bearer", h.pv(h.w.NewGarbage())), "", "garbage_bearer"})
	tag, fields, st, ok := blobParts(tok)
	if !ok {
		h.t.Fatalf("valid token not understood")
	}
	alt := func(name string, f func(*sym.OState)) {
		st2 := st
		f(&st2)
		f2 := sym.EncState(st2)
		h.try(req{s.srv, s.host, now, with(base, "bearer", h.pv(sym.Pair(tag, f2))), "", "token_altered_" + name})
		h.try(req{s.srv, s.host, now, with(base, "bearer", h.pv(sym.Pair(sym.Mac(1, f2), f2))), "", "token_foreign_secret_" + name})
		h.try(req{s.srv, s.host, now, with(base, "bearer", h.blob(s.srv.mac, st2)), "", "token_forged_with_secret_" + name})
	}
	alt("peer_id", func(x *sym.OState) { v := others[0].cli; x.Pid = &v })
	alt("no_peer_id", func(x *sym.OState) { x.Pid = nil })
	alt("created", func(x *sym.OState) { x.Created += int64(2 * time.Hour) })
	alt("expired", func(x *sym.OState) { x.Created -= int64(2 * time.Hour) })
	alt("token_flag", func(x *sym.OState) { x.Token = false })
	alt("host", func(x *sym.OState) { x.Host = h.w.Intern(hostnames[1]) })
	alt("nothing", func(x *sym.OState) {})
	h.try(req{s.srv, s.host, now, with(base, "bearer", h.pv(sym.Pair(h.w.NewGarbage(), fields))), "", "token_tag_altered"})
	// cross use: the challenge state as a token
	if opq, ok := get(s.stage["c2"], "opaque"); ok {
		h.try(req{s.srv, s.host, now, with(base, "bearer", opq), "", "opaque_as_token"})
	}
	// a bearer next to sig and opaque selects the challenge branch
	if sg, ok := get(s.stage["c2"], "sig"); ok {
		h.try(req{s.srv, s.host, now, dupBack(base, "sig", sg), "", "bearer_plus_sig"})
		h.try(req{s.srv, s.host, now, dupBack(dupBack(base, "sig", h.pv(h.w.NewGarbage())), "opaque", h.pv(h.w.NewGarbage())), "", "bearer_plus_garbage_sig_opaque"})
	}
}

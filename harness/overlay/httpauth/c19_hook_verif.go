//go:build verif

package handshake

// Overlay-only (never part of the repository): lets the C19 end-to-end harness,
// which lives in another package, set the clock and the random source the way
// this package's own tests do.

import (
	"io"
	"time"
)

func VerifSetClock(f func() time.Time) { nowFn = f }
func VerifSetRand(r io.Reader)         { randReader = r }

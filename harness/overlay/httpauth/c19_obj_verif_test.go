//go:build verif

package handshake

import (
	sym "github.com/libp2p/go-libp2p/p2p/http/auth/internal/verifc19"
)

// objectSessions: ONE PeerIDAuthHandshakeServer object serves a sequence of
// unrelated requests with Reset() between them (as the package's own tests and
// benchmarks reuse it).  Nothing of an earlier request may leak into a later one:
// every step is an ordinary request case (the model starts from a fresh object).
func (h *hx) objectSessions(s *sess, others []*sess) {
	now := s.tTok + sec
	noAuth := req{s.srv, s.host, now, nil, "", "object_no_auth"}
	// what was handed out by the previous step, presented as bearer / as opaque
	var last srvRes
	replay := func(obj *PeerIDAuthHandshakeServer, as string, tag string) {
		if last.cls != 0 || last.hdr == "" {
			return
		}
		items, ok := h.w.ItemsOfEmitted(last.hdr)
		if !ok {
			return
		}
		for _, src := range []string{"opaque", "bearer"} {
			if v, ok := get(items, src); ok {
				var it []sym.Item
				if as == "bearer" {
					it = []sym.Item{{Name: "bearer", Val: v}}
				} else {
					sg, _ := get(s.stage["c2"], "sig")
					pk := h.pv(sym.Pub(s.cli))
					cs, _ := get(s.stage["c2"], "challenge-server")
					it = []sym.Item{{Name: "opaque", Val: v}, {Name: "sig", Val: sg}, {Name: "public-key", Val: pk}}
					if cs.Raw != "" {
						it = append(it, sym.Item{Name: "challenge-server", Val: cs})
					}
				}
				last = h.serverStepOn(obj, s.srv, s.host, now, stdHeader(it), it, tag+"_"+src+"_as_"+as)
				return
			}
		}
	}
	run := func(obj *PeerIDAuthHandshakeServer, r req) {
		last = h.serverStepOn(obj, r.srv, r.host, r.now, stdHeader(r.items), r.items, r.tag)
	}
	victimBearer := req{s.srv, s.host, now, s.stage["c4"], "", "object_bearer"}
	victimAnswer := req{s.srv, s.host, s.tTok, s.stage["c2"], "", "object_answer"}
	otherAnswer := req{s.srv, s.host, others[0].tTok, others[0].stage["c2"], "", "object_answer_other_client"}
	otherBearer := req{s.srv, s.host, others[0].tTok + sec, others[0].stage["c4"], "", "object_bearer_other_client"}
	signReq := s.stage["c1"]
	if signReq == nil {
		pk, _ := get(s.stage["c2"], "public-key")
		cs, _ := get(s.stage["c2"], "challenge-server")
		signReq = []sym.Item{{Name: "challenge-server", Val: cs}, {Name: "public-key", Val: pk}}
	}
	sign := req{s.srv, s.host, now, signReq, "", "object_sign_request"}
	garbage := req{s.srv, s.host, now, []sym.Item{{Name: "bearer", Val: h.pv(h.w.NewGarbage())}}, "", "object_garbage_bearer"}

	// 1. a verified bearer, then an anonymous request, then what it was handed as a bearer
	obj := h.newServerObject(s.srv, s.host)
	run(obj, victimBearer)
	run(obj, noAuth)
	replay(obj, "bearer", "object_replay")
	run(obj, noAuth)
	replay(obj, "opaque", "object_replay")
	// 2. a verified challenge answer (mints a token), then anonymous / sign request, replays
	obj = h.newServerObject(s.srv, s.host)
	run(obj, victimAnswer)
	run(obj, noAuth)
	replay(obj, "bearer", "object_replay")
	run(obj, victimAnswer)
	run(obj, sign)
	replay(obj, "bearer", "object_replay")
	run(obj, victimAnswer)
	replay(obj, "opaque", "object_replay") // the fresh token as challenge state
	// 3. mixed: other client's answer and bearer, failures in between
	obj = h.newServerObject(s.srv, s.host)
	run(obj, otherBearer)
	run(obj, garbage)
	run(obj, noAuth)
	replay(obj, "bearer", "object_replay")
	run(obj, otherAnswer)
	run(obj, victimBearer)
	run(obj, sign)
	replay(obj, "opaque", "object_replay")
	run(obj, victimBearer)
	run(obj, otherAnswer)
	run(obj, noAuth)
	replay(obj, "bearer", "object_replay")
	// 4. random walk
	all := []req{victimBearer, victimAnswer, otherAnswer, otherBearer, sign, garbage, noAuth}
	obj = h.newServerObject(s.srv, s.host)
	for i := 0; i < 24; i++ {
		switch h.rnd.Intn(4) {
		case 0:
			replay(obj, "bearer", "object_replay")
		case 1:
			replay(obj, "opaque", "object_replay")
		default:
			run(obj, all[h.rnd.Intn(len(all))])
		}
	}
}

//go:build verif

package handshake

// C19 correspondence harness, handshake level: drives the real
// PeerIDAuthHandshakeServer / PeerIDAuthHandshakeClient (nowFn and randReader
// set as the package's own tests do) on headers whose symbolic description the
// harness knows, and records description + answers (format: coq/c19/Spec.v).

import (
	"bytes"
	"crypto/hmac"
	"crypto/sha256"
	"errors"
	"fmt"
	"net/http"
	"testing"
	"time"

	"github.com/libp2p/go-libp2p/core/crypto"
	"github.com/libp2p/go-libp2p/core/peer"
	"github.com/libp2p/go-libp2p/internal/verifh"
	sym "github.com/libp2p/go-libp2p/p2p/http/auth/internal/verifc19"
)

func TestVerifNothing(t *testing.T) {}

type srvCfg struct {
	key, mac uint64
	ttl      time.Duration
}

type hx struct {
	t    *testing.T
	w    *sym.World
	out  *verifh.Out
	rnd  *verifh.Rand
	chal uint64
}

// nextChallenge arms randReader with 32 fresh bytes (followed by a marker
// stream, so a second draw in the same call would be noticed as an unknown
// challenge) and returns the atom of the challenge string they encode to.
func (h *hx) nextChallenge() uint64 {
	h.chal++
	var b [32]byte
	s := sha256.Sum256([]byte(fmt.Sprintf("challenge-%d-%d", verifh.Seed(), h.chal)))
	copy(b[:], s[:])
	randReader = bytes.NewReader(append(b[:], bytes.Repeat([]byte{0xEE}, 64)...))
	return h.w.Intern(sym.B64(b[:]))
}

func valsOf(items []sym.Item) []sym.PVal { return sym.ValsOf(items) }

type srvRes struct {
	cls, state int
	pid        int64
	hdrName    string
	hdr        string
	out        []sym.OutTerm
}

// serverStep runs one request on a fresh real handshake server and records the case.
func (h *hx) serverStep(cfg srvCfg, host string, now int64, hdr string, items []sym.Item, tag string) (res srvRes) {
	return h.serverStepOn(nil, cfg, host, now, hdr, items, tag)
}

func (h *hx) newServerObject(cfg srvCfg, host string) *PeerIDAuthHandshakeServer {
	return &PeerIDAuthHandshakeServer{
		Hostname: host,
		PrivKey:  h.w.Keys[cfg.key].Priv,
		TokenTTL: cfg.ttl,
		Hmac:     hmac.New(sha256.New, h.w.Macs[cfg.mac]),
	}
}

// serverStepOn runs the request on the given server object after Reset() (the way
// the type is meant to be reused), or on a fresh one when obj is nil.
func (h *hx) serverStepOn(obj *PeerIDAuthHandshakeServer, cfg srvCfg, host string, now int64, hdr string, items []sym.Item, tag string) (res srvRes) {
	fresh := h.nextChallenge()
	nowFn = func() time.Time { return h.w.Time(now) }
	hostID := h.w.Intern(host)
	if obj == nil {
		obj = h.newServerObject(cfg, host)
	} else {
		obj.Reset()
		h.out.Cover("server_object_reused_after_reset")
	}
	srv := obj
	res.pid = -1
	func() {
		defer func() {
			if r := recover(); r != nil {
				res.cls = 9
				h.out.Cover("server_panic")
			}
		}()
		if err := srv.ParseHeaderVal([]byte(hdr)); err != nil {
			res.cls = 1
			return
		}
		err := srv.Run()
		switch {
		case err == nil:
		case errors.Is(err, ErrInvalidHMAC):
			res.cls = 2
		case errors.Is(err, ErrExpiredChallenge):
			res.cls = 3
		case errors.Is(err, ErrExpiredToken):
			res.cls = 4
		default:
			res.cls = 5
		}
		if res.cls != 0 {
			return
		}
		res.state = int(srv.state)
		if p, err := srv.PeerID(); err == nil {
			if k, ok := h.w.KeyOfID(p); ok {
				res.pid = int64(k)
			} else {
				res.pid = -2
			}
		}
		hh := http.Header{}
		srv.SetHeader(hh)
		for _, n := range []string{"WWW-Authenticate", "Authentication-Info"} {
			if v := hh.Get(n); v != "" {
				res.hdrName, res.hdr = n, v
			}
		}
		out, ok := h.w.AbstractServerOut(res.hdr, cfg.key, hostID, items)
		if !ok {
			res.cls = 8
			h.out.Cover("server_output_not_understood")
		}
		res.out = out
	}()
	c := []int64{3, 0, int64(cfg.key), int64(cfg.mac), int64(cfg.ttl), int64(hostID), now, int64(fresh), 0, 0, 0, 0, 0}
	c = sym.WireTable(c, valsOf(items))
	c = sym.WireBytes(c, []byte(hdr))
	c = append(c, int64(res.cls), int64(res.state), res.pid)
	c = sym.WireOHdr(c, res.out)
	h.out.Case(c)
	h.out.Cover("server_cls_" + fmt.Sprint(res.cls))
	if res.cls == 0 {
		h.out.Cover("server_state_" + fmt.Sprint(res.state))
		if res.pid >= 0 {
			h.out.Cover("server_accept_" + tag)
			h.out.Cover(fmt.Sprintf("server_accept_keytype_%d", h.w.Keys[res.pid].Typ))
		}
	}
	h.out.Cover("server_tag_" + tag)
	return res
}

// ---- client ------------------------------------------------------------------------
type cliSess struct {
	h     *hx
	key   uint64
	host  string
	c     *PeerIDAuthHandshakeClient
	steps [][]int64
	n     int
	last  []sym.Item
}

func (h *hx) newClient(key uint64, host string) *cliSess {
	return &cliSess{h: h, key: key, host: host,
		c: &PeerIDAuthHandshakeClient{Hostname: host, PrivKey: h.w.Keys[key].Priv}}
}

func (s *cliSess) abstractOut(hdr string, seen []sym.Item) ([]sym.OutTerm, bool) {
	return s.h.w.AbstractClientOut(hdr, s.key, s.h.w.Intern(s.host), seen)
}

// op: 0 SetInitiateChallenge, 1 ParseHeader, 2 Run
func (s *cliSess) step(op int, www, info string, items []sym.Item) (ok bool, hdr string) {
	h := s.h
	fresh := h.nextChallenge()
	var err error
	panicked := false
	func() {
		defer func() {
			if r := recover(); r != nil {
				panicked = true
				h.out.Cover("client_panic")
			}
		}()
		switch op {
		case 0:
			s.c.SetInitiateChallenge()
		case 1:
			hh := http.Header{}
			if www != "" {
				hh.Set("WWW-Authenticate", www)
			}
			if info != "" {
				hh.Set("Authentication-Info", info)
			}
			err = s.c.ParseHeader(hh)
		case 2:
			err = s.c.Run()
		}
	}()
	pid := int64(-1)
	if p, e := s.c.PeerID(); e == nil {
		if k, found := h.w.KeyOfID(p); found {
			pid = int64(k)
		} else {
			pid = -2
		}
	}
	if op == 1 {
		s.last = items
	}
	hdr = s.c.hb.b.String()
	out, understood := s.abstractOut(hdr, s.last)
	if !understood {
		h.out.Cover("client_output_not_understood")
	}
	b2i := func(b bool) int64 {
		if b {
			return 1
		}
		return 0
	}
	c := []int64{int64(op), int64(fresh)}
	c = sym.WireTable(c, valsOf(items))
	c = sym.WireBytes(c, []byte(www))
	c = sym.WireBytes(c, []byte(info))
	c = append(c, b2i(err == nil && !panicked && understood), int64(s.c.state), pid, b2i(s.c.ServerAuthenticated()), b2i(s.c.HandshakeDone()))
	c = sym.WireOHdr(c, out)
	s.steps = append(s.steps, c)
	s.n++
	h.out.Cover(fmt.Sprintf("client_op%d_state_%d_ok_%d", op, int(s.c.state), b2i(err == nil)))
	if pid >= 0 {
		h.out.Cover("client_reports_id")
		h.out.Cover(fmt.Sprintf("client_reports_keytype_%d", h.w.Keys[pid].Typ))
	}
	return err == nil, hdr
}

// flush writes the whole session as one kind-4 case.
func (s *cliSess) flush() {
	c := []int64{4, int64(s.key), int64(s.h.w.Intern(s.host)), int64(len(s.steps))}
	for _, st := range s.steps {
		c = append(c, st...)
	}
	s.h.out.Case(c)
}

// ---- end to end (the executor is registered by the external test file) -------------------
type VerifTransport struct{ NoTLS, HasFn, FnOK, HasTLS bool }

type VerifE2EResult struct {
	Err     error
	Status  int
	Called  bool
	Pid     peer.ID
	SeenHdr string
	SeenTLS bool
	SeenSNI string
	RespHdr string
	InstKey []byte // ServerPeerIDAuth.HmacKey after the request
}

var VerifE2EServer func(key crypto.PrivKey, keyNo uint64, inst string, mac []byte, ttl time.Duration,
	tr VerifTransport, host, sni, hdr string) VerifE2EResult
var VerifE2EClose func()

// e2eStep sends the request over HTTP to the real ServerPeerIDAuth and records a mode-1 case.
func (h *hx) e2eStep(cfg srvCfg, host string, now int64, hdr string, items []sym.Item, tag string) {
	if VerifE2EServer == nil {
		return
	}
	tr := VerifTransport{NoTLS: true, HasFn: true, FnOK: true}
	sni := host
	switch h.rnd.Intn(20) {
	case 0, 1, 2:
		tr = VerifTransport{HasTLS: true, HasFn: true, FnOK: true}
	case 3:
		tr = VerifTransport{HasTLS: true}
	case 4:
		tr = VerifTransport{NoTLS: true} // no ValidHostnameFn: 500
	case 5:
		tr = VerifTransport{NoTLS: true, HasFn: true} // hostname refused
	case 6:
		tr = VerifTransport{} // plain HTTP while TLS is required
	case 7:
		tr = VerifTransport{HasTLS: true, HasFn: true, FnOK: true}
		sni = "sni.example.net"
	case 8:
		tr = VerifTransport{HasTLS: true, HasFn: true} // hostname refused
	}
	fresh := h.nextChallenge()
	nowFn = func() time.Time { return h.w.Time(now) }
	hostID := h.w.Intern(host)
	res := VerifE2EServer(h.w.Keys[cfg.key].Priv, cfg.key, "", h.w.Macs[cfg.mac], cfg.ttl, tr, host, sni, hdr)
	if res.Err != nil {
		h.out.Cover("e2e_transport_error")
		return
	}
	h.emitE2E(cfg, host, hostID, now, fresh, tr, hdr, items, res)
}

func (h *hx) emitE2E(cfg srvCfg, host string, hostID uint64, now int64, fresh uint64, tr VerifTransport,
	hdr string, items []sym.Item, res VerifE2EResult) {
	pid := int64(-1)
	if res.Called {
		if k, ok := h.w.KeyOfID(res.Pid); ok {
			pid = int64(k)
		} else {
			pid = -2
		}
	}
	out, ok := h.w.AbstractServerOut(res.RespHdr, cfg.key, hostID, items)
	if !ok {
		h.out.Cover("e2e_output_not_understood")
		out = nil
		res.Status = -res.Status
	}
	b := func(x bool) int64 {
		if x {
			return 1
		}
		return 0
	}
	c := []int64{3, 1, int64(cfg.key), int64(cfg.mac), int64(cfg.ttl), int64(hostID), now, int64(fresh),
		b(tr.NoTLS), b(tr.HasFn), b(tr.FnOK), b(res.SeenTLS), b(res.SeenTLS && res.SeenSNI == host)}
	c = sym.WireTable(c, valsOf(items))
	c = sym.WireBytes(c, []byte(res.SeenHdr))
	c = append(c, int64(res.Status), pid)
	c = sym.WireOHdr(c, out)
	h.out.Case(c)
	h.out.Cover(fmt.Sprintf("e2e_status_%d", res.Status))
	if pid >= 0 {
		h.out.Cover("e2e_next_called")
		h.out.Cover(fmt.Sprintf("e2e_next_called_keytype_%d", h.w.Keys[pid].Typ))
	}
	if res.SeenHdr != hdr {
		h.out.Cover("e2e_header_changed_in_transit")
	}
	if res.SeenTLS {
		h.out.Cover("e2e_tls")
	}
}

var VerifE2EClient func(priv crypto.PrivKey, host string,
	respond func(reqHdr string) (status int, www, info string)) (peer.ID, error)

type VerifE2ERecord struct {
	ReqHdr  string
	Status  int
	Called  bool
	Pid     peer.ID
	RespHdr string
}

var VerifE2EPair func(serverKey crypto.PrivKey, mac []byte, ttl time.Duration, clientKey crypto.PrivKey,
	host string, phases int, before func(phase int, reqHdr string), after func(rec VerifE2ERecord)) ([]peer.ID, []error)

// e2ePair: three AuthenticatedDo calls of the real client against the real server
// over HTTP (fresh handshake; stored token; token expired -> server-initiated
// handshake).  Every request the server sees becomes a mode-1 case.
func (h *hx) e2ePair(cfg srvCfg, cli uint64, host string, t0 int64) {
	if VerifE2EPair == nil || cfg.ttl < time.Minute {
		return
	}
	hostID := h.w.Intern(host)
	nows := []int64{t0, t0 + 10*sec, t0 + int64(cfg.ttl) + 20*sec}
	var now int64
	var fresh uint64
	var lastResp []sym.Item
	before := func(phase int, reqHdr string) {
		now = nows[phase]
		nowFn = func() time.Time { return h.w.Time(now) }
		fresh = h.nextChallenge()
	}
	after := func(rec VerifE2ERecord) {
		// describe the request the real client sent
		if _, ok := h.w.AbstractClientOut(rec.ReqHdr, cli, hostID, lastResp); !ok {
			h.out.Cover("e2e_pair_request_not_understood")
		}
		items, _ := h.w.ItemsOfEmitted(rec.ReqHdr)
		pid := int64(-1)
		if rec.Called {
			if k, ok := h.w.KeyOfID(rec.Pid); ok {
				pid = int64(k)
			} else {
				pid = -2
			}
		}
		out, ok := h.w.AbstractServerOut(rec.RespHdr, cfg.key, hostID, items)
		if !ok {
			h.out.Cover("e2e_output_not_understood")
			rec.Status = -rec.Status
		}
		c := []int64{3, 1, int64(cfg.key), int64(cfg.mac), int64(cfg.ttl), int64(hostID), now, int64(fresh), 1, 1, 1, 0, 0}
		c = sym.WireTable(c, valsOf(items))
		c = sym.WireBytes(c, []byte(rec.ReqHdr))
		c = append(c, int64(rec.Status), pid)
		c = sym.WireOHdr(c, out)
		h.out.Case(c)
		h.out.Cover(fmt.Sprintf("e2e_pair_status_%d", rec.Status))
		lastResp, _ = h.w.ItemsOfEmitted(rec.RespHdr)
		h.nextChallenge() // a fresh block for the client's next draw
	}
	ids, errs := VerifE2EPair(h.w.Keys[cfg.key].Priv, h.w.Macs[cfg.mac], cfg.ttl, h.w.Keys[cli].Priv, host, 3, before, after)
	for i := range ids {
		if errs[i] != nil {
			h.t.Fatalf("real client against real server, call %d: %v", i, errs[i])
		}
		if ids[i] != h.w.Keys[cfg.key].ID {
			h.t.Fatalf("real client against real server, call %d: reported %s, server is %s", i, ids[i], h.w.Keys[cfg.key].ID)
		}
		h.out.Cover(fmt.Sprintf("e2e_pair_call_%d_reports_the_server", i))
	}
}

var VerifE2EClientSession func(priv crypto.PrivKey, host string, ncalls int,
	beforeCall func(call int), respond func(call int, reqHdr string) (status int, www, info string)) ([]peer.ID, []error)

// one request of a history across hostnames: the server (URL) it goes to and its
// req.Host ("" = a hand-built request without Host; the transport then sends the URL's host)
type VerifHostReq struct {
	Srv  int
	Host string
}

var VerifE2EClientHosts func(priv crypto.PrivKey, nsrv int, plan func(urlHosts []string) []VerifHostReq,
	beforeCall func(call int), respond func(call, srv int, seenHost, reqHdr string) (status int, www, info string)) ([]peer.ID, []error)

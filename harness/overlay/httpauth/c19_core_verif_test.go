//go:build verif

package handshake

// C19 correspondence harness, handshake level: drives the real
// PeerIDAuthHandshakeServer / PeerIDAuthHandshakeClient (nowFn and randReader
// set as the package's own tests do) on headers whose symbolic description the
// harness knows, and records description + answers (format: coq/c19/Spec.v).

import (
	"bytes"
	"crypto/hmac"
	"crypto/sha256"
	"encoding/base64"
	"errors"
	"fmt"
	"net/http"
	"testing"
	"time"

	"github.com/libp2p/go-libp2p/internal/verifh"
	sym "github.com/libp2p/go-libp2p/p2p/http/auth/internal/verifc19"
)

func TestVerifNothing(t *testing.T) {}

type srvCfg struct {
	key, mac uint64
	ttl      time.Duration
}

type hx struct {
	t    *testing.T
	w    *sym.World
	out  *verifh.Out
	rnd  *verifh.Rand
	chal uint64
}

// nextChallenge arms randReader with 32 fresh bytes (followed by a marker
// stream, so a second draw in the same call would be noticed as an unknown
// challenge) and returns the atom of the challenge string they encode to.
func (h *hx) nextChallenge() uint64 {
	h.chal++
	var b [32]byte
	s := sha256.Sum256([]byte(fmt.Sprintf("challenge-%d-%d", verifh.Seed(), h.chal)))
	copy(b[:], s[:])
	randReader = bytes.NewReader(append(b[:], bytes.Repeat([]byte{0xEE}, 64)...))
	return h.w.Intern(sym.B64(b[:]))
}

func valsOf(items []sym.Item) []sym.PVal {
	var vs []sym.PVal
	for _, it := range items {
		if it.Name != "" {
			vs = append(vs, it.Val)
		}
	}
	return vs
}

// sigCandidates: what an emitted signature may be over, given the values of the
// incoming header.
func (h *hx) serverSigCands(key uint64, host uint64, items []sym.Item) []sym.SigCand {
	var chals, cpks []sym.Term
	chals = append(chals, sym.Empty())
	for _, it := range items {
		if it.Name == "challenge-server" {
			chals = append(chals, h.w.RawTerm(it.Val.Raw))
		}
		if it.Val.Dec != nil {
			cpks = append(cpks, *it.Val.Dec)
			if it.Val.Dec.Tag == sym.TPair {
				if s, ok := sym.DecState(*it.Val.Dec.M); ok && s.Cpk != nil {
					cpks = append(cpks, *s.Cpk)
				}
			}
		}
	}
	var cs []sym.SigCand
	for _, c := range chals {
		for _, p := range cpks {
			cs = append(cs, sym.SigCand{Key: key, Msg: sym.MsgServer(c, p, sym.Atom(host))})
		}
	}
	return cs
}

func (h *hx) abstractServerOut(hdr string, key, host uint64, items []sym.Item) ([]sym.OutTerm, bool) {
	ps, ok := sym.SplitEmitted(hdr)
	if !ok {
		return nil, false
	}
	var out []sym.OutTerm
	for _, p := range ps {
		var t sym.Term
		switch sym.ParamNames[p.Name] {
		case "challenge-client", "challenge-server":
			t = h.w.RawTerm(p.Raw)
		case "public-key":
			pv := h.w.PVRaw(p.Raw)
			if pv.Dec == nil {
				return nil, false
			}
			t = *pv.Dec
		case "sig":
			b, err := base64.URLEncoding.DecodeString(p.Raw)
			if err != nil {
				return nil, false
			}
			t = h.w.AbstractSig(b, h.serverSigCands(key, host, items))
		default: // opaque, bearer
			b, err := base64.URLEncoding.DecodeString(p.Raw)
			if err != nil {
				return nil, false
			}
			t = h.w.AbstractBlob(b)
		}
		out = append(out, sym.OutTerm{Name: p.Name, T: t})
	}
	return out, true
}

type srvRes struct {
	cls, state int
	pid        int64
	hdrName    string
	hdr        string
	out        []sym.OutTerm
}

// serverStep runs one request on a fresh real handshake server and records the case.
func (h *hx) serverStep(cfg srvCfg, host string, now int64, hdr string, items []sym.Item, tag string) (res srvRes) {
	fresh := h.nextChallenge()
	nowFn = func() time.Time { return h.w.Time(now) }
	hostID := h.w.Intern(host)
	srv := PeerIDAuthHandshakeServer{
		Hostname: host,
		PrivKey:  h.w.Keys[cfg.key].Priv,
		TokenTTL: cfg.ttl,
		Hmac:     hmac.New(sha256.New, h.w.Macs[cfg.mac]),
	}
	res.pid = -1
	func() {
		defer func() {
			if r := recover(); r != nil {
				res.cls = 9
				h.out.Cover("server_panic")
			}
		}()
		if err := srv.ParseHeaderVal([]byte(hdr)); err != nil {
			res.cls = 1
			return
		}
		err := srv.Run()
		switch {
		case err == nil:
		case errors.Is(err, ErrInvalidHMAC):
			res.cls = 2
		case errors.Is(err, ErrExpiredChallenge):
			res.cls = 3
		case errors.Is(err, ErrExpiredToken):
			res.cls = 4
		default:
			res.cls = 5
		}
		if res.cls != 0 {
			return
		}
		res.state = int(srv.state)
		if p, err := srv.PeerID(); err == nil {
			if k, ok := h.w.KeyOfID(p); ok {
				res.pid = int64(k)
			} else {
				res.pid = -2
			}
		}
		hh := http.Header{}
		srv.SetHeader(hh)
		for _, n := range []string{"WWW-Authenticate", "Authentication-Info"} {
			if v := hh.Get(n); v != "" {
				res.hdrName, res.hdr = n, v
			}
		}
		out, ok := h.abstractServerOut(res.hdr, cfg.key, hostID, items)
		if !ok {
			res.cls = 8
			h.out.Cover("server_output_not_understood")
		}
		res.out = out
	}()
	c := []int64{3, 0, int64(cfg.key), int64(cfg.mac), int64(cfg.ttl), int64(hostID), now, int64(fresh), 0, 0, 0, 0, 0}
	c = sym.WireTable(c, valsOf(items))
	c = sym.WireBytes(c, []byte(hdr))
	c = append(c, int64(res.cls), int64(res.state), res.pid)
	c = sym.WireOHdr(c, res.out)
	h.out.Case(c)
	h.out.Cover("server_cls_" + fmt.Sprint(res.cls))
	if res.cls == 0 {
		h.out.Cover("server_state_" + fmt.Sprint(res.state))
		if res.pid >= 0 {
			h.out.Cover("server_accept_" + tag)
			h.out.Cover(fmt.Sprintf("server_accept_keytype_%d", h.w.Keys[res.pid].Typ))
		}
	}
	h.out.Cover("server_tag_" + tag)
	return res
}

// ---- client ------------------------------------------------------------------------
type cliSess struct {
	h     *hx
	key   uint64
	host  string
	c     *PeerIDAuthHandshakeClient
	steps [][]int64
	n     int
	last  []sym.Item
}

func (h *hx) newClient(key uint64, host string) *cliSess {
	return &cliSess{h: h, key: key, host: host,
		c: &PeerIDAuthHandshakeClient{Hostname: host, PrivKey: h.w.Keys[key].Priv}}
}

func (s *cliSess) abstractOut(hdr string, seen []sym.Item) ([]sym.OutTerm, bool) {
	h := s.h
	ps, ok := sym.SplitEmitted(hdr)
	if !ok {
		return nil, false
	}
	var out []sym.OutTerm
	for _, p := range ps {
		var t sym.Term
		switch sym.ParamNames[p.Name] {
		case "public-key":
			pv := h.w.PVRaw(p.Raw)
			if pv.Dec == nil {
				return nil, false
			}
			t = *pv.Dec
		case "sig":
			b, err := base64.URLEncoding.DecodeString(p.Raw)
			if err != nil {
				return nil, false
			}
			chals := []sym.Term{sym.Empty()}
			for _, it := range seen {
				if it.Name == "challenge-client" {
					chals = append(chals, h.w.RawTerm(it.Val.Raw))
				}
			}
			var cs []sym.SigCand
			for _, c := range chals {
				for k := range h.w.Keys {
					cs = append(cs, sym.SigCand{Key: s.key, Msg: sym.MsgClient(c, sym.Pub(uint64(k)), sym.Atom(h.w.Intern(s.host)))})
				}
			}
			t = h.w.AbstractSig(b, cs)
		default: // challenge-server (own), opaque / bearer (echoed raw)
			t = h.w.RawTerm(p.Raw)
		}
		out = append(out, sym.OutTerm{Name: p.Name, T: t})
	}
	return out, true
}

// op: 0 SetInitiateChallenge, 1 ParseHeader, 2 Run
func (s *cliSess) step(op int, www, info string, items []sym.Item) (ok bool, hdr string) {
	h := s.h
	fresh := h.nextChallenge()
	var err error
	panicked := false
	func() {
		defer func() {
			if r := recover(); r != nil {
				panicked = true
				h.out.Cover("client_panic")
			}
		}()
		switch op {
		case 0:
			s.c.SetInitiateChallenge()
		case 1:
			hh := http.Header{}
			if www != "" {
				hh.Set("WWW-Authenticate", www)
			}
			if info != "" {
				hh.Set("Authentication-Info", info)
			}
			err = s.c.ParseHeader(hh)
		case 2:
			err = s.c.Run()
		}
	}()
	pid := int64(-1)
	if p, e := s.c.PeerID(); e == nil {
		if k, found := h.w.KeyOfID(p); found {
			pid = int64(k)
		} else {
			pid = -2
		}
	}
	if op == 1 {
		s.last = items
	}
	hdr = s.c.hb.b.String()
	out, understood := s.abstractOut(hdr, s.last)
	if !understood {
		h.out.Cover("client_output_not_understood")
	}
	b2i := func(b bool) int64 {
		if b {
			return 1
		}
		return 0
	}
	c := []int64{int64(op), int64(fresh)}
	c = sym.WireTable(c, valsOf(items))
	c = sym.WireBytes(c, []byte(www))
	c = sym.WireBytes(c, []byte(info))
	c = append(c, b2i(err == nil && !panicked && understood), int64(s.c.state), pid, b2i(s.c.ServerAuthenticated()), b2i(s.c.HandshakeDone()))
	c = sym.WireOHdr(c, out)
	s.steps = append(s.steps, c)
	s.n++
	h.out.Cover(fmt.Sprintf("client_op%d_state_%d_ok_%d", op, int(s.c.state), b2i(err == nil)))
	if pid >= 0 {
		h.out.Cover("client_reports_id")
		h.out.Cover(fmt.Sprintf("client_reports_keytype_%d", h.w.Keys[pid].Typ))
	}
	return err == nil, hdr
}

// flush writes the whole session as one kind-4 case.
func (s *cliSess) flush() {
	c := []int64{4, int64(s.key), int64(s.h.w.Intern(s.host)), int64(len(s.steps))}
	for _, st := range s.steps {
		c = append(c, st...)
	}
	s.h.out.Case(c)
}

//go:build verif

package handshake

import (
	"fmt"
	"os"
	"strings"
	"testing"
	"time"

	"github.com/libp2p/go-libp2p/internal/verifh"
	sym "github.com/libp2p/go-libp2p/p2p/http/auth/internal/verifc19"
)

// sess is the material of one valid handshake run by the real client and server.
type sess struct {
	srv   srvCfg
	cli   uint64
	host  string
	t0    int64
	flow  int                   // 0 server-initiated, 1 client-initiated
	stage map[string][]sym.Item // requests and responses by name
	tTok  int64                 // when the token was minted
}

func (h *hx) itemsOf(hdr string) []sym.Item {
	ps, ok := sym.SplitEmitted(hdr)
	if !ok {
		h.t.Fatalf("emitted header not understood: %q", hdr)
	}
	var items []sym.Item
	for _, p := range ps {
		items = append(items, sym.Item{Name: sym.ParamNames[p.Name], Val: h.w.PVRaw(p.Raw)})
	}
	return items
}

func stdHeader(items []sym.Item) string {
	if len(items) == 0 {
		return ""
	}
	return sym.BuildHeader(sym.Scheme+" ", items, ", ")
}

const sec = int64(time.Second)

// honest runs one complete handshake with the real code on both sides; every
// step is recorded as a case too.
func (h *hx) honest(flow int, srv srvCfg, cli uint64, host string, t0 int64) *sess {
	s := &sess{srv: srv, cli: cli, host: host, t0: t0, flow: flow, stage: map[string][]sym.Item{}}
	cs := h.newClient(cli, host)
	must := func(ok bool, what string) {
		if !ok {
			h.t.Fatalf("valid handshake (flow %d, server key %d, client key %d) failed at %s", flow, srv.key, cli, what)
		}
	}
	if flow == 0 {
		r1 := h.serverStep(srv, host, t0, "", nil, "valid")
		must(r1.cls == 0 && r1.state == 0, "challenge")
		s.stage["s1"] = h.itemsOf(r1.hdr)
		ok, _ := cs.step(1, r1.hdr, "", s.stage["s1"])
		must(ok, "client parse 1")
		ok, h2 := cs.step(2, "", "", nil)
		must(ok, "client run 1")
		s.stage["c2"] = h.itemsOf(h2)
		s.tTok = t0 + sec
		r3 := h.serverStep(srv, host, s.tTok, h2, s.stage["c2"], "valid")
		must(r3.cls == 0 && r3.pid == int64(cli), "verify")
		s.stage["s3"] = h.itemsOf(r3.hdr)
		ok, _ = cs.step(1, "", r3.hdr, s.stage["s3"])
		must(ok, "client parse 2")
		ok, h4 := cs.step(2, "", "", nil)
		must(ok, "client run 2")
		s.stage["c4"] = h.itemsOf(h4)
		r5 := h.serverStep(srv, host, s.tTok+sec, h4, s.stage["c4"], "valid")
		must(r5.cls == 0 && r5.pid == int64(cli) || srv.ttl < time.Second, "bearer")
	} else {
		cs.step(0, "", "", nil)
		ok, h1 := cs.step(2, "", "", nil)
		must(ok, "client initiate")
		s.stage["c1"] = h.itemsOf(h1)
		r2 := h.serverStep(srv, host, t0, h1, s.stage["c1"], "valid")
		must(r2.cls == 0 && r2.state == 3, "sign challenge")
		s.stage["s2"] = h.itemsOf(r2.hdr)
		ok, _ = cs.step(1, r2.hdr, "", s.stage["s2"])
		must(ok, "client parse 1")
		ok, h3 := cs.step(2, "", "", nil)
		must(ok, "client verify+sign")
		s.stage["c2"] = h.itemsOf(h3)
		s.tTok = t0 + sec
		r4 := h.serverStep(srv, host, s.tTok, h3, s.stage["c2"], "valid")
		must(r4.cls == 0 && r4.pid == int64(cli), "verify")
		s.stage["s3"] = h.itemsOf(r4.hdr)
		ok, _ = cs.step(1, "", r4.hdr, s.stage["s3"])
		must(ok, "client parse 2")
		ok, h5 := cs.step(2, "", "", nil)
		must(ok, "client run 3")
		s.stage["c4"] = h.itemsOf(h5)
		r6 := h.serverStep(srv, host, s.tTok+sec, h5, s.stage["c4"], "valid")
		must(r6.cls == 0 && r6.pid == int64(cli) || srv.ttl < time.Second, "bearer")
	}
	// a few more calls after the end: nothing may change
	cs.step(2, "", "", nil)
	cs.step(1, "", "", nil)
	cs.flush()
	h.out.Cover(fmt.Sprintf("valid_handshake_flow_%d", flow))
	return s
}

// ---- item list editing -------------------------------------------------------------
func get(items []sym.Item, name string) (sym.PVal, bool) {
	for _, it := range items {
		if it.Name == name {
			return it.Val, true
		}
	}
	return sym.PVal{}, false
}

func without(items []sym.Item, name string) []sym.Item {
	var r []sym.Item
	for _, it := range items {
		if it.Name != name {
			r = append(r, it)
		}
	}
	return r
}

func with(items []sym.Item, name string, v sym.PVal) []sym.Item {
	r := make([]sym.Item, 0, len(items)+1)
	done := false
	for _, it := range items {
		if it.Name == name {
			it.Val = v
			done = true
		}
		r = append(r, it)
	}
	if !done {
		r = append(r, sym.Item{Name: name, Val: v})
	}
	return r
}

func dupFront(items []sym.Item, name string, v sym.PVal) []sym.Item {
	return append([]sym.Item{{Name: name, Val: v}}, items...)
}

func dupBack(items []sym.Item, name string, v sym.PVal) []sym.Item {
	return append(append([]sym.Item{}, items...), sym.Item{Name: name, Val: v})
}

// req is one request to try.
type req struct {
	srv   srvCfg
	host  string
	now   int64
	items []sym.Item
	hdr   string // "" = standard formatting of items
	tag   string
}

func (h *hx) try(r req) srvRes {
	hdr := r.hdr
	if hdr == "" {
		hdr = stdHeader(r.items)
	}
	res := h.serverStep(r.srv, r.host, r.now, hdr, r.items, r.tag)
	h.e2eStep(r.srv, r.host, r.now, hdr, r.items, r.tag)
	return res
}

func (h *hx) pv(t sym.Term) sym.PVal {
	v, err := h.w.PV(t)
	if err != nil {
		h.t.Fatalf("cannot build value: %v", err)
	}
	return v
}

// blobParts opens a blob value symbolically.
func blobParts(v sym.PVal) (tag, fields sym.Term, st sym.OState, ok bool) {
	if v.Dec == nil || v.Dec.Tag != sym.TPair {
		return
	}
	tag, fields = *v.Dec.A, *v.Dec.M
	st, ok = sym.DecState(fields)
	return
}

func (h *hx) blob(mac uint64, st sym.OState) sym.PVal {
	f := sym.EncState(st)
	return h.pv(sym.Pair(sym.Mac(mac, f), f))
}

// reencodings of a raw base64 value
func reencode(raw string, k int) string {
	switch k {
	case 0:
		return strings.TrimRight(raw, "=") // unpadded
	case 1:
		return strings.NewReplacer("-", "+", "_", "/").Replace(raw) // standard alphabet
	case 2:
		return raw + "="
	case 3:
		return raw + "AAAA"
	case 4:
		if len(raw) > 4 {
			return raw[:len(raw)-4]
		}
		return ""
	case 5:
		return " " + raw
	default:
		return strings.ToLower(raw)
	}
}

func envInt(name string, def int) int {
	if v := os.Getenv(name); v != "" {
		var n int
		if _, err := fmt.Sscan(v, &n); err == nil {
			return n
		}
	}
	return def
}

func TestVerifC19HS(t *testing.T) {
	out, err := verifh.Open()
	if err != nil {
		t.Fatal(err)
	}
	defer out.Close()
	origRand, origNow := randReader, nowFn
	defer func() { randReader, nowFn = origRand, origNow }()
	rnd := verifh.NewRand(verifh.Seed())
	w, err := sym.NewWorld(verifh.Seed(), 2, 3)
	if err != nil {
		t.Fatal(err)
	}
	h := &hx{t: t, w: w, out: out, rnd: rnd}
	rounds := 4
	if verifh.Tier() == "thorough" {
		rounds = 72
	}
	rounds = envInt("VERIF_C19_ROUNDS", rounds)
	h.bytesLevel(rounds)
	for r := 0; r < rounds; r++ {
		h.round(r)
	}
	if VerifE2EClose != nil {
		VerifE2EClose()
	}
	for typ, n := range w.Malleable {
		out.CoverN(fmt.Sprintf("altered_signature_bytes_still_verify_keytype_%d", typ), int64(n))
	}
}

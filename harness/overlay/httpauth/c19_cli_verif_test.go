//go:build verif

package handshake

import (
	"fmt"
	"strings"

	sym "github.com/libp2p/go-libp2p/p2p/http/auth/internal/verifc19"
)

// clientScenarios: the real client against scripted (adversarial) responses.
// The harness plays the server symbolically: it knows every value it sends.
func (h *hx) clientScenarios(round int, A, B srvCfg, c0, c1 uint64) {
	n := 60
	for i := 0; i < n; i++ {
		h.clientScenario(i, A, B, c0, c1)
	}
	for i := 0; i < n; i++ {
		h.e2eClientScenario(A, B, c0, c1)
	}
}

// sigVariant builds the "sig" value a response carries.
// own: the client's current challenge, older: an earlier challenge of the same
// session (or of another one), ck: the client's key, host: its hostname.
func (h *hx) sigVariant(v int, sk, sk2, ck, ck2 uint64, own, older sym.Term, host string) (sym.PVal, string) {
	hostT := sym.Atom(h.w.Intern(host))
	otherHost := sym.Atom(h.w.Intern(hostnames[1]))
	if host == hostnames[1] {
		otherHost = sym.Atom(h.w.Intern(hostnames[0]))
	}
	good := sym.MsgServer(own, sym.Pub(ck), hostT)
	switch v {
	case 0, 1, 2, 3:
		return h.pv(sym.Sig(sk, good, 0)), "valid"
	case 4:
		return h.pv(sym.Sig(sk2, good, 0)), "other_key"
	case 5:
		return h.pv(sym.Sig(sk, sym.MsgServer(older, sym.Pub(ck), hostT), 0)), "older_challenge"
	case 6:
		return h.pv(sym.Sig(sk, sym.MsgServer(own, sym.Pub(ck2), hostT), 0)), "other_client_key"
	case 7:
		return h.pv(sym.Sig(sk, sym.MsgServer(own, sym.Pub(ck), otherHost), 0)), "other_hostname"
	case 8:
		return h.pv(sym.Sig(sk, sym.MsgClient(own, sym.Pub(ck), hostT), 0)), "client_domain"
	case 9:
		return h.pv(sym.Sig(sk, sym.MsgOther(3+uint64(h.rnd.Intn(5)), own, sym.Pub(ck), hostT), 0)), "other_shape"
	case 10:
		return h.pv(h.w.NewGarbage()), "garbage"
	case 11:
		return h.w.PVRaw("!!not-base64!!"), "bad_base64"
	case 12:
		return h.w.PVRaw(""), "empty"
	case 13:
		// the client's own signature reflected
		return h.pv(sym.Sig(ck, good, 0)), "by_the_client_itself"
	default:
		return h.pv(sym.Sig(sk, sym.MsgServer(sym.Empty(), sym.Pub(ck), hostT), 0)), "empty_challenge"
	}
}

func (h *hx) keyVariant(v int, sk, sk2 uint64) ([]sym.Item, string) {
	switch v {
	case 0, 1, 2, 3, 4:
		return []sym.Item{{Name: "public-key", Val: h.pv(sym.Pub(sk))}}, "key"
	case 5:
		return []sym.Item{{Name: "public-key", Val: h.pv(sym.Pub(sk2))}}, "other_key"
	case 6:
		return nil, "no_key"
	case 7:
		return []sym.Item{{Name: "public-key", Val: h.pv(h.w.NewGarbage())}}, "garbage_key"
	case 8:
		return []sym.Item{{Name: "public-key", Val: h.w.PVRaw("")}}, "empty_key"
	case 9:
		return []sym.Item{{Name: "public-key", Val: h.pv(sym.Pub(sk2))}, {Name: "public-key", Val: h.pv(sym.Pub(sk))}}, "two_keys"
	default:
		return []sym.Item{{Name: "public-key", Val: h.w.PVRaw("@@")}}, "bad_base64_key"
	}
}

func (h *hx) clientScenario(i int, A, B srvCfg, c0, c1 uint64) {
	r := h.rnd
	host := hostnames[r.Intn(2)]
	ck, ck2 := c0, c1
	if r.Bool() {
		ck, ck2 = c1, c0
	}
	sk, sk2 := A.key, B.key
	cs := h.newClient(ck, host)
	flow := r.Intn(2)
	chalC := func() []sym.Item {
		switch r.Intn(8) {
		case 0:
			return nil
		case 1:
			return []sym.Item{{Name: "challenge-client", Val: h.w.PVRaw("short")}}
		case 2:
			return []sym.Item{{Name: "challenge-client", Val: h.w.PVRaw("")}}
		default:
			return []sym.Item{{Name: "challenge-client", Val: h.w.PVRaw(h.w.AtomString(h.nextChallenge()))}}
		}
	}
	opaque := func() []sym.Item {
		if r.Chance(1, 5) {
			return nil
		}
		return []sym.Item{{Name: "opaque", Val: h.pv(h.w.NewGarbage())}}
	}
	bearer := func() []sym.Item {
		if r.Chance(1, 5) {
			return nil
		}
		return []sym.Item{{Name: "bearer", Val: h.pv(h.w.NewGarbage())}}
	}
	var own, older sym.Term = sym.Empty(), sym.Atom(h.nextChallenge())
	cat := func(ls ...[]sym.Item) []sym.Item {
		var o []sym.Item
		for _, l := range ls {
			o = append(o, l...)
		}
		if r.Chance(1, 6) && len(o) > 1 {
			o[0], o[len(o)-1] = o[len(o)-1], o[0]
		}
		return o
	}
	// send delivers a response; wrong = put it under the other header name
	send := func(items []sym.Item, inInfo bool, tag string) {
		hdr := stdHeader(items)
		switch r.Intn(12) {
		case 0:
			hdr = sym.BuildHeader(sym.Scheme+" ", items, ",")
		case 1:
			hdr = sym.BuildHeader("Basic x, "+sym.Scheme+" ", items, ", ")
		case 2:
			hdr = hdr + ", "
			tag += "|trailing_separator"
		}
		www, info := hdr, ""
		if inInfo {
			www, info = "", hdr
		}
		if r.Chance(1, 10) {
			www, info = info, www
			tag += "|wrong_header_name"
		}
		if r.Chance(1, 15) {
			www, info = hdr, hdr
		}
		cs.step(1, www, info, items)
		for _, part := range strings.Split(tag, "|") {
			h.out.Cover("client_response_" + part)
		}
	}
	run := func() (bool, uint64) {
		ok, hdr := cs.step(2, "", "", nil)
		// remember the challenge the client drew, if it emitted one
		if ps, good := sym.SplitEmitted(hdr); good {
			for _, p := range ps {
				if sym.ParamNames[p.Name] == "challenge-server" {
					id := h.w.Intern(p.Raw)
					if !(own.IsAtom() && own.B[0] == id) {
						if own.IsAtom() {
							older = own
						}
						own = sym.Atom(id)
					}
				}
			}
		}
		return ok, 0
	}
	if flow == 1 {
		cs.step(0, "", "", nil)
		run()
		// the server's answer: challenge-client, public-key, sig, opaque — or a refusal (no sig)
		kv, kt := h.keyVariant(r.Intn(11), sk, sk2)
		var sg []sym.Item
		st := "refusal"
		if !r.Chance(1, 5) {
			v, t := h.sigVariant(r.Intn(15), sk, sk2, ck, ck2, own, older, host)
			sg, st = []sym.Item{{Name: "sig", Val: v}}, t
		}
		send(cat(chalC(), kv, sg, opaque()), false, "first_"+kt+"|first_sig_"+st)
		run()
	} else {
		kv, kt := h.keyVariant(r.Intn(11), sk, sk2)
		send(cat(chalC(), kv, opaque()), false, "first_"+kt)
		run()
	}
	// second response: sig + bearer (server-initiated or fallback), or bearer only
	for k := 0; k < 2; k++ {
		var sg []sym.Item
		st := "nosig"
		if !r.Chance(1, 6) {
			v, t := h.sigVariant(r.Intn(15), sk, sk2, ck, ck2, own, older, host)
			sg, st = []sym.Item{{Name: "sig", Val: v}}, t
		}
		var kv []sym.Item
		if r.Chance(1, 4) {
			kv, _ = h.keyVariant(r.Intn(11), sk, sk2)
		}
		send(cat(sg, bearer(), kv), true, "final_sig_"+st)
		run()
		if r.Chance(1, 2) {
			break
		}
	}
	if r.Chance(1, 3) {
		cs.step(0, "", "", nil) // SetInitiateChallenge late
		run()
	}
	cs.flush()
	h.out.Cover(fmt.Sprintf("client_scenario_flow_%d", flow))
	_ = strings.Repeat
}

//go:build verif

package handshake

import (
	"fmt"
	"strings"

	sym "github.com/libp2p/go-libp2p/p2p/http/auth/internal/verifc19"
)

// what the scripted server that receives the request does during one call
type hostPolicy struct {
	callPolicy
	signEmpty bool // its signature is over the empty hostname, not over the Host it received
	plain     bool // a server that knows nothing of the scheme: 200, no header, whatever it is sent
}

// one call of a history across hostnames
type hostCall struct {
	srv  int    // the server (URL) the request goes to
	host string // req.Host: "" = hand-built request without Host, "@" = the URL's own host,
	// "@k" = the URL host of server k, anything else = that name
	pol hostPolicy
}

// hostHistory: ONE ClientPeerIDAuth, several AuthenticatedDo calls whose requests name
// different hostnames (Host set / Host empty + URL.Host / both) and go to different
// servers; one kind-8 case.
func (h *hx) hostHistory(ck uint64, nsrv int, calls []hostCall, tag string) {
	if VerifE2EClientHosts == nil {
		return
	}
	h.w.Concrete(sym.Empty()) // the empty byte string stays the empty term
	eID := h.w.Intern("")
	type served struct {
		status    int
		items     []sym.Item
		www, info string
	}
	type callRec struct {
		rhost, uhost uint64
		fresh        []uint64
		resps        []served
		reqs         [][]sym.OutTerm
	}
	recs := make([]*callRec, len(calls))
	var lastItems []sym.Item
	var startBlock uint64
	var issuedAt = map[string]int{} // bearer value -> server that handed it out
	n := 0
	plan := func(urlHosts []string) []VerifHostReq {
		var reqs []VerifHostReq
		for i, c := range calls {
			rec := &callRec{uhost: h.w.Intern(urlHosts[c.srv])}
			host := c.host
			switch {
			case host == "":
				rec.rhost = eID
			case host == "@":
				host = urlHosts[c.srv]
				rec.rhost = h.w.Intern(host)
			case strings.HasPrefix(host, "@"):
				k := int(host[1]-'0') % len(urlHosts)
				host = urlHosts[k]
				rec.rhost = h.w.Intern(host)
			default:
				rec.rhost = h.w.Intern(host)
			}
			recs[i] = rec
			reqs = append(reqs, VerifHostReq{Srv: c.srv, Host: host})
		}
		return reqs
	}
	beforeCall := func(call int) {
		n = 0
		startBlock = h.nextChallenge()
	}
	respond := func(call, srv int, seenHost, reqHdr string) (int, string, string) {
		rec, p := recs[call], calls[call].pol
		n++
		if srv != calls[call].srv {
			h.t.Fatalf("history across hostnames: call %d reached server %d, planned %d", call, srv, calls[call].srv)
		}
		out, ok := h.w.AbstractClientOutHosts(reqHdr, ck, []uint64{rec.rhost, rec.uhost, eID}, lastItems)
		if !ok {
			h.out.Cover("hosts_request_not_understood")
		}
		rec.reqs = append(rec.reqs, out)
		var chalS *sym.Term
		hasSig, hasBearer := false, false
		for _, o := range out {
			switch o.Name {
			case 2:
				t := o.T
				chalS = &t
			case 5:
				hasSig = true
			case 0:
				hasBearer = true
			}
		}
		if hasBearer {
			if from, ok := issuedAt[reqHdr]; ok && from != srv {
				h.out.Cover("hosts_token_of_one_server_presented_to_another")
			}
		}
		if n == 1 && chalS != nil {
			rec.fresh = append(rec.fresh, startBlock) // the first Run happened before this request
		}
		hostT := sym.Atom(h.w.Intern(seenHost)) // an honest server signs for the Host it was sent
		if p.signEmpty {
			hostT = sym.Atom(eID)
		}
		sig := func() sym.Item {
			c := sym.Empty()
			if chalS != nil {
				c = *chalS
			}
			if p.badSig {
				return sym.Item{Name: "sig", Val: h.pv(sym.Sig(p.key, sym.MsgServer(sym.Atom(h.nextChallenge()), sym.Pub(ck), hostT), 0))}
			}
			return sym.Item{Name: "sig", Val: h.pv(sym.Sig(p.key, sym.MsgServer(c, sym.Pub(ck), hostT), 0))}
		}
		pk := sym.Item{Name: "public-key", Val: h.pv(sym.Pub(p.key))}
		chalC := sym.Item{Name: "challenge-client", Val: h.w.PVRaw(h.w.AtomString(h.nextChallenge()))}
		opq := sym.Item{Name: "opaque", Val: h.pv(h.w.NewGarbage())}
		bearer := sym.Item{Name: "bearer", Val: h.pv(h.w.NewGarbage())}
		var items []sym.Item
		status, inInfo := 401, false
		switch {
		case p.plain:
			status = 200
		case hasSig && chalS != nil: // server-initiated: the client signed and challenges us
			items, status, inInfo = []sym.Item{sig(), bearer}, 200, true
		case hasSig: // client-initiated, second request
			items, status, inInfo = []sym.Item{bearer}, 200, true
		case chalS != nil: // client-initiated, first request
			items = []sym.Item{chalC, pk, sig(), opq}
		case hasBearer && p.acceptToken:
			status = p.tokenStatus
		default: // a token we do not accept, or nothing: challenge the client
			items = []sym.Item{chalC, pk, opq}
		}
		hdr := ""
		if !p.plain {
			hdr = stdHeader(items)
		}
		if inInfo {
			issuedAt[PeerIDAuthScheme+" bearer=\""+bearer.Val.Raw+"\""] = srv
		}
		www, info := hdr, ""
		if inInfo {
			www, info = "", hdr
		}
		rec.resps = append(rec.resps, served{status, items, www, info})
		lastItems = items
		rec.fresh = append(rec.fresh, h.nextChallenge()) // armed for the Run after this response
		return status, www, info
	}
	ids, errs := VerifE2EClientHosts(h.w.Keys[ck].Priv, nsrv, plan, beforeCall, respond)
	c := []int64{8, int64(ck), int64(eID), int64(len(calls))}
	for i, rec := range recs {
		pid := int64(-1)
		if errs[i] == nil {
			if k, ok := h.w.KeyOfID(ids[i]); ok {
				pid = int64(k)
			} else {
				pid = -2
			}
		}
		if len(rec.reqs) == 0 {
			rec.fresh = append(rec.fresh, startBlock)
		}
		c = append(c, int64(rec.rhost), int64(rec.uhost), int64(len(rec.fresh)))
		for _, f := range rec.fresh {
			c = append(c, int64(f))
		}
		c = append(c, int64(len(rec.resps)))
		for _, s := range rec.resps {
			c = append(c, int64(s.status))
			c = sym.WireTable(c, valsOf(s.items))
			c = sym.WireBytes(c, []byte(s.www))
			c = sym.WireBytes(c, []byte(s.info))
		}
		c = append(c, pid, int64(len(rec.reqs)))
		for _, q := range rec.reqs {
			c = sym.WireOHdr(c, q)
		}
		kind := "host_set"
		if rec.rhost == eID {
			kind = "host_empty"
		} else if rec.rhost == rec.uhost {
			kind = "host_is_url_host"
		}
		if pid >= 0 {
			h.out.Cover(fmt.Sprintf("hosts_call_%s_reports_id_requests_%d", kind, len(rec.reqs)))
		} else {
			h.out.Cover("hosts_call_" + kind + "_error")
		}
	}
	h.out.Case(c)
	h.out.Cover("hosts_history_" + tag)
}

func (h *hx) hostHistories(A, B srvCfg, c0, c1 uint64) {
	ka, kb := A.key, B.key
	pol := func(key uint64, accept bool) hostPolicy {
		return hostPolicy{callPolicy: callPolicy{key: key, acceptToken: accept, tokenStatus: 200}}
	}
	okA, okB, rejA, rejB := pol(ka, true), pol(kb, true), pol(ka, false), pol(kb, false)
	eA, eB, erejB := okA, okB, rejB
	eA.signEmpty, eB.signEmpty, erejB.signEmpty = true, true, true
	plain := hostPolicy{plain: true}
	st := func(p hostPolicy, status int) hostPolicy { p.tokenStatus = status; return p }
	const hA, hB = "alpha.example", "beta.example:8443"
	for _, ck := range []uint64{c0, c1} {
		// Host set, one name per server: the entries are kept apart
		h.hostHistory(ck, 2, []hostCall{{0, hA, okA}, {0, hA, okA}, {1, hB, okB}, {1, hB, okB}, {0, hA, okA}, {1, hB, rejB}, {0, hA, rejA}}, "one_name_per_server")
		// a name of A used towards B's URL and the other way round, B never authenticates
		h.hostHistory(ck, 3, []hostCall{{0, hA, okA}, {1, hB, plain}, {2, hB, plain}, {1, hB, okB}, {2, hA, plain}}, "second_server_never_authenticates")
		// the same name at two URLs: one hostname, one entry (the token goes where the name goes)
		h.hostHistory(ck, 2, []hostCall{{0, hA, okA}, {1, hA, okB}, {1, hA, rejB}, {0, hA, okA}, {0, hA, rejA}}, "one_name_two_urls")
		// hand-built requests (no Host) answered by honest servers, which sign for the Host they were sent
		h.hostHistory(ck, 3, []hostCall{{0, "", okA}, {1, "", plain}, {0, "", okA}, {1, "", okB}, {2, "", plain}}, "no_host_honest_servers")
		h.hostHistory(ck, 2, []hostCall{{0, "", okA}, {1, "", st(okB, 204)}, {1, "", rejB}, {0, "", okA}}, "no_host_second_server_accepts_anything")
		// hand-built requests answered by servers that sign for the empty name
		h.hostHistory(ck, 3, []hostCall{{0, "", eA}, {0, "", eA}, {1, "", plain}, {1, "", erejB}, {0, "", okA}, {2, "", plain}}, "no_host_empty_name_signed")
		// Host equal to the URL's host, then the same URL without Host, then another server
		h.hostHistory(ck, 3, []hostCall{{0, "@", okA}, {0, "@", okA}, {0, "", okA}, {1, "", plain}, {1, "@", okB}, {2, "", plain}, {0, "", eA}, {1, "@", okB}, {1, "", plain}}, "host_is_url_host_then_no_host")
		// Host naming the other server's address
		h.hostHistory(ck, 2, []hostCall{{0, "@1", okA}, {1, "", okB}, {1, "@", okB}, {1, "@", rejB}, {0, "@1", okA}, {0, "", plain}}, "host_is_other_servers_address")
		// mixed: a name, no Host, both
		h.hostHistory(ck, 3, []hostCall{{0, hA, okA}, {0, "", eA}, {1, hB, okB}, {1, "", plain}, {2, hA, plain}, {2, "", erejB}, {0, "", plain}, {1, hB, rejB}}, "mixed")
		for _, s := range []int{204, 403, 404, 500} {
			h.hostHistory(ck, 2, []hostCall{{0, "", okA}, {1, "", st(okB, s)}, {0, hA, okA}, {1, hB, st(okB, s)}, {1, hA, st(okB, s)}, {0, "", eA}, {1, "", st(okB, s)}}, "token_status")
		}
		for i := 0; i < 8; i++ {
			var calls []hostCall
			for j := 0; j < 3+h.rnd.Intn(6); j++ {
				c := hostCall{srv: h.rnd.Intn(3)}
				c.host = []string{"", "", "@", hA, hB, "@0", "@1"}[h.rnd.Intn(7)]
				p := pol(ka, h.rnd.Chance(3, 5))
				if c.srv != 0 && h.rnd.Chance(2, 3) {
					p.key = kb
				}
				p.badSig = h.rnd.Chance(1, 8)
				p.signEmpty = c.host == "" && h.rnd.Bool()
				p.plain = c.srv == 2 && h.rnd.Chance(1, 2)
				c.pol = p
				calls = append(calls, c)
			}
			h.hostHistory(ck, 3, calls, "random")
		}
	}
}

//go:build verif

package handshake

import (
	"fmt"
	"strings"

	sym "github.com/libp2p/go-libp2p/p2p/http/auth/internal/verifc19"
)

// mutSign: the first request of the client-initiated flow (challenge-server + public-key).
func (h *hx) mutSign(s *sess, others []*sess) {
	base := s.stage["c1"]
	if base == nil {
		// server-initiated session: build such a request from its material
		pk, _ := get(s.stage["c2"], "public-key")
		cs, _ := get(s.stage["c2"], "challenge-server")
		base = []sym.Item{{Name: "challenge-server", Val: cs}, {Name: "public-key", Val: pk}}
	}
	now := s.t0
	h.try(req{s.srv, s.host, now, base, "", "sign_request"})
	for _, it := range base {
		h.try(req{s.srv, s.host, now, without(base, it.Name), "", "sign_drop_" + it.Name})
		h.try(req{s.srv, s.host, now, with(base, it.Name, h.w.PVRaw("")), "", "sign_empty_" + it.Name})
		for k := 0; k < 7; k++ {
			h.try(req{s.srv, s.host, now, with(base, it.Name, h.w.PVRaw(reencode(it.Val.Raw, k))), "", fmt.Sprintf("sign_reencode_%d", k)})
		}
	}
	h.try(req{s.srv, s.host, now, with(base, "public-key", h.pv(h.w.NewGarbage())), "", "sign_garbage_key"})
	h.try(req{s.srv, s.host, now, with(base, "public-key", h.pv(sym.Pub(s.srv.key))), "", "sign_servers_own_key"})
	h.try(req{s.srv, s.host, now, with(base, "challenge-server", h.w.PVRaw(strings.Repeat("z", 31))), "", "sign_challenge_31"})
	h.try(req{s.srv, s.host, now, with(base, "challenge-server", h.w.PVRaw(strings.Repeat("z", 32))), "", "sign_challenge_32"})
	// then answer that challenge with a key other than the one announced
	r := h.try(req{s.srv, s.host, now, base, "", "sign_request"})
	if r.cls == 0 {
		resp := h.itemsOf(r.hdr)
		opq, _ := get(resp, "opaque")
		_, _, st, ok := blobParts(opq)
		if ok {
			hostT := sym.Atom(h.w.Intern(s.host))
			good := sym.MsgClient(st.Chal, sym.Pub(s.srv.key), hostT)
			for _, k := range []uint64{s.cli, others[0].cli} {
				items := []sym.Item{{Name: "opaque", Val: opq}, {Name: "sig", Val: h.pv(sym.Sig(k, good, 0))}}
				h.try(req{s.srv, s.host, now + sec, items, "", "answer_client_initiated"})
				// the attacker also sends its own public key: must be ignored
				h.try(req{s.srv, s.host, now + sec, dupBack(items, "public-key", h.pv(sym.Pub(k))), "", "answer_client_initiated_with_key"})
			}
		}
	}
}

// mutFormat: the same parameters written differently.
func (h *hx) mutFormat(s *sess) {
	now := s.tTok
	for _, st := range []string{"c2", "c4"} {
		base := s.stage[st]
		if st == "c4" {
			now = s.tTok + sec
		}
		try := func(hdr, tag string) { h.try(req{s.srv, s.host, now, base, hdr, "format_" + tag}) }
		sc := sym.Scheme
		try(sym.BuildHeader(sc+" ", base, ","), "comma")
		try(sym.BuildHeader(sc+" ", base, " "), "space")
		try(sym.BuildHeader(sc+"   ", base, " ,  , "), "many_separators")
		try(sym.BuildHeader(sc, base, ", "), "no_space_after_scheme")
		try(sym.BuildHeader(sc+" ", base, ", ")+" ", "trailing_space")
		try(sym.BuildHeader(sc+" ", base, ", ")+",", "trailing_comma")
		try(sym.BuildHeader("Bearer abc, "+sc+" ", base, ", "), "after_another_scheme")
		try(sym.BuildHeader("x="+sc+" ", base, ", "), "scheme_inside_a_token")
		try(sym.BuildHeader(sc+" ", base, ", ")+", Basic realm", "before_another_scheme")
		try(sym.BuildHeader("", base, ", "), "no_scheme")
		try(sym.BuildHeader(strings.ToLower(sc)+" ", base, ", "), "scheme_lower_case")
		try(sym.BuildHeader(sc+" ", base, ", ")+", "+strings.Repeat("x", 2048), "too_big")
		try(sym.BuildHeader(sc+" ", base, ", ")+", pad=\""+strings.Repeat("x", 1500)+"\"", "padded_unknown_parameter")
		rev := make([]sym.Item, 0, len(base))
		for i := len(base) - 1; i >= 0; i-- {
			rev = append(rev, base[i])
		}
		try(sym.BuildHeader(sc+" ", rev, ", "), "reversed")
		// a bare token in the middle ends the parsing
		mid := append(append([]sym.Item{}, base[:1]...), sym.Item{Bare: "stop"})
		mid = append(mid, base[1:]...)
		try(sym.BuildHeader(sc+" ", mid, ", "), "bare_token_in_the_middle")
		for i := range base {
			nq := append([]sym.Item{}, base...)
			nq[i].NoQuotes = true
			try(sym.BuildHeader(sc+" ", nq, ", "), "value_without_quotes")
		}
		up := append([]sym.Item{}, base...)
		up[0].Name = strings.ToUpper(up[0].Name)
		try(sym.BuildHeader(sc+" ", up, ", "), "upper_case_name")
	}
	h.try(req{s.srv, s.host, now, nil, sym.Scheme, "scheme_only"})
	h.try(req{s.srv, s.host, now, nil, sym.Scheme + " ", "scheme_and_space"})
	h.try(req{s.srv, s.host, now, nil, "Basic abc", "other_scheme_only"})
}

// bytesLevel: kinds 1 and 2 — genDataToSign and the header parser on byte strings.
func (h *hx) bytesLevel(rounds int) {
	r := h.rnd
	rb := func(n int, alphabet string) []byte {
		b := make([]byte, n)
		for i := range b {
			if alphabet == "" {
				b[i] = byte(r.Intn(256))
			} else {
				b[i] = alphabet[r.Intn(len(alphabet))]
			}
		}
		return b
	}
	keys := []string{"challenge-client", "challenge-server", "client-public-key", "server-public-key", "hostname", "a", "b", "ab", "a=", "", "hostnamf"}
	lens := []int{0, 1, 2, 31, 32, 100, 126, 127, 128, 129, 300, 16383, 16384, 16385}
	for i := 0; i < 150*rounds; i++ {
		n := r.Intn(5)
		if i%3 == 0 {
			n = 3
		}
		var parts []sigParam
		used := map[string]bool{}
		for j := 0; j < n; j++ {
			k := keys[r.Intn(len(keys))]
			if used[k] && !r.Chance(1, 8) {
				continue
			}
			used[k] = true
			l := lens[r.Intn(len(lens))]
			if l > 400 && !r.Chance(1, 10) {
				l = r.Intn(64)
			}
			parts = append(parts, sigParam{k, rb(l, "")})
		}
		prefix := PeerIDAuthScheme
		if r.Chance(1, 6) {
			prefix = string(rb(r.Intn(20), "abc-"))
		}
		c := sym.WireBytes([]int64{1}, []byte(prefix))
		c = append(c, int64(len(parts)))
		for _, p := range parts {
			c = sym.WireBytes(c, []byte(p.k))
			c = sym.WireBytes(c, p.v)
		}
		got, err := genDataToSign(nil, prefix, append([]sigParam{}, parts...))
		if err != nil {
			h.t.Fatalf("genDataToSign: %v", err)
		}
		c = sym.WireBytes(c, got)
		h.out.Case(c)
		h.out.Cover("gen_data_cases")
	}
	// header strings: tokens from a small grammar, plus raw noise
	names := []string{"bearer", "challenge-client", "challenge-server", "opaque", "public-key", "sig", "Sig", "x", "", "sig "}
	seps := []string{", ", ",", " ", "  ,", ", ,", ""}
	for i := 0; i < 400*rounds; i++ {
		var sb strings.Builder
		switch r.Intn(8) {
		case 0:
		case 1:
			sb.WriteString("Basic xyz, ")
			sb.WriteString(PeerIDAuthScheme)
		case 2:
			sb.WriteString("libp2p-PeerI")
		default:
			sb.WriteString(PeerIDAuthScheme)
		}
		sb.WriteString(seps[r.Intn(len(seps))])
		nt := r.Intn(7)
		for j := 0; j < nt; j++ {
			switch r.Intn(12) {
			case 0:
				sb.WriteString("token")
			case 1:
				sb.WriteString(names[r.Intn(len(names))] + "=" + string(rb(r.Intn(6), "ab\"=")))
			case 2:
				sb.WriteString(names[r.Intn(len(names))] + "=\"" + string(rb(r.Intn(8), "ab =,\"")) + "\"")
			case 3:
				sb.WriteString(string(rb(r.Intn(10), "a=\", ")))
			default:
				sb.WriteString(names[r.Intn(len(names))] + "=\"" + string(rb(r.Intn(12), "abcXYZ09-_=")) + "\"")
			}
			sb.WriteString(seps[r.Intn(len(seps))])
		}
		hdr := sb.String()
		if r.Chance(1, 40) {
			hdr += strings.Repeat("y", 2048-len(hdr)+r.Intn(3)-1)
		}
		if r.Chance(1, 30) {
			hdr = string(rb(r.Intn(40), "")) + hdr
		}
		var p params
		err := p.parsePeerIDAuthSchemeParams([]byte(hdr))
		code := int64(0)
		switch err {
		case nil:
		case errTooBig:
			code = 1
		case errInvalid:
			code = 2
		default:
			code = 3
		}
		c := sym.WireBytes([]int64{2}, []byte(hdr))
		c = append(c, code)
		for _, v := range [][]byte{p.bearerTokenB64, p.challengeClient, p.challengeServer, p.opaqueB64, p.publicKeyB64, p.sigB64} {
			if v == nil {
				c = append(c, 0)
			} else {
				c = sym.WireBytes(append(c, 1), v)
			}
		}
		h.out.Case(c)
		h.out.Cover(fmt.Sprintf("parser_err_%d", code))
	}
}

//go:build verif

package identify

// C13 correspondence harness, part 2: stub swarm (Network / Conn / Stream),
// stub host, and the per-case environment with its observation function.

import (
	"bytes"
	"context"
	"errors"
	"io"
	"os"
	"sort"
	"sync"
	"sync/atomic"
	"time"

	ic "github.com/libp2p/go-libp2p/core/crypto"
	"github.com/libp2p/go-libp2p/core/event"
	"github.com/libp2p/go-libp2p/core/host"
	"github.com/libp2p/go-libp2p/core/network"
	"github.com/libp2p/go-libp2p/core/peer"
	"github.com/libp2p/go-libp2p/core/peerstore"
	"github.com/libp2p/go-libp2p/core/protocol"
	"github.com/libp2p/go-libp2p/p2p/host/eventbus"
	"github.com/libp2p/go-libp2p/p2p/host/peerstore/pstoremem"
	ma "github.com/multiformats/go-multiaddr"
)

// ---- stub swarm ------------------------------------------------------------------
type c13Net struct {
	network.Network
	env   *c13Env
	mu    sync.Mutex
	table []*c13Conn
	connHook func()
}

func (n *c13Net) Peerstore() peerstore.Peerstore { return n.env.ps }
func (n *c13Net) LocalPeer() peer.ID            { return c13Local.id }
func (n *c13Net) Connectedness(p peer.ID) network.Connectedness {
	n.mu.Lock()
	res := network.NotConnected
	for _, c := range n.table {
		if c.peer == p {
			if !c.limited {
				res = network.Connected
				break
			}
			res = network.Limited
		}
	}
	h := n.connHook
	n.mu.Unlock()
	// scripted: the swarm changes right after it answered (the answer is what was true when asked)
	if h != nil {
		h()
	}
	return res
}
func (n *c13Net) add(c *c13Conn) {
	n.mu.Lock()
	defer n.mu.Unlock()
	for _, x := range n.table {
		if x == c {
			return
		}
	}
	n.table = append(n.table, c)
}
func (n *c13Net) remove(c *c13Conn) {
	n.mu.Lock()
	defer n.mu.Unlock()
	for i, x := range n.table {
		if x == c {
			n.table = append(n.table[:i:i], n.table[i+1:]...)
			break
		}
	}
	c.closed.Store(true)
}

// what the identify task gets when the harness lets its NewStream return
type c13Answer struct {
	err  error
	data []byte // everything the remote writes on the stream (multistream reply + messages)
	hang bool   // the remote accepts the stream and then says nothing
}
type c13Gate struct{ ch chan c13Answer }

type c13Conn struct {
	network.Conn
	env     *c13Env
	idx     int64
	peer    peer.ID
	raddr   ma.Multiaddr
	limited bool
	closed  atomic.Bool
	mu      sync.Mutex
	arrived []*c13Gate // NewStream calls waiting for the harness, in arrival order
}

func (c *c13Conn) ID() string                     { return "c13-" + string(rune('0'+c.idx)) }
func (c *c13Conn) LocalPeer() peer.ID             { return c13Local.id }
func (c *c13Conn) RemotePeer() peer.ID            { return c.peer }
func (c *c13Conn) RemotePublicKey() ic.PubKey     { return nil }
func (c *c13Conn) LocalMultiaddr() ma.Multiaddr   { return ma.StringCast("/ip4/127.0.0.1/tcp/1") }
func (c *c13Conn) RemoteMultiaddr() ma.Multiaddr  { return c.raddr }
func (c *c13Conn) IsClosed() bool                 { return c.closed.Load() }
func (c *c13Conn) Stat() network.ConnStats        { return network.ConnStats{Stats: network.Stats{Limited: c.limited}} }
func (c *c13Conn) Scope() network.ConnScope       { return &network.NullScope{} }
func (c *c13Conn) String() string                 { return c.ID() }
func (c *c13Conn) NewStream(ctx context.Context) (network.Stream, error) {
	g := &c13Gate{ch: make(chan c13Answer, 1)}
	c.mu.Lock()
	c.arrived = append(c.arrived, g)
	c.mu.Unlock()
	select {
	case a := <-g.ch:
		if a.err != nil {
			return nil, a.err
		}
		return c13NewStream(c, a.data, a.hang, ""), nil
	case <-ctx.Done():
		return nil, ctx.Err()
	case <-c.env.quit:
		return nil, errC13Stream
	}
}
func (c *c13Conn) takeGate() *c13Gate {
	c.mu.Lock()
	defer c.mu.Unlock()
	if len(c.arrived) == 0 {
		return nil
	}
	g := c.arrived[0]
	c.arrived = c.arrived[1:]
	return g
}

type c13Stream struct {
	network.Stream
	conn     *c13Conn
	r        *bytes.Reader
	hang     bool // after the data: the remote says nothing more and does not close
	proto    protocol.ID
	mu       sync.Mutex
	deadline time.Time
	dlCh     chan struct{} // closed (and replaced) whenever the deadline changes
}

func c13NewStream(c *c13Conn, data []byte, hang bool, proto protocol.ID) *c13Stream {
	return &c13Stream{conn: c, r: bytes.NewReader(data), hang: hang, proto: proto, dlCh: make(chan struct{})}
}

// Read serves the scripted bytes; then EOF, or — for a silent remote — blocks
// until the read deadline identify set (for ever if it set none)
func (s *c13Stream) Read(p []byte) (int, error) {
	s.mu.Lock()
	d0 := s.deadline
	s.mu.Unlock()
	if !d0.IsZero() && !time.Now().Before(d0) {
		return 0, os.ErrDeadlineExceeded
	}
	if s.r.Len() > 0 || !s.hang {
		return s.r.Read(p)
	}
	for {
		s.mu.Lock()
		d, ch := s.deadline, s.dlCh
		s.mu.Unlock()
		if d.IsZero() {
			select {
			case <-ch:
				continue
			case <-s.conn.env.quit:
				return 0, io.ErrClosedPipe
			}
		}
		t := time.NewTimer(time.Until(d))
		select {
		case <-t.C:
			return 0, os.ErrDeadlineExceeded
		case <-ch:
			t.Stop()
		case <-s.conn.env.quit:
			t.Stop()
			return 0, io.ErrClosedPipe
		}
	}
}
func (s *c13Stream) setDeadline(t time.Time) {
	s.mu.Lock()
	s.deadline = t
	close(s.dlCh)
	s.dlCh = make(chan struct{})
	s.mu.Unlock()
}
func (s *c13Stream) Write(p []byte) (int, error)        { return len(p), nil }
func (s *c13Stream) Close() error                       { return nil }
func (s *c13Stream) CloseRead() error                   { return nil }
func (s *c13Stream) CloseWrite() error                  { return nil }
func (s *c13Stream) Reset() error                       { return nil }
func (s *c13Stream) ResetWithError(network.StreamErrorCode) error { return nil }
func (s *c13Stream) SetDeadline(t time.Time) error      { s.setDeadline(t); return nil }
func (s *c13Stream) SetReadDeadline(t time.Time) error  { s.setDeadline(t); return nil }
func (s *c13Stream) SetWriteDeadline(time.Time) error   { return nil }
func (s *c13Stream) ID() string                         { return "c13-stream" }
func (s *c13Stream) Protocol() protocol.ID              { return s.proto }
func (s *c13Stream) SetProtocol(p protocol.ID) error    { s.proto = p; return nil }
func (s *c13Stream) Stat() network.Stats                { return network.Stats{} }
func (s *c13Stream) Conn() network.Conn                 { return s.conn }
func (s *c13Stream) Scope() network.StreamScope         { return &network.NullScope{} }

type c13Host struct {
	host.Host
	env *c13Env
}

func (h *c13Host) ID() peer.ID                    { return c13Local.id }
func (h *c13Host) Peerstore() peerstore.Peerstore { return h.env.ps }
func (h *c13Host) Network() network.Network       { return h.env.net }
func (h *c13Host) EventBus() event.Bus            { return h.env.bus }

// ---- per-case environment ------------------------------------------------------------
type c13Env struct {
	np     int
	peers  []c13Key // 1..np
	raw    peerstore.Peerstore
	ps     *c13PS
	bus    event.Bus
	net    *c13Net
	ids    *idService
	conns  []*c13Conn // 1..nc
	sub    event.Subscription
	chans  []<-chan struct{}  // wait channels seen so far; id = index+1
	gates  map[int64]*c13Gate // pending identify task: wait channel id -> its gate
	taskOf map[int64]int64    // wait channel id -> connection index
	dead   map[int64]*c13Gate // exchanges that are over (failed at once, timed out): a late answer goes nowhere
	quit   chan struct{}      // closed when the case is over: silent remotes go away
}

func (e *c13Env) peerIdx(p peer.ID) int64 {
	for i := 1; i <= e.np; i++ {
		if e.peers[i].id == p {
			return int64(i)
		}
	}
	if p == c13Local.id {
		return int64(e.np + 1)
	}
	return 99
}
func (e *c13Env) keyNum(k ic.PubKey) int64 {
	for i := 1; i <= e.np; i++ {
		if e.peers[i].pub.Equals(k) {
			return int64(i)
		}
	}
	return 99
}

// (id cls sfx) of a multiaddr handed to the peerstore
func (e *c13Env) describeAddr(a ma.Multiaddr) []int64 {
	t, pid := peer.SplitAddr(a)
	var id int64
	if t != nil {
		id = c13AddrID(string(t.Bytes()))
		if id == 0 {
			id = -2
		}
	}
	var sfx int64
	if pid != "" {
		sfx = e.peerIdx(pid)
	}
	return []int64{id, c13Class(a), sfx}
}

func c13NewEnv(np int, kinds []int64, maxProtos, pcap, maxu int, timeout time.Duration, conns [][4]int64) *c13Env {
	c13Keys()
	e := &c13Env{np: np, gates: map[int64]*c13Gate{}, taskOf: map[int64]int64{}, dead: map[int64]*c13Gate{}, quit: make(chan struct{})}
	e.peers = make([]c13Key, np+1)
	ne, nr := 0, 0
	for i := 1; i <= np; i++ {
		if kinds[i-1] == 1 {
			e.peers[i] = c13Ed[ne%len(c13Ed)]
			ne++
		} else {
			e.peers[i] = c13Rsa[nr%len(c13Rsa)]
			nr++
		}
	}
	raw, err := pstoremem.NewPeerstore(pstoremem.WithMaxProtocols(maxProtos), pstoremem.WithMaxAddressesPerPeer(pcap),
		pstoremem.WithMaxAddresses(maxu))
	if err != nil {
		panic(err)
	}
	e.raw = raw
	e.ps = &c13PS{Peerstore: raw, env: e}
	e.bus = eventbus.NewBus()
	e.net = &c13Net{env: e}
	ids, err := NewIDService(&c13Host{env: e}, WithTimeout(timeout))
	if err != nil {
		panic(err)
	}
	// Start() would hook the service into a real swarm and mux; the harness
	// delivers the notifications and streams itself
	close(ids.setupCompleted)
	e.ids = ids
	e.sub, err = e.bus.Subscribe([]any{new(event.EvtPeerIdentificationCompleted),
		new(event.EvtPeerIdentificationFailed), new(event.EvtPeerProtocolsUpdated)}, eventbus.BufSize(4096))
	if err != nil {
		panic(err)
	}
	e.conns = make([]*c13Conn, len(conns)+1)
	for i, c := range conns {
		e.conns[i+1] = &c13Conn{env: e, idx: int64(i + 1), peer: e.peers[c[0]].id,
			raddr: c13Addr(c[2]), limited: c[3] != 0}
	}
	return e
}

func (e *c13Env) close() {
	close(e.quit)
	e.sub.Close()
	e.ids.Close()
	e.raw.Close()
}

// id of a wait channel (assigning the next id to one not seen before)
func (e *c13Env) chanID(ch <-chan struct{}) int64 {
	for i, x := range e.chans {
		if x == ch {
			return int64(i + 1)
		}
	}
	e.chans = append(e.chans, ch)
	return int64(len(e.chans))
}

// after an operation: learn wait channels created inside the service and bind
// the NewStream call of a freshly spawned identify task to its channel
func (e *c13Env) learn() {
	for ci := 1; ci < len(e.conns); ci++ {
		c := e.conns[ci]
		e.ids.connsMu.RLock()
		ent, ok := e.ids.conns[c]
		e.ids.connsMu.RUnlock()
		if ok && ent.IdentifyWaitChan != nil {
			id := e.chanID(ent.IdentifyWaitChan)
			if _, bound := e.taskOf[id]; !bound {
				if g := c.takeGate(); g != nil {
					e.taskOf[id] = int64(ci)
					if c13Closed(ent.IdentifyWaitChan) {
						e.dead[id] = g // a zero timeout: the exchange failed before it began
					} else {
						e.gates[id] = g
					}
				}
			}
		}
	}
}

func c13Closed(ch <-chan struct{}) bool {
	select {
	case <-ch:
		return true
	default:
		return false
	}
}

func (e *c13Env) dumpPeer(i int) []int64 {
	p := e.peers[i].id
	var res []int64
	ttls := e.raw.(interface {
		VerifC13TTLs(peer.ID) map[string]time.Duration
	}).VerifC13TTLs(p)
	type at struct{ a, t int64 }
	var as []at
	for k, d := range ttls {
		id := c13AddrID(k)
		if id == 0 {
			id = -2
		}
		as = append(as, at{id, c13TTLCode(d)})
	}
	sort.Slice(as, func(x, y int) bool { return as[x].a < as[y].a })
	res = append(res, int64(len(as)))
	for _, x := range as {
		res = append(res, x.a, x.t)
	}
	protos, _ := e.raw.GetProtocols(p)
	pn := make([]int64, 0, len(protos))
	for _, x := range protos {
		pn = append(pn, c13ProtoNum(string(x)))
	}
	sort.Slice(pn, func(x, y int) bool { return pn[x] < pn[y] })
	res = append(res, int64(len(pn)))
	res = append(res, pn...)
	key := int64(0)
	for _, q := range e.raw.PeersWithKeys() {
		if q == p {
			if k := e.raw.PubKey(p); k != nil { // stored: no caching side effect
				key = e.keyNum(k)
			}
		}
	}
	res = append(res, key)
	for _, name := range []string{"ProtocolVersion", "AgentVersion"} {
		v, err := e.raw.Get(p, name)
		if err != nil {
			res = append(res, 0)
			continue
		}
		s, _ := v.(string)
		res = append(res, c13StrNum(s))
	}
	rec := int64(0)
	if cab, ok := peerstore.GetCertifiedAddrBook(e.raw); ok && cab.GetPeerRecord(p) != nil {
		rec = 1
	}
	res = append(res, rec)
	return res
}

// OBS := ret nc call* ne (kind peer)* nch closed* dump_1..dump_NP
func (e *c13Env) observe(ret int64) []int64 {
	res := []int64{ret}
	calls := e.ps.take()
	res = append(res, int64(len(calls)))
	for _, c := range calls {
		res = append(res, c.code, e.peerIdx(c.p))
		res = append(res, c.args...)
	}
	var evs []int64
	for {
		select {
		case ev := <-e.sub.Out():
			switch x := ev.(type) {
			case event.EvtPeerIdentificationCompleted:
				evs = append(evs, 1, e.peerIdx(x.Peer))
				if env := x.SignedPeerRecord; env != nil {
					// the record handed on as the peer's: who sealed it, whom it names
					signer, named := int64(99), int64(99)
					if id, err := peer.IDFromPublicKey(env.PublicKey); err == nil {
						signer = e.peerIdx(id)
					}
					if r, err := env.Record(); err == nil {
						if pr, ok := r.(*peer.PeerRecord); ok {
							named = e.peerIdx(pr.PeerID)
						}
					}
					evs = append(evs, 4, signer, 5, named)
				}
			case event.EvtPeerIdentificationFailed:
				evs = append(evs, 2, e.peerIdx(x.Peer))
			case event.EvtPeerProtocolsUpdated:
				evs = append(evs, 3, e.peerIdx(x.Peer))
			}
			continue
		default:
		}
		break
	}
	res = append(res, int64(len(evs)/2))
	res = append(res, evs...)
	res = append(res, int64(len(e.chans)))
	for _, ch := range e.chans {
		if c13Closed(ch) {
			res = append(res, 1)
		} else {
			res = append(res, 0)
		}
	}
	for i := 1; i <= e.np; i++ {
		res = append(res, e.dumpPeer(i)...)
	}
	return res
}

var errC13Stream = errors.New("c13: stream refused")

//go:build verif

package identify

// C13 correspondence harness, part 5: case runner and tests.  One case = one
// synctest bubble: a fresh idService + pstoremem + event bus, a random history
// of swarm events, notifications, identify answers and pushes, and after
// every operation the calls the service made on the peerstore, the events it
// emitted, the state of every wait channel and the peerstore contents of ALL
// peers of the universe.  Wire format: /verif/coq/c13/Spec.v.

import (
	"io"
	"log/slog"
	"sort"
	"sync/atomic"
	"testing"
	"testing/synctest"
	"time"

	"github.com/libp2p/go-libp2p/core/peer"
	"github.com/libp2p/go-libp2p/core/peerstore"
	"github.com/libp2p/go-libp2p/internal/verifh"
)

const c13Timeout = 5 * time.Second // the default; worlds also run with 0 and with 50ms

type c13Run struct {
	g        *c13Gen
	e        *c13Env
	line     []int64
	inNet    map[int64]bool
	closed   map[int64]bool
	pend     map[int64]bool // removed from the table, Disconnected not yet delivered
	notified map[int64]bool // Connected delivered
	nc       int64
	mode     int // see c13Gen.message
	pcap     int
	tmo      time.Duration
}

func (x *c13Run) emit(op []int64, ret int64) {
	x.line = append(x.line, op...)
	x.line = append(x.line, x.e.observe(ret)...)
}

// a forced big message is a one-shot
func (x *c13Run) takeMode() int {
	m := x.mode
	if m >= 2 {
		x.mode = 1
	}
	return m
}

func (x *c13Run) peerOf(c int64) int64 { return x.e.peerIdx(x.e.conns[c].peer) }

func (x *c13Run) ridOf(c int64) int64 {
	return c13AddrID(string(x.e.conns[c].raddr.Bytes()))
}

func (x *c13Run) netAdd(c int64) {
	x.e.net.add(x.e.conns[c])
	x.inNet[c] = true
	x.emit([]int64{1, c}, 0)
}

func (x *c13Run) netRemove(c int64) {
	x.e.net.remove(x.e.conns[c])
	if x.inNet[c] {
		x.pend[c] = true
	}
	delete(x.inNet, c)
	x.closed[c] = true
	x.emit([]int64{2, c}, 0)
}

func (x *c13Run) connected(c int64) {
	(*netNotifiee)(x.e.ids).Connected(x.e.net, x.e.conns[c])
	synctest.Wait()
	x.e.learn()
	x.notified[c] = true
	x.emit([]int64{3, c}, 0)
}

func (x *c13Run) disconnected(c int64) {
	cn := x.e.conns[c]
	before := x.e.raw.(interface {
		VerifC13TTLs(peer.ID) map[string]time.Duration
	}).VerifC13TTLs(cn.peer)
	(*netNotifiee)(x.e.ids).Disconnected(x.e.net, cn)
	synctest.Wait()
	delete(x.pend, c)
	// the order Addrs(p) came back in: what was passed on to AddAddrs, then the rest
	var order []int64
	seen := map[int64]bool{}
	x.e.ps.mu.Lock()
	for _, call := range x.e.ps.log {
		if call.code == 3 {
			n := call.args[1]
			for i := int64(0); i < n; i++ {
				id := call.args[2+3*i]
				order = append(order, id)
				seen[id] = true
			}
		}
	}
	ncalls := len(x.e.ps.log)
	x.e.ps.mu.Unlock()
	if ncalls > 0 {
		var rest []int64
		for k := range before {
			if id := c13AddrID(k); !seen[id] {
				rest = append(rest, id)
			}
		}
		sort.Slice(rest, func(i, j int) bool { return rest[i] < rest[j] })
		order = append(order, rest...)
		if len(before) > recentlyConnectedPeerMaxAddrs {
			x.g.out.Cover("disconnect.last.more_than_recentlyConnectedPeerMaxAddrs")
		}
		x.g.out.Cover("disconnect.last")
	} else {
		x.g.out.Cover("disconnect.not_last_or_spurious")
	}
	op := []int64{4, c, int64(len(order))}
	for _, id := range order {
		op = append(op, id, 3, 0)
	}
	x.emit(op, 0)
}

func (x *c13Run) wait(c int64) {
	ch := x.e.ids.IdentifyWait(x.e.conns[c])
	synctest.Wait()
	id := x.e.chanID(ch)
	x.e.learn()
	x.emit([]int64{5, c}, id)
}

func (x *c13Run) finish(ch int64, out int64) {
	gate := x.e.gates[ch]
	c := x.e.taskOf[ch]
	delete(x.e.gates, ch)
	op := []int64{6, ch, c, out}
	switch out {
	case 0:
		gate.ch <- c13Answer{err: errC13Stream}
		x.g.out.Cover("finish.new_stream_error")
	case 1:
		gate.ch <- c13Answer{data: nil}
		x.g.out.Cover("finish.negotiation_fails")
	default:
		cs, pad := x.g.message(x.peerOf(c), x.ridOf(c), x.takeMode())
		data := append(c13Negotiated(ID), x.e.encodeChunks(cs, pad)...)
		op = append(op, c13WireChunks(cs)...)
		x.coverConsume(c, "response")
		gate.ch <- c13Answer{data: data}
	}
	synctest.Wait()
	x.coverCap(c)
	x.emit(op, 0)
}

// the address book's per-peer cap on unconnected addresses is reached: from here
// on the case is outside the modelled domain (monitor only, see Spec.cap_binds)
func (x *c13Run) coverCap(c int64) {
	if x.pcap <= 0 {
		return
	}
	n := 0
	for _, d := range x.e.raw.(interface {
		VerifC13TTLs(peer.ID) map[string]time.Duration
	}).VerifC13TTLs(x.e.conns[c].peer) {
		if d < peerstore.ConnectedAddrTTL {
			n++
		}
	}
	if n >= x.pcap {
		x.g.out.Cover("book.per_peer_cap_reached(monitor_only_from_here)")
	}
}

func (x *c13Run) coverConsume(c int64, how string) {
	p := x.e.conns[c].peer
	state := "connected"
	if x.e.net.Connectedness(p) == 0 { // NotConnected
		state = "not_connected"
		for d := range x.pend {
			if x.e.conns[d].peer == p {
				state = "disconnect_pending"
			}
		}
	}
	x.g.out.Cover("consume." + how + "." + state)
}

func (x *c13Run) push(c int64) {
	cs, pad := x.g.message(x.peerOf(c), x.ridOf(c), x.takeMode())
	data := x.e.encodeChunks(cs, pad)
	x.coverConsume(c, "push")
	x.e.ids.handlePush(c13NewStream(x.e.conns[c], data, false, IDPush))
	synctest.Wait()
	x.coverCap(c)
	x.emit(append([]int64{7, c}, c13WireChunks(cs)...), 0)
}

func (x *c13Run) timeout() {
	// some pending tasks get a remote that accepts the stream and never answers
	var ids []int64
	for ch := range x.e.gates {
		ids = append(ids, ch)
	}
	sort.Slice(ids, func(i, j int) bool { return ids[i] < ids[j] })
	for _, ch := range ids {
		c := x.e.taskOf[ch]
		switch x.g.r.Intn(4) {
		case 0:
			x.g.out.Cover("timeout.new_stream_never_returns")
		case 1: // accepts the stream, never answers the protocol negotiation
			x.e.gates[ch].ch <- c13Answer{hang: true}
			x.g.out.Cover("timeout.remote_silent_before_negotiation")
		case 2:
			x.e.gates[ch].ch <- c13Answer{data: c13Negotiated(ID), hang: true}
			x.g.out.Cover("timeout.remote_silent_after_negotiation")
		default: // stops in the middle of the message
			cs, _ := x.g.message(x.peerOf(c), x.ridOf(c), 0)
			body := x.e.encodeChunks(cs[:1], nil)
			x.e.gates[ch].ch <- c13Answer{data: append(c13Negotiated(ID), body[:len(body)/2+1]...), hang: true}
			x.g.out.Cover("timeout.remote_silent_mid_message")
		}
		x.e.dead[ch] = x.e.gates[ch]
		delete(x.e.gates, ch)
	}
	synctest.Wait()
	d := x.tmo + time.Second
	time.Sleep(d)
	synctest.Wait()
	x.emit([]int64{8, int64(d)}, 0)
}

// the remote answers an exchange that is already over (timed out, or failed at once)
func (x *c13Run) lateAnswer(ch int64) {
	c := x.e.taskOf[ch]
	cs, pad := x.g.message(x.peerOf(c), x.ridOf(c), 0)
	data := append(c13Negotiated(ID), x.e.encodeChunks(cs, pad)...)
	select {
	case x.e.dead[ch].ch <- c13Answer{data: data}:
	default:
	}
	synctest.Wait()
	x.g.out.Cover("finish.answer_after_the_exchange_is_over")
	x.emit(append([]int64{6, ch, c, 2}, c13WireChunks(cs)...), 0)
}

func (x *c13Run) keys(m map[int64]bool) []int64 {
	var l []int64
	for k := range m {
		l = append(l, k)
	}
	sort.Slice(l, func(i, j int) bool { return l[i] < l[j] })
	return l
}

func (x *c13Run) pick(l []int64) int64 { return l[x.g.r.Intn(len(l))] }

// one random operation among the enabled ones, by weight
func (x *c13Run) randomOp() {
	r := x.g.r
	type choice struct {
		w int
		f func()
	}
	var cs []choice
	var addable, connectable []int64
	for c := int64(1); c <= x.nc; c++ {
		if !x.inNet[c] && !x.closed[c] {
			addable = append(addable, c)
		}
		if x.inNet[c] && !x.notified[c] {
			connectable = append(connectable, c)
		}
	}
	inNet, pend, tasks := x.keys(x.inNet), x.keys(x.pend), []int64{}
	for ch := range x.e.gates {
		tasks = append(tasks, ch)
	}
	sort.Slice(tasks, func(i, j int) bool { return tasks[i] < tasks[j] })
	if len(addable) > 0 {
		cs = append(cs, choice{16, func() {
			c := x.pick(addable)
			x.netAdd(c)
			if r.Chance(5, 6) {
				x.connected(c)
			}
		}})
	}
	if len(connectable) > 0 {
		cs = append(cs, choice{10, func() { x.connected(x.pick(connectable)) }})
	}
	if len(tasks) > 0 {
		cs = append(cs, choice{22, func() {
			out := int64(2)
			if r.Chance(1, 6) {
				out = int64(r.Intn(2))
			}
			x.finish(x.pick(tasks), out)
		}})
	}
	if len(inNet) > 0 {
		cs = append(cs, choice{14, func() { x.push(x.pick(inNet)) }})
		cs = append(cs, choice{12, func() { x.netRemove(x.pick(inNet)) }})
	}
	if len(pend) > 0 {
		cs = append(cs, choice{16, func() { x.disconnected(x.pick(pend)) }})
	}
	// a push arriving on any connection: closed, never announced, ...
	cs = append(cs, choice{4, func() { x.push(int64(1 + r.Intn(int(x.nc)))) }})
	// a notification for a connection that is still up, or was never up
	cs = append(cs, choice{2, func() {
		x.g.out.Cover("disconnect.out_of_order_notification")
		x.disconnected(int64(1 + r.Intn(int(x.nc))))
	}})
	cs = append(cs, choice{5, func() { x.wait(int64(1 + r.Intn(int(x.nc)))) }})
	cs = append(cs, choice{2, x.timeout})
	if len(x.e.dead) > 0 {
		var dead []int64
		for ch := range x.e.dead {
			dead = append(dead, ch)
		}
		sort.Slice(dead, func(i, j int) bool { return dead[i] < dead[j] })
		cs = append(cs, choice{3, func() { x.lateAnswer(x.pick(dead)) }})
	}
	total := 0
	for _, c := range cs {
		total += c.w
	}
	k := r.Intn(total)
	for _, c := range cs {
		if k < c.w {
			c.f()
			return
		}
		k -= c.w
	}
}

func c13OneCase(t *testing.T, out *verifh.Out, r *verifh.Rand, big bool) {
	synctest.Test(t, func(t *testing.T) {
		np := 3 + r.Intn(2)
		kinds := make([]int64, np)
		for i := range kinds {
			if r.Chance(3, 5) {
				kinds[i] = 1
			}
		}
		maxProtos := 128
		if r.Chance(1, 3) || big && r.Bool() {
			maxProtos = 4096
		}
		pcap := 64 // the address book's default per-peer cap on unconnected addresses
		if big && r.Chance(1, 2) {
			pcap = 0
		}
		nc := 2 + r.Intn(4)
		conns := make([][4]int64, nc)
		for i := range conns {
			p := int64(1 + r.Intn(np))
			if i > 0 && r.Chance(1, 2) {
				p = conns[i-1][0] // several connections to one peer
			}
			rid := int64(1 + r.Intn(24))
			lim := int64(0)
			if r.Chance(1, 6) {
				lim = 1
			}
			conns[i] = [4]int64{p, c13Class(c13Addr(rid)), rid, lim}
		}
		tmo := c13Timeout
		switch r.Intn(8) {
		case 0:
			tmo = 0
			out.Cover("world.timeout_zero")
		case 1:
			tmo = 50 * time.Millisecond
			out.Cover("world.timeout_50ms")
		}
		maxu := 1000000 // the address book's default limit on unconnected addresses
		if !big && r.Chance(1, 4) {
			maxu = 3 + r.Intn(10)
			out.Cover("world.small_book_limit")
		}
		e := c13NewEnv(np, kinds, maxProtos, pcap, maxu, tmo, conns)
		defer e.close()
		x := &c13Run{g: &c13Gen{r: r, e: e, out: out}, e: e, inNet: map[int64]bool{}, closed: map[int64]bool{},
			pend: map[int64]bool{}, notified: map[int64]bool{}, nc: int64(nc), pcap: pcap, tmo: tmo}
		if big {
			x.mode = 1
		}
		x.line = []int64{13, int64(np)}
		x.line = append(x.line, kinds...)
		x.line = append(x.line, int64(maxProtos), int64(pcap), int64(maxu), int64(tmo), int64(nc))
		for _, c := range conns {
			x.line = append(x.line, c[:]...)
		}
		// addresses other subsystems left in the book
		ni := r.Intn(5)
		if maxu < 100 && r.Bool() {
			ni = maxu - r.Intn(3) // the book starts near or at its limit
		}
		if ni > maxu {
			ni = maxu // a seed beyond the limit would be refused by the book
		}
		x.line = append(x.line, int64(ni))
		for i := 0; i < ni; i++ {
			p, a := int64(1+r.Intn(np)), int64(1+r.Intn(24))
			code := []int64{1, 2, 2, 4, 5}[r.Intn(5)]
			if maxu < 100 {
				a = int64(30 + i) // distinct, so that every seed counts
				code = []int64{2, 5, 5, 4}[r.Intn(4)]
			}
			e.raw.AddAddr(e.peers[p].id, c13Addr(a), c13TTLOf(code))
			x.line = append(x.line, p, a, code)
		}
		steps := 6 + r.Intn(12)
		if big {
			// scripted start: a connection comes up and a message around the caps is consumed on it
			steps = r.Intn(4)
			x.netAdd(1)
			x.connected(1)
			if conns[1][0] == conns[0][0] && r.Bool() {
				x.netAdd(2)
				x.connected(2)
			}
			x.mode = 2
			if _, pending := e.gates[1]; pending && r.Bool() {
				x.finish(1, 2)
			} else {
				x.push(1)
			}
		}
		for i := 0; i < steps; i++ {
			x.randomOp()
		}
		if r.Chance(4, 5) {
			// wind down in a random order: every connection leaves the table, every
			// notification is delivered, late answers and pushes in between
			for len(x.inNet) > 0 || len(x.pend) > 0 {
				switch k := r.Intn(10); {
				case k < 4 && len(x.inNet) > 0:
					x.netRemove(x.pick(x.keys(x.inNet)))
				case k < 8 && len(x.pend) > 0:
					x.disconnected(x.pick(x.keys(x.pend)))
				case k < 9 && len(e.gates) > 0:
					var tasks []int64
					for ch := range e.gates {
						tasks = append(tasks, ch)
					}
					sort.Slice(tasks, func(i, j int) bool { return tasks[i] < tasks[j] })
					x.finish(x.pick(tasks), 2)
				case k == 9:
					if big && r.Chance(1, 2) {
						x.mode = 2 // a late message around the caps
					}
					x.push(int64(1 + r.Intn(nc)))
				}
			}
			out.Cover("case.ends_with_no_connection_and_no_pending_notification")
			if big && r.Chance(2, 3) {
				// a late message with many addresses once nothing is connected: the book's per-peer cap decides
				x.mode = 3
				x.push(int64(1 + r.Intn(nc)))
				out.Cover("case.late_many_addresses_while_not_connected")
			}
		}
		x.timeout()
		out.Cover("cases")
		out.Case(x.line)
	})
}

// A push whose consumption races, in real goroutines, with the swarm dropping a
// connection and the delivery of its Disconnected notification: the removal
// and the notification are fired from inside consumeMessage's AddAddrs call
// (i.e. while it holds addrMu, after it read Connectedness).  Emitted as a
// version-14 case: the linearisation under addrMu and the final contents.
func c13RaceCase(out *verifh.Out, r *verifh.Rand) {
	np := 2 + r.Intn(2)
	kinds := make([]int64, np)
	for i := range kinds {
		if r.Chance(3, 5) {
			kinds[i] = 1
		}
	}
	nc := 1 + r.Intn(2)
	conns := make([][4]int64, nc)
	for i := range conns {
		rid := int64(1 + r.Intn(24))
		conns[i] = [4]int64{1, c13Class(c13Addr(rid)), rid, 0}
	}
	e := c13NewEnv(np, kinds, 128, 64, 1000000, c13Timeout, conns)
	defer e.close()
	g := &c13Gen{r: r, e: e, out: out}
	line := []int64{14, int64(np)}
	line = append(line, kinds...)
	line = append(line, 128, 64, 1000000, int64(c13Timeout), int64(nc))
	for _, c := range conns {
		line = append(line, c[:]...)
	}
	line = append(line, 0)
	var ops [][]int64
	for c := 1; c <= nc; c++ {
		e.net.add(e.conns[c])
		ops = append(ops, []int64{1, int64(c)})
	}
	victim, carrier := int64(1+r.Intn(nc)), int64(1+r.Intn(nc))
	cs, pad := g.message(1, conns[carrier-1][2], 0)
	data := e.encodeChunks(cs, pad)
	done := make(chan struct{})
	var fired atomic.Bool
	drop := func() {
		e.net.remove(e.conns[victim])
		(*netNotifiee)(e.ids).Disconnected(e.net, e.conns[victim])
		close(done)
	}
	hook := func() {
		if fired.Swap(true) {
			return
		}
		go drop()
		select {
		case <-done:
		case <-time.After(2 * time.Millisecond):
		}
	}
	if r.Bool() {
		// right after consumeMessage asked the swarm whether the peer is connected
		e.net.connHook = hook
		out.Cover("race.drop_at_connectedness_query")
	} else {
		// while consumeMessage writes the addresses
		e.ps.addHook = hook
		out.Cover("race.drop_at_add_addrs")
	}
	e.ids.handlePush(c13NewStream(e.conns[carrier], data, false, IDPush))
	if !fired.Swap(true) {
		drop() // the message was refused before any address was written
		out.Cover("race.message_not_consumed")
	}
	<-done
	e.ps.addHook = nil
	e.net.mu.Lock()
	e.net.connHook = nil
	e.net.mu.Unlock()
	// what Addrs(p) held when Disconnected ran under the lock: the peer's own
	// addresses of the consumed message; what it passed on comes first
	var order, consumed []int64
	seen := map[int64]bool{}
	for _, call := range e.ps.take() {
		if call.code != 3 {
			continue
		}
		n := call.args[1]
		for i := int64(0); i < n; i++ {
			id, sfx := call.args[2+3*i], call.args[4+3*i]
			if call.args[0] == 2 { // the recently-connected TTL: Disconnected's call
				order = append(order, id)
				seen[id] = true
			} else if id > 0 && (sfx == 0 || sfx == 1) {
				consumed = append(consumed, id)
			}
		}
	}
	last := nc == 1 || false
	if nc == 2 {
		out.Cover("race.disconnect_of_another_connection_remains")
	} else {
		out.Cover("race.disconnect_of_the_last_connection")
	}
	if last {
		sort.Slice(consumed, func(i, j int) bool { return consumed[i] < consumed[j] })
		for _, id := range consumed {
			if !seen[id] {
				seen[id] = true
				order = append(order, id)
			}
		}
	} else {
		order = nil
	}
	ops = append(ops, append([]int64{7, carrier}, c13WireChunks(cs)...))
	ops = append(ops, []int64{2, victim})
	d := []int64{4, victim, int64(len(order))}
	for _, id := range order {
		d = append(d, id, 3, 0)
	}
	ops = append(ops, d)
	line = append(line, int64(len(ops)))
	for _, o := range ops {
		line = append(line, o...)
	}
	for i := 1; i <= np; i++ {
		line = append(line, e.dumpPeer(i)...)
	}
	out.Cover("race.cases")
	out.Case(line)
}

func TestVerifNothing(t *testing.T) {}

func TestVerifC13(t *testing.T) {
	log = slog.New(slog.NewTextHandler(io.Discard, nil))
	out, err := verifh.Open()
	if err != nil {
		t.Fatal(err)
	}
	defer out.Close()
	c13Keys()
	// the address classes the cases claim are what the real predicates answer
	for id := int64(1); id < 800; id++ {
		if c13Class(c13Addr(id)) != id%4 {
			t.Fatalf("address %d %s: class %d", id, c13AddrStr(id), c13Class(c13Addr(id)))
		}
	}
	r := verifh.NewRand(verifh.Seed())
	n, nbig := 1500, 120
	if verifh.Tier() == "thorough" {
		n, nbig = 50000, 3000
	}
	for i := 0; i < n; i++ {
		c13OneCase(t, out, r.Fork(), false)
	}
	for i := 0; i < nbig; i++ {
		c13OneCase(t, out, r.Fork(), true)
	}
	nrace := 150
	if verifh.Tier() == "thorough" {
		nrace = 5000
	}
	for i := 0; i < nrace; i++ {
		c13RaceCase(out, r.Fork())
	}
}

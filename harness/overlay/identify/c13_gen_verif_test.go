//go:build verif

package identify

// C13 correspondence harness, part 4: message generators.

import (
	"github.com/libp2p/go-libp2p/internal/verifh"
)

type c13Gen struct {
	r   *verifh.Rand
	e   *c13Env
	out *verifh.Out
	seq int64
}

func (g *c13Gen) otherPeer(p int64) int64 {
	q := int64(1 + g.r.Intn(g.e.np+1)) // np+1 = a peer outside the universe (the local one)
	if q == p {
		q = p%int64(g.e.np) + 1
	}
	return q
}

func (g *c13Gen) addr(p, rid int64) c13WAddr {
	r := g.r
	var w c13WAddr
	switch x := r.Intn(100); {
	case x < 62:
		w.id = int64(1 + r.Intn(24))
	case x < 74:
		w.id = rid
	case x < 79:
		w.id = 0
	case x < 84:
		w.id = -1
	default:
		w.id = int64(25 + r.Intn(40))
	}
	if w.id >= 0 {
		switch x := r.Intn(100); {
		case x < 68:
			w.sfx = 0
		case x < 80:
			w.sfx = p
			g.out.Cover("addr.own_p2p_suffix")
		default:
			w.sfx = g.otherPeer(p)
			g.out.Cover("addr.foreign_p2p_suffix")
		}
		if w.id == 0 && w.sfx == 0 {
			w.sfx = g.otherPeer(p)
		}
	}
	switch w.id {
	case 0:
		g.out.Cover("addr.bare_p2p")
	case -1:
		g.out.Cover("addr.unparsable")
	}
	g.e.classify(&w)
	return w
}

func (g *c13Gen) addrs(p, rid int64, n int) []c13WAddr {
	var l []c13WAddr
	for i := 0; i < n; i++ {
		l = append(l, g.addr(p, rid))
	}
	return l
}

// many distinct plain addresses (for the caps); short encodings only
func (g *c13Gen) manyAddrs(n int, from int64) []c13WAddr {
	var l []c13WAddr
	for i := 0; i < n; i++ {
		w := c13WAddr{id: from + int64(i)}
		g.e.classify(&w)
		l = append(l, w)
	}
	return l
}

func (g *c13Gen) envelope(p, rid int64, addrs []c13WAddr) *c13Envl {
	r := g.r
	g.seq++
	v := &c13Envl{pub: p, ptype: 1, rpeer: p, rseq: g.seq, addrs: addrs, sk: 1, sigkey: p, sdom: 1, stype: 1}
	q := g.otherPeer(p)
	if int(q) > g.e.np {
		q = p%int64(g.e.np) + 1
	}
	switch x := r.Intn(100); {
	case x < 42:
		g.out.Cover("rec.valid_own")
	case x < 52:
		v.pub, v.sigkey, v.rpeer = q, q, q
		g.out.Cover("rec.valid_of_other_peer")
	case x < 59:
		v.rpeer = q
		g.out.Cover("rec.peer_id_mismatch")
	case x < 66:
		v.sigkey = q
		g.out.Cover("rec.signed_by_other_key")
	case x < 72:
		v.pub, v.sigkey = q, q
		g.out.Cover("rec.other_signer_names_us")
	case x < 79:
		v.sdom = 2
		g.out.Cover("rec.wrong_domain")
	case x < 85:
		v.tamper = 1
		g.out.Cover("rec.payload_changed_after_signing")
	case x < 89:
		v.sk = 0
		g.out.Cover("rec.garbage_signature")
	case x < 93:
		v.ptype, v.stype = 2, 2
		g.out.Cover("rec.valid_other_record_type")
	case x < 97:
		v.ptype, v.stype = 3, 3
		g.out.Cover("rec.unregistered_type")
	default:
		v.stype = 2
		g.out.Cover("rec.type_not_the_signed_one")
	}
	return v
}

func (g *c13Gen) keyField(c *c13Chunk, p int64) {
	switch x := g.r.Intn(100); {
	case x < 55:
		c.kk, c.key = 2, p
		g.out.Cover("key.own")
	case x < 75:
		q := g.otherPeer(p)
		if int(q) > g.e.np {
			q = p%int64(g.e.np) + 1
		}
		c.kk, c.key = 2, q
		g.out.Cover("key.of_other_peer")
	case x < 85:
		c.kk = 1
		g.out.Cover("key.garbage")
	default:
		g.out.Cover("key.absent")
	}
}

// one mostly well-formed chunk
func (g *c13Gen) chunk(p, rid int64) *c13Chunk {
	r := g.r
	c := &c13Chunk{}
	for i, n := 0, r.Intn(7); i < n; i++ {
		c.protos = append(c.protos, int64(1+r.Intn(12)))
	}
	c.listen = g.addrs(p, rid, r.Intn(9))
	if r.Chance(3, 4) {
		c.pv = int64(1 + r.Intn(3))
	}
	if r.Chance(3, 4) {
		c.av = int64(1 + r.Intn(5))
	}
	g.keyField(c, p)
	switch x := r.Intn(100); {
	case x < 45:
	case x < 50:
		c.rk = 1
		g.out.Cover("rec.unparsable_envelope")
	default:
		c.rk = 2
		c.env = g.envelope(p, rid, g.addrs(p, rid, r.Intn(8)))
	}
	return c
}

// a message: the chunks and which of them are padded beyond signedIDSize
// mode 0: ordinary sizes only; 1: sometimes around the caps; 2: always around the caps;
// 3: always many addresses
func (g *c13Gen) message(p, rid int64, mode int) ([]*c13Chunk, []bool) {
	r := g.r
	var cs []*c13Chunk
	var pad []bool
	x := r.Intn(100)
	if mode >= 2 {
		x = 99
	}
	big := mode > 0
	switch {
	case x < 50:
		cs = []*c13Chunk{g.chunk(p, rid)}
		g.out.Cover("msg.single_chunk")
	case x < 72:
		for i, n := 0, 2+r.Intn(3); i < n; i++ {
			cs = append(cs, g.chunk(p, rid))
		}
		g.out.Cover("msg.fields_duplicated_across_chunks")
	case x < 77:
		n := 9 + r.Intn(3) // 9 is the most that is accepted; 10 and 11 are "too many parts"
		for i := 0; i < n; i++ {
			c := &c13Chunk{protos: []int64{int64(1 + r.Intn(12))}, listen: g.addrs(p, rid, r.Intn(3))}
			if i == n-1 || r.Chance(1, 4) {
				g.keyField(c, p)
			}
			cs = append(cs, c)
		}
		g.out.Cover("msg.chunks_" + itoa(int64(n)))
	case x < 82:
		cs = []*c13Chunk{g.chunk(p, rid), g.chunk(p, rid)}
		pad = []bool{false, false}
		pad[r.Intn(2)] = true
		g.out.Cover("msg.chunk_over_signedIDSize")
	case x < 88:
		cs = []*c13Chunk{{}}
		g.out.Cover("msg.every_field_absent")
	default:
		if !big {
			cs = []*c13Chunk{g.chunk(p, rid)}
			break
		}
		variant := []int{0, 1, 2, 2, 3, 3, 4, 4}[r.Intn(8)]
		if mode == 3 {
			variant = []int{2, 3, 4, 4}[r.Intn(4)]
		}
		switch variant {
		case 4: // more listen addresses than the address book's per-peer cap (64)
			n := 60 + r.Intn(70)
			cs = []*c13Chunk{{listen: g.manyAddrs(n, 100+int64(r.Intn(200)))}}
			g.keyField(cs[0], p)
			g.out.Cover("msg.listen_addrs_around_book_cap")
		case 0: // protocols around maxPeerProtocols, spread over chunks
			n := maxPeerProtocols - 3 + r.Intn(80)
			for i := 0; i < n; i += 300 {
				c := &c13Chunk{}
				for j := i; j < n && j < i+300; j++ {
					c.protos = append(c.protos, int64(100+j))
				}
				cs = append(cs, c)
			}
			cs[len(cs)-1].listen = g.addrs(p, rid, 3)
			g.out.Cover("msg.protocols_around_cap")
		case 1: // protocols around the proto book's own cap
			c := g.chunk(p, rid)
			c.protos = nil
			for j, n := 0, 126+r.Intn(5); j < n; j++ {
				c.protos = append(c.protos, int64(100+j))
			}
			cs = []*c13Chunk{c}
			g.out.Cover("msg.protocols_around_book_cap")
		case 2: // listen addresses around connectedPeerMaxAddrs, spread over chunks
			n := connectedPeerMaxAddrs - 2 + r.Intn(60)
			all := g.manyAddrs(n, 100)
			for i := 0; i < n; i += 150 {
				j := i + 150
				if j > n {
					j = n
				}
				cs = append(cs, &c13Chunk{listen: all[i:j]})
			}
			g.keyField(cs[0], p)
			g.out.Cover("msg.listen_addrs_around_cap")
		default: // a signed record with addresses around connectedPeerMaxAddrs
			n := connectedPeerMaxAddrs - 2 + r.Intn(40)
			c := &c13Chunk{rk: 2}
			c.env = g.envelope(p, rid, g.manyAddrs(n, 100))
			if r.Bool() { // a valid own record
				c.env = &c13Envl{pub: p, ptype: 1, rpeer: p, rseq: c.env.rseq, addrs: c.env.addrs, sk: 1, sigkey: p, sdom: 1, stype: 1}
			}
			c.listen = g.addrs(p, rid, 2)
			cs = []*c13Chunk{c}
			g.out.Cover("msg.record_addrs_around_cap")
		}
	}
	return cs, pad
}

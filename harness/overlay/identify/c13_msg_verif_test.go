//go:build verif

package identify

// C13 correspondence harness, part 3: identify messages as the wire format of
// /verif/coq/c13/Spec.v describes them, and their real encoding (protobuf
// chunks, multiaddr bytes, marshalled keys, sealed / forged envelopes).

import (
	"bytes"
	"encoding/binary"

	ic "github.com/libp2p/go-libp2p/core/crypto"
	"github.com/libp2p/go-libp2p/core/peer"
	recpb "github.com/libp2p/go-libp2p/core/record/pb"
	"github.com/libp2p/go-libp2p/p2p/protocol/identify/pb"
	"github.com/libp2p/go-msgio/pbio"
	ma "github.com/multiformats/go-multiaddr"
	"github.com/multiformats/go-varint"
	"google.golang.org/protobuf/proto"
)

type c13WAddr struct{ id, cls, sfx int64 }

type c13Envl struct {
	pub, ptype, rpeer, rseq int64
	addrs                   []c13WAddr
	sk, sigkey, sdom, stype int64
	tamper                  int64
}

type c13Chunk struct {
	big    int64
	protos []int64
	listen []c13WAddr
	pv, av int64
	kk     int64 // 0 absent 1 garbage 2 key
	key    int64
	rk     int64 // 0 absent 1 garbage 2 envelope
	env    *c13Envl
}

var c13Garbage = []byte{0xff, 0xff, 0xff, 0x01, 0x02}

// the real multiaddr of a wire address (nil bytes for id -1 are garbage)
func (e *c13Env) addrBytes(w c13WAddr) []byte {
	if w.id == -1 {
		return c13Garbage
	}
	var a ma.Multiaddr
	if w.id > 0 {
		a = c13Addr(w.id)
	}
	if w.sfx > 0 {
		sfx := ma.StringCast("/p2p/" + e.anyPeer(w.sfx).String())
		if a == nil {
			a = sfx
		} else {
			a = a.Encapsulate(sfx)
		}
	}
	return a.Bytes()
}

// peer number -> ID; np+1 is the local peer (a foreign suffix outside the universe)
func (e *c13Env) anyPeer(i int64) peer.ID {
	if i >= 1 && int(i) <= e.np {
		return e.peers[i].id
	}
	return c13Local.id
}

// class the harness claims for a wire address = what the predicates say of the real one
func (e *c13Env) classify(w *c13WAddr) {
	if w.id == -1 {
		w.cls = 3
		return
	}
	a, err := ma.NewMultiaddrBytes(e.addrBytes(*w))
	if err != nil {
		panic(err)
	}
	w.cls = c13Class(a)
}

func c13PayloadType(t int64) []byte {
	switch t {
	case 1:
		return peer.PeerRecordEnvelopePayloadType
	case 2:
		return (&c13OtherRecord{}).Codec()
	}
	return []byte{0x7f, 0x55, byte(t)}
}

func c13Domain(d int64) string {
	if d == 1 {
		return peer.PeerRecordEnvelopeDomain
	}
	return "c13-some-other-domain"
}

// record.makeUnsigned: what an envelope signature covers
func c13Unsigned(domain string, ptype, payload []byte) []byte {
	var b []byte
	for _, f := range [][]byte{[]byte(domain), ptype, payload} {
		b = binary.AppendUvarint(b, uint64(len(f)))
		b = append(b, f...)
	}
	return b
}

func (e *c13Env) recordPayload(rpeer, seq int64, addrs []c13WAddr) []byte {
	msg := &peer.PeerRecord{PeerID: e.anyPeer(rpeer), Seq: uint64(seq)}
	pbm := struct{}{}
	_ = pbm
	// marshal by hand so that unparsable address bytes can be carried too
	var out []byte
	idb := []byte(msg.PeerID)
	out = append(out, 0x0a)
	out = binary.AppendUvarint(out, uint64(len(idb)))
	out = append(out, idb...)
	out = append(out, 0x10)
	out = binary.AppendUvarint(out, msg.Seq)
	for _, w := range addrs {
		ab := e.addrBytes(w)
		inner := append([]byte{0x0a}, binary.AppendUvarint(nil, uint64(len(ab)))...)
		inner = append(inner, ab...)
		out = append(out, 0x1a)
		out = binary.AppendUvarint(out, uint64(len(inner)))
		out = append(out, inner...)
	}
	return out
}

func (e *c13Env) envelopeBytes(v *c13Envl) []byte {
	payload := e.recordPayload(v.rpeer, v.rseq, v.addrs)
	var sig []byte
	if v.sk == 0 {
		sig = bytes.Repeat([]byte{0x5a}, 64)
	} else {
		signed := payload
		if v.tamper != 0 {
			signed = e.recordPayload(v.rpeer, v.rseq+1, v.addrs)
		}
		var err error
		sig, err = e.peers[v.sigkey].priv.Sign(c13Unsigned(c13Domain(v.sdom), c13PayloadType(v.stype), signed))
		if err != nil {
			panic(err)
		}
	}
	pk, err := ic.PublicKeyToProto(e.peers[v.pub].pub)
	if err != nil {
		panic(err)
	}
	b, err := proto.Marshal(&recpb.Envelope{PublicKey: pk, PayloadType: c13PayloadType(v.ptype),
		Payload: payload, Signature: sig})
	if err != nil {
		panic(err)
	}
	return b
}

func (e *c13Env) chunkMsg(c *c13Chunk) *pb.Identify {
	m := &pb.Identify{}
	for _, p := range c.protos {
		m.Protocols = append(m.Protocols, c13ProtoStr(p))
	}
	for _, w := range c.listen {
		m.ListenAddrs = append(m.ListenAddrs, e.addrBytes(w))
	}
	if c.pv != 0 {
		s := "v" + itoa(c.pv)
		m.ProtocolVersion = &s
	}
	if c.av != 0 {
		s := "v" + itoa(c.av)
		m.AgentVersion = &s
	}
	switch c.kk {
	case 1:
		m.PublicKey = c13Garbage
	case 2:
		b, err := ic.MarshalPublicKey(e.peers[c.key].pub)
		if err != nil {
			panic(err)
		}
		m.PublicKey = b
	}
	switch c.rk {
	case 1:
		m.SignedPeerRecord = c13Garbage
	case 2:
		m.SignedPeerRecord = e.envelopeBytes(c.env)
	}
	return m
}

func itoa(n int64) string {
	if n == 0 {
		return "0"
	}
	var b []byte
	neg := n < 0
	if neg {
		n = -n
	}
	for n > 0 {
		b = append([]byte{byte('0' + n%10)}, b...)
		n /= 10
	}
	if neg {
		b = append([]byte{'-'}, b...)
	}
	return string(b)
}

// the bytes the remote writes for a sequence of chunks; sets c.big from the
// real encoded size (the reader refuses a message longer than signedIDSize)
func (e *c13Env) encodeChunks(cs []*c13Chunk, pad []bool) []byte {
	var buf bytes.Buffer
	w := pbio.NewDelimitedWriter(&buf)
	for i, c := range cs {
		m := e.chunkMsg(c)
		if pad != nil && pad[i] {
			s := string(bytes.Repeat([]byte{'x'}, signedIDSize+10))
			m.ObservedAddr = []byte(s)
		}
		if proto.Size(m) > signedIDSize {
			c.big = 1
		} else {
			c.big = 0
		}
		if err := w.WriteMsg(m); err != nil {
			panic(err)
		}
	}
	return buf.Bytes()
}

// multistream reply of a remote that accepts protocol id
func c13Negotiated(id string) []byte {
	var b []byte
	for _, s := range []string{"/multistream/1.0.0\n", id + "\n"} {
		b = append(b, varint.ToUvarint(uint64(len(s)))...)
		b = append(b, s...)
	}
	return b
}

func c13WireAddrs(l []c13WAddr) []int64 {
	res := []int64{int64(len(l))}
	for _, w := range l {
		res = append(res, w.id, w.cls, w.sfx)
	}
	return res
}

func c13WireChunks(cs []*c13Chunk) []int64 {
	res := []int64{int64(len(cs))}
	for _, c := range cs {
		res = append(res, c.big, int64(len(c.protos)))
		res = append(res, c.protos...)
		res = append(res, c13WireAddrs(c.listen)...)
		res = append(res, c.pv, c.av, c.kk, c.key, c.rk)
		if c.rk == 2 {
			v := c.env
			res = append(res, v.pub, v.ptype, v.rpeer, v.rseq)
			res = append(res, c13WireAddrs(v.addrs)...)
			res = append(res, v.sk, v.sigkey, v.sdom, v.stype, v.tamper)
		}
	}
	return res
}

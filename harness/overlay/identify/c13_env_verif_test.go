//go:build verif

package identify

// C13 correspondence harness, part 1: the environment of the identify
// service.  The service (idService), the peerstore (pstoremem) and the event
// bus are the real ones; the swarm side (Network, Conn, Stream) is a stub
// whose connection table, notifications and stream contents the harness
// drives, so that every interleaving of "swarm drops the connection",
// "Disconnected is delivered" and "an identify message is consumed" is an
// explicit operation.  Injected with `go test -overlay`; not part of /repo.

import (
	"bytes"
	"context"
	"crypto/rand"
	"errors"
	"fmt"
	"io"
	"os"
	"sort"
	"strconv"
	"strings"
	"sync"
	"time"

	ic "github.com/libp2p/go-libp2p/core/crypto"
	"github.com/libp2p/go-libp2p/core/event"
	"github.com/libp2p/go-libp2p/core/host"
	"github.com/libp2p/go-libp2p/core/network"
	"github.com/libp2p/go-libp2p/core/peer"
	"github.com/libp2p/go-libp2p/core/peerstore"
	"github.com/libp2p/go-libp2p/core/protocol"
	"github.com/libp2p/go-libp2p/core/record"
	"github.com/libp2p/go-libp2p/p2p/host/eventbus"
	"github.com/libp2p/go-libp2p/p2p/host/peerstore/pstoremem"
	ma "github.com/multiformats/go-multiaddr"
	manet "github.com/multiformats/go-multiaddr/net"
)

// ---- universe: keys ---------------------------------------------------------

type c13Key struct {
	priv ic.PrivKey
	pub  ic.PubKey
	id   peer.ID
}

var (
	c13KeysOnce sync.Once
	c13Ed       []c13Key // peer ID embeds the key
	c13Rsa      []c13Key // peer ID is a hash of the key
	c13Local    c13Key
)

func c13MkKey(typ, bits int) c13Key {
	priv, pub, err := ic.GenerateKeyPairWithReader(typ, bits, rand.Reader)
	if err != nil {
		panic(err)
	}
	id, err := peer.IDFromPublicKey(pub)
	if err != nil {
		panic(err)
	}
	return c13Key{priv, pub, id}
}

func c13Keys() {
	c13KeysOnce.Do(func() {
		for i := 0; i < 5; i++ {
			c13Ed = append(c13Ed, c13MkKey(ic.Ed25519, 0))
		}
		for i := 0; i < 5; i++ {
			c13Rsa = append(c13Rsa, c13MkKey(ic.RSA, 2048))
		}
		c13Local = c13MkKey(ic.Ed25519, 0)
	})
}

// ---- universe: addresses ------------------------------------------------------
// address number id > 0 -> a multiaddr whose class (0 loopback, 1 private,
// 2 public, 3 none of these) is id % 4; small numbers use a few more shapes.
func c13AddrStr(id int64) string {
	k := id / 4
	h, l := k/250, k%250+1
	if id < 64 && (id/4)%2 == 1 {
		switch id % 4 {
		case 0:
			return fmt.Sprintf("/ip6/::1/tcp/%d", 4000+id)
		case 1:
			return fmt.Sprintf("/ip4/192.168.%d.%d/udp/4001/quic-v1", h, l)
		case 2:
			return fmt.Sprintf("/dns4/example.com/tcp/%d", 4000+id)
		default:
			return fmt.Sprintf("/ip6/2001:db8::%x/tcp/4001", l)
		}
	}
	switch id % 4 {
	case 0:
		return fmt.Sprintf("/ip4/127.0.%d.%d/tcp/4001", h, l)
	case 1:
		return fmt.Sprintf("/ip4/10.1.%d.%d/tcp/4001", h, l)
	case 2:
		return fmt.Sprintf("/ip4/1.2.%d.%d/tcp/4001", h, l)
	default:
		return fmt.Sprintf("/ip4/198.18.%d.%d/tcp/4001", h, l)
	}
}

var (
	c13AddrMu    sync.Mutex
	c13AddrCache = map[int64]ma.Multiaddr{}
	c13AddrIndex = map[string]int64{} // string(bytes) -> id
)

func c13Addr(id int64) ma.Multiaddr {
	c13AddrMu.Lock()
	defer c13AddrMu.Unlock()
	if a, ok := c13AddrCache[id]; ok {
		return a
	}
	a := ma.StringCast(c13AddrStr(id))
	c13AddrCache[id] = a
	c13AddrIndex[string(a.Bytes())] = id
	return a
}

// class of a multiaddr by the predicates filterAddrs evaluates
func c13Class(a ma.Multiaddr) int64 {
	switch {
	case manet.IsIPLoopback(a):
		return 0
	case manet.IsPublicAddr(a):
		return 2
	case manet.IsPrivateAddr(a):
		return 1
	}
	return 3
}

// id of a transport address found in the book (0 = not one of ours)
func c13AddrID(b string) int64 {
	c13AddrMu.Lock()
	defer c13AddrMu.Unlock()
	return c13AddrIndex[b]
}

func c13TTLCode(d time.Duration) int64 {
	switch d {
	case 0:
		return 0
	case peerstore.TempAddrTTL:
		return 1
	case peerstore.RecentlyConnectedAddrTTL:
		return 2
	case peerstore.ConnectedAddrTTL:
		return 3
	case peerstore.PermanentAddrTTL:
		return 4
	case peerstore.AddressTTL:
		return 5
	}
	return 6
}

func c13TTLOf(code int64) time.Duration {
	return []time.Duration{0, peerstore.TempAddrTTL, peerstore.RecentlyConnectedAddrTTL,
		peerstore.ConnectedAddrTTL, peerstore.PermanentAddrTTL, peerstore.AddressTTL}[code]
}

// ---- a second registered record type (so that a valid envelope need not hold a peer record)
type c13OtherRecord struct{}

func (*c13OtherRecord) Domain() string                  { return "c13-other-domain" }
func (*c13OtherRecord) Codec() []byte                   { return []byte{0x7f, 0x13} }
func (*c13OtherRecord) MarshalRecord() ([]byte, error)  { return []byte{1}, nil }
func (*c13OtherRecord) UnmarshalRecord(_ []byte) error  { return nil }

func init() { record.RegisterType(&c13OtherRecord{}) }

// ---- recording peerstore -------------------------------------------------------
// Wraps the real pstoremem: every mutating call (and KeyBook.PubKey, a read
// that caches) is appended to the log with the peer it is keyed by, then
// forwarded unchanged.
type c13Call struct {
	code int64
	p    peer.ID
	args []int64
}

type c13PS struct {
	peerstore.Peerstore
	env *c13Env
	mu  sync.Mutex
	log []c13Call
	// hook run inside AddAddrs (after logging, before forwarding); used by the
	// race cases to fire a concurrent Disconnected while consumeMessage holds addrMu
	addHook func()
}

func (w *c13PS) rec(code int64, p peer.ID, args ...int64) {
	w.mu.Lock()
	w.log = append(w.log, c13Call{code, p, args})
	w.mu.Unlock()
}

func (w *c13PS) take() []c13Call {
	w.mu.Lock()
	defer w.mu.Unlock()
	l := w.log
	w.log = nil
	return l
}

func (w *c13PS) addrArgs(addrs []ma.Multiaddr) []int64 {
	res := []int64{int64(len(addrs))}
	for _, a := range addrs {
		res = append(res, w.env.describeAddr(a)...)
	}
	return res
}

func (w *c13PS) SetProtocols(p peer.ID, protos ...protocol.ID) error {
	args := []int64{int64(len(protos))}
	for _, x := range protos {
		args = append(args, c13ProtoNum(string(x)))
	}
	w.rec(1, p, args...)
	return w.Peerstore.SetProtocols(p, protos...)
}
func (w *c13PS) UpdateAddrs(p peer.ID, o, n time.Duration) {
	w.rec(2, p, c13TTLCode(o), c13TTLCode(n))
	w.Peerstore.UpdateAddrs(p, o, n)
}
func (w *c13PS) AddAddrs(p peer.ID, addrs []ma.Multiaddr, ttl time.Duration) {
	w.rec(3, p, append([]int64{c13TTLCode(ttl)}, w.addrArgs(addrs)...)...)
	if h := w.addHook; h != nil {
		h()
	}
	w.Peerstore.AddAddrs(p, addrs, ttl)
}
func (w *c13PS) Put(p peer.ID, key string, val any) error {
	k := int64(-1)
	switch key {
	case "ProtocolVersion":
		k = 1
	case "AgentVersion":
		k = 2
	}
	s, _ := val.(string)
	w.rec(4, p, k, c13StrNum(s))
	return w.Peerstore.Put(p, key, val)
}
func (w *c13PS) PubKey(p peer.ID) ic.PubKey {
	w.rec(5, p)
	return w.Peerstore.PubKey(p)
}
func (w *c13PS) AddPubKey(p peer.ID, k ic.PubKey) error {
	w.rec(6, p, w.env.keyNum(k))
	return w.Peerstore.AddPubKey(p, k)
}

// mutators identify is not expected to call
func (w *c13PS) AddAddr(p peer.ID, a ma.Multiaddr, t time.Duration) { w.rec(9, p); w.Peerstore.AddAddr(p, a, t) }
func (w *c13PS) SetAddr(p peer.ID, a ma.Multiaddr, t time.Duration) { w.rec(9, p); w.Peerstore.SetAddr(p, a, t) }
func (w *c13PS) SetAddrs(p peer.ID, a []ma.Multiaddr, t time.Duration) {
	w.rec(9, p)
	w.Peerstore.SetAddrs(p, a, t)
}
func (w *c13PS) ClearAddrs(p peer.ID) { w.rec(9, p); w.Peerstore.ClearAddrs(p) }
func (w *c13PS) AddProtocols(p peer.ID, x ...protocol.ID) error {
	w.rec(9, p)
	return w.Peerstore.AddProtocols(p, x...)
}
func (w *c13PS) RemoveProtocols(p peer.ID, x ...protocol.ID) error {
	w.rec(9, p)
	return w.Peerstore.RemoveProtocols(p, x...)
}
func (w *c13PS) AddPrivKey(p peer.ID, k ic.PrivKey) error { w.rec(9, p); return w.Peerstore.AddPrivKey(p, k) }
func (w *c13PS) RemovePeer(p peer.ID)                     { w.rec(9, p); w.Peerstore.RemovePeer(p) }

func c13ProtoNum(s string) int64 {
	if strings.HasPrefix(s, "/c13/") {
		if n, err := strconv.ParseInt(s[5:], 10, 64); err == nil {
			return n
		}
	}
	return -1
}
func c13ProtoStr(n int64) string { return "/c13/" + strconv.FormatInt(n, 10) }

// version strings: 0 = "" (absent), n = "v<n>"
func c13StrNum(s string) int64 {
	if s == "" {
		return 0
	}
	if n, err := strconv.ParseInt(strings.TrimPrefix(s, "v"), 10, 64); err == nil && strings.HasPrefix(s, "v") {
		return n
	}
	return -1
}

var _ = []any{bytes.NewReader, context.Background, errors.New, io.EOF, os.ErrDeadlineExceeded, sort.Ints,
	event.EvtPeerIdentificationCompleted{}, host.Host(nil), network.Connected, eventbus.NewBus, pstoremem.NewPeerstore}

//go:build verif

// C01 correspondence harness, QUIC part (injected with `go test -overlay`; not
// part of /repo).  The QUIC transport reuses the TLS identity of
// p2p/security/tls (ConfigForPeer / PubKeyFromCertChain): a dial with expected
// peer P against a listener whose identity is Q must fail unless P = Q, and the
// connections' RemotePeer()/RemotePublicKey() are the certified key.  Real
// transports over loopback UDP.  Wire format: /verif/coq/c01/Spec.v (tag 5).
package libp2pquic

import (
	"context"
	"io"
	"testing"
	"time"

	ic "github.com/libp2p/go-libp2p/core/crypto"
	"github.com/libp2p/go-libp2p/core/network"
	"github.com/libp2p/go-libp2p/core/peer"
	tpt "github.com/libp2p/go-libp2p/core/transport"
	"github.com/libp2p/go-libp2p/internal/verifh"
	"github.com/libp2p/go-libp2p/p2p/transport/quicreuse"
	ma "github.com/multiformats/go-multiaddr"
	"github.com/quic-go/quic-go"
)

func TestVerifNothing(t *testing.T) {}

func TestVerifC01Quic(t *testing.T) {
	out, err := verifh.Open()
	if err != nil {
		t.Fatal(err)
	}
	defer out.Close()
	types := []int{0, 1 + int(verifh.Seed()%3)}
	if verifh.Tier() == "thorough" {
		types = []int{0, 1, 2, 3}
	}
	kts := []int{ic.Ed25519, ic.ECDSA, ic.Secp256k1, ic.RSA}
	var keys [4][3]ic.PrivKey
	var ids [4][3]peer.ID
	for _, ti := range types {
		for n := 0; n < 3; n++ {
			bits := 0
			if kts[ti] == ic.RSA {
				bits = 2048
			}
			sk, _, err := ic.GenerateKeyPair(kts[ti], bits)
			if err != nil {
				t.Fatal(err)
			}
			keys[ti][n] = sk
			ids[ti][n], _ = peer.IDFromPrivateKey(sk)
		}
	}
	name := func(kt int, id peer.ID) int64 {
		for n := 0; n < 3; n++ {
			if ids[kt][n] == id {
				return int64(n + 1)
			}
		}
		return 9
	}
	observe := func(kt int, c tpt.CapableConn) (int64, int64) {
		rid := name(kt, c.RemotePeer())
		rk := int64(0)
		if k := c.RemotePublicKey(); k != nil {
			if id, err := peer.IDFromPublicKey(k); err == nil {
				rk = name(kt, id)
			}
		}
		return rid, rk
	}
	newT := func(k ic.PrivKey) tpt.Transport {
		cm, err := quicreuse.NewConnManager(quic.StatelessResetKey{}, quic.TokenGeneratorKey{})
		if err != nil {
			t.Fatal(err)
		}
		t.Cleanup(func() { cm.Close() })
		tr, err := NewTransport(k, cm, nil, nil, nil)
		if err != nil {
			t.Fatal(err)
		}
		t.Cleanup(func() { tr.(io.Closer).Close() })
		return tr
	}
	for _, ktD := range types {
		for _, ktL := range types {
			for idL := 2; idL <= 3; idL++ { // the listener is B or E
				ln, err := newT(keys[ktL][idL-1]).Listen(ma.StringCast("/ip4/127.0.0.1/udp/0/quic-v1"))
				if err != nil {
					t.Fatal(err)
				}
				accepted := make(chan tpt.CapableConn, 8)
				go func() {
					for {
						c, err := ln.Accept()
						if err != nil {
							return
						}
						accepted <- c
					}
				}()
				for idD := 1; idD <= 3; idD += 2 { // the dialer is A or E
					if idD == idL {
						continue
					}
					dialer := newT(keys[ktD][idD-1])
					for exp := 1; exp <= 3; exp++ {
						if exp == idD {
							continue // dial to self is refused before any handshake
						}
						ctx, cancel := context.WithTimeout(context.Background(), 5*time.Second)
						c, derr := dialer.Dial(ctx, ln.Multiaddr(), ids[ktL][exp-1])
						cancel()
						line := []int64{5, int64(ktD), int64(ktL), int64(idD), int64(idL), int64(exp)}
						if derr == nil {
							rid, rk := observe(ktL, c)
							line = append(line, 1, rid, rk)
							out.Cover("quic_dial_completed")
						} else {
							line = append(line, 0, 0, 0)
							out.Cover("quic_dial_refused")
						}
						wait := 300 * time.Millisecond
						if derr == nil {
							wait = 5 * time.Second
						}
						select {
						case sc := <-accepted:
							rid, rk := observe(ktD, sc)
							line = append(line, 1, rid, rk)
							out.Cover("quic_listener_accepted")
							sc.Close()
						case <-time.After(wait):
							line = append(line, 0, 0, 0)
							out.Cover("quic_listener_saw_nothing")
						}
						if c != nil {
							c.Close()
						}
						out.Case(line)
						out.Cover("quic_cases")
					}
				}
				ln.Close()
			}
		}
	}

	// ---- tag 6: hole punching / simultaneous connect in the server role ------------------------
	// We (A) listen; a peer with identity idQ lives at address X (it listens there and dials from
	// that socket).  We Dial(X, P) with network.WithSimultaneousConnect(ctx, false, ...): the
	// transport sends packets to X and waits for an inbound connection FROM X authenticated as P.
	// where 0: the peer at X connects to us while the punch is in flight; where 1: a peer with
	// identity P connects from another address instead.  Dial must fail or return P.
	oldTimeout := HolePunchTimeout
	HolePunchTimeout = 700 * time.Millisecond
	defer func() { HolePunchTimeout = oldTimeout }()
	for _, kt := range types {
		us := newT(keys[kt][0])
		lnUs, err := us.Listen(ma.StringCast("/ip4/127.0.0.1/udp/0/quic-v1"))
		if err != nil {
			t.Fatal(err)
		}
		acceptedUs := make(chan tpt.CapableConn, 16)
		go func() {
			for {
				c, err := lnUs.Accept()
				if err != nil {
					return
				}
				acceptedUs <- c
			}
		}()
		for idQ := 2; idQ <= 3; idQ++ {
			for p := 2; p <= 3; p++ {
				for where := 0; where <= 1; where++ {
					if where == 1 && idQ != p {
						continue
					}
					q := newT(keys[kt][idQ-1])
					lnQ, err := q.Listen(ma.StringCast("/ip4/127.0.0.1/udp/0/quic-v1"))
					if err != nil {
						t.Fatal(err)
					}
					connector := q
					if where == 1 {
						connector = newT(keys[kt][p-1])
					}
					type res struct {
						c   tpt.CapableConn
						err error
					}
					punched := make(chan res, 1)
					go func() {
						ctx, cancel := context.WithTimeout(context.Background(), 5*time.Second)
						defer cancel()
						c, err := us.Dial(network.WithSimultaneousConnect(ctx, false, "c01"), lnQ.Multiaddr(), ids[kt][p-1])
						punched <- res{c, err}
					}()
					time.Sleep(100 * time.Millisecond)
					cctx, ccancel := context.WithTimeout(context.Background(), 5*time.Second)
					cq, cerr := connector.Dial(cctx, lnUs.Multiaddr(), ids[kt][0])
					ccancel()
					if cerr != nil {
						t.Fatalf("the peer could not connect to our listener: %v", cerr)
					}
					r := <-punched
					line := []int64{6, int64(kt), int64(idQ), int64(p), int64(where)}
					if r.err == nil {
						rid, rk := observe(kt, r.c)
						line = append(line, 1, rid, rk)
						out.Cover("quic_holepunch_returned_conn")
						if where == 0 && r.c.RemoteMultiaddr().Equal(lnQ.Multiaddr()) {
							out.Cover("quic_holepunch_conn_from_punched_address")
						}
						r.c.Close()
					} else {
						line = append(line, 0, 0, 0)
						out.Cover("quic_holepunch_failed")
					}
					// connections that did not go to the punch come out of Accept
					select {
					case ac := <-acceptedUs:
						if where == 0 && ac.RemoteMultiaddr().Equal(lnQ.Multiaddr()) {
							out.Cover("quic_holepunch_other_peer_connected_from_punched_address")
						}
						ac.Close()
					default:
					}
					cq.Close()
					lnQ.Close()
					out.Case(line)
					out.Cover("quic_holepunch_cases")
				}
			}
		}
		lnUs.Close()
	}
}

//go:build verif

package eventbus

// C15 correspondence harness (injected with `go test -overlay`; not part of
// /repo).  Drives the real bus through its exported API inside a
// testing/synctest bubble.  Every operation runs in its own goroutine; the
// main goroutine issues one stimulus at a time (start of an operation, or a
// consumer starting a receive) and calls c15Settle() before the next one,
// so schedules are forced from outside.  Wire format: /verif/coq/c15/Spec.v.

import (
	"fmt"
	"log/slog"
	"os"
	"runtime"
	"strings"
	"sync"
	"sync/atomic"
	"testing"
	"testing/synctest"
	"time"

	"github.com/libp2p/go-libp2p/core/event"
	"github.com/libp2p/go-libp2p/internal/verifh"
)

type c15EvA struct{ ID int64 }
type c15EvB struct{ ID int64 }
type c15EvC struct{ ID int64 }

func c15MkEvent(ty int, id int64) any {
	switch ty {
	case 0:
		return c15EvA{id}
	case 1:
		return c15EvB{id}
	}
	return c15EvC{id}
}

func c15TypePtr(ty int) any {
	switch ty {
	case 0:
		return new(c15EvA)
	case 1:
		return new(c15EvB)
	}
	return new(c15EvC)
}

func c15EventID(v any) int64 {
	switch e := v.(type) {
	case c15EvA:
		return e.ID
	case c15EvB:
		return e.ID
	case c15EvC:
		return e.ID
	}
	return -9
}

type c15Emitter struct {
	ty       int
	stateful bool
}
type c15Sub struct {
	wild bool
	cap  int
	tys  []int
	// rej >= 2: a Subscribe call that must be REJECTED: the listed (valid) types with one
	// invalid entry inserted at index (rej-2)/2; (rej-2)%2 == 0: a non-pointer value,
	// 1: an untyped nil.  The wire carries rej in the `wild` field.
	rej int
}

// c15RejectedSubscribe issues the invalid call.  A nil entry makes the validation loop
// of Subscribe dereference a nil reflect.Type: that panic is raised in the caller's
// goroutine before the bus is touched and counts as the rejection.
func c15RejectedSubscribe(bus event.Bus, sc c15Sub) (sub event.Subscription, err error) {
	pos, kind := (sc.rej-2)/2, (sc.rej-2)%2
	var bad any = 5
	if kind == 1 {
		bad = nil
	}
	var l []any
	for j, ty := range sc.tys {
		if j == pos {
			l = append(l, bad)
		}
		l = append(l, c15TypePtr(ty))
	}
	if pos >= len(sc.tys) {
		l = append(l, bad)
	}
	var arg any = l
	if len(l) == 1 {
		arg = l[0]
	}
	if kind == 1 {
		defer func() {
			if p := recover(); p != nil {
				sub, err = nil, fmt.Errorf("rejected (panic in the caller): %v", p)
			}
		}()
	}
	return bus.Subscribe(arg, BufSize(sc.cap))
}
type c15Emit struct {
	em int
	id int64
}
type c15Cfg struct {
	ntypes   int
	emitters []c15Emitter
	subs     []c15Sub
	emits    []c15Emit
}

// stimulus: kind 0 = start op (a = op kind, b = index), kind 2 = consumer of
// sub a starts a receive, kind 6 = let virtual time pass (not a label)
type c15Stim struct{ kind, a, b int }

type c15Run struct {
	cfg    c15Cfg
	mu     sync.Mutex
	labels [][4]int64
	quit   chan struct{}

	bus      event.Bus
	emitters []event.Emitter
	subs     []event.Subscription

	started  map[[2]int]bool // (op kind, index) started
	returned map[[2]int]bool
	reqs     []int // receives started per sub
	reads    []int // receives completed per sub
	final    bool  // final phase: no in-flight limit
}

func (r *c15Run) log(k, a, b, v int64) {
	r.mu.Lock()
	r.labels = append(r.labels, [4]int64{k, a, b, v})
	r.mu.Unlock()
}

func (r *c15Run) isReturned(kind, idx int) bool {
	r.mu.Lock()
	defer r.mu.Unlock()
	return r.returned[[2]int{kind, idx}]
}

func (r *c15Run) haveSub(s int) bool {
	r.mu.Lock()
	defer r.mu.Unlock()
	return r.subs[s] != nil
}

// op runs f in a new goroutine: Start label (by the caller, quiescent), Ret
// label on return, panic label if it panics.
func (r *c15Run) op(kind, idx int, f func() error) {
	r.started[[2]int{kind, idx}] = true
	r.log(0, int64(kind), int64(idx), 0)
	go func() {
		defer func() {
			if p := recover(); p != nil {
				r.log(4, int64(kind), int64(idx), 0)
			}
		}()
		err := f()
		code := int64(0)
		if err != nil {
			code = 1
		}
		r.mu.Lock()
		r.labels = append(r.labels, [4]int64{1, int64(kind), int64(idx), code})
		r.returned[[2]int{kind, idx}] = true
		r.mu.Unlock()
	}()
}

func (r *c15Run) apply(s c15Stim) {
	switch s.kind {
	case 6:
		// let the virtual clock pass the 1 s slow-consumer timer; only safe when
		// nobody waits on a mutex (mutex waits are not durable blocks in a bubble)
		if !c15Settle() {
			time.Sleep(2 * time.Second)
		}
	case 2:
		sub := r.subs[s.a]
		out := sub.Out()
		r.reqs[s.a]++
		r.log(2, int64(s.a), 0, 0)
		go func() {
			select {
			case v, ok := <-out:
				val := int64(-2)
				if ok {
					val = c15EventID(v)
				}
				r.mu.Lock()
				r.labels = append(r.labels, [4]int64{3, int64(s.a), 0, val})
				r.reads[s.a]++
				r.mu.Unlock()
			case <-r.quit:
			}
		}()
	case 0:
		i := s.b
		switch s.a {
		case 0:
			e := r.cfg.emitters[i]
			r.op(0, i, func() error {
				var em event.Emitter
				var err error
				if e.stateful {
					em, err = r.bus.Emitter(c15TypePtr(e.ty), Stateful)
				} else {
					em, err = r.bus.Emitter(c15TypePtr(e.ty))
				}
				r.mu.Lock()
				r.emitters[i] = em
				r.mu.Unlock()
				return err
			})
		case 1:
			em := r.emitters[i]
			// Close is called twice (e.g. an explicit Close plus a deferred one): the
			// second call must be a no-op that reports an error; the operation's
			// result is the first call's
			r.op(1, i, func() error { err := em.Close(); _ = em.Close(); return err })
		case 2:
			e := r.cfg.emits[i]
			em := r.emitters[e.em]
			ev := c15MkEvent(r.cfg.emitters[e.em].ty, e.id)
			r.op(2, i, func() error { return em.Emit(ev) })
		case 3:
			sc := r.cfg.subs[i]
			r.op(3, i, func() error {
				var sub event.Subscription
				var err error
				if sc.rej >= 2 {
					sub, err = c15RejectedSubscribe(r.bus, sc)
				} else if sc.wild {
					sub, err = r.bus.Subscribe(event.WildcardSubscription, BufSize(sc.cap))
				} else if len(sc.tys) == 1 {
					sub, err = r.bus.Subscribe(c15TypePtr(sc.tys[0]), BufSize(sc.cap))
				} else {
					var l []any
					for _, ty := range sc.tys {
						l = append(l, c15TypePtr(ty))
					}
					sub, err = r.bus.Subscribe(l, BufSize(sc.cap))
				}
				r.mu.Lock()
				r.subs[i] = sub
				r.mu.Unlock()
				return err
			})
		case 4:
			sub := r.subs[i]
			// two concurrent Close calls plus a later third one: Close is once-like, no
			// caller may get its return before the subscription is detached, so the
			// operation "returns" as soon as ANY of the calls has returned
			r.op(4, i, func() error {
				done := make(chan error, 2)
				go func() { done <- sub.Close() }()
				go func() { done <- sub.Close() }()
				err := <-done
				go func() { <-done; _ = sub.Close() }()
				return err
			})
		}
	}
}

// enabled stimuli in the current (quiescent) situation
func (r *c15Run) enabled() (res []c15Stim) {
	st := func(k, i int) bool { return r.started[[2]int{k, i}] }
	// at most c15MaxInFlight operations blocked at once (keeps the model's
	// candidate-state sets small); receives are always allowed
	r.mu.Lock()
	inflight := len(r.started) - len(r.returned)
	r.mu.Unlock()
	defer func() {
		if inflight >= c15MaxInFlight && !r.final {
			k := 0
			for _, s := range res {
				if s.kind == 2 {
					res[k] = s
					k++
				}
			}
			res = res[:k]
		}
	}()
	for j := range r.cfg.emitters {
		if !st(0, j) {
			res = append(res, c15Stim{0, 0, j})
		} else if r.isReturned(0, j) && !st(1, j) {
			res = append(res, c15Stim{0, 1, j})
		}
	}
	for k, e := range r.cfg.emits {
		if !st(2, k) && r.isReturned(0, e.em) {
			res = append(res, c15Stim{0, 2, k})
		}
	}
	for s := range r.cfg.subs {
		if !st(3, s) {
			res = append(res, c15Stim{0, 3, s})
		} else if r.isReturned(3, s) && r.cfg.subs[s].rej == 0 && r.haveSub(s) {
			// (a rejected Subscribe handed out nothing to read from or to close)
			if !st(4, s) {
				res = append(res, c15Stim{0, 4, s})
			}
			r.mu.Lock()
			outstanding := r.reqs[s] > r.reads[s]
			r.mu.Unlock()
			if !outstanding {
				res = append(res, c15Stim{2, s, 0})
			}
		}
	}
	return res
}

// c15Execute runs one script in a bubble.  next() returns the next stimulus
// (ok=false: go to the final phase).  Returns the case line and whether some
// operation never returned.
func c15Execute(t *testing.T, cfg c15Cfg, next func(r *c15Run) (c15Stim, bool), drainAtEnd bool, onStuck func([]int64, *c15Run)) (line []int64, stuck bool, r *c15Run) {
	synctest.Test(t, func(t *testing.T) {
		r = &c15Run{cfg: cfg, quit: make(chan struct{}),
			started: map[[2]int]bool{}, returned: map[[2]int]bool{}}
		r.bus = NewBus(withLogger(slog.New(slog.DiscardHandler)))
		r.emitters = make([]event.Emitter, len(cfg.emitters))
		r.subs = make([]event.Subscription, len(cfg.subs))
		r.reqs = make([]int, len(cfg.subs))
		r.reads = make([]int, len(cfg.subs))
		for {
			c15Settle()
			if os.Getenv("C15_DEBUG_SETTLE") != "" {
				r.mu.Lock()
				n0 := len(r.labels)
				r.mu.Unlock()
				n := runtime.Stack(c15StackBuf, true)
				dump := string(c15StackBuf[:n])
				t0 := time.Now()
				for i := 0; i < 200000; i++ {
					runtime.Gosched()
				}
				_ = t0
				r.mu.Lock()
				n1 := len(r.labels)
				r.mu.Unlock()
				if n1 != n0 {
					fmt.Println("PREMATURE SETTLE", n0, n1, r.labels[n0:])
					fmt.Println(dump)
				}
			}
			s, ok := next(r)
			if !ok {
				break
			}
			c15CrashNote(r, s)
			if c15SpinBeforeStimulus > 0 {
				// replay only: let real time pass so that sync.Mutex waiters exceed the
				// 1 ms starvation threshold and locks are handed to the oldest waiter
				for i := 0; i < c15SpinBeforeStimulus; i++ {
					runtime.Gosched()
				}
			}
			r.apply(s)
		}
		r.final = true
		// final phase: optionally read every open subscription dry, then close
		// everything that can be closed until nothing changes
		if drainAtEnd {
			for progress := true; progress; {
				progress = false
				c15Settle()
				for _, s := range r.enabled() {
					if s.kind == 2 && !r.started[[2]int{4, s.a}] {
						r.apply(s)
						c15Settle()
						progress = true
					}
				}
			}
		}
		for progress := true; progress; {
			progress = false
			c15Settle()
			for _, s := range r.enabled() {
				if s.kind == 0 && (s.a == 4 || s.a == 1) {
					r.apply(s)
					c15Settle()
					progress = true
				}
			}
		}
		c15Settle()
		r.log(5, 0, 0, 0)
		r.mu.Lock()
		for k := range r.started {
			if !r.returned[k] {
				stuck = true
			}
		}
		line = c15Encode(cfg, r.labels)
		r.mu.Unlock()
		if !stuck {
			close(r.quit)
		} else if onStuck != nil {
			// the blocked goroutines can never be released and synctest.Test would
			// wait for them forever: hand the case out and stop here
			onStuck(line, r)
		}
	})
	return
}

func c15Encode(cfg c15Cfg, labels [][4]int64) []int64 {
	b2i := func(b bool) int64 {
		if b {
			return 1
		}
		return 0
	}
	l := []int64{int64(cfg.ntypes), int64(len(cfg.emitters)), int64(len(cfg.subs)), int64(len(cfg.emits))}
	for _, e := range cfg.emitters {
		l = append(l, int64(e.ty), b2i(e.stateful))
	}
	for _, s := range cfg.subs {
		w := b2i(s.wild)
		if s.rej >= 2 {
			w = int64(s.rej)
		}
		l = append(l, w, int64(s.cap), int64(len(s.tys)))
		for _, ty := range s.tys {
			l = append(l, int64(ty))
		}
	}
	for _, e := range cfg.emits {
		l = append(l, int64(e.em), e.id)
	}
	l = append(l, int64(len(labels)))
	for _, x := range labels {
		l = append(l, x[0], x[1], x[2], x[3])
	}
	return l
}

func c15Decode(l []int64) (cfg c15Cfg, stims []c15Stim, ok bool) {
	p := 0
	get := func() int64 {
		if p >= len(l) {
			ok = false
			return 0
		}
		p++
		return l[p-1]
	}
	ok = true
	cfg.ntypes = int(get())
	ne, ns, nk := int(get()), int(get()), int(get())
	for i := 0; i < ne && ok; i++ {
		cfg.emitters = append(cfg.emitters, c15Emitter{int(get()), get() == 1})
	}
	for i := 0; i < ns && ok; i++ {
		w := get()
		s := c15Sub{wild: w == 1, cap: int(get())}
		if w >= 2 {
			s.rej = int(w)
		}
		n := int(get())
		for j := 0; j < n && ok; j++ {
			s.tys = append(s.tys, int(get()))
		}
		cfg.subs = append(cfg.subs, s)
	}
	for i := 0; i < nk && ok; i++ {
		cfg.emits = append(cfg.emits, c15Emit{int(get()), get()})
	}
	nl := int(get())
	for i := 0; i < nl && ok; i++ {
		k, a, b, _ := get(), get(), get(), get()
		if k == 0 {
			stims = append(stims, c15Stim{0, int(a), int(b)})
		} else if k == 2 {
			stims = append(stims, c15Stim{2, int(a), 0})
		}
	}
	return
}

var c15Caps = []int{0, 1, 4}

var c15MaxInFlight = 3

var c15SpinBeforeStimulus = 0

func c15GenCfg(r *verifh.Rand, thorough bool) c15Cfg {
	cfg := c15Cfg{ntypes: 2}
	if thorough && r.Chance(1, 4) {
		cfg.ntypes = 3
	}
	ne := 2 + r.Intn(2)
	sfType := r.Intn(cfg.ntypes + 1) // this type's emitters are stateful (ntypes = none)
	for i := 0; i < ne; i++ {
		ty := r.Intn(cfg.ntypes)
		cfg.emitters = append(cfg.emitters, c15Emitter{ty, ty == sfType || r.Chance(1, 8)})
	}
	ns := 1 + r.Intn(3)
	for i := 0; i < ns; i++ {
		s := c15Sub{cap: c15Caps[r.Intn(3)]}
		switch r.Intn(4) {
		case 0:
			s.wild = true
		case 1:
			a := r.Intn(cfg.ntypes)
			b := (a + 1 + r.Intn(cfg.ntypes-1)) % cfg.ntypes
			s.tys = []int{a, b}
		default:
			s.tys = []int{r.Intn(cfg.ntypes)}
		}
		cfg.subs = append(cfg.subs, s)
	}
	if r.Chance(1, 3) {
		// a rejected Subscribe call somewhere in the history: 0-2 valid types, the invalid
		// entry (non-pointer / nil) in front of, between or behind them
		s := c15Sub{cap: c15Caps[r.Intn(2)]}
		switch r.Intn(3) {
		case 0:
		case 1:
			s.tys = []int{r.Intn(cfg.ntypes)}
		default:
			a := r.Intn(cfg.ntypes)
			b := (a + 1 + r.Intn(cfg.ntypes-1)) % cfg.ntypes
			s.tys = []int{a, b}
		}
		s.rej = 2 + 2*r.Intn(len(s.tys)+1) + r.Intn(2)
		at := r.Intn(len(cfg.subs) + 1)
		cfg.subs = append(cfg.subs[:at], append([]c15Sub{s}, cfg.subs[at:]...)...)
	}
	nk := 3 + r.Intn(6)
	for i := 0; i < nk; i++ {
		cfg.emits = append(cfg.emits, c15Emit{r.Intn(ne), int64(100 + i)})
	}
	return cfg
}

func c15Weight(s c15Stim) int {
	if s.kind == 2 {
		return 6
	}
	switch s.a {
	case 0:
		return 8
	case 1:
		return 1
	case 2:
		return 7
	case 3:
		return 6
	}
	return 2 // sub close
}

func c15RandomNext(rnd *verifh.Rand, budget int) func(r *c15Run) (c15Stim, bool) {
	n := 0
	return func(r *c15Run) (c15Stim, bool) {
		if n >= budget {
			return c15Stim{}, false
		}
		n++
		en := r.enabled()
		if len(en) == 0 {
			return c15Stim{}, false
		}
		if rnd.Chance(1, 25) {
			return c15Stim{kind: 6}, true
		}
		tot := 0
		for _, s := range en {
			tot += c15Weight(s)
		}
		x := rnd.Intn(tot)
		for _, s := range en {
			x -= c15Weight(s)
			if x < 0 {
				return s, true
			}
		}
		return en[0], true
	}
}

// coverage from the recorded labels
func c15Cover(out *verifh.Out, cfg c15Cfg, labels [][4]int64) {
	open := map[[2]int64]bool{}
	blockedEmits := func() int {
		n := 0
		for k := range open {
			if k[0] == 2 {
				n++
			}
		}
		return n
	}
	nread, sawClosed, maxBlocked := 0, false, 0
	for _, l := range labels {
		switch l[0] {
		case 0:
			if b := blockedEmits(); b > 0 {
				switch l[1] {
				case 4:
					out.Cover("close_sub.while_emit_blocked")
				case 3:
					out.Cover("subscribe.while_emit_blocked")
				case 1:
					out.Cover("close_emitter.while_emit_blocked")
				case 2:
					out.Cover("emit.while_emit_blocked")
				}
				if b > maxBlocked {
					maxBlocked = b
				}
			}
			open[[2]int64{l[1], l[2]}] = true
		case 1:
			delete(open, [2]int64{l[1], l[2]})
			if l[1] == 2 && l[3] == 1 {
				out.Cover("emit.on_closed_emitter")
			}
		case 2:
			if blockedEmits() > 0 {
				out.Cover("receive.while_emit_blocked")
			}
		case 3:
			if l[3] == -2 {
				sawClosed = true
			} else {
				nread++
			}
		}
	}
	out.CoverN("events.received", int64(nread))
	if sawClosed {
		out.Cover("receive.saw_closed_channel")
	}
	if maxBlocked >= 2 {
		out.Cover("run.two_or_more_emits_blocked_at_once")
	}
	for _, s := range cfg.subs {
		if s.rej >= 2 {
			out.Cover("sub.rejected." + c15RejName(s))
		} else if s.wild {
			out.Cover(fmt.Sprintf("sub.wildcard.cap%d", s.cap))
		} else {
			out.Cover(fmt.Sprintf("sub.typed%d.cap%d", len(s.tys), s.cap))
		}
	}
	out.Cover("runs")
}

// Emitter(T1); Subscribe(T1, buf 0); Emit; Subscribe([T1,T0], buf 0); Emitter(T1); Emit; two receives on sub0
var c15DeadlockCfg = c15Cfg{ntypes: 2,
	emitters: []c15Emitter{{1, false}, {1, false}},
	subs:     []c15Sub{{false, 0, []int{1}, 0}, {false, 0, []int{1, 0}, 0}},
	emits:    []c15Emit{{0, 100}, {0, 101}}}

var c15DeadlockStims = []c15Stim{{0, 0, 0}, {0, 3, 0}, {0, 2, 0}, {0, 3, 1}, {0, 0, 1}, {0, 2, 1}, {2, 0, 0}, {2, 0, 0}}

// known finding (crossing multi-type Subscribes): Emitter(T0); Emitter(T1); sub2 = Subscribe(T0, buf 0); Emit(T0);
// sub0 = Subscribe([T0,T1], buf 0); Emit(T0); sub1 = Subscribe([T1,T0], buf 0); Emit(T1); two receives on sub2
var c15Deadlock2Cfg = c15Cfg{ntypes: 2,
	emitters: []c15Emitter{{0, false}, {1, false}},
	subs:     []c15Sub{{false, 0, []int{0, 1}, 0}, {false, 0, []int{1, 0}, 0}, {false, 0, []int{0}, 0}},
	emits:    []c15Emit{{0, 100}, {0, 101}, {1, 102}}}

var c15Deadlock2Stims = []c15Stim{{0, 0, 0}, {0, 0, 1}, {0, 3, 2}, {0, 2, 0}, {0, 3, 0}, {0, 2, 1}, {0, 3, 1}, {0, 2, 2}, {2, 2, 0}, {2, 2, 0}}

// two emitters of one type, one of them closed (twice) while the type has no subscriber,
// then Subscribe and an Emit on the emitter that is still open: the event must arrive
var c15DblCloseCfg = c15Cfg{ntypes: 1,
	emitters: []c15Emitter{{0, false}, {0, false}},
	subs:     []c15Sub{{false, 1, []int{0}, 0}},
	emits:    []c15Emit{{1, 100}}}

var c15DblCloseStims = []c15Stim{{0, 0, 0}, {0, 0, 1}, {0, 1, 0}, {0, 3, 0}, {0, 2, 0}, {2, 0, 0}, {2, 0, 0}}

// Close of a subscription (two concurrent calls) while an Emit of its type is stalled on
// another, slow subscription: no Close call may return before the sink is detached
var c15Close2Cfg = c15Cfg{ntypes: 1,
	emitters: []c15Emitter{{0, false}},
	subs:     []c15Sub{{false, 0, []int{0}, 0}, {false, 0, []int{0}, 0}},
	emits:    []c15Emit{{0, 100}, {0, 101}}}

var c15Close2Stims = []c15Stim{{0, 0, 0}, {0, 3, 0}, {0, 3, 1}, {0, 2, 0}, {0, 4, 1}, {2, 1, 0}, {2, 0, 0}, {0, 2, 1}, {2, 0, 0}, {2, 0, 0}}

func c15RejName(s c15Sub) string {
	pos, kind := (s.rej-2)/2, (s.rej-2)%2
	where := "middle"
	if len(s.tys) == 0 {
		where = "only"
	} else if pos == 0 {
		where = "first"
	} else if pos >= len(s.tys) {
		where = "last"
	}
	return fmt.Sprintf("invalid_entry_%s.%s", where, []string{"nonpointer", "nil"}[kind])
}

// Directed histories around a REJECTED Subscribe call: the invalid entry (non-pointer / nil)
// in front of, between and behind two valid types, buffer 0 and 1.  Shape A: nobody else
// subscribes; more Emits of each listed type than the buffer of the rejected call holds - every
// one must return.  Shape B: a live subscriber of T0 asks for each event before it is emitted.
// Shape C: the type is stateful and retains an event when the call is rejected.
func c15RejectedScenarios() (cfgs []c15Cfg, stims [][]c15Stim) {
	for kind := 0; kind < 2; kind++ {
		for pos := 0; pos <= 2; pos++ {
			for cp := 0; cp <= 1; cp++ {
				for shape := 0; shape < 2; shape++ {
					cfg := c15Cfg{ntypes: 2, emitters: []c15Emitter{{0, false}, {1, false}},
						subs: []c15Sub{{cap: cp, tys: []int{0, 1}, rej: 2 + 2*pos + kind}}}
					st := []c15Stim{{0, 0, 0}, {0, 0, 1}, {0, 3, 0}}
					if shape == 1 {
						cfg.subs = append(cfg.subs, c15Sub{cap: 4, tys: []int{0}})
						st = append(st, c15Stim{0, 3, 1})
					}
					for ty := 0; ty < 2; ty++ {
						for k := 0; k < cp+2; k++ {
							if shape == 1 && ty == 0 {
								st = append(st, c15Stim{2, 1, 0})
							}
							st = append(st, c15Stim{0, 2, len(cfg.emits)})
							cfg.emits = append(cfg.emits, c15Emit{ty, int64(100 + len(cfg.emits))})
						}
					}
					cfgs, stims = append(cfgs, cfg), append(stims, st)
				}
			}
		}
		cfgs = append(cfgs, c15Cfg{ntypes: 1, emitters: []c15Emitter{{0, true}},
			subs:  []c15Sub{{cap: 0, tys: []int{0}, rej: 2 + 2*1 + kind}},
			emits: []c15Emit{{0, 100}, {0, 101}}})
		stims = append(stims, []c15Stim{{0, 0, 0}, {0, 2, 0}, {0, 3, 0}, {0, 2, 1}})
	}
	return
}

func TestVerifNothing(t *testing.T) {}

func TestVerifC15(t *testing.T) {
	out, err := verifh.Open()
	if err != nil {
		t.Fatal(err)
	}
	rnd := verifh.NewRand(verifh.Seed())
	thorough := verifh.Tier() == "thorough"
	runs := 900
	if thorough {
		runs = 20000
		c15MaxInFlight = 4
	}
	start := 0
	fmt.Sscanf(os.Getenv("C15_START"), "%d", &start)
	ncorpus := 32
	if thorough {
		ncorpus = 102
	}
	runs += ncorpus
	rejCfgs, rejStims := c15RejectedScenarios()
	runs += len(rejCfgs)
	maxInFlight := c15MaxInFlight
	for i := 0; i < runs; i++ {
		rr := rnd.Fork()
		if i < start {
			continue // already executed by an earlier invocation that stopped on a stuck run
		}
		if i < ncorpus {
			// corpus: the minimal history of the bus-lock deadlock repaired by
			// 8aeecd5 (withNode/tryDropNode held basicBus.lk while waiting for n.lk);
			// it struck in about 1 of 3 attempts, depending on sync.Mutex hand-off, so
			// it is attempted many times with real time passing and must complete
			c15MaxInFlight, c15SpinBeforeStimulus = 1<<20, 60000
			k := 0
			ccfg, cstims := c15DeadlockCfg, c15DeadlockStims
			if i >= ncorpus-2 {
				// the last two attempts: the crossing-Subscribe deadlock (known finding)
				ccfg, cstims = c15Deadlock2Cfg, c15Deadlock2Stims
			} else if i >= ncorpus-6 {
				// repeated Emitter.Close / concurrent Subscription.Close scenarios
				c15MaxInFlight, c15SpinBeforeStimulus = maxInFlight, 0
				if i%2 == 0 {
					ccfg, cstims = c15DblCloseCfg, c15DblCloseStims
				} else {
					ccfg, cstims = c15Close2Cfg, c15Close2Stims
				}
			}
			line, _, _ := c15Execute(t, ccfg, func(r *c15Run) (c15Stim, bool) {
				for k < len(cstims) {
					s := cstims[k]
					k++
					for _, e := range r.enabled() {
						if e == s {
							return s, true
						}
					}
				}
				return c15Stim{}, false
			}, false, func(line []int64, r *c15Run) {
				out.Case(line)
				out.Cover("corpus.buslock_deadlock.struck")
				out.Close()
				fmt.Println("C15STUCK")
				os.Exit(1)
			})
			c15MaxInFlight, c15SpinBeforeStimulus = maxInFlight, 0
			out.Case(line)
			out.Cover("corpus.buslock_deadlock.attempts")
			continue
		}
		if i < ncorpus+len(rejCfgs) {
			// directed: histories around a rejected Subscribe call
			k := 0
			ccfg, cstims := rejCfgs[i-ncorpus], rejStims[i-ncorpus]
			line, _, r := c15Execute(t, ccfg, func(r *c15Run) (c15Stim, bool) {
				for k < len(cstims) {
					s := cstims[k]
					k++
					for _, e := range r.enabled() {
						if e == s {
							return s, true
						}
					}
				}
				return c15Stim{}, false
			}, false, func(line []int64, r *c15Run) {
				out.Case(line)
				out.Cover("run.stuck")
				out.Close()
				fmt.Println("C15STUCK")
				os.Exit(1)
			})
			out.Case(line)
			c15Cover(out, ccfg, r.labels)
			out.Cover("directed.rejected_subscribe")
			continue
		}
		cfg := c15GenCfg(rr, thorough)
		budget := 10 + rr.Intn(30)
		drain := rr.Bool()
		// some operation never returned: record the case and stop (the monitor reports it)
		onStuck := func(line []int64, r *c15Run) {
			out.Case(line)
			out.Cover("run.stuck")
			out.Close()
			fmt.Println("C15STUCK")
			os.Exit(1)
		}
		line, _, r := c15Execute(t, cfg, c15RandomNext(rr, budget), drain, onStuck)
		out.Case(line)
		c15Cover(out, cfg, r.labels)
		if drain {
			out.Cover("run.read_dry_before_close")
		}
	}
	if err := out.Close(); err != nil {
		t.Fatal(err)
	}
	os.Remove(os.Getenv("VERIF_OUT") + ".crash")
}

func TestVerifC15Replay(t *testing.T) {
	out, err := verifh.Open()
	if err != nil {
		t.Fatal(err)
	}
	cfg, stims, ok := c15Decode(verifh.ReplayCase())
	c15MaxInFlight = 1 << 20 // replay exactly what was recorded
	c15SpinBeforeStimulus = 60000
	if !ok {
		t.Fatal("cannot decode VERIF_REPLAY_CASE")
	}
	i := 0
	line, _, _ := c15Execute(t, cfg, func(r *c15Run) (c15Stim, bool) {
		for i < len(stims) {
			s := stims[i]
			i++
			for _, e := range r.enabled() {
				if e == s {
					return s, true
				}
			}
		}
		return c15Stim{}, false
	}, false, func(line []int64, r *c15Run) {
		out.Case(line)
		out.Close()
		os.Exit(1)
	})
	out.Case(line)
	out.Close()
}

var c15StackBuf = make([]byte, 1<<20)

var c15BlockedStates = []string{"chan send", "chan receive", "select", "sync.Mutex.Lock", "sync.RWMutex.",
	"sync.WaitGroup.Wait", "semacquire", "synctest.Run", "sync.Cond.Wait"}

// c15Settle waits until every other goroutine of the bubble is blocked (channel operation, select, mutex, WaitGroup).
// synctest.Wait cannot be used: a goroutine waiting for a sync.Mutex is not
// "durably blocked", and Emit/Subscribe/Close routinely wait for n.lk while
// another Emit holds it blocked on a full channel.  Returns whether some
// goroutine waits on a mutex/semaphore.
func c15Settle() (mutexWaiter bool) {
	calm := 0
	for {
		runtime.Gosched()
		n := runtime.Stack(c15StackBuf, true)
		busy := 0
		mutexWaiter = false
		for _, g := range strings.Split(string(c15StackBuf[:n]), "\n\n") {
			if strings.Contains(g, "c15Settle") {
				continue
			}
			i, j := strings.IndexByte(g, '['), strings.IndexByte(g, ']')
			if i < 0 || j < i {
				continue
			}
			st := g[i+1 : j]
			if strings.Contains(st, "synctest bubble") && !strings.Contains(st, "durable") {
				mutexWaiter = true // not durably blocked: the virtual clock cannot advance
			}
			if !strings.Contains(st, "synctest bubble") {
				continue // not one of ours (every harness/bus goroutine lives in the bubble)
			}
			blocked := false
			for _, b := range c15BlockedStates {
				if strings.HasPrefix(st, b) {
					blocked = true
				}
			}
			if !blocked {
				busy++
			}
			if strings.Contains(st, "Mutex") || strings.Contains(st, "semacquire") {
				mutexWaiter = true
			}
		}
		if busy == 0 {
			calm++
			if calm >= 2 {
				return
			}
		} else {
			calm = 0
		}
	}
}

func TestVerifC15Debug(t *testing.T) {
	synctest.Test(t, func(t *testing.T) {
		bus := NewBus()
		sub, _ := bus.Subscribe(new(c15EvA), BufSize(0))
		em, _ := bus.Emitter(new(c15EvA))
		go em.Emit(c15EvA{1})
		go em.Emit(c15EvA{2})
		c15Settle()
		n := runtime.Stack(c15StackBuf, true)
		fmt.Println(string(c15StackBuf[:n]))
		sub.Close()
		c15Settle()
	})
}

// c15CrashNote records, before every stimulus, the case as it would read if
// this stimulus made the process die with an unrecoverable panic in one of
// the bus's own goroutines (send on closed channel, unlock of unlocked
// mutex): labels so far + the stimulus + a panic label.  checks/c15.py
// appends $VERIF_OUT.crash to the cases when the test binary crashed.
func c15CrashNote(r *c15Run, s c15Stim) {
	p := os.Getenv("VERIF_OUT")
	if p == "" || s.kind == 6 {
		return
	}
	r.mu.Lock()
	labels := append([][4]int64{}, r.labels...)
	r.mu.Unlock()
	if s.kind == 0 {
		labels = append(labels, [4]int64{0, int64(s.a), int64(s.b), 0})
	} else {
		labels = append(labels, [4]int64{2, int64(s.a), 0, 0})
	}
	labels = append(labels, [4]int64{4, 0, 0, 0})
	var sb strings.Builder
	for i, v := range c15Encode(r.cfg, labels) {
		if i > 0 {
			sb.WriteByte(' ')
		}
		fmt.Fprintf(&sb, "%d", v)
	}
	sb.WriteByte('\n')
	os.WriteFile(p+".crash", []byte(sb.String()), 0o644)
}

// ---- free-running race stream (outside synctest: real parallelism) -------------------------
// The quiescence-driven runs cannot schedule two bus calls inside each other's critical gaps.
// Here two calls are released together, many times: a Subscribe (or Emitter()) racing with the
// call that makes the node of its type droppable, and a wildcard Subscribe racing with the
// Close of the only other wildcard subscription.  Afterwards an Emit that starts after the
// racing Subscribe returned must reach the new subscription.  A miss is written as a wire
// line (one sequential order consistent with what was issued) that the monitor rejects.
func c15RaceLabels(ops ...[4]int64) [][4]int64 { return ops }

func c15RacePair(a, b func(), spin int) {
	var start atomic.Bool
	done := make(chan struct{})
	go func() {
		for !start.Load() {
		}
		b()
		close(done)
	}()
	for i := 0; i < spin; i++ {
		_ = start.Load()
	}
	start.Store(true)
	a()
	<-done
}

var c15RaceForce = os.Getenv("C15_RACE_FORCE") != "" // self-test: report a miss although the event arrived

func c15RaceTyped(it int, viaEmitter bool) (line []int64, miss bool) {
	bus := NewBus(withLogger(slog.New(slog.DiscardHandler)))
	var s1 event.Subscription
	var e1 event.Emitter
	if viaEmitter {
		e1, _ = bus.Emitter(new(c15EvA))
	} else {
		s1, _ = bus.Subscribe(new(c15EvA), BufSize(1))
	}
	var s2 event.Subscription
	c15RacePair(func() {
		if viaEmitter {
			e1.Close()
		} else {
			s1.Close()
		}
	}, func() { s2, _ = bus.Subscribe(new(c15EvA), BufSize(1)) }, it%64)
	em, _ := bus.Emitter(new(c15EvA))
	em.Emit(c15EvA{100})
	select {
	case <-s2.Out():
	default:
		miss = true
	}
	em.Close()
	s2.Close()
	if !miss && !c15RaceForce {
		return nil, false
	}
	var cfg c15Cfg
	var labels [][4]int64
	if viaEmitter {
		// emitters 0 (closed while Subscribe ran), 1 (fresh); subscription 0
		cfg = c15Cfg{ntypes: 1, emitters: []c15Emitter{{0, false}, {0, false}}, subs: []c15Sub{{false, 1, []int{0}, 0}}, emits: []c15Emit{{1, 100}}}
		labels = c15RaceLabels([4]int64{0, 0, 0, 0}, [4]int64{1, 0, 0, 0}, [4]int64{0, 1, 0, 0}, [4]int64{1, 1, 0, 0},
			[4]int64{0, 3, 0, 0}, [4]int64{1, 3, 0, 0}, [4]int64{0, 0, 1, 0}, [4]int64{1, 0, 1, 0},
			[4]int64{0, 2, 0, 0}, [4]int64{1, 2, 0, 0}, [4]int64{2, 0, 0, 0}, [4]int64{0, 4, 0, 0})
	} else {
		// subscription 0 (closed while Subscribe 1 ran); emitter 0 is created afterwards
		cfg = c15Cfg{ntypes: 1, emitters: []c15Emitter{{0, false}}, subs: []c15Sub{{false, 1, []int{0}, 0}, {false, 1, []int{0}, 0}}, emits: []c15Emit{{0, 100}}}
		labels = c15RaceLabels([4]int64{0, 3, 0, 0}, [4]int64{1, 3, 0, 0}, [4]int64{0, 4, 0, 0}, [4]int64{1, 4, 0, 0},
			[4]int64{0, 3, 1, 0}, [4]int64{1, 3, 1, 0}, [4]int64{0, 0, 0, 0}, [4]int64{1, 0, 0, 0},
			[4]int64{0, 2, 0, 0}, [4]int64{1, 2, 0, 0}, [4]int64{2, 1, 0, 0}, [4]int64{0, 4, 1, 0})
	}
	return c15Encode(cfg, labels), true
}

func c15RaceWild(it int, em event.Emitter, bus event.Bus) (line []int64, miss bool) {
	w1, _ := bus.Subscribe(event.WildcardSubscription, BufSize(0))
	stalled := make(chan struct{})
	go func() { defer close(stalled); em.Emit(c15EvA{1}) }() // stalls on w1 until its Close drains
	time.Sleep(20 * time.Microsecond)
	var w2 event.Subscription
	c15RacePair(func() { w1.Close() }, func() { w2, _ = bus.Subscribe(event.WildcardSubscription, BufSize(4)) }, it%64)
	<-stalled
	em.Emit(c15EvA{2})
	miss = true
	for miss {
		select {
		case e := <-w2.Out():
			if e.(c15EvA).ID == 2 {
				miss = false
			}
			continue // the stalled Emit may have started late and seen w2 already
		default:
		}
		break
	}
	w2.Close()
	if !miss && !c15RaceForce {
		return nil, false
	}
	cfg := c15Cfg{ntypes: 1, emitters: []c15Emitter{{0, false}}, subs: []c15Sub{{true, 0, nil, 0}, {true, 4, nil, 0}}, emits: []c15Emit{{0, 1}, {0, 2}}}
	labels := c15RaceLabels([4]int64{0, 0, 0, 0}, [4]int64{1, 0, 0, 0}, [4]int64{0, 3, 0, 0}, [4]int64{1, 3, 0, 0},
		[4]int64{0, 2, 0, 0}, [4]int64{0, 4, 0, 0}, [4]int64{1, 4, 0, 0}, [4]int64{1, 2, 0, 0},
		[4]int64{0, 3, 1, 0}, [4]int64{1, 3, 1, 0}, [4]int64{0, 2, 1, 0}, [4]int64{1, 2, 1, 0}, [4]int64{2, 1, 0, 0}, [4]int64{0, 4, 1, 0})
	return c15Encode(cfg, labels), true
}

func TestVerifC15Race(t *testing.T) {
	out, err := verifh.Open()
	if err != nil {
		t.Fatal(err)
	}
	if runtime.GOMAXPROCS(0) < 4 {
		defer runtime.GOMAXPROCS(runtime.GOMAXPROCS(4))
	}
	iters, budget := 40000, 60*time.Second
	if verifh.Tier() == "thorough" {
		iters, budget = 300000, 240*time.Second
	}
	deadline := time.Now().Add(budget)
	wbus := NewBus(withLogger(slog.New(slog.DiscardHandler)))
	wem, _ := wbus.Emitter(new(c15EvA))
	n := 0
	for it := 0; it < iters && time.Now().Before(deadline); it++ {
		var line []int64
		var miss bool
		switch it % 4 {
		case 0, 1:
			line, miss = c15RaceTyped(it/4, false)
		case 2:
			line, miss = c15RaceTyped(it/4, true)
		default:
			line, miss = c15RaceWild(it/4, wem, wbus)
		}
		n++
		if c15RaceForce && line != nil {
			out.Case(line)
			if it >= 3 {
				break
			}
			continue
		}
		if miss {
			out.Case(line)
			out.Cover(fmt.Sprintf("race.miss.kind%d", it%4))
			fmt.Printf("C15RACE miss at iteration %d (kind %d)\n", it, it%4)
			break
		}
	}
	out.CoverN("race.iterations", int64(n))
	if err := out.Close(); err != nil {
		t.Fatal(err)
	}
}

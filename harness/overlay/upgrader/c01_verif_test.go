//go:build verif

// C01 correspondence harness, upgrader part (injected with `go test -overlay`;
// not part of /repo).  "When the local side named the peer it expects, the
// handshake succeeds only if that peer ID matches" — in BOTH roles: Upgrade in
// the inbound direction with a non-empty expected peer happens on the dialing
// side of a TCP simultaneous connect / hole punch.  Real upgraders with real
// Noise and TLS over loopback TCP; kind 0 = Upgrader.Upgrade directly, kind 1 =
// through the TCP transport's Dial (network.WithSimultaneousConnect(ctx, false,
// ...) upgrades in the inbound direction with p set).
// Wire format: /verif/coq/c01/Spec.v (tag 7).
package upgrader_test

import (
	"context"
	"testing"
	"time"

	ic "github.com/libp2p/go-libp2p/core/crypto"
	"github.com/libp2p/go-libp2p/core/network"
	"github.com/libp2p/go-libp2p/core/peer"
	"github.com/libp2p/go-libp2p/core/sec"
	"github.com/libp2p/go-libp2p/core/transport"
	"github.com/libp2p/go-libp2p/internal/verifh"
	"github.com/libp2p/go-libp2p/p2p/muxer/yamux"
	"github.com/libp2p/go-libp2p/p2p/net/upgrader"
	"github.com/libp2p/go-libp2p/p2p/security/noise"
	tls "github.com/libp2p/go-libp2p/p2p/security/tls"
	"github.com/libp2p/go-libp2p/p2p/transport/tcp"
	ma "github.com/multiformats/go-multiaddr"
	manet "github.com/multiformats/go-multiaddr/net"
)

func TestVerifNothing(t *testing.T) {}

func c01Upgrader(t *testing.T, secName int, key ic.PrivKey) transport.Upgrader {
	var st sec.SecureTransport
	var err error
	if secName == 0 {
		st, err = noise.New(noise.ID, key, nil)
	} else {
		st, err = tls.New(tls.ID, key, nil)
	}
	if err != nil {
		t.Fatal(err)
	}
	u, err := upgrader.New([]sec.SecureTransport{st}, []upgrader.StreamMuxer{{ID: yamux.ID, Muxer: yamux.DefaultTransport}}, nil, nil, nil)
	if err != nil {
		t.Fatal(err)
	}
	return u
}

func TestVerifC01Upgrader(t *testing.T) {
	out, err := verifh.Open()
	if err != nil {
		t.Fatal(err)
	}
	defer out.Close()
	types := []int{0, 1 + int(verifh.Seed()%3)}
	if verifh.Tier() == "thorough" {
		types = []int{0, 1, 2, 3}
	}
	kts := []int{ic.Ed25519, ic.ECDSA, ic.Secp256k1, ic.RSA}
	var keys [4][3]ic.PrivKey
	var ids [4][3]peer.ID
	for _, ti := range types {
		for n := 0; n < 3; n++ {
			bits := 0
			if kts[ti] == ic.RSA {
				bits = 2048
			}
			sk, _, err := ic.GenerateKeyPair(kts[ti], bits)
			if err != nil {
				t.Fatal(err)
			}
			keys[ti][n] = sk
			ids[ti][n], _ = peer.IDFromPrivateKey(sk)
		}
	}
	name := func(kt int, id peer.ID) int64 {
		for n := 0; n < 3; n++ {
			if ids[kt][n] == id {
				return int64(n + 1)
			}
		}
		return 9
	}
	for _, kt := range types {
		for secName := 0; secName <= 1; secName++ {
			local := c01Upgrader(t, secName, keys[kt][0]) // we are A
			tr, err := tcp.NewTCPTransport(local, nil, nil)
			if err != nil {
				t.Fatal(err)
			}
			for kind := 0; kind <= 1; kind++ {
				for dirIn := 0; dirIn <= 1; dirIn++ {
					for remote := 2; remote <= 3; remote++ { // the remote is B or E
						for exp := 0; exp <= 3; exp++ {
							if exp == 1 {
								continue
							}
							ln, err := manet.Listen(ma.StringCast("/ip4/127.0.0.1/tcp/0"))
							if err != nil {
								t.Fatal(err)
							}
							remoteDone := make(chan struct{})
							go func() {
								// the remote runs the complementary role and accepts whoever we are
								defer close(remoteDone)
								c, err := ln.Accept()
								if err != nil {
									return
								}
								ru := c01Upgrader(t, secName, keys[kt][remote-1])
								ctx, cancel := context.WithTimeout(context.Background(), 5*time.Second)
								defer cancel()
								var rc transport.CapableConn
								if dirIn == 1 {
									rc, err = ru.Upgrade(ctx, nil, c, network.DirOutbound, ids[kt][0], &network.NullScope{})
								} else {
									rc, err = ru.Upgrade(ctx, nil, c, network.DirInbound, "", &network.NullScope{})
								}
								if err == nil {
									time.Sleep(50 * time.Millisecond)
									rc.Close()
								}
							}()
							var expID peer.ID
							if exp != 0 {
								expID = ids[kt][exp-1]
							}
							ctx, cancel := context.WithTimeout(context.Background(), 5*time.Second)
							var c transport.CapableConn
							if kind == 0 {
								mc, derr := manet.Dial(ln.Multiaddr())
								if derr != nil {
									t.Fatal(derr)
								}
								dir := network.DirOutbound
								if dirIn == 1 {
									dir = network.DirInbound
								}
								c, err = local.Upgrade(ctx, nil, mc, dir, expID, &network.NullScope{})
							} else {
								dctx := ctx
								if dirIn == 1 {
									dctx = network.WithSimultaneousConnect(ctx, false, "c01")
								}
								c, err = tr.Dial(dctx, ln.Multiaddr(), expID)
							}
							cancel()
							line := []int64{7, int64(secName), int64(kt), int64(kind), int64(dirIn), int64(exp), int64(remote)}
							if err == nil {
								rk := int64(0)
								if k := c.RemotePublicKey(); k != nil {
									if id, e2 := peer.IDFromPublicKey(k); e2 == nil {
										rk = name(kt, id)
									}
								}
								line = append(line, 1, name(kt, c.RemotePeer()), rk)
								c.Close()
								out.Cover("upgrader_completed")
							} else {
								line = append(line, 0, 0, 0)
								out.Cover("upgrader_refused")
							}
							ln.Close()
							<-remoteDone
							out.Case(line)
							out.Cover([]string{"upgrader_Upgrade", "upgrader_tcp_Dial"}[kind] + []string{"_outbound", "_inbound"}[dirIn])
							out.Cover([]string{"upgrader_noise", "upgrader_tls"}[secName])
						}
					}
				}
			}
		}
	}
}

//go:build verif

package record

// C08: in-package access to the unexported makeUnsigned for the black-box
// harness in package record_test (injected with `go test -overlay`; not part
// of /repo).
func VerifMakeUnsigned(domain string, payloadType, payload []byte) ([]byte, error) {
	b, err := makeUnsigned(domain, payloadType, payload)
	if err != nil {
		return nil, err
	}
	// the slice comes from a pool: copy before anybody can reuse it
	return append([]byte(nil), b...), nil
}

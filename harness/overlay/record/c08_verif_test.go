//go:build verif

package record_test

// C08 correspondence harness (injected with `go test -overlay`; not part of
// /repo).  Drives the real key / peer-ID / envelope code and writes one case
// per line in the wire format documented in /verif/coq/c08/Spec.v.

import (
	"bytes"
	"context"
	"crypto/rsa"
	"crypto/sha256"
	"crypto/x509"
	"encoding/base64"
	"encoding/binary"
	"encoding/json"
	"math/big"
	"strings"
	"testing"
	"time"

	ds "github.com/ipfs/go-datastore"
	dssync "github.com/ipfs/go-datastore/sync"
	"github.com/decred/dcrd/dcrec/secp256k1/v4"
	"github.com/libp2p/go-libp2p/core/crypto"
	cpb "github.com/libp2p/go-libp2p/core/crypto/pb"
	"github.com/libp2p/go-libp2p/core/peer"
	"github.com/libp2p/go-libp2p/core/record"
	rpb "github.com/libp2p/go-libp2p/core/record/pb"
	"github.com/libp2p/go-libp2p/internal/verifh"
	"github.com/libp2p/go-libp2p/p2p/host/peerstore/pstoreds"
	"github.com/libp2p/go-libp2p/p2p/host/peerstore/pstoremem"
	circuit "github.com/libp2p/go-libp2p/p2p/protocol/circuitv2/proto"
	ma "github.com/multiformats/go-multiaddr"
	varint "github.com/multiformats/go-varint"
	"google.golang.org/protobuf/encoding/protowire"
	"google.golang.org/protobuf/proto"
)

// ---- line writer -----------------------------------------------------------

type line struct{ v []int64 }

func (l *line) z(xs ...int64) *line { l.v = append(l.v, xs...); return l }
func (l *line) b(bs []byte) *line {
	l.v = append(l.v, int64(len(bs)))
	for _, x := range bs {
		l.v = append(l.v, int64(x))
	}
	return l
}
func (l *line) u64(x uint64) *line { return l.z(int64(x>>32), int64(x&0xffffffff)) }
func b2i(b bool) int64 {
	if b {
		return 1
	}
	return 0
}

func rbytes(r *verifh.Rand, n int) []byte {
	b := make([]byte, n)
	for i := range b {
		b[i] = byte(r.Uint64())
	}
	return b
}

// lengths around the varint boundaries
func rlen(r *verifh.Rand) int {
	switch r.Intn(10) {
	case 0:
		return 0
	case 1:
		return 1
	case 2:
		return 127
	case 3:
		return 128
	case 4:
		return 129
	case 5:
		return 126 + r.Intn(6)
	case 6:
		return 16383 + r.Intn(3)
	default:
		return r.Intn(40)
	}
}

// ---- kind 1 / 2: varints -----------------------------------------------------

func c08Varints(out *verifh.Out, r *verifh.Rand, n int) {
	vals := []uint64{0, 1, 126, 127, 128, 129, 255, 256, 16383, 16384, 16385, 1<<21 - 1, 1 << 21, 1<<28 - 1, 1 << 28,
		1<<35 - 1, 1 << 35, 1<<42 - 1, 1 << 42, 1<<49 - 1, 1 << 49, 1<<56 - 1, 1 << 56, 1<<62 - 1, 1 << 62,
		1<<63 - 1, 1 << 63, 1<<63 + 1, 1<<64 - 2, 1<<64 - 1}
	for i := 0; i < n; i++ {
		// uniform over bit lengths
		v := r.Uint64() >> uint(r.Intn(64))
		if r.Chance(1, 8) {
			v = (uint64(1) << uint(7*(1+r.Intn(9)))) - uint64(r.Intn(3)) + 1
		}
		vals = append(vals, v)
	}
	for _, v := range vals {
		enc := binary.AppendUvarint(nil, v)
		out.Case((&line{}).z(1).u64(v).b(enc).v)
		out.Cover("varint.encode")
		if len(enc) > 1 {
			out.Cover("varint.encode.multibyte")
		}
	}
	dec := func(buf []byte) {
		l := (&line{}).z(2).b(buf)
		v1, n1 := binary.Uvarint(buf)
		if n1 > 0 {
			l.z(1).u64(v1).z(int64(n1))
		} else {
			l.z(0, 0, 0, 0)
		}
		v2, n2 := protowire.ConsumeVarint(buf)
		if n2 > 0 {
			l.z(1).u64(v2).z(int64(n2))
		} else {
			l.z(0, 0, 0, 0)
		}
		v3, n3, err := varint.FromUvarint(buf)
		if err == nil {
			l.z(1).u64(v3).z(int64(n3))
			out.Cover("varint.decode.mf_ok")
		} else {
			l.z(0, 0, 0, 0)
			out.Cover("varint.decode.mf_reject")
		}
		if n1 > 0 && err != nil {
			out.Cover("varint.decode.nonminimal_or_big")
		}
		if n1 <= 0 {
			out.Cover("varint.decode.u64_reject")
		}
		out.Case(l.v)
	}
	dec(nil)
	for _, v := range vals {
		enc := binary.AppendUvarint(nil, v)
		dec(enc)
		dec(append(append([]byte(nil), enc...), rbytes(r, r.Intn(3))...))
		if len(enc) > 1 {
			dec(enc[:len(enc)-1]) // truncated
		}
		// non-minimal: continuation bit on the last byte plus zero groups
		nm := append([]byte(nil), enc...)
		nm[len(nm)-1] |= 0x80
		for k := r.Intn(3); k >= 0; k-- {
			if k == 0 {
				nm = append(nm, 0)
			} else {
				nm = append(nm, 0x80)
			}
		}
		dec(nm)
		// one byte changed
		fl := append([]byte(nil), enc...)
		fl[r.Intn(len(fl))] ^= byte(1 << uint(r.Intn(8)))
		dec(fl)
	}
	for i := 0; i < n; i++ {
		// random buffers biased to continuation bytes, lengths 0..12
		buf := rbytes(r, r.Intn(13))
		for j := range buf {
			if r.Chance(2, 3) {
				buf[j] |= 0x80
			}
		}
		if len(buf) > 0 && r.Chance(1, 2) {
			buf[len(buf)-1] &= 0x7f
		}
		if len(buf) >= 10 && r.Chance(1, 2) {
			buf[9] = byte(r.Intn(4))
		}
		if len(buf) >= 9 && r.Chance(1, 3) {
			buf[8] = byte(r.Intn(256))
		}
		dec(buf)
	}
}

// ---- kind 3 / 4: makeUnsigned ------------------------------------------------

func c08Unsigned(t *testing.T, out *verifh.Out, r *verifh.Rand, n int) {
	mu := func(d, p, q []byte) []byte {
		b, err := record.VerifMakeUnsigned(string(d), p, q)
		if err != nil {
			t.Fatalf("makeUnsigned: %v", err)
		}
		return b
	}
	one := func(d, p, q []byte) {
		out.Case((&line{}).z(3).b(d).b(p).b(q).b(mu(d, p, q)).v)
		out.Cover("unsigned.cases")
		if len(d) >= 128 || len(p) >= 128 || len(q) >= 128 {
			out.Cover("unsigned.multibyte_length")
		}
		if len(d) == 0 || len(p) == 0 || len(q) == 0 {
			out.Cover("unsigned.empty_field")
		}
	}
	one(nil, nil, nil)
	one([]byte("libp2p-peer-record"), []byte{3, 1}, []byte("payload"))
	for i := 0; i < n; i++ {
		d, p, q := rbytes(r, rlen(r)), rbytes(r, rlen(r)), rbytes(r, rlen(r))
		// contents that look like length prefixes
		if r.Chance(1, 3) && len(p) > 0 {
			p[0] = byte(len(p) - 1)
		}
		if r.Chance(1, 3) && len(q) > 0 {
			q[0] = byte(len(q))
		}
		one(d, p, q)
	}
	// triples whose plain concatenations coincide: one string, two cuts
	for i := 0; i < n; i++ {
		s := rbytes(r, 1+r.Intn(300))
		if r.Chance(1, 2) {
			for j := range s {
				s[j] = byte(r.Intn(4)) // small bytes: contents look like lengths
			}
		}
		cut := func() (int, int) {
			a, b := r.Intn(len(s)+1), r.Intn(len(s)+1)
			if a > b {
				a, b = b, a
			}
			return a, b
		}
		a1, b1 := cut()
		a2, b2 := cut()
		if r.Chance(1, 4) { // move exactly one byte across a boundary
			a2, b2 = a1, b1
			if r.Bool() && a2 < b2 {
				a2++
			} else if b2 < len(s) {
				b2++
			}
		}
		d1, p1, q1 := s[:a1], s[a1:b1], s[b1:]
		d2, p2, q2 := s[:a2], s[a2:b2], s[b2:]
		o1, o2 := mu(d1, p1, q1), mu(d2, p2, q2)
		out.Case((&line{}).z(4).b(d1).b(p1).b(q1).b(o1).b(d2).b(p2).b(q2).b(o2).v)
		out.Cover("unsigned.colliding_concat")
		if a1 != a2 || b1 != b2 {
			out.Cover("unsigned.colliding_concat.distinct_triples")
		}
	}
}

// ---- keys ---------------------------------------------------------------------

type keyInfo struct {
	sk     crypto.PrivKey
	pk     crypto.PubKey
	kt     int64
	raw    []byte
	canon  []byte
	digest []byte
	id     peer.ID
}

func mkKey(t *testing.T, typ int) *keyInfo {
	bits := 0
	if typ == crypto.RSA {
		bits = 2048
	}
	sk, pk, err := crypto.GenerateKeyPair(typ, bits)
	if err != nil {
		t.Fatalf("keygen %d: %v", typ, err)
	}
	return keyInfoOf(t, sk, pk)
}

func keyInfoOf(t *testing.T, sk crypto.PrivKey, pk crypto.PubKey) *keyInfo {
	raw, err := pk.Raw()
	if err != nil {
		t.Fatal(err)
	}
	canon, err := crypto.MarshalPublicKey(pk)
	if err != nil {
		t.Fatal(err)
	}
	dg := sha256.Sum256(canon)
	id, err := peer.IDFromPublicKey(pk)
	if err != nil {
		t.Fatal(err)
	}
	return &keyInfo{sk: sk, pk: pk, kt: int64(pk.Type()), raw: raw, canon: canon, digest: dg[:], id: id}
}

func (k *keyInfo) row(l *line) { l.z(k.kt).b(k.raw).b(k.canon).b(k.digest).b([]byte(k.id)) }

var ktName = map[int64]string{0: "rsa", 1: "ed25519", 2: "secp256k1", 3: "ecdsa"}

// kind 5: one fresh key, all forms and round trips
func c08KeyCase(t *testing.T, out *verifh.Out, k *keyInfo) {
	name := ktName[k.kt]
	f1 := false
	if pk2, err := crypto.UnmarshalPublicKey(k.canon); err == nil {
		f1 = pk2.Equals(k.pk) && k.pk.Equals(pk2) && crypto.KeyEqual(pk2, k.pk)
	}
	f2 := false
	if skb, err := crypto.MarshalPrivateKey(k.sk); err == nil {
		if sk2, err := crypto.UnmarshalPrivateKey(skb); err == nil {
			f2 = sk2.Equals(k.sk) && k.sk.Equals(sk2) && sk2.GetPublic().Equals(k.pk)
		}
	}
	id2, e2 := peer.IDFromPublicKey(k.pk)
	id3, e3 := peer.IDFromPrivateKey(k.sk)
	f3 := e2 == nil && e3 == nil && id2 == k.id && id3 == k.id
	b58 := k.id.String()
	cidText := peer.ToCid(k.id).String()
	d1, e4 := peer.Decode(b58)
	f4 := e4 == nil && d1 == k.id
	d2, e5 := peer.Decode(cidText)
	f5 := e5 == nil && d2 == k.id
	var f6 int64
	if xpk, err := k.id.ExtractPublicKey(); err == nil {
		if xpk.Equals(k.pk) {
			f6 = 0
			out.Cover("key." + name + ".id_embeds_key")
		} else {
			f6 = 3
		}
	} else if err == peer.ErrNoPublicKey {
		f6 = 1
		out.Cover("key." + name + ".id_is_sha256")
	} else {
		f6 = 2
	}
	f7 := k.id.MatchesPublicKey(k.pk) && k.id.MatchesPrivateKey(k.sk)
	f8 := false
	if mb, err := k.id.Marshal(); err == nil {
		if id4, err := peer.IDFromBytes(mb); err == nil && id4 == k.id {
			var id5, id6, id7 peer.ID
			tx, _ := k.id.MarshalText()
			js, _ := json.Marshal(k.id)
			e1 := id5.UnmarshalText(tx)
			e2 := json.Unmarshal(js, &id6)
			e3 := id7.UnmarshalBinary(mb)
			f8 = e1 == nil && e2 == nil && e3 == nil && id5 == k.id && id6 == k.id && id7 == k.id
		}
	}
	l := (&line{}).z(5, k.kt).b(k.raw).b(k.canon).b(k.digest).b([]byte(k.id)).b([]byte(b58)).b([]byte(cidText))
	l.z(b2i(f1), b2i(f2), b2i(f3), b2i(f4), b2i(f5), f6, b2i(f7), b2i(f8))
	out.Case(l.v)
	out.Cover("key." + name + ".cases")
}

// the harness's own reading of a marshalled pb.PublicKey / key decoding class
func keyClass(pm *cpb.PublicKey, table []*keyInfo) (cls int64, kdec int64, pk crypto.PubKey) {
	um, ok := crypto.PubKeyUnmarshallers[pm.GetType()]
	if !ok {
		return 1, -3, nil
	}
	pk, err := um(pm.GetData())
	if err != nil {
		return 2, -1, nil
	}
	for i, k := range table {
		if pk.Equals(k.pk) {
			return 3, int64(i), pk
		}
	}
	return 3, -2, pk
}

// kind 8: UnmarshalPublicKey on edited bytes
func c08PubkeyEdit(out *verifh.Out, b []byte, what string) {
	var pm cpb.PublicKey
	err := proto.Unmarshal(b, &pm)
	l := (&line{}).z(8).b(b)
	if err == nil {
		l.z(1, int64(pm.GetType())).b(pm.GetData())
	} else {
		l.z(0, 0).b(nil)
	}
	pk, uerr := crypto.UnmarshalPublicKey(b)
	var cls, rt int64
	switch {
	case uerr == nil:
		cls = 3
		if mb, err := crypto.MarshalPublicKey(pk); err == nil {
			if pk2, err := crypto.UnmarshalPublicKey(mb); err == nil && pk2.Equals(pk) && pk.Equals(pk2) {
				rt = 1
			}
		}
		out.Cover("pubkey_edit.accepted")
	case uerr == crypto.ErrBadKeyType:
		cls = 1
		out.Cover("pubkey_edit.bad_type")
	case err != nil:
		cls = 0
		out.Cover("pubkey_edit.proto_error")
	default:
		cls = 2
		out.Cover("pubkey_edit.key_data_rejected")
	}
	l.z(cls, rt)
	out.Case(l.v)
	out.Cover("pubkey_edit." + what)
}

func flips(r *verifh.Rand, b []byte, every int, f func(m []byte, what string)) {
	for i := 0; i < len(b); i++ {
		if every > 1 && i >= 24 && i < len(b)-8 && i%every != 0 {
			continue
		}
		m := append([]byte(nil), b...)
		switch r.Intn(3) {
		case 0:
			m[i] ^= byte(1 << uint(r.Intn(8)))
		case 1:
			m[i] ^= 0xff
		default:
			m[i] ^= byte(1 + r.Intn(255))
		}
		f(m, "flip")
	}
}

func truncs(b []byte, every int, f func(m []byte, what string)) {
	for n := 0; n < len(b); n++ {
		if every > 1 && n >= 24 && n < len(b)-8 && n%every != 0 {
			continue
		}
		f(append([]byte(nil), b[:n]...), "truncate")
	}
}

// protobuf-level edits of a marshalled PublicKey{Type, Data}
func pubkeyFieldEdits(r *verifh.Rand, kt int64, data []byte, f func(m []byte, what string)) {
	tagT := protowire.AppendTag(nil, 1, protowire.VarintType)
	tagD := protowire.AppendTag(nil, 2, protowire.BytesType)
	typ := protowire.AppendVarint(nil, uint64(kt))
	dat := protowire.AppendBytes(nil, data)
	cat := func(parts ...[]byte) []byte { return bytes.Join(parts, nil) }
	f(cat(tagD, dat, tagT, typ), "reordered")
	f(cat(tagT, typ), "no_data")
	f(cat(tagD, dat), "no_type")
	f(cat(tagT, typ, tagD, dat, tagT, protowire.AppendVarint(nil, uint64((kt+1)%4))), "type_overridden")
	f(cat(tagT, protowire.AppendVarint(nil, uint64(kt)+1<<32), tagD, dat), "type_plus_2^32")
	f(cat(tagT, protowire.AppendVarint(nil, uint64(kt)|1<<31), tagD, dat), "type_negative")
	f(cat(tagT, protowire.AppendVarint(nil, 4+uint64(r.Intn(100))), tagD, dat), "type_unknown")
	f(cat(tagT, []byte{byte(kt) | 0x80, 0x00}, tagD, dat), "type_nonminimal")
	f(cat(tagT, typ, tagD, dat, tagD, protowire.AppendBytes(nil, data[:len(data)/2])), "data_overridden")
	f(cat(tagT, typ, tagD, dat, protowire.AppendTag(nil, 3, protowire.BytesType), protowire.AppendBytes(nil, rbytes(r, 5))), "unknown_field")
	f(cat(protowire.AppendTag(nil, 1, protowire.BytesType), protowire.AppendBytes(nil, typ), tagT, typ, tagD, dat), "type_wrong_wiretype_first")
	f(cat(protowire.AppendTag(nil, 2, protowire.VarintType), []byte{7}, tagT, typ, tagD, dat), "data_wrong_wiretype_first")
	f(cat(tagT, typ, tagD, dat, protowire.AppendTag(nil, 7, protowire.StartGroupType),
		protowire.AppendTag(nil, 1, protowire.VarintType), []byte{5}, protowire.AppendTag(nil, 7, protowire.EndGroupType)), "unknown_group")
	f(cat(tagT, typ, tagD, dat, protowire.AppendTag(nil, 7, protowire.StartGroupType),
		protowire.AppendTag(nil, 8, protowire.EndGroupType)), "group_mismatch")
	f(cat(tagT, typ, tagD, dat, protowire.AppendTag(nil, 7, protowire.EndGroupType)), "stray_end_group")
	f(cat(tagT, typ, tagD, dat, []byte{0x00}), "field_number_zero")
	f(cat(tagT, typ, tagD, dat, protowire.AppendVarint(nil, uint64(1<<29)<<3), []byte{1}), "field_number_too_big")
	f(cat(tagT, typ, tagD, dat, protowire.AppendTag(nil, 9, protowire.Fixed32Type), rbytes(r, 4),
		protowire.AppendTag(nil, 10, protowire.Fixed64Type), rbytes(r, 8)), "unknown_fixed")
	f(cat(tagT, typ, tagD, dat, protowire.AppendTag(nil, 9, protowire.Fixed64Type), rbytes(r, 5)), "fixed64_short")
	f(cat(tagT, typ, tagD, dat, []byte{0x0e}), "wire_type_6")
	f(cat(tagT, typ, tagD, protowire.AppendVarint(nil, uint64(len(data))+1), data), "length_one_more")
	f(cat(tagT, typ, tagD, protowire.AppendVarint(nil, uint64(len(data))-1), data), "length_one_less")
	f(cat([]byte{tagT[0] | 0x80, 0x00}, typ, tagD, dat), "tag_nonminimal")
}

type alias struct {
	b    []byte
	what string
}

// serializations of PublicKey{Type: kt, Data: data} other than the canonical one that
// protobuf accepts and that carry the same (type, data)
func keyAliases(r *verifh.Rand, kt int64, data []byte) []alias {
	tagT := protowire.AppendTag(nil, 1, protowire.VarintType)
	tagD := protowire.AppendTag(nil, 2, protowire.BytesType)
	typ := protowire.AppendVarint(nil, uint64(kt))
	dat := protowire.AppendBytes(nil, data)
	unkV := cat(protowire.AppendTag(nil, 3, protowire.VarintType), []byte{byte(1 + r.Intn(100))})
	unkB := cat(protowire.AppendTag(nil, 4, protowire.BytesType), protowire.AppendBytes(nil, rbytes(r, 1+r.Intn(3))))
	return []alias{
		{cat(tagT, typ, tagD, dat, unkV), "unknown_varint_appended"},
		{cat(tagT, typ, tagD, dat, unkB), "unknown_bytes_appended"},
		{cat(unkV, tagT, typ, tagD, dat), "unknown_varint_prepended"},
		{cat(tagT, typ, unkB, tagD, dat), "unknown_bytes_between"},
		{cat(tagD, dat, tagT, typ), "fields_reordered"},
		{cat(tagT, []byte{byte(kt) | 0x80, 0x00}, tagD, dat), "type_redundant_varint"},
		{cat(tagT, protowire.AppendVarint(nil, uint64(kt)+1<<32), tagD, dat), "type_plus_2^32"},
		{cat([]byte{tagT[0] | 0x80, 0x00}, typ, tagD, dat), "tag_redundant_varint"},
		{cat(tagT, protowire.AppendVarint(nil, uint64((kt+1)%4)), tagT, typ, tagD, dat), "type_repeated_last_wins"},
		{cat(tagD, protowire.AppendBytes(nil, rbytes(r, 7)), tagT, typ, tagD, dat), "data_repeated_last_wins"},
		{cat(tagT, typ, tagD, dat, protowire.AppendTag(nil, 7, protowire.StartGroupType), unkV, protowire.AppendTag(nil, 7, protowire.EndGroupType)), "unknown_group_appended"},
		{cat(tagT, typ, tagD, dat, protowire.AppendTag(nil, 9, protowire.Fixed32Type), rbytes(r, 4)), "unknown_fixed32_appended"},
	}
}

// identity multihash over arbitrary bytes
func identityID(b []byte) peer.ID {
	return peer.ID(cat([]byte{0x00}, varint.ToUvarint(uint64(len(b))), b))
}

// IDs that are NOT IDFromPublicKey(k.pk) but name the same key in some way
func aliasIDs(r *verifh.Rand, k *keyInfo) []alias {
	var res []alias
	for _, a := range keyAliases(r, k.kt, k.raw) {
		res = append(res, alias{[]byte(identityID(a.b)), "identity_over_" + a.what})
	}
	if len(k.canon) > 42 {
		res = append(res, alias{[]byte(identityID(k.canon)), "identity_over_canonical_of_hashed_key"})
	} else {
		res = append(res, alias{cat([]byte{0x12, 0x20}, k.digest), "sha256_of_inlined_key"})
	}
	return res
}

// kind 11: other serializations of the same key: equal key, same marshalled form, same ID
func c08KeyAliasCases(out *verifh.Out, r *verifh.Rand, k *keyInfo) {
	name := ktName[k.kt]
	for _, a := range append(keyAliases(r, k.kt, k.raw), alias{k.canon, "canonical"}) {
		l := (&line{}).z(11, k.kt).b(k.raw).b(k.canon).b([]byte(k.id)).b(a.b)
		pk, err := crypto.UnmarshalPublicKey(a.b)
		if err != nil {
			var pm cpb.PublicKey
			cls := int64(2)
			if perr := proto.Unmarshal(a.b, &pm); perr != nil {
				cls = 0
			} else if err == crypto.ErrBadKeyType {
				cls = 1
			}
			l.z(cls, 0).b(nil).b(nil)
			out.Cover("keyalias." + name + ".rejected")
		} else {
			eq := pk.Equals(k.pk) && k.pk.Equals(pk)
			rem, e1 := crypto.MarshalPublicKey(pk)
			id2, e2 := peer.IDFromPublicKey(pk)
			if e1 != nil || e2 != nil {
				rem, id2 = nil, ""
			}
			l.z(3, b2i(eq)).b(rem).b([]byte(id2))
			out.Cover("keyalias." + name + ".accepted")
		}
		out.Case(l.v)
		out.Cover("keyalias." + a.what)
	}
}

// kind 12: MatchesPublicKey probes
func c08Matches(out *verifh.Out, r *verifh.Rand, k *keyInfo) {
	name := ktName[k.kt]
	probe := func(id []byte, what string) {
		m := peer.ID(id).MatchesPublicKey(k.pk)
		out.Case((&line{}).z(12).b(k.canon).b(k.digest).b([]byte(k.id)).b(id).z(b2i(m)).v)
		out.Cover("matches." + what)
		if m {
			out.Cover("matches." + name + ".true")
		} else {
			out.Cover("matches." + name + ".false")
		}
	}
	idb := []byte(k.id)
	probe(idb, "own_id")
	probe(nil, "empty")
	for _, a := range aliasIDs(r, k) {
		probe(a.b, "alias_"+a.what)
	}
	flips(r, idb, 3, func(m []byte, w string) { probe(m, w) })
	probe(idb[:len(idb)-1], "truncated")
	probe(cat(idb, []byte{0}), "extended")
}

// kind 13: RSA moduli of exact bit lengths around MinRsaKeyBits and maxRsaKeyBits.  Parsing a
// public key does not need the factors, so the modulus is a random odd number of that length.
func c08RSASizes(t *testing.T, out *verifh.Out, r *verifh.Rand) {
	for _, bits := range []int{1024, 2040, 2047, 2048, 2049, 3072, 4096, 8184, 8191, 8192, 8193, 8200, 16384} {
		nb := rbytes(r, (bits+7)/8)
		top := uint(bits-1) % 8
		nb[0] = nb[0]&byte((1<<(top+1))-1) | byte(1<<top)
		nb[len(nb)-1] |= 1
		n := new(big.Int).SetBytes(nb)
		if n.BitLen() != bits {
			t.Fatalf("modulus has %d bits, want %d", n.BitLen(), bits)
		}
		der, err := x509.MarshalPKIXPublicKey(&rsa.PublicKey{N: n, E: 65537})
		if err != nil {
			t.Fatal(err)
		}
		c08RSAPublic(t, out, bits, der, "synthetic")
	}
}

func c08RSAPublic(t *testing.T, out *verifh.Out, bits int, der []byte, what string) {
	marshalled := mustMarshal(t, &cpb.PublicKey{Type: cpb.KeyType_RSA.Enum(), Data: der})
	var cls, rt int64 = 2, 0
	if pk, err := crypto.UnmarshalPublicKey(marshalled); err == nil {
		cls = 3
		if mb, err := crypto.MarshalPublicKey(pk); err == nil && bytes.Equal(mb, marshalled) {
			if pk2, err := crypto.UnmarshalPublicKey(mb); err == nil && pk2.Equals(pk) && pk.Equals(pk2) {
				rt = 1
			}
		}
		out.Cover("rsa_size.accepted")
	} else {
		out.Cover("rsa_size.rejected")
	}
	out.Case([]int64{13, int64(bits), 0, cls, rt})
	out.Cover("rsa_size." + what)
}

// the embedded 8192-bit key pair: private-key round trip, public-key round trip, all forms,
// one signature
func c08RSA8192(t *testing.T, out *verifh.Out, r *verifh.Rand) *keyInfo {
	der, err := base64.StdEncoding.DecodeString(c08RSA8192PKCS1)
	if err != nil {
		t.Fatal(err)
	}
	std, err := x509.ParsePKCS1PrivateKey(der)
	if err != nil {
		t.Fatal(err)
	}
	bits := std.N.BitLen()
	skm := mustMarshal(t, &cpb.PrivateKey{Type: cpb.KeyType_RSA.Enum(), Data: der})
	sk, err := crypto.UnmarshalPrivateKey(skm)
	if err != nil {
		out.Case([]int64{13, int64(bits), 1, 2, 0})
		out.Cover("rsa_size.embedded_8192_private_rejected")
		// still probe the public half
		pder, _ := x509.MarshalPKIXPublicKey(&std.PublicKey)
		c08RSAPublic(t, out, bits, pder, "embedded_8192_public")
		return nil
	}
	var rt int64
	if mb, err := crypto.MarshalPrivateKey(sk); err == nil {
		if sk2, err := crypto.UnmarshalPrivateKey(mb); err == nil && sk2.Equals(sk) && sk.Equals(sk2) {
			rt = 1
		}
	}
	out.Case([]int64{13, int64(bits), 1, 3, rt})
	out.Cover("rsa_size.embedded_8192_private")
	pk := sk.GetPublic()
	pder, err := pk.Raw()
	if err != nil {
		t.Fatal(err)
	}
	c08RSAPublic(t, out, bits, pder, "embedded_8192_public")
	return keyInfoOf(t, sk, pk)
}

// kind 7: verification matrix
func c08Sigs(t *testing.T, out *verifh.Out, r *verifh.Rand, signer *keyInfo, others []*keyInfo, nmsg int, every int) {
	name := ktName[signer.kt]
	one := func(same bool, pk crypto.PubKey, msg, sig, msg2, sig2 []byte, what string) {
		ok, err := pk.Verify(msg2, sig2)
		var res int64
		if err != nil {
			res = 2
		} else if ok {
			res = 1
		}
		out.Case((&line{}).z(7, b2i(same)).b(msg).b(sig).b(msg2).b(sig2).z(res).v)
		out.Cover("sig." + name + "." + what)
		if res == 1 {
			out.Cover("sig." + name + ".verified")
		}
		if res == 1 && !bytes.Equal(sig, sig2) {
			out.Cover("sig." + name + ".verified_with_different_signature_bytes")
		}
	}
	for i := 0; i < nmsg; i++ {
		// short messages: every byte is flipped below (one long message for the length boundaries)
		msg := rbytes(r, 1+r.Intn(48))
		mevery := 1
		if i == 1 {
			msg = rbytes(r, 126+r.Intn(6))
			mevery = 5
		}
		sig, err := signer.sk.Sign(msg)
		if err != nil {
			t.Fatalf("sign: %v", err)
		}
		one(true, signer.pk, msg, sig, msg, sig, "own")
		// the same key after a marshal round trip
		if pk2, err := crypto.UnmarshalPublicKey(signer.canon); err == nil {
			one(true, pk2, msg, sig, msg, sig, "own_roundtripped_key")
		}
		for _, o := range others {
			one(false, o.pk, msg, sig, msg, sig, "foreign_key_"+ktName[o.kt])
		}
		// other messages
		flips(r, msg, mevery, func(m []byte, what string) { one(true, signer.pk, msg, sig, m, sig, "msg_"+what) })
		truncs(msg, mevery, func(m []byte, what string) { one(true, signer.pk, msg, sig, m, sig, "msg_"+what) })
		one(true, signer.pk, msg, sig, append(append([]byte(nil), msg...), 0), sig, "msg_extended")
		one(true, signer.pk, msg, sig, append([]byte{0}, msg...), sig, "msg_prefixed")
		one(true, signer.pk, msg, sig, rbytes(r, len(msg)), sig, "msg_random")
		// other signature bytes (no prediction; the monitor still applies)
		if i == 0 {
			flips(r, sig, every, func(s []byte, what string) { one(true, signer.pk, msg, sig, msg, s, "sig_"+what) })
			truncs(sig, every, func(s []byte, what string) { one(true, signer.pk, msg, sig, msg, s, "sig_"+what) })
			one(true, signer.pk, msg, sig, msg, append(append([]byte(nil), sig...), 0), "sig_extended")
			one(true, signer.pk, msg, sig, msg, nil, "sig_empty")
			// a second, independently produced signature of the same message
			if sig2, err := signer.sk.Sign(msg); err == nil {
				one(true, signer.pk, msg, sig, msg, sig2, "sig_resigned")
			}
			// a signature of another message under the same key
			m2 := append(append([]byte(nil), msg...), 1)
			if sig3, err := signer.sk.Sign(m2); err == nil {
				one(true, signer.pk, m2, sig3, msg, sig3, "sig_of_other_message")
			}
		}
	}
}

// ---- kind 9 / 10: ID text and bytes ---------------------------------------------

func c08IDForms(out *verifh.Out, r *verifh.Rand, k *keyInfo) {
	text := func(s string, what string) {
		id, err := peer.Decode(s)
		l := (&line{}).z(9).b([]byte(s))
		if err == nil {
			l.z(1).b([]byte(id))
			out.Cover("idtext.accepted")
		} else {
			l.z(0).b(nil)
			out.Cover("idtext.rejected")
		}
		out.Case(l.v)
		out.Cover("idtext." + what)
	}
	raw := func(b []byte, what string) {
		id, err := peer.IDFromBytes(b)
		var ex int64 = 2
		if err == nil {
			if _, e := id.ExtractPublicKey(); e == nil {
				ex = 0
			} else if e == peer.ErrNoPublicKey {
				ex = 1
			}
		} else {
			// ExtractPublicKey on the raw string, as a receiver that skipped IDFromBytes would
			if _, e := peer.ID(b).ExtractPublicKey(); e == nil {
				ex = 0
			} else if e == peer.ErrNoPublicKey {
				ex = 1
			}
		}
		out.Case((&line{}).z(10).b(b).z(b2i(err == nil), ex).v)
		out.Cover("idbytes." + what)
		if err == nil {
			out.Cover("idbytes.accepted")
		}
	}
	b58 := k.id.String()
	cidText := peer.ToCid(k.id).String()
	text(b58, "own_b58")
	text(cidText, "own_cid")
	text("", "empty")
	text("1", "one")
	text("Qm", "Qm")
	text("b", "b")
	const alpha = "123456789ABCDEFGHJKLMNPQRSTUVWXYZabcdefghijkmnopqrstuvwxyz0OIl-"
	for i := 0; i < len(b58); i++ {
		m := []byte(b58)
		m[i] = alpha[r.Intn(len(alpha))]
		text(string(m), "b58_substitute")
		text(b58[:i], "b58_truncate")
	}
	text(b58+"1", "b58_extended")
	text("1"+b58, "b58_prefixed_1")
	const a32 = "abcdefghijklmnopqrstuvwxyz234567"
	for i := 0; i < len(cidText); i++ {
		m := []byte(cidText)
		m[i] = a32[r.Intn(len(a32))]
		text(string(m), "cid_substitute")
	}
	idb := []byte(k.id)
	raw(idb, "own")
	raw(nil, "empty")
	flips(r, idb, 1, func(m []byte, w string) { raw(m, w) })
	truncs(idb, 1, func(m []byte, w string) { raw(m, w) })
	raw(append(append([]byte(nil), idb...), 0), "extended")
	// other multihash headers over the same digest
	raw(append([]byte{0x11, byte(len(idb) - 2)}, idb[2:]...), "sha1_header")
	raw(append([]byte{0x80, 0x00, byte(len(idb) - 2)}, idb[2:]...), "nonminimal_code")
	raw(append([]byte{0x00, 0x80 | byte(len(idb)-2), 0x00}, idb[2:]...), "nonminimal_length")
}

// ---- kind 6: envelopes --------------------------------------------------------

type rawRec struct {
	dom     string
	codec   []byte
	payload []byte
}

func (r *rawRec) Domain() string                 { return r.dom }
func (r *rawRec) Codec() []byte                  { return r.codec }
func (r *rawRec) MarshalRecord() ([]byte, error) { return r.payload, nil }
func (r *rawRec) UnmarshalRecord(b []byte) error { r.payload = append([]byte(nil), b...); return nil }

// a registered type, so that ConsumeEnvelope finds it by payload type
var regCodec = []byte{0x99, 0x01}

type regRec struct{ rawRec }

func (r *regRec) Codec() []byte { return regCodec }

func init() { record.RegisterType(&regRec{}) }

type sealRow struct {
	kidx          int64
	dom           string
	pt, pl, sigv []byte
}

type envCtx struct {
	t     *testing.T
	out   *verifh.Out
	keys  []*keyInfo
	seals []sealRow
	mem   interface {
		ConsumePeerRecord(*record.Envelope, time.Duration) (bool, error)
	}
	dsb interface {
		ConsumePeerRecord(*record.Envelope, time.Duration) (bool, error)
	}
}

const (
	modeConsume = 0 // ConsumeEnvelope
	modeTyped   = 1 // ConsumeTypedEnvelope with a raw record
	modeMem     = 2 // ConsumeEnvelope + pstoremem ConsumePeerRecord
	modeDs      = 3 // ConsumeEnvelope + pstoreds ConsumePeerRecord
)

func classify(err error) int64 {
	switch {
	case err == nil:
		return 1
	case strings.HasPrefix(err.Error(), "failed when unmarshalling the envelope"):
		return 0
	case strings.HasPrefix(err.Error(), "failed to validate envelope"):
		return 2
	case strings.HasPrefix(err.Error(), "failed to unmarshal envelope payload"):
		return 3
	}
	return 4
}

func (c *envCtx) attempt(mode int, data []byte, dom string, what string) {
	out := c.out
	l := (&line{}).z(6, int64(mode), int64(len(c.keys)))
	for _, k := range c.keys {
		k.row(l)
	}
	l.z(int64(len(c.seals)))
	for _, s := range c.seals {
		l.z(s.kidx).b([]byte(s.dom)).b(s.pt).b(s.pl).b(s.sigv)
	}
	l.b(data).b([]byte(dom))
	// the harness's own reading of the protobuf + the key decoder's answer
	var pe rpb.Envelope
	var kdec int64 = -3
	if err := proto.Unmarshal(data, &pe); err == nil {
		l.z(1, int64(pe.GetPublicKey().GetType())).b(pe.GetPublicKey().GetData())
		_, kdec, _ = keyClass(pe.GetPublicKey(), c.keys)
	} else {
		l.z(0, 0).b(nil)
	}
	l.z(kdec)
	if e, err := record.UnmarshalEnvelope(data); err == nil {
		l.z(1).b(e.PayloadType).b(e.RawPayload)
	} else {
		l.z(0).b(nil).b(nil)
	}
	var env *record.Envelope
	var rec record.Record
	var err error
	if mode == modeTyped {
		dst := &rawRec{dom: dom}
		env, err = record.ConsumeTypedEnvelope(data, dst)
		rec = dst
	} else {
		env, rec, err = record.ConsumeEnvelope(data, dom)
	}
	res := classify(err)
	if res == 1 {
		signer, merr := crypto.MarshalPublicKey(env.PublicKey)
		if merr != nil {
			c.t.Fatalf("marshal accepted key: %v", merr)
		}
		aid, ierr := peer.IDFromPublicKey(env.PublicKey)
		if ierr != nil {
			c.t.Fatalf("id of accepted key: %v", ierr)
		}
		l.z(1).b(signer).b(env.PayloadType).b(env.RawPayload).b([]byte(aid))
		out.Cover("env.accepted")
		out.Cover("env.accepted." + what)
	} else {
		l.z(res).b(nil).b(nil).b(nil).b(nil)
		out.Cover([]string{"env.rejected.unmarshal", "", "env.rejected.validate", "env.rejected.payload", "env.rejected.other"}[res])
	}
	var prres int64
	var recid []byte
	if res == 1 && (mode == modeMem || mode == modeDs) {
		if pr, ok := rec.(*peer.PeerRecord); ok {
			recid = []byte(pr.PeerID)
			book := c.mem
			if mode == modeDs {
				book = c.dsb
			}
			acc, perr := book.ConsumePeerRecord(env, time.Hour)
			switch {
			case perr == nil && acc:
				prres = 1
				out.Cover("peerrecord.accepted")
			case perr != nil && strings.Contains(perr.Error(), "signing key does not match"):
				prres = 2
				out.Cover("peerrecord.rejected_id_mismatch")
			default:
				prres = 3
			}
		}
	}
	l.z(prres).b(recid)
	out.Case(l.v)
	out.Cover("env.attempts")
	out.Cover("env.edit." + what)
}

func mustMarshal(t *testing.T, m proto.Message) []byte {
	b, err := proto.Marshal(m)
	if err != nil {
		t.Fatal(err)
	}
	return b
}

func cat(parts ...[]byte) []byte { return bytes.Join(parts, nil) }

// one sealed envelope and the whole neighbourhood of edits
func c08Envelope(t *testing.T, out *verifh.Out, r *verifh.Rand, c *envCtx, mode int, rec record.Record, every int, full bool) {
	signer, foreign := c.keys[0], c.keys[1]
	env, err := record.Seal(rec, signer.sk)
	if err != nil {
		t.Fatalf("seal: %v", err)
	}
	data, err := env.Marshal()
	if err != nil {
		t.Fatal(err)
	}
	var pe rpb.Envelope
	if err := proto.Unmarshal(data, &pe); err != nil {
		t.Fatal(err)
	}
	dom := rec.Domain()
	pt, pl, sig := pe.PayloadType, pe.Payload, pe.Signature
	c.seals = []sealRow{{0, dom, pt, pl, sig}}
	name := ktName[signer.kt]
	at := func(d []byte, dm string, what string) { c.attempt(mode, d, dm, what) }

	at(data, dom, "none")
	out.Cover("env.sealed." + name)
	// --- domains
	at(data, dom+"x", "domain_extended")
	at(data, dom[:len(dom)-1], "domain_truncated")
	at(data, "", "domain_empty")
	at(data, peer.PeerRecordEnvelopeDomain, "domain_peer_record")
	at(data, circuit.RecordDomain, "domain_relay_voucher")
	at(data, strings.ToUpper(dom), "domain_case")
	// --- concatenation-preserving shifts between domain / payload type / payload
	remarshal := func(f func(e *rpb.Envelope)) []byte {
		e := proto.Clone(&pe).(*rpb.Envelope)
		f(e)
		return mustMarshal(t, e)
	}
	for k := 1; k <= len(pt); k++ {
		// domain' = domain ++ pt[:k], type' = pt[k:]
		at(remarshal(func(e *rpb.Envelope) { e.PayloadType = pt[k:] }), dom+string(pt[:k]), "shift_type_into_domain")
	}
	for k := 1; k <= len(dom) && k <= 3; k++ {
		at(remarshal(func(e *rpb.Envelope) { e.PayloadType = cat([]byte(dom[len(dom)-k:]), pt) }), dom[:len(dom)-k], "shift_domain_into_type")
	}
	for k := 1; k <= len(pl) && k <= 3; k++ {
		at(remarshal(func(e *rpb.Envelope) { e.PayloadType = cat(pt, pl[:k]); e.Payload = pl[k:] }), dom, "shift_payload_into_type")
	}
	for k := 1; k <= len(pt); k++ {
		at(remarshal(func(e *rpb.Envelope) { e.PayloadType = pt[:len(pt)-k]; e.Payload = cat(pt[len(pt)-k:], pl) }), dom, "shift_type_into_payload")
	}
	// length prefixes moved into the neighbouring field
	at(remarshal(func(e *rpb.Envelope) { e.PayloadType = cat(pt, []byte{byte(len(pl))}); e.Payload = pl }), dom, "length_byte_into_type")
	// --- every byte, every truncation
	flips(r, data, every, func(m []byte, what string) { at(m, dom, what) })
	truncs(data, every, func(m []byte, what string) { at(m, dom, what) })
	at(cat(data, []byte{0}), dom, "extended_zero")
	at(cat(data, rbytes(r, 1+r.Intn(4))), dom, "extended_random")
	// --- protobuf field edits
	at(remarshal(func(e *rpb.Envelope) { e.Payload = cat(pl, []byte{0}) }), dom, "payload_extended")
	if len(pl) > 0 {
		at(remarshal(func(e *rpb.Envelope) { e.Payload = pl[:len(pl)-1] }), dom, "payload_truncated")
		at(remarshal(func(e *rpb.Envelope) { e.Payload = nil }), dom, "payload_dropped")
	}
	at(remarshal(func(e *rpb.Envelope) { e.PayloadType = nil }), dom, "type_dropped")
	at(remarshal(func(e *rpb.Envelope) { e.Signature = nil }), dom, "signature_dropped")
	at(remarshal(func(e *rpb.Envelope) { e.Signature = cat(sig, []byte{0}) }), dom, "signature_extended")
	at(remarshal(func(e *rpb.Envelope) { e.Signature = sig[:len(sig)-1] }), dom, "signature_truncated")
	at(remarshal(func(e *rpb.Envelope) { e.PublicKey = nil }), dom, "key_dropped")
	// foreign key, original signature
	fpk, _ := crypto.PublicKeyToProto(foreign.pk)
	// content edits combined with a dropped / degenerate signature: a verifier that skips
	// the check for one class of signatures must not go unnoticed
	for _, sg := range [][]byte{nil, {0}, rbytes(r, len(sig)), sig[:len(sig)/2]} {
		sg := sg
		at(remarshal(func(e *rpb.Envelope) { e.Payload = cat(pl, []byte{1}); e.Signature = sg }), dom, "payload_changed_signature_degenerate")
		at(remarshal(func(e *rpb.Envelope) { e.PayloadType = cat(pt, []byte{1}); e.Signature = sg }), dom, "type_changed_signature_degenerate")
		at(remarshal(func(e *rpb.Envelope) { e.PublicKey = fpk; e.Signature = sg }), dom, "key_swapped_signature_degenerate")
		at(remarshal(func(e *rpb.Envelope) { e.Signature = sg }), dom+"x", "domain_changed_signature_degenerate")
	}
	at(remarshal(func(e *rpb.Envelope) { e.PublicKey = fpk }), dom, "key_swapped_foreign")
	// key of another type carrying the same data
	at(remarshal(func(e *rpb.Envelope) {
		e.PublicKey = &cpb.PublicKey{Type: cpb.KeyType((signer.kt + 1) % 4).Enum(), Data: signer.raw}
	}), dom, "key_type_changed")
	// a signature by the foreign key over the same content but another domain
	if other, err := record.Seal(&rawRec{dom: dom + "-other", codec: pt, payload: pl}, foreign.sk); err == nil {
		od, _ := other.Marshal()
		var ope rpb.Envelope
		proto.Unmarshal(od, &ope)
		c.seals = append(c.seals, sealRow{1, dom + "-other", pt, pl, ope.Signature})
		at(od, dom+"-other", "foreign_sealed_other_domain")
		at(od, dom, "foreign_sealed_asked_original_domain")
		at(remarshal(func(e *rpb.Envelope) { e.Signature = ope.Signature }), dom, "signature_from_foreign_envelope")
		at(remarshal(func(e *rpb.Envelope) { e.Signature = ope.Signature; e.PublicKey = fpk }), dom, "key_and_signature_from_foreign_envelope")
		// the foreign signer re-seals the victim's exact content for the original domain:
		// accepted, and the accepted signer is the foreign key (a legitimate seal event)
		if resealed, err := record.Seal(&rawRec{dom: dom, codec: pt, payload: pl}, foreign.sk); err == nil {
			rd, _ := resealed.Marshal()
			var rpe rpb.Envelope
			proto.Unmarshal(rd, &rpe)
			c.seals = append(c.seals, sealRow{1, dom, pt, pl, rpe.Signature})
			at(rd, dom, "resealed_by_foreign")
			at(remarshal(func(e *rpb.Envelope) { e.Signature = rpe.Signature }), dom, "signature_from_reseal_under_original_key")
			c.seals = c.seals[:2]
		}
		c.seals = c.seals[:1]
	}
	f1 := cat(protowire.AppendTag(nil, 1, protowire.BytesType), protowire.AppendBytes(nil, signer.canon))
	f2 := cat(protowire.AppendTag(nil, 2, protowire.BytesType), protowire.AppendBytes(nil, pt))
	f3 := cat(protowire.AppendTag(nil, 3, protowire.BytesType), protowire.AppendBytes(nil, pl))
	f5 := cat(protowire.AppendTag(nil, 5, protowire.BytesType), protowire.AppendBytes(nil, sig))
	if len(pl) == 0 {
		f3 = nil
	}
	// the signer's key in other accepted serializations (unknown fields, order, redundant
	// varints, repeated fields): the same signer, the same marshalled form, the same ID
	for _, a := range keyAliases(r, signer.kt, signer.raw) {
		at(cat(protowire.AppendTag(nil, 1, protowire.BytesType), protowire.AppendBytes(nil, a.b), f2, f3, f5), dom, "wire_key_alias_"+a.what)
	}
	if !full {
		return
	}
	// wire-level edits: duplicates, unknown fields, reordering, split embedded message
	at(cat(f5, f3, f2, f1), dom, "wire_reordered")
	at(cat(f1, f2, f3, f5, cat(protowire.AppendTag(nil, 2, protowire.BytesType), protowire.AppendBytes(nil, cat(pt, []byte{1})))), dom, "wire_type_overridden")
	at(cat(cat(protowire.AppendTag(nil, 3, protowire.BytesType), protowire.AppendBytes(nil, []byte("evil"))), f1, f2, f3, f5), dom, "wire_payload_shadowed_first")
	at(cat(f1, f2, f3, f5, cat(protowire.AppendTag(nil, 3, protowire.BytesType), protowire.AppendBytes(nil, []byte("evil")))), dom, "wire_payload_overridden")
	at(cat(f1, f2, f3, f5, cat(protowire.AppendTag(nil, 4, protowire.BytesType), protowire.AppendBytes(nil, rbytes(r, 3)))), dom, "wire_unknown_field_4")
	at(cat(f1, f2, f3, f5, cat(protowire.AppendTag(nil, 6, protowire.VarintType), []byte{1})), dom, "wire_unknown_varint")
	at(cat(f1, f2, cat(protowire.AppendTag(nil, 3, protowire.VarintType), []byte{1}), f3, f5), dom, "wire_payload_wrong_wiretype")
	at(cat(f1, f2, f3, f5, protowire.AppendTag(nil, 9, protowire.StartGroupType), f2, protowire.AppendTag(nil, 9, protowire.EndGroupType)), dom, "wire_unknown_group")
	at(cat(f1, f2, f3, f5, protowire.AppendTag(nil, 9, protowire.StartGroupType), protowire.AppendTag(nil, 10, protowire.StartGroupType),
		protowire.AppendTag(nil, 10, protowire.EndGroupType), protowire.AppendTag(nil, 9, protowire.EndGroupType)), dom, "wire_nested_groups")
	at(cat(f1, f2, f3, f5, protowire.AppendTag(nil, 9, protowire.StartGroupType)), dom, "wire_open_group")
	at(cat(f1, f2, f3, f5, protowire.AppendTag(nil, 2, protowire.EndGroupType)), dom, "wire_stray_end_group")
	tagT := protowire.AppendTag(nil, 1, protowire.VarintType)
	tagD := protowire.AppendTag(nil, 2, protowire.BytesType)
	typ := protowire.AppendVarint(nil, uint64(signer.kt))
	dat := protowire.AppendBytes(nil, signer.raw)
	emb := func(b []byte) []byte {
		return cat(protowire.AppendTag(nil, 1, protowire.BytesType), protowire.AppendBytes(nil, b))
	}
	at(cat(emb(cat(tagT, typ)), emb(cat(tagD, dat)), f2, f3, f5), dom, "wire_key_split_in_two")
	at(cat(emb(cat(tagT, typ)), f2, f3, f5), dom, "wire_key_without_data")
	at(cat(emb(cat(tagD, dat)), f2, f3, f5), dom, "wire_key_without_type")
	at(cat(emb(cat(tagT, typ, tagD, dat)), emb(cat(tagT, protowire.AppendVarint(nil, uint64((signer.kt+1)%4)))), f2, f3, f5), dom, "wire_key_type_merged_over")
	at(cat(emb(foreign.canon), emb(signer.canon), f2, f3, f5), dom, "wire_key_foreign_then_own")
	at(cat(emb(signer.canon), emb(foreign.canon), f2, f3, f5), dom, "wire_key_own_then_foreign")
	at(cat(emb(cat(tagT, protowire.AppendVarint(nil, uint64(signer.kt)+1<<32), tagD, dat)), f2, f3, f5), dom, "wire_key_type_plus_2^32")
	at(cat(emb(cat(tagD, dat, tagT, typ)), f2, f3, f5), dom, "wire_key_fields_reordered")
	if signer.kt == 2 {
		// the same secp256k1 key in its uncompressed encoding: another serialisation of the
		// same signer, accepted, and reported as the same (canonical) signer
		if pk, err := secp256k1.ParsePubKey(signer.raw); err == nil {
			unc := protowire.AppendBytes(nil, pk.SerializeUncompressed())
			at(cat(emb(cat(tagT, typ, tagD, unc)), f2, f3, f5), dom, "wire_key_same_key_uncompressed_encoding")
		}
	}
	at(cat(emb(cat(tagT, typ, tagD, dat, []byte{0x0f})), f2, f3, f5), dom, "wire_key_bad_inner_tag")
	at(cat(emb(nil), f2, f3, f5), dom, "wire_key_empty_message")
	at(cat([]byte{0x8a, 0x00}, protowire.AppendBytes(nil, signer.canon), f2, f3, f5), dom, "wire_tag_nonminimal")
	at(cat(protowire.AppendTag(nil, 1, protowire.BytesType), []byte{byte(len(signer.canon)&0x7f) | 0x80, byte(len(signer.canon) >> 7), }, signer.canon, f2, f3, f5), dom, "wire_length_two_bytes")
}

func c08PeerRecords(t *testing.T, out *verifh.Out, r *verifh.Rand, c *envCtx, mode int, every int) {
	signer, foreign := c.keys[0], c.keys[1]
	addr := ma.StringCast("/ip4/10.1.2.3/tcp/4001")
	// honest record
	rec := &peer.PeerRecord{PeerID: signer.id, Addrs: []ma.Multiaddr{addr}, Seq: 7}
	c08Envelope(t, out, r, c, mode, rec, every, false)
	// a record naming somebody else's ID, signed by our key
	evil := &peer.PeerRecord{PeerID: foreign.id, Addrs: []ma.Multiaddr{addr}, Seq: 7}
	env, err := record.Seal(evil, signer.sk)
	if err != nil {
		t.Fatal(err)
	}
	data, _ := env.Marshal()
	var pe rpb.Envelope
	proto.Unmarshal(data, &pe)
	c.seals = []sealRow{{0, evil.Domain(), pe.PayloadType, pe.Payload, pe.Signature}}
	c.attempt(mode, data, evil.Domain(), "record_names_foreign_id")
	// the same with the foreign key substituted (signature no longer verifies)
	fpk, _ := crypto.PublicKeyToProto(foreign.pk)
	e2 := proto.Clone(&pe).(*rpb.Envelope)
	e2.PublicKey = fpk
	c.attempt(mode, mustMarshal(t, e2), evil.Domain(), "record_names_foreign_id_key_swapped")
	// alias IDs: other IDs that name the signer's own key (identity multihash over another
	// serialization of it, the inline form of a key that must be hashed, the hashed form of a
	// key that must be inlined), in a record the signer seals itself
	for _, a := range aliasIDs(r, signer) {
		ar := &peer.PeerRecord{PeerID: peer.ID(a.b), Addrs: []ma.Multiaddr{addr}, Seq: 7}
		env, err := record.Seal(ar, signer.sk)
		if err != nil {
			t.Fatal(err)
		}
		d, _ := env.Marshal()
		var p rpb.Envelope
		proto.Unmarshal(d, &p)
		c.seals = []sealRow{{0, ar.Domain(), p.PayloadType, p.Payload, p.Signature}}
		c.attempt(mode, d, ar.Domain(), "record_id_alias_"+a.what)
		out.Cover("peerrecord.alias_id_attempts")
	}
	// a peer ID that is a valid multihash of another kind over the right key digest
	if len(signer.id) == 34 {
		odd := &peer.PeerRecord{PeerID: peer.ID(cat([]byte{0x16, 0x20}, []byte(signer.id)[2:])), Addrs: []ma.Multiaddr{addr}, Seq: 7}
		if env, err := record.Seal(odd, signer.sk); err == nil {
			d, _ := env.Marshal()
			var p rpb.Envelope
			proto.Unmarshal(d, &p)
			c.seals = []sealRow{{0, odd.Domain(), p.PayloadType, p.Payload, p.Signature}}
			c.attempt(mode, d, odd.Domain(), "record_id_other_hash_code")
		}
	}
}

// ---- the test -------------------------------------------------------------------

func TestVerifNothing(t *testing.T) {}

func TestVerifC08(t *testing.T) {
	out, err := verifh.Open()
	if err != nil {
		t.Skip(err)
	}
	defer out.Close()
	r := verifh.NewRand(verifh.Seed())
	thorough := verifh.Tier() == "thorough"
	scale := 1
	if thorough {
		scale = 6
	}
	c08Varints(out, r, 300*scale)
	c08Unsigned(t, out, r, 200*scale)

	mem := pstoremem.NewAddrBook()
	defer mem.Close()
	dsb, err := pstoreds.NewAddrBook(context.Background(), dssync.MutexWrap(ds.NewMapDatastore()), pstoreds.DefaultOpts())
	if err != nil {
		t.Fatal(err)
	}
	defer dsb.Close()

	// RSA key-size boundaries: synthetic moduli, and the embedded real 8192-bit key
	c08RSASizes(t, out, r)
	if big8192 := c08RSA8192(t, out, r); big8192 != nil {
		c08KeyCase(t, out, big8192)
		c08KeyAliasCases(out, r, big8192)
		c08Matches(out, r, big8192)
		c08Sigs(t, out, r, big8192, nil, 1, 64)
	}

	// corpus first: the repaired Ed25519 private-key defect, on a fixed key
	c08FixedCorpus(t, out, r)

	types := []int{crypto.Ed25519, crypto.Secp256k1, crypto.ECDSA, crypto.RSA}
	rounds := 2
	if thorough {
		rounds = 8
	}
	for round := 0; round < rounds; round++ {
		// fresh keys of every type each round (RSA only every other round in the quick tier: keygen cost)
		var ks []*keyInfo
		for _, ty := range types {
			ks = append(ks, mkKey(t, ty))
		}
		// round 2: /p2p address forms incl. circuit addresses; hand-sealed relay vouchers
		c08P2PAddrs(t, out, r, ks[round%4], ks[(round+1)%4], ks[(round+3)%4])
		c08Vouchers(t, out, r, ks[round%4], ks[(round+1)%4], ks[(round+2)%4], ks[(round+3)%4])
		// round 3: ECDSA keys on P-224 / P-384 / P-521 through the key, signature, ID and envelope streams
		for _, cname := range []string{"P-224", "P-384", "P-521"} {
			ck := c08CurveKeys(t)[cname]
			label := "ecdsa_" + cname
			out.Cover("key." + label + ".cases")
			c08KeyCase(t, out, ck)
			c08KeyAliasCases(out, r, ck)
			c08Matches(out, r, ck)
			c08Sigs(t, out, r, ck, []*keyInfo{ks[2]}, 2, 1)
			c08SigDigests(t, out, r, ck, 4)
			c08PrivBlobs(t, out, r, ck, label, 3)
			cc := &envCtx{t: t, out: out, keys: []*keyInfo{ck, ks[2]}, mem: mem, dsb: dsb}
			c08Envelope(t, out, r, cc, modeTyped, &rawRec{dom: "c08-curve-" + cname, codec: []byte{0x55}, payload: rbytes(r, 12)}, 3, false)
			c08PeerRecords(t, out, r, cc, modeMem, 9)
		}
		for i, k := range ks {
			isRSA := k.kt == 0
			every := 1
			if isRSA {
				every = 7 // RSA envelopes are ~600 bytes: the quick tier samples the interior positions 1/7
				if thorough {
					every = 1
				}
			}
			c08KeyCase(t, out, k)
			c08KeyAliasCases(out, r, k)
			c08Matches(out, r, k)
			others := []*keyInfo{ks[(i+1)%4], ks[(i+2)%4], mkKey(t, types[i])}
			if isRSA {
				others = others[:2]
			}
			c08Sigs(t, out, r, k, others, 2, every)
			// round 2: digests as messages, the inlining switch, seal-then-mutate
			ndig := 12
			if isRSA {
				ndig = 10
			}
			c08SigDigests(t, out, r, k, ndig)
			c08Inlining(t, out, k)
			c08SealThenMutate(t, out, r, k, ks[(i+1)%4])
			// round 3: private-key blobs, destinations reused across two records
			c08PrivBlobs(t, out, r, k, ktName[k.kt], every)
			c08ImportedEd25519(t, out, r, k)
			c08ReusedDestination(t, out, r, k, ks[(i+1)%4])
			if round == 0 || thorough {
				c08IDForms(out, r, k)
				ed := func(m []byte, what string) { c08PubkeyEdit(out, m, what) }
				ed(k.canon, "none")
				flips(r, k.canon, every, ed)
				truncs(k.canon, every, ed)
				ed(cat(k.canon, []byte{0}), "extended")
				pubkeyFieldEdits(r, k.kt, k.raw, ed)
			}
			// envelopes: signer k, foreign = next key type (and same type in the second round)
			foreign := ks[(i+1)%4]
			if round%2 == 1 {
				foreign = others[len(others)-1]
			}
			c := &envCtx{t: t, out: out, keys: []*keyInfo{k, foreign}, mem: mem, dsb: dsb}
			dom := "c08-domain-" + string(rune('a'+r.Intn(26)))
			payload := rbytes(r, []int{0, 1, 5, 40, 130}[r.Intn(5)])
			if round == 0 {
				c08Envelope(t, out, r, c, modeTyped, &rawRec{dom: dom, codec: rbytes(r, 1+r.Intn(3)), payload: payload}, every, true)
				c08Envelope(t, out, r, c, modeConsume, &regRec{rawRec{dom: dom, payload: payload}}, every, !isRSA)
			} else {
				c08Envelope(t, out, r, c, modeConsume, &regRec{rawRec{dom: dom, payload: payload}}, every, true)
				c08Envelope(t, out, r, c, modeTyped, &rawRec{dom: dom, codec: rbytes(r, 1+r.Intn(3)), payload: payload}, every, false)
			}
			// unregistered payload type through ConsumeEnvelope
			c08Envelope(t, out, r, c, modeConsume, &rawRec{dom: dom, codec: []byte{0x77, byte(r.Intn(256))}, payload: payload}, 16, false)
			// signed peer records through both peerstores, relay vouchers
			pevery := every
			if !thorough {
				pevery = every * 3
			}
			c08PeerRecords(t, out, r, c, modeMem, pevery)
			c08PeerRecords(t, out, r, c, modeDs, pevery)
			v := &circuit.ReservationVoucher{Relay: k.id, Peer: foreign.id, Expiration: time.Unix(1900000000, 0)}
			c08Envelope(t, out, r, c, modeConsume, v, pevery, false)
			// round 4: histories of one address book (kind 20): API path and stored-bytes edits
			c08Books(t, out, r, k, foreign, thorough)
		}
	}
}

// Re-execute one recorded kind-6 case (everything it needs is public bytes).
func TestVerifC08Replay(t *testing.T) {
	toks := verifh.ReplayCase()
	out, err := verifh.Open()
	if err != nil || len(toks) == 0 {
		t.Skip("nothing to replay")
	}
	defer out.Close()
	if toks[0] == 20 {
		c08ReplayBook(t, out, toks)
		return
	}
	if toks[0] != 6 {
		out.Case(toks) // other kinds are judged as recorded
		return
	}
	p := 1
	z := func() int64 { v := toks[p]; p++; return v }
	bs := func() []byte {
		n := int(z())
		b := make([]byte, n)
		for i := range b {
			b[i] = byte(z())
		}
		return b
	}
	mode := int(z())
	c := &envCtx{t: t, out: out}
	nk := int(z())
	for i := 0; i < nk; i++ {
		kt := z()
		raw, canon, dg, id := bs(), bs(), bs(), bs()
		pk, err := crypto.UnmarshalPublicKey(canon)
		if err != nil {
			t.Fatalf("replay key: %v", err)
		}
		c.keys = append(c.keys, &keyInfo{pk: pk, kt: kt, raw: raw, canon: canon, digest: dg, id: peer.ID(id)})
	}
	ns := int(z())
	for i := 0; i < ns; i++ {
		ki := z()
		d, pt, pl, sg := bs(), bs(), bs(), bs()
		c.seals = append(c.seals, sealRow{ki, string(d), pt, pl, sg})
	}
	data, dom := bs(), bs()
	mem := pstoremem.NewAddrBook()
	defer mem.Close()
	dsb, err := pstoreds.NewAddrBook(context.Background(), dssync.MutexWrap(ds.NewMapDatastore()), pstoreds.DefaultOpts())
	if err != nil {
		t.Fatal(err)
	}
	defer dsb.Close()
	c.mem, c.dsb = mem, dsb
	c.attempt(mode, data, string(dom), "replay")
}

//go:build verif

package record_test

// C08 correspondence harness, round 3: private-key blobs (kind 19), ECDSA keys on the
// non-default curves, destinations reused across two consumed records (kind 15, api 4/5).

import (
	"bytes"
	"crypto/ecdsa"
	"crypto/ed25519"
	"crypto/elliptic"
	"crypto/rand"
	"testing"
	"time"

	"github.com/libp2p/go-libp2p/core/crypto"
	cpb "github.com/libp2p/go-libp2p/core/crypto/pb"
	"github.com/libp2p/go-libp2p/core/peer"
	"github.com/libp2p/go-libp2p/core/record"
	"github.com/libp2p/go-libp2p/internal/verifh"
	circuit "github.com/libp2p/go-libp2p/p2p/protocol/circuitv2/proto"
	ma "github.com/multiformats/go-multiaddr"
	"google.golang.org/protobuf/proto"
)

// ECDSA keys on the curves other than the default P-256: through every constructor
func c08CurveKeys(t *testing.T) map[string]*keyInfo {
	res := map[string]*keyInfo{}
	for _, c := range []elliptic.Curve{elliptic.P224(), elliptic.P384(), elliptic.P521()} {
		name := c.Params().Name
		var sk crypto.PrivKey
		var pk crypto.PubKey
		var err error
		if name == "P-384" {
			// from a standard-library key
			std, gerr := ecdsa.GenerateKey(c, rand.Reader)
			if gerr != nil {
				t.Fatal(gerr)
			}
			sk, pk, err = crypto.KeyPairFromStdKey(std)
		} else {
			sk, pk, err = crypto.GenerateECDSAKeyPairWithCurve(c, rand.Reader)
		}
		if err != nil {
			t.Fatalf("ecdsa %s: %v", name, err)
		}
		res[name] = keyInfoOf(t, sk, pk)
	}
	return res
}

// kind 19: every edit of a marshalled PRIVATE key: an error, or a key that is not reported
// equal to the original unless it has the original's encoding; whatever unmarshals must sign
// for its own public key
func c08PrivBlobs(t *testing.T, out *verifh.Out, r *verifh.Rand, k *keyInfo, label string, every int) {
	orig, err := crypto.MarshalPrivateKey(k.sk)
	if err != nil {
		t.Fatal(err)
	}
	rawPriv, err := k.sk.Raw()
	if err != nil {
		t.Fatal(err)
	}
	dataOff := len(orig) - len(rawPriv)
	msg := rbytes(r, 24)
	one := func(mut []byte, region int64, what string) {
		l := (&line{}).z(19, k.kt, region).b(orig).b(mut)
		var pm cpb.PrivateKey
		perr := proto.Unmarshal(mut, &pm)
		// for an Ed25519 blob: the public key of its seed, computed by the standard library
		var derived []byte
		if perr == nil && pm.GetType() == cpb.KeyType_Ed25519 && len(pm.GetData()) >= ed25519.SeedSize {
			derived = ed25519.NewKeyFromSeed(pm.GetData()[:ed25519.SeedSize])[ed25519.SeedSize:]
		}
		l.b(derived)
		sk2, uerr := crypto.UnmarshalPrivateKey(mut)
		var cls, eqAny, eqAll, remeq, selfok, crossok int64
		switch {
		case uerr == nil:
			cls = 3
			e := []bool{sk2.Equals(k.sk), k.sk.Equals(sk2), crypto.KeyEqual(sk2, k.sk), crypto.KeyEqual(k.sk, sk2)}
			eqAll = 1
			for _, x := range e {
				if x {
					eqAny = 1
				} else {
					eqAll = 0
				}
			}
			if mb, err := crypto.MarshalPrivateKey(sk2); err == nil && bytes.Equal(mb, orig) {
				remeq = 1
			}
			if sig, err := sk2.Sign(msg); err == nil {
				if ok, err := sk2.GetPublic().Verify(msg, sig); err == nil && ok {
					selfok = 1
				}
				if ok, err := k.pk.Verify(msg, sig); err == nil && ok {
					crossok = 1
				}
			}
			out.Cover("privblob." + label + ".accepted")
			if eqAny == 1 {
				out.Cover("privblob." + label + ".accepted_equal")
				if remeq == 0 {
					out.Cover("privblob." + label + ".accepted_equal_other_encoding")
				}
			}
			if selfok == 0 {
				out.Cover("privblob." + label + ".accepted_but_signs_for_nobody")
			}
		case perr != nil:
			cls = 0
		case uerr == crypto.ErrBadKeyType:
			cls = 1
		default:
			cls = 2
		}
		if cls != 3 {
			out.Cover("privblob." + label + ".rejected")
		}
		l.z(cls, eqAny, eqAll, remeq, selfok, crossok)
		out.Case(l.v)
		out.Cover("privblob.edit." + what)
	}
	region := func(i int) int64 {
		if i < dataOff {
			return 1
		}
		if k.kt == 1 {
			if i-dataOff < 32 {
				return 2
			}
			return 3
		}
		return 4
	}
	one(orig, 0, "none")
	for i := 0; i < len(orig); i++ {
		if every > 1 && i >= 24 && i < len(orig)-8 && i%every != 0 {
			continue
		}
		m := append([]byte(nil), orig...)
		if r.Bool() {
			m[i] ^= byte(1 << uint(r.Intn(8)))
		} else {
			m[i] ^= byte(1 + r.Intn(255))
		}
		one(m, region(i), "flip")
	}
	for n := 0; n < len(orig); n++ {
		if every > 1 && n >= 24 && n < len(orig)-8 && n%(every*2) != 0 {
			continue
		}
		one(append([]byte(nil), orig[:n]...), 5, "truncate")
	}
	one(cat(orig, []byte{0}), 6, "extended")
	if k.kt == 1 {
		mk := func(d []byte) []byte {
			return mustMarshal(t, &cpb.PrivateKey{Type: cpb.KeyType_Ed25519.Enum(), Data: d})
		}
		seed, pub := rawPriv[:32], rawPriv[32:]
		one(mk(cat(seed, pub, pub)), 7, "legacy_96_byte_form")
		bad := append([]byte(nil), pub...)
		bad[r.Intn(32)] ^= 0x10
		one(mk(cat(seed, pub, bad)), 8, "legacy_form_copies_differ")
		one(mk(cat(seed, bad, bad)), 3, "legacy_form_other_public_half")
		// a whole other seed pasted in front of the intact public half
		one(mk(cat(rbytes(r, 32), pub)), 2, "seed_replaced")
		one(mk(cat(seed, rbytes(r, 32))), 3, "public_half_replaced")
		one(mk(seed), 5, "seed_only")
	}
}

// kind 15, api 4/5: two different sealed records consumed into the SAME destination value; the
// destination must then hold exactly the second record's sealed content
func c08ReusedDestination(t *testing.T, out *verifh.Out, r *verifh.Rand, a, b *keyInfo) {
	a1 := ma.StringCast("/ip4/10.1.1.1/tcp/4001")
	a2 := ma.StringCast("/ip4/10.1.1.2/udp/4001/quic-v1")
	a3 := ma.StringCast("/ip4/10.2.2.2/tcp/4002")
	seal := func(rec record.Record, k *keyInfo) (*record.Envelope, []byte) {
		env, err := record.Seal(rec, k.sk)
		if err != nil {
			t.Fatal(err)
		}
		data, err := env.Marshal()
		if err != nil {
			t.Fatal(err)
		}
		// the receiver's view: an envelope that came over the wire
		wire, _, err := record.ConsumeEnvelope(data, rec.Domain())
		if err != nil {
			t.Fatalf("consume own envelope: %v", err)
		}
		return wire, data
	}
	firstRecs := []*peer.PeerRecord{
		{PeerID: a.id, Addrs: []ma.Multiaddr{a1, a2}, Seq: 5},
		{PeerID: a.id, Addrs: []ma.Multiaddr{a1}, Seq: 900},
	}
	secondRecs := []*peer.PeerRecord{
		{PeerID: b.id, Addrs: []ma.Multiaddr{a3}, Seq: 6},
		{PeerID: b.id, Addrs: nil, Seq: 1},
		{PeerID: b.id, Addrs: []ma.Multiaddr{a3, a1}, Seq: 7},
	}
	for _, fr := range firstRecs {
		envA, dataA := seal(fr, a)
		for _, sr := range secondRecs {
			envB, dataB := seal(sr, b)
			sealed := &peer.PeerRecord{}
			if err := sealed.UnmarshalRecord(envB.RawPayload); err != nil {
				t.Fatal(err)
			}
			spid, srest := prFields(sealed)
			for api := int64(4); api <= 5; api++ {
				dst := &peer.PeerRecord{}
				var e1, e2 error
				if api == 4 {
					_, e1 = record.ConsumeTypedEnvelope(dataA, dst)
					_, e2 = record.ConsumeTypedEnvelope(dataB, dst)
				} else {
					e1 = envA.TypedRecord(dst)
					e2 = envB.TypedRecord(dst)
				}
				l := (&line{}).z(15, api, 1).b([]byte(b.id)).b(envB.RawPayload).b(spid).b(srest)
				if e1 == nil && e2 == nil {
					gpid, grest := prFields(dst)
					l.z(1).b(gpid).b(grest)
				} else {
					l.z(0).b(nil).b(nil)
				}
				l.z(0).b(nil).b(nil).b(nil)
				out.Case(l.v)
				out.Cover("reused_destination.peer_record")
			}
		}
	}
	// the other registered record types: relay voucher, the harness's generic record
	v1 := &circuit.ReservationVoucher{Relay: a.id, Peer: b.id, Expiration: time.Unix(1800000000, 0)}
	v2 := &circuit.ReservationVoucher{Relay: b.id, Peer: a.id, Expiration: time.Unix(1900000000, 0)}
	envV1, _ := seal(v1, a)
	envV2, _ := seal(v2, b)
	dv := &circuit.ReservationVoucher{}
	e1, e2 := envV1.TypedRecord(dv), envV2.TypedRecord(dv)
	sealedV := &circuit.ReservationVoucher{}
	if err := sealedV.UnmarshalRecord(envV2.RawPayload); err != nil {
		t.Fatal(err)
	}
	l := (&line{}).z(15, 5, 0).b([]byte(b.id)).b(envV2.RawPayload).b(nil).b(voucherFields(sealedV))
	if e1 == nil && e2 == nil {
		l.z(1).b(nil).b(voucherFields(dv))
	} else {
		l.z(0).b(nil).b(nil)
	}
	out.Case(l.z(0).b(nil).b(nil).b(nil).v)
	out.Cover("reused_destination.voucher")

	g1 := &regRec{rawRec{dom: "c08-reuse", payload: rbytes(r, 9)}}
	g2 := &regRec{rawRec{dom: "c08-reuse", payload: rbytes(r, 3)}}
	envG1, _ := seal(g1, a)
	envG2, _ := seal(g2, b)
	dg := &regRec{}
	e1, e2 = envG1.TypedRecord(dg), envG2.TypedRecord(dg)
	l = (&line{}).z(15, 5, 0).b([]byte(b.id)).b(envG2.RawPayload).b(nil).b(envG2.RawPayload)
	if e1 == nil && e2 == nil {
		l.z(1).b(nil).b(dg.payload)
	} else {
		l.z(0).b(nil).b(nil)
	}
	out.Case(l.z(0).b(nil).b(nil).b(nil).v)
	out.Cover("reused_destination.generic_record")
}

// Fixed corpus of the defect repaired in /repo a5f52a7 (UnmarshalEd25519PrivateKey did not
// compare the public half with the seed): a FIXED key (seed 01 02 .. 20) whose blobs with an
// altered seed / altered public half must be unmarshal errors.  Executed on every run; a
// regression shows as clause 192 with these very bytes.
func c08FixedCorpus(t *testing.T, out *verifh.Out, r *verifh.Rand) {
	seed := make([]byte, ed25519.SeedSize)
	for i := range seed {
		seed[i] = byte(i + 1)
	}
	std := ed25519.NewKeyFromSeed(seed)
	blob := mustMarshal(t, &cpb.PrivateKey{Type: cpb.KeyType_Ed25519.Enum(), Data: std})
	sk, err := crypto.UnmarshalPrivateKey(blob)
	if err != nil {
		// even the honest blob is refused: report it as the untouched round trip failing
		out.Case((&line{}).z(19, 1, 0).b(blob).b(blob).b(std[32:]).z(2, 0, 0, 0, 0, 0).v)
		out.Cover("corpus.ed25519_halves.honest_blob_rejected")
		return
	}
	k := keyInfoOf(t, sk, sk.GetPublic())
	c08PrivBlobs(t, out, verifh.NewRand(20260923), k, "corpus_ed25519_halves", 1)
	out.Cover("corpus.ed25519_halves.executed")
}

// kind 19, region 9: a private key object that did not come through Unmarshal: a standard
// library Ed25519 key whose seed was altered, imported with KeyPairFromStdKey (verbatim).  It
// must not be reported equal to the original key: what it signs does not verify under the
// original public key.  (Only the equality clause is judged: nothing was unmarshalled.)
func c08ImportedEd25519(t *testing.T, out *verifh.Out, r *verifh.Rand, k *keyInfo) {
	if k.kt != 1 {
		return
	}
	orig, err := crypto.MarshalPrivateKey(k.sk)
	if err != nil {
		t.Fatal(err)
	}
	raw, _ := k.sk.Raw()
	msg := rbytes(r, 24)
	for _, what := range []string{"untouched", "seed_bit", "seed_replaced"} {
		std := ed25519.PrivateKey(append([]byte(nil), raw...))
		switch what {
		case "seed_bit":
			std[r.Intn(32)] ^= byte(1 << uint(r.Intn(8)))
		case "seed_replaced":
			copy(std[:32], rbytes(r, 32))
		}
		sk2, _, err := crypto.KeyPairFromStdKey(&std)
		if err != nil {
			continue
		}
		mut, err := crypto.MarshalPrivateKey(sk2)
		if err != nil {
			continue
		}
		e := []bool{sk2.Equals(k.sk), k.sk.Equals(sk2), crypto.KeyEqual(sk2, k.sk), crypto.KeyEqual(k.sk, sk2)}
		var eqAny, eqAll, remeq, selfok, crossok int64 = 0, 1, 0, 0, 0
		for _, x := range e {
			if x {
				eqAny = 1
			} else {
				eqAll = 0
			}
		}
		if bytes.Equal(mut, orig) {
			remeq = 1
		}
		if sig, err := sk2.Sign(msg); err == nil {
			if ok, err := sk2.GetPublic().Verify(msg, sig); err == nil && ok {
				selfok = 1
			}
			if ok, err := k.pk.Verify(msg, sig); err == nil && ok {
				crossok = 1
			}
		}
		derived := ed25519.NewKeyFromSeed(std[:32])[32:]
		out.Case((&line{}).z(19, 1, 9).b(orig).b(mut).b(derived).z(4, eqAny, eqAll, remeq, selfok, crossok).v)
		out.Cover("privblob.imported_std_ed25519." + what)
	}
}

//go:build verif

package record_test

// C08 correspondence harness, round 2, second part: seal-then-mutate on the SAME *Envelope
// (kind 15) and relay vouchers sealed by hand (kind 17).

import (
	"bytes"
	"context"
	"encoding/binary"
	"sort"
	"testing"
	"time"

	ds "github.com/ipfs/go-datastore"
	dssync "github.com/ipfs/go-datastore/sync"
	"github.com/libp2p/go-libp2p/core/peer"
	"github.com/libp2p/go-libp2p/core/record"
	"github.com/libp2p/go-libp2p/internal/verifh"
	"github.com/libp2p/go-libp2p/p2p/host/peerstore/pstoreds"
	"github.com/libp2p/go-libp2p/p2p/host/peerstore/pstoremem"
	circuit "github.com/libp2p/go-libp2p/p2p/protocol/circuitv2/proto"
	ma "github.com/multiformats/go-multiaddr"
	"google.golang.org/protobuf/encoding/protowire"
)

func encAddrs(as []ma.Multiaddr, sorted bool) []byte {
	bs := make([][]byte, 0, len(as))
	for _, a := range as {
		bs = append(bs, a.Bytes())
	}
	if sorted {
		sort.Slice(bs, func(i, j int) bool { return bytes.Compare(bs[i], bs[j]) < 0 })
	}
	var res []byte
	for _, b := range bs {
		res = binary.AppendUvarint(res, uint64(len(b)))
		res = append(res, b...)
	}
	return res
}

func prFields(p *peer.PeerRecord) (pid, rest []byte) {
	rest = binary.BigEndian.AppendUint64(nil, p.Seq)
	return []byte(p.PeerID), append(rest, encAddrs(p.Addrs, false)...)
}

func voucherFields(v *circuit.ReservationVoucher) []byte {
	res := binary.AppendUvarint(nil, uint64(len(v.Relay)))
	res = append(res, v.Relay...)
	res = binary.AppendUvarint(res, uint64(len(v.Peer)))
	res = append(res, v.Peer...)
	return binary.BigEndian.AppendUint64(res, uint64(v.Expiration.Unix()))
}

type certBook interface {
	ConsumePeerRecord(*record.Envelope, time.Duration) (bool, error)
	PeersWithAddrs() peer.IDSlice
	Addrs(peer.ID) []ma.Multiaddr
	Close() error
}

func newBook(t *testing.T, dsStore bool) certBook {
	if !dsStore {
		return pstoremem.NewAddrBook()
	}
	b, err := pstoreds.NewAddrBook(context.Background(), dssync.MutexWrap(ds.NewMapDatastore()), pstoreds.DefaultOpts())
	if err != nil {
		t.Fatal(err)
	}
	return b
}

// kind 15: Seal(rec); the producer edits rec; the same *Envelope is consumed in-process
func c08SealThenMutate(t *testing.T, out *verifh.Out, r *verifh.Rand, signer, foreign *keyInfo) {
	a1 := ma.StringCast("/ip4/10.1.2.3/tcp/4001")
	a2 := ma.StringCast("/ip4/10.66.66.66/tcp/6666")
	type variant struct {
		what   string
		mk     func() *peer.PeerRecord
		mutate func(p *peer.PeerRecord)
	}
	variants := []variant{
		{"untouched", func() *peer.PeerRecord { return &peer.PeerRecord{PeerID: signer.id, Addrs: []ma.Multiaddr{a1}, Seq: 7} },
			func(p *peer.PeerRecord) {}},
		{"addrs_and_seq_edited", func() *peer.PeerRecord { return &peer.PeerRecord{PeerID: signer.id, Addrs: []ma.Multiaddr{a1}, Seq: 7} },
			func(p *peer.PeerRecord) { p.Addrs = []ma.Multiaddr{a2}; p.Seq = 9 }},
		{"addr_slice_element_edited", func() *peer.PeerRecord { return &peer.PeerRecord{PeerID: signer.id, Addrs: []ma.Multiaddr{a1}, Seq: 7} },
			func(p *peer.PeerRecord) { p.Addrs[0] = a2 }},
		{"id_edited_to_foreign", func() *peer.PeerRecord { return &peer.PeerRecord{PeerID: signer.id, Addrs: []ma.Multiaddr{a1}, Seq: 7} },
			func(p *peer.PeerRecord) { p.PeerID = foreign.id }},
		{"sealed_foreign_id_then_edited_to_own", func() *peer.PeerRecord { return &peer.PeerRecord{PeerID: foreign.id, Addrs: []ma.Multiaddr{a1}, Seq: 7} },
			func(p *peer.PeerRecord) { p.PeerID = signer.id }},
		{"record_reused_for_next_seal", func() *peer.PeerRecord { return &peer.PeerRecord{PeerID: signer.id, Addrs: []ma.Multiaddr{a1}, Seq: 7} },
			func(p *peer.PeerRecord) { *p = peer.PeerRecord{PeerID: foreign.id, Addrs: []ma.Multiaddr{a2, a1}, Seq: 8} }},
	}
	for _, v := range variants {
		for api := int64(0); api < 4; api++ {
			rec := v.mk()
			env, err := record.Seal(rec, signer.sk)
			if err != nil {
				t.Fatal(err)
			}
			v.mutate(rec)
			sealed := &peer.PeerRecord{}
			if err := sealed.UnmarshalRecord(env.RawPayload); err != nil {
				t.Fatalf("sealed payload does not decode: %v", err)
			}
			spid, srest := prFields(sealed)
			l := (&line{}).z(15, api, 1).b([]byte(signer.id)).b(env.RawPayload).b(spid).b(srest)
			var gotOK, prres int64
			var gpid, grest, stpid, staddrs []byte
			switch api {
			case 0:
				if rr, err := env.Record(); err == nil {
					if p, ok := rr.(*peer.PeerRecord); ok {
						gotOK = 1
						gpid, grest = prFields(p)
					}
				}
			case 1:
				fresh := &peer.PeerRecord{}
				if err := env.TypedRecord(fresh); err == nil {
					gotOK = 1
					gpid, grest = prFields(fresh)
				}
			default:
				book := newBook(t, api == 3)
				acc, perr := book.ConsumePeerRecord(env, time.Hour)
				if perr == nil && acc {
					prres = 1
					out.Cover("sealmutate.peerstore_accepted")
				} else {
					prres = 2
					out.Cover("sealmutate.peerstore_rejected")
				}
				for _, p := range book.PeersWithAddrs() {
					stpid = append(stpid, []byte(p)...)
					staddrs = append(staddrs, encAddrs(book.Addrs(p), true)...)
				}
				book.Close()
			}
			l.z(gotOK).b(gpid).b(grest).z(prres).b(stpid).b(staddrs).b(encAddrs(sealed.Addrs, true))
			out.Case(l.v)
			out.Cover("sealmutate.peer_record." + v.what)
		}
	}
	// generic registered record and a relay voucher: Record() / TypedRecord after the edit
	for api := int64(0); api < 2; api++ {
		rr := &regRec{rawRec{dom: "c08-seal-mutate", payload: rbytes(r, 1+r.Intn(20))}}
		env, err := record.Seal(rr, signer.sk)
		if err != nil {
			t.Fatal(err)
		}
		rr.payload = append([]byte("edited-"), rr.payload...)
		l := (&line{}).z(15, api, 0).b([]byte(signer.id)).b(env.RawPayload).b(nil).b(env.RawPayload)
		var gotOK int64
		var grest []byte
		if api == 0 {
			if x, err := env.Record(); err == nil {
				if g, ok := x.(*regRec); ok {
					gotOK, grest = 1, g.payload
				}
			}
		} else {
			g := &regRec{}
			if err := env.TypedRecord(g); err == nil {
				gotOK, grest = 1, g.payload
			}
		}
		l.z(gotOK).b(nil).b(grest).z(0).b(nil).b(nil).b(nil)
		out.Case(l.v)
		out.Cover("sealmutate.generic_record")

		v := &circuit.ReservationVoucher{Relay: signer.id, Peer: foreign.id, Expiration: time.Unix(1900000000, 0)}
		venv, err := record.Seal(v, signer.sk)
		if err != nil {
			t.Fatal(err)
		}
		v.Peer = signer.id
		v.Expiration = time.Unix(2000000000, 0)
		sealedV := &circuit.ReservationVoucher{}
		if err := sealedV.UnmarshalRecord(venv.RawPayload); err != nil {
			t.Fatal(err)
		}
		l = (&line{}).z(15, api, 0).b([]byte(signer.id)).b(venv.RawPayload).b(nil).b(voucherFields(sealedV))
		gotOK, grest = 0, nil
		if api == 0 {
			if x, err := venv.Record(); err == nil {
				if g, ok := x.(*circuit.ReservationVoucher); ok {
					gotOK, grest = 1, voucherFields(g)
				}
			}
		} else {
			g := &circuit.ReservationVoucher{}
			if err := venv.TypedRecord(g); err == nil {
				gotOK, grest = 1, voucherFields(g)
			}
		}
		l.z(gotOK).b(nil).b(grest).z(0).b(nil).b(nil).b(nil)
		out.Case(l.v)
		out.Cover("sealmutate.voucher")
	}
}

// kind 17: voucher payloads written by hand, sealed (so the envelope is valid), consumed
func c08Vouchers(t *testing.T, out *verifh.Out, r *verifh.Rand, relay, relay2, client, client2 *keyInfo) {
	f := func(num protowire.Number, b []byte) []byte {
		return protowire.AppendBytes(protowire.AppendTag(nil, num, protowire.BytesType), b)
	}
	exp := func(e uint64) []byte {
		return protowire.AppendVarint(protowire.AppendTag(nil, 3, protowire.VarintType), e)
	}
	rl, pe := []byte(relay2.id), []byte(client2.id)
	e := uint64(1900000000 + r.Intn(1000000))
	payloads := []alias{
		{cat(f(1, rl), f(2, pe), exp(e)), "full"},
		{cat(f(1, rl), exp(e)), "peer_removed"},
		{cat(f(2, pe), exp(e)), "relay_removed"},
		{cat(f(1, rl), f(2, pe)), "expiration_removed"},
		{cat(f(1, rl), f(2, nil), exp(e)), "peer_present_but_empty"},
		{cat(f(1, rl), f(2, pe[:len(pe)-1]), exp(e)), "peer_truncated"},
		{cat(f(1, rl), f(2, []byte(client.id)), f(2, pe), exp(e)), "peer_repeated_last_wins"},
		{cat(exp(e), f(2, pe), f(1, rl)), "reordered"},
		{cat(f(1, rl), f(2, pe), exp(e), f(4, rbytes(r, 3))), "unknown_field"},
		{cat(f(1, rl), protowire.AppendVarint(protowire.AppendTag(nil, 2, protowire.VarintType), 5), exp(e)), "peer_wrong_wire_type"},
		{nil, "empty_payload"},
	}
	first := &circuit.ReservationVoucher{Relay: relay.id, Peer: client.id, Expiration: time.Unix(1800000000, 0)}
	firstEnv, err := record.Seal(first, relay.sk)
	if err != nil {
		t.Fatal(err)
	}
	firstData, _ := firstEnv.Marshal()
	for _, p := range payloads {
		env, err := record.Seal(&rawRec{dom: circuit.RecordDomain, codec: circuit.RecordCodec, payload: p.b}, relay2.sk)
		if err != nil {
			t.Fatal(err)
		}
		data, _ := env.Marshal()
		for _, mode := range [][2]int64{{0, 0}, {1, 0}, {1, 1}} {
			var got *circuit.ReservationVoucher
			var cerr error
			if mode[0] == 0 {
				var rec record.Record
				_, rec, cerr = record.ConsumeEnvelope(data, circuit.RecordDomain)
				if cerr == nil {
					got, _ = rec.(*circuit.ReservationVoucher)
				}
			} else {
				got = &circuit.ReservationVoucher{}
				if mode[1] == 1 { // the destination already holds the previous voucher
					if _, err := record.ConsumeTypedEnvelope(firstData, got); err != nil {
						t.Fatalf("first voucher: %v", err)
					}
				}
				_, cerr = record.ConsumeTypedEnvelope(data, got)
			}
			res := classify(cerr)
			l := (&line{}).z(17, mode[0], mode[1]).b(p.b).z(res)
			if res == 1 && got != nil {
				l.b([]byte(got.Relay)).b([]byte(got.Peer)).u64(uint64(got.Expiration.Unix()))
				out.Cover("voucher.accepted")
			} else {
				l.b(nil).b(nil).u64(0)
				out.Cover("voucher.rejected")
			}
			out.Case(l.v)
			out.Cover("voucher." + p.what)
		}
	}
}

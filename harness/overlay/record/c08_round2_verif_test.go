//go:build verif

package record_test

// C08 correspondence harness, round 2 (injected with `go test -overlay`; not part of /repo):
// digests as messages (kind 7), the AdvancedEnableInlining switch (kind 14), /p2p address
// forms incl. circuit addresses (kind 16).  Wire format: /verif/coq/c08/Spec.v.

import (
	"crypto/sha1"
	"crypto/sha256"
	"crypto/sha512"
	"testing"

	"github.com/libp2p/go-libp2p/core/crypto"
	"github.com/libp2p/go-libp2p/core/peer"
	"github.com/libp2p/go-libp2p/internal/verifh"
	ma "github.com/multiformats/go-multiaddr"
)

// kind 7 again: a message and its digests are DIFFERENT messages.  sig(x) must not verify for
// H(x), sig(H(x)) must not verify for x; messages of exactly 20/32/64 bytes are ordinary messages.
func c08SigDigests(t *testing.T, out *verifh.Out, r *verifh.Rand, signer *keyInfo, nmsg int) {
	name := ktName[signer.kt]
	one := func(msg, sig, msg2 []byte, what string) {
		ok, err := signer.pk.Verify(msg2, sig)
		var res int64
		if err != nil {
			res = 2
		} else if ok {
			res = 1
		}
		out.Case((&line{}).z(7, 1).b(msg).b(sig).b(msg2).b(sig).z(res).v)
		out.Cover("sig." + name + ".digest." + what)
		out.Cover("sig.digest_pairs")
	}
	digests := func(x []byte) map[string][]byte {
		a := sha256.Sum256(x)
		b := sha512.Sum512(x)
		c := sha512.Sum512_256(x)
		d := sha1.Sum(x)
		e := sha256.Sum256(a[:])
		f := sha512.Sum384(x)
		return map[string][]byte{"sha256": a[:], "sha512": b[:], "sha512_256": c[:], "sha1": d[:], "sha256_twice": e[:], "sha384": f[:]}
	}
	order := []string{"sha256", "sha512", "sha512_256", "sha1", "sha256_twice", "sha384"}
	lens := []int{0, 1, 20, 31, 32, 33, 48, 63, 64, 65}
	for i := 0; i < nmsg; i++ {
		n := lens[i%len(lens)]
		if i >= len(lens) {
			n = r.Intn(100)
		}
		x := rbytes(r, n)
		sx, err := signer.sk.Sign(x)
		if err != nil {
			t.Fatalf("sign: %v", err)
		}
		one(x, sx, x, "own")
		ds := digests(x)
		for _, h := range order {
			d := ds[h]
			// the signature of x tried on H(x)
			one(x, sx, d, "sig_of_preimage_on_"+h)
			// the signature of H(x) tried on x
			sd, err := signer.sk.Sign(d)
			if err != nil {
				t.Fatalf("sign: %v", err)
			}
			one(d, sd, d, "own_digest_sized_"+h)
			one(d, sd, x, "sig_of_"+h+"_on_preimage")
		}
	}
}

// kind 14: IDs made under one value of AdvancedEnableInlining, keys extracted under the other
func c08Inlining(t *testing.T, out *verifh.Out, k *keyInfo) {
	saved := peer.AdvancedEnableInlining
	defer func() { peer.AdvancedEnableInlining = saved }()
	name := ktName[k.kt]
	for _, gen := range []bool{true, false} {
		peer.AdvancedEnableInlining = gen
		id, err := peer.IDFromPublicKey(k.pk)
		if err != nil {
			t.Fatal(err)
		}
		for _, ext := range []bool{true, false} {
			peer.AdvancedEnableInlining = ext
			// through every text form a receiver may have got the ID in
			forms := []peer.ID{id}
			if d, err := peer.Decode(id.String()); err == nil {
				forms = append(forms, d)
			}
			if d, err := peer.Decode(peer.ToCid(id).String()); err == nil {
				forms = append(forms, d)
			}
			for _, f := range forms {
				var ex int64
				if xpk, err := f.ExtractPublicKey(); err == nil {
					if xpk.Equals(k.pk) {
						ex = 0
						out.Cover("inlining." + name + ".key_extracted")
					} else {
						ex = 3
					}
				} else if err == peer.ErrNoPublicKey {
					ex = 1
					out.Cover("inlining." + name + ".no_key_in_id")
				} else {
					ex = 2
				}
				out.Case((&line{}).z(14, b2i(gen), b2i(ext)).b(k.canon).b(k.digest).b([]byte(f)).z(ex).v)
				out.Cover("inlining.cases")
			}
		}
	}
}

// kind 16: multiaddrs built from a component list; who do they name?
func c08P2PAddrs(t *testing.T, out *verifh.Out, r *verifh.Rand, a, relay, relay2 *keyInfo) {
	type comp struct{ name, val string }
	p2p := func(k *keyInfo) comp { return comp{"p2p", k.id.String()} }
	circuit := comp{"p2p-circuit", ""}
	transports := [][]comp{
		{},
		{{"ip4", "10.1.2.3"}, {"tcp", "4001"}},
		{{"ip6", "2001:db8::1"}, {"udp", "4001"}, {"quic-v1", ""}},
		{{"dns4", "relay.example.com"}, {"tcp", "443"}, {"tls", ""}, {"ws", ""}},
	}
	tails := map[string][]comp{
		"transport_only":              {},
		"p2p":                         {p2p(a)},
		"relay_circuit":               {p2p(relay), circuit},
		"relay_circuit_target":        {p2p(relay), circuit, p2p(a)},
		"circuit_target":              {circuit, p2p(a)},
		"two_relays_target":           {p2p(relay), circuit, p2p(relay2), circuit, p2p(a)},
		"two_relays_no_target":        {p2p(relay), circuit, p2p(relay2), circuit},
		"target_then_circuit":         {p2p(relay), circuit, p2p(a), circuit},
		"relay_circuit_relay_itself":  {p2p(relay), circuit, p2p(relay)},
		"p2p_twice":                   {p2p(relay), p2p(a)},
	}
	names := []string{"transport_only", "p2p", "relay_circuit", "relay_circuit_target", "circuit_target", "two_relays_target",
		"two_relays_no_target", "target_then_circuit", "relay_circuit_relay_itself", "p2p_twice"}
	for ti, tr := range transports {
		for _, tn := range names {
			cs := append(append([]comp(nil), tr...), tails[tn]...)
			if len(cs) == 0 {
				continue
			}
			var parts []ma.Multiaddrer
			l := (&line{}).z(16, int64(len(cs)))
			for _, c := range cs {
				mc, err := ma.NewComponent(c.name, c.val)
				if err != nil {
					t.Fatalf("component %v: %v", c, err)
				}
				parts = append(parts, mc)
				l.z(int64(mc.Protocol().Code)).b(mc.RawValue())
			}
			m := ma.Join(parts...)
			id, err := peer.IDFromP2PAddr(m)
			l.z(b2i(err == nil)).b([]byte(id))
			_, sid := peer.SplitAddr(m)
			l.z(b2i(sid != "")).b([]byte(sid))
			ai, aerr := peer.AddrInfoFromP2pAddr(m)
			if aerr == nil {
				l.z(1).b([]byte(ai.ID))
			} else {
				l.z(0).b(nil)
			}
			out.Case(l.v)
			out.Cover("p2paddr." + tn)
			if err == nil {
				out.Cover("p2paddr.named")
			} else {
				out.Cover("p2paddr.names_nobody")
			}
			_ = ti
		}
	}
	// the form AddrInfoToP2pAddrs writes, read back
	tpt := ma.StringCast("/ip4/10.9.8.7/udp/4001/quic-v1")
	via := ma.StringCast("/ip4/10.9.8.7/tcp/4001/p2p/" + relay.id.String() + "/p2p-circuit")
	addrs, err := peer.AddrInfoToP2pAddrs(&peer.AddrInfo{ID: a.id, Addrs: []ma.Multiaddr{tpt, via}})
	if err != nil {
		t.Fatal(err)
	}
	for _, m := range addrs {
		l := (&line{})
		n := 0
		ma.ForEach(m, func(c ma.Component) bool {
			l.z(int64(c.Protocol().Code)).b(c.RawValue())
			n++
			return true
		})
		l.v = append([]int64{16, int64(n)}, l.v...)
		id, err := peer.IDFromP2PAddr(m)
		l.z(b2i(err == nil)).b([]byte(id))
		_, sid := peer.SplitAddr(m)
		l.z(b2i(sid != "")).b([]byte(sid))
		if ai, aerr := peer.AddrInfoFromP2pAddr(m); aerr == nil {
			l.z(1).b([]byte(ai.ID))
		} else {
			l.z(0).b(nil)
		}
		out.Case(l.v)
		out.Cover("p2paddr.written_by_AddrInfoToP2pAddrs")
	}
	_ = crypto.RSA
}

//go:build verif

package record_test

// C08 round 4: histories of ONE address book (kind 20).  Signed peer records go through
// ConsumeEnvelope + ConsumePeerRecord + GetPeerRecord of pstoremem and of pstoreds (CacheSize 0
// and > 0); for pstoreds the harness also overwrites the stored envelope bytes
// (AddrBookRecord.CertifiedRecord.Raw) in the datastore between write and read - same edit
// classes as the envelope stream - and restarts the book over the same datastore.  Wire format:
// /verif/coq/c08/Spec.v, kind 20.

import (
	"context"
	"testing"
	"time"

	ds "github.com/ipfs/go-datastore"
	dssync "github.com/ipfs/go-datastore/sync"
	"github.com/libp2p/go-libp2p/core/crypto"
	"github.com/libp2p/go-libp2p/core/peer"
	peerpb "github.com/libp2p/go-libp2p/core/peer/pb"
	"github.com/libp2p/go-libp2p/core/record"
	rpb "github.com/libp2p/go-libp2p/core/record/pb"
	"github.com/libp2p/go-libp2p/internal/verifh"
	"github.com/libp2p/go-libp2p/p2p/host/peerstore/pstoreds"
	dspb "github.com/libp2p/go-libp2p/p2p/host/peerstore/pstoreds/pb"
	"github.com/libp2p/go-libp2p/p2p/host/peerstore/pstoremem"
	circuit "github.com/libp2p/go-libp2p/p2p/protocol/circuitv2/proto"
	b32 "github.com/multiformats/go-base32"
	ma "github.com/multiformats/go-multiaddr"
	"google.golang.org/protobuf/encoding/protowire"
	"google.golang.org/protobuf/proto"
)

const (
	bookMem     = 0
	bookDs      = 1 // pstoreds, CacheSize 0
	bookDsCache = 2 // pstoreds, CacheSize 64
)

var bookName = []string{"pstoremem", "pstoreds_nocache", "pstoreds_cache"}

type addrBook interface {
	ConsumePeerRecord(*record.Envelope, time.Duration) (bool, error)
	GetPeerRecord(peer.ID) *record.Envelope
	Close() error
}

type kdRow struct {
	kt   int64
	data []byte
	kdec int64
}

// one history: the book, the tables and the ops written so far
type hist struct {
	t     *testing.T
	out   *verifh.Out
	kind  int
	store ds.Batching
	ab    addrBook
	keys  []*keyInfo
	seals []sealRow
	kds   []kdRow
	ops   line
	nops  int64
	label string
}

func newHist(t *testing.T, out *verifh.Out, kind int, keys []*keyInfo, label string) *hist {
	h := &hist{t: t, out: out, kind: kind, keys: keys, label: label}
	if kind != bookMem {
		h.store = dssync.MutexWrap(ds.NewMapDatastore())
	}
	h.open()
	for _, k := range keys {
		h.kds = append(h.kds, kdRow{k.kt, k.raw, int64(len(h.kds))})
	}
	return h
}

func (h *hist) open() {
	if h.kind == bookMem {
		h.ab = pstoremem.NewAddrBook()
		return
	}
	opts := pstoreds.DefaultOpts()
	opts.GCPurgeInterval = 0 // no background GC
	opts.GCLookaheadInterval = 0
	opts.CacheSize = 0
	if h.kind == bookDsCache {
		opts.CacheSize = 64
	}
	ab, err := pstoreds.NewAddrBook(context.Background(), h.store, opts)
	if err != nil {
		h.t.Fatal(err)
	}
	h.ab = ab
}

// the key-type specific unmarshaller's answer for the key carried by these envelope bytes
func (h *hist) noteKD(b []byte) {
	var pe rpb.Envelope
	if err := proto.Unmarshal(b, &pe); err != nil {
		return
	}
	pm := pe.GetPublicKey()
	kt := int64(uint32(int32(pm.GetType())))
	for _, row := range h.kds {
		if row.kt == kt && string(row.data) == string(pm.GetData()) {
			return
		}
	}
	_, kdec, _ := keyClass(pm, h.keys)
	h.kds = append(h.kds, kdRow{kt, append([]byte(nil), pm.GetData()...), kdec})
}

func (h *hist) seal(kidx int64, rec record.Record) []byte {
	env, err := record.Seal(rec, h.keys[kidx].sk)
	if err != nil {
		h.t.Fatalf("seal: %v", err)
	}
	data, err := env.Marshal()
	if err != nil {
		h.t.Fatal(err)
	}
	var pe rpb.Envelope
	if err := proto.Unmarshal(data, &pe); err != nil {
		h.t.Fatal(err)
	}
	h.seals = append(h.seals, sealRow{kidx, rec.Domain(), pe.PayloadType, pe.Payload, pe.Signature})
	return data
}

// op 1: ConsumeEnvelope(env, PeerRecordEnvelopeDomain), then ConsumePeerRecord
func (h *hist) consume(data []byte, what string) {
	h.noteKD(data)
	h.ops.z(1).b(data)
	env, rec, err := record.ConsumeEnvelope(data, peer.PeerRecordEnvelopeDomain)
	res := classify(err)
	if res == 1 {
		signer, merr := crypto.MarshalPublicKey(env.PublicKey)
		aid, ierr := peer.IDFromPublicKey(env.PublicKey)
		if merr != nil || ierr != nil {
			h.t.Fatalf("accepted key: %v %v", merr, ierr)
		}
		h.ops.z(1).b(signer).b(env.PayloadType).b(env.RawPayload).b([]byte(aid))
	} else {
		h.ops.z(res).b(nil).b(nil).b(nil).b(nil)
	}
	var prres int64
	var recid []byte
	if pr, ok := rec.(*peer.PeerRecord); ok && res == 1 {
		recid = []byte(pr.PeerID)
		acc, perr := h.ab.ConsumePeerRecord(env, time.Hour)
		switch {
		case perr == nil && acc:
			prres = 1
		case perr != nil && containsStr(perr.Error(), "signing key does not match"):
			prres = 2
		default:
			prres = 3
		}
		h.out.Cover([]string{"", "book.consume.stored", "book.consume.id_mismatch", "book.consume.refused"}[prres])
	} else {
		h.out.Cover("book.consume.not_attempted")
	}
	h.ops.z(prres).b(recid)
	h.nops++
	h.out.Cover("book.consume." + what)
}

func containsStr(s, sub string) bool {
	for i := 0; i+len(sub) <= len(s); i++ {
		if s[i:i+len(sub)] == sub {
			return true
		}
	}
	return false
}

// op 2: GetPeerRecord
func (h *hist) get(p peer.ID, what string) {
	h.ops.z(2).b([]byte(p))
	env := h.ab.GetPeerRecord(p)
	if env == nil {
		h.ops.z(0).b(nil).b(nil).b(nil).b(nil).z(0)
		h.out.Cover("book.get.nil")
		h.out.Cover("book.get.nil." + what)
	} else {
		signer, merr := crypto.MarshalPublicKey(env.PublicKey)
		gid, ierr := peer.IDFromPublicKey(env.PublicKey)
		if merr != nil || ierr != nil {
			h.t.Fatalf("returned key: %v %v", merr, ierr)
		}
		var reval int64
		if raw, err := env.Marshal(); err == nil {
			if _, _, err := record.ConsumeEnvelope(raw, peer.PeerRecordEnvelopeDomain); err == nil {
				reval = 1
			}
		}
		h.ops.z(1).b(signer).b(env.PayloadType).b(env.RawPayload).b([]byte(gid)).z(reval)
		h.out.Cover("book.get.record")
		h.out.Cover("book.get.record." + what)
	}
	h.nops++
}

func dsKey(p peer.ID) ds.Key {
	return ds.NewKey("/peers/addrs").ChildString(b32.RawStdEncoding.EncodeToString([]byte(p)))
}

// the envelope bytes the datastore holds for p (nil: no entry)
func (h *hist) stored(p peer.ID) []byte {
	data, err := h.store.Get(context.Background(), dsKey(p))
	if err != nil {
		return nil
	}
	var abr dspb.AddrBookRecord
	if err := proto.Unmarshal(data, &abr); err != nil {
		h.t.Fatalf("stored entry: %v", err)
	}
	return abr.GetCertifiedRecord().GetRaw()
}

// op 3: overwrite CertifiedRecord.Raw of p's datastore entry
func (h *hist) edit(p peer.ID, raw []byte, what string) {
	if h.kind == bookMem {
		return
	}
	h.noteKD(raw)
	h.ops.z(3).b([]byte(p)).b(raw)
	h.nops++
	ctx := context.Background()
	data, err := h.store.Get(ctx, dsKey(p))
	if err != nil {
		h.out.Cover("book.edit.no_entry")
		return
	}
	var abr dspb.AddrBookRecord
	if err := proto.Unmarshal(data, &abr); err != nil {
		h.t.Fatalf("stored entry: %v", err)
	}
	if abr.CertifiedRecord == nil {
		h.t.Fatalf("stored entry without a certified record")
	}
	abr.CertifiedRecord.Raw = raw
	nd, err := proto.Marshal(&abr)
	if err != nil {
		h.t.Fatal(err)
	}
	if err := h.store.Put(ctx, dsKey(p), nd); err != nil {
		h.t.Fatal(err)
	}
	h.out.Cover("book.edit." + what)
	h.out.Cover("book.edits")
}

// op 4: restart
func (h *hist) reopen() {
	if h.kind == bookMem {
		return
	}
	h.ab.Close()
	h.open()
	h.ops.z(4)
	h.nops++
	h.out.Cover("book.reopen")
}

func (h *hist) finish() {
	h.ab.Close()
	if h.nops > 64 || len(h.kds) > 64 || len(h.seals) > 64 {
		h.t.Fatalf("history too long: %d ops %d kds", h.nops, len(h.kds))
	}
	l := (&line{}).z(20, int64(h.kind)).b([]byte(peer.PeerRecordEnvelopeDomain)).b(peer.PeerRecordEnvelopePayloadType)
	l.z(int64(len(h.keys)))
	for _, k := range h.keys {
		k.row(l)
	}
	l.z(int64(len(h.seals)))
	for _, s := range h.seals {
		l.z(s.kidx).b([]byte(s.dom)).b(s.pt).b(s.pl).b(s.sigv)
	}
	l.z(int64(len(h.kds)))
	for _, k := range h.kds {
		l.z(k.kt).b(k.data).z(k.kdec)
	}
	l.z(h.nops)
	l.v = append(l.v, h.ops.v...)
	h.out.Case(l.v)
	h.out.Cover("book.histories")
	h.out.Cover("book.histories." + bookName[h.kind] + "." + h.label)
}

type envEdit struct {
	what string
	b    []byte
}

// the edit classes of the envelope stream applied to one sealed peer-record envelope
// (signature untouched unless the class says otherwise)
func (h *hist) envEdits(r *verifh.Rand, data []byte, signer, foreign *keyInfo, sealedOther []byte) []envEdit {
	t := h.t
	var pe rpb.Envelope
	if err := proto.Unmarshal(data, &pe); err != nil {
		t.Fatal(err)
	}
	remarshal := func(f func(e *rpb.Envelope)) []byte {
		e := proto.Clone(&pe).(*rpb.Envelope)
		f(e)
		return mustMarshal(t, e)
	}
	payload := func(f func(p *peerpb.PeerRecord)) []byte {
		var prec peerpb.PeerRecord
		if err := proto.Unmarshal(pe.Payload, &prec); err != nil {
			t.Fatal(err)
		}
		f(&prec)
		return mustMarshal(t, &prec)
	}
	evil := ma.StringCast("/ip4/66.6.6.6/tcp/666")
	fpk, _ := crypto.PublicKeyToProto(foreign.pk)
	flip := func(b []byte, i int) []byte {
		m := append([]byte(nil), b...)
		m[i] ^= 1 << uint(r.Intn(8))
		return m
	}
	f1 := cat(protowire.AppendTag(nil, 1, protowire.BytesType), protowire.AppendBytes(nil, signer.canon))
	f2 := cat(protowire.AppendTag(nil, 2, protowire.BytesType), protowire.AppendBytes(nil, pe.PayloadType))
	f3 := cat(protowire.AppendTag(nil, 3, protowire.BytesType), protowire.AppendBytes(nil, pe.Payload))
	f5 := cat(protowire.AppendTag(nil, 5, protowire.BytesType), protowire.AppendBytes(nil, pe.Signature))
	al := keyAliases(r, signer.kt, signer.raw)
	a := al[r.Intn(len(al))]
	eds := []envEdit{
		{"payload_address", remarshal(func(e *rpb.Envelope) {
			e.Payload = payload(func(p *peerpb.PeerRecord) {
				p.Addresses = []*peerpb.PeerRecord_AddressInfo{{Multiaddr: evil.Bytes()}}
			})
		})},
		{"payload_seq", remarshal(func(e *rpb.Envelope) {
			e.Payload = payload(func(p *peerpb.PeerRecord) { p.Seq += 1 + uint64(r.Intn(5)) })
		})},
		{"payload_address_added", remarshal(func(e *rpb.Envelope) {
			e.Payload = payload(func(p *peerpb.PeerRecord) {
				p.Addresses = append(p.Addresses, &peerpb.PeerRecord_AddressInfo{Multiaddr: evil.Bytes()})
			})
		})},
		{"payload_peer_id_and_key_foreign", remarshal(func(e *rpb.Envelope) {
			e.Payload = payload(func(p *peerpb.PeerRecord) { p.PeerId = []byte(foreign.id) })
			e.PublicKey = fpk
		})},
		{"payload_peer_id_foreign", remarshal(func(e *rpb.Envelope) {
			e.Payload = payload(func(p *peerpb.PeerRecord) { p.PeerId = []byte(foreign.id) })
		})},
		{"payload_bit", remarshal(func(e *rpb.Envelope) { e.Payload = flip(pe.Payload, r.Intn(len(pe.Payload))) })},
		{"payload_overridden_on_the_wire", cat(f1, f2, f3, f5, protowire.AppendTag(nil, 3, protowire.BytesType),
			protowire.AppendBytes(nil, payload(func(p *peerpb.PeerRecord) { p.Seq++ })))},
		{"type_changed", remarshal(func(e *rpb.Envelope) { e.PayloadType = cat(pe.PayloadType, []byte{1}) })},
		{"type_voucher", remarshal(func(e *rpb.Envelope) { e.PayloadType = (&circuit.ReservationVoucher{}).Codec() })},
		{"signature_bit", remarshal(func(e *rpb.Envelope) { e.Signature = flip(pe.Signature, r.Intn(len(pe.Signature))) })},
		{"signature_dropped", remarshal(func(e *rpb.Envelope) { e.Signature = nil })},
		{"key_foreign", remarshal(func(e *rpb.Envelope) { e.PublicKey = fpk })},
		{"key_dropped", remarshal(func(e *rpb.Envelope) { e.PublicKey = nil })},
		{"key_alias_same_signer", cat(protowire.AppendTag(nil, 1, protowire.BytesType), protowire.AppendBytes(nil, a.b), f2, f3, f5)},
		{"truncated", append([]byte(nil), data[:1+r.Intn(len(data)-1)]...)},
		{"extended", cat(data, []byte{0})},
		{"any_bit", flip(data, r.Intn(len(data)))},
		{"sealed_for_another_domain", sealedOther},
		{"garbage", rbytes(r, 1+r.Intn(40))},
	}
	return eds
}

func byName(eds []envEdit, what string) envEdit {
	for _, e := range eds {
		if e.what == what {
			return e
		}
	}
	panic("no such edit class: " + what)
}

// every history of one signer / foreign pair on one kind of book
func c08BookHistories(t *testing.T, out *verifh.Out, r *verifh.Rand, signer, foreign *keyInfo, kind int, sample int) {
	keys := []*keyInfo{signer, foreign}
	addrA := ma.StringCast("/ip4/10.1.2.3/tcp/4001")
	addrB := ma.StringCast("/ip4/10.9.8.7/udp/4001/quic-v1")
	type sealed struct{ g, g2, gold, f, evil, other []byte }
	sealAll := func(h *hist) sealed {
		var s sealed
		s.g = h.seal(0, &peer.PeerRecord{PeerID: signer.id, Addrs: []ma.Multiaddr{addrA}, Seq: 7})
		s.g2 = h.seal(0, &peer.PeerRecord{PeerID: signer.id, Addrs: []ma.Multiaddr{addrA, addrB}, Seq: 9})
		s.gold = h.seal(0, &peer.PeerRecord{PeerID: signer.id, Addrs: []ma.Multiaddr{addrB}, Seq: 3})
		s.f = h.seal(1, &peer.PeerRecord{PeerID: foreign.id, Addrs: []ma.Multiaddr{addrB}, Seq: 5})
		s.evil = h.seal(0, &peer.PeerRecord{PeerID: foreign.id, Addrs: []ma.Multiaddr{addrA}, Seq: 8})
		// the genuine payload sealed by the signer for ANOTHER domain
		var pe rpb.Envelope
		proto.Unmarshal(s.g, &pe)
		s.other = h.seal(0, &rawRec{dom: peer.PeerRecordEnvelopeDomain + "-x", codec: pe.PayloadType, payload: pe.Payload})
		return s
	}
	pick := func(eds []envEdit) []envEdit {
		// the quick tier takes every [sample]-th class, starting at a random one; the first
		// two (the payload edits of the seeded kind) always
		if sample <= 1 {
			return eds
		}
		o := r.Intn(sample)
		var res []envEdit
		for i, e := range eds {
			if i < 2 || i%sample == o {
				res = append(res, e)
			}
		}
		return res
	}

	// A: the API path.  Edited envelopes are offered to ConsumeEnvelope + ConsumePeerRecord; the
	// book must keep handing out the genuine record (at most 8 edit classes per history)
	{
		var h *hist
		var todo []envEdit
		for first := true; first || len(todo) > 0; first = false {
			h = newHist(t, out, kind, keys, "api_edits")
			s := sealAll(h)
			// the edits are made from THIS history's sealed envelope (its signature is a seal
			// event of this history)
			eds := h.envEdits(r, s.g, signer, foreign, s.other)
			if first {
				todo = pick(eds)
				h.get(signer.id, "empty_book")
			}
			h.consume(s.g, "genuine")
			h.get(signer.id, "after_genuine")
			h.get(foreign.id, "other_peer")
			n := 0
			for ; n < len(todo) && n < 8; n++ {
				e := byName(eds, todo[n].what)
				h.consume(e.b, e.what)
				h.get(signer.id, "after_edit_offered")
				if e.what == "payload_peer_id_and_key_foreign" {
					h.get(foreign.id, "after_edit_offered_foreign")
				}
			}
			todo = todo[n:]
			h.finish()
		}
	}
	// B: sequence numbers, a record naming somebody else, a second peer
	{
		h := newHist(t, out, kind, keys, "api_seq")
		s := sealAll(h)
		h.consume(s.g, "genuine")
		h.consume(s.gold, "older_seq")
		h.get(signer.id, "after_older")
		h.consume(s.evil, "names_foreign_id")
		h.get(foreign.id, "after_evil")
		h.consume(s.g2, "newer_seq")
		h.get(signer.id, "after_newer")
		if kind != bookMem && r.Intn(2) == 0 {
			h.reopen()
			h.get(signer.id, "after_restart")
		}
		h.consume(s.g, "replayed_older")
		h.get(signer.id, "after_replay")
		h.consume(s.f, "foreign_genuine")
		h.get(foreign.id, "foreign")
		h.get(signer.id, "signer_again")
		h.consume(s.other, "sealed_for_another_domain")
		h.finish()
	}
	if kind == bookMem {
		return
	}
	// C: the stored bytes are edited between write and read (at most 8 edit classes per history)
	{
		var todo []envEdit
		for first := true; first || len(todo) > 0; first = false {
			h := newHist(t, out, kind, keys, "stored_edits")
			s := sealAll(h)
			h.consume(s.g, "genuine")
			h.get(signer.id, "after_genuine")
			orig := append([]byte(nil), h.stored(signer.id)...)
			if len(orig) == 0 {
				t.Fatalf("no stored envelope after an accepted record")
			}
			eds := h.envEdits(r, orig, signer, foreign, s.other)
			if first {
				todo = pick(eds)
			}
			n := 0
			for ; n < len(todo) && n < 8; n++ {
				e := byName(eds, todo[n].what)
				h.edit(signer.id, e.b, e.what)
				if kind == bookDsCache {
					if n%3 == 0 {
						h.get(signer.id, "edited_behind_the_cache")
					}
					h.reopen()
				} else if r.Intn(3) == 0 {
					h.reopen()
				}
				h.get(signer.id, "after_stored_edit")
			}
			todo = todo[n:]
			h.edit(signer.id, orig, "restored")
			h.reopen()
			h.get(signer.id, "after_restore")
			h.finish()
		}
	}
	// D: the stored bytes are replaced by OTHER sealed envelopes, emptied, and the book is used on
	{
		h := newHist(t, out, kind, keys, "stored_replaced")
		s := sealAll(h)
		h.consume(s.g, "genuine")
		h.consume(s.f, "foreign_genuine")
		fstored := append([]byte(nil), h.stored(foreign.id)...)
		h.edit(signer.id, fstored, "other_peers_sealed_record")
		h.reopen()
		h.get(signer.id, "after_replaced_by_other_peers_record")
		h.edit(signer.id, s.evil, "signers_record_naming_foreign_id")
		h.reopen()
		h.get(signer.id, "after_replaced_by_evil")
		h.edit(signer.id, s.g2, "signers_newer_record")
		h.reopen()
		h.get(signer.id, "after_replaced_by_newer")
		h.consume(s.gold, "older_seq_than_stored_seq")
		h.get(signer.id, "after_older")
		h.edit(signer.id, nil, "emptied")
		h.reopen()
		h.get(signer.id, "after_emptied")
		h.consume(s.gold, "older_seq_after_emptied")
		h.get(signer.id, "after_older_on_emptied")
		h.edit(foreign.id, s.other, "sealed_for_another_domain")
		h.reopen()
		h.get(foreign.id, "after_other_domain")
		h.edit(peer.ID("nobody"), s.g, "peer_without_entry")
		h.get(peer.ID("nobody"), "peer_without_entry")
		h.finish()
	}
}

func c08Books(t *testing.T, out *verifh.Out, r *verifh.Rand, signer, foreign *keyInfo, thorough bool) {
	sample := 3
	if thorough {
		sample = 1
	}
	for _, kind := range []int{bookMem, bookDs, bookDsCache} {
		c08BookHistories(t, out, r, signer, foreign, kind, sample)
	}
}

// Re-execute a recorded kind-20 history: everything it needs is public bytes.
func c08ReplayBook(t *testing.T, out *verifh.Out, toks []int64) {
	p := 1
	z := func() int64 { v := toks[p]; p++; return v }
	bs := func() []byte {
		n := int(z())
		b := make([]byte, n)
		for i := range b {
			b[i] = byte(z())
		}
		return b
	}
	kind := int(z())
	bs() // prdom
	bs() // prcodec
	var keys []*keyInfo
	nk := int(z())
	for i := 0; i < nk; i++ {
		kt := z()
		raw, canon, dg, id := bs(), bs(), bs(), bs()
		pk, err := crypto.UnmarshalPublicKey(canon)
		if err != nil {
			t.Fatalf("replay key: %v", err)
		}
		keys = append(keys, &keyInfo{pk: pk, kt: kt, raw: raw, canon: canon, digest: dg, id: peer.ID(id)})
	}
	h := newHist(t, out, kind, keys, "replay")
	ns := int(z())
	for i := 0; i < ns; i++ {
		ki := z()
		d, pt, pl, sg := bs(), bs(), bs(), bs()
		h.seals = append(h.seals, sealRow{ki, string(d), pt, pl, sg})
	}
	nd := int(z())
	for i := 0; i < nd; i++ {
		z()
		bs()
		z()
	}
	no := int(z())
	for i := 0; i < no; i++ {
		switch z() {
		case 1:
			env := bs()
			z()
			bs()
			bs()
			bs()
			bs()
			z()
			bs()
			h.consume(env, "replay")
		case 2:
			pid := bs()
			z()
			bs()
			bs()
			bs()
			bs()
			z()
			h.get(peer.ID(pid), "replay")
		case 3:
			pid, raw := bs(), bs()
			h.edit(peer.ID(pid), raw, "replay")
		case 4:
			h.reopen()
		default:
			t.Fatalf("replay: bad op")
		}
	}
	h.finish()
}

//go:build verif

package observedaddrs

// C17 correspondence harness (injected with `go test -overlay`; not part of
// /repo).  Drives the real observedaddrs.Manager (maybeRecordObservation,
// removeConn, AddrsFor, Addrs) with seeded histories over a universe of real
// multiaddrs and writes one case per line in the wire format documented in
// /verif/coq/c17/Spec.v.

import (
	"fmt"
	"net/netip"
	"sort"
	"strings"
	"testing"
	"testing/synctest"

	"github.com/libp2p/go-libp2p/core/event"
	"github.com/libp2p/go-libp2p/core/network"
	"github.com/libp2p/go-libp2p/internal/verifh"
	"github.com/libp2p/go-libp2p/p2p/host/eventbus"
	ma "github.com/multiformats/go-multiaddr"
	manet "github.com/multiformats/go-multiaddr/net"
)

// ---- universe -------------------------------------------------------------

// an address given as thin waist + rest, so that the harness knows the split
// by construction (tw == "" : no thin-waist form)
type c17Addr struct {
	tw, rest string
	lb, n64, relay bool // observed-address classes, by construction
}

func (a c17Addr) full() string { return a.tw + a.rest }

// local / listen addresses
var c17Locals = []c17Addr{
	{tw: "/ip4/192.168.1.100/tcp/1"},
	{tw: "/ip4/0.0.0.0/udp/1", rest: "/quic-v1"},
	{tw: "/ip4/0.0.0.0/udp/1", rest: "/quic-v1/webtransport/certhash/uEgNmb28"},
	{tw: "/ip4/192.168.1.100/tcp/2"},
	{tw: "/ip4/0.0.0.0/udp/2", rest: "/quic-v1"},
	{tw: "/ip6/2004::1/tcp/1"},
	{tw: "/ip6/::/udp/1", rest: "/quic-v1"},
	{tw: "/ip6/::/udp/1", rest: "/quic-v1/webtransport/certhash/uEgNmb28"},
	{tw: "/ip4/192.168.1.100/tcp/1", rest: "/ws"},
	{tw: "/ip4/10.9.9.9/tcp/7"},
	{rest: "/p2p-circuit"},
	{rest: "/dns4/example.com/tcp/1"},
}

// remote IPs: same IP on several connections (ports differ), IPv6 addresses
// sharing a /64, sharing only a /56, in another /56, an IPv4-mapped IPv6
// address, and a remote without an IP
var c17Remotes = []string{
	"1.2.3.1", "1.2.3.2", "1.2.3.3", "1.2.3.4", "1.2.3.5", "1.2.3.6", "1.2.4.1",
	"2001:db8:1:100::1", "2001:db8:1:100::2", "2001:db8:1:1ff::1", "2001:db8:1:200::1",
	"2001:db8:2:100::1", "2001:db8:3:100::1", "2001:db8:4:1ab::9", "2001:db8:4:1cd::9",
	"::ffff:1.2.3.1", "::ffff:1.2.3.9",
	"",
}

var c17Observed []c17Addr

func init() {
	add := func(a c17Addr) { c17Observed = append(c17Observed, a) }
	for i := 1; i <= 4; i++ {
		for p := 2; p <= 3; p++ {
			add(c17Addr{tw: fmt.Sprintf("/ip4/2.2.2.%d/tcp/%d", i, p)})
			add(c17Addr{tw: fmt.Sprintf("/ip4/2.2.2.%d/udp/%d", i, p), rest: "/quic-v1"})
		}
		add(c17Addr{tw: fmt.Sprintf("/ip4/2.2.2.%d/udp/2", i), rest: "/quic-v1/webtransport"})
		add(c17Addr{tw: fmt.Sprintf("/ip6/2a00::%d/tcp/2", i)})
		add(c17Addr{tw: fmt.Sprintf("/ip6/2a00::%d/udp/2", i), rest: "/quic-v1"})
	}
	add(c17Addr{tw: "/ip4/2.2.2.1/tcp/2", rest: "/ws"})
	add(c17Addr{tw: "/ip4/192.168.5.5/tcp/2"})
	// classes that never count
	add(c17Addr{tw: "/ip4/127.0.0.1/tcp/2", lb: true})
	add(c17Addr{tw: "/ip4/127.0.0.1/udp/2", rest: "/quic-v1", lb: true})
	add(c17Addr{tw: "/ip6/::1/tcp/2", lb: true})
	add(c17Addr{tw: "/ip6/::1/udp/2", rest: "/quic-v1", lb: true})
	add(c17Addr{tw: "/ip6/64:ff9b::202:201/tcp/2", n64: true})
	add(c17Addr{tw: "/ip6/64:ff9b::202:202/udp/2", rest: "/quic-v1", n64: true})
	add(c17Addr{tw: "/ip4/2.2.2.1/tcp/2", rest: "/p2p-circuit", relay: true})
	add(c17Addr{tw: "/ip4/2.2.2.2/udp/2", rest: "/quic-v1/p2p-circuit", relay: true})
	add(c17Addr{tw: "/ip6/2a00::1/tcp/2", rest: "/p2p-circuit", relay: true})
	// /p2p-circuit in every position: last, followed by /p2p/<self>, after the
	// relay's /p2p/<id>, in the middle with further components
	const pid1 = "/p2p/QmdXGaeGiVA745XorV1jr11RHxB9z4fqykm6xCUPX1aTJo"
	const pid2 = "/p2p/QmcgpsyWgH8Y8ajJz1Cu72KnS5uo2Aa2LpzU7kinSupNKC"
	add(c17Addr{tw: "/ip4/2.2.2.1/tcp/2", rest: pid1 + "/p2p-circuit", relay: true})
	add(c17Addr{tw: "/ip4/2.2.2.1/tcp/2", rest: pid1 + "/p2p-circuit" + pid2, relay: true})
	add(c17Addr{tw: "/ip4/2.2.2.3/tcp/2", rest: "/p2p-circuit" + pid2, relay: true})
	add(c17Addr{tw: "/ip4/2.2.2.2/udp/2", rest: "/quic-v1" + pid1 + "/p2p-circuit" + pid2, relay: true})
	add(c17Addr{tw: "/ip4/2.2.2.4/tcp/3", rest: "/ws" + pid1 + "/p2p-circuit/tls/ws", relay: true})
	add(c17Addr{tw: "/ip6/2a00::2/tcp/2", rest: pid1 + "/p2p-circuit" + pid2, relay: true})
	// the other never-count classes with trailing components / a zone
	add(c17Addr{tw: "/ip4/127.0.0.1/tcp/2", rest: "/ws" + pid1, lb: true})
	add(c17Addr{tw: "/ip4/127.9.9.9/udp/3", rest: "/quic-v1/webtransport", lb: true})
	add(c17Addr{rest: "/ip6zone/eth0/ip6/::1/tcp/2", lb: true})
	add(c17Addr{tw: "/ip6/64:ff9b::808:808/tcp/3", rest: "/tls/ws" + pid2, n64: true})
	add(c17Addr{rest: "/dns4/example.com/tcp/2"})
	add(c17Addr{rest: "/ip4/2.2.2.1"})
	add(c17Addr{rest: "/ip4/2.2.2.1/tls"})
}

// many distinct observed addresses for one local address (many peers behind
// a symmetric NAT: same IP, a different port seen by each): only used by the
// directed "many tracked addresses" histories
var c17Many []c17Addr

func init() {
	for i := 0; i < 130; i++ {
		c17Many = append(c17Many, c17Addr{tw: fmt.Sprintf("/ip4/2.2.9.1/tcp/%d", 10000+i)})
	}
}

func c17AllObserved() []c17Addr {
	return append(append([]c17Addr(nil), c17Observed...), c17Many...)
}

type c17Tables struct {
	localTW  map[string]int64 // local thin-waist string -> id
	restID   map[string]int64 // rest string -> id
	obsTW    map[string]int64 // observed thin-waist string -> rank under Compare
	obsTWs   []string         // rank -> string
	outAddr  map[string][2]int64
	obsByStr map[string]c17Addr
	locByStr map[string]c17Addr
}

var c17T *c17Tables

func c17FamProto(tw string) (int64, int64) {
	var fam, proto int64
	switch {
	case strings.HasPrefix(tw, "/ip4/"):
		fam = 4
	case strings.HasPrefix(tw, "/ip6/"):
		fam = 6
	}
	switch {
	case strings.Contains(tw, "/tcp/"):
		proto = 6
	case strings.Contains(tw, "/udp/"):
		proto = 17
	}
	return fam, proto
}

func c17Build(t testing.TB) *c17Tables {
	if c17T != nil {
		return c17T
	}
	T := &c17Tables{
		localTW: map[string]int64{}, restID: map[string]int64{}, obsTW: map[string]int64{},
		outAddr: map[string][2]int64{}, obsByStr: map[string]c17Addr{}, locByStr: map[string]c17Addr{},
	}
	for _, a := range c17Locals {
		if a.tw != "" {
			if _, ok := T.localTW[a.tw]; !ok {
				T.localTW[a.tw] = int64(len(T.localTW))
			}
		}
		if _, ok := T.restID[a.rest]; !ok {
			T.restID[a.rest] = int64(len(T.restID))
		}
		T.locByStr[a.full()] = a
	}
	seen := map[string]bool{}
	for _, a := range c17AllObserved() {
		T.obsByStr[a.full()] = a
		if a.tw != "" && !seen[a.tw] {
			seen[a.tw] = true
			T.obsTWs = append(T.obsTWs, a.tw)
		}
		// the class predicates the code calls must agree with the construction
		m := ma.StringCast(a.full())
		if manet.IsIPLoopback(m) != a.lb || manet.IsNAT64IPv4ConvertedIPv6Addr(m) != a.n64 {
			t.Fatalf("c17: class of %s is not what the harness assumes", a.full())
		}
		circ := false
		for _, c := range m {
			if c.Code() == ma.P_CIRCUIT {
				circ = true
			}
		}
		if circ != a.relay {
			t.Fatalf("c17: relay class of %s is not what the harness assumes", a.full())
		}
		if a.tw != "" {
			tw := ma.StringCast(a.tw)
			if len(tw) != 2 || !m[:2].Equal(tw) {
				t.Fatalf("c17: thin waist of %s is not %s", a.full(), a.tw)
			}
		}
	}
	sort.Slice(T.obsTWs, func(i, j int) bool {
		return ma.StringCast(T.obsTWs[i]).Compare(ma.StringCast(T.obsTWs[j])) < 0
	})
	for i, s := range T.obsTWs {
		T.obsTW[s] = int64(i)
		if i > 0 && ma.StringCast(T.obsTWs[i-1]).Compare(ma.StringCast(s)) >= 0 {
			t.Fatalf("c17: Compare is not a strict order on the observed thin waists")
		}
	}
	for _, tw := range T.obsTWs {
		for rest, rid := range T.restID {
			var m ma.Multiaddr
			if rest == "" {
				m = ma.StringCast(tw)
			} else {
				m = ma.Join(ma.StringCast(tw), ma.StringCast(rest))
			}
			T.outAddr[string(m.Bytes())] = [2]int64{T.obsTW[tw], rid}
		}
	}
	c17T = T
	return T
}

// ---- a script: concrete multiaddrs + operations ------------------------------

// c17Conn is a network.Conn of which only the three methods the manager calls
// exist (anything else would panic on the nil embedded interface)
type c17Conn struct {
	network.Conn
	local, remote ma.Multiaddr
	closed        bool
	dir           network.Direction
}

// what a swarm connection answers: inbound (accepted by a listener) or
// outbound (dialed; a dial that leaves from the listen socket - every QUIC
// dial, TCP with reuseport - has a listen address as its local address)
func (c *c17Conn) Stat() network.ConnStats {
	return network.ConnStats{Stats: network.Stats{Direction: c.dir}}
}

// c17Net is a network.Network that only records the notifiee Start registers
type c17Net struct {
	network.Network
	nf network.Notifiee
}

func (n *c17Net) Notify(f network.Notifiee)     { n.nf = f }
func (n *c17Net) StopNotify(f network.Notifiee) { n.nf = nil }

func (c *c17Conn) LocalMultiaddr() ma.Multiaddr  { return c.local }
func (c *c17Conn) RemoteMultiaddr() ma.Multiaddr { return c.remote }
func (c *c17Conn) IsClosed() bool                { return c.closed }

type c17ConnSpec struct {
	local    c17Addr
	remoteIP string // "" = remote multiaddr without an IP
	port     int
	out      bool // outbound (dialed from the listen socket); default inbound
}

type c17Op struct {
	kind     int // 1 observe, 2 mark closed, 3 disconnect, 4 observe with a disconnect of conn `during` at the listenAddrs() call, 5 two reports in quick succession, 6 the listen set changes, 7 ActivationThresh changes
	conn     int
	observed c17Addr
	during   int
	second   c17Addr   // kind 5: the second report of the pair
	listen   []c17Addr // kind 6: what listenAddrs() returns from now on
	thresh   int       // kind 7: the new value of ActivationThresh
}

type c17Script struct {
	e2e     bool
	thresh  int
	listen  []c17Addr
	queries []c17Addr
	conns   []c17ConnSpec
	ops     []c17Op
}

func c17Laddr(T *c17Tables, a c17Addr) (int64, int64) {
	tw := int64(-1)
	if a.tw != "" {
		tw = T.localTW[a.tw]
	}
	return tw, T.restID[a.rest]
}

func c17RemoteTokens(ip string) []int64 {
	out := make([]int64, 9)
	if ip == "" {
		return out
	}
	a := netip.MustParseAddr(ip)
	if a.Is4() {
		b := a.As4()
		out[0] = 4
		out[1] = int64(b[0])<<24 | int64(b[1])<<16 | int64(b[2])<<8 | int64(b[3])
		return out
	}
	b := a.As16()
	out[0] = 6
	for i := 0; i < 8; i++ {
		out[1+i] = int64(b[2*i])<<8 | int64(b[2*i+1])
	}
	return out
}

func c17RemoteAddr(s c17ConnSpec) ma.Multiaddr {
	var ipPart string
	switch {
	case s.remoteIP == "":
		ipPart = "/dns4/peer.example"
	case strings.Contains(s.remoteIP, ":"):
		ipPart = "/ip6/" + s.remoteIP
	default:
		ipPart = "/ip4/" + s.remoteIP
	}
	_, proto := c17FamProto(s.local.tw)
	if proto == 17 {
		return ma.StringCast(fmt.Sprintf("%s/udp/%d/quic-v1", ipPart, s.port))
	}
	return ma.StringCast(fmt.Sprintf("%s/tcp/%d", ipPart, s.port))
}

// c17Exec runs the script on a fresh real Manager and returns the case line.
// direct mode: maybeRecordObservation / removeConn are called directly.
// e2e mode (inside a synctest bubble): the manager is Start()ed; reports are
// emitted as EvtPeerIdentificationCompleted on the event bus and travel through
// eventHandler -> wch -> worker; disconnects are delivered through the
// notifiee the manager registered with the network.
func c17Exec(t *testing.T, out *verifh.Out, sc *c17Script, e2e bool) []int64 {
	if !e2e {
		return c17ExecIn(t, out, sc, false)
	}
	var line []int64
	synctest.Test(t, func(t *testing.T) { line = c17ExecIn(t, out, sc, true) })
	return line
}

func c17ExecIn(t *testing.T, out *verifh.Out, sc *c17Script, e2e bool) []int64 {
	T := c17Build(t)
	saved := ActivationThresh
	ActivationThresh = sc.thresh
	defer func() { ActivationThresh = saved }()

	// ActivationThresh is a package variable: the deferred restore above keeps a
	// change made by a case (op 7) from leaking into the next case / other tests
	// of this single process
	curThresh := sc.thresh
	mkListen := func(as []c17Addr) []ma.Multiaddr {
		l := make([]ma.Multiaddr, len(as))
		for i, a := range as {
			l[i] = ma.StringCast(a.full())
		}
		return l
	}
	listen := mkListen(sc.listen)
	curListen := sc.listen
	// like Network.ListenAddresses: a fresh slice on every call
	var bus event.Bus
	if e2e {
		bus = eventbus.NewBus()
	}
	// hook: runs once, inside the next listenAddrs() call.  The manager calls
	// listenAddrs() in the middle of shouldRecordObservation, before it takes
	// its lock, so this is where another goroutine's close + Disconnected
	// notification can interleave with an observation being processed.
	var hook func()
	o, err := newManagerWithListenAddrs(bus, func() []ma.Multiaddr {
		if h := hook; h != nil {
			hook = nil
			h()
		}
		return append([]ma.Multiaddr(nil), listen...)
	})
	if err != nil {
		t.Fatal(err)
	}
	doObserve := func(c *c17Conn, a ma.Multiaddr) { o.maybeRecordObservation(c, a) }
	doDisconnect := func(c *c17Conn) { o.removeConn(c) }
	doPair := func(c *c17Conn, a, b ma.Multiaddr) bool {
		o.maybeRecordObservation(c, a)
		o.maybeRecordObservation(c, b)
		return false
	}
	if e2e {
		nw := &c17Net{}
		o.Start(nw)
		if nw.nf == nil {
			t.Fatal("c17: Start did not register a notifiee")
		}
		em, err := bus.Emitter(new(event.EvtPeerIdentificationCompleted))
		if err != nil {
			t.Fatal(err)
		}
		defer func() {
			em.Close()
			o.Close()
		}()
		doObserve = func(c *c17Conn, a ma.Multiaddr) {
			if err := em.Emit(event.EvtPeerIdentificationCompleted{Conn: c, ObservedAddr: a}); err != nil {
				t.Fatal(err)
			}
			synctest.Wait() // the worker has consumed the observation (or is held in a hook)
		}
		// two reports of one connection close together: the first is held inside
		// shouldRecordObservation (at its listenAddrs() call) until the second has
		// been emitted and everything that can run has run, then released
		doPair = func(c *c17Conn, a, b ma.Multiaddr) bool {
			stall := make(chan struct{})
			held := false
			hook = func() {
				held = true
				<-stall
			}
			doObserve(c, a)
			doObserve(c, b)
			hook = nil
			close(stall)
			synctest.Wait()
			return held
		}
		doDisconnect = func(c *c17Conn) { nw.nf.Disconnected(nw, c) }
		if out != nil {
			out.Cover("cases.e2e_eventbus_and_notifiee")
		}
	}
	mode := int64(0)
	if e2e {
		mode = 1
	}
	line := []int64{17, int64(sc.thresh), mode, int64(len(sc.listen))}
	for _, a := range sc.listen {
		tw, r := c17Laddr(T, a)
		line = append(line, tw, r)
	}
	line = append(line, int64(len(sc.queries)))
	queries := make([]ma.Multiaddr, len(sc.queries))
	for i, a := range sc.queries {
		tw, r := c17Laddr(T, a)
		line = append(line, tw, r)
		queries[i] = ma.StringCast(a.full())
	}
	line = append(line, int64(len(sc.conns)))
	conns := make([]*c17Conn, len(sc.conns))
	for i, s := range sc.conns {
		conns[i] = &c17Conn{local: ma.StringCast(s.local.full()), remote: c17RemoteAddr(s), dir: network.DirInbound}
		dir := int64(1)
		if s.out {
			conns[i].dir = network.DirOutbound
			dir = 2
		}
		tw, _ := c17Laddr(T, s.local)
		fam, proto := c17FamProto(s.local.tw)
		line = append(line, tw, fam, proto, dir)
		line = append(line, c17RemoteTokens(s.remoteIP)...)
	}
	decode := func(m ma.Multiaddr) [2]int64 {
		if v, ok := T.outAddr[string(m.Bytes())]; ok {
			return v
		}
		return [2]int64{-9, -9}
	}
	isListenTW := func(a c17Addr) bool {
		if a.tw == "" {
			return false
		}
		for _, l := range curListen {
			if l.tw == a.tw {
				return true
			}
		}
		return false
	}
	everNotListening := map[int]bool{}
	for _, op := range sc.ops {
		var c *c17Conn
		if op.kind != 6 && op.kind != 7 {
			c = conns[op.conn]
		}
		switch op.kind {
		case 6:
			line = append(line, 6, int64(len(op.listen)))
			for _, a := range op.listen {
				tw, r := c17Laddr(T, a)
				line = append(line, tw, r)
			}
			listen = mkListen(op.listen)
			curListen = op.listen
			if out != nil {
				out.Cover("listen.changed")
				for i := range conns {
					if _, ok := o.connObservedTWAddrs[conns[i]]; ok && !conns[i].closed && !isListenTW(sc.conns[i].local) {
						out.Cover("listen.closed_under_open_credited_conn")
					}
				}
			}
		case 7:
			line = append(line, 7, int64(op.thresh))
			if out != nil {
				switch {
				case op.thresh > curThresh:
					out.Cover("thresh.raised_after_construction")
				case op.thresh < curThresh:
					out.Cover("thresh.lowered_after_construction")
				default:
					out.Cover("thresh.set_to_same")
				}
				for _, m := range o.externalAddrs {
					for _, s := range m {
						n := len(s.ObservedBy)
						if n >= curThresh && n < op.thresh {
							out.Cover("thresh.raised_above_an_advertised_address")
						}
						if n < curThresh && n >= op.thresh {
							out.Cover("thresh.lowered_to_an_unadvertised_address")
						}
					}
				}
			}
			ActivationThresh = op.thresh
			curThresh = op.thresh
		case 1, 4:
			a := op.observed
			otw := int64(-1)
			var fam, proto int64
			if a.tw != "" {
				otw = T.obsTW[a.tw]
				fam, proto = c17FamProto(a.tw)
			}
			b2i := func(b bool) int64 {
				if b {
					return 1
				}
				return 0
			}
			line = append(line, int64(op.kind), int64(op.conn), b2i(a.lb), b2i(a.n64), b2i(a.relay), otw, fam, proto)
			prev, had := o.connObservedTWAddrs[c]
			if out != nil && had && !c.closed && !isListenTW(sc.conns[op.conn].local) {
				out.Cover("rereport.credited_conn_whose_listener_is_closed")
			}
			if !isListenTW(sc.conns[op.conn].local) {
				everNotListening[op.conn] = true
			} else if out != nil && everNotListening[op.conn] && !c.closed {
				out.Cover("report.listener_reopened_under_open_conn")
			}
			hookFired := false
			if op.kind == 4 {
				d := conns[op.during]
				hook = func() {
					hookFired = true
					d.closed = true
					doDisconnect(d) // removeConn(d), before the worker takes o.mu
				}
			}
			if out != nil && had && c.local != nil {
				for _, m := range o.externalAddrs {
					if len(m) >= 64 {
						out.Cover("many.report_on_credited_conn_with_ge64_tracked_addrs")
						break
					}
				}
			}
			doObserve(c, ma.StringCast(a.full()))
			hook = nil
			if op.kind == 4 {
				line = append(line, int64(op.during), b2i(hookFired))
				if out != nil {
					switch {
					case !hookFired:
						out.Cover("during.hook_not_reached")
					case op.during == op.conn && had:
						out.Cover("during.closed_observed_conn_that_had_credit")
					case op.during == op.conn:
						out.Cover("during.closed_observed_conn")
					default:
						out.Cover("during.closed_other_conn")
					}
				}
			}
			now, has := o.connObservedTWAddrs[c]
			if out != nil {
				if had && (a.lb || a.n64 || a.relay || a.tw == "") {
					out.Cover("rereport.unusable_class_on_credited_conn")
				}
				switch {
				case had && !has:
					out.Cover("record.previous_withdrawn_by_unusable_rereport")
				case !had && has:
					out.Cover("record.new")
				case had && has && !prev.Equal(now):
					out.Cover("record.replaced")
				case had && has && a.tw != "" && prev.Equal(ma.StringCast(a.tw)) && !a.lb && !a.n64 && !a.relay:
					out.Cover("record.same_again")
				default:
					out.Cover("record.ignored")
					switch {
					case c.closed:
						out.Cover("ignored.conn_closed")
					case a.lb:
						out.Cover("ignored.loopback")
					case a.n64:
						out.Cover("ignored.nat64")
					case a.relay:
						out.Cover("ignored.relay")
					case sc.conns[op.conn].local.tw == "":
						out.Cover("ignored.local_not_thinwaist")
					case a.tw == "":
						out.Cover("ignored.observed_not_thinwaist")
					case sc.conns[op.conn].remoteIP == "":
						out.Cover("ignored.remote_without_ip")
					default:
						lf, lp := c17FamProto(sc.conns[op.conn].local.tw)
						if lf != fam || lp != proto {
							out.Cover("ignored.inconsistent_transport")
						} else {
							out.Cover("ignored.not_a_listen_addr")
						}
					}
				}
			}
		case 5:
			desc := func(a c17Addr) []int64 {
				otw := int64(-1)
				var fam, proto int64
				if a.tw != "" {
					otw = T.obsTW[a.tw]
					fam, proto = c17FamProto(a.tw)
				}
				f := func(b bool) int64 {
					if b {
						return 1
					}
					return 0
				}
				return []int64{f(a.lb), f(a.n64), f(a.relay), otw, fam, proto}
			}
			line = append(line, 5, int64(op.conn))
			line = append(line, desc(op.observed)...)
			line = append(line, desc(op.second)...)
			held := doPair(c, ma.StringCast(op.observed.full()), ma.StringCast(op.second.full()))
			if out != nil {
				if held {
					out.Cover("pair.first_report_held_in_listenAddrs_while_second_queued")
				} else {
					out.Cover("pair.sequential")
				}
			}
		case 2:
			line = append(line, 2, int64(op.conn))
			c.closed = true
			if out != nil {
				out.Cover("markclosed")
			}
		case 3:
			line = append(line, 3, int64(op.conn))
			c.closed = true
			_, had := o.connObservedTWAddrs[c]
			nLocal := len(o.externalAddrs)
			doDisconnect(c)
			if out != nil {
				if had {
					out.Cover("disconnect.credited")
					if e2e {
						out.Cover("e2e.disconnect.credited")
						if sc.conns[op.conn].out {
							out.Cover("e2e.disconnect.credited_outbound_conn_from_listen_socket")
						} else {
							out.Cover("e2e.disconnect.credited_inbound_conn")
						}
					}
				} else {
					out.Cover("disconnect.nothing_credited")
				}
				if len(o.externalAddrs) < nLocal {
					out.Cover("disconnect.local_entry_deleted")
				}
			}
		}
		// observations
		for _, q := range queries {
			res := o.AddrsFor(q)
			line = append(line, int64(len(res)))
			for _, m := range res {
				line = append(line, decode(m)[0])
			}
			if out != nil {
				switch {
				case len(res) == 0:
					out.Cover("addrsfor.empty")
				case len(res) >= maxExternalThinWaistAddrsPerLocalAddr:
					out.Cover("addrsfor.full")
				default:
					out.Cover("addrsfor.some")
				}
			}
		}
		all := o.Addrs(0)
		line = append(line, int64(len(all)))
		for _, m := range all {
			d := decode(m)
			line = append(line, d[0], d[1])
		}
		if out != nil {
			if len(all) > 0 {
				out.Cover("addrs0.nonempty")
				if e2e {
					out.Cover("e2e.addrs0.nonempty")
				}
			}
			// white-box view of the decision points of getTopExternalAddrs
			for _, m := range o.externalAddrs {
				eligible, tie, exact, below, mult := 0, false, false, false, false
				cnts := map[int]int{}
				for _, s := range m {
					n := len(s.ObservedBy)
					if n >= curThresh {
						eligible++
						cnts[n]++
					}
					if n == curThresh {
						exact = true
					}
					if n == curThresh-1 {
						below = true
					}
					for _, k := range s.ObservedBy {
						if k > 1 {
							mult = true
						}
					}
				}
				for _, k := range cnts {
					if k > 1 {
						tie = true
					}
				}
				if eligible > maxExternalThinWaistAddrsPerLocalAddr {
					out.Cover("top.truncated")
				}
				if tie {
					out.Cover("top.tie_between_eligible")
				}
				if exact {
					out.Cover("top.exactly_at_threshold")
				}
				if below {
					out.Cover("top.one_below_threshold")
				}
				if mult {
					out.Cover("observer_group_with_multiplicity")
				}
			}
		}
	}
	return line
}

// ---- generators ------------------------------------------------------------

func c17Pick[E any](r *verifh.Rand, l []E) E { return l[r.Intn(len(l))] }

func c17Gen(r *verifh.Rand, nops int, malformed bool) *c17Script {
	sc := &c17Script{}
	switch k := r.Intn(20); {
	case k < 3:
		sc.thresh = 1
	case k < 10:
		sc.thresh = 2
	case k < 15:
		sc.thresh = 3
	case k < 19:
		sc.thresh = 4
	default:
		sc.thresh = 5
	}
	// listen set: a main family of thin waists plus extras
	nl := 2 + r.Intn(5)
	perm := make([]int, len(c17Locals))
	for i := range perm {
		perm[i] = i
	}
	for i := len(perm) - 1; i > 0; i-- {
		j := r.Intn(i + 1)
		perm[i], perm[j] = perm[j], perm[i]
	}
	inListen := map[string]bool{}
	for _, i := range perm[:nl] {
		sc.listen = append(sc.listen, c17Locals[i])
		inListen[c17Locals[i].full()] = true
	}
	if r.Chance(1, 4) { // duplicate listen address
		sc.listen = append(sc.listen, c17Pick(r, sc.listen))
	}
	sc.queries = append(sc.queries, sc.listen...)
	for _, i := range perm[nl:] {
		if len(sc.queries) < len(sc.listen)+2 {
			sc.queries = append(sc.queries, c17Locals[i])
		}
	}
	// main local address: a listen address with a thin waist if there is one
	main := sc.listen[0]
	for _, a := range sc.listen {
		if a.tw != "" {
			main = a
			break
		}
	}
	mfam, mproto := c17FamProto(main.tw)
	// hot observed addresses: consistent with the main local address
	var hot, anyObs []c17Addr
	for _, a := range c17Observed {
		f, p := c17FamProto(a.tw)
		if a.tw != "" && f == mfam && p == mproto && !a.lb && !a.n64 && !a.relay {
			hot = append(hot, a)
		}
		anyObs = append(anyObs, a)
	}
	if len(hot) == 0 {
		hot = anyObs
	}
	for i := len(hot) - 1; i > 0; i-- {
		j := r.Intn(i + 1)
		hot[i], hot[j] = hot[j], hot[i]
	}
	nhot := 1 + r.Intn(6)
	if nhot > len(hot) {
		nhot = len(hot)
	}
	hot = hot[:nhot]
	// connections
	nc := 6 + r.Intn(14)
	var remotes []string
	for _, ip := range c17Remotes {
		v6 := strings.Contains(ip, ":")
		if ip == "" || (mfam == 6) == v6 || r.Chance(1, 6) {
			remotes = append(remotes, ip)
		}
	}
	for i := 0; i < nc; i++ {
		var loc c17Addr
		switch k := r.Intn(20); {
		case k < 12:
			loc = main
		case k < 17:
			loc = c17Pick(r, sc.listen)
		default:
			loc = c17Pick(r, c17Locals)
		}
		ip := c17Pick(r, remotes)
		if ip == "" && !r.Chance(1, 3) {
			ip = c17Pick(r, remotes)
		}
		sc.conns = append(sc.conns, c17ConnSpec{local: loc, remoteIP: ip, port: 1000 + r.Intn(3), out: r.Chance(1, 3)})
	}
	// one case in three: the environment changes during the history (a listener is
	// closed / reopened while connections stay open; ActivationThresh is changed
	// after the manager exists).  Listen sets are drawn from the queried addresses.
	dyn := r.Chance(1, 3)
	curListen := sc.listen
	curThresh := sc.thresh
	envOp := func() bool { // returns true when the listen set changed
		switch k := r.Intn(10); {
		case k < 4 && len(curListen) > 0: // a listener goes away (mostly the main one, with every address on its thin waist)
			drop := main
			if r.Chance(1, 3) {
				drop = c17Pick(r, curListen)
			}
			var nl []c17Addr
			for _, a := range curListen {
				if a.full() != drop.full() && (a.tw != drop.tw || r.Chance(1, 4)) {
					nl = append(nl, a)
				}
			}
			curListen = nl
		case k < 6: // everything is listened on again
			curListen = sc.listen
		case k < 7: // a further listener
			curListen = append(append([]c17Addr(nil), curListen...), c17Pick(r, sc.queries))
		default:
			n := curThresh + 1
			switch r.Intn(4) {
			case 0:
				n = curThresh - 1
			case 1:
				n = 1 + r.Intn(5)
			}
			if n < 1 {
				n = 1
			}
			curThresh = n
			sc.ops = append(sc.ops, c17Op{kind: 7, thresh: n})
			return false
		}
		sc.ops = append(sc.ops, c17Op{kind: 6, listen: curListen})
		return true
	}
	// operations, in phases
	gone := make([]bool, nc)
	phase, left := 0, 0
	for len(sc.ops) < nops {
		if left == 0 {
			phase = r.Intn(5)
			left = 2 + r.Intn(nc)
			if phase == 4 { // few connections go away at a time
				left = 1 + r.Intn(3)
			}
			if dyn && r.Chance(1, 3) {
				if envOp() && r.Chance(1, 2) {
					phase = 2 // tracked connections re-report under the new listen set
				}
			}
		}
		left--
		c := r.Intn(nc)
		if gone[c] && !r.Chance(1, 8) { // mostly act on live connections
			for k := 0; k < nc; k++ {
				if !gone[(c+k)%nc] {
					c = (c + k) % nc
					break
				}
			}
		}
		switch phase {
		case 0, 1: // build up: hot addresses, the first ones more often
			i := 0
			for i < len(hot)-1 && r.Chance(2, 5) {
				i++
			}
			sc.ops = append(sc.ops, c17Op{kind: 1, conn: c, observed: hot[i]})
		case 2: // churn: a connection changes its report
			sc.ops = append(sc.ops, c17Op{kind: 1, conn: c, observed: c17Pick(r, hot)})
		case 3: // noise: every class of observed address
			sc.ops = append(sc.ops, c17Op{kind: 1, conn: c, observed: c17Pick(r, anyObs)})
		default: // connections go away
			if r.Chance(1, 4) {
				sc.ops = append(sc.ops, c17Op{kind: 2, conn: c})
				if r.Chance(1, 2) { // late report on a closed connection
					sc.ops = append(sc.ops, c17Op{kind: 1, conn: c, observed: c17Pick(r, hot)})
				}
			} else {
				sc.ops = append(sc.ops, c17Op{kind: 3, conn: c})
			}
			gone[c] = true
		}
	}
	// two reports in quick succession
	for i := range sc.ops {
		if sc.ops[i].kind == 1 && r.Chance(1, 14) {
			sc.ops[i].kind = 5
			sc.ops[i].second = c17Pick(r, hot)
			if r.Chance(1, 5) {
				sc.ops[i].second = c17Pick(r, anyObs)
			}
		}
	}
	// close-during-observation interleavings
	for i := range sc.ops {
		if sc.ops[i].kind == 1 && r.Chance(1, 10) {
			sc.ops[i].kind = 4
			sc.ops[i].during = sc.ops[i].conn
			if r.Chance(1, 3) {
				sc.ops[i].during = r.Intn(nc)
			}
		}
	}
	if malformed {
		// the malformed stream: reports only from classes that never count,
		// repeated reports from one group, disconnects of unknown connections
		for i := range sc.ops {
			if sc.ops[i].kind == 1 && r.Chance(1, 2) {
				sc.ops[i].observed = c17Pick(r, anyObs)
			}
		}
		for i := range sc.conns {
			if r.Chance(1, 2) {
				sc.conns[i].remoteIP = sc.conns[0].remoteIP
			}
		}
	}
	return sc
}

// corpus: the history that /repo got wrong before "fix: observedaddrs: ..."
// (a connection first makes a countable report, later re-reports an address
// of a class that never counts; the earlier report stayed credited), once per
// class, in direct and in event-bus mode
func c17Corpus(t *testing.T) []*c17Script {
	T := c17Build(t)
	good := T.obsByStr["/ip4/2.2.2.1/tcp/2"]
	var res []*c17Script
	for _, bad := range []string{
		"/ip4/127.0.0.1/tcp/2", "/ip6/64:ff9b::202:201/tcp/2", "/ip4/2.2.2.1/tcp/2/p2p-circuit",
		"/dns4/example.com/tcp/2", "/ip4/2.2.2.1/udp/2/quic-v1", "/ip6/2a00::1/tcp/2",
		"/ip4/2.2.2.1/tcp/2/p2p/QmdXGaeGiVA745XorV1jr11RHxB9z4fqykm6xCUPX1aTJo/p2p-circuit/p2p/QmcgpsyWgH8Y8ajJz1Cu72KnS5uo2Aa2LpzU7kinSupNKC",
	} {
		b, ok := T.obsByStr[bad]
		if !ok || good.tw == "" {
			t.Fatalf("c17 corpus: %s not in the universe", bad)
		}
		for _, e2e := range []bool{false, true} {
			sc := &c17Script{e2e: e2e, thresh: 2, listen: []c17Addr{c17Locals[0]}, queries: []c17Addr{c17Locals[0]}}
			for _, ip := range []string{"1.2.3.1", "1.2.3.2", "1.2.3.3"} {
				sc.conns = append(sc.conns, c17ConnSpec{local: c17Locals[0], remoteIP: ip, port: 1000})
			}
			sc.ops = []c17Op{
				{kind: 1, conn: 0, observed: good}, {kind: 1, conn: 1, observed: good},
				{kind: 1, conn: 1, observed: b}, // conn 1 no longer reports `good`: one observer left
				{kind: 1, conn: 2, observed: good}, {kind: 1, conn: 0, observed: b}, {kind: 3, conn: 2},
			}
			res = append(res, sc)
		}
	}
	return res
}

// directed: MANY distinct observed addresses tracked for one local address
// (62..66 or 100, each vouched for by one connection), an address A advertised
// with exactly the threshold of observers, then one of A's observers changes
// its report (to a not yet tracked address / a tracked one / a loopback
// address): A must be withdrawn whatever the size of the table.
func c17GenMany(r *verifh.Rand) *c17Script {
	sc := &c17Script{thresh: 1 + r.Intn(3), listen: []c17Addr{c17Locals[0]}, queries: []c17Addr{c17Locals[0]}}
	fill := []int{62, 63, 64, 65, 66, 100}[r.Intn(6)]
	A := c17Many[120+r.Intn(5)]
	for i := 0; i < sc.thresh; i++ {
		sc.conns = append(sc.conns, c17ConnSpec{local: c17Locals[0], remoteIP: fmt.Sprintf("1.2.10.%d", i+1), port: 1000})
		sc.ops = append(sc.ops, c17Op{kind: 1, conn: i, observed: A})
	}
	for i := 0; i < fill; i++ {
		sc.conns = append(sc.conns, c17ConnSpec{local: c17Locals[0], remoteIP: fmt.Sprintf("1.2.%d.%d", 11+i/200, i%200+1), port: 1000 + i%3})
		sc.ops = append(sc.ops, c17Op{kind: 1, conn: sc.thresh + i, observed: c17Many[i]})
	}
	change := func(c int) {
		switch k := r.Intn(10); {
		case k < 6:
			sc.ops = append(sc.ops, c17Op{kind: 1, conn: c, observed: c17Many[101+r.Intn(15)]})
		case k < 8:
			sc.ops = append(sc.ops, c17Op{kind: 1, conn: c, observed: c17Many[r.Intn(fill)]})
		default:
			sc.ops = append(sc.ops, c17Op{kind: 1, conn: c, observed: c17Observed[len(c17Observed)-1-r.Intn(3)]})
		}
	}
	change(r.Intn(sc.thresh))
	for i := 0; i < 6; i++ {
		c := r.Intn(len(sc.conns))
		switch r.Intn(3) {
		case 0:
			sc.ops = append(sc.ops, c17Op{kind: 3, conn: c})
		case 1:
			sc.ops = append(sc.ops, c17Op{kind: 1, conn: c, observed: A})
		default:
			change(c)
		}
	}
	return sc
}

// directed: two reports of one connection close together on the event-bus
// path; the report that counts is the LATEST one
func c17GenPair(r *verifh.Rand) *c17Script {
	sc := &c17Script{e2e: true, thresh: 1 + r.Intn(2), listen: []c17Addr{c17Locals[0]}, queries: []c17Addr{c17Locals[0]}}
	for i := 0; i < 4; i++ {
		sc.conns = append(sc.conns, c17ConnSpec{local: c17Locals[0], remoteIP: fmt.Sprintf("1.2.3.%d", i+1), port: 1000})
	}
	pick := func() c17Addr { return c17Many[r.Intn(6)] }
	A, B := pick(), pick()
	for B.tw == A.tw {
		B = pick()
	}
	for i := 1; i < sc.thresh; i++ { // the others already vouch for B (and for A, on other conns)
		sc.ops = append(sc.ops, c17Op{kind: 1, conn: i, observed: B})
	}
	sc.ops = append(sc.ops, c17Op{kind: 5, conn: 0, observed: A, second: B})
	for i := 0; i < 4; i++ {
		c := r.Intn(2) * 3 // conn 0 or conn 3
		x, y := pick(), pick()
		switch r.Intn(4) {
		case 0: // the latest report is of a class that never counts
			y = c17Observed[len(c17Observed)-1-r.Intn(3)]
		case 1:
			x = c17Observed[len(c17Observed)-1-r.Intn(3)]
		}
		sc.ops = append(sc.ops, c17Op{kind: 5, conn: c, observed: x, second: y})
	}
	return sc
}

// directed: the listen set changes while tracked connections stay open and
// re-report.  thresh-1 observers vouch for A on local address L, one more
// connection vouches for B; the listener of L is closed (or only one of two
// addresses sharing L's thin waist goes away: then L's thin waist is still
// listened on); the B connection switches to A.  "Reports on connections not
// arriving at a listen address never count": A must not reach the threshold,
// and B's connection vouches for nothing any more.  Then the listener comes
// back and connections report again.
func c17GenListenChange(r *verifh.Rand) *c17Script {
	L, L2, other := c17Locals[0], c17Locals[8], c17Locals[3] // tcp/1, tcp/1 + /ws (same thin waist), tcp/2
	sc := &c17Script{thresh: 1 + r.Intn(3), e2e: r.Chance(1, 3)}
	sc.listen = []c17Addr{L, other}
	if r.Chance(1, 3) {
		sc.listen = []c17Addr{L, L2, other}
	}
	sc.queries = []c17Addr{L, L2, other}
	n := sc.thresh + 2
	for i := 0; i < n; i++ {
		loc := L
		if i == n-1 {
			loc = other
		}
		sc.conns = append(sc.conns, c17ConnSpec{local: loc, remoteIP: fmt.Sprintf("1.2.3.%d", i+1), port: 1000, out: r.Chance(1, 3)})
	}
	pick := func() c17Addr { return c17Many[r.Intn(5)] }
	A, B := pick(), pick()
	for B.tw == A.tw {
		B = pick()
	}
	sw := sc.thresh - 1 // the connection that switches
	for i := 0; i < sw; i++ {
		sc.ops = append(sc.ops, c17Op{kind: 1, conn: i, observed: A})
	}
	sc.ops = append(sc.ops, c17Op{kind: 1, conn: sw, observed: B})
	var closed []c17Addr
	for _, a := range sc.listen {
		if a.tw != L.tw || (len(sc.listen) == 3 && a.full() == L2.full() && r.Chance(1, 2)) {
			closed = append(closed, a)
		}
	}
	sc.ops = append(sc.ops, c17Op{kind: 6, listen: closed})
	sc.ops = append(sc.ops, c17Op{kind: 1, conn: sw, observed: A})
	cur := closed
	for i := 0; i < 8; i++ {
		c := r.Intn(n)
		switch k := r.Intn(10); {
		case k < 4:
			sc.ops = append(sc.ops, c17Op{kind: 1, conn: c, observed: []c17Addr{A, B, pick()}[r.Intn(3)]})
		case k < 5:
			sc.ops = append(sc.ops, c17Op{kind: 5, conn: c, observed: pick(), second: A})
		case k < 6:
			sc.ops = append(sc.ops, c17Op{kind: 3, conn: c})
		case k < 8:
			if len(cur) == len(sc.listen) {
				cur = closed
			} else {
				cur = sc.listen
			}
			sc.ops = append(sc.ops, c17Op{kind: 6, listen: cur})
		default:
			sc.ops = append(sc.ops, c17Op{kind: 4, conn: c, observed: A, during: r.Intn(n)})
		}
	}
	return sc
}

// directed: ActivationThresh is changed after the manager has been constructed.
// k observers activate A under threshold t <= k; the threshold is raised above
// k: A must no longer be reported ("only while at least the activation
// threshold ... report it"); lowered again: reported again; then a random tail.
func c17GenThresh(r *verifh.Rand) *c17Script {
	L := c17Locals[r.Intn(2)]
	sc := &c17Script{thresh: 1 + r.Intn(3), e2e: r.Chance(1, 4), listen: []c17Addr{L}, queries: []c17Addr{L}}
	k := sc.thresh + r.Intn(2)
	n := k + 3
	for i := 0; i < n; i++ {
		sc.conns = append(sc.conns, c17ConnSpec{local: L, remoteIP: fmt.Sprintf("1.2.3.%d", i+1), port: 1000, out: r.Chance(1, 3)})
	}
	var pool []c17Addr
	lf, lp := c17FamProto(L.tw)
	for _, a := range c17Observed {
		f, p := c17FamProto(a.tw)
		if a.tw != "" && f == lf && p == lp && !a.lb && !a.n64 && !a.relay && len(pool) < 5 {
			pool = append(pool, a)
		}
	}
	A := pool[r.Intn(len(pool))]
	for i := 0; i < k; i++ {
		sc.ops = append(sc.ops, c17Op{kind: 1, conn: i, observed: A})
	}
	sc.ops = append(sc.ops, c17Op{kind: 7, thresh: k + 1 + r.Intn(2)})
	if r.Chance(1, 2) {
		sc.ops = append(sc.ops, c17Op{kind: 1, conn: k, observed: A})
	}
	sc.ops = append(sc.ops, c17Op{kind: 7, thresh: sc.thresh})
	for i := 0; i < 8; i++ {
		c := r.Intn(n)
		switch k := r.Intn(10); {
		case k < 4:
			sc.ops = append(sc.ops, c17Op{kind: 1, conn: c, observed: c17Pick(r, pool)})
		case k < 6:
			sc.ops = append(sc.ops, c17Op{kind: 3, conn: c})
		default:
			sc.ops = append(sc.ops, c17Op{kind: 7, thresh: 1 + r.Intn(6)})
		}
	}
	return sc
}

// directed, on the real notification path (event bus -> worker, Disconnected
// through the notifiee Start registered): connections of BOTH directions whose
// local address is a listen address (an outbound connection dialed from the
// listen socket: every QUIC dial, TCP with reuseport) vouch for A; they are
// closed one by one in a random order: A must disappear as soon as fewer than
// the threshold of open connections report it, whatever their direction.
func c17GenDirections(r *verifh.Rand) *c17Script {
	L := c17Locals[r.Intn(2)] // tcp listen address / quic listen address
	sc := &c17Script{thresh: 1 + r.Intn(4), e2e: true, listen: []c17Addr{L}, queries: []c17Addr{L}}
	n := sc.thresh + r.Intn(3)
	for i := 0; i < n; i++ {
		sc.conns = append(sc.conns, c17ConnSpec{local: L, remoteIP: fmt.Sprintf("1.2.3.%d", i+1), port: 1000, out: i%2 == 0 || r.Chance(1, 3)})
	}
	lf, lp := c17FamProto(L.tw)
	var A c17Addr
	for _, a := range c17Observed {
		f, p := c17FamProto(a.tw)
		if a.tw != "" && f == lf && p == lp && !a.lb && !a.n64 && !a.relay {
			A = a
			if r.Chance(1, 3) {
				break
			}
		}
	}
	for i := 0; i < n; i++ {
		sc.ops = append(sc.ops, c17Op{kind: 1, conn: i, observed: A})
	}
	perm := make([]int, n)
	for i := range perm {
		perm[i] = i
	}
	for i := n - 1; i > 0; i-- {
		j := r.Intn(i + 1)
		perm[i], perm[j] = perm[j], perm[i]
	}
	for _, c := range perm {
		sc.ops = append(sc.ops, c17Op{kind: 3, conn: c})
	}
	return sc
}

func TestVerifNothing(t *testing.T) {}

func TestVerifC17(t *testing.T) {
	out, err := verifh.Open()
	if err != nil {
		t.Fatal(err)
	}
	defer out.Close()
	r := verifh.NewRand(verifh.Seed())
	n := 3000
	if verifh.Tier() == "thorough" {
		n = 60000
	}
	for _, sc := range c17Corpus(t) {
		out.Case(c17Exec(t, out, sc, sc.e2e))
		out.Cover("cases.corpus")
	}
	for i := 0; i < 10+n/300; i++ {
		sc := c17GenMany(r.Fork())
		out.Case(c17Exec(t, out, sc, i%5 == 4))
		out.Cover("cases.many_tracked_addresses")
		sc = c17GenPair(r.Fork())
		out.Case(c17Exec(t, out, sc, true))
		out.Cover("cases.pair_on_eventbus")
		for k := 0; k < 3; k++ {
			sc = c17GenListenChange(r.Fork())
			out.Case(c17Exec(t, out, sc, sc.e2e))
			out.Cover("cases.listener_closed_under_tracked_conns")
			sc = c17GenThresh(r.Fork())
			out.Case(c17Exec(t, out, sc, sc.e2e))
			out.Cover("cases.activation_thresh_changed_after_construction")
			sc = c17GenDirections(r.Fork())
			out.Case(c17Exec(t, out, sc, true))
			out.Cover("cases.both_directions_closed_through_notifiee")
		}
	}
	for i := 0; i < n; i++ {
		rr := r.Fork()
		nops := 10 + rr.Intn(50)
		if i%10 == 9 {
			nops = 60 + rr.Intn(120)
		}
		sc := c17Gen(rr, nops, i%7 == 6)
		out.Case(c17Exec(t, out, sc, i%8 == 3))
		out.Cover("cases")
	}
}

// ---- replay: re-execute a recorded case line on the code as it is now ---------

func c17ScriptFromCase(t *testing.T, toks []int64) *c17Script {
	T := c17Build(t)
	pos := 0
	next := func() int64 {
		if pos >= len(toks) {
			t.Fatalf("c17 replay: truncated case")
		}
		v := toks[pos]
		pos++
		return v
	}
	if next() != 17 {
		t.Fatalf("c17 replay: not a C17 case")
	}
	sc := &c17Script{thresh: int(next())}
	sc.e2e = next() == 1
	localBy := func(tw, rest int64, needRest bool) c17Addr {
		for _, a := range c17Locals {
			atw, arest := c17Laddr(T, a)
			if atw == tw && (!needRest || arest == rest) {
				return a
			}
		}
		t.Fatalf("c17 replay: unknown local address (%d,%d)", tw, rest)
		return c17Addr{}
	}
	nl := int(next())
	for i := 0; i < nl; i++ {
		tw, rest := next(), next()
		sc.listen = append(sc.listen, localBy(tw, rest, true))
	}
	nq := int(next())
	for i := 0; i < nq; i++ {
		tw, rest := next(), next()
		sc.queries = append(sc.queries, localBy(tw, rest, true))
	}
	nc := int(next())
	for i := 0; i < nc; i++ {
		tw := next()
		next()
		next()
		outb := next() == 2
		rk := next()
		var r [8]int64
		for j := range r {
			r[j] = next()
		}
		ip := ""
		switch rk {
		case 4:
			ip = fmt.Sprintf("%d.%d.%d.%d", r[0]>>24&255, r[0]>>16&255, r[0]>>8&255, r[0]&255)
		case 6:
			var b [16]byte
			for j := 0; j < 8; j++ {
				b[2*j] = byte(r[j] >> 8)
				b[2*j+1] = byte(r[j])
			}
			ip = netip.AddrFrom16(b).String()
			if netip.AddrFrom16(b).Is4In6() {
				ip = "::ffff:" + netip.AddrFrom16(b).Unmap().String()
			}
		}
		sc.conns = append(sc.conns, c17ConnSpec{local: localBy(tw, 0, false), remoteIP: ip, port: 1000 + i%3, out: outb})
	}
	for pos < len(toks) {
		kind := int(next())
		op := c17Op{kind: kind}
		switch kind {
		case 6:
			k := int(next())
			for i := 0; i < k; i++ {
				tw, rest := next(), next()
				op.listen = append(op.listen, localBy(tw, rest, true))
			}
		case 7:
			op.thresh = int(next())
		default:
			op.conn = int(next())
			if op.conn < 0 || op.conn >= nc {
				t.Fatalf("c17 replay: connection %d out of range", op.conn)
			}
		}
		readObs := func() c17Addr {
			lb, n64, rl, otw := next() != 0, next() != 0, next() != 0, next()
			next()
			next()
			for _, a := range c17AllObserved() {
				atw := int64(-1)
				if a.tw != "" {
					atw = T.obsTW[a.tw]
				}
				if a.lb == lb && a.n64 == n64 && a.relay == rl && atw == otw {
					return a
				}
			}
			t.Fatalf("c17 replay: no observed address of that class")
			return c17Addr{}
		}
		switch kind {
		case 5:
			op.observed = readObs()
			op.second = readObs()
		case 1, 4:
			op.observed = readObs()
			if kind == 4 {
				op.during = int(next())
				next() // recorded "fired"
				if op.during < 0 || op.during >= nc {
					t.Fatalf("c17 replay: connection %d out of range", op.during)
				}
			}
		case 2, 3, 6, 7:
		default:
			t.Fatalf("c17 replay: bad op %d", kind)
		}
		sc.ops = append(sc.ops, op)
		// skip the recorded observation
		for i := 0; i < nq; i++ {
			k := int(next())
			pos += k
		}
		k := int(next())
		pos += 2 * k
	}
	return sc
}

func TestVerifC17Replay(t *testing.T) {
	toks := verifh.ReplayCase()
	if toks == nil {
		t.Fatal("VERIF_REPLAY_CASE not set")
	}
	out, err := verifh.Open()
	if err != nil {
		t.Fatal(err)
	}
	defer out.Close()
	sc := c17ScriptFromCase(t, toks)
	out.Case(c17Exec(t, nil, sc, sc.e2e))
}

//go:build verif

// C02: host-to-host streams over the full stack (TCP, Noise or TLS, yamux).
package libp2p

import (
	"context"
	"crypto/rand"
	"fmt"
	"io"
	"sync"
	"testing"
	"time"

	"github.com/libp2p/go-libp2p/core/crypto"
	"github.com/libp2p/go-libp2p/core/network"
	"github.com/libp2p/go-libp2p/core/peer"
	"github.com/libp2p/go-libp2p/core/peerstore"
	"github.com/libp2p/go-libp2p/core/protocol"
	"github.com/libp2p/go-libp2p/core/sec"
	"github.com/libp2p/go-libp2p/internal/verifh"
	basichost "github.com/libp2p/go-libp2p/p2p/host/basic"
	"github.com/libp2p/go-libp2p/p2p/host/eventbus"
	"github.com/libp2p/go-libp2p/p2p/host/peerstore/pstoremem"
	"github.com/libp2p/go-libp2p/p2p/muxer/yamux"
	"github.com/libp2p/go-libp2p/p2p/net/swarm"
	tptu "github.com/libp2p/go-libp2p/p2p/net/upgrader"
	noise "github.com/libp2p/go-libp2p/p2p/security/noise"
	libp2ptls "github.com/libp2p/go-libp2p/p2p/security/tls"
	"github.com/libp2p/go-libp2p/p2p/transport/tcp"
	ma "github.com/multiformats/go-multiaddr"
)

func TestVerifC02Host(t *testing.T) {
	out, err := verifh.Open()
	if err != nil {
		t.Fatal(err)
	}
	defer out.Close()
	r := verifh.NewRand(verifh.Seed())
	rounds := 2
	if verifh.Tier() == "thorough" {
		rounds = 12
	}
	for cfg := int64(0); cfg < 2; cfg++ {
		secOpt := Security(noise.ID, noise.New)
		if cfg == 1 {
			secOpt = Security(libp2ptls.ID, libp2ptls.New)
		}
		mk := func() interface {
			Close() error
		} {
			return nil
		}
		_ = mk
		h1, err := New(ListenAddrStrings("/ip4/127.0.0.1/tcp/0"), secOpt, DisableRelay())
		if err != nil {
			t.Fatal(err)
		}
		h2, err := New(ListenAddrStrings("/ip4/127.0.0.1/tcp/0"), secOpt, DisableRelay())
		if err != nil {
			t.Fatal(err)
		}
		acc := make(chan network.Stream, 16)
		h2.SetStreamHandler("/verif/c02", func(s network.Stream) { acc <- s })
		if err := h1.Connect(context.Background(), peer.AddrInfo{ID: h2.ID(), Addrs: h2.Addrs()}); err != nil {
			t.Fatal(err)
		}
		for round := 0; round < rounds; round++ {
			ns := 1 + r.Intn(4)
			var wg sync.WaitGroup
			var mu sync.Mutex
			var lines [][]int64
			for s := 0; s < ns; s++ {
				x, err := h1.NewStream(context.Background(), h2.ID(), "/verif/c02")
				if err != nil {
					t.Fatal(err)
				}
				// the protocol is negotiated lazily: the first write makes the stream reach the handler
				if _, err := x.Write([]byte{0xEE}); err != nil {
					t.Fatal(err)
				}
				y := <-acc
				one := make([]byte, 1)
				if _, err := y.Read(one); err != nil || one[0] != 0xEE {
					t.Fatalf("marker: %v", err)
				}
				dl := time.Now().Add(60 * time.Second)
				x.SetDeadline(dl)
				y.SetDeadline(dl)
				mkw := func() []int {
					nw := 1 + r.Intn(4)
					wl := make([]int, nw)
					for j := range wl {
						if r.Chance(1, 3) {
							wl[j] = []int{0, 1, 65518, 65519, 65520, 65535, 65536, 131038, 131039}[r.Intn(9)]
						} else {
							wl[j] = r.Intn(200000)
						}
					}
					return wl
				}
				mkb := func() []int {
					nb := 1 + r.Intn(3)
					bl := make([]int, nb)
					for j := range bl {
						bl[j] = 1 + r.Intn(100000)
						if r.Chance(1, 4) {
							bl[j] = 1 + r.Intn(64)
						}
					}
					return bl
				}
				w1, b1, w2, b2 := mkw(), mkb(), mkw(), mkb()
				base1, base2 := r.Intn(1<<19), r.Intn(1<<19)
				wg.Add(1)
				go func(s int) {
					defer wg.Done()
					l1 := verifh.StreamCase(6, cfg*1000+int64(s), base1, w1, b1, x, x.CloseWrite, y, 50*time.Second)
					l2 := verifh.StreamCase(6, cfg*1000+100+int64(s), base2, w2, b2, y, y.CloseWrite, x, 50*time.Second)
					mu.Lock()
					lines = append(lines, l1, l2)
					mu.Unlock()
					x.Close()
					y.Close()
				}(s)
			}
			wg.Wait()
			for _, l := range lines {
				out.Case(l)
				out.Cover("host.stream_directions")
			}
			// read-deadline polling: the reader sets a short read deadline and lets it expire while
			// the writer is idle (the writer is held back until the reader has SEEN the timeout
			// error, so the outcome does not depend on timing), then extends the deadline and goes
			// on reading; the writer writes and half-closes.  A read deadline that expired is
			// recoverable: every byte written afterwards must still arrive (kind 6 monitor), and
			// so must what the former reader then writes the other way.
			{
				x, err := h1.NewStream(context.Background(), h2.ID(), "/verif/c02")
				if err != nil {
					t.Fatal(err)
				}
				if _, err := x.Write([]byte{0xEE}); err != nil {
					t.Fatal(err)
				}
				y := <-acc
				one := make([]byte, 1)
				if _, err := y.Read(one); err != nil || one[0] != 0xEE {
					t.Fatalf("marker: %v", err)
				}
				dl := time.Now().Add(60 * time.Second)
				x.SetDeadline(dl)
				y.SetDeadline(dl)
				// a marker the other way as well, read under the long deadline: the opener's lazy
				// protocol negotiation is complete before any short deadline is set
				if _, err := y.Write([]byte{0xEF}); err != nil {
					t.Fatalf("marker back: %v", err)
				}
				if _, err := x.Read(one); err != nil || one[0] != 0xEF {
					t.Fatalf("marker back: %v", err)
				}
				nw := 1 + r.Intn(3)
				wl := make([]int, nw)
				for j := range wl {
					wl[j] = 1 + r.Intn(3000)
					if r.Chance(1, 3) {
						wl[j] = 1 + r.Intn(150000)
					}
				}
				bl := []int{1 + r.Intn(8192)}
				wl2 := []int{1 + r.Intn(70000), r.Intn(100)}
				bl2 := []int{1 + r.Intn(50000)}
				base, base2 := r.Intn(1<<19), r.Intn(1<<19)
				// which side polls: the accepting side or the opening side
				wr, rd := network.Stream(x), network.Stream(y)
				if r.Chance(1, 2) {
					wr, rd = y, x
				}
				seen := make(chan struct{})
				var once sync.Once
				gw := &c02GateWriter{w: wr, gate: seen}
				l1 := verifh.StreamCaseRetry(6, cfg*1000+800, base, wl, bl, gw, wr.CloseWrite, rd, 50*time.Second,
					func() { rd.SetReadDeadline(time.Now().Add(30 * time.Millisecond)) },
					func() {
						rd.SetReadDeadline(time.Now().Add(60 * time.Second))
						once.Do(func() { close(seen); out.Cover("host.read_deadline_expired_then_reading_goes_on") })
					})
				l2 := verifh.StreamCase(6, cfg*1000+801, base2, wl2, bl2, rd, rd.CloseWrite, wr, 50*time.Second)
				out.Case(l1)
				out.Case(l2)
				x.Close()
				y.Close()
			}
			// half-close with nothing written, then further reads: the opener (which by now
			// knows the remote's protocols from identify, i.e. opens optimistically) closes
			// its write side at once; the responder must still be reached and its bytes read
			{
				x, err := h1.NewStream(context.Background(), h2.ID(), "/verif/c02")
				if err != nil {
					t.Fatal(err)
				}
				x.SetDeadline(time.Now().Add(8 * time.Second))
				cwErr := x.CloseWrite()
				wl := []int{1 + r.Intn(70000), r.Intn(100)}
				bl := []int{1 + r.Intn(50000)}
				base := r.Intn(1 << 19)
				var y network.Stream
				select {
				case y = <-acc:
					y.SetDeadline(time.Now().Add(8 * time.Second))
				case <-time.After(3 * time.Second):
				}
				if y != nil && cwErr == nil {
					out.Case(verifh.StreamCase(6, cfg*1000+900, base, wl, bl, y, y.CloseWrite, x, 8*time.Second))
					y.Close()
				} else {
					// the responder was never reached: nothing can be delivered — recorded as a
					// stream whose reader fails without any tampering
					line := []int64{6, cfg*1000 + 900, int64(len(wl)), int64(wl[0]), int64(wl[1]), 0, 0, 1, 1, int64(bl[0]), 2, 0, 1}
					out.Case(line)
				}
				out.Cover("host.halfclose_without_write")
				x.Close()
			}
		}
		h1.Close()
		h2.Close()
	}
	c02HostInline(t, out, r)
}

// c02PauseWriter holds back its Write number `at` (0-based) until `until()` has passed.
type c02PauseWriter struct {
	w     io.Writer
	at, i int
	until func() time.Time
}

func (p *c02PauseWriter) Write(b []byte) (int, error) {
	if p.i == p.at {
		if d := time.Until(p.until()); d > 0 {
			time.Sleep(d)
		}
	}
	p.i++
	return p.w.Write(b)
}

// c02GateWriter holds back every Write until gate is closed (bounded, so that a reader
// that never meets its timeout cannot hang the harness).
type c02GateWriter struct {
	w    io.Writer
	gate <-chan struct{}
}

func (g *c02GateWriter) Write(b []byte) (int, error) {
	select {
	case <-g.gate:
	case <-time.After(30 * time.Second):
	}
	return g.w.Write(b)
}

// c02Swarm: a swarm with the TCP transport, Noise and yamux (what libp2p.New wires up,
// without the services that are of no concern here).
func c02Swarm(t *testing.T, listen bool) *swarm.Swarm {
	priv, _, err := crypto.GenerateEd25519Key(rand.Reader)
	if err != nil {
		t.Fatal(err)
	}
	id, err := peer.IDFromPrivateKey(priv)
	if err != nil {
		t.Fatal(err)
	}
	ps, err := pstoremem.NewPeerstore()
	if err != nil {
		t.Fatal(err)
	}
	ps.AddPubKey(id, priv.GetPublic())
	ps.AddPrivKey(id, priv)
	sw, err := swarm.NewSwarm(id, ps, eventbus.NewBus())
	if err != nil {
		t.Fatal(err)
	}
	muxers := []tptu.StreamMuxer{{ID: yamux.ID, Muxer: yamux.DefaultTransport}}
	st, err := noise.New(noise.ID, priv, muxers)
	if err != nil {
		t.Fatal(err)
	}
	up, err := tptu.New([]sec.SecureTransport{st}, muxers, nil, nil, nil)
	if err != nil {
		t.Fatal(err)
	}
	tr, err := tcp.NewTCPTransport(up, nil, nil)
	if err != nil {
		t.Fatal(err)
	}
	if err := sw.AddTransport(tr); err != nil {
		t.Fatal(err)
	}
	if listen {
		if err := sw.Listen(ma.StringCast("/ip4/127.0.0.1/tcp/0")); err != nil {
			t.Fatal(err)
		}
		ps.AddAddrs(id, sw.ListenAddresses(), peerstore.PermanentAddrTTL)
	}
	return sw
}

// c02HostInline: streams whose listener-side protocol handler reads IN-LINE (in the
// goroutine the host calls the handler in) and is still reading later than the host's
// protocol negotiation timeout after the stream was opened, while the dialer keeps
// writing.  The listener is a BasicHost with a short NegotiationTimeout (there is no
// public libp2p option for it, hence basichost.NewHost over a TCP/Noise/yamux swarm).
// The dialer writes the first piece, holds the second one back until
// handler-entry + NegotiationTimeout + margin (handler entry is later than the moment the
// negotiation deadline was armed), writes the rest and half-closes; the handler reads to
// EOF without ever setting a deadline of its own.  Every byte must arrive: a Read error
// before that is a monitor failure of kind 6.  The pause is a real one: the point is that
// NO deadline may be left on the stream, so a longer pause can never raise a false alarm.
func c02HostInline(t *testing.T, out *verifh.Out, r *verifh.Rand) {
	const negTimeout = 2 * time.Second
	const margin = 300 * time.Millisecond
	nsess := 3
	if verifh.Tier() == "thorough" {
		nsess = 6
	}
	hl, err := basichost.NewHost(c02Swarm(t, true), &basichost.HostOpts{NegotiationTimeout: negTimeout})
	if err != nil {
		t.Fatal(err)
	}
	defer hl.Close()
	hl.Start()
	hd, err := basichost.NewHost(c02Swarm(t, false), nil)
	if err != nil {
		t.Fatal(err)
	}
	defer hd.Close()
	hd.Start()
	ctx, cancel := context.WithTimeout(context.Background(), 60*time.Second)
	defer cancel()
	if err := hd.Connect(ctx, peer.AddrInfo{ID: hl.ID(), Addrs: hl.Addrs()}); err != nil {
		t.Fatal(err)
	}
	type sess struct {
		wl, bl []int
		base   int
		xch    chan network.Stream
		res    chan []int64
	}
	ss := make([]*sess, nsess)
	for k := range ss {
		// piece 0 before the pause, pieces 1.. after it; all non-empty
		nw := 2 + r.Intn(3)
		wl := make([]int, nw)
		for j := range wl {
			wl[j] = 1 + r.Intn(3000)
			if r.Chance(1, 4) {
				wl[j] = 1 + r.Intn(150000)
			}
		}
		bl := []int{1 + r.Intn(8192)}
		if r.Chance(1, 2) {
			bl = append(bl, 1+r.Intn(64))
		}
		se := &sess{wl: wl, bl: bl, base: r.Intn(1 << 19), xch: make(chan network.Stream, 1), res: make(chan []int64, 1)}
		ss[k] = se
		cfg := int64(2000 + k)
		hl.SetStreamHandler(protocol.ID(fmt.Sprintf("/verif/c02/inline/%d", k)), func(s network.Stream) {
			entered := time.Now() // the negotiation deadline was armed before this point
			var x network.Stream
			select {
			case x = <-se.xch:
			case <-time.After(30 * time.Second):
				s.Reset()
				se.res <- nil
				return
			}
			one := make([]byte, 1)
			if _, err := io.ReadFull(s, one); err != nil || one[0] != 0xEE {
				s.Reset()
				se.res <- nil
				return
			}
			// no deadline is ever set on s by the handler
			w := &c02PauseWriter{w: x, at: 1, until: func() time.Time { return entered.Add(negTimeout + margin) }}
			line := verifh.StreamCase(6, cfg, se.base, se.wl, se.bl, w, x.CloseWrite, s, 40*time.Second)
			s.Close()
			se.res <- line
		})
	}
	var wg sync.WaitGroup
	for k, se := range ss {
		wg.Add(1)
		go func(k int, se *sess) {
			defer wg.Done()
			x, err := hd.NewStream(ctx, hl.ID(), protocol.ID(fmt.Sprintf("/verif/c02/inline/%d", k)))
			if err != nil {
				t.Logf("c02 inline session %d: open: %v", k, err)
				return
			}
			defer x.Close()
			x.SetDeadline(time.Now().Add(50 * time.Second)) // dialer side only: bounds the harness
			// the protocol is negotiated lazily: the first write makes the stream reach the handler
			if _, err := x.Write([]byte{0xEE}); err != nil {
				t.Logf("c02 inline session %d: marker: %v", k, err)
				x.Reset()
				return
			}
			se.xch <- x
			var line []int64
			select {
			case line = <-se.res:
			case <-time.After(45 * time.Second):
				x.Reset() // unblocks a reader that is stuck
				select {
				case line = <-se.res:
				case <-time.After(10 * time.Second):
				}
			}
			if line == nil {
				// negotiation itself did not complete in time (machine overloaded): no case
				t.Logf("c02 inline session %d: handler not reached / no result", k)
				return
			}
			out.Case(line)
			out.Cover("host.inline_handler_reads_after_negotiation_timeout")
		}(k, se)
	}
	wg.Wait()
}

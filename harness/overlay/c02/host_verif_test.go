//go:build verif

// C02: host-to-host streams over the full stack (TCP, Noise or TLS, yamux).
package libp2p

import (
	"context"
	"sync"
	"testing"
	"time"

	"github.com/libp2p/go-libp2p/core/network"
	"github.com/libp2p/go-libp2p/core/peer"
	"github.com/libp2p/go-libp2p/internal/verifh"
	noise "github.com/libp2p/go-libp2p/p2p/security/noise"
	libp2ptls "github.com/libp2p/go-libp2p/p2p/security/tls"
)

func TestVerifC02Host(t *testing.T) {
	out, err := verifh.Open()
	if err != nil {
		t.Fatal(err)
	}
	defer out.Close()
	r := verifh.NewRand(verifh.Seed())
	rounds := 2
	if verifh.Tier() == "thorough" {
		rounds = 12
	}
	for cfg := int64(0); cfg < 2; cfg++ {
		secOpt := Security(noise.ID, noise.New)
		if cfg == 1 {
			secOpt = Security(libp2ptls.ID, libp2ptls.New)
		}
		mk := func() interface {
			Close() error
		} {
			return nil
		}
		_ = mk
		h1, err := New(ListenAddrStrings("/ip4/127.0.0.1/tcp/0"), secOpt, DisableRelay())
		if err != nil {
			t.Fatal(err)
		}
		h2, err := New(ListenAddrStrings("/ip4/127.0.0.1/tcp/0"), secOpt, DisableRelay())
		if err != nil {
			t.Fatal(err)
		}
		acc := make(chan network.Stream, 16)
		h2.SetStreamHandler("/verif/c02", func(s network.Stream) { acc <- s })
		if err := h1.Connect(context.Background(), peer.AddrInfo{ID: h2.ID(), Addrs: h2.Addrs()}); err != nil {
			t.Fatal(err)
		}
		for round := 0; round < rounds; round++ {
			ns := 1 + r.Intn(4)
			var wg sync.WaitGroup
			var mu sync.Mutex
			var lines [][]int64
			for s := 0; s < ns; s++ {
				x, err := h1.NewStream(context.Background(), h2.ID(), "/verif/c02")
				if err != nil {
					t.Fatal(err)
				}
				// the protocol is negotiated lazily: the first write makes the stream reach the handler
				if _, err := x.Write([]byte{0xEE}); err != nil {
					t.Fatal(err)
				}
				y := <-acc
				one := make([]byte, 1)
				if _, err := y.Read(one); err != nil || one[0] != 0xEE {
					t.Fatalf("marker: %v", err)
				}
				dl := time.Now().Add(60 * time.Second)
				x.SetDeadline(dl)
				y.SetDeadline(dl)
				mkw := func() []int {
					nw := 1 + r.Intn(4)
					wl := make([]int, nw)
					for j := range wl {
						if r.Chance(1, 3) {
							wl[j] = []int{0, 1, 65518, 65519, 65520, 65535, 65536, 131038, 131039}[r.Intn(9)]
						} else {
							wl[j] = r.Intn(200000)
						}
					}
					return wl
				}
				mkb := func() []int {
					nb := 1 + r.Intn(3)
					bl := make([]int, nb)
					for j := range bl {
						bl[j] = 1 + r.Intn(100000)
						if r.Chance(1, 4) {
							bl[j] = 1 + r.Intn(64)
						}
					}
					return bl
				}
				w1, b1, w2, b2 := mkw(), mkb(), mkw(), mkb()
				base1, base2 := r.Intn(1<<19), r.Intn(1<<19)
				wg.Add(1)
				go func(s int) {
					defer wg.Done()
					l1 := verifh.StreamCase(6, cfg*1000+int64(s), base1, w1, b1, x, x.CloseWrite, y, 50*time.Second)
					l2 := verifh.StreamCase(6, cfg*1000+100+int64(s), base2, w2, b2, y, y.CloseWrite, x, 50*time.Second)
					mu.Lock()
					lines = append(lines, l1, l2)
					mu.Unlock()
					x.Close()
					y.Close()
				}(s)
			}
			wg.Wait()
			for _, l := range lines {
				out.Case(l)
				out.Cover("host.stream_directions")
			}
			// half-close with nothing written, then further reads: the opener (which by now
			// knows the remote's protocols from identify, i.e. opens optimistically) closes
			// its write side at once; the responder must still be reached and its bytes read
			{
				x, err := h1.NewStream(context.Background(), h2.ID(), "/verif/c02")
				if err != nil {
					t.Fatal(err)
				}
				x.SetDeadline(time.Now().Add(8 * time.Second))
				cwErr := x.CloseWrite()
				wl := []int{1 + r.Intn(70000), r.Intn(100)}
				bl := []int{1 + r.Intn(50000)}
				base := r.Intn(1 << 19)
				var y network.Stream
				select {
				case y = <-acc:
					y.SetDeadline(time.Now().Add(8 * time.Second))
				case <-time.After(3 * time.Second):
				}
				if y != nil && cwErr == nil {
					out.Case(verifh.StreamCase(6, cfg*1000+900, base, wl, bl, y, y.CloseWrite, x, 8*time.Second))
					y.Close()
				} else {
					// the responder was never reached: nothing can be delivered — recorded as a
					// stream whose reader fails without any tampering
					line := []int64{6, cfg*1000 + 900, int64(len(wl)), int64(wl[0]), int64(wl[1]), 0, 0, 1, 1, int64(bl[0]), 2, 0, 1}
					out.Case(line)
				}
				out.Cover("host.halfclose_without_write")
				x.Close()
			}
		}
		h1.Close()
		h2.Close()
	}
}

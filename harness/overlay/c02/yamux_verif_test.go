//go:build verif

// C02: several yamux streams on one connection, both directions, half-close
// followed by further reads and writes.
package yamux

import (
	"context"
	"errors"
	"net"
	"sync"
	"testing"
	"time"

	"github.com/libp2p/go-libp2p/core/network"
	"github.com/libp2p/go-libp2p/internal/verifh"
)

func TestVerifC02Yamux(t *testing.T) {
	out, err := verifh.Open()
	if err != nil {
		t.Fatal(err)
	}
	defer out.Close()
	r := verifh.NewRand(verifh.Seed())
	n := 12
	if verifh.Tier() == "thorough" {
		n = 200
	}
	for i := 0; i < n; i++ {
		ln, err := net.Listen("tcp", "127.0.0.1:0")
		if err != nil {
			t.Fatal(err)
		}
		ch := make(chan net.Conn, 1)
		go func() { c, _ := ln.Accept(); ch <- c }()
		a, err := net.Dial("tcp", ln.Addr().String())
		if err != nil {
			t.Fatal(err)
		}
		b := <-ch
		ln.Close()
		ca, err := DefaultTransport.NewConn(a, false, nil)
		if err != nil {
			t.Fatal(err)
		}
		cb, err := DefaultTransport.NewConn(b, true, nil)
		if err != nil {
			t.Fatal(err)
		}
		ns := 1 + r.Intn(5)
		type pair struct{ x, y network.MuxedStream }
		pairs := make([]pair, ns)
		for s := 0; s < ns; s++ {
			x, err := ca.OpenStream(context.Background())
			if err != nil {
				t.Fatal(err)
			}
			// make the stream visible to the acceptor before opening the next one
			if _, err := x.Write([]byte{0xEE}); err != nil {
				t.Fatal(err)
			}
			y, err := cb.AcceptStream()
			if err != nil {
				t.Fatal(err)
			}
			one := make([]byte, 1)
			if _, err := y.Read(one); err != nil || one[0] != 0xEE {
				t.Fatalf("marker: %v %v", err, one)
			}
			dl := time.Now().Add(60 * time.Second)
			x.SetDeadline(dl)
			y.SetDeadline(dl)
			pairs[s] = pair{x, y}
		}
		var wg sync.WaitGroup
		var mu sync.Mutex
		var lines [][]int64
		for s := 0; s < ns; s++ {
			p := pairs[s]
			mkw := func() []int {
				nw := 1 + r.Intn(4)
				wl := make([]int, nw)
				for j := range wl {
					switch r.Intn(3) {
					case 0:
						wl[j] = r.Intn(50)
					case 1:
						wl[j] = []int{0, 1, 65535, 65536, 262144, 262145}[r.Intn(6)]
					default:
						wl[j] = r.Intn(300000)
					}
				}
				return wl
			}
			mkb := func() []int {
				nb := 1 + r.Intn(3)
				bl := make([]int, nb)
				for j := range bl {
					bl[j] = 1 + r.Intn(100000)
					if r.Chance(1, 4) {
						bl[j] = 1 + r.Intn(64)
					}
				}
				return bl
			}
			w1, b1, w2, b2 := mkw(), mkb(), mkw(), mkb()
			base1, base2 := (2*s)*100000%(1<<20), (2*s+1)*100000%(1<<20)
			wg.Add(1)
			go func(s int) {
				defer wg.Done()
				// direction 1: opener -> acceptor, then the opener half-closes
				l1 := verifh.StreamCase(5, int64(s), base1, w1, b1, p.x, p.x.CloseWrite, p.y, 50*time.Second)
				// direction 2 on the same stream AFTER the half-close: acceptor -> opener
				l2 := verifh.StreamCase(5, int64(100+s), base2, w2, b2, p.y, p.y.CloseWrite, p.x, 50*time.Second)
				mu.Lock()
				lines = append(lines, l1, l2)
				mu.Unlock()
			}(s)
		}
		wg.Wait()
		for _, l := range lines {
			out.Case(l)
			out.Cover("yamux.stream_directions")
		}
		if ns > 1 {
			out.Cover("yamux.conns_with_several_streams")
		}
		// a stream user that bounds only its writes: the write deadline must not cut its reads short
		// when the remote answers late
		if i%3 == 1 {
			x, err := ca.OpenStream(context.Background())
			if err != nil {
				t.Fatal(err)
			}
			if _, err := x.Write([]byte{0xEE}); err != nil {
				t.Fatal(err)
			}
			y, err := cb.AcceptStream()
			if err != nil {
				t.Fatal(err)
			}
			one := make([]byte, 1)
			if _, err := y.Read(one); err != nil || one[0] != 0xEE {
				t.Fatalf("marker: %v %v", err, one)
			}
			x.SetWriteDeadline(time.Now().Add(100 * time.Millisecond))
			y.SetWriteDeadline(time.Now().Add(30 * time.Second))
			wl := []int{1 + r.Intn(5000), r.Intn(5000)}
			bl := []int{1 + r.Intn(8192)}
			line := verifh.StreamCase(5, 201, r.Intn(1<<19), wl, bl, &c02LateWriter{w: y, d: 350 * time.Millisecond}, y.CloseWrite, x, 20*time.Second)
			out.Case(line)
			out.Cover("yamux.read_after_own_write_deadline_passed")
		}
		// a reader whose deadline ran out while data piled up in the receive buffer: buffered
		// bytes are still handed out; the Read that has to send a window update (half the
		// window consumed) cannot, and returns its bytes together with a timeout; the reader
		// extends the deadline and reads on.  Everything must arrive exactly once, in order.
		if i%3 == 0 {
			// over a synchronous pipe, so that the window update really cannot be sent
			pa, pb := net.Pipe()
			type res struct {
				s   network.MuxedStream
				err error
			}
			opened := make(chan res, 1)
			go func() {
				c, err := DefaultTransport.NewConn(pa, false, nil)
				if err != nil {
					opened <- res{nil, err}
					return
				}
				x, err := c.OpenStream(context.Background())
				opened <- res{x, err}
			}()
			srv, err := DefaultTransport.NewConn(pb, true, nil)
			if err != nil {
				t.Fatal(err)
			}
			ro := <-opened
			if ro.err != nil {
				t.Fatal(ro.err)
			}
			x := ro.s
			tot := 140000 + r.Intn(100000) // more than half the 256 kB window, less than the window
			wl := []int{tot}
			bl := []int{1 + r.Intn(8192), 4096}
			var y network.MuxedStream
			// the writer half-closes only after the reader has met the timeout (after a FIN no
			// window update is due any more)
			release := make(chan struct{})
			var once sync.Once
			lateClose := func() error {
				select {
				case <-release:
				case <-time.After(3 * time.Second):
				}
				return x.CloseWrite()
			}
			line := verifh.StreamCaseRetry(5, 200, r.Intn(1<<19), wl, bl, x, lateClose, yamuxLazy{&y}, 50*time.Second,
				func() {
					var err error
					y, err = srv.AcceptStream()
					if err != nil {
						t.Fatal(err)
					}
					time.Sleep(300 * time.Millisecond) // let the data land in the receive buffer
					y.SetReadDeadline(time.Now().Add(-time.Second))
				},
				func() {
					y.SetReadDeadline(time.Now().Add(30 * time.Second))
					once.Do(func() { close(release); out.Cover("yamux.timeouts_returned_with_data_or_alone") })
				})
			out.Case(line)
			out.Cover("yamux.reads_after_expired_deadline")
			srv.Close()
			pa.Close()
			pb.Close()
		}
		// a writer that bounds its writes: one Write larger than the send window (256 KiB) against
		// a reader that does not read until the writer has SEEN the write-deadline timeout (so the
		// outcome does not depend on timing); the writer extends the deadline and goes on from
		// the byte count Write reported (io.Writer contract), the reader then drains.  Everything
		// written must arrive exactly once, in order.
		if i%3 == 2 {
			x, err := ca.OpenStream(context.Background())
			if err != nil {
				t.Fatal(err)
			}
			if _, err := x.Write([]byte{0xEE}); err != nil {
				t.Fatal(err)
			}
			y, err := cb.AcceptStream()
			if err != nil {
				t.Fatal(err)
			}
			one := make([]byte, 1)
			if _, err := y.Read(one); err != nil || one[0] != 0xEE {
				t.Fatalf("marker: %v %v", err, one)
			}
			y.SetReadDeadline(time.Now().Add(60 * time.Second))
			wl := []int{262144 + 1 + r.Intn(300000)}
			if r.Chance(1, 2) {
				wl = append(wl, r.Intn(5000))
			}
			bl := []int{1 + r.Intn(100000)}
			seen := make(chan struct{})
			rw := &c02ResumeWriter{s: x, seen: seen, cover: func() { out.Cover("yamux.write_deadline_expired_midway_writer_resumes") }}
			line := verifh.StreamCase(5, 202, r.Intn(1<<19), wl, bl, rw, x.CloseWrite, &c02GateReader{r: y, gate: seen}, 50*time.Second)
			out.Case(line)
			x.Close()
			y.Close()
		}
		ca.Close()
		cb.Close()
	}
}

// yamuxLazy reads from a stream that is accepted only once the writer has started
type yamuxLazy struct{ s *network.MuxedStream }

func (l yamuxLazy) Read(b []byte) (int, error) { return (*l.s).Read(b) }

// c02LateWriter delays its first Write
type c02LateWriter struct {
	w    interface{ Write([]byte) (int, error) }
	d    time.Duration
	done bool
}

func (l *c02LateWriter) Write(b []byte) (int, error) {
	if !l.done {
		l.done = true
		time.Sleep(l.d)
	}
	return l.w.Write(b)
}

// c02ResumeWriter: its first Write runs under a short write deadline; on a timeout it lets
// the reader start (seen), extends the deadline and writes on from the count reported so far.
type c02ResumeWriter struct {
	s        network.MuxedStream
	seen     chan struct{}
	once     sync.Once
	cover    func()
	armed    bool
	timeouts int
}

func (w *c02ResumeWriter) Write(b []byte) (int, error) {
	if !w.armed {
		w.armed = true
		w.s.SetWriteDeadline(time.Now().Add(100 * time.Millisecond))
	}
	defer w.once.Do(func() { close(w.seen) })
	off := 0
	for {
		n, err := w.s.Write(b[off:])
		off += n
		if err == nil {
			return off, nil
		}
		var te interface{ Timeout() bool }
		if !errors.As(err, &te) || !te.Timeout() || w.timeouts >= 4 || off > len(b) {
			return off, err
		}
		w.timeouts++
		w.s.SetWriteDeadline(time.Now().Add(60 * time.Second))
		w.once.Do(func() { close(w.seen); w.cover() })
	}
}

// c02GateReader does not read before gate is closed (bounded)
type c02GateReader struct {
	r    interface{ Read([]byte) (int, error) }
	gate <-chan struct{}
}

func (g *c02GateReader) Read(b []byte) (int, error) {
	select {
	case <-g.gate:
	case <-time.After(30 * time.Second):
	}
	return g.r.Read(b)
}

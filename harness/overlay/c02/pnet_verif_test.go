//go:build verif

// C02: byte fidelity of the private-network (PSK) connection wrapper.
package pnet_test

import (
	"crypto/rand"
	"net"
	"testing"
	"time"

	"github.com/libp2p/go-libp2p/internal/verifh"
	"github.com/libp2p/go-libp2p/p2p/net/pnet"
)

type c02Short struct {
	net.Conn
	pat []int
	i   int
}

func (s *c02Short) Read(b []byte) (int, error) {
	if len(s.pat) > 0 && len(b) > 0 {
		k := s.pat[s.i%len(s.pat)]
		s.i++
		if k > 0 && k < len(b) {
			b = b[:k]
		}
	}
	return s.Conn.Read(b)
}

func c02TCPPair(t *testing.T) (net.Conn, net.Conn) {
	ln, err := net.Listen("tcp", "127.0.0.1:0")
	if err != nil {
		t.Fatal(err)
	}
	defer ln.Close()
	ch := make(chan net.Conn, 1)
	go func() {
		c, _ := ln.Accept()
		ch <- c
	}()
	a, err := net.Dial("tcp", ln.Addr().String())
	if err != nil {
		t.Fatal(err)
	}
	b := <-ch
	dl := time.Now().Add(30 * time.Second)
	a.SetDeadline(dl)
	b.SetDeadline(dl)
	return a, b
}

func TestVerifC02Pnet(t *testing.T) {
	out, err := verifh.Open()
	if err != nil {
		t.Fatal(err)
	}
	defer out.Close()
	r := verifh.NewRand(verifh.Seed())
	n := 60
	if verifh.Tier() == "thorough" {
		n = 1200
	}
	psk := make([]byte, 32)
	rand.Read(psk)
	shorts := [][]int{nil, {1}, {2, 3, 5}, {1, 65535}, {7, 1, 4096}}
	sizes := []int{0, 1, 2, 23, 24, 25, 63, 64, 65, 4095, 4096, 4097, 65535, 65536}
	for i := 0; i < n; i++ {
		a, b := c02TCPPair(t)
		wa, err := pnet.NewProtectedConn(psk, a)
		if err != nil {
			t.Fatal(err)
		}
		rb, err := pnet.NewProtectedConn(psk, &c02Short{Conn: b, pat: shorts[r.Intn(len(shorts))]})
		if err != nil {
			t.Fatal(err)
		}
		nw := 1 + r.Intn(5)
		wl := make([]int, nw)
		for j := range wl {
			if r.Chance(1, 2) {
				wl[j] = sizes[r.Intn(len(sizes))]
			} else {
				wl[j] = r.Intn(100000)
			}
		}
		nb := 1 + r.Intn(4)
		bl := make([]int, nb)
		for j := range bl {
			if r.Chance(1, 2) {
				bl[j] = 1 + sizes[1+r.Intn(len(sizes)-1)]
			} else {
				bl[j] = 1 + r.Intn(70000)
			}
		}
		base := r.Intn(1 << 19)
		out.Case(verifh.StreamCase(3, 0, base, wl, bl, wa, wa.Close, rb, 25*time.Second))
		out.Cover("pnet.cases")
		a.Close()
		b.Close()
	}
}

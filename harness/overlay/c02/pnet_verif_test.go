//go:build verif

// C02: byte fidelity of the private-network (PSK) connection wrapper.
package pnet_test

import (
	"crypto/rand"
	"io"
	"net"
	"sync"
	"testing"
	"time"

	"github.com/libp2p/go-libp2p/internal/verifh"
	"github.com/libp2p/go-libp2p/p2p/net/pnet"
)

type c02Short struct {
	net.Conn
	pat []int
	i   int
}

func (s *c02Short) Read(b []byte) (int, error) {
	if len(s.pat) > 0 && len(b) > 0 {
		k := s.pat[s.i%len(s.pat)]
		s.i++
		if k > 0 && k < len(b) {
			b = b[:k]
		}
	}
	return s.Conn.Read(b)
}

// c02Mem is a one-directional in-memory connection: Write appends to a queue,
// Read takes from it.  Two behaviours TCP never shows, both allowed by the
// io.Reader / io.Writer contracts: the last bytes can be returned together with
// io.EOF in one call, and the very first Write can fail with a timeout before
// anything was sent (the caller retries).
type c02Mem struct {
	net.Conn
	mu            sync.Mutex
	cond          *sync.Cond
	q             []byte
	closed        bool
	eofWithData   bool
	failFirst     bool
	writes        int
	pat           []int
	i             int
}

type c02Timeout struct{}

func (c02Timeout) Error() string   { return "scripted timeout" }
func (c02Timeout) Timeout() bool   { return true }
func (c02Timeout) Temporary() bool { return true }

func newC02Mem() *c02Mem { m := &c02Mem{}; m.cond = sync.NewCond(&m.mu); return m }

func (m *c02Mem) Write(b []byte) (int, error) {
	m.mu.Lock()
	defer m.mu.Unlock()
	m.writes++
	if m.failFirst && m.writes == 1 {
		return 0, c02Timeout{}
	}
	m.q = append(m.q, b...)
	m.cond.Broadcast()
	return len(b), nil
}

func (m *c02Mem) Close() error {
	m.mu.Lock()
	m.closed = true
	m.cond.Broadcast()
	m.mu.Unlock()
	return nil
}

func (m *c02Mem) Read(b []byte) (int, error) {
	m.mu.Lock()
	defer m.mu.Unlock()
	for len(m.q) == 0 && !m.closed {
		m.cond.Wait()
	}
	if len(m.q) == 0 {
		return 0, io.EOF
	}
	k := len(b)
	if len(m.pat) > 0 {
		p := m.pat[m.i%len(m.pat)]
		m.i++
		if p > 0 && p < k {
			k = p
		}
	}
	n := copy(b[:k], m.q)
	m.q = m.q[n:]
	if m.eofWithData && m.closed && len(m.q) == 0 {
		return n, io.EOF
	}
	return n, nil
}

func (m *c02Mem) SetDeadline(time.Time) error      { return nil }
func (m *c02Mem) SetReadDeadline(time.Time) error  { return nil }
func (m *c02Mem) SetWriteDeadline(time.Time) error { return nil }

// c02Retry retries a Write that failed with a timeout before anything was written
type c02Retry struct{ w io.Writer }

func (r c02Retry) Write(b []byte) (int, error) {
	total := 0
	for tries := 0; tries < 4; tries++ {
		n, err := r.w.Write(b[total:])
		total += n
		if err == nil {
			return total, nil
		}
		if ne, ok := err.(net.Error); !ok || !ne.Timeout() {
			return total, err
		}
	}
	return total, c02Timeout{}
}

func c02TCPPair(t *testing.T) (net.Conn, net.Conn) {
	ln, err := net.Listen("tcp", "127.0.0.1:0")
	if err != nil {
		t.Fatal(err)
	}
	defer ln.Close()
	ch := make(chan net.Conn, 1)
	go func() {
		c, _ := ln.Accept()
		ch <- c
	}()
	a, err := net.Dial("tcp", ln.Addr().String())
	if err != nil {
		t.Fatal(err)
	}
	b := <-ch
	dl := time.Now().Add(30 * time.Second)
	a.SetDeadline(dl)
	b.SetDeadline(dl)
	return a, b
}

func TestVerifC02Pnet(t *testing.T) {
	out, err := verifh.Open()
	if err != nil {
		t.Fatal(err)
	}
	defer out.Close()
	r := verifh.NewRand(verifh.Seed())
	n := 60
	if verifh.Tier() == "thorough" {
		n = 1200
	}
	psk := make([]byte, 32)
	rand.Read(psk)
	shorts := [][]int{nil, {1}, {2, 3, 5}, {1, 65535}, {7, 1, 4096}}
	sizes := []int{0, 1, 2, 23, 24, 25, 63, 64, 65, 4095, 4096, 4097, 65535, 65536}
	for i := 0; i < n; i++ {
		a, b := c02TCPPair(t)
		wa, err := pnet.NewProtectedConn(psk, a)
		if err != nil {
			t.Fatal(err)
		}
		rb, err := pnet.NewProtectedConn(psk, &c02Short{Conn: b, pat: shorts[r.Intn(len(shorts))]})
		if err != nil {
			t.Fatal(err)
		}
		nw := 1 + r.Intn(5)
		wl := make([]int, nw)
		for j := range wl {
			if r.Chance(1, 2) {
				wl[j] = sizes[r.Intn(len(sizes))]
			} else {
				wl[j] = r.Intn(100000)
			}
		}
		nb := 1 + r.Intn(4)
		bl := make([]int, nb)
		for j := range bl {
			if r.Chance(1, 2) {
				bl[j] = 1 + sizes[1+r.Intn(len(sizes)-1)]
			} else {
				bl[j] = 1 + r.Intn(70000)
			}
		}
		base := r.Intn(1 << 19)
		out.Case(verifh.StreamCase(3, 0, base, wl, bl, wa, wa.Close, rb, 25*time.Second))
		out.Cover("pnet.cases")
		a.Close()
		b.Close()
	}
	// scripted in-memory connection under the PSK wrapper
	for i := 0; i < n; i++ {
		m := newC02Mem()
		m.eofWithData = r.Chance(2, 3)
		m.failFirst = r.Chance(1, 2)
		m.pat = shorts[r.Intn(len(shorts))]
		wa, err := pnet.NewProtectedConn(psk, m)
		if err != nil {
			t.Fatal(err)
		}
		rb, err := pnet.NewProtectedConn(psk, m)
		if err != nil {
			t.Fatal(err)
		}
		nw := 1 + r.Intn(4)
		wl := make([]int, nw)
		for j := range wl {
			if r.Chance(1, 2) {
				wl[j] = 1 + sizes[r.Intn(len(sizes))]
			} else {
				wl[j] = 1 + r.Intn(50000)
			}
		}
		bl := []int{1 + r.Intn(70000), 1 + sizes[1+r.Intn(len(sizes)-1)]}
		base := r.Intn(1 << 19)
		out.Case(verifh.StreamCase(3, 1, base, wl, bl, c02Retry{wa}, m.Close, rb, 25*time.Second))
		out.Cover("pnet.cases_scripted_conn")
		if m.eofWithData {
			out.Cover("pnet.cases_last_bytes_with_eof")
		}
		if m.failFirst {
			out.Cover("pnet.cases_first_write_times_out")
		}
	}
}

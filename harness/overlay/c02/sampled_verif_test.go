//go:build verif

// C02: the 3 bytes peeked by tcpreuse's sampledconn are replayed to every
// reader entry point of the wrapped connection (Read and io.Copy/WriteTo).
package sampledconn

import (
	"bytes"
	"io"
	"net"
	"testing"
	"time"

	"github.com/libp2p/go-libp2p/internal/verifh"
	manet "github.com/multiformats/go-multiaddr/net"
)

// recorder turns io.Copy's Write calls into read observations
type c02Recorder struct {
	base, delivered int
	reads           []int64
}

func (w *c02Recorder) Write(p []byte) (int, error) {
	ref := verifh.Ref()
	ok := int64(1)
	if w.base+w.delivered+len(p) > len(ref) || !bytes.Equal(p, ref[w.base+w.delivered:w.base+w.delivered+len(p)]) {
		ok = 0
	}
	w.delivered += len(p)
	w.reads = append(w.reads, int64(len(p)), 0, int64(len(p)), ok)
	return len(p), nil
}

func TestVerifC02Sampled(t *testing.T) {
	out, err := verifh.Open()
	if err != nil {
		t.Fatal(err)
	}
	defer out.Close()
	r := verifh.NewRand(verifh.Seed())
	n := 60
	if verifh.Tier() == "thorough" {
		n = 1000
	}
	ref := verifh.Ref()
	for i := 0; i < n; i++ {
		ln, err := net.Listen("tcp", "127.0.0.1:0")
		if err != nil {
			t.Fatal(err)
		}
		ch := make(chan net.Conn, 1)
		go func() {
			c, _ := ln.Accept()
			ch <- c
		}()
		a, err := net.Dial("tcp", ln.Addr().String())
		if err != nil {
			t.Fatal(err)
		}
		b := <-ch
		ln.Close()
		dl := time.Now().Add(30 * time.Second)
		a.SetDeadline(dl)
		b.SetDeadline(dl)
		nw := 1 + r.Intn(4)
		wl := make([]int, nw)
		tot := 0
		for j := range wl {
			wl[j] = r.Intn(30000)
			if j == 0 && wl[j] < 3 {
				wl[j] = 3 + r.Intn(10) // PeekBytes needs 3 bytes
			}
			tot += wl[j]
		}
		base := r.Intn(1 << 19)
		// 0 Read, 1 io.Copy (WriterTo), 2 Read a little then io.Copy,
		// 3 Read 1-2 bytes, io.Copy interrupted by a read deadline while the writer pauses, then go on
		mode := r.Intn(4)
		resume := make(chan struct{})
		if mode != 3 {
			close(resume)
		}
		mb, err := manet.WrapNetConn(b)
		if err != nil {
			t.Fatal(err)
		}
		// the writer runs inside StreamCase for mode 0; for the copy modes write here
		if mode == 0 {
			// peek first (needs the first bytes on the wire): write the first piece now
			go func() {}()
		}
		wdone := make(chan struct{})
		go func() {
			defer close(wdone)
			off := base
			for j, l := range wl {
				if j == 1 {
					<-resume
				}
				if _, err := a.Write(ref[off : off+l]); err != nil {
					return
				}
				off += l
			}
			if len(wl) == 1 {
				<-resume
			}
			a.(*net.TCPConn).CloseWrite()
		}()
		peeked, wrapped, err := PeekBytes(mb)
		if err != nil {
			t.Fatalf("PeekBytes: %v", err)
		}
		line := []int64{4, int64(mode), int64(nw)}
		for _, l := range wl {
			line = append(line, int64(l))
		}
		line = append(line, 0, 0, 1)
		var reads []int64
		if !bytes.Equal(peeked[:], ref[base:base+3]) {
			reads = append(reads, 3, 0, 3, 0) // the peeked bytes themselves are wrong
		}
		rec := &c02Recorder{base: base}
		if mode == 3 {
			buf := make([]byte, 8)
			k := 1 + r.Intn(2)
			nrd, _ := wrapped.Read(buf[:k])
			if nrd > 0 {
				rec.Write(buf[:nrd])
				rec.reads[len(rec.reads)-4] = int64(k)
			}
			// the writer is pausing: the copy hands over what is there and then times out
			wrapped.SetReadDeadline(time.Now().Add(80 * time.Millisecond))
			_, cerr := io.Copy(rec, wrapped)
			if cerr == nil {
				// EOF already (cannot happen while the writer pauses): record it
				rec.reads = append(rec.reads, 1, 1, 0, 1)
			}
			wrapped.SetReadDeadline(dl)
			close(resume)
			if cerr != nil {
				if r.Chance(1, 2) {
					_, err := io.Copy(rec, wrapped)
					res := int64(1)
					if err != nil {
						res = 2
					}
					rec.reads = append(rec.reads, 1, res, 0, 1)
				} else {
					big := make([]byte, 70000)
					for {
						bl := 1 + r.Intn(40000)
						nrd, err := wrapped.Read(big[:bl])
						if nrd > 0 {
							rec.Write(big[:nrd])
							rec.reads[len(rec.reads)-4] = int64(bl)
						}
						if err != nil {
							res := int64(2)
							if err == io.EOF {
								res = 1
							}
							rec.reads = append(rec.reads, int64(bl), res, 0, 1)
							break
						}
					}
				}
			}
			out.Cover("sampled.cases_copy_interrupted_after_partial_read")
		}
		if mode == 0 || mode == 2 {
			lim := 1000000
			if mode == 2 {
				lim = 1 + r.Intn(3) // a few Reads (may stop inside the peeked bytes), then io.Copy
			}
			buf := make([]byte, 70000)
			for k := 0; k < lim; k++ {
				bl := 1 + r.Intn(5)
				if r.Chance(1, 2) {
					bl = 1 + r.Intn(40000)
				}
				nrd, err := wrapped.Read(buf[:bl])
				if nrd > 0 {
					rec.Write(buf[:nrd])
					rec.reads[len(rec.reads)-4] = int64(bl)
				}
				if err != nil {
					res := int64(2)
					if err == io.EOF {
						res = 1
					}
					rec.reads = append(rec.reads, int64(bl), res, 0, 1)
					break
				}
			}
		}
		if mode == 1 || mode == 2 {
			last := len(rec.reads)
			if last == 0 || rec.reads[last-3] == 0 {
				_, err := io.Copy(rec, wrapped)
				res := int64(1)
				if err != nil {
					res = 2
				}
				rec.reads = append(rec.reads, 1, res, 0, 1)
			}
		}
		reads = append(reads, rec.reads...)
		<-wdone
		line = append(line, int64(len(reads)/4))
		line = append(line, reads...)
		out.Case(line)
		out.Cover("sampled.cases")
		if mode != 0 {
			out.Cover("sampled.cases_io_copy")
		}
		a.Close()
		b.Close()
	}
}

//go:build verif

// C02: byte fidelity of the TLS secure channel.
package libp2ptls_test

import (
	"context"
	"crypto/rand"
	"net"
	"sync"
	"testing"
	"time"

	"github.com/libp2p/go-libp2p/core/crypto"
	"github.com/libp2p/go-libp2p/core/peer"
	"github.com/libp2p/go-libp2p/core/sec"
	"github.com/libp2p/go-libp2p/internal/verifh"
	libp2ptls "github.com/libp2p/go-libp2p/p2p/security/tls"
)

type c02ShortT struct {
	net.Conn
	pat []int
	i   int
}

func (s *c02ShortT) Read(b []byte) (int, error) {
	if len(s.pat) > 0 && len(b) > 0 {
		k := s.pat[s.i%len(s.pat)]
		s.i++
		if k > 0 && k < len(b) {
			b = b[:k]
		}
	}
	return s.Conn.Read(b)
}

func TestVerifC02TLS(t *testing.T) {
	out, err := verifh.Open()
	if err != nil {
		t.Fatal(err)
	}
	defer out.Close()
	r := verifh.NewRand(verifh.Seed())
	n := 40
	if verifh.Tier() == "thorough" {
		n = 800
	}
	mk := func() (*libp2ptls.Transport, peer.ID) {
		priv, _, err := crypto.GenerateEd25519Key(rand.Reader)
		if err != nil {
			t.Fatal(err)
		}
		id, _ := peer.IDFromPrivateKey(priv)
		tp, err := libp2ptls.New(libp2ptls.ID, priv, nil)
		if err != nil {
			t.Fatal(err)
		}
		return tp, id
	}
	ct, _ := mk()
	st, sid := mk()
	shorts := [][]int{nil, {1}, {2, 3, 5}, {1, 65535}, {7, 1, 4096}}
	sizes := []int{0, 1, 2, 16383, 16384, 16385, 32768, 65535, 65536, 131072}
	for i := 0; i < n; i++ {
		a, b := net.Pipe()
		dl := time.Now().Add(40 * time.Second)
		a.SetDeadline(dl)
		b.SetDeadline(dl)
		var cc, sc sec.SecureConn
		var e1, e2 error
		var wg sync.WaitGroup
		wg.Add(2)
		writerIsClient := r.Bool()
		short := shorts[r.Intn(len(shorts))]
		var ra, rb net.Conn = a, b
		if writerIsClient {
			rb = &c02ShortT{Conn: b, pat: short}
		} else {
			ra = &c02ShortT{Conn: a, pat: short}
		}
		go func() { defer wg.Done(); cc, e1 = ct.SecureOutbound(context.Background(), ra, sid) }()
		go func() { defer wg.Done(); sc, e2 = st.SecureInbound(context.Background(), rb, "") }()
		wg.Wait()
		if e1 != nil || e2 != nil {
			t.Fatalf("tls handshake: %v %v", e1, e2)
		}
		w, rd := cc, sc
		cfg := int64(0)
		if !writerIsClient {
			w, rd = sc, cc
			cfg = 1
		}
		nw := 1 + r.Intn(4)
		wl := make([]int, nw)
		for j := range wl {
			if r.Chance(1, 2) {
				wl[j] = sizes[r.Intn(len(sizes))]
			} else {
				wl[j] = r.Intn(150000)
			}
		}
		nb := 1 + r.Intn(4)
		bl := make([]int, nb)
		for j := range bl {
			if r.Chance(1, 2) {
				bl[j] = 1 + sizes[1+r.Intn(len(sizes)-1)]
			} else {
				bl[j] = 1 + r.Intn(70000)
			}
		}
		out.Case(verifh.StreamCase(2, cfg, r.Intn(1<<19), wl, bl, w, w.Close, rd, 35*time.Second))
		out.Cover("tls.cases")
		a.Close()
		b.Close()
	}
}

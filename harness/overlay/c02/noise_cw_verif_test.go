//go:build verif

// C02, kind 8: several goroutines writing concurrently on ONE Noise session
// (net.Conn allows it).  Every written byte carries its writer and its position
// in that writer's own stream (8-byte records: writer id, 56-bit record index),
// so the delivered stream can be cut into maximal runs (writer, offset, length).
// The monitor (coq/c02/SpecCW.v) demands a sequence of WHOLE writes.
//
// case line:  8 cfg K (nw len_1..len_nw)*K NR (wid start count)*NR res
package noise_test

import (
	"context"
	"encoding/binary"
	"io"
	"net"
	"sync"
	"testing"
	"time"

	"github.com/libp2p/go-libp2p/core/sec"
	"github.com/libp2p/go-libp2p/internal/verifh"
)

func c02cwPayload(wid int, startRec int, n int) []byte {
	b := make([]byte, n)
	for i := 0; i+8 <= n; i += 8 {
		binary.BigEndian.PutUint64(b[i:], uint64(startRec+i/8))
		b[i] = byte(wid)
	}
	return b
}

func TestVerifC02NoiseCW(t *testing.T) {
	out, err := verifh.Open()
	if err != nil {
		t.Fatal(err)
	}
	defer out.Close()
	r := verifh.NewRand(verifh.Seed() ^ 0xC14)
	w := c02MkWorld(t)
	n := 6
	if verifh.Tier() == "thorough" {
		n = 80
	}
	big := []int{65512, 65520, 65528, 131040, 131048, 196560, 262144, 400000, 655360}
	small := []int{8, 16, 64, 4096, 32768}
	for i := 0; i < n; i++ {
		cfg := i % 2
		k := 2 + r.Intn(3)
		wl := make([][]int, k)
		for j := range wl {
			nw := 1 + r.Intn(3)
			for q := 0; q < nw; q++ {
				// at least two writers with writes of several frames; some small writes in between
				if j < 2 && q == 0 || r.Chance(1, 2) {
					wl[j] = append(wl[j], big[r.Intn(len(big))])
				} else {
					wl[j] = append(wl[j], small[r.Intn(len(small))])
				}
			}
		}
		a, b := net.Pipe()
		dl := time.Now().Add(60 * time.Second)
		a.SetDeadline(dl)
		b.SetDeadline(dl)
		var wc, rc sec.SecureConn
		var werr, rerr error
		var hs sync.WaitGroup
		hs.Add(2)
		go func() {
			defer hs.Done()
			if cfg == 0 {
				wc, werr = w.initTpt.SecureOutbound(context.Background(), a, w.respID)
			} else {
				wc, werr = w.respTpt.SecureInbound(context.Background(), a, "")
			}
		}()
		go func() {
			defer hs.Done()
			if cfg == 0 {
				rc, rerr = w.respTpt.SecureInbound(context.Background(), b, "")
			} else {
				rc, rerr = w.initTpt.SecureOutbound(context.Background(), b, w.respID)
			}
		}()
		hs.Wait()
		if werr != nil || rerr != nil {
			t.Fatalf("handshake: %v %v", werr, rerr)
		}
		// reader: everything until EOF / error
		var got []byte
		var res int64
		rdone := make(chan struct{})
		rbuf := 1 + r.Intn(100000)
		go func() {
			defer close(rdone)
			buf := make([]byte, rbuf)
			for {
				m, err := rc.Read(buf)
				got = append(got, buf[:m]...)
				if err != nil {
					if err == io.EOF {
						res = 1
					} else {
						res = 2
						b.Close() // let the writers fail instead of waiting for a reader that is gone
					}
					return
				}
			}
		}()
		// writers: start together, each performs its writes in its own order
		start := make(chan struct{})
		var wg sync.WaitGroup
		wok := make([]bool, k)
		for j := 0; j < k; j++ {
			wg.Add(1)
			go func(j int) {
				defer wg.Done()
				rec := 0
				bufs := make([][]byte, len(wl[j]))
				for q, l := range wl[j] {
					bufs[q] = c02cwPayload(j, rec, l)
					rec += l / 8
				}
				<-start
				ok := true
				for q := range bufs {
					m, err := wc.Write(bufs[q])
					if err != nil || m != len(bufs[q]) {
						ok = false
						break
					}
				}
				wok[j] = ok
			}(j)
		}
		close(start)
		wg.Wait()
		wc.Close()
		<-rdone
		rc.Close()
		for j := range wok {
			if !wok[j] {
				out.Cover("noise_cw.write_failed")
			}
		}
		// cut the delivered stream into maximal runs
		type run struct{ wid, start, count int64 }
		var runs []run
		for p := 0; p < len(got); p += 8 {
			var wid, st int64
			if p+8 > len(got) {
				wid, st = 255, 0
			} else {
				v := binary.BigEndian.Uint64(got[p:])
				wid = int64(v >> 56)
				st = int64(v&(1<<56-1)) * 8
				if int(wid) >= k {
					wid, st = 255, 0
				}
			}
			cnt := int64(8)
			if p+8 > len(got) {
				cnt = int64(len(got) - p)
			}
			if m := len(runs); m > 0 && runs[m-1].wid == wid && wid != 255 && runs[m-1].start+runs[m-1].count == st {
				runs[m-1].count += cnt
			} else {
				runs = append(runs, run{wid, st, cnt})
			}
		}
		line := []int64{8, int64(cfg), int64(k)}
		multi := 0
		for j := range wl {
			line = append(line, int64(len(wl[j])))
			for _, l := range wl[j] {
				line = append(line, int64(l))
				if l > 65519 {
					multi++
				}
			}
		}
		if len(runs) > 300 { // a broken tree: keep the line readable, the first runs decide
			runs = runs[:300]
		}
		line = append(line, int64(len(runs)))
		for _, x := range runs {
			line = append(line, x.wid, x.start, x.count)
		}
		line = append(line, res)
		out.Case(line)
		out.Cover("noise_cw.sessions")
		out.CoverN("noise_cw.writers", int64(k))
		out.CoverN("noise_cw.multi_frame_writes", int64(multi))
		out.CoverN("noise_cw.runs", int64(len(runs)))
	}
}

//go:build verif

// C02, stack 7: whole yamux sessions of /repo's transport (DefaultTransport,
// conn.go, stream.go on the path) over an in-memory connection with a tap in
// the middle that parses the yamux frames.  W writes, B reads.  Every W->B
// stream frame is parked in a gate queue and handed to B one at a time by the
// single scheduler goroutine, which also performs every B-side call; after a
// hand-over the scheduler waits until B's receive loop is blocked again in
// conn.Read on an empty byte queue (no wall-clock assumption anywhere).
//
// case line:  7 cfg NS (sid nw wlen_1..wlen_nw endact wok)*NS NE (tag a b c d e)*NE
//
//	1 sid ty flags len ok   frame W->B tapped (queued at that moment)
//	2 sid ty flags len 0    frame B->W tapped (logged, then forwarded to W)
//	3 0 0 0 0 0             oldest queued W->B frame handed to B and completely processed
//	4 sid buflen res n ok   B's Read (res 0 nil, 1 io.EOF, 2 other error)
//	5 sid e 0 0 0           B's CloseWrite (e 0 nil, 1 error)
//
// Order guarantees of the log: a B->W frame is logged before W can see it (so
// before any W->B frame that depends on it), and after the event of the B-side
// call that produced it (the log is held during Read/CloseWrite; AcceptStream
// follows the tag 3 of the SYN) and before the next tag 3/4/5 event (after every
// B-side call B opens and resets a private barrier stream and the harness waits
// for that RST at the tap; barrier frames are neither logged nor forwarded).
package yamux

import (
	"bytes"
	"context"
	"encoding/binary"
	"fmt"
	"io"
	"net"
	"runtime"
	"strings"
	"sync"
	"testing"
	"time"

	"github.com/libp2p/go-libp2p/core/network"
	"github.com/libp2p/go-libp2p/internal/verifh"
)

const (
	c02mMaxPayload = 65536 - 12
	c02mWindow     = 262144
	c02mBaseStep   = 400000
	c02mMaxTotal   = 390000
)

// ---- byte queue / connection ------------------------------------------------

// c02mQ is an unbounded byte queue.  read blocks on the condition variable;
// "idle" = a reader is waiting and there is nothing to read.
type c02mQ struct {
	mu      sync.Mutex
	cond    *sync.Cond
	store   []byte
	off     int
	closed  bool
	waiting int
}

func newC02mQ() *c02mQ {
	q := &c02mQ{}
	q.cond = sync.NewCond(&q.mu)
	return q
}

// push appends p as one unit (whole frames never interleave).
func (q *c02mQ) push(p []byte) bool {
	q.mu.Lock()
	defer q.mu.Unlock()
	if q.closed {
		return false
	}
	q.store = append(q.store, p...)
	q.cond.Broadcast()
	return true
}

func (q *c02mQ) read(p []byte) (int, error) {
	if len(p) == 0 {
		return 0, nil
	}
	q.mu.Lock()
	defer q.mu.Unlock()
	for q.off == len(q.store) && !q.closed {
		q.waiting++
		q.cond.Broadcast()
		q.cond.Wait()
		q.waiting--
	}
	if q.closed {
		return 0, io.EOF
	}
	n := copy(p, q.store[q.off:])
	q.off += n
	if q.off == len(q.store) {
		q.store, q.off = q.store[:0], 0
	}
	return n, nil
}

// waitIdle returns once every pushed byte has been consumed and the consumer
// has come back for more (false: the queue was closed).
func (q *c02mQ) waitIdle() bool {
	q.mu.Lock()
	defer q.mu.Unlock()
	for !q.closed && !(q.off == len(q.store) && q.waiting > 0) {
		q.cond.Wait()
	}
	return !q.closed
}

func (q *c02mQ) close() {
	q.mu.Lock()
	q.closed = true
	q.cond.Broadcast()
	q.mu.Unlock()
}

type c02mAddr struct{}

func (c02mAddr) Network() string { return "verif" }
func (c02mAddr) String() string  { return "verif" }

// c02mConn is one endpoint's connection: it reads from in, writes into out
// (never blocks; the tap drains out).
type c02mConn struct{ in, out *c02mQ }

func newC02mConn() *c02mConn { return &c02mConn{in: newC02mQ(), out: newC02mQ()} }

func (c *c02mConn) Read(p []byte) (int, error) { return c.in.read(p) }
func (c *c02mConn) Write(p []byte) (int, error) {
	if !c.out.push(p) {
		return 0, io.ErrClosedPipe
	}
	return len(p), nil
}
func (c *c02mConn) Close() error                     { c.in.close(); c.out.close(); return nil }
func (c *c02mConn) LocalAddr() net.Addr              { return c02mAddr{} }
func (c *c02mConn) RemoteAddr() net.Addr             { return c02mAddr{} }
func (c *c02mConn) SetDeadline(time.Time) error      { return nil }
func (c *c02mConn) SetReadDeadline(time.Time) error  { return nil }
func (c *c02mConn) SetWriteDeadline(time.Time) error { return nil }

type c02mQReader struct{ q *c02mQ }

func (r c02mQReader) Read(p []byte) (int, error) { return r.q.read(p) }

// ---- session -------------------------------------------------------------------

type c02mEv [6]int64

type c02mFrame struct {
	sid    uint32
	ty     uint8
	flags  uint16
	length uint32
	raw    []byte
}

type c02mStream struct {
	// scenario
	sid    uint32
	base   int
	wlens  []int
	total  int
	endact int
	wok    int64
	cwPlan int // B's CloseWrite: 0 never, 1 any time after accept, 2 once the remote's FIN/RST was delivered
	// reader side
	st        network.MuxedStream
	accepted  bool
	deliv     int // bytes of Data frames handed to B
	read      int
	fin, rst  bool
	termReads int
	maxTerm   int
	nreads    int
	cwDone    bool
	afterCW   int // reads that returned data after B's own CloseWrite
}

type c02mSess struct {
	mu        sync.Mutex
	cond      *sync.Cond
	log       []c02mEv
	frozen    bool
	gate      []c02mFrame
	wFinished bool
	bSeen     uint32 // highest B-opened (barrier) stream whose RST the tap has seen
	err       error

	cfg        int
	first      uint32
	wBarrierID uint32
	bParity    uint32
	streams    []*c02mStream
	sent       []int // per stream: bytes of W->B Data frames tapped so far
	ref        []byte
	wc, bc     *c02mConn
	stage      string
}

func (s *c02mSess) fail(err error) {
	s.mu.Lock()
	if s.err == nil {
		s.err = err
	}
	s.cond.Broadcast()
	s.mu.Unlock()
}

func (s *c02mSess) logEv(e c02mEv) {
	s.mu.Lock()
	if !s.frozen {
		s.log = append(s.log, e)
	}
	s.mu.Unlock()
}

func (s *c02mSess) idx(sid uint32) int {
	if sid < s.first || (sid-s.first)%2 != 0 {
		return -1
	}
	k := int((sid - s.first) / 2)
	if k >= len(s.streams) {
		return -1
	}
	return k
}

// flushB returns once every frame B has sent so far is in the log: B opens and
// resets one more stream (sendCh is FIFO) and the tap has seen that RST.  The
// frames of these barrier streams are neither logged nor forwarded.
func (s *c02mSess) flushB(B network.MuxedConn) error {
	y, err := B.OpenStream(context.Background())
	if err != nil {
		return fmt.Errorf("B barrier: %v", err)
	}
	id := y.(*stream).yamux().StreamID()
	y.Reset()
	s.mu.Lock()
	defer s.mu.Unlock()
	for s.bSeen < id && s.err == nil {
		s.cond.Wait()
	}
	return s.err
}

// tap parses the frames one endpoint writes.
func (s *c02mSess) tap(src *c02mQ, fromW bool, wg *sync.WaitGroup) {
	defer wg.Done()
	rd := c02mQReader{src}
	var hdr [12]byte
	for {
		if _, err := io.ReadFull(rd, hdr[:]); err != nil {
			return
		}
		ty := hdr[1]
		flags := binary.BigEndian.Uint16(hdr[2:4])
		sid := binary.BigEndian.Uint32(hdr[4:8])
		ln := binary.BigEndian.Uint32(hdr[8:12])
		if hdr[0] != 0 || ty > 3 {
			s.fail(fmt.Errorf("tap(fromW=%v): bad header % x", fromW, hdr))
			return
		}
		raw := append([]byte(nil), hdr[:]...)
		if ty == 0 && ln > 0 {
			raw = make([]byte, 12+int(ln))
			copy(raw, hdr[:])
			if _, err := io.ReadFull(rd, raw[12:]); err != nil {
				return
			}
		}
		if fromW {
			s.tapWB(c02mFrame{sid, ty, flags, ln, raw})
		} else {
			s.tapBW(c02mFrame{sid, ty, flags, ln, raw})
		}
	}
}

func (s *c02mSess) tapWB(f c02mFrame) {
	if f.ty >= 2 { // ping, go away: not gated
		s.bc.in.push(f.raw)
		return
	}
	if f.sid == s.wBarrierID {
		if f.flags&1 != 0 {
			s.mu.Lock()
			s.wFinished = true
			s.cond.Broadcast()
			s.mu.Unlock()
		}
		return
	}
	k := s.idx(f.sid)
	if k < 0 {
		s.fail(fmt.Errorf("W->B frame of unknown stream %d", f.sid))
		return
	}
	s.mu.Lock()
	ok := int64(1)
	if f.ty == 0 {
		st := s.streams[k]
		lo := st.base + s.sent[k]
		hi := lo + int(f.length)
		if hi > len(s.ref) || !bytes.Equal(f.raw[12:], s.ref[lo:hi]) {
			ok = 0
		}
		s.sent[k] += int(f.length)
	}
	if !s.frozen {
		s.log = append(s.log, c02mEv{1, int64(f.sid), int64(f.ty), int64(f.flags), int64(f.length), ok})
		s.gate = append(s.gate, f)
	}
	s.cond.Broadcast()
	s.mu.Unlock()
}

func (s *c02mSess) tapBW(f c02mFrame) {
	if f.ty >= 2 {
		s.wc.in.push(f.raw)
		return
	}
	if f.sid%2 == s.bParity { // a barrier stream (B opens no others): dropped
		if f.flags&8 != 0 {
			s.mu.Lock()
			s.bSeen = f.sid
			s.cond.Broadcast()
			s.mu.Unlock()
		}
		return
	}
	// logged BEFORE it is forwarded: a window update W could have used is in
	// the log before the Data frame that used it
	s.logEv(c02mEv{2, int64(f.sid), int64(f.ty), int64(f.flags), int64(f.length), 0})
	s.wc.in.push(f.raw)
}

// ---- scenario ------------------------------------------------------------------

func c02mSum(l []int) int {
	t := 0
	for _, x := range l {
		t += x
	}
	return t
}

func c02mSmall(r *verifh.Rand) []int {
	nw := 1 + r.Intn(4)
	if r.Chance(1, 6) {
		nw = 0
	}
	wl := make([]int, nw)
	for j := range wl {
		if r.Bool() {
			wl[j] = []int{0, 1, 2, 100}[r.Intn(4)]
		} else {
			wl[j] = r.Intn(1200)
		}
	}
	return wl
}

func c02mBig(r *verifh.Rand, kind int) []int {
	if kind == 5 {
		kind = r.Intn(4)
	}
	switch kind {
	case 0: // more than a window: the writer stalls until the reader has read
		switch r.Intn(8) {
		case 0:
			return []int{300000}
		case 1:
			return []int{262145}
		case 2:
			return []int{262144, 1}
		case 3:
			return []int{262143, 2}
		case 4:
			return []int{131049, 131049, r.Intn(100000)}
		case 5:
			return []int{65525, 65525, 65525, 65570 + r.Intn(1000)}
		case 6:
			return []int{0, 262144, 0, 1 + r.Intn(100)}
		default:
			tot := 262145 + r.Intn(c02mMaxTotal-262145)
			a := r.Intn(tot)
			b := r.Intn(tot - a)
			return []int{a, b, tot - a - b}
		}
	case 1: // exactly one window
		switch r.Intn(8) {
		case 0:
			return []int{262144}
		case 1:
			return []int{262143, 1}
		case 2:
			return []int{1, 262143}
		case 3:
			return []int{131072, 131072}
		case 4:
			return []int{65524, 65524, 65524, 65572}
		case 5:
			return []int{131048, 131096}
		case 6:
			return []int{0, 262144}
		default:
			x := 1 + r.Intn(262143)
			return []int{x, 262144 - x}
		}
	case 2: // one boundary-sized write, possibly with tiny neighbours
		b := []int{65523, 65524, 65525, 65536, 131048, 131049, 262143}[r.Intn(7)]
		wl := []int{}
		if r.Bool() {
			wl = append(wl, []int{0, 1, 2, 100}[r.Intn(4)])
		}
		wl = append(wl, b)
		for len(wl) < 4 && r.Chance(1, 3) {
			wl = append(wl, []int{0, 1, 2, 100}[r.Intn(4)])
		}
		return wl
	default: // several boundary-sized writes
		cand := []int{0, 1, 2, 100, 65523, 65524, 65525, 65536, 131048, 131049}
		nw := 2 + r.Intn(3)
		wl := []int{}
		for len(wl) < nw {
			x := cand[r.Intn(len(cand))]
			if c02mSum(wl)+x > c02mMaxTotal {
				x = r.Intn(100)
			}
			wl = append(wl, x)
		}
		return wl
	}
}

func c02mScenario(r *verifh.Rand, cfg, kind int) []*c02mStream {
	ns := 1 + r.Intn(4)
	big := -1
	if kind != 4 {
		big = r.Intn(ns)
	}
	first := uint32(1)
	if cfg == 1 {
		first = 2
	}
	sts := make([]*c02mStream, ns)
	for k := range sts {
		st := &c02mStream{sid: first + 2*uint32(k), base: k * c02mBaseStep, wok: 1}
		if k == big {
			st.wlens = c02mBig(r, kind)
		} else {
			st.wlens = c02mSmall(r)
		}
		st.total = c02mSum(st.wlens)
		switch r.Intn(4) {
		case 0:
			st.endact = 0
		case 3:
			st.endact = 2
		default:
			st.endact = 1
		}
		if len(st.wlens) == 0 && r.Chance(2, 3) {
			st.endact = 1
		}
		st.cwPlan = r.Intn(3)
		st.maxTerm = 1 + r.Intn(3)
		sts[k] = st
	}
	return sts
}

// ---- one session ---------------------------------------------------------------

var c02mReadBufs = []int{1, 2, 7, 100, 4096, 65523, 65524, 65525, 70000, 200000, 300000}
var c02mReadBufsBig = []int{65523, 65524, 65525, 70000, 200000, 300000}

func (s *c02mSess) run(r *verifh.Rand) error {
	var taps sync.WaitGroup
	taps.Add(2)
	go s.tap(s.wc.out, true, &taps)
	go s.tap(s.bc.out, false, &taps)
	s.stage = "newconn"
	W, err := DefaultTransport.NewConn(s.wc, s.cfg == 1, nil)
	if err != nil {
		return err
	}
	B, err := DefaultTransport.NewConn(s.bc, s.cfg == 0, nil)
	if err != nil {
		return err
	}
	defer func() {
		W.Close()
		B.Close()
		s.wc.Close()
		s.bc.Close()
		taps.Wait()
	}()
	ctx := context.Background()

	// W opens its streams one after the other: ids first, first+2, ...
	s.stage = "open"
	ws := make([]network.MuxedStream, len(s.streams))
	for k := range s.streams {
		x, err := W.OpenStream(ctx)
		if err != nil {
			return fmt.Errorf("open %d: %v", k, err)
		}
		if id := x.(*stream).yamux().StreamID(); id != s.streams[k].sid {
			return fmt.Errorf("stream %d has id %d, expected %d", k, id, s.streams[k].sid)
		}
		ws[k] = x
	}
	var writers sync.WaitGroup
	for k := range s.streams {
		writers.Add(1)
		go func(st *c02mStream, x network.MuxedStream) {
			defer writers.Done()
			off := st.base
			ok := int64(1)
			for _, l := range st.wlens {
				n, err := x.Write(s.ref[off : off+l])
				if n != l || err != nil {
					ok = 0
				}
				off += l
				runtime.Gosched()
			}
			switch st.endact {
			case 1:
				if x.CloseWrite() != nil {
					ok = 0
				}
			case 2:
				if x.Reset() != nil {
					ok = 0
				}
			}
			s.mu.Lock()
			st.wok = ok
			s.mu.Unlock()
		}(s.streams[k], ws[k])
	}
	go func() {
		writers.Wait()
		// sendCh is FIFO: once the tap has seen this stream's SYN every earlier frame is queued
		if _, err := W.OpenStream(ctx); err != nil {
			s.fail(fmt.Errorf("W barrier: %v", err))
		}
	}()

	// the scheduler
	s.stage = "schedule"
	wDeliver := []int{1, 3, 8}[r.Intn(3)]
	wRead := []int{1, 3, 8}[r.Intn(3)]
	scratch := make([]byte, 300000)
	accepted := 0
	type action struct{ kind, k int }
	var acts []action
	for steps := 0; ; steps++ {
		if steps > 100000 {
			return fmt.Errorf("scheduler does not terminate")
		}
		s.mu.Lock()
		qn, fin, err := len(s.gate), s.wFinished, s.err
		s.mu.Unlock()
		if err != nil {
			return err
		}
		acts = acts[:0]
		if qn > 0 {
			for i := 0; i < wDeliver; i++ {
				acts = append(acts, action{0, 0})
			}
		}
		for k, st := range s.streams {
			if !st.accepted {
				continue
			}
			readable := false
			switch {
			case st.rst:
				readable = st.termReads < st.maxTerm
			case st.deliv > st.read:
				readable = true
			case st.fin:
				readable = st.termReads < st.maxTerm
			}
			if readable {
				for i := 0; i < wRead; i++ {
					acts = append(acts, action{1, k})
				}
			}
			if !st.cwDone && (st.cwPlan == 1 || st.cwPlan == 2 && (st.fin || st.rst)) {
				acts = append(acts, action{2, k})
			}
		}
		if len(acts) == 0 {
			if fin && qn == 0 {
				break
			}
			s.mu.Lock()
			for len(s.gate) == 0 && !s.wFinished && s.err == nil {
				s.cond.Wait()
			}
			s.mu.Unlock()
			continue
		}
		a := acts[r.Intn(len(acts))]
		switch a.kind {
		case 0:
			s.mu.Lock()
			f := s.gate[0]
			s.gate = s.gate[1:]
			s.mu.Unlock()
			s.bc.in.push(f.raw)
			if !s.bc.in.waitIdle() {
				return fmt.Errorf("B's connection closed while delivering a frame of stream %d", f.sid)
			}
			s.logEv(c02mEv{3, 0, 0, 0, 0, 0})
			k := s.idx(f.sid)
			st := s.streams[k]
			if f.ty == 0 {
				st.deliv += int(f.length)
			}
			if f.flags&4 != 0 {
				st.fin = true
			}
			if f.flags&8 != 0 {
				st.rst = true
			}
			if f.flags&1 != 0 {
				if k != accepted {
					return fmt.Errorf("SYN of stream %d delivered as number %d", f.sid, accepted)
				}
				y, err := B.AcceptStream()
				if err != nil {
					return fmt.Errorf("accept: %v", err)
				}
				if id := y.(*stream).yamux().StreamID(); id != f.sid {
					return fmt.Errorf("accepted stream %d after the SYN of %d", id, f.sid)
				}
				st.st, st.accepted = y, true
				accepted++
				if err := s.flushB(B); err != nil { // the ACK is logged right after this delivery
					return err
				}
			}
		case 1:
			st := s.streams[a.k]
			var bl int
			switch {
			case st.nreads > 40:
				if r.Bool() {
					bl = c02mReadBufsBig[r.Intn(len(c02mReadBufsBig))]
				} else {
					bl = 32768 + r.Intn(100000)
				}
			case r.Chance(2, 3):
				bl = c02mReadBufs[r.Intn(len(c02mReadBufs))]
			case r.Bool():
				bl = 1 + r.Intn(300)
			default:
				bl = 1 + r.Intn(140000)
			}
			buf := scratch[:bl]
			// the log is held during the call: a frame B sends because of this Read
			// (window update) is logged after the Read's own event
			s.mu.Lock()
			n, err := st.st.Read(buf)
			res := int64(0)
			if err == io.EOF {
				res = 1
			} else if err != nil {
				res = 2
			}
			ok := int64(1)
			if n > 0 {
				lo := st.base + st.read
				if lo+n > len(s.ref) || !bytes.Equal(buf[:n], s.ref[lo:lo+n]) {
					ok = 0
				}
			}
			st.read += n
			st.nreads++
			if res != 0 {
				st.termReads++
			}
			if n > 0 && st.cwDone {
				st.afterCW++
			}
			s.log = append(s.log, c02mEv{4, int64(st.sid), int64(bl), res, int64(n), ok})
			s.mu.Unlock()
			if err := s.flushB(B); err != nil {
				return err
			}
			if st.nreads > 5000 {
				return fmt.Errorf("stream %d: too many reads", st.sid)
			}
		case 2:
			st := s.streams[a.k]
			e := int64(0)
			s.mu.Lock() // as for Read: the FIN frame is logged after this event
			if st.st.CloseWrite() != nil {
				e = 1
			}
			st.cwDone = true
			s.log = append(s.log, c02mEv{5, int64(st.sid), e, 0, 0, 0})
			s.mu.Unlock()
			if err := s.flushB(B); err != nil {
				return err
			}
		}
	}
	for _, st := range s.streams {
		drained := st.accepted && (st.rst && st.termReads > 0 || !st.rst && st.read == st.deliv && (!st.fin || st.termReads > 0))
		if !drained {
			return fmt.Errorf("stream %d not drained at the end", st.sid)
		}
	}
	s.stage = "B barrier"
	if err := s.flushB(B); err != nil {
		return err
	}
	s.mu.Lock()
	s.frozen = true
	err = s.err
	s.mu.Unlock()
	s.stage = "close"
	return err
}

func (s *c02mSess) dump() string {
	if s.mu.TryLock() { // may be held by a B-side call that hangs
		defer s.mu.Unlock()
	}
	var sb strings.Builder
	fmt.Fprintf(&sb, "stage=%s cfg=%d queued=%d wFinished=%v bSeen=%d err=%v\n", s.stage, s.cfg, len(s.gate), s.wFinished, s.bSeen, s.err)
	for _, st := range s.streams {
		fmt.Fprintf(&sb, " stream %d writes=%v end=%d wok=%d accepted=%v deliv=%d read=%d fin=%v rst=%v term=%d/%d cw=%d/%v\n",
			st.sid, st.wlens, st.endact, st.wok, st.accepted, st.deliv, st.read, st.fin, st.rst, st.termReads, st.maxTerm, st.cwPlan, st.cwDone)
	}
	lo := len(s.log) - 60
	if lo < 0 {
		lo = 0
	}
	fmt.Fprintf(&sb, " last events: %v\n", s.log[lo:])
	return sb.String()
}

func TestVerifC02Mux(t *testing.T) {
	out, err := verifh.Open()
	if err != nil {
		t.Fatal(err)
	}
	defer out.Close()
	r := verifh.NewRand(verifh.Seed() ^ 0x7C02)
	n := 16
	if verifh.Tier() == "thorough" {
		n = 300
	}
	ref := verifh.Ref()
	maxInts := 0
	for i := 0; i < n; i++ {
		cfg := i % 2
		kind := (i / 2) % 6
		sts := c02mScenario(r, cfg, kind)
		s := &c02mSess{cfg: cfg, streams: sts, sent: make([]int, len(sts)), ref: ref, wc: newC02mConn(), bc: newC02mConn()}
		s.cond = sync.NewCond(&s.mu)
		s.first = sts[0].sid
		s.wBarrierID = s.first + 2*uint32(len(sts))
		s.bParity = uint32(cfg) // B's own stream ids: even when it is the server (cfg 0)
		sr := r.Fork()
		done := make(chan error, 1)
		go func() { done <- s.run(sr) }()
		// a session that fails or hangs (it cannot on the unchanged tree) is still written out, marked
		// cfg+10, with the events recorded so far: the monitor judges its Reads, the test fails afterwards
		aborted := ""
		select {
		case err := <-done:
			if err != nil {
				aborted = fmt.Sprintf("session %d: %v\n%s", i, err, s.dump())
			}
		case <-time.After(60 * time.Second):
			aborted = fmt.Sprintf("session %d hangs\n%s", i, s.dump())
		}
		// (a hung scheduler may hold s.mu inside a blocked Read: then nothing else can append to the log either)
		if s.mu.TryLock() {
			s.frozen = true
			s.mu.Unlock()
		}
		if aborted != "" {
			cfg += 10
			out.Cover("mux.sessions_aborted")
		}

		line := []int64{7, int64(cfg), int64(len(sts))}
		for _, st := range sts {
			line = append(line, int64(st.sid), int64(len(st.wlens)))
			for _, l := range st.wlens {
				line = append(line, int64(l))
			}
			line = append(line, int64(st.endact), st.wok)
		}
		line = append(line, int64(len(s.log)))
		for _, e := range s.log {
			line = append(line, e[:]...)
		}
		out.Case(line)
		if len(line) > maxInts {
			maxInts = len(line)
		}
		if aborted != "" {
			t.Errorf("%s", aborted)
			break
		}

		// what was reached
		out.Cover("mux.sessions")
		out.CoverN("mux.streams", int64(len(sts)))
		for _, st := range sts {
			if st.total > c02mWindow {
				out.Cover("mux.writer_stalled_on_window")
			}
			if st.total == c02mWindow {
				out.Cover("mux.window_exact")
			}
			if len(st.wlens) == 0 {
				out.Cover("mux.streams_without_writes")
			}
			if st.rst && st.deliv > st.read {
				out.Cover("mux.reset_with_undelivered_or_unread_data")
			}
			out.CoverN("mux.local_halfclose_then_reads", int64(st.afterCW))
		}
		lastSid, seen, inter := int64(-1), map[int64]bool{}, false
		avail := map[int64]int64{}   // delivered, not yet read (harness view)
		granted := map[int64]int64{} // window B has granted beyond the initial one
		consumed := map[int64]int64{}
		var pending []c02mEv
		for _, e := range s.log {
			switch e[0] {
			case 1:
				pending = append(pending, e)
				if e[2] == 0 {
					out.Cover("mux.frames_data")
					if e[4] == c02mMaxPayload {
						out.Cover("mux.frames_max_size")
					}
					if e[1] != lastSid {
						if seen[e[1]] {
							inter = true
						}
						seen[e[1]] = true
						lastSid = e[1]
					}
				}
				if e[3]&4 != 0 {
					out.Cover("mux.fin")
				}
				if e[3]&8 != 0 {
					out.Cover("mux.rst")
				}
			case 2:
				if e[2] == 1 && e[3] == 0 {
					out.Cover("mux.frames_wupdate_B_to_W")
					granted[e[1]] += e[4]
				} else {
					out.Cover("mux.frames_B_to_W_flagged")
				}
			case 3:
				f := pending[0]
				pending = pending[1:]
				if f[2] == 0 {
					avail[f[1]] += f[4]
				}
			case 4:
				out.Cover("mux.reads")
				if e[3] == 0 && e[4] == e[2] && e[4] < avail[e[1]] {
					out.Cover("mux.reads_short_buffer")
				}
				if e[3] == 0 && e[4] < e[2] && e[4] < avail[e[1]] {
					out.Cover("mux.reads_one_segment_only")
				}
				avail[e[1]] -= e[4]
				consumed[e[1]] += e[4]
				if e[3] == 1 {
					out.Cover("mux.eof")
				}
				if e[3] == 2 {
					out.Cover("mux.read_errors")
				}
			case 5:
				if e[2] == 0 {
					out.Cover("mux.local_halfclose")
				} else {
					out.Cover("mux.local_halfclose_error")
				}
			}
		}
		if inter {
			out.Cover("mux.interleaved_sessions")
		}
		for sid, g := range granted {
			if g > consumed[sid] { // more than what was read was handed back: the receive window grew (RTT based tuning)
				out.Cover("mux.window_autotuned")
			}
		}
	}
	t.Logf("mux: %d sessions, longest case %d integers", n, maxInts)
}

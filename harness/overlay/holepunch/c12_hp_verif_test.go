//go:build verif

package holepunch

// C12 correspondence harness, hole-punch part (injected with `go test
// -overlay`).  The real decision code — getDirectConnection, removeRelayAddrs,
// holePuncher.directConnect / initiateHolePunch, Service.handleNewStream /
// incomingHolePunch, netNotifiee.Connected — runs against a scripted host that
// records what it is asked (Connect / NewStream with their context options and
// addresses) and answers as scripted.  Wire format: /verif/coq/c12/SpecHP.v.

import (
	"bytes"
	"context"
	"errors"
	"fmt"
	"io"
	"sync"
	"testing"
	"time"

	"github.com/libp2p/go-libp2p/core/host"
	"github.com/libp2p/go-libp2p/core/network"
	"github.com/libp2p/go-libp2p/core/peer"
	"github.com/libp2p/go-libp2p/core/peerstore"
	"github.com/libp2p/go-libp2p/core/protocol"
	"github.com/libp2p/go-libp2p/internal/verifh"
	"github.com/libp2p/go-libp2p/p2p/host/peerstore/pstoremem"
	"github.com/libp2p/go-libp2p/p2p/protocol/holepunch/pb"
	"github.com/libp2p/go-msgio/pbio"
	ma "github.com/multiformats/go-multiaddr"
)

const c12hpRelay = "12D3KooWDpJ7As7BWAwRMfu1VU2WCqNjvq387JEYKDBj4kx6nXTN"
const c12hpRemote = peer.ID("c12-remote-peer")

// address of class flag = relay + 2*public, made unique by idx
func c12hpAddr(flag int64, idx int) ma.Multiaddr {
	ip := fmt.Sprintf("10.0.%d.%d", idx/200, 1+idx%200)
	if flag&2 != 0 {
		ip = fmt.Sprintf("1.2.%d.%d", idx/200, 1+idx%200)
	}
	s := fmt.Sprintf("/ip4/%s/tcp/%d", ip, 4000+idx)
	if flag&1 != 0 {
		s += "/p2p/" + c12hpRelay + "/p2p-circuit"
	}
	return ma.StringCast(s)
}

func c12hpFlag(a ma.Multiaddr) int64 {
	var f int64
	if _, err := a.ValueForProtocol(ma.P_CIRCUIT); err == nil {
		f |= 1
	}
	if v, err := a.ValueForProtocol(ma.P_IP4); err == nil && len(v) > 2 && v[:2] == "1." {
		f |= 2
	}
	return f
}

type c12hpConn struct {
	network.Conn
	raddr   ma.Multiaddr
	inbound bool
}

func (c *c12hpConn) RemoteMultiaddr() ma.Multiaddr { return c.raddr }
func (c *c12hpConn) RemotePeer() peer.ID           { return c12hpRemote }
func (c *c12hpConn) Stat() network.ConnStats {
	d := network.DirOutbound
	if c.inbound {
		d = network.DirInbound
	}
	return network.ConnStats{Stats: network.Stats{Direction: d}}
}

type c12hpStream struct {
	network.Stream
	conn *c12hpConn
	rd   *bytes.Buffer
}

func (s *c12hpStream) Read(b []byte) (int, error) {
	if s.rd.Len() == 0 {
		return 0, io.ErrUnexpectedEOF
	}
	return s.rd.Read(b)
}
func (s *c12hpStream) Write(b []byte) (int, error)                 { return len(b), nil }
func (s *c12hpStream) Close() error                                { return nil }
func (s *c12hpStream) Reset() error                                { return nil }
func (s *c12hpStream) ResetWithError(network.StreamErrorCode) error { return nil }
func (s *c12hpStream) SetDeadline(time.Time) error                 { return nil }
func (s *c12hpStream) Conn() network.Conn                          { return s.conn }
func (s *c12hpStream) Scope() network.StreamScope                  { return &network.NullScope{} }

type c12hpNet struct {
	network.Network
	conns    []network.Conn
	asked    int
	notifiee network.Notifiee
}

func (n *c12hpNet) ConnsToPeer(peer.ID) []network.Conn { n.asked++; return n.conns }
func (n *c12hpNet) Notify(f network.Notifiee)          { n.notifiee = f }

type c12hpHost struct {
	host.Host
	mu      sync.Mutex
	net     *c12hpNet
	ps      peerstore.Peerstore
	evs     []int64
	nev     int64
	dialOK  bool
	atts    []c12hpAtt
	attIdx  int
	streams int
}

type c12hpAtt struct {
	streamOK  bool
	reply     int64
	addrs     []int64
	connectOK bool
}

func (h *c12hpHost) ID() peer.ID                     { return peer.ID("c12-local-peer") }
func (h *c12hpHost) Network() network.Network        { return h.net }
func (h *c12hpHost) Peerstore() peerstore.Peerstore  { return h.ps }
func (h *c12hpHost) Addrs() []ma.Multiaddr           { return nil }
func (h *c12hpHost) SetStreamHandler(protocol.ID, network.StreamHandler) {}
func (h *c12hpHost) RemoveStreamHandler(protocol.ID) {}

func c12b(b bool) int64 {
	if b {
		return 1
	}
	return 0
}

func (h *c12hpHost) Connect(ctx context.Context, pi peer.AddrInfo) error {
	h.mu.Lock()
	defer h.mu.Unlock()
	force, _ := network.GetForceDirectDial(ctx)
	sim, client, _ := network.GetSimultaneousConnect(ctx)
	h.nev++
	if len(pi.Addrs) == 0 && !sim {
		h.evs = append(h.evs, 10, c12b(force), c12b(sim))
		if h.dialOK {
			return nil
		}
		return errors.New("c12hp: scripted direct dial failure")
	}
	h.evs = append(h.evs, 12, c12b(force), c12b(sim), c12b(client), int64(len(pi.Addrs)))
	for _, a := range pi.Addrs {
		h.evs = append(h.evs, c12hpFlag(a))
	}
	ok := false
	if h.attIdx > 0 && h.attIdx <= len(h.atts) {
		ok = h.atts[h.attIdx-1].connectOK
	}
	if ok {
		return nil
	}
	return errors.New("c12hp: scripted hole punch failure")
}

func c12hpMsg(t pb.HolePunch_Type, flags []int64) []byte {
	var buf bytes.Buffer
	w := pbio.NewDelimitedWriter(&buf)
	var addrs [][]byte
	for i, f := range flags {
		addrs = append(addrs, c12hpAddr(f, 500+i).Bytes())
	}
	w.WriteMsg(&pb.HolePunch{Type: t.Enum(), ObsAddrs: addrs})
	return buf.Bytes()
}

func (h *c12hpHost) NewStream(ctx context.Context, p peer.ID, pids ...protocol.ID) (network.Stream, error) {
	h.mu.Lock()
	defer h.mu.Unlock()
	allow, _ := network.GetAllowLimitedConn(ctx)
	nodial, _ := network.GetNoDial(ctx)
	h.nev++
	h.evs = append(h.evs, 11, c12b(allow), c12b(nodial))
	h.attIdx++
	if h.attIdx > len(h.atts) || !h.atts[h.attIdx-1].streamOK {
		return nil, errors.New("c12hp: scripted NewStream failure")
	}
	at := h.atts[h.attIdx-1]
	rd := &bytes.Buffer{}
	switch at.reply {
	case 1:
		rd.Write(c12hpMsg(pb.HolePunch_CONNECT, at.addrs))
	case 2:
		rd.Write(c12hpMsg(pb.HolePunch_SYNC, at.addrs))
	}
	return &c12hpStream{conn: &c12hpConn{raddr: c12hpAddr(1, 900)}, rd: rd}, nil
}

func c12hpFlags(r *verifh.Rand, max int, relayBias int) []int64 {
	n := r.Intn(max + 1)
	res := make([]int64, n)
	for i := range res {
		res[i] = int64(r.Intn(4))
		if r.Chance(relayBias, 10) {
			res[i] |= 1
		}
	}
	return res
}

func c12hpAddrs(flags []int64, base int) []ma.Multiaddr {
	res := make([]ma.Multiaddr, len(flags))
	for i, f := range flags {
		res[i] = c12hpAddr(f, base+i)
	}
	return res
}

type c12hpIDs struct{}

func (c12hpIDs) IdentifyConn(network.Conn) {}
func (c12hpIDs) IdentifyWait(network.Conn) <-chan struct{} {
	ch := make(chan struct{})
	close(ch)
	return ch
}
func (c12hpIDs) Start()       {}
func (c12hpIDs) Close() error { return nil }

func c12hpNewHost(connFlags []int64) *c12hpHost {
	ps, err := pstoremem.NewPeerstore()
	if err != nil {
		panic(err)
	}
	h := &c12hpHost{net: &c12hpNet{}, ps: ps}
	for i, f := range connFlags {
		h.net.conns = append(h.net.conns, &c12hpConn{raddr: c12hpAddr(f&1, 700+i)})
	}
	return h
}

func c12hpCase1(out *verifh.Out, r *verifh.Rand) {
	k := r.Intn(5)
	flags := make([]int64, k)
	for i := range flags {
		flags[i] = c12b(r.Chance(2, 3))
	}
	h := c12hpNewHost(flags)
	defer h.ps.Close()
	got := getDirectConnection(h, c12hpRemote)
	res := int64(0)
	for i, c := range h.net.conns {
		if got != nil && c == got {
			res = int64(i + 1)
		}
	}
	if got != nil && res == 0 {
		res = 99
	}
	line := []int64{1, 1, int64(k)}
	line = append(line, flags...)
	out.Case(append(line, res))
	if res == 0 {
		out.Cover("hp.getDirectConnection.nil")
	} else {
		out.Cover("hp.getDirectConnection.found")
	}
}

func c12hpCase2(out *verifh.Out, r *verifh.Rand) {
	inbound, connRelay := r.Chance(1, 5), r.Chance(4, 5)
	own := c12hpFlags(r, 3, 2)
	obs := c12hpFlags(r, 4, 4)
	msg := int64(1)
	if r.Chance(1, 6) {
		msg = int64(r.Intn(3))
	}
	sync := r.Chance(5, 6)
	h := c12hpNewHost(nil)
	defer h.ps.Close()
	ctx, cancel := context.WithCancel(context.Background())
	defer cancel()
	s := &Service{ctx: ctx, ctxCancel: cancel, host: h, directDialTimeout: time.Second,
		listenAddrs: func() []ma.Multiaddr { return c12hpAddrs(own, 100) }}
	rd := &bytes.Buffer{}
	switch msg {
	case 1:
		rd.Write(c12hpMsg(pb.HolePunch_CONNECT, obs))
	case 2:
		rd.Write(c12hpMsg(pb.HolePunch_SYNC, obs))
	}
	if sync && msg != 0 {
		rd.Write(c12hpMsg(pb.HolePunch_SYNC, nil))
	}
	str := &c12hpStream{conn: &c12hpConn{raddr: c12hpAddr(c12b(connRelay), 800), inbound: inbound}, rd: rd}
	s.handleNewStream(str)
	line := []int64{1, 2, c12b(inbound), c12b(connRelay), int64(len(own))}
	line = append(line, own...)
	line = append(line, int64(len(obs)))
	line = append(line, obs...)
	line = append(line, msg, c12b(sync && msg != 0), h.nev)
	line = append(line, h.evs...)
	out.Case(line)
	if h.nev > 0 {
		out.Cover("hp.incoming.punched")
	} else {
		out.Cover("hp.incoming.refused")
	}
	if !connRelay && !inbound {
		out.Cover("hp.incoming.stream_over_direct_conn")
	}
}

func c12hpCase3(out *verifh.Out, r *verifh.Rand) {
	var connFlags []int64
	nc := r.Intn(4)
	for i := 0; i < nc; i++ {
		connFlags = append(connFlags, c12b(!r.Chance(1, 8)))
	}
	pstore := c12hpFlags(r, 4, 3)
	listen := c12hpFlags(r, 3, 2)
	if r.Chance(1, 10) {
		listen = nil
	}
	h := c12hpNewHost(connFlags)
	defer h.ps.Close()
	h.dialOK = r.Chance(1, 4)
	na := maxRetries // every attempt the loop can make is scripted
	for i := 0; i < na; i++ {
		at := c12hpAtt{streamOK: !r.Chance(1, 8), reply: 1, addrs: c12hpFlags(r, 4, 3), connectOK: r.Chance(1, 4)}
		if r.Chance(1, 8) {
			at.reply = int64(r.Intn(3))
		}
		h.atts = append(h.atts, at)
	}
	h.ps.AddAddrs(c12hpRemote, c12hpAddrs(pstore, 200), peerstore.PermanentAddrTTL)
	ctx, cancel := context.WithCancel(context.Background())
	defer cancel()
	hp := &holePuncher{ctx: ctx, ctxCancel: cancel, host: h, active: map[peer.ID]struct{}{},
		directDialTimeout: time.Second,
		listenAddrs:       func() []ma.Multiaddr { return c12hpAddrs(listen, 300) }}
	err := hp.directConnect(c12hpRemote)
	line := []int64{1, 3, maxRetries, int64(len(connFlags))}
	line = append(line, connFlags...)
	line = append(line, int64(len(pstore)))
	line = append(line, pstore...)
	line = append(line, int64(len(listen)))
	line = append(line, listen...)
	line = append(line, c12b(h.dialOK), int64(len(h.atts)))
	for _, at := range h.atts {
		line = append(line, c12b(at.streamOK), at.reply, int64(len(at.addrs)))
		line = append(line, at.addrs...)
		line = append(line, c12b(at.connectOK))
	}
	line = append(line, h.nev)
	line = append(line, h.evs...)
	line = append(line, c12b(err == nil))
	out.Case(line)
	switch {
	case err == nil && h.nev == 0:
		out.Cover("hp.directConnect.already_direct")
	case err == nil && h.attIdx == 0:
		out.Cover("hp.directConnect.direct_dial_ok")
	case err == nil:
		out.Cover("hp.directConnect.punched")
	default:
		out.Cover("hp.directConnect.failed")
	}
	if h.attIdx == maxRetries {
		out.Cover("hp.directConnect.third_attempt")
	}
}

func c12hpCase4(out *verifh.Out, r *verifh.Rand) {
	inbound, connRelay := r.Bool(), r.Bool()
	h := c12hpNewHost([]int64{0}) // a direct conn exists: DirectConnect returns at once
	defer h.ps.Close()
	ctx, cancel := context.WithCancel(context.Background())
	defer cancel()
	hp := &holePuncher{ctx: ctx, ctxCancel: cancel, host: h, active: map[peer.ID]struct{}{},
		ids: c12hpIDs{}, directDialTimeout: time.Second, listenAddrs: func() []ma.Multiaddr { return nil }}
	(*netNotifiee)(hp).Connected(nil, &c12hpConn{raddr: c12hpAddr(c12b(connRelay), 850), inbound: inbound})
	hp.refCount.Wait()
	out.Case([]int64{1, 4, c12b(inbound), c12b(connRelay), c12b(h.net.asked > 0)})
	if h.net.asked > 0 {
		out.Cover("hp.notifiee.started")
	} else {
		out.Cover("hp.notifiee.ignored")
	}
}

func TestVerifC12HPNothing(t *testing.T) {}

func TestVerifC12HP(t *testing.T) {
	out, err := verifh.Open()
	if err != nil {
		t.Fatal(err)
	}
	defer out.Close()
	n := 1500
	if verifh.Tier() == "thorough" {
		n = 30000
	}
	r := verifh.NewRand(verifh.Seed() + 7)
	for i := 0; i < n; i++ {
		switch k := r.Intn(10); {
		case k < 1:
			c12hpCase1(out, r)
		case k < 4:
			c12hpCase2(out, r)
		case k < 9:
			c12hpCase3(out, r)
		default:
			c12hpCase4(out, r)
		}
	}
}

//go:build verif

package tcpreuse

// C04 harness for the shared TCP listener (injected with `go test -overlay`;
// not part of /repo).  A real ConnMgr over the real gated listener and resource
// manager, with only the multistream-select listener registered; raw TCP
// clients whose first bytes look like HTTP / TLS / nothing known, that close
// before three bytes arrived, that stall, or that speak multistream.  After
// each attempt: did the server close the socket, and did system + transient
// usage return to what it was.  Case line (12 fields, kind 6; format in
// /verif/coq/c04/Spec.v):  6 scenario 0 0 err raw_closed 2 dconn dfd dmem 0 goroutines_left

import (
	"io"
	"net"
	"runtime"
	"sync/atomic"
	"testing"
	"time"

	"github.com/libp2p/go-libp2p/core/network"
	"github.com/libp2p/go-libp2p/internal/verifh"
	rcmgr "github.com/libp2p/go-libp2p/p2p/host/resource-manager"
	tptu "github.com/libp2p/go-libp2p/p2p/net/upgrader"
	ma "github.com/multiformats/go-multiaddr"
	manet "github.com/multiformats/go-multiaddr/net"
)

type c04u struct{ conns, fd, mem int64 }

func c04usage(rm network.ResourceManager) c04u {
	var u c04u
	add := func(s network.ResourceScope) error {
		st := s.Stat()
		u.conns += int64(st.NumConnsInbound + st.NumConnsOutbound)
		u.fd += int64(st.NumFD)
		u.mem += st.Memory
		return nil
	}
	rm.ViewSystem(add)
	rm.ViewTransient(add)
	return u
}

// c04CountingRM counts the connections the gated listener has opened, so that an attempt is
// over only when the server has actually taken the client's connection (a connection the
// kernel completed may be accepted late, after the client is long gone)
type c04CountingRM struct {
	network.ResourceManager
	opened atomic.Int64
}

func (c *c04CountingRM) OpenConnection(dir network.Direction, usefd bool, endpoint ma.Multiaddr) (network.ConnManagementScope, error) {
	s, err := c.ResourceManager.OpenConnection(dir, usefd, endpoint)
	if err == nil {
		c.opened.Add(1)
	}
	return s, err
}

func c04wait(timeout time.Duration, f func() bool) bool {
	dl := time.Now().Add(timeout)
	for {
		if f() {
			return true
		}
		if time.Now().After(dl) {
			return false
		}
		time.Sleep(5 * time.Millisecond)
	}
}

func TestVerifC04Tcpreuse(t *testing.T) {
	out, err := verifh.Open()
	if err != nil {
		t.Fatal(err)
	}
	defer out.Close()
	old := identifyConnTimeout
	identifyConnTimeout = 300 * time.Millisecond
	defer func() { identifyConnTimeout = old }()

	rm0, err := rcmgr.NewResourceManager(rcmgr.NewFixedLimiter(rcmgr.InfiniteLimits))
	if err != nil {
		t.Fatal(err)
	}
	defer rm0.Close()
	rm := &c04CountingRM{ResourceManager: rm0}
	upg, err := tptu.New(nil, nil, nil, rm, nil)
	if err != nil {
		t.Fatal(err)
	}
	cm := NewConnMgr(false, upg)
	l, err := cm.DemultiplexedListen(ma.StringCast("/ip4/127.0.0.1/tcp/0"), DemultiplexedConnType_MultistreamSelect)
	if err != nil {
		t.Fatal(err)
	}
	defer l.Close()
	_, hostport, err := manet.DialArgs(l.Multiaddr())
	if err != nil {
		t.Fatal(err)
	}
	// accepted (routable) connections: closed by the harness, with their scope
	go func() {
		for {
			c, scope, err := l.Accept()
			if err != nil {
				return
			}
			c.Close()
			scope.Done()
		}
	}()

	scenarios := []struct {
		id    int64
		first []byte
		close bool // close right after writing
		stall bool // write and keep the socket open without sending more
	}{
		{0, []byte("GET / HTTP/1.1\r\nHost: x\r\n\r\n"), false, false}, // HTTP: no listener registered
		{1, []byte{0x16, 0x03, 0x01, 0x00, 0x05}, false, false},       // TLS ClientHello prefix: no listener registered
		{2, []byte("xyz"), false, false},                              // unknown type
		{3, nil, true, false},                                         // closes before any byte
		{4, []byte{0x13}, true, false},                                // one byte, then closes
		{5, []byte{0x13}, false, true},                                // one byte, then stalls: identify timeout
		{6, nil, false, true},                                         // nothing at all: identify timeout
		{7, []byte("\x13/multistream/1.0.0\n"), false, false},         // routable: accepted, closed by the harness
	}
	rounds := 3
	if verifh.Tier() == "thorough" {
		rounds = 20
	}
	for round := 0; round < rounds; round++ {
		for _, sc := range scenarios {
			// every attempt starts from rest (a connection of an earlier attempt that the
			// server accepted late is still being identified): otherwise the deltas of
			// this attempt would be disturbed, and the attempt is not judged
			if !c04wait(8*time.Second, func() bool { return c04usage(rm) == c04u{} }) {
				out.Cover("tcpreuse.baseline_not_at_rest")
				continue
			}
			runtime.GC()
			baseG := runtime.NumGoroutine()
			b := c04usage(rm)
			opened0 := rm.opened.Load()
			if b != (c04u{}) {
				out.Cover("tcpreuse.baseline_not_at_rest")
				continue
			}
			conn, err := net.DialTimeout("tcp", hostport, 2*time.Second)
			if err != nil {
				t.Fatal(err)
			}
			if len(sc.first) > 0 {
				conn.Write(sc.first)
			}
			if sc.close {
				conn.Close()
			}
			// the server must close the socket: the client reads EOF / an error
			closed := int64(0)
			if sc.close {
				closed = 1
			} else {
				conn.SetReadDeadline(time.Now().Add(3 * time.Second))
				buf := make([]byte, 256)
				for {
					_, rerr := conn.Read(buf)
					if rerr != nil {
						if rerr == io.EOF || !isTimeout(rerr) {
							closed = 1
						}
						break
					}
				}
				conn.Close()
			}
			var d c04u
			taken := c04wait(5*time.Second, func() bool {
				u := c04usage(rm)
				d = c04u{u.conns - b.conns, u.fd - b.fd, u.mem - b.mem}
				return rm.opened.Load() > opened0 && d == c04u{} && runtime.NumGoroutine() <= baseG
			})
			if !taken && rm.opened.Load() == opened0 {
				// the server never took this connection within the time allowed: nothing to judge yet;
				// wait for it to be taken and released before the next attempt
				out.Cover("tcpreuse.connection_not_taken_in_time")
				c04wait(10*time.Second, func() bool { return rm.opened.Load() > opened0 && c04usage(rm) == c04u{} })
				continue
			}
			gl := int64(runtime.NumGoroutine() - baseG)
			if gl < 0 {
				gl = 0
			}
			errv := int64(1)
			if sc.id == 7 {
				errv = 0
			}
			out.Case([]int64{6, sc.id, 100 + sc.id, 0, errv, closed, 2, d.conns, d.fd, d.mem, 0, gl})
			out.Cover("tcpreuse.attempts")
			if d != (c04u{}) {
				out.Cover("leak.tcpreuse_usage_not_restored")
			}
		}
	}
	// summary: after all attempts the listener holds nothing
	var u c04u
	c04wait(8*time.Second, func() bool { u = c04usage(rm); return u == c04u{} })
	out.Case([]int64{6, 99, 199, 0, 1, 1, 2, u.conns, u.fd, u.mem, 0, 0})
}

func isTimeout(err error) bool {
	ne, ok := err.(net.Error)
	return ok && ne.Timeout()
}

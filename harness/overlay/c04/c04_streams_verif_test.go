//go:build verif

// C04, stream and close part: host.NewStream stopping at each stage (no common
// protocol, resource manager refusing the protocol scope on either side,
// cancelled context, handler resetting), and Close of hosts — on the real
// basic host + swarm + resource manager.  Case lines in the wire format of
// /verif/coq/c04/Spec.v (kind 3 = stream open, kind 4 = close).
package libp2p

import (
	"context"
	"runtime"
	"testing"
	"time"

	"github.com/libp2p/go-libp2p/core/host"
	"github.com/libp2p/go-libp2p/core/network"
	"github.com/libp2p/go-libp2p/core/peer"
	"github.com/libp2p/go-libp2p/core/protocol"
	"github.com/libp2p/go-libp2p/internal/verifh"
	rcmgr "github.com/libp2p/go-libp2p/p2p/host/resource-manager"
)

type c04Usage struct{ conns, fd, streams, mem int64 }

func c04Stat(rm network.ResourceManager) c04Usage {
	var u c04Usage
	add := func(s network.ResourceScope) error {
		st := s.Stat()
		u.conns += int64(st.NumConnsInbound + st.NumConnsOutbound)
		u.fd += int64(st.NumFD)
		u.streams += int64(st.NumStreamsInbound + st.NumStreamsOutbound)
		u.mem += st.Memory
		return nil
	}
	rm.ViewSystem(add)
	rm.ViewTransient(add)
	return u
}

func c04Settle(timeout time.Duration, f func() bool) bool {
	dl := time.Now().Add(timeout)
	for {
		if f() {
			return true
		}
		if time.Now().After(dl) {
			return false
		}
		time.Sleep(5 * time.Millisecond)
	}
}

func c04MkHost(t *testing.T, blocked map[protocol.ID]bool) (host.Host, network.ResourceManager) {
	cfg := rcmgr.PartialLimitConfig{Protocol: map[protocol.ID]rcmgr.ResourceLimits{}}
	for p := range blocked {
		cfg.Protocol[p] = rcmgr.ResourceLimits{Streams: rcmgr.BlockAllLimit, StreamsInbound: rcmgr.BlockAllLimit, StreamsOutbound: rcmgr.BlockAllLimit}
	}
	rm, err := rcmgr.NewResourceManager(rcmgr.NewFixedLimiter(cfg.Build(rcmgr.InfiniteLimits)))
	if err != nil {
		t.Fatal(err)
	}
	h, err := New(ListenAddrStrings("/ip4/127.0.0.1/tcp/0"), ResourceManager(rm), DisableRelay(), DisableMetrics())
	if err != nil {
		t.Fatal(err)
	}
	return h, rm
}

func TestVerifC04Streams(t *testing.T) {
	out, err := verifh.Open()
	if err != nil {
		t.Fatal(err)
	}
	defer out.Close()
	r := verifh.NewRand(verifh.Seed())
	rounds := 3
	if verifh.Tier() == "thorough" {
		rounds = 25
	}
	const (
		pOK        = protocol.ID("/verif/c04/ok")
		pNoHandler = protocol.ID("/verif/c04/nohandler")
		pLocalRef  = protocol.ID("/verif/c04/localrefused")
		pRemoteRef = protocol.ID("/verif/c04/remoterefused")
		pReset     = protocol.ID("/verif/c04/reset")
		pReadClose = protocol.ID("/verif/c04/readclose")
	)
	h1, rm1 := c04MkHost(t, map[protocol.ID]bool{pLocalRef: true})
	h2, rm2 := c04MkHost(t, map[protocol.ID]bool{pRemoteRef: true})
	echo := func(s network.Stream) {
		buf := make([]byte, 16)
		n, _ := s.Read(buf)
		s.Write(buf[:n])
		s.Close()
	}
	h2.SetStreamHandler(pOK, echo)
	h2.SetStreamHandler(pLocalRef, echo)
	h2.SetStreamHandler(pRemoteRef, echo)
	h2.SetStreamHandler(pReset, func(s network.Stream) { s.Reset() })
	// a handler that reads until the stream fails and then finishes it with Close, not Reset
	h2.SetStreamHandler(pReadClose, func(s network.Stream) {
		buf := make([]byte, 16)
		s.SetReadDeadline(time.Now().Add(2 * time.Second))
		for {
			if _, err := s.Read(buf); err != nil {
				break
			}
		}
		s.Close()
	})
	if err := h1.Connect(context.Background(), peer.AddrInfo{ID: h2.ID(), Addrs: h2.Addrs()}); err != nil {
		t.Fatal(err)
	}
	// let identify finish so that the baseline is stable
	c04Settle(3*time.Second, func() bool {
		protos, _ := h1.Peerstore().GetProtocols(h2.ID())
		return len(protos) > 0 && c04Stat(rm1).streams == 0 && c04Stat(rm2).streams == 0
	})
	type attempt struct {
		id     int64
		proto  protocol.ID
		cancel bool
		use    bool // write/read on the stream after opening it
		raw    int  // 1: open a raw swarm stream and close it before negotiating; 2: send garbage instead of a negotiation
		end    int  // 1: after a failure finish with Close instead of Reset; 2: reset right after the first write (the remote handler Closes)
	}
	atts := []attempt{
		{0, pOK, false, true, 0, 0},
		{1, pNoHandler, false, true, 0, 0},
		{2, pLocalRef, false, true, 0, 0},
		{3, pRemoteRef, false, true, 0, 0},
		{4, pReset, false, true, 0, 0},
		{5, pOK, true, false, 0, 0},
		{6, pNoHandler, true, false, 0, 0},
		{7, "", false, false, 1, 0},
		{8, "", false, false, 2, 0},
		{9, pReset, false, true, 0, 1},     // the remote resets; this end finishes with Close
		{10, pReadClose, false, true, 0, 2}, // this end resets; the remote handler finishes with Close
	}
	for round := 0; round < rounds; round++ {
		// a round in random order, some attempts concurrently
		order := make([]attempt, len(atts))
		copy(order, atts)
		for i := len(order) - 1; i > 0; i-- {
			j := r.Intn(i + 1)
			order[i], order[j] = order[j], order[i]
		}
		for _, a := range order {
			runtime.GC()
			// at rest the two hosts hold no stream: wait for background exchanges (identify
			// push, the previous attempt's remote handler) to finish before taking the baseline
			if !c04Settle(8*time.Second, func() bool { return c04Stat(rm1).streams == 0 && c04Stat(rm2).streams == 0 }) {
				// the deltas of this attempt would be disturbed: not judged (a stream left over
				// by an earlier attempt was reported by that attempt)
				out.Cover("streams.baseline_not_at_rest")
				continue
			}
			baseG := runtime.NumGoroutine()
			b1, b2 := c04Stat(rm1), c04Stat(rm2)
			ctx, cancel := context.WithTimeout(context.Background(), 2*time.Second)
			if a.cancel {
				cancel()
			}
			var s network.Stream
			var err error
			if a.raw != 0 {
				// a stream opened below the host: the remote's newStreamHandler gets EOF
				// (or garbage) where it expects the protocol negotiation
				s, err = h1.Network().NewStream(ctx, h2.ID())
				if err == nil {
					if a.raw == 2 {
						s.Write([]byte("\x13/not-multistream/garbage\n"))
					}
					s.CloseWrite()
					s.SetDeadline(time.Now().Add(2 * time.Second))
					buf := make([]byte, 64)
					for {
						if _, rerr := s.Read(buf); rerr != nil {
							break
						}
					}
					err = context.Canceled // the attempt is a failed one by construction
					s.Close()
					s = nil
				}
			} else {
				s, err = h1.NewStream(ctx, h2.ID(), a.proto)
			}
			failed := err != nil
			if err == nil && a.end == 2 {
				s.Write([]byte("ping"))
				time.Sleep(20 * time.Millisecond)
				s.Reset()
				s = nil
				failed = true
			} else if err == nil && a.use {
				s.SetDeadline(time.Now().Add(2 * time.Second))
				if _, werr := s.Write([]byte("ping")); werr != nil {
					failed = true
				} else {
					buf := make([]byte, 16)
					if n, rerr := s.Read(buf); rerr != nil && n == 0 {
						failed = true
					}
				}
			}
			if s != nil {
				if failed && a.end != 1 {
					s.Reset()
				} else {
					s.Close()
				}
			}
			cancel()
			var d1, d2 c04Usage
			c04Settle(3*time.Second, func() bool {
				c1, c2 := c04Stat(rm1), c04Stat(rm2)
				d1 = c04Usage{c1.conns - b1.conns, c1.fd - b1.fd, c1.streams - b1.streams, c1.mem - b1.mem}
				d2 = c04Usage{c2.conns - b2.conns, c2.fd - b2.fd, c2.streams - b2.streams, c2.mem - b2.mem}
				return d1 == c04Usage{} && d2 == c04Usage{} && runtime.NumGoroutine() <= baseG
			})
			gl := int64(runtime.NumGoroutine() - baseG)
			if gl < 0 {
				gl = 0
			}
			fb := int64(0)
			if failed {
				fb = 1
			}
			// fault kind 10+id: which stage stops the attempt
			out.Case([]int64{3, 0, 10 + a.id, 0, fb, 1, 2, d1.conns, d1.fd, d1.mem, d1.streams, gl})
			out.Case([]int64{3, 1, 110 + a.id, 0, fb, 1, 2, d2.conns, d2.fd, d2.mem, d2.streams, gl})
			out.Cover("streams.attempts")
			if failed {
				out.Cover("streams.attempts_failed")
			}
			if (d1 != c04Usage{}) || (d2 != c04Usage{}) {
				out.Cover("leak.stream_scope_usage_not_restored")
			}
		}
	}
	// Close: after both hosts are closed every scope reads zero and nothing is listed
	// open a few streams and leave them open, then close
	for i := 0; i < 3; i++ {
		if s, err := h1.NewStream(context.Background(), h2.ID(), pOK); err == nil {
			s.Write([]byte("x"))
		}
	}
	h1.Close()
	h2.Close()
	for i, hr := range []struct {
		h  host.Host
		rm network.ResourceManager
	}{{h1, rm1}, {h2, rm2}} {
		var u c04Usage
		c04Settle(3*time.Second, func() bool { u = c04Stat(hr.rm); return u == c04Usage{} })
		gone := int64(1)
		if len(hr.h.Network().Conns()) != 0 || len(hr.h.Network().ListenAddresses()) != 0 {
			gone = 0
		}
		out.Case([]int64{4, int64(i), 0, 0, 1, gone, 2, u.conns, u.fd, u.mem, u.streams, 0})
		out.Cover("close.hosts")
	}
}

//go:build verif

package libp2pquic

// C04 harness for the QUIC transport (injected with `go test -overlay`; not part
// of /repo).  Real client and server transports over loopback UDP, each with a
// real resource manager, and a gater that rejects at one chosen hook, or a
// resource manager that refuses at one chosen point.  After each attempt both
// sides' system + transient usage must be back where it was.  Case line (12
// fields, kind 7; format in /verif/coq/c04/Spec.v):
//   7 side(0 client/1 server) scenario 0 err raw_closed 2 dconn dfd dmem 0 goroutines_left

import (
	"context"
	"crypto/rand"
	"io"
	"runtime"
	"testing"
	"time"

	"github.com/libp2p/go-libp2p/core/connmgr"
	"github.com/libp2p/go-libp2p/core/control"
	ic "github.com/libp2p/go-libp2p/core/crypto"
	"github.com/libp2p/go-libp2p/core/network"
	"github.com/libp2p/go-libp2p/core/peer"
	tpt "github.com/libp2p/go-libp2p/core/transport"
	"github.com/libp2p/go-libp2p/internal/verifh"
	rcmgr "github.com/libp2p/go-libp2p/p2p/host/resource-manager"
	"github.com/libp2p/go-libp2p/p2p/transport/quicreuse"
	ma "github.com/multiformats/go-multiaddr"
	"github.com/quic-go/quic-go"
)

type c04Gater struct {
	rejectAccept, rejectSecuredIn, rejectSecuredOut bool
}

var _ connmgr.ConnectionGater = &c04Gater{}

func (g *c04Gater) InterceptPeerDial(peer.ID) bool               { return true }
func (g *c04Gater) InterceptAddrDial(peer.ID, ma.Multiaddr) bool { return true }
func (g *c04Gater) InterceptAccept(network.ConnMultiaddrs) bool  { return !g.rejectAccept }
func (g *c04Gater) InterceptSecured(d network.Direction, _ peer.ID, _ network.ConnMultiaddrs) bool {
	if d == network.DirInbound {
		return !g.rejectSecuredIn
	}
	return !g.rejectSecuredOut
}
func (g *c04Gater) InterceptUpgraded(network.Conn) (bool, control.DisconnectReason) { return true, 0 }

type c04qu struct{ conns, fd, mem int64 }

func c04qUsage(rm network.ResourceManager) c04qu {
	var u c04qu
	add := func(s network.ResourceScope) error {
		st := s.Stat()
		u.conns += int64(st.NumConnsInbound + st.NumConnsOutbound)
		u.fd += int64(st.NumFD)
		u.mem += st.Memory
		return nil
	}
	rm.ViewSystem(add)
	rm.ViewTransient(add)
	return u
}

func c04qWait(timeout time.Duration, f func() bool) bool {
	dl := time.Now().Add(timeout)
	for {
		if f() {
			return true
		}
		if time.Now().After(dl) {
			return false
		}
		time.Sleep(5 * time.Millisecond)
	}
}

func c04qRcmgr(t *testing.T, connsInbound int) network.ResourceManager {
	lim := rcmgr.InfiniteLimits
	if connsInbound >= 0 {
		cfg := rcmgr.PartialLimitConfig{}
		cfg.System.ConnsInbound = rcmgr.LimitVal(connsInbound)
		if connsInbound == 0 {
			cfg.System.ConnsInbound = rcmgr.BlockAllLimit
		}
		lim = cfg.Build(rcmgr.InfiniteLimits)
	}
	rm, err := rcmgr.NewResourceManager(rcmgr.NewFixedLimiter(lim))
	if err != nil {
		t.Fatal(err)
	}
	return rm
}

// c04qHolePunchRace: transport A is hole punching towards B (server role of a simultaneous
// connect) and gives up (context cancelled) at the very moment at which B's connection is accepted
// by A's listener and handed to the attempt.  The interleaving is forced with A's own mutexes:
// holePunch is parked on rndMx after registering the attempt; the accept loop is parked on
// holePunchingMx after wrapping B's conn (scope opened); then both proceed, the accept loop first.
// Whatever the order, B's connection must come out of the Dial or of Accept, so that it can be
// closed and its scope released.
func c04qHolePunchRace(t *testing.T, out *verifh.Out, mk func() (peer.ID, ic.PrivKey)) {
	rm := c04qRcmgr(t, -1)
	defer rm.Close()
	idA, keyA := mk()
	idB, keyB := mk()
	newCM := func() *quicreuse.ConnManager {
		cm, err := quicreuse.NewConnManager(quic.StatelessResetKey{}, quic.TokenGeneratorKey{})
		if err != nil {
			t.Fatal(err)
		}
		return cm
	}
	cmA, cmB := newCM(), newCM()
	defer cmA.Close()
	defer cmB.Close()
	laddr := ma.StringCast("/ip4/127.0.0.1/udp/0/quic-v1")
	trA, err := NewTransport(keyA, cmA, nil, nil, rm)
	if err != nil {
		t.Fatal(err)
	}
	tA := trA.(*transport)
	lnA, err := trA.Listen(laddr)
	if err != nil {
		t.Fatal(err)
	}
	acceptedA := make(chan tpt.CapableConn, 4)
	doneA := make(chan struct{})
	go func() {
		defer close(doneA)
		for {
			c, err := lnA.Accept()
			if err != nil {
				return
			}
			acceptedA <- c
		}
	}()
	trB, err := NewTransport(keyB, cmB, nil, nil, nil)
	if err != nil {
		t.Fatal(err)
	}
	lnB, err := trB.Listen(laddr)
	if err != nil {
		t.Fatal(err)
	}
	doneB := make(chan struct{})
	go func() {
		defer close(doneB)
		for {
			c, err := lnB.Accept()
			if err != nil {
				return
			}
			c.Close()
		}
	}()
	b0 := c04qUsage(rm)
	tA.rndMx.Lock()
	hpCtx, hpCancel := context.WithCancel(context.Background())
	defer hpCancel()
	type dialRes struct {
		c   tpt.CapableConn
		err error
	}
	hpRes := make(chan dialRes, 1)
	go func() {
		c, err := trA.Dial(network.WithSimultaneousConnect(hpCtx, false, ""), lnB.Multiaddr(), idB)
		hpRes <- dialRes{c, err}
	}()
	registered := c04qWait(5*time.Second, func() bool {
		tA.holePunchingMx.Lock()
		defer tA.holePunchingMx.Unlock()
		return len(tA.holePunching) == 1
	})
	hpCancel()
	tA.holePunchingMx.Lock()
	dialCtx, dialCancel := context.WithTimeout(context.Background(), 10*time.Second)
	defer dialCancel()
	connB, derr := trB.Dial(network.WithSimultaneousConnect(dialCtx, true, ""), lnA.Multiaddr(), idA)
	wrapped := c04qWait(5*time.Second, func() bool { return c04qUsage(rm).conns-b0.conns >= 1 })
	time.Sleep(200 * time.Millisecond)
	tA.rndMx.Unlock()
	time.Sleep(300 * time.Millisecond)
	tA.holePunchingMx.Unlock()
	var got []tpt.CapableConn
	select {
	case r := <-hpRes:
		if r.err == nil && r.c != nil {
			got = append(got, r.c)
		}
	case <-time.After(10 * time.Second):
		out.Cover("quic.holepunch_dial_did_not_return")
	}
	select {
	case c := <-acceptedA:
		got = append(got, c)
	case <-time.After(500 * time.Millisecond):
	}
	for _, c := range got {
		c.Close()
	}
	if connB != nil {
		connB.Close()
	}
	lnA.Close()
	lnB.Close()
	<-doneA
	<-doneB
	if c, ok := trA.(io.Closer); ok {
		c.Close()
	}
	if c, ok := trB.(io.Closer); ok {
		c.Close()
	}
	var d c04qu
	c04qWait(4*time.Second, func() bool {
		u := c04qUsage(rm)
		d = c04qu{u.conns - b0.conns, u.fd - b0.fd, u.mem - b0.mem}
		return d == c04qu{}
	})
	if !registered || !wrapped || derr != nil {
		// the forced interleaving did not take place: nothing to judge
		out.Cover("quic.holepunch_race_not_reached")
		return
	}
	lost := int64(1)
	if len(got) == 0 {
		lost = 0 // the connection came out nowhere: nobody could close it
	}
	out.Case([]int64{7, 1, 306, 0, 1, lost, 2, d.conns, d.fd, d.mem, 0, 0})
	out.Cover("quic.holepunch_giveup_races_with_accept")
}

func TestVerifC04Quic(t *testing.T) {
	out, err := verifh.Open()
	if err != nil {
		t.Fatal(err)
	}
	defer out.Close()
	mk := func() (peer.ID, ic.PrivKey) {
		priv, _, err := ic.GenerateEd25519Key(rand.Reader)
		if err != nil {
			t.Fatal(err)
		}
		id, _ := peer.IDFromPrivateKey(priv)
		return id, priv
	}
	// scenario: 0 none (success, closed by the harness), 1 server gater rejects at InterceptAccept,
	// 2 server gater rejects at InterceptSecured, 3 client gater rejects at InterceptSecured,
	// 4 server rcmgr refuses the inbound connection, 5 dial for the wrong peer ID
	rounds := 2
	if verifh.Tier() == "thorough" {
		rounds = 12
	}
	for round := 0; round < rounds; round++ {
		c04qHolePunchRace(t, out, mk)
		for sc := int64(0); sc <= 5; sc++ {
			serverID, serverKey := mk()
			_, clientKey := mk()
			wrongID, _ := mk()
			sg := &c04Gater{rejectAccept: sc == 1, rejectSecuredIn: sc == 2}
			cg := &c04Gater{rejectSecuredOut: sc == 3}
			inb := -1
			if sc == 4 {
				inb = 0
			}
			srm, crm := c04qRcmgr(t, inb), c04qRcmgr(t, -1)
			newCM := func() *quicreuse.ConnManager {
				cm, err := quicreuse.NewConnManager(quic.StatelessResetKey{}, quic.TokenGeneratorKey{})
				if err != nil {
					t.Fatal(err)
				}
				return cm
			}
			scm, ccm := newCM(), newCM()
			st, err := NewTransport(serverKey, scm, nil, sg, srm)
			if err != nil {
				t.Fatal(err)
			}
			ct, err := NewTransport(clientKey, ccm, nil, cg, crm)
			if err != nil {
				t.Fatal(err)
			}
			ln, err := st.Listen(ma.StringCast("/ip4/127.0.0.1/udp/0/quic-v1"))
			if err != nil {
				t.Fatal(err)
			}
			accepted := make(chan tpt.CapableConn, 4)
			go func() {
				for {
					c, err := ln.Accept()
					if err != nil {
						return
					}
					accepted <- c
				}
			}()
			runtime.GC()
			baseG := runtime.NumGoroutine()
			bs, bc := c04qUsage(srm), c04qUsage(crm)
			target := serverID
			if sc == 5 {
				target = wrongID
			}
			ctx, cancel := context.WithTimeout(context.Background(), 5*time.Second)
			conn, derr := ct.Dial(ctx, ln.Multiaddr(), target)
			cancel()
			failed := derr != nil
			var sconn tpt.CapableConn
			if derr == nil {
				// the dial may succeed before the server side rejects: the rejection then
				// shows as the connection dying
				select {
				case sconn = <-accepted:
				case <-time.After(700 * time.Millisecond):
				}
				if sconn == nil {
					failed = true
					s, aerr := conn.AcceptStream()
					if aerr == nil && s != nil {
						s.Reset()
					}
				}
				conn.Close()
				if sconn != nil {
					sconn.Close()
				}
			}
			var ds, dc c04qu
			c04qWait(8*time.Second, func() bool {
				// a connection the listener's Accept handed to the harness is the harness's to
				// close (under load the server side can be delivered although the dial failed,
				// e.g. when the client's rejection arrives after the server accepted)
				for drained := false; !drained; {
					select {
					case c := <-accepted:
						c.Close()
						out.Cover("quic.late_delivered_conn_closed_by_harness")
					default:
						drained = true
					}
				}
				us, uc := c04qUsage(srm), c04qUsage(crm)
				ds = c04qu{us.conns - bs.conns, us.fd - bs.fd, us.mem - bs.mem}
				dc = c04qu{uc.conns - bc.conns, uc.fd - bc.fd, uc.mem - bc.mem}
				return ds == c04qu{} && dc == c04qu{}
			})
			_ = baseG
			fb := int64(0)
			if failed {
				fb = 1
			}
			if (sc != 0) != failed {
				out.Comment("quic scenario outcome unexpected")
				out.Cover("quic.scenario_outcome_unexpected")
			}
			out.Case([]int64{7, 0, 200 + sc, 0, fb, 1, 2, dc.conns, dc.fd, dc.mem, 0, 0})
			out.Case([]int64{7, 1, 300 + sc, 0, fb, 1, 2, ds.conns, ds.fd, ds.mem, 0, 0})
			out.Cover("quic.attempts")
			if ds != (c04qu{}) || dc != (c04qu{}) {
				out.Cover("leak.quic_usage_not_restored")
			}
			ln.Close()
			if c, ok := st.(io.Closer); ok {
				c.Close()
			}
			if c, ok := ct.(io.Closer); ok {
				c.Close()
			}
			scm.Close()
			ccm.Close()
			srm.Close()
			crm.Close()
		}
	}
}

//go:build verif

// Fault enumeration for property C04 on the REAL upgrader,
// TCP transport and resource manager (injected into /repo's module with
// `go test -overlay`; not part of the repository).
//
// For every I/O operation index k (counted in a fault-free dry run) on either
// end of the raw connection a fault is injected and the attempt's leftovers
// are measured: was the raw net.Conn closed by the code under test, did the
// resource manager's system/transient usage return to its previous value, are
// goroutines of the attempt still running.  One case line per end per attempt
// (wire format in /verif/coq/c04/Spec.v).
package upgrader_test

import (
	"context"
	"crypto/rand"
	"errors"
	"fmt"
	"io"
	"net"
	"os"
	"runtime"
	"sync"
	"sync/atomic"
	"testing"
	"time"

	"github.com/libp2p/go-libp2p/core/connmgr"
	"github.com/libp2p/go-libp2p/core/control"
	"github.com/libp2p/go-libp2p/core/crypto"
	"github.com/libp2p/go-libp2p/core/network"
	"github.com/libp2p/go-libp2p/core/peer"
	ipnet "github.com/libp2p/go-libp2p/core/pnet"
	"github.com/libp2p/go-libp2p/core/sec"
	"github.com/libp2p/go-libp2p/core/transport"
	"github.com/libp2p/go-libp2p/internal/verifh"
	rcmgr "github.com/libp2p/go-libp2p/p2p/host/resource-manager"
	"github.com/libp2p/go-libp2p/p2p/muxer/yamux"
	"github.com/libp2p/go-libp2p/p2p/net/upgrader"
	noise "github.com/libp2p/go-libp2p/p2p/security/noise"
	tls "github.com/libp2p/go-libp2p/p2p/security/tls"
	"github.com/libp2p/go-libp2p/p2p/transport/tcp"

	ma "github.com/multiformats/go-multiaddr"
	manet "github.com/multiformats/go-multiaddr/net"
)

// ---- fault-injecting net.Conn ------------------------------------------------

const (
	fNone = iota
	fReadErr
	fWriteErr
	fEOF
	fAbruptClose // the underlying socket dies under the code's feet at a read
	fStall       // a read blocks until the deadline or Close
)

type faultConn struct {
	net.Conn
	kind     int
	at       int // index of the read (or write, for fWriteErr) at which the fault fires
	reads    atomic.Int32
	writes   atomic.Int32
	closed   atomic.Bool
	fired    atomic.Bool
	closeCh  chan struct{}
	once     sync.Once
	mu       sync.Mutex
	deadline time.Time
}

func newFaultConn(c net.Conn, kind, at int) *faultConn {
	return &faultConn{Conn: c, kind: kind, at: at, closeCh: make(chan struct{})}
}

var errInjected = errors.New("injected fault")

// how long after the end of its context a call may take before the harness calls it stuck
const c04StuckBound = 25 * time.Second

// stuck attempts so far; after two, the remaining fault positions of the run are skipped
// (each costs the bound) — the failing cases have been written
var c04Stuck int

func (f *faultConn) Read(b []byte) (int, error) {
	i := int(f.reads.Add(1)) - 1
	if i == f.at || (f.fired.Load() && f.kind != fWriteErr) {
		switch f.kind {
		case fReadErr:
			f.fired.Store(true)
			return 0, errInjected
		case fEOF:
			f.fired.Store(true)
			return 0, io.EOF
		case fAbruptClose:
			f.fired.Store(true)
			f.Conn.Close()
			return 0, errInjected
		case fStall:
			f.fired.Store(true)
			f.mu.Lock()
			dl := f.deadline
			f.mu.Unlock()
			var tm <-chan time.Time
			if !dl.IsZero() {
				t := time.NewTimer(time.Until(dl))
				defer t.Stop()
				tm = t.C
			}
			select {
			case <-f.closeCh:
				return 0, net.ErrClosed
			case <-tm:
				return 0, os.ErrDeadlineExceeded
			case <-time.After(5 * time.Second):
				return 0, errors.New("stall: nobody closed the connection or set a deadline within 5s")
			}
		}
	}
	return f.Conn.Read(b)
}

func (f *faultConn) Write(b []byte) (int, error) {
	i := int(f.writes.Add(1)) - 1
	if f.kind == fWriteErr && (i == f.at || f.fired.Load()) {
		f.fired.Store(true)
		return 0, errInjected
	}
	if f.fired.Load() && f.kind == fAbruptClose {
		return 0, errInjected
	}
	return f.Conn.Write(b)
}

func (f *faultConn) Close() error {
	f.closed.Store(true)
	f.once.Do(func() { close(f.closeCh) })
	return f.Conn.Close()
}

func (f *faultConn) SetDeadline(t time.Time) error {
	f.mu.Lock()
	f.deadline = t
	f.mu.Unlock()
	return f.Conn.SetDeadline(t)
}

func (f *faultConn) SetReadDeadline(t time.Time) error {
	f.mu.Lock()
	f.deadline = t
	f.mu.Unlock()
	return f.Conn.SetReadDeadline(t)
}

// ---- plumbing ----------------------------------------------------------------

type faultPlan struct {
	mu   sync.Mutex
	kind int
	at   int
	last *faultConn
	all  []*faultConn
}

func (p *faultPlan) wrap(c net.Conn) *faultConn {
	p.mu.Lock()
	defer p.mu.Unlock()
	fc := newFaultConn(c, p.kind, p.at)
	p.last = fc
	p.all = append(p.all, fc)
	return fc
}

func (p *faultPlan) set(kind, at int) {
	p.mu.Lock()
	p.kind, p.at, p.last, p.all = kind, at, nil, nil
	p.mu.Unlock()
}

func (p *faultPlan) allClosed() bool {
	p.mu.Lock()
	defer p.mu.Unlock()
	for _, f := range p.all {
		if !f.closed.Load() {
			return false
		}
	}
	return true
}

func (p *faultPlan) conn() *faultConn {
	p.mu.Lock()
	defer p.mu.Unlock()
	return p.last
}

// dialer handed to the TCP transport (WithDialerForAddr)
type faultDialer struct{ plan *faultPlan }

func (d *faultDialer) DialContext(ctx context.Context, network, address string) (net.Conn, error) {
	var nd net.Dialer
	c, err := nd.DialContext(ctx, network, address)
	if err != nil {
		return nil, err
	}
	return d.plan.wrap(c), nil
}

// listener whose accepted conns are wrapped
type faultListener struct {
	manet.Listener
	plan *faultPlan
}

func (l *faultListener) Accept() (manet.Conn, error) {
	c, err := l.Listener.Accept()
	if err != nil {
		return nil, err
	}
	fc := l.plan.wrap(c)
	return manet.WrapNetConn(fc)
}

type end struct {
	id    peer.ID
	rm    network.ResourceManager
	up    transport.Upgrader
	tpt   *tcp.TcpTransport
	plan  *faultPlan
	gater *scriptGater
}

type scriptGater struct {
	rejectAccept, rejectSecured, rejectUpgraded atomic.Bool
}

func (g *scriptGater) InterceptPeerDial(peer.ID) bool               { return true }
func (g *scriptGater) InterceptAddrDial(peer.ID, ma.Multiaddr) bool { return true }
func (g *scriptGater) InterceptAccept(network.ConnMultiaddrs) bool  { return !g.rejectAccept.Load() }
func (g *scriptGater) InterceptSecured(network.Direction, peer.ID, network.ConnMultiaddrs) bool {
	return !g.rejectSecured.Load()
}
func (g *scriptGater) InterceptUpgraded(network.Conn) (bool, control.DisconnectReason) {
	return !g.rejectUpgraded.Load(), 0
}

var _ connmgr.ConnectionGater = (*scriptGater)(nil)

type config struct {
	id      int64
	useTLS  bool
	psk     bool
	metrics bool
	// the client's stream muxer (negotiated inside the security handshake) fails in NewConn
	clientMuxerFails bool
	// AcceptQueueLength for this world's listener (0 = default)
	queueLen int
	// the security transports get no muxer list: the muxer is negotiated by multistream after
	// the handshake (upgrader.setupMuxer's second branch, which watches the context)
	noEarlyMuxer bool
}

type failMuxer struct{}

func (failMuxer) NewConn(net.Conn, bool, network.PeerScope) (network.MuxedConn, error) {
	return nil, errors.New("muxer refuses")
}

func mkEnd(t *testing.T, cfg config, psk ipnet.PSK, client bool) *end {
	priv, _, err := crypto.GenerateEd25519Key(rand.Reader)
	if err != nil {
		t.Fatal(err)
	}
	id, _ := peer.IDFromPrivateKey(priv)
	rm, err := rcmgr.NewResourceManager(rcmgr.NewFixedLimiter(rcmgr.InfiniteLimits))
	if err != nil {
		t.Fatal(err)
	}
	muxers := []upgrader.StreamMuxer{{ID: "/yamux/1.0.0", Muxer: yamux.DefaultTransport}}
	if client && cfg.clientMuxerFails {
		muxers = []upgrader.StreamMuxer{{ID: "/yamux/1.0.0", Muxer: failMuxer{}}}
	}
	var st sec.SecureTransport
	secMuxers := muxers
	if cfg.noEarlyMuxer {
		secMuxers = nil
	}
	if cfg.useTLS {
		st, err = tls.New(tls.ID, priv, secMuxers)
	} else {
		st, err = noise.New(noise.ID, priv, secMuxers)
	}
	if err != nil {
		t.Fatal(err)
	}
	e := &end{id: id, rm: rm, plan: &faultPlan{}, gater: &scriptGater{}}
	var p ipnet.PSK
	if cfg.psk {
		p = psk
	}
	e.up, err = upgrader.New([]sec.SecureTransport{st}, muxers, p, rm, e.gater, upgrader.WithAcceptTimeout(400*time.Millisecond))
	if err != nil {
		t.Fatal(err)
	}
	opts := []tcp.Option{tcp.WithDialerForAddr(func(ma.Multiaddr) (tcp.ContextDialer, error) {
		return &faultDialer{plan: e.plan}, nil
	}), tcp.DisableReuseport()}
	if cfg.metrics {
		opts = append(opts, tcp.WithMetrics())
	}
	e.tpt, err = tcp.NewTCPTransport(e.up, rm, nil, opts...)
	if err != nil {
		t.Fatal(err)
	}
	return e
}

type usage struct {
	conns, fd, streams int64
	mem                int64
}

func stat(rm network.ResourceManager) usage {
	var u usage
	add := func(s network.ResourceScope) error {
		st := s.Stat()
		u.conns += int64(st.NumConnsInbound + st.NumConnsOutbound)
		u.fd += int64(st.NumFD)
		u.streams += int64(st.NumStreamsInbound + st.NumStreamsOutbound)
		u.mem += st.Memory
		return nil
	}
	rm.ViewSystem(add)
	rm.ViewTransient(add)
	return u
}

// settle waits until f() is true or the timeout passes
func settle(timeout time.Duration, f func() bool) bool {
	dl := time.Now().Add(timeout)
	for {
		if f() {
			return true
		}
		if time.Now().After(dl) {
			return false
		}
		time.Sleep(5 * time.Millisecond)
	}
}

func b2i(b bool) int64 {
	if b {
		return 1
	}
	return 0
}

type world struct {
	cfg      config
	srv, cli *end
	ln       transport.Listener
	laddr    ma.Multiaddr
	accepted chan transport.CapableConn
	paused   atomic.Bool // the harness's accept loop does not call Accept while set
}

func mkWorld(t *testing.T, cfg config) *world {
	psk := make([]byte, 32)
	rand.Read(psk)
	w := &world{cfg: cfg, accepted: make(chan transport.CapableConn, 16)}
	w.srv = mkEnd(t, cfg, psk, false)
	w.cli = mkEnd(t, cfg, psk, true)
	if cfg.queueLen > 0 {
		old := upgrader.AcceptQueueLength
		upgrader.AcceptQueueLength = cfg.queueLen
		defer func() { upgrader.AcceptQueueLength = old }()
	}
	ml, err := manet.Listen(ma.StringCast("/ip4/127.0.0.1/tcp/0"))
	if err != nil {
		t.Fatal(err)
	}
	w.laddr = ml.Multiaddr()
	w.ln = w.srv.up.UpgradeListener(w.srv.tpt, &faultListener{Listener: ml, plan: w.srv.plan})
	go func() {
		for {
			for w.paused.Load() {
				time.Sleep(2 * time.Millisecond)
			}
			c, err := w.ln.Accept()
			if err != nil {
				close(w.accepted)
				return
			}
			w.accepted <- c
		}
	}()
	return w
}

// closeBounded: listener.Close waits for its per-connection goroutines; if one of them is
// stuck it never returns.  The bound only detects that.
func closeBounded(out *verifh.Out, ln transport.Listener) bool {
	done := make(chan struct{})
	go func() {
		ln.Close()
		close(done)
	}()
	select {
	case <-done:
		return true
	case <-time.After(c04StuckBound):
		if out != nil {
			out.Cover("attempt.STUCK_listener_close_did_not_return")
		}
		return false
	}
}

func (w *world) close() {
	if !closeBounded(nil, w.ln) {
		return // abandoned: its goroutines were reported as left over by the attempt that got stuck
	}
	for c := range w.accepted {
		if c != nil {
			c.Close() // a conn Accept handed to the harness is the harness's to close
		}
	}
}

// one attempt: the client dials the server through the real TCP transport.
// faulty = 0: fault on the client's raw conn, 1: on the server's raw conn.
// Returns (reads, writes) seen on the faulty end's raw conn (for the dry run).
func (w *world) attempt(out *verifh.Out, faulty int, kind, at int, special int) (int, int) {
	cli, srv := w.cli, w.srv
	cli.plan.set(fNone, 0)
	srv.plan.set(fNone, 0)
	if faulty == 0 {
		cli.plan.set(kind, at)
	} else {
		srv.plan.set(kind, at)
	}
	runtime.GC()
	time.Sleep(15 * time.Millisecond)
	baseG := runtime.NumGoroutine()
	baseC, baseS := stat(cli.rm), stat(srv.rm)

	target := srv.id
	switch special {
	case 1: // outbound dial with an empty peer ID (upgrader: ErrNilPeer)
		target = ""
	case 2:
		srv.gater.rejectSecured.Store(true)
	case 3:
		cli.gater.rejectSecured.Store(true)
	case 4:
		srv.gater.rejectAccept.Store(true)
	case 5: // private network forced by the environment but no PSK configured
		ipnet.ForcePrivateNetwork = true
	}
	ctx, cancel := context.WithTimeout(context.Background(), 400*time.Millisecond)
	// watchdog: the dial's context ends after 400 ms; a call that has still not returned
	// c04StuckBound later, with both ends idle, is stuck (a silent peer keeps the upgrade
	// blocked although its context ended).  The attempt is then written as a case like any
	// other (no error reported yet, raw conn not closed, usage not back, goroutines left)
	// and the harness moves on.
	type dialRes struct {
		conn transport.CapableConn
		err  error
	}
	resCh := make(chan dialRes, 1)
	go func() {
		c, e := cli.tpt.Dial(ctx, w.laddr, target)
		resCh <- dialRes{c, e}
	}()
	var conn transport.CapableConn
	var err error
	stuck := false
	select {
	case r := <-resCh:
		conn, err = r.conn, r.err
	case <-time.After(c04StuckBound):
		stuck = true
		err = errors.New("the dial did not return although its context ended long ago")
		c04Stuck++
		out.Cover("attempt.STUCK_call_did_not_return_after_its_context_ended")
		out.Comment(fmt.Sprintf("stuck attempt: cfg=%d special=%d faulty=%d kind=%d at=%d: Dial (context 400ms) did not return within %v", w.cfg.id, special, faulty, kind, at, c04StuckBound))
	}
	cancel()
	var sconn transport.CapableConn
	if stuck {
		// nothing to wait for
	} else if err == nil {
		select {
		case sconn = <-w.accepted:
		case <-time.After(700 * time.Millisecond):
		}
		// success path: exercise the conn, then close both ends; the same
		// release rule must hold afterwards
		conn.Close()
		if sconn != nil {
			sconn.Close()
		}
	} else {
		// the server may still have delivered a conn (fault after its side completed)
		select {
		case sconn = <-w.accepted:
			sconn.Close()
		case <-time.After(50 * time.Millisecond):
		}
	}
	srv.gater.rejectSecured.Store(false)
	cli.gater.rejectSecured.Store(false)
	srv.gater.rejectAccept.Store(false)
	ipnet.ForcePrivateNetwork = false

	// wait for things to settle, then measure leftovers
	var dC, dS usage
	settle(5*time.Second, func() bool {
		// a conn the server finished after we stopped waiting for it is still
		// ours to close (the accept queue handed it to the harness)
		for drained := false; !drained; {
			select {
			case late, ok := <-w.accepted:
				if ok && late != nil {
					late.Close()
					sconn = late
				} else {
					drained = true
				}
			default:
				drained = true
			}
		}
		c, s := stat(cli.rm), stat(srv.rm)
		dC = usage{c.conns - baseC.conns, c.fd - baseC.fd, c.streams - baseC.streams, c.mem - baseC.mem}
		dS = usage{s.conns - baseS.conns, s.fd - baseS.fd, s.streams - baseS.streams, s.mem - baseS.mem}
		cf, sf := cli.plan.conn(), srv.plan.conn()
		return dC == usage{} && dS == usage{} && (cf == nil || cf.closed.Load()) && (sf == nil || sf.closed.Load()) &&
			runtime.NumGoroutine() <= baseG
	})
	gl := int64(runtime.NumGoroutine() - baseG)
	if gl < 0 {
		gl = 0
	}
	cf, sf := cli.plan.conn(), srv.plan.conn()
	closedOf := func(f *faultConn) int64 {
		if f == nil {
			return 1 // no raw conn was ever created on this end
		}
		return b2i(f.closed.Load())
	}
	fk := int64(kind)
	errv := b2i(err != nil)
	cfgv := w.cfg.id*10 + int64(special)
	// client end (kind 1 = outbound dial)
	ck, sk := fk, fk+100
	if faulty == 1 {
		ck, sk = fk+100, fk
	}
	out.Case([]int64{1, cfgv, ck, int64(at), errv, closedOf(cf), 2, dC.conns, dC.fd, dC.mem, dC.streams, gl})
	// server end (kind 2 = inbound accept)
	out.Case([]int64{2, cfgv, sk, int64(at), b2i(sconn == nil), closedOf(sf), 2, dS.conns, dS.fd, dS.mem, dS.streams, gl})
	out.Cover(fmt.Sprintf("attempt.fault%d", kind))
	if err != nil {
		out.Cover("attempt.client_error")
	} else {
		out.Cover("attempt.client_ok")
	}
	if closedOf(cf) == 0 || closedOf(sf) == 0 {
		out.Cover("leak.raw_conn_left_open")
		out.Comment(fmt.Sprintf("raw conn left open: cfg=%d special=%d faulty=%d kind=%d at=%d err=%v", w.cfg.id, special, faulty, kind, at, err))
	}
	if (dC != usage{}) || (dS != usage{}) {
		out.Cover("leak.scope_usage_not_restored")
	}
	if gl != 0 {
		out.Cover("leak.goroutines")
	}
	var r, wr int
	f := cf
	if faulty == 1 {
		f = sf
	}
	if f != nil {
		r, wr = int(f.reads.Load()), int(f.writes.Load())
	}
	// make sure leaked raw conns do not poison later attempts
	if cf != nil && !cf.closed.Load() {
		cf.Conn.Close()
	}
	if sf != nil && !sf.closed.Load() {
		sf.Conn.Close()
	}
	if stuck {
		// closing the raw sockets under the stuck calls lets them go; a conn that still comes out is closed
		select {
		case r := <-resCh:
			if r.conn != nil {
				r.conn.Close()
			}
		case <-time.After(10 * time.Second):
		}
		settle(5*time.Second, func() bool { return runtime.NumGoroutine() <= baseG })
	}
	return r, wr
}

// slowAccept: nobody calls Accept for longer than the accept timeout while k
// connections complete their upgrade: the listener must drop them (accept-queue
// timeout) and release everything it held for them.
func (w *world) slowAccept(out *verifh.Out, k int, kill bool) {
	cli, srv := w.cli, w.srv
	cli.plan.set(fNone, 0)
	srv.plan.set(fNone, 0)
	runtime.GC()
	time.Sleep(15 * time.Millisecond)
	baseG := runtime.NumGoroutine()
	baseC, baseS := stat(cli.rm), stat(srv.rm)
	w.paused.Store(true)
	time.Sleep(10 * time.Millisecond) // let the loop park (one Accept call may already be pending)
	var conns []transport.CapableConn
	for i := 0; i < k; i++ {
		ctx, cancel := context.WithTimeout(context.Background(), 400*time.Millisecond)
		c, err := cli.tpt.Dial(ctx, w.laddr, srv.id)
		cancel()
		if err == nil {
			conns = append(conns, c)
		}
	}
	if kill {
		// the remote goes away while the upgraded connections wait in the accept
		// queue; Accept is called again BEFORE the accept timeout expires
		for _, c := range conns {
			c.Close()
		}
		time.Sleep(120 * time.Millisecond)
	} else {
		time.Sleep(700 * time.Millisecond) // accept timeout is 400ms
	}
	w.paused.Store(false)
	delivered := 0
	for done := false; !done; {
		select {
		case c, ok := <-w.accepted:
			if ok && c != nil {
				delivered++
				c.Close()
			} else {
				done = true
			}
		case <-time.After(100 * time.Millisecond):
			done = true
		}
	}
	for _, c := range conns {
		c.Close()
	}
	var dC, dS usage
	settle(5*time.Second, func() bool {
		c, s := stat(cli.rm), stat(srv.rm)
		dC = usage{c.conns - baseC.conns, c.fd - baseC.fd, c.streams - baseC.streams, c.mem - baseC.mem}
		dS = usage{s.conns - baseS.conns, s.fd - baseS.fd, s.streams - baseS.streams, s.mem - baseS.mem}
		return dC == usage{} && dS == usage{} && runtime.NumGoroutine() <= baseG
	})
	gl := int64(runtime.NumGoroutine() - baseG)
	if gl < 0 {
		gl = 0
	}
	sf := srv.plan.conn()
	closed := int64(1)
	if sf != nil && !sf.closed.Load() {
		closed = 0
	}
	cfgv := w.cfg.id*10 + 6
	fk := int64(200)
	if kill {
		cfgv, fk = w.cfg.id*10+7, 201
	}
	out.Case([]int64{1, cfgv, fk, int64(k), 0, 1, 2, dC.conns, dC.fd, dC.mem, dC.streams, gl})
	out.Case([]int64{2, cfgv, fk, int64(k), b2i(delivered < k), closed, 2, dS.conns, dS.fd, dS.mem, dS.streams, gl})
	out.Cover("attempt.slow_accept")
	if kill {
		out.Cover("attempt.conn_died_in_accept_queue")
	}
	if delivered < k {
		out.Cover("attempt.slow_accept_dropped_conns")
	}
}

// closeWithParked: the accept queue is full (queueLen upgraded connections nobody
// accepts), one more raw connection is parked at the threshold, then the listener
// is closed.  Everything the listener held must be released.  Must be the last
// scenario of its world.
func (w *world) closeWithParked(out *verifh.Out) {
	cli, srv := w.cli, w.srv
	cli.plan.set(fNone, 0)
	srv.plan.set(fNone, 0)
	runtime.GC()
	time.Sleep(15 * time.Millisecond)
	baseG := runtime.NumGoroutine()
	baseS := stat(srv.rm)
	w.paused.Store(true)
	time.Sleep(10 * time.Millisecond)
	n := w.cfg.queueLen + 3 // one may be taken by an Accept call already pending in the harness loop; the surplus parks at the threshold
	var wg sync.WaitGroup
	var mu sync.Mutex
	var conns []transport.CapableConn
	for i := 0; i < n; i++ {
		wg.Add(1)
		go func() {
			defer wg.Done()
			ctx, cancel := context.WithTimeout(context.Background(), 300*time.Millisecond)
			defer cancel()
			if c, err := cli.tpt.Dial(ctx, w.laddr, srv.id); err == nil {
				mu.Lock()
				conns = append(conns, c)
				mu.Unlock()
			}
		}()
		time.Sleep(20 * time.Millisecond)
	}
	time.Sleep(120 * time.Millisecond) // queue full, the last raw conn parked (accept timeout 400ms not reached)
	lnClosed := closeBounded(out, w.ln)
	w.paused.Store(false)
	wg.Wait()
	for lnClosed {
		c, ok := <-w.accepted
		if !ok {
			break
		}
		if c != nil {
			c.Close() // a conn Accept handed to the harness is the harness's to close
		}
	}
	for _, c := range conns {
		c.Close()
	}
	var dS usage
	settle(5*time.Second, func() bool {
		s := stat(srv.rm)
		dS = usage{s.conns - baseS.conns, s.fd - baseS.fd, s.streams - baseS.streams, s.mem - baseS.mem}
		return dS == usage{} && srv.plan.allClosed() && runtime.NumGoroutine() <= baseG
	})
	gl := int64(runtime.NumGoroutine() - baseG)
	if gl < 0 {
		gl = 0
	}
	out.Case([]int64{2, w.cfg.id*10 + 9, 202, int64(n), 1, b2i(srv.plan.allClosed()), 2, dS.conns, dS.fd, dS.mem, dS.streams, gl})
	out.Cover("attempt.listener_closed_with_parked_conn")
}

func TestVerifC04(t *testing.T) {
	out, err := verifh.Open()
	if err != nil {
		t.Fatal(err)
	}
	defer out.Close()
	thorough := verifh.Tier() == "thorough"
	r := verifh.NewRand(verifh.Seed())

	cfgs := []config{
		{id: 1, useTLS: false, psk: false},
		{id: 2, useTLS: true, psk: false},
		{id: 3, useTLS: false, psk: true},
		{id: 4, useTLS: true, psk: true},
		{id: 10, noEarlyMuxer: true},
	}
	for _, cfg := range cfgs {
		w := mkWorld(t, cfg)
		// dry runs: count the I/O operations of a fault-free attempt on each end
		var nr, nw [2]int
		for faulty := 0; faulty < 2; faulty++ {
			nr[faulty], nw[faulty] = w.attempt(out, faulty, fNone, 0, 0)
			out.Comment(fmt.Sprintf("dry run cfg=%d end=%d reads=%d writes=%d", cfg.id, faulty, nr[faulty], nw[faulty]))
		}
		full := thorough || cfg.id == int64(1+r.Intn(4)) || cfg.id == 1
		for faulty := 0; faulty < 2; faulty++ {
			for _, kind := range []int{fReadErr, fWriteErr, fEOF, fAbruptClose, fStall} {
				n := nr[faulty]
				if kind == fWriteErr {
					n = nw[faulty]
				}
				if n > 24 {
					n = 24 // ops after the handshake belong to the established conn
				}
				for k := 0; k < n; k++ {
					if c04Stuck >= 2 {
						out.Cover("attempt.skipped_after_two_stuck_attempts")
						continue
					}
					if kind == fStall && !thorough && !(k <= 3 || k == n/2 || k >= n-2) {
						continue
					}
					if !full && !(k == 0 || k == n-1 || r.Chance(1, 3)) {
						continue
					}
					w.attempt(out, faulty, kind, k, 0)
				}
			}
		}
		// gater rejections and special configurations, fault-free I/O
		for special := 1; special <= 5; special++ {
			if special == 5 && cfg.psk {
				continue
			}
			w.attempt(out, 0, fNone, 0, special)
		}
		w.slowAccept(out, 1+int(cfg.id%3), false)
		w.slowAccept(out, 1+int((cfg.id+1)%3), true)
		w.close()
	}
	// the muxer negotiated inside the security handshake fails on the client
	for _, cfg := range []config{{id: 6, clientMuxerFails: true}, {id: 7, useTLS: true, clientMuxerFails: true}} {
		w := mkWorld(t, cfg)
		w.attempt(out, 0, fNone, 0, 0)
		out.Cover("attempt.early_muxer_fails")
		w.close()
	}
	// listener closed while the accept queue is full and one more conn is parked
	for _, cfg := range []config{{id: 8, queueLen: 2}, {id: 9, useTLS: true, queueLen: 1}} {
		w := mkWorld(t, cfg)
		w.closeWithParked(out)
	}
	// metrics enabled with a dialer that does not return a *net.TCPConn
	// (newTracingConn fails after the raw conn has been dialed)
	w := mkWorld(t, config{id: 5, metrics: true})
	w.attempt(out, 0, fNone, 0, 0)
	w.close()
}

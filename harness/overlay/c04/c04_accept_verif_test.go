//go:build verif

// C04, accept pipeline against listener.Close (kind 8; wire format and the LTS in
// /verif/coq/c04/Accept.v).  The REAL upgrader listener (handleIncoming, its
// per-connection goroutines, threshold, Accept, Close) with the real resource
// manager is given raw TCP connections whose remote side the harness steers
// (never starts the handshake / completes it / sends garbage), Accept is called
// or not, and Close is called at a seeded point, so that Close meets connections
// that are accepted but not upgraded, parked at the threshold, upgraded and
// waiting to be handed over, received by Accept, or already handed over.  What
// can be seen from outside is logged in the order it happens (raw Accept
// returned, the code closed a raw conn, Accept called / returned, Close called /
// returned): conformance = the model accepts that event sequence; monitor = at
// the end every raw conn is closed, usage is back, no goroutine is left.
package upgrader_test

import (
	"context"
	"crypto/rand"
	"net"
	"runtime"
	"sync"
	"sync/atomic"
	"testing"
	"time"

	"github.com/libp2p/go-libp2p/core/connmgr"
	"github.com/libp2p/go-libp2p/core/control"
	"github.com/libp2p/go-libp2p/core/crypto"
	"github.com/libp2p/go-libp2p/core/network"
	"github.com/libp2p/go-libp2p/core/peer"
	"github.com/libp2p/go-libp2p/core/sec"
	"github.com/libp2p/go-libp2p/core/transport"
	"github.com/libp2p/go-libp2p/internal/verifh"
	rcmgr "github.com/libp2p/go-libp2p/p2p/host/resource-manager"
	"github.com/libp2p/go-libp2p/p2p/muxer/yamux"
	"github.com/libp2p/go-libp2p/p2p/net/upgrader"
	noise "github.com/libp2p/go-libp2p/p2p/security/noise"
	"github.com/libp2p/go-libp2p/p2p/transport/tcp"

	ma "github.com/multiformats/go-multiaddr"
	manet "github.com/multiformats/go-multiaddr/net"
)

type c04aLog struct {
	mu  sync.Mutex
	evs []int64
}

func (l *c04aLog) add(code, arg int64) {
	l.mu.Lock()
	l.evs = append(l.evs, code, arg)
	l.mu.Unlock()
}

type c04aConn struct {
	net.Conn
	id     int64
	log    *c04aLog
	closed atomic.Bool
	quiet  atomic.Bool // the harness itself closes it (it owns the conn Accept handed over)
}

func (c *c04aConn) Close() error {
	if c.closed.CompareAndSwap(false, true) && !c.quiet.Load() {
		c.log.add(2, c.id)
	}
	return c.Conn.Close()
}

type c04aListener struct {
	manet.Listener
	log    *c04aLog
	mu     sync.Mutex
	conns  []*c04aConn
	byPort map[int]*c04aConn
	closed atomic.Bool
}

func (l *c04aListener) Accept() (manet.Conn, error) {
	c, err := l.Listener.Accept()
	if err != nil {
		return nil, err
	}
	l.mu.Lock()
	ac := &c04aConn{Conn: c, id: int64(len(l.conns)), log: l.log}
	l.conns = append(l.conns, ac)
	if ta, ok := c.RemoteAddr().(*net.TCPAddr); ok {
		l.byPort[ta.Port] = ac
	}
	// logged while the lock is held: ids are in arrival order
	l.log.add(1, ac.id)
	l.mu.Unlock()
	return manet.WrapNetConn(ac)
}

func (l *c04aListener) Close() error {
	l.closed.Store(true)
	return l.Listener.Close()
}

// a gater that can park the server's Upgrade after the security handshake
// (InterceptSecured), i.e. at a point where the upgrade no longer looks at its context
type c04aGater struct {
	hold    atomic.Bool
	release chan struct{}
	parked  atomic.Int32
}

func (g *c04aGater) InterceptPeerDial(peer.ID) bool               { return true }
func (g *c04aGater) InterceptAddrDial(peer.ID, ma.Multiaddr) bool { return true }
func (g *c04aGater) InterceptAccept(network.ConnMultiaddrs) bool  { return true }
func (g *c04aGater) InterceptSecured(network.Direction, peer.ID, network.ConnMultiaddrs) bool {
	if g.hold.Load() {
		g.parked.Add(1)
		<-g.release
	}
	return true
}
func (g *c04aGater) InterceptUpgraded(network.Conn) (bool, control.DisconnectReason) {
	return true, 0
}

func c04aEnd(t *testing.T, acceptTimeout time.Duration, g *c04aGater) *end {
	priv, _, err := crypto.GenerateEd25519Key(rand.Reader)
	if err != nil {
		t.Fatal(err)
	}
	id, _ := peer.IDFromPrivateKey(priv)
	rm, err := rcmgr.NewResourceManager(rcmgr.NewFixedLimiter(rcmgr.InfiniteLimits))
	if err != nil {
		t.Fatal(err)
	}
	muxers := []upgrader.StreamMuxer{{ID: "/yamux/1.0.0", Muxer: yamux.DefaultTransport}}
	st, err := noise.New(noise.ID, priv, muxers)
	if err != nil {
		t.Fatal(err)
	}
	e := &end{id: id, rm: rm, plan: &faultPlan{}, gater: &scriptGater{}}
	var cg connmgr.ConnectionGater
	if g != nil {
		cg = g
	}
	e.up, err = upgrader.New([]sec.SecureTransport{st}, muxers, nil, rm, cg, upgrader.WithAcceptTimeout(acceptTimeout))
	if err != nil {
		t.Fatal(err)
	}
	e.tpt, err = tcp.NewTCPTransport(e.up, rm, nil, tcp.DisableReuseport())
	if err != nil {
		t.Fatal(err)
	}
	return e
}

var c04aStuck int

const (
	c04aStall     = 0 // the remote never starts the handshake
	c04aHandshake = 1 // the remote completes the upgrade
	c04aGarbage   = 2 // the remote sends garbage and goes away
)

func c04aAcceptCase(t *testing.T, out *verifh.Out, r *verifh.Rand, forced int) {
	capQ := 1 + r.Intn(2)
	nconn := 1 + r.Intn(3)
	acceptTimeout := time.Hour
	shortTimeout := r.Chance(1, 5)
	if forced == 4 {
		shortTimeout = true
	}
	if shortTimeout {
		acceptTimeout = 40 * time.Millisecond
	}
	gate := &c04aGater{release: make(chan struct{})}
	srv := c04aEnd(t, acceptTimeout, gate)
	cli := c04aEnd(t, time.Hour, nil)
	defer srv.rm.Close()
	defer cli.rm.Close()
	runtime.GC()
	baseG := runtime.NumGoroutine() // the two resource managers' background goroutines included
	base := stat(srv.rm)

	ml, err := manet.Listen(ma.StringCast("/ip4/127.0.0.1/tcp/0"))
	if err != nil {
		t.Fatal(err)
	}
	log := &c04aLog{}
	rawl := &c04aListener{Listener: ml, log: log, byPort: map[int]*c04aConn{}}
	old := upgrader.AcceptQueueLength
	upgrader.AcceptQueueLength = capQ
	ln := srv.up.UpgradeListener(srv.tpt, rawl)
	upgrader.AcceptQueueLength = old
	laddr := ml.Multiaddr()

	// the remote side
	var cwg sync.WaitGroup
	var cmu sync.Mutex
	var cliConns []transport.CapableConn
	var cliRaw []net.Conn
	upgradedCh := make(chan struct{}, nconn)
	dial := func(mode int) {
		if mode == c04aStall && c04aStuck >= 2 {
			// listener.Close did not return twice with a silent remote: the failing cases are
			// written; each further one would cost the bound
			mode = c04aHandshake
			out.Cover("accept.silent_remote_skipped_after_two_stuck_closes")
		}
		var d net.Dialer
		ctx, cancel := context.WithTimeout(context.Background(), 10*time.Second)
		defer cancel()
		host, _ := manet.ToNetAddr(laddr)
		rc, err := d.DialContext(ctx, "tcp", host.String())
		if err != nil {
			return
		}
		cmu.Lock()
		cliRaw = append(cliRaw, rc)
		cmu.Unlock()
		switch mode {
		case c04aStall:
		case c04aGarbage:
			rc.Write([]byte("\x13/multistream/9.9.9\nrubbish rubbish rubbish\n"))
			rc.Close()
		case c04aHandshake:
			cwg.Add(1)
			go func() {
				defer cwg.Done()
				mc, err := manet.WrapNetConn(rc)
				if err != nil {
					return
				}
				scope, err := cli.rm.OpenConnection(network.DirOutbound, true, laddr)
				if err != nil {
					rc.Close()
					return
				}
				ctx, cancel := context.WithTimeout(context.Background(), 20*time.Second)
				defer cancel()
				cc, err := cli.up.Upgrade(ctx, cli.tpt, mc, network.DirOutbound, srv.id, scope)
				if err != nil {
					scope.Done()
					return
				}
				cmu.Lock()
				cliConns = append(cliConns, cc)
				cmu.Unlock()
				upgradedCh <- struct{}{}
			}()
		}
	}

	// the caller of Accept: one call at a time
	var delivered []transport.CapableConn
	var dmu sync.Mutex
	var accDone chan struct{}
	accIdle := func() bool {
		if accDone == nil {
			return true
		}
		select {
		case <-accDone:
			return true
		default:
			return false
		}
	}
	callAccept := func() {
		if !accIdle() {
			return
		}
		done := make(chan struct{})
		accDone = done
		log.add(3, 0)
		go func() {
			defer close(done)
			c, err := ln.Accept()
			if err != nil {
				log.add(5, 0)
				return
			}
			id := int64(-1)
			if na, e2 := manet.ToNetAddr(c.RemoteMultiaddr()); e2 == nil {
				if ta, ok := na.(*net.TCPAddr); ok {
					rawl.mu.Lock()
					if ac := rawl.byPort[ta.Port]; ac != nil {
						id = ac.id
					}
					rawl.mu.Unlock()
				}
			}
			dmu.Lock()
			delivered = append(delivered, c)
			dmu.Unlock()
			log.add(4, id)
		}()
	}
	closeDone := make(chan struct{})
	closeCalled := false
	callClose := func() {
		if closeCalled {
			return
		}
		closeCalled = true
		log.add(6, 0)
		go func() {
			defer close(closeDone)
			ln.Close()
			log.add(7, 0)
		}()
	}
	pause := func() {
		switch r.Intn(5) {
		case 0:
		case 1:
			runtime.Gosched()
		case 2:
			time.Sleep(time.Duration(r.Intn(300)) * time.Microsecond)
		case 3:
			time.Sleep(time.Duration(1+r.Intn(4)) * time.Millisecond)
		default:
			time.Sleep(time.Duration(5+r.Intn(25)) * time.Millisecond)
		}
	}
	waitUpgraded := func(k int) {
		// wait (bounded) until k more remote handshakes have completed: the server side is
		// then upgraded or about to be; only the coverage depends on this, not the verdict
		for i := 0; i < k; i++ {
			select {
			case <-upgradedCh:
			case <-time.After(500 * time.Millisecond):
				return
			}
		}
	}

	switch forced {
	case 1: // Close while the raw conn is accepted but its upgrade has not finished
		dial(c04aStall)
		settle(500*time.Millisecond, func() bool { log.mu.Lock(); defer log.mu.Unlock(); return len(log.evs) >= 2 })
		pause()
		callClose()
		out.Cover("accept.forced_close_during_upgrade")
	case 2: // Close while upgraded connections wait to be handed over (nobody accepts), one more parked
		for i := 0; i < capQ; i++ {
			dial(c04aHandshake)
		}
		waitUpgraded(capQ)
		dial(c04aHandshake)
		pause()
		callClose()
		out.Cover("accept.forced_close_with_queued")
	case 3: // Close after Accept handed a connection over, and while another Accept call is blocked
		dial(c04aHandshake)
		callAccept()
		waitUpgraded(1)
		settle(500*time.Millisecond, accIdle)
		callAccept()
		pause()
		callClose()
		out.Cover("accept.forced_close_after_handover")
	case 4: // accept timeout: nobody accepts; Close afterwards
		dial(c04aHandshake)
		waitUpgraded(1)
		time.Sleep(acceptTimeout + 20*time.Millisecond) // only the coverage depends on this
		callClose()
		out.Cover("accept.forced_queue_wait")
	case 5: // the upgrade completes while Close is already draining: the goroutine finds both the
		// drain loop and the cancelled context ready
		gate.hold.Store(true)
		k := 1 + r.Intn(2)
		for i := 0; i < k; i++ {
			dial(c04aHandshake)
		}
		settle(2*time.Second, func() bool { return int(gate.parked.Load()) >= k })
		callClose()
		settle(2*time.Second, func() bool { return rawl.closed.Load() })
		time.Sleep(time.Duration(1+r.Intn(5)) * time.Millisecond) // coverage only: let Close reach its drain loop
		gate.hold.Store(false)
		close(gate.release)
		out.Cover("accept.forced_upgrade_completes_during_drain")
	default:
		// a seeded script
		var script []int
		for i := 0; i < nconn; i++ {
			script = append(script, 10+[]int{c04aStall, c04aHandshake, c04aHandshake, c04aHandshake, c04aGarbage}[r.Intn(5)])
		}
		for i := r.Intn(nconn + 2); i > 0; i-- {
			script = append(script, 1) // Accept
		}
		script = append(script, 2) // Close
		if r.Chance(1, 2) {
			script = append(script, 3) // wait for the remote handshakes so far
		}
		for i := len(script) - 1; i > 0; i-- {
			j := r.Intn(i + 1)
			script[i], script[j] = script[j], script[i]
		}
		nHand := 0
		for _, a := range script {
			pause()
			switch {
			case a >= 10:
				dial(a - 10)
				if a-10 == c04aHandshake {
					nHand++
				}
			case a == 1:
				callAccept()
			case a == 2:
				callClose()
			case a == 3:
				waitUpgraded(nHand)
				nHand = 0
			}
		}
		if r.Chance(1, 3) {
			pause()
			callAccept() // after Close: must get the listener's error
		}
	}
	callClose()
	closeReturned := false
	select {
	case <-closeDone:
		closeReturned = true
	case <-time.After(c04StuckBound):
		out.Cover("accept.CLOSE_DID_NOT_RETURN")
		c04aStuck++
	}
	if accDone != nil {
		select {
		case <-accDone:
		case <-time.After(30 * time.Second):
			out.Cover("accept.ACCEPT_DID_NOT_RETURN")
		}
	}
	// the trace ends here; what follows is the harness releasing what it owns
	log.mu.Lock()
	evs := append([]int64{}, log.evs...)
	log.mu.Unlock()
	dmu.Lock()
	for _, c := range delivered {
		if na, e2 := manet.ToNetAddr(c.RemoteMultiaddr()); e2 == nil {
			if ta, ok := na.(*net.TCPAddr); ok {
				rawl.mu.Lock()
				if ac := rawl.byPort[ta.Port]; ac != nil {
					ac.quiet.Store(true)
				}
				rawl.mu.Unlock()
			}
		}
		c.Close()
	}
	ndelivered := len(delivered)
	dmu.Unlock()
	cmu.Lock()
	for _, rc := range cliRaw {
		rc.Close()
	}
	cmu.Unlock()
	cwg.Wait()
	cmu.Lock()
	for _, cc := range cliConns {
		cc.Close()
	}
	cmu.Unlock()
	if !closeReturned {
		// keep the process usable for the next case
		ml.Close()
	}
	var d usage
	settle(10*time.Second, func() bool {
		s := stat(srv.rm)
		d = usage{s.conns - base.conns, s.fd - base.fd, s.streams - base.streams, s.mem - base.mem}
		if d != (usage{}) {
			return false
		}
		rawl.mu.Lock()
		defer rawl.mu.Unlock()
		for _, ac := range rawl.conns {
			if !ac.closed.Load() {
				return false
			}
		}
		return runtime.NumGoroutine() <= baseG
	})
	gl := int64(runtime.NumGoroutine() - baseG)
	if gl < 0 {
		gl = 0
	}
	rawl.mu.Lock()
	line := []int64{8, int64(capQ), b2i(rawl.closed.Load()), d.conns, d.fd, d.mem, d.streams, gl, int64(len(rawl.conns))}
	isDelivered := map[int64]bool{}
	for i := 0; i+1 < len(evs); i += 2 {
		if evs[i] == 4 {
			isDelivered[evs[i+1]] = true
		}
	}
	for _, ac := range rawl.conns {
		line = append(line, b2i(isDelivered[ac.id]), b2i(ac.closed.Load()))
	}
	nraw := len(rawl.conns)
	rawl.mu.Unlock()
	line = append(line, int64(len(evs)/2))
	line = append(line, evs...)
	out.Case(line)
	out.Cover("accept.cases")
	// what the trace went through
	closeAt := -1
	for i := 0; i+1 < len(evs); i += 2 {
		switch evs[i] {
		case 6:
			closeAt = i
		case 2:
			if closeAt >= 0 {
				out.Cover("accept.raw_closed_after_close_called")
			} else {
				out.Cover("accept.raw_closed_before_close_called")
			}
		case 1:
			if closeAt >= 0 {
				out.Cover("accept.raw_accepted_after_close_called")
			}
		case 4:
			if closeAt >= 0 {
				out.Cover("accept.delivered_after_close_called")
			} else {
				out.Cover("accept.delivered_before_close_called")
			}
		case 5:
			out.Cover("accept.accept_returned_listener_error")
		}
	}
	if ndelivered > 0 {
		out.Cover("accept.case_with_handed_over_conn")
	}
	if nraw > capQ {
		out.Cover("accept.more_conns_than_queue")
	}
	if shortTimeout {
		out.Cover("accept.short_accept_timeout")
	}
}

func TestVerifC04Accept(t *testing.T) {
	out, err := verifh.Open()
	if err != nil {
		t.Fatal(err)
	}
	defer out.Close()
	n := 60
	if verifh.Tier() == "thorough" {
		n = 1500
	}
	r := verifh.NewRand(verifh.Seed() + 808)
	for f := 1; f <= 5; f++ {
		reps := 3
		if f == 5 {
			reps = 8
		}
		for k := 0; k < reps; k++ {
			c04aAcceptCase(t, out, r.Fork(), f)
		}
	}
	for i := 0; i < n; i++ {
		c04aAcceptCase(t, out, r.Fork(), 0)
	}
}
